// Language `auth`: BasicAuthMiddleware in front of an instrumented handler, one request.
#include "common.h"
#include "simtcp.h"
#include <QPointer>
#include <qhttpengine/basicauthmiddleware.h>
#include <qhttpengine/handler.h>
#include <qhttpengine/socket.h>

using namespace QHttpEngine;
void urlOracle(const QByteArray &stream, Out &out);

namespace {
class OkHandler : public Handler
{
public:
    QStringList *obs;
    explicit OkHandler(QStringList *l) : obs(l) {}
protected:
    void process(Socket *socket, const QString &) override
    {
        obs->append("mw:0:1");
        obs->append("pr:0:-");
        socket->write("ok");
        socket->close();
    }
};
}

void runAuth(const Scn &scn, Out &out)
{
    QStringList *obs = &out.obs;
    QByteArray realm, head;
    QList<QPair<QByteArray, QByteArray>> creds;
    foreach (const QString &t, scn.toks) {
        QStringList p = t.split(':');
        if (p[0] == "cred") creds << qMakePair(unhx(p[1]), unhx(p[2]));
        else if (p[0] == "realm") realm = unhx(p[1]);
        else if (p[0] == "head") head = unhx(p[1]);
    }
    QByteArray stream = head + "\r\n\r\n";
    urlOracle(stream, out);
    BasicAuthMiddleware mw(QString::fromUtf8(realm));
    for (auto &c : creds) mw.add(QString::fromUtf8(c.first), QString::fromUtf8(c.second));
    OkHandler handler(obs);
    handler.addMiddleware(&mw);

    QPointer<SimTcp> tcp = new SimTcp;
    tcp->log = obs;
    *obs << "e:0";
    QPointer<Socket> sock = new Socket(tcp);
    bool routed = false;
    QObject::connect(sock.data(), &Socket::headersParsed, [&]() {
        routed = true;
        int before = obs->size();
        handler.route(sock, sock->path().mid(1));
        // a refusal is visible as "no pr": record the verdict first, as the model does
        if (!obs->mid(before).contains("pr:0:-")) obs->insert(before, "mw:0:0");
    });
    *obs << "e:1";
    tcp->feed(stream);
    *obs << "e:2";
    eventTurn();
    out.obs << "end";
    if (tcp) tcp->log = nullptr;
    if (sock) delete sock.data();
    eventTurn();
}
