// Language `auth`: BasicAuthMiddleware in front of an instrumented handler, one request.
#include "common.h"
#include "simtcp.h"
#include <QPointer>
#include <qhttpengine/basicauthmiddleware.h>
#include <qhttpengine/handler.h>
#include <qhttpengine/socket.h>

using namespace QHttpEngine;
void urlOracle(const QByteArray &stream, Out &out);

namespace {
class OkHandler : public Handler
{
public:
    QStringList *obs;
    explicit OkHandler(QStringList *l) : obs(l) {}
protected:
    void process(Socket *socket, const QString &) override
    {
        obs->append("mw:0:1");
        obs->append("pr:0:-");
        socket->write("ok");
        socket->close();
    }
};
}

void runAuth(const Scn &scn, Out &out)
{
    // tokens are processed in order on ONE middleware instance: `cred` registers (or replaces) a
    // credential, `head` sends one request on a fresh connection
    QStringList *obs = &out.obs;
    QByteArray realm;
    foreach (const QString &t, scn.toks) {
        QStringList p = t.split(':');
        if (p[0] == "realm") realm = unhx(p[1]);
    }
    BasicAuthMiddleware mw(QString::fromUtf8(realm));
    OkHandler handler(obs);
    handler.addMiddleware(&mw);
    foreach (const QString &t, scn.toks) {
        QStringList p = t.split(':');
        if (p[0] == "cred") { mw.add(QString::fromUtf8(unhx(p[1])), QString::fromUtf8(unhx(p[2]))); continue; }
        if (p[0] != "head") continue;
        QByteArray stream = unhx(p[1]) + "\r\n\r\n";
        urlOracle(stream, out);
        QPointer<SimTcp> tcp = new SimTcp;
        tcp->log = obs;
        *obs << "e:0";
        QPointer<Socket> sock = new Socket(tcp);
        QObject::connect(sock.data(), &Socket::headersParsed, [&]() {
            int before = obs->size();
            handler.route(sock, sock->path().mid(1));
            // a refusal is visible as "no pr": record the verdict first, as the model does
            if (!obs->mid(before).contains("pr:0:-")) obs->insert(before, "mw:0:0");
        });
        *obs << "e:1";
        tcp->feed(stream);
        *obs << "e:2";
        eventTurn();
        if (tcp) tcp->log = nullptr;
        if (sock) delete sock.data();
        eventTurn();
    }
    out.obs << "end";
}
