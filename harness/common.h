#pragma once
#include <QByteArray>
#include <QString>
#include <QStringList>
#include <QList>
#include <cstdio>

inline QString hx(const QByteArray &b) { return b.isEmpty() ? QString("-") : QString::fromLatin1(b.toHex()); }
inline QByteArray unhx(const QString &s) { return (s == "-" || s == "~") ? QByteArray() : QByteArray::fromHex(s.toLatin1()); }

struct Scn {
    QString prop, lang, id;
    QStringList toks;
};

struct Out {
    QStringList ora;
    QStringList obs;
};

// each language executor
void runSock(const Scn &scn, Out &out);
void runQt(const Scn &scn, Out &out);
void runRange(const Scn &scn, Out &out);
void runRoute(const Scn &scn, Out &out);
void runAuth(const Scn &scn, Out &out);
void runCopier(const Scn &scn, Out &out);
void runFs(const Scn &scn, Out &out);
void runSlot(const Scn &scn, Out &out);
void runLauth(const Scn &scn, Out &out);
void runProxy(const Scn &scn, Out &out);
void runLife(const Scn &scn, Out &out);
void runTls(const Scn &scn, Out &out);

QByteArray errorPage(int code, const QByteArray &reason, bool nullReason);
// one event-loop turn: timers and queued calls, then deferred deletes
void eventTurn();
