// Language `life`: one connection behind the real Server glue (ServerPrivate::process) with a
// handler of a given kind; the connection is ended at a chosen point, by either side or by
// destroying the server.  Live QObjects are counted through Qt's qtHookData table, descriptors
// through /proc/self/fd.
#include "common.h"
#include "simtcp.h"
#include "slotobj.h"
#include <QCoreApplication>
#include <QDir>
#include <QPointer>
#include <set>
#include <QElapsedTimer>
#include <QTcpServer>
#include <QTcpSocket>
#include <QThread>
#include <qhttpengine/filesystemhandler.h>
#include <qhttpengine/proxyhandler.h>
#include <qhttpengine/qobjecthandler.h>
#include <qhttpengine/server.h>
#include <qhttpengine/socket.h>
#include "server_p.h"
using namespace QHttpEngine;
void urlOracle(const QByteArray &stream, Out &out);
void fsOracle(Out &out);

extern Q_CORE_EXPORT quintptr qtHookData[];
static std::set<QObject *> *liveSet = nullptr;
static void hookAdd(QObject *o) { if (liveSet) liveSet->insert(o); }
static void hookRemove(QObject *o) { if (liveSet) liveSet->erase(o); }

static int fdCount() { return QDir("/proc/self/fd").entryList(QDir::NoDotAndDotDot | QDir::AllEntries | QDir::System).size(); }

void runLife(const Scn &scn, Out &out)
{
    QStringList *obs = &out.obs;
    QString kind = "nf";
    QByteArray root, stream;
    QStringList events;
    foreach (const QString &t, scn.toks) {
        QStringList p = t.split(':');
        if (p[0] == "kind") kind = p[1];
        else if (p[0] == "root") root = unhx(p[1]);
        else { events << t; if (p[0] == "feed") stream.append(unhx(p[1])); }
    }
    urlOracle(stream, out);
    fsOracle(out);

    SlotObj slotObj; QStringList sink; slotObj.obs = &sink; slotObj.idx[0] = 0;
    Handler *handler;
    // kind proxy: the upstream is a server on loopback that accepts and never answers
    QTcpServer upstream;
    QList<QTcpSocket *> accepted;
    if (kind == "proxy") upstream.listen(QHostAddress::LocalHost, 0);
    auto turn = [&]() {
        if (kind != "proxy") { eventTurn(); return; }
        int quiet = 0;
        QElapsedTimer timer; timer.start();
        while (quiet < 4 && timer.elapsed() < 2000) {
            int before = obs->size() + accepted.size();
            QCoreApplication::processEvents(QEventLoop::AllEvents, 2);
            QCoreApplication::sendPostedEvents(nullptr, QEvent::DeferredDelete);
            while (upstream.hasPendingConnections()) accepted << upstream.nextPendingConnection();
            if (obs->size() + accepted.size() == before) { ++quiet; QThread::msleep(2); } else quiet = 0;
        }
    };
    if (kind == "proxy") {
        // Qt creates process-wide helper objects the first time a real socket connects: do that once,
        // outside the accounting
        static bool warmed = false;
        if (!warmed) {
            warmed = true;
            QTcpSocket probe;
            probe.connectToHost(QHostAddress::LocalHost, upstream.serverPort());
            probe.waitForConnected(1000);
            for (int i = 0; i < 3; ++i) { QCoreApplication::processEvents(QEventLoop::AllEvents, 2); QThread::msleep(2); }
            while (upstream.hasPendingConnections()) delete upstream.nextPendingConnection();
            probe.abort();
            for (int i = 0; i < 3; ++i) { QCoreApplication::processEvents(QEventLoop::AllEvents, 2); QThread::msleep(2); }
        }
        handler = new ProxyHandler(QHostAddress::LocalHost, upstream.serverPort());
    } else if (kind == "slot") {
        QObjectHandler *h = new QObjectHandler;
        h->registerMethod("s", &slotObj, SLOT(s0(QHttpEngine::Socket*)), true);
        handler = h;
    } else {
        handler = new FilesystemHandler(QString::fromUtf8(root));
    }
    Server *server = new Server(handler);
    ServerPrivate *sp = server->findChild<ServerPrivate *>();
    eventTurn();
    int fd0 = fdCount();

    std::set<QObject *> live;
    liveSet = &live;
    qtHookData[3] = quintptr(&hookAdd);
    qtHookData[4] = quintptr(&hookRemove);

    QPointer<SimTcp> tcp = new SimTcp;
    tcp->log = obs;
    bool started = false;
    int k = 0;
    foreach (const QString &t, events) {
        QStringList p = t.split(':');
        *obs << QString("e:%1").arg(k++);
        if (p[0] == "new") { if (!started && server) { started = true; sp->process(tcp); } }
        else if (p[0] == "feed") { if (tcp) tcp->feed(unhx(p[1])); }
        else if (p[0] == "turn") turn();
        // deferred deletions are delivered before anything else the event loop has pending (a connection attempt
        // that completes, data that arrived): both orders are possible in a real event loop
        else if (p[0] == "reap") QCoreApplication::sendPostedEvents(nullptr, QEvent::DeferredDelete);
        else if (p[0] == "ackall") { if (tcp) tcp->ackAll(); }
        else if (p[0] == "ack") { if (tcp) tcp->ack(p[1].toLongLong()); }
        else if (p[0] == "peerclose") { if (tcp) tcp->peerClose(); }
        else if (p[0] == "upsend") {
            // kind proxy: the upstream server (which otherwise only listens) sends something and keeps its connection open
            foreach (QTcpSocket *a, accepted) { if (a->state() == QAbstractSocket::ConnectedState) { a->write(unhx(p[1])); a->flush(); } }
        }
        else if (p[0] == "killhandler") {
            // the handler object is replaced and destroyed while the request it was given is in flight (it has
            // been routed: before that the token does nothing); what it started for the connection is not its own
            Socket *hs = server ? sp->findChild<Socket *>() : nullptr;
            if (!hs && handler) hs = handler->findChild<Socket *>();       // the proxy handler re-parents the socket to itself
            if (server && handler && hs && hs->isHeadersParsed()) { server->setHandler(nullptr); delete handler; handler = nullptr; }
        }
        else if (p[0] == "killserver") { if (server) { if (tcp) tcp->log = nullptr; delete server; server = nullptr; } }
    }
    // both sides closed, then quiescence
    if (tcp) { tcp->log = nullptr; tcp->peerClose(); }
    if (tcp) tcp->ackAll();
    for (int i = 0; i < 4; ++i) turn();
    // the harness's own end of the upstream connections is not a per-connection object of the library
    foreach (QTcpSocket *a, accepted) delete a;
    accepted.clear();
    if (kind == "proxy") { upstream.close(); turn(); turn(); }
    if (!started && tcp) delete tcp.data();
    int leaked = int(live.size());
    QStringList classes;
    for (QObject *o : live) classes << o->metaObject()->className();
    qtHookData[3] = 0; qtHookData[4] = 0; liveSet = nullptr;
    *obs << QString("x:30:%1").arg(leaked, 2, 16, QChar('0'));
    *obs << QString("x:31:%1").arg(qMax(0, fdCount() - fd0), 2, 16, QChar('0'));
    if (leaked) out.ora << "leak:" + classes.join(",");
    out.obs << "end";
    if (server) delete server;
    delete handler;
    eventTurn();
}
