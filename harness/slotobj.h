#pragma once
#include <QObject>
#include <QStringList>
#include <qhttpengine/socket.h>

// receiver of the slot handler scenarios: five good slots and one with a wrong signature
class SlotObj : public QObject
{
    Q_OBJECT
public:
    QStringList *obs = nullptr;
    int idx[5] = {-1, -1, -1, -1, -1};      // registration index served by each slot
    void hit(int k, QHttpEngine::Socket *s) { obs->append(QString("slot:%1:%2").arg(idx[k]).arg(s->bytesAvailable())); }
public Q_SLOTS:
    void s0(QHttpEngine::Socket *s) { hit(0, s); }
    void s1(QHttpEngine::Socket *s) { hit(1, s); }
    void s2(QHttpEngine::Socket *s) { hit(2, s); }
    void s3(QHttpEngine::Socket *s) { hit(3, s); }
    void s4(QHttpEngine::Socket *s) { hit(4, s); }
    void wrong(int) {}
};

// a second receiver class declaring slots with the same signatures in another order (so that the same signature has
// another method index): what is looked up for one receiver must not be taken for the other
class SlotObj2 : public QObject
{
    Q_OBJECT
public:
    QStringList *obs = nullptr;
    int idx[5] = {-1, -1, -1, -1, -1};
    void hit(int k, QHttpEngine::Socket *s) { obs->append(QString("slot:%1:%2").arg(idx[k]).arg(s->bytesAvailable())); }
public Q_SLOTS:
    void extra(int) {}
    void s4(QHttpEngine::Socket *s) { hit(4, s); }
    void s2(QHttpEngine::Socket *s) { hit(2, s); }
    void s0(QHttpEngine::Socket *s) { hit(0, s); }
    void nosuch(QHttpEngine::Socket *s) { hit(0, s); }
    void s3(QHttpEngine::Socket *s) { hit(3, s); }
    void s1(QHttpEngine::Socket *s) { hit(1, s); }
};
