// Language `slot`: QObjectHandler with a registry of slots, one request on a SimTcp.
#include "common.h"
#include "simtcp.h"
#include "slotobj.h"
#include <QPointer>
#include <QUrl>
#include <qhttpengine/qobjecthandler.h>
using namespace QHttpEngine;
void urlOracle(const QByteArray &stream, Out &out);

static QString un16s(const QString &h)
{
    if (h == "-" || h == "~") return QString("");
    QByteArray b = QByteArray::fromHex(h.toLatin1());
    QString s;
    for (int i = 0; i + 1 < b.size(); i += 2) s.append(QChar(ushort((uchar(b[i]) << 8) | uchar(b[i + 1]))));
    return s;
}
static QString hx16s(const QString &s)
{
    if (s.isEmpty()) return "-";
    QByteArray b;
    for (QChar c : s) { b.append(char(c.unicode() >> 8)); b.append(char(c.unicode() & 0xff)); }
    return QString::fromLatin1(b.toHex());
}

void runSlot(const Scn &scn, Out &out)
{
    QStringList *obs = &out.obs;
    SlotObj obj; obj.obs = obs;
    SlotObj2 obj2; obj2.obs = obs;
    int good2 = 0;
    QObjectHandler handler;
    QByteArray stream;
    QStringList events;
    int reg = 0, good = 0;
    foreach (const QString &t, scn.toks) {
        QStringList p = t.split(':');
        if (p[0] == "reg") {
            QString name = un16s(p[1]); bool ra = p[3] == "1"; int me = reg++;
            if (p[2] == "old" || p[2] == "pmf") {
                int k = good++ % 5; obj.idx[k] = me;
                static const char *sl[5] = { SLOT(s0(QHttpEngine::Socket*)), SLOT(s1(QHttpEngine::Socket*)), SLOT(s2(QHttpEngine::Socket*)),
                                             SLOT(s3(QHttpEngine::Socket*)), SLOT(s4(QHttpEngine::Socket*)) };
                if (p[2] == "old") handler.registerMethod(name, &obj, sl[k], ra);
                else switch (k) {
                    case 0: handler.registerMethod(name, &obj, &SlotObj::s0, ra); break;
                    case 1: handler.registerMethod(name, &obj, &SlotObj::s1, ra); break;
                    case 2: handler.registerMethod(name, &obj, &SlotObj::s2, ra); break;
                    case 3: handler.registerMethod(name, &obj, &SlotObj::s3, ra); break;
                    default: handler.registerMethod(name, &obj, &SlotObj::s4, ra); break;
                }
            } else if (p[2] == "old2") {
                // the string form on a receiver of the other class
                int k = good2++ % 5; obj2.idx[k] = me;
                static const char *sl2[5] = { SLOT(s0(QHttpEngine::Socket*)), SLOT(s1(QHttpEngine::Socket*)), SLOT(s2(QHttpEngine::Socket*)),
                                              SLOT(s3(QHttpEngine::Socket*)), SLOT(s4(QHttpEngine::Socket*)) };
                handler.registerMethod(name, &obj2, sl2[k], ra);
            } else if (p[2] == "missing") handler.registerMethod(name, &obj, SLOT(nosuch(QHttpEngine::Socket*)), ra);
            else if (p[2] == "wrongsig") handler.registerMethod(name, &obj, SLOT(wrong(int)), ra);
            else if (p[2] == "functor") handler.registerMethod(name, [obs, me](Socket *s) { obs->append(QString("slot:%1:%2").arg(me).arg(s->bytesAvailable())); }, ra);
        } else { events << t; if (p[0] == "feed") stream.append(unhx(p[1])); }
    }
    urlOracle(stream, out);
    {
        int e = stream.indexOf("\r\n\r\n");
        QByteArray first = stream.left(e < 0 ? 0 : e);
        int a = first.indexOf(' '), b2 = first.indexOf(' ', a + 1);
        QByteArray raw = (a >= 0 && b2 >= 0) ? first.mid(a + 1, b2 - a - 1) : QByteArray();
        QUrl url(raw);
        out.ora << "p16:" + hx16s(url.isValid() ? url.path() : QString());
    }
    QPointer<SimTcp> tcp = new SimTcp;
    tcp->log = obs;
    QPointer<Socket> sock;
    int k = 0;
    foreach (const QString &t, events) {
        QStringList p = t.split(':');
        if (p[0] == "warm") {
            // an earlier complete request on another connection, served by the same handler; not observed
            int mark = obs->size();
            QPointer<SimTcp> wt = new SimTcp;
            QStringList sink2; wt->log = &sink2;
            QPointer<Socket> ws = new Socket(wt);
            Socket *w = ws;
            QObject::connect(w, &Socket::headersParsed, [&handler, w]() { handler.route(w, w->path().mid(1)); });
            wt->feed(unhx(p[1]));
            eventTurn(); eventTurn();
            if (wt) { wt->log = nullptr; wt->peerClose(); }
            eventTurn();
            if (ws) delete ws.data();
            eventTurn();
            while (obs->size() > mark) obs->removeLast();
            continue;
        }
        if (p[0] == "rereg") {
            // the application registers the name again (a functor that records nothing) while a request may be waiting
            // for its body: the waiting request keeps the registration it was routed to.  Not an event of the model.
            handler.registerMethod(un16s(p[1]), [](Socket *) {}, true);
            continue;
        }
        if (!(k > 0 && !sock)) *obs << QString("e:%1").arg(k);
        ++k;
        if (p[0] == "new") {
            sock = new Socket(tcp);
            Socket *s = sock;
            QObject::connect(s, &Socket::headersParsed, [&handler, s, obs]() { obs->append("hp"); handler.route(s, s->path().mid(1)); });
            QObject::connect(s, &Socket::readChannelFinished, [obs]() { obs->append("rcf"); });
        } else if (p[0] == "feed") { if (tcp) tcp->feed(unhx(p[1])); }
        else if (p[0] == "turn") eventTurn();
        else if (p[0] == "ackall") { if (tcp) tcp->ackAll(); }
        else if (p[0] == "peerclose") { if (tcp) tcp->peerClose(); }
    }
    out.obs << "end";
    QStringList sink;
    obj.obs = &sink; obj2.obs = &sink;
    if (tcp) tcp->log = nullptr;
    if (sock) { QObject::disconnect(sock, nullptr, nullptr, nullptr); delete sock.data(); }
    if (tcp) delete tcp.data();      // a scenario without `new`: nothing took ownership of the transport
    eventTurn();
}
