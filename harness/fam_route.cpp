// Language `route`: a tree of instrumented Handlers behind the real Server glue
// (ServerPrivate::process), one request on a SimTcp.
#include "common.h"
#include "simtcp.h"

#include <QCoreApplication>
#include <QPointer>
#include <QRegExp>
#include <QMap>
#include <QUrl>

#include <qhttpengine/handler.h>
#include <qhttpengine/middleware.h>
#include <qhttpengine/server.h>
#include <qhttpengine/socket.h>
#include "server_p.h"

using namespace QHttpEngine;

void urlOracle(const QByteArray &stream, Out &out);

static QString hx16(const QString &s)
{
    if (s.isEmpty()) return "-";
    QByteArray b;
    for (QChar c : s) { b.append(char(c.unicode() >> 8)); b.append(char(c.unicode() & 0xff)); }
    return QString::fromLatin1(b.toHex());
}
static QString un16(const QString &h)
{
    if (h == "-" || h == "~") return QString("");
    QByteArray b = QByteArray::fromHex(h.toLatin1());
    QString s;
    for (int i = 0; i + 1 < b.size(); i += 2) s.append(QChar(ushort((uchar(b[i]) << 8) | uchar(b[i + 1]))));
    return s;
}

namespace {

class THandler : public Handler
{
public:
    int id; bool own; QStringList *obs;
    THandler(int i, bool o, QStringList *l) : id(i), own(o), obs(l) {}
protected:
    void process(Socket *socket, const QString &path) override
    {
        obs->append(QString("pr:%1:%2").arg(id).arg(hx16(path)));
        if (own) { socket->write("ok"); socket->close(); }
        else Handler::process(socket, path);
    }
};

class TMiddleware : public Middleware
{
public:
    int id; bool ok; QStringList *obs; bool soft = false;
    bool okWarm = false;                 // verdict `2`: admits the earlier (unobserved) requests, refuses the observed one
    bool selfDelete = false;             // verdict `3`
    QList<QObject *> *ownedList = nullptr;
    const bool *warming = nullptr;
    TMiddleware(int i, bool o, QStringList *l) : id(i), ok(o), obs(l) {}
    bool process(Socket *socket) override
    {
        if (okWarm && warming && *warming) { obs->append(QString("mw:%1:1").arg(id)); return true; }
        if (selfDelete) {
            // a one-shot middleware: accepts and destroys itself before process() returns
            obs->append(QString("mw:%1:1").arg(id));
            if (ownedList) ownedList->removeAll(this);
            delete this;
            return true;
        }
        obs->append(QString("mw:%1:%2").arg(id).arg(ok ? 1 : 0));
        if (!ok && soft) {
            // writes its own complete response and leaves the connection open
            socket->setHeader("X-Mw", QByteArray::number(id));
            socket->setHeader("Content-Length", "6");
            socket->setStatusCode(Socket::Forbidden);
            socket->writeHeaders();
            socket->write("denied");
        } else if (!ok) {
            socket->setHeader("X-Mw", QByteArray::number(id));
            socket->writeError(Socket::Forbidden);
        }
        return ok;
    }
};

} // namespace

void runRoute(const Scn &scn, Out &out)
{
    QStringList *obs = &out.obs;
    QMap<int, THandler *> nodes;
    QMap<int, QRegExp> pats;
    QList<QObject *> owned;
    THandler *root = nullptr;
    QByteArray raw;
    bool noroot = false, late = false, unsetlate = false, soft = false, warming = false, prebuf = false;
    foreach (const QString &t, scn.toks) {
        if (t == "soft") soft = true;
        else if (t == "noroot") noroot = true;
        else if (t == "late") late = true;
        else if (t == "unsetlate") unsetlate = true;
        else if (t == "prebuf") prebuf = true;
    }
    Server *server = new Server;
    ServerPrivate *sp = server->findChild<ServerPrivate *>();
    foreach (const QString &t, scn.toks) {
        QStringList p = t.split(':');
        if (p[0] == "warm") {
            // an earlier request on another connection against the tree as built so far; what it
            // does is not recorded: routing of the observed request must not depend on it
            if (root && !noroot && !late) server->setHandler(root);
            int mark = obs->size();
            warming = true;
            QStringList sink;
            QPointer<SimTcp> wt = new SimTcp;
            wt->log = &sink;
            sp->process(wt);
            if (wt) wt->feed("GET " + unhx(p[1]) + " HTTP/1.1\r\n\r\n");
            eventTurn();
            if (wt) { wt->log = nullptr; wt->peerClose(); }
            eventTurn();
            if (wt) { wt->log = nullptr; }
            while (obs->size() > mark) obs->removeLast();
            warming = false;
            continue;
        }
        if (p[0] == "pat") pats[p[1].toInt()] = QRegExp(un16(p[2]));
        else if (p[0] == "node") {
            THandler *h = new THandler(p[1].toInt(), p[4] == "1", obs);
            owned << h;
            nodes[h->id] = h;
            if (p[2] == "-1") root = h; else nodes[p[2].toInt()]->addSubHandler(pats[p[3].toInt()], h);
        }
        else if (p[0] == "redir") nodes[p[1].toInt()]->addRedirect(pats[p[2].toInt()], un16(p[3]));
        else if (p[0] == "mw") { TMiddleware *m = new TMiddleware(p[2].toInt(), p[3] == "1", obs); m->soft = soft; m->okWarm = p[3] == "2"; m->warming = &warming; m->selfDelete = p[3] == "3"; m->ownedList = &owned;
                                 owned << m; nodes[p[1].toInt()]->addMiddleware(m); }
        else if (p[0] == "req") raw = unhx(p[1]);
    }
    QByteArray stream = "GET " + raw + " HTTP/1.1\r\n\r\n";
    urlOracle(stream, out);

    // oracle: decoded path and the QRegExp answers for every pattern x every suffix of path.mid(1)
    QUrl url(raw);
    QString path = url.isValid() ? url.path() : QString();
    out.ora << "p16:" + hx16(path);
    QString sub = path.mid(1);
    for (auto it = pats.begin(); it != pats.end(); ++it) {
        for (int k = 0; k <= sub.size(); ++k) {
            QString subject = sub.mid(k);
            QRegExp re = it.value();
            int idx = re.indexIn(subject);
            if (idx == -1) continue;
            QStringList caps;
            foreach (const QString &c, re.capturedTexts().mid(1)) caps << hx16(c);
            out.ora << QString("m:%1:%2:%3:%4:%5").arg(it.key()).arg(hx16(subject)).arg(idx).arg(re.matchedLength())
                       .arg(caps.isEmpty() ? "~" : caps.join(","));
        }
    }

    // `late`: the handler is installed only after the connection was accepted;
    // `unsetlate`: it is removed after the connection was accepted (the handler in force when the
    // headers are parsed decides)
    if (root && !noroot && !late) server->setHandler(root);
    QPointer<SimTcp> tcp = new SimTcp;
    tcp->log = obs;
    if (prebuf) {
        // the whole request is in the transport's buffer when the server takes the connection
        *obs << "e:0";
        tcp->put(stream);
        *obs << "e:1";
        sp->process(tcp);
    } else {
        *obs << "e:0";
        sp->process(tcp);
        if (late && root && !noroot) server->setHandler(root);
        if (unsetlate) server->setHandler(nullptr);
        *obs << "e:1";
        if (tcp) tcp->feed(stream);
    }
    *obs << "e:2";
    eventTurn();
    eventTurn();
    out.obs << "end";
    if (tcp) tcp->log = nullptr;
    QStringList sink;
    foreach (QObject *o, owned) { if (auto h = dynamic_cast<THandler *>(o)) h->obs = &sink; if (auto m = dynamic_cast<TMiddleware *>(o)) m->obs = &sink; }
    // (a handler still holds the raw pointer of a middleware that destroyed itself: nothing is routed any more)
    delete server;
    qDeleteAll(owned);
    eventTurn();
}
