// Simulated transport: a QTcpSocket whose segments, acknowledgements and shutdown are driven
// by the scenario.  Its contract is the `Tcp` record of lean/Qhttp/Model/Socket.lean.
#pragma once
#include <QTcpSocket>
#include <QHostAddress>
#include <QStringList>
#include <cstring>

class SimTcp : public QTcpSocket
{
public:
    QByteArray inbox;
    QByteArray wire;
    qint64 unacked = 0;
    QStringList *log = nullptr;

    explicit SimTcp(QObject *parent = nullptr) : QTcpSocket(parent)
    {
        setOpenMode(QIODevice::ReadWrite);
        setSocketState(QAbstractSocket::ConnectedState);
        setPeerAddress(QHostAddress("10.1.2.3"));
        setPeerPort(4321);
    }
    ~SimTcp() override
    {
        // ~QAbstractSocket calls abort() on a socket that is not unconnected, and abort() emits disconnected(): whoever
        // is connected to the transport (the Socket relays it as its own disconnected()) hears of it while the owner is
        // being destroyed.  Done here, since abort() cannot run on a socket without an engine.
        const bool was = state() == QAbstractSocket::ConnectedState || state() == QAbstractSocket::ClosingState;
        setSocketState(QAbstractSocket::UnconnectedState);
        if (was) Q_EMIT disconnected();
    }

    void put(const QByteArray &b) { inbox.append(b); }
    void feed(const QByteArray &b) { inbox.append(b); Q_EMIT readyRead(); }

    void ack(qint64 n)
    {
        if (n > unacked) n = unacked;
        if (n <= 0) return;
        unacked -= n;
        Q_EMIT bytesWritten(n);
        if (state() == QAbstractSocket::ClosingState && unacked == 0) {
            setSocketState(QAbstractSocket::UnconnectedState);
            Q_EMIT disconnected();
        }
    }
    void ackAll() { ack(unacked); }

    void peerClose()
    {
        // as QAbstractSocket::disconnectFromHost: the state is Unconnected before either signal
        if (state() == QAbstractSocket::UnconnectedState) return;
        setSocketState(QAbstractSocket::UnconnectedState);
        Q_EMIT readChannelFinished();
        Q_EMIT disconnected();
    }

    bool isSequential() const override { return true; }
    qint64 bytesAvailable() const override { return inbox.size() + QIODevice::bytesAvailable(); }
    // QAbstractSocket::bytesToWrite() is what has not left the write buffer yet, i.e. what bytesWritten()
    // has not reported
    qint64 bytesToWrite() const override { return unacked; }

    void close() override
    {
        if (!isOpen()) return;
        if (log) log->append("tc");
        QIODevice::close();
        shutdownWrite();
    }
    void disconnectFromHost() override
    {
        // a shutdown asked for by the library, whichever way, is the point after which nothing
        // more may reach the wire
        if (state() == QAbstractSocket::ConnectedState && log) log->append("tc");
        shutdownWrite();
    }

protected:
    void shutdownWrite()
    {
        if (state() != QAbstractSocket::ConnectedState) return;
        if (unacked == 0) {
            setSocketState(QAbstractSocket::UnconnectedState);
            Q_EMIT disconnected();
        } else {
            setSocketState(QAbstractSocket::ClosingState);
        }
    }
    qint64 readData(char *data, qint64 maxlen) override
    {
        qint64 n = qMin<qint64>(maxlen, inbox.size());
        if (n > 0) { memcpy(data, inbox.constData(), n); inbox.remove(0, n); }
        return n;
    }
    qint64 writeData(const char *data, qint64 len) override
    {
        // QAbstractSocket accepts writes while Connected and while Closing (the device is still
        // open then only if the shutdown was asked for with disconnectFromHost(), not close())
        if (state() != QAbstractSocket::ConnectedState && state() != QAbstractSocket::ClosingState) return -1;
        if (len <= 0) return 0;
        wire.append(data, len);
        unacked += len;
        if (log) log->append("w:" + QString::fromLatin1(QByteArray(data, len).toHex()));
        return len;
    }
};
