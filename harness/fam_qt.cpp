// Language `qt`: differential validation of the Lean sub-models of Qt value classes.
#include "common.h"
#include <QDir>
#include <QUrl>
#include <qhttpengine/ibytearray.h>
#include <qhttpengine/socket.h>
using namespace QHttpEngine;

QString hmapStr(const Socket::HeaderMap &m);

void runQt(const Scn &scn, Out &out)
{
    Socket::HeaderMap m;
    foreach (const QString &t, scn.toks) {
        QStringList p = t.split(':');
        const QString &op = p[0];
        if (false) {}
        else if (op == "lower") out.obs << "b:" + hx(unhx(p[1]).toLower());
        else if (op == "trim") out.obs << "b:" + hx(unhx(p[1]).trimmed());
        else if (op == "toll") out.obs << "i:" + QString::number(unhx(p[1]).toLongLong());
        else if (op == "toint") out.obs << "i:" + QString::number(unhx(p[1]).toInt());
        else if (op == "num") out.obs << "b:" + hx(QByteArray::number(p[1].toLongLong()));
        else if (op == "lt") out.obs << "i:" + QString::number(IByteArray(unhx(p[1])) < IByteArray(unhx(p[2])) ? 1 : 0);
        else if (op == "splitc") {
            QStringList l; foreach (const QByteArray &x, unhx(p[1]).split(char(p[2].toInt()))) l << hx(x);
            out.obs << "l:" + l.join(",");
        }
        else if (op == "mins") { m.insert(unhx(p[1]), unhx(p[2])); out.obs << "m:" + hmapStr(m); }
        else if (op == "mrep") { m.replace(unhx(p[1]), unhx(p[2])); out.obs << "m:" + hmapStr(m); }
        else if (op == "mval") out.obs << "b:" + hx(m.value(unhx(p[1])));
        else if (op == "mvals") { QStringList l; foreach (const QByteArray &x, m.values(unhx(p[1]))) l << hx(x); out.obs << "l:" + (l.isEmpty() ? QString("-") : l.join(",")); }
        else if (op == "mcnt") out.obs << "i:" + QString::number(m.count(unhx(p[1])));
        else if (op == "mhas") out.obs << "i:" + QString::number(m.contains(unhx(p[1])) ? 1 : 0);
        else if (op == "b64") out.obs << "b:" + hx(QByteArray::fromBase64(unhx(p[1])));
        else if (op == "pct") out.obs << "b:" + hx(QByteArray::fromPercentEncoding(unhx(p[1])));   // byte level: QUrl::fromPercentEncoding adds a UTF-8 decoding
        else if (op == "clean") out.obs << "b:" + hx(QDir::cleanPath(QString::fromUtf8(unhx(p[1]))).toUtf8());
        else out.obs << "badop";
    }
}
