// Language `sock`: a QHttpEngine::Socket on a SimTcp, driven by external events and scripted
// application reactions.  See DESIGN.md Appendix B for the token vocabulary.
#include "common.h"
#include "simtcp.h"

#include <QCoreApplication>
#include <QPointer>
#include <QUrl>
#include <QUrlQuery>
#include <QJsonDocument>
#include <QMap>

#include <qhttpengine/socket.h>
#include <qhttpengine/parser.h>

using namespace QHttpEngine;

void eventTurn()
{
    QCoreApplication::processEvents();
    QCoreApplication::sendPostedEvents(nullptr, QEvent::DeferredDelete);
}

QString hmapStr(const Socket::HeaderMap &m)
{
    QStringList l;
    for (auto i = m.constBegin(); i != m.constEnd(); ++i) {
        l << hx(i.key()) + "=" + hx(i.value());
    }
    return l.isEmpty() ? "-" : l.join(",");
}

// error page oracle: the body writeError(code, reason) produces, taken from a scratch socket
QByteArray errorPage(int code, const QByteArray &reason, bool nullReason)
{
    SimTcp *tcp = new SimTcp;
    Socket *s = new Socket(tcp);
    s->writeError(code, nullReason ? QByteArray() : reason);
    QByteArray w = tcp->wire;
    int i = w.indexOf("\r\n\r\n");
    QByteArray body = i < 0 ? QByteArray() : w.mid(i + 4);
    delete s;
    return body;
}

static QString statusReasonDefault(int code)
{
    SimTcp *tcp = new SimTcp;
    Socket *s = new Socket(tcp);
    s->setStatusCode(code);
    s->writeHeaders();
    QByteArray w = tcp->wire;
    delete s;
    int e = w.indexOf("\r\n");
    QByteArray line = w.left(e);             // HTTP/1.0 <code> <reason>
    int sp = line.indexOf(' ', 9);
    return hx(sp < 0 ? QByteArray() : line.mid(sp + 1));
}

void urlOracle(const QByteArray &stream, Out &out)
{
    int e = stream.indexOf("\r\n\r\n");
    if (e < 0) return;
    QByteArray head = stream.left(e);
    int l = head.indexOf("\r\n");
    QByteArray first = l < 0 ? head : head.left(l);
    int a = first.indexOf(' ');
    if (a < 0) return;
    int b2 = first.indexOf(' ', a + 1);
    if (b2 < 0) return;
    QByteArray raw = first.mid(a + 1, b2 - a - 1);
    QUrl url(raw);
    QStringList items;
    if (url.isValid()) {
        QPair<QString, QString> p;
        foreach (p, QUrlQuery(url.query()).queryItems()) {
            items << hx(p.first.toUtf8()) + "=" + hx(p.second.toUtf8());
        }
    }
    out.ora << QString("url:%1:%2:%3:%4").arg(hx(raw)).arg(url.isValid() ? 1 : 0)
               .arg(url.isValid() ? hx(url.path().toUtf8()) : "-")
               .arg(items.isEmpty() ? "-" : items.join(","));
}

namespace {

struct Ctx {
    SimTcp *tcpRaw = nullptr;
    QPointer<SimTcp> tcp;
    QPointer<Socket> sock;
    QStringList *obs = nullptr;
    QMap<QString, QStringList> react;
    bool hpSeen = false;       // accessors are meaningful only once headersParsed() was emitted
};

void apiOp(Ctx &c, const QString &tok)
{
    if (!c.sock) return;
    Socket *s = c.sock;
    QStringList p = tok.split(':');
    const QString &op = p[0];
    if (op == "read") {
        c.obs->append("rd:" + hx(s->read(p[1].toLongLong())));
    } else if (op == "readall") {
        c.obs->append("rd:" + hx(s->readAll()));
    } else if (op == "avail") {
        c.obs->append("av:" + QString::number(s->bytesAvailable()));
    } else if (op == "snap") {
        QStringList q;
        auto qs = s->queryString();
        for (auto i = qs.constBegin(); i != qs.constEnd(); ++i) {
            q << hx(i.key().toUtf8()) + "=" + hx(i.value().toUtf8());
        }
        if (!c.hpSeen) {
            // nothing was parsed (or parsing failed part-way): the accessors expose no request
            c.obs->append(QString("snap:%1:0:-:-:-:-:%2").arg(s->isHeadersParsed() ? 1 : 0).arg(s->contentLength()));
        } else
        c.obs->append(QString("snap:%1:%2:%3:%4:%5:%6:%7")
            .arg(s->isHeadersParsed() ? 1 : 0)
            .arg(s->isHeadersParsed() ? int(s->method()) : 0)
            .arg(hx(s->rawPath()))
            .arg(hx(s->path().toUtf8()))
            .arg(q.isEmpty() ? "-" : q.join(","))
            .arg(hmapStr(s->headers()))
            .arg(s->contentLength()));
    } else if (op == "status") {
        if (p[2] == "~") s->setStatusCode(p[1].toInt());
        else s->setStatusCode(p[1].toInt(), p[2] == "-" ? QByteArray("") : unhx(p[2]));
    } else if (op == "hdr") {
        s->setHeader(unhx(p[1]), unhx(p[2]), p[3] == "r");
    } else if (op == "hdrs") {
        Socket::HeaderMap m;
        if (p[1] != "-") {
            foreach (const QString &kv, p[1].split(',')) {
                QStringList e = kv.split('=');
                m.insert(unhx(e[0]), unhx(e[1]));
            }
        }
        s->setHeaders(m);
    } else if (op == "wh") {
        s->writeHeaders();
    } else if (op == "write") {
        s->write(unhx(p[1]));
    } else if (op == "err") {
        if (p[2] == "~") s->writeError(p[1].toInt());
        else s->writeError(p[1].toInt(), p[2] == "-" ? QByteArray("") : unhx(p[2]));
    } else if (op == "redir") {
        s->writeRedirect(unhx(p[1]), p[2] == "1");
    } else if (op == "json") {
        // the document is given as its serialised text; writeJson() re-serialises it
        s->writeJson(QJsonDocument::fromJson(unhx(p[1])), p[2].toInt());
    } else if (op == "close") {
        s->close();
    } else if (op == "mark") {
        // application-side record: by now the application has closed the HTTP socket
        c.obs->append("x:50:-");
    } else {
        c.obs->append("badop:" + op);
    }
}

void react(Ctx &c, const QString &sig)
{
    foreach (const QString &t, c.react.value(sig)) apiOp(c, t);
}

} // namespace

void runSock(const Scn &scn, Out &out)
{
    Ctx c;
    c.obs = &out.obs;
    c.tcpRaw = new SimTcp;
    c.tcp = c.tcpRaw;
    c.tcp->log = c.obs;

    // oracles: URL of the first request line, error pages, JSON texts
    QByteArray stream;
    QSet<QString> pages;
    auto page = [&](int code, const QString &r) {
        QString key = QString::number(code) + ":" + r;
        if (pages.contains(key)) return;
        pages.insert(key);
        bool nul = (r == "~");
        QByteArray reason = nul ? QByteArray() : (r == "-" ? QByteArray("") : unhx(r));
        QByteArray body = errorPage(code, reason, nul);
        out.ora << QString("ep:%1:%2:%3").arg(code).arg(r).arg(hx(body));
    };
    QSet<int> codes;
    foreach (const QString &t, scn.toks) {
        QStringList p = t.split(':');
        if (p[0] == "feed" || p[0] == "prebuf") stream.append(unhx(p[1]));
        if (p[0] == "err") page(p[1].toInt(), p[2]);
        if (p[0] == "status" && p[2] == "~") codes.insert(p[1].toInt());
        if (p[0] == "json") {
            codes.insert(p[2].toInt());
            out.ora << QString("js:%1:%2").arg(p[1]).arg(hx(QJsonDocument::fromJson(unhx(p[1])).toJson()));
        }
    }
    foreach (int code, codes) out.ora << QString("sr:%1:%2").arg(code).arg(statusReasonDefault(code));
    urlOracle(stream, out);

    // reactions first
    QString cur;
    QStringList events;
    foreach (const QString &t, scn.toks) {
        if (t.startsWith('@')) { cur = (t == "@end") ? QString() : t.mid(1); continue; }
        if (!cur.isEmpty()) c.react[cur].append(t); else events.append(t);
    }

    int evNo = 0;
    bool sockCreated = false;
    foreach (const QString &t, events) {
        QStringList p = t.split(':');
        const QString &op = p[0];
        // the marker is suppressed once the Socket is gone, as in the model
        if (!(evNo > 0 && sockCreated && !c.sock)) out.obs << QString("e:%1").arg(evNo);
        ++evNo;
        if (op == "prebuf") {
            if (c.tcp) c.tcp->put(unhx(p[1]));
        } else if (op == "new") {
            if (c.sock || !c.tcp) continue;
            Socket *s = new Socket(c.tcp);
            c.sock = s;
            sockCreated = true;
            Ctx *pc = &c;
            QObject::connect(s, &Socket::headersParsed, [pc]() { pc->hpSeen = true; pc->obs->append("hp"); react(*pc, "hp"); });
            QObject::connect(s, &Socket::readyRead, [pc]() { pc->obs->append("rr"); react(*pc, "rr"); });
            QObject::connect(s, &Socket::readChannelFinished, [pc]() { pc->obs->append("rcf"); react(*pc, "rcf"); });
            QObject::connect(s, &Socket::bytesWritten, [pc](qint64 n) { pc->obs->append("bw:" + QString::number(n)); react(*pc, "bw"); });
            QObject::connect(s, &Socket::disconnected, [pc]() { pc->obs->append("dc"); react(*pc, "dc"); });
            QObject::connect(s, &QObject::destroyed, [pc]() { pc->obs->append("del"); });
        } else if (op == "feed") {
            if (c.tcp) c.tcp->feed(unhx(p[1]));
        } else if (op == "ack") {
            if (c.tcp) c.tcp->ack(p[1].toLongLong());
        } else if (op == "ackall") {
            if (c.tcp) c.tcp->ackAll();
        } else if (op == "peerclose") {
            if (c.tcp) c.tcp->peerClose();
        } else if (op == "turn") {
            eventTurn();
        } else {
            apiOp(c, t);
        }
    }
    out.obs << "end";
    // tear down whatever is left; destruction is not part of the observation
    c.obs = nullptr;
    QStringList sink;
    c.obs = &sink;
    if (c.tcp) c.tcp->log = nullptr;
    if (c.sock) delete c.sock.data();
    else if (c.tcp) delete c.tcp.data();
    eventTurn();
}
