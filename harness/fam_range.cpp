// Language `range`: one Range object per scenario, built from numbers, text or another range.
#include "common.h"
#include <qhttpengine/range.h>
using namespace QHttpEngine;

static QString report(const Range &r)
{
    return QString("r:%1:%2:%3:%4:%5:%6").arg(r.isValid() ? 1 : 0).arg(r.from()).arg(r.to())
        .arg(r.length()).arg(r.dataSize()).arg(hx(r.contentRange().toLatin1()));
}

void runRange(const Scn &scn, Out &out)
{
    foreach (const QString &t, scn.toks) {
        QStringList p = t.split(':');
        if (p[0] == "n") {
            Range r(p[1].toLongLong(), p[2].toLongLong(), p[3].toLongLong());
            out.obs << report(r);
        } else if (p[0] == "a") {                       // assignment operator
            Range r;
            r = Range(p[1].toLongLong(), p[2].toLongLong(), p[3].toLongLong());
            out.obs << report(r);
        } else if (p[0] == "q" || p[0] == "qs") {      // an object that was asked about another range first, then assigned
            Range r(p[1].toLongLong(), p[2].toLongLong(), p[3].toLongLong());
            (void) report(r);
            if (p[0] == "q") r = Range(p[4].toLongLong(), p[5].toLongLong(), p[6].toLongLong());
            else r = Range(QString::fromLatin1(unhx(p[4])), p[5].toLongLong());
            out.obs << report(r);
        } else if (p[0] == "s") {
            Range r(QString::fromUtf8(unhx(p[1])), p[2].toLongLong());
            out.obs << report(r);
        } else if (p[0] == "c") {
            Range r0(p[1].toLongLong(), p[2].toLongLong(), p[3].toLongLong());
            Range r(r0, p[4].toLongLong());
            out.obs << report(r);
        } else if (p[0] == "qc") {                      // the source was asked about before it is copied with a new size
            Range r0(p[1].toLongLong(), p[2].toLongLong(), p[3].toLongLong());
            (void) report(r0);
            Range r(r0, p[4].toLongLong());
            out.obs << report(r);
        } else if (p[0] == "d") {
            Range r;
            out.obs << report(r);
        } else {
            out.obs << "badop";
        }
    }
}
