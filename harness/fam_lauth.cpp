// Language `lauth`: LocalAuthMiddleware life cycle with HOME redirected to a scratch directory.
#include "common.h"
#include "simtcp.h"
#include <QCoreApplication>
#include <QDir>
#include <QFile>
#include <QJsonDocument>
#include <QJsonObject>
#include <QPointer>
#include <QVariantMap>
#include <sys/stat.h>
#include <unistd.h>
#include <qhttpengine/localauthmiddleware.h>
#include <qhttpengine/socket.h>
#include "localauthmiddleware_p.h"
using namespace QHttpEngine;

static QString snapFile(const QString &fn, const QString &token)
{
    struct stat st;
    if (::stat(fn.toUtf8().constData(), &st) != 0) return "x:10:-";
    // a directory at the name (token `block`) is not the advertised file
    if (!S_ISREG(st.st_mode)) return "x:10:-";
    QByteArray d;
    d.append(char(1));
    d.append(char((st.st_mode >> 6) & 7)); d.append(char((st.st_mode >> 3) & 7)); d.append(char(st.st_mode & 7));
    QFile f(fn);
    QStringList keys; bool tok = false;
    if (f.open(QIODevice::ReadOnly)) {
        QJsonObject o = QJsonDocument::fromJson(f.readAll()).object();
        keys = o.keys(); keys.sort();
        tok = !token.isEmpty() && o.value("token").toString() == token;
    }
    d.append(char(tok ? 1 : 0));
    d.append(keys.join(",").toUtf8());
    return "x:10:" + hx(d);
}

void runLauth(const Scn &scn, Out &out)
{
    QStringList *obs = &out.obs;
    QString home = QDir::currentPath() + QString("/home-%1").arg(getpid());
    QDir().mkpath(home);
    qputenv("HOME", home.toUtf8());
    QString fn = home + "/." + QCoreApplication::applicationName();
    QFile::remove(fn);
    mode_t oldmask = umask(022);
    LocalAuthMiddleware *mw = nullptr;
    QString token, prevToken;
    auto isDir = [&]() { struct stat st; return ::stat(fn.toUtf8().constData(), &st) == 0 && S_ISDIR(st.st_mode); };
    auto readToken = [&]() {
        QFile f(fn);
        if (!isDir() && f.open(QIODevice::ReadOnly)) { QString t = QJsonDocument::fromJson(f.readAll()).object().value("token").toString(); if (!t.isEmpty()) token = t; }
        // nothing could be published yet (the open failed): the requests of the scenario still
        // need "the current token", which then only the instance itself knows
        if (token.isEmpty() && mw) {
            LocalAuthMiddlewarePrivate *d = mw->findChild<LocalAuthMiddlewarePrivate*>(QString(), Qt::FindDirectChildrenOnly);
            if (d) token = d->token;
        }
    };
    foreach (const QString &t, scn.toks) {
        QStringList p = t.split(':');
        if (p[0] == "umask") umask(p[1].toInt(nullptr, 8));
        else if (p[0] == "pre") {
            if (!mw && !isDir()) { QFile f(fn); f.open(QIODevice::WriteOnly); f.write("{\"junk\": 1}"); f.close(); chmod(fn.toUtf8().constData(), p[1].toInt(nullptr, 8)); }
        } else if (p[0] == "create") {
            if (!mw) { prevToken = token; token.clear(); mw = new LocalAuthMiddleware; readToken(); }
        } else if (p[0] == "data") {
            if (mw) {
                QVariantMap m;
                if (p[1] != "-") foreach (const QString &k, p[1].split(',')) m.insert(QString::fromUtf8(unhx(k)), QString("v"));
                mw->setData(m);
                readToken();
            }
        } else if (p[0] == "hdrname") { if (mw) mw->setHeaderName(unhx(p[1])); }
        else if (p[0] == "req") {
            if (mw) {
                if (token.isEmpty()) readToken();
                QByteArray head = "GET / HTTP/1.1";
                if (p[1] != "none") {
                    QByteArray tk = token.toUtf8(), val;
                    const QString &v = p[2];
                    if (v == "exact") val = tk; else if (v == "upper") val = tk.toUpper();
                    else if (v == "droplast") val = tk.left(tk.size() - 1); else if (v == "braceless") val = tk.mid(1, tk.size() - 2);
                    else if (v == "nul") val = tk + QByteArray("\0x", 2); else if (v == "bom") val = QByteArray("\xef\xbb\xbf") + tk;
                    else if (v == "previous") val = prevToken.toUtf8(); else val = unhx(v.mid(2));
                    head += "\r\n" + unhx(p[1]) + ": " + val;
                }
                QPointer<SimTcp> tcp = new SimTcp;
                QPointer<Socket> sock = new Socket(tcp);
                bool ok = false, ran = false;
                LocalAuthMiddleware *m = mw;
                QObject::connect(sock.data(), &Socket::headersParsed, [&]() { ran = true; ok = m->process(sock); });
                tcp->feed(head + "\r\n\r\n");
                eventTurn();
                obs->append(QString("x:11:%1").arg(ran && ok ? "01" : "00"));
                if (sock) delete sock.data();
                eventTurn();
            }
        } else if (p[0] == "destroy") { if (mw) { delete mw; mw = nullptr; } }
        else if (p[0] == "block") {
            // something that is not a file occupies the advertised name: LocalFile::open() fails
            struct stat st;
            if (::lstat(fn.toUtf8().constData(), &st) != 0) ::mkdir(fn.toUtf8().constData(), 0755);
        } else if (p[0] == "unblock") { if (isDir()) ::rmdir(fn.toUtf8().constData()); }
        else continue;
        obs->append(snapFile(fn, token));
    }
    if (mw) delete mw;
    umask(oldmask);
    if (isDir()) ::rmdir(fn.toUtf8().constData());
    QFile::remove(fn);
    QDir(home).removeRecursively();
    out.obs << "end";
}
