// Language `tls`: a real Server on loopback, with or without a TLS configuration, and one client
// that either speaks clear text (raw TCP) or completes a TLS handshake.
#include "common.h"
#include <QCoreApplication>
#include <QElapsedTimer>
#include <QFile>
#include <QSslCertificate>
#include <QSslConfiguration>
#include <QSslKey>
#include <QSslSocket>
#include <QTcpSocket>
#include <QThread>
#include <unistd.h>
#include <fcntl.h>
#include <netinet/in.h>
#include <sys/socket.h>
#include <cstring>
#include <qhttpengine/filesystemhandler.h>
#include <qhttpengine/handler.h>
#include <qhttpengine/middleware.h>
#include <qhttpengine/server.h>
#include <qhttpengine/socket.h>
using namespace QHttpEngine;
extern long long g_vclock_offset_ns;
void urlOracle(const QByteArray &stream, Out &out);

namespace {
class LogHandler : public Handler
{
public:
    QStringList *obs;
    explicit LogHandler(QStringList *o) : obs(o) {}
protected:
    void process(Socket *socket, const QString &) override
    {
        if (socket->rawPath() == "/big") {
            // a response much larger than the kernel's socket buffers
            // (in pieces, as a copier would: every write after the first meets a transport with a backlog)
            QByteArray piece(1024 * 1024, 'x');
            for (int i = 0; i < 64; ++i) socket->write(piece);
            socket->close();
            return;
        }
        if (socket->rawPath() == "/chain") {
            // the usual "send the next piece when the last one went out" loop: every piece but the first is written from
            // inside the bytesWritten() slot; the connection is closed once every body byte has been announced
            struct St { int sent = 1; qint64 announced = 0; };
            St *st = new St;
            const QByteArray piece(1000, 'c');
            socket->setHeader("Content-Length", "4000");
            QObject::connect(socket, &Socket::bytesWritten, [socket, st, piece](qint64 n) {
                st->announced += n;
                if (st->sent < 4) { ++st->sent; socket->write(piece); }
                else if (st->announced >= 4000) socket->close();
            });
            QObject::connect(socket, &QObject::destroyed, [st]() { delete st; });
            socket->write(piece);
            return;
        }
        if (socket->rawPath() == "/chainbig") {
            // more than 2^31 body bytes, written piece by piece as the announcements come in; the sum of the announcements
            // is reported through the log when the last one arrives
            struct St { int sent = 1; qint64 announced = 0; bool negative = false; };
            St *st = new St;
            static const QByteArray piece(32 * 1024 * 1024, 'g');
            const qint64 total = 65LL * piece.size();
            QStringList *o = obs;
            QObject::connect(socket, &Socket::bytesWritten, [socket, st, total, o](qint64 n) {
                if (n < 0) st->negative = true;
                st->announced += n;
                if (st->sent < 65 && st->announced >= qint64(st->sent - 1) * piece.size()) { ++st->sent; socket->write(piece); }
                else if (st->sent == 65 && st->announced >= total) {
                    o->append(QString("x:51:%1").arg(!st->negative && st->announced == total ? "01" : "00"));
                    socket->close();
                }
            });
            QObject::connect(socket, &QObject::destroyed, [st]() { delete st; });
            socket->write(piece);
            return;
        }
        if (socket->rawPath() == "/mid") {
            QByteArray piece(1024 * 1024, 'm');
            for (int i = 0; i < 24; ++i) socket->write(piece);
            socket->close();
            return;
        }
        obs->append("pr:0:" + hx(socket->rawPath()));
        socket->write("ok");
        socket->close();
    }
};
class LogMw : public Middleware
{
public:
    QStringList *obs;
    explicit LogMw(QStringList *o) : obs(o) {}
    bool process(Socket *) override { obs->append("mw:0:1"); return true; }
};
void pump(int ms = 1500)
{
    QElapsedTimer t; t.start();
    int quiet = 0;
    while (quiet < 6 && t.elapsed() < ms) {
        bool had = QCoreApplication::hasPendingEvents();
        QCoreApplication::processEvents(QEventLoop::AllEvents, 2);
        QCoreApplication::sendPostedEvents(nullptr, QEvent::DeferredDelete);
        if (had) quiet = 0; else { ++quiet; QThread::msleep(3); }
    }
}
}

void runTls(const Scn &scn, Out &out)
{
    QStringList *obs = &out.obs;
    bool tls = false, nocert = false;   // nocert: a TLS configuration whose certificate chain is empty
    QString kind; QByteArray payload;
    int idleMs = 0;     // the client stays silent for this long after the connection is established
    foreach (const QString &t, scn.toks) {
        QStringList p = t.split(':');
        if (p[0] == "tls") tls = true;
        else if (p[0] == "plain") tls = false;
        else if (p[0] == "nocert") nocert = true;
        else if (p[0] == "raw" || p[0] == "ssl") { kind = p[0]; payload = unhx(p[1]); }
        else if (p[0] == "idle") idleMs = p[1].toInt();
    }
    if (scn.toks.contains("halfclose")) {
        // a client that shuts its sending side right behind the request (as `nc -N` or an HTTP/1.0 client does) still
        // gets the whole response for a file that fits in one copy block
        alarm(25);
        QByteArray root;
        foreach (const QString &t, scn.toks) { QStringList p = t.split(':'); if (p[0] == "root") root = unhx(p[1]); }
        FilesystemHandler fh(QString::fromUtf8(root));
        Server *srv = new Server(&fh);
        srv->listen(QHostAddress::LocalHost, 0);
        pump(100);
        bool ok = true;
        const char *reqs[] = { "GET /in.txt HTTP/1.1\r\n\r\n", "GET /in.txt HTTP/1.1\r\nRange: bytes=3-9\r\n\r\n", "GET /sub/deep.txt HTTP/1.0\r\n\r\n" };
        for (int i = 0; i < 3 && ok; ++i) {
            int fd = ::socket(AF_INET, SOCK_STREAM, 0);
            sockaddr_in sa; memset(&sa, 0, sizeof sa); sa.sin_family = AF_INET; sa.sin_port = htons(srv->serverPort()); sa.sin_addr.s_addr = htonl(INADDR_LOOPBACK);
            if (::connect(fd, reinterpret_cast<sockaddr *>(&sa), sizeof sa) != 0) { ok = false; ::close(fd); break; }
            ::send(fd, reqs[i], strlen(reqs[i]), 0);
            ::shutdown(fd, SHUT_WR);
            ::fcntl(fd, F_SETFL, ::fcntl(fd, F_GETFL, 0) | O_NONBLOCK);
            QByteArray got; QElapsedTimer t; t.start();
            bool eof = false;
            while (!eof && t.elapsed() < 3000) {
                pump(20);
                char buf[4096]; ssize_t n;
                while ((n = ::recv(fd, buf, sizeof buf, 0)) > 0) got.append(buf, int(n));
                if (n == 0) eof = true;
            }
            ::close(fd);
            int he = got.indexOf("\r\n\r\n");
            int cl = -1;
            foreach (const QByteArray &l, got.left(qMax(he, 0)).split('\n')) if (l.toLower().startsWith("content-length:")) cl = l.mid(15).trimmed().toInt();
            ok = (got.startsWith("HTTP/1.0 200") || got.startsWith("HTTP/1.0 206")) && he > 0 && cl >= 0 && got.size() - he - 4 == cl;
            pump(100);
        }
        *obs << QString("x:45:%1").arg(ok ? "01" : "00");
        out.obs << "end";
        alarm(0);
        delete srv;
        pump(100);
        return;
    }
    if (scn.toks.contains("crowd")) {
        // a small accept backlog, two clients that have sent half a request, a third that sends a whole one and leaves,
        // then the first two finish: all three are served, and every per-connection object is gone afterwards
        alarm(25);
        QStringList calls;
        LogHandler h(&calls);
        Server *srv = new Server(&h);
        srv->setMaxPendingConnections(2);
        srv->listen(QHostAddress::LocalHost, 0);
        pump(100);
        int idle = srv->findChildren<QObject *>().size();
        bool ok = true;
        for (int round = 0; round < 2 && ok; ++round) {
            QTcpSocket a, b, c;
            a.connectToHost(QHostAddress::LocalHost, srv->serverPort()); a.waitForConnected(1000);
            b.connectToHost(QHostAddress::LocalHost, srv->serverPort()); b.waitForConnected(1000);
            a.write("GET /a HTTP/1.1\r\n"); a.flush();
            b.write("GET /b HTTP/1.1\r\n"); b.flush();
            pump(300);
            c.connectToHost(QHostAddress::LocalHost, srv->serverPort()); c.waitForConnected(1000);
            c.write("GET /c HTTP/1.1\r\n\r\n"); c.flush();
            pump(500);
            QByteArray gc = c.readAll();
            c.disconnectFromHost();
            pump(300);
            a.write("\r\n"); a.flush();
            b.write("\r\n"); b.flush();
            pump(600);
            QByteArray ga = a.readAll(), gb = b.readAll();
            a.disconnectFromHost(); b.disconnectFromHost();
            pump(500);
            ok = ga.startsWith("HTTP/1.0 200") && gb.startsWith("HTTP/1.0 200") && gc.startsWith("HTTP/1.0 200")
                 && srv->findChildren<QObject *>().size() == idle;
        }
        ok = ok && calls.filter("pr:0:").size() == 6;
        *obs << QString("x:44:%1").arg(ok ? "01" : "00");
        out.obs << "end";
        alarm(0);
        QStringList sink; h.obs = &sink;
        delete srv;
        pump(100);
        return;
    }
    if (scn.toks.contains("chainbig")) {
        // as `chain`, with more than 2^31 body bytes in all
        alarm(170);
        LogHandler h(obs);
        Server *srv = new Server(&h);
        srv->listen(QHostAddress::LocalHost, 0);
        QTcpSocket c;
        c.connectToHost(QHostAddress::LocalHost, srv->serverPort());
        c.waitForConnected(1000);
        c.write("GET /chainbig HTTP/1.1\r\n\r\n"); c.flush();
        qint64 total = 0;
        int idleRounds = 0;
        QElapsedTimer t; t.start();
        while (idleRounds < 200 && t.elapsed() < 150000) {
            QCoreApplication::processEvents(QEventLoop::AllEvents, 5);
            qint64 n = c.readAll().size();
            total += n;
            idleRounds = n ? 0 : idleRounds + 1;
            if (!n) QThread::msleep(2);
            if (!n && c.state() == QAbstractSocket::UnconnectedState) break;
        }
        bool ok = obs->contains("x:51:01") && total > 65LL * 32 * 1024 * 1024;
        *obs << QString("x:50:%1").arg(ok ? "01" : "00");
        out.obs << "end";
        alarm(0);
        QStringList sink; h.obs = &sink;
        c.abort();
        delete srv;
        pump(100);
        return;
    }
    if (scn.toks.contains("chain")) {
        // a handler that paces itself on bytesWritten(): the client gets all four pieces and the connection is closed
        alarm(30);
        LogHandler h(obs);
        Server *srv = new Server(&h);
        srv->listen(QHostAddress::LocalHost, 0);
        QTcpSocket c;
        c.connectToHost(QHostAddress::LocalHost, srv->serverPort());
        c.waitForConnected(1000);
        c.write("GET /chain HTTP/1.1\r\n\r\n"); c.flush();
        QByteArray got;
        for (int i = 0; i < 12 && c.state() == QAbstractSocket::ConnectedState; ++i) { pump(150); got += c.readAll(); }
        pump(100); got += c.readAll();
        int hdr = got.indexOf("\r\n\r\n");
        bool ok = got.startsWith("HTTP/1.0 200") && hdr > 0 && got.size() == hdr + 4 + 4000 && c.state() == QAbstractSocket::UnconnectedState;
        *obs << QString("x:48:%1").arg(ok ? "01" : "00");
        if (!ok) *obs << QString("x:47:%1").arg(QString::number(got.size(), 16));
        out.obs << "end";
        alarm(0);
        QStringList sink; h.obs = &sink;
        c.abort();
        delete srv;
        pump(100);
        return;
    }
    if (scn.toks.contains("bigbody")) {
        // a response larger than every buffer over an established TLS connection arrives in full
        alarm(120);
        LogHandler h(obs);
        Server *srv = new Server(&h);
        {
            QFile keyFile(QString(REPO_DIR_STR) + "/tests/key.pem");
            keyFile.open(QIODevice::ReadOnly);
            QSslKey key(&keyFile, QSsl::Rsa);
            QSslConfiguration config;
            config.setPrivateKey(key);
            config.setLocalCertificateChain(QSslCertificate::fromPath(QString(REPO_DIR_STR) + "/tests/cert.pem"));
            srv->setSslConfiguration(config);
        }
        srv->listen(QHostAddress::LocalHost, 0);
        QSslSocket c;
        c.setPeerVerifyMode(QSslSocket::VerifyNone);
        QObject::connect(&c, static_cast<void (QSslSocket::*)(const QList<QSslError> &)>(&QSslSocket::sslErrors), [&c]() { c.ignoreSslErrors(); });
        c.connectToHostEncrypted("127.0.0.1", srv->serverPort());
        QElapsedTimer t; t.start();
        while (t.elapsed() < 5000 && !c.isEncrypted()) pump(50);
        c.write("GET /mid HTTP/1.1\r\n\r\n"); c.flush();
        qint64 total = 0; QByteArray first;
        int idleRounds = 0;
        while (idleRounds < 30) {
            pump(50);
            QByteArray b = c.readAll();
            if (first.size() < 4096) first += b.left(4096 - first.size());
            total += b.size();
            idleRounds = b.isEmpty() ? idleRounds + 1 : 0;
            if (b.isEmpty() && c.state() == QAbstractSocket::UnconnectedState) break;
        }
        int hdr = first.indexOf("\r\n\r\n");
        bool ok = c.isEncrypted() || total > 0;
        ok = first.startsWith("HTTP/1.0 200") && hdr > 0 && total == qint64(hdr) + 4 + 24LL * 1024 * 1024;
        *obs << QString("x:49:%1").arg(ok ? "01" : "00");
        if (!ok) *obs << QString("x:47:%1").arg(QString::number(total, 16));
        out.obs << "end";
        alarm(0);
        QStringList sink; h.obs = &sink;
        c.abort();
        delete srv;
        pump(100);
        return;
    }
    if (scn.toks.contains("slowread")) {
        // a client that takes its time: it reads the beginning of a huge response, then nothing for eleven seconds
        // (of virtual time: every timer that is due by then fires), then the rest.  Everything the application wrote
        // before close() must arrive.
        alarm(60);
        LogHandler h(obs);
        Server *srv = new Server(&h);
        srv->listen(QHostAddress::LocalHost, 0);
        QTcpSocket c;
        c.setReadBufferSize(1 << 20);
        c.connectToHost(QHostAddress::LocalHost, srv->serverPort());
        c.waitForConnected(1000);
        c.write("GET /big HTTP/1.1\r\n\r\n"); c.flush();
        pump(800);
        qint64 total = 0;
        QByteArray first = c.read(1 << 20);
        total += first.size();
        pump(300);
        g_vclock_offset_ns += 11LL * 1000000000LL;
        pump(300);
        c.setReadBufferSize(0);
        int idleRounds = 0;
        while (idleRounds < 40) {
            pump(50);
            qint64 n = c.readAll().size();
            // (a read also re-arms the socket's notifier after the buffer limit was lifted)
            if (n == 0 && c.bytesAvailable() == 0) { c.waitForReadyRead(5); n = c.readAll().size(); }
            total += n;
            idleRounds = n ? 0 : idleRounds + 1;
        }
        int hdr = first.indexOf("\r\n\r\n");
        bool ok = first.startsWith("HTTP/1.0 200") && hdr > 0 && total == qint64(hdr) + 4 + 64LL * 1024 * 1024;
        *obs << QString("x:46:%1").arg(ok ? "01" : "00");
        if (!ok) *obs << QString("x:47:%1").arg(QString::number(total, 16));
        out.obs << "end";
        alarm(0);
        QStringList sink; h.obs = &sink;
        c.abort();
        delete srv;
        pump(100);
        return;
    }
    if (scn.toks.contains("stall")) {
        // one client asks for a huge response and never reads it; handling that request must not
        // keep the (single-threaded) engine from serving the next client
        alarm(25);                                   // a blocked event loop ends the process: `hang`
        LogHandler h(obs);
        Server *srv = new Server(&h);
        srv->listen(QHostAddress::LocalHost, 0);
        QTcpSocket a;
        a.setReadBufferSize(1);
        a.connectToHost(QHostAddress::LocalHost, srv->serverPort());
        a.waitForConnected(1000);
        a.write("GET /big HTTP/1.1\r\n\r\n"); a.flush();
        pump(800);
        QTcpSocket b;
        b.connectToHost(QHostAddress::LocalHost, srv->serverPort());
        b.waitForConnected(1000);
        b.write("GET /small HTTP/1.1\r\n\r\n"); b.flush();
        pump(1500);
        QByteArray got = b.readAll();
        *obs << QString("x:43:%1").arg(got.startsWith("HTTP/1.0 200") ? "01" : "00");
        out.obs << "end";
        alarm(0);
        QStringList sink; h.obs = &sink;
        a.abort(); b.abort();
        delete srv;
        pump(100);
        return;
    }
    if (kind == "raw") urlOracle(payload, out);
    else urlOracle("GET " + payload + " HTTP/1.1\r\n\r\n", out);

    LogHandler handler(obs);
    LogMw mw(obs);
    handler.addMiddleware(&mw);
    Server *server = new Server(&handler);
    if (tls) {
        QFile keyFile(QString(REPO_DIR_STR) + "/tests/key.pem");
        keyFile.open(QIODevice::ReadOnly);
        QSslKey key(&keyFile, QSsl::Rsa);
        QSslConfiguration config;
        config.setPrivateKey(key);
        if (!nocert) config.setLocalCertificateChain(QSslCertificate::fromPath(QString(REPO_DIR_STR) + "/tests/cert.pem"));
        server->setSslConfiguration(config);
    }
    server->listen(QHostAddress::LocalHost, 0);
    pump(200);
    int idleChildren = server->findChildren<QObject *>().size();

    QByteArray got;
    if (kind == "raw") {
        QTcpSocket c;
        c.connectToHost(QHostAddress::LocalHost, server->serverPort());
        c.waitForConnected(1000);
        if (!payload.isEmpty()) { c.write(payload); c.flush(); }
        pump();
        got = c.readAll();
        c.disconnectFromHost();
        pump();
    } else {
        QSslSocket c;
        c.setPeerVerifyMode(QSslSocket::VerifyNone);
        QObject::connect(&c, static_cast<void (QSslSocket::*)(const QList<QSslError> &)>(&QSslSocket::sslErrors), [&c]() { c.ignoreSslErrors(); });
        if (tls) c.connectToHostEncrypted("127.0.0.1", server->serverPort());
        else c.connectToHost(QHostAddress::LocalHost, server->serverPort());
        QElapsedTimer t; t.start();
        while (t.elapsed() < 3000 && !(tls ? c.isEncrypted() : c.state() == QAbstractSocket::ConnectedState)) pump(50);
        if (idleMs > 0) {
            // an established connection may stay idle for any time before the request arrives
            QElapsedTimer idle; idle.start();
            while (idle.elapsed() < idleMs) { QCoreApplication::processEvents(QEventLoop::AllEvents, 20); QCoreApplication::sendPostedEvents(nullptr, QEvent::DeferredDelete); QThread::msleep(5); }
        }
        c.write("GET " + payload + " HTTP/1.1\r\n\r\n"); c.flush();
        pump();
        got = c.readAll();
        c.disconnectFromHost();
        pump();
    }
    // 41: bytes a clear-text client received; 42: what a TLS client received after decryption
    *obs << QString(kind == "raw" ? "x:41:" : "x:42:") + hx(got.left(12));
    pump(300);
    int left = server->findChildren<QObject *>().size() - idleChildren;
    *obs << QString("x:40:%1").arg(left == 0 ? "01" : "00");
    out.obs << "end";
    QStringList sink; handler.obs = &sink; mw.obs = &sink;
    delete server;
    pump(100);
}
