// Language `fs`: FilesystemHandler serving a fixed tree (created by tools/check.py under
// .work/fstree), one request on a SimTcp, event loop stepped explicitly.
#include "common.h"
#include "simtcp.h"
#include <QCoreApplication>
#include <QDir>
#include <QDirIterator>
#include <QFileInfo>
#include <QFile>
#include <QMimeDatabase>
#include <QPointer>
#include <fcntl.h>
#include <sys/stat.h>
#include <qhttpengine/filesystemhandler.h>
#include <qhttpengine/socket.h>
using namespace QHttpEngine;
void urlOracle(const QByteArray &stream, Out &out);

static QByteArray listingOf(const QString &dir)
{
    // the listing the library produces for `dir` when it is the document root itself (title "/")
    FilesystemHandler h(dir);
    SimTcp *tcp = new SimTcp;
    Socket *s = new Socket(tcp);
    QObject::connect(s, &Socket::headersParsed, [&]() { h.route(s, QString()); });
    tcp->feed("GET / HTTP/1.1\r\n\r\n");
    QByteArray w = tcp->wire;
    int i = w.indexOf("\r\n\r\n");
    delete s;
    return i < 0 ? QByteArray() : w.mid(i + 4);
}

static void fsOracleAt(Out &out, const QString &base);
void fsOracle(Out &out)
{
    fsOracleAt(out, QDir::cleanPath(QDir::currentPath() + "/fstree"));
    // what is compiled into the process as Qt resources is outside every document root too
    out.ora << QString("fs:%1:d:0").arg(hx(QByteArray(":")));
    out.ora << QString("fs:%1:d:0").arg(hx(QByteArray(":/res")));
    { QFile ff(":/res/canary.txt"); ff.open(QIODevice::ReadOnly); QByteArray fb = ff.readAll();
      out.ora << QString("fs:%1:f:%2:%3").arg(hx(QByteArray(":/res/canary.txt"))).arg(fb.size()).arg(fb.isEmpty() ? 0 : int(uchar(fb[0]))); }
}

static void fsOracleAt(Out &out, const QString &base)
{
    // file-system oracle: everything under the tree base, and the ancestors of the base
    QMimeDatabase db;
    {
        QString p = base;
        while (true) { out.ora << QString("fs:%1:d:0").arg(hx(p.toUtf8())); if (p == "/") break; p = QFileInfo(p).path(); }
        QDirIterator it(base, QDir::AllEntries | QDir::Hidden | QDir::NoDotAndDotDot, QDirIterator::Subdirectories);
        while (it.hasNext()) {
            QString f = it.next();
            QFileInfo fi(f);
            if (fi.isDir()) {
                out.ora << QString("fs:%1:d:0").arg(hx(f.toUtf8()));
            } else {
                { QFile ff(f); ff.open(QIODevice::ReadOnly); QByteArray fb = ff.read(1); out.ora << QString("fs:%1:f:%2:%3").arg(hx(f.toUtf8())).arg(fi.size()).arg(fb.isEmpty() ? 0 : int(uchar(fb[0]))); }
                out.ora << QString("mime:%1:%2").arg(hx(f.toUtf8())).arg(hx(db.mimeTypeForFile(f).name().toUtf8()));
            }
        }
        static QMap<QString, QByteArray> listings;
        QStringList dirs; dirs << base;
        QDirIterator it2(base, QDir::Dirs | QDir::NoDotAndDotDot, QDirIterator::Subdirectories);
        while (it2.hasNext()) dirs << it2.next();
        foreach (const QString &d, dirs) {
            if (!listings.contains(d)) listings[d] = listingOf(d);
            out.ora << QString("lst:%1:%2").arg(hx(d.toUtf8())).arg(hx(listings[d]));
        }
    }

}

void runFs(const Scn &scn, Out &out)
{
    QStringList *obs = &out.obs;
    QByteArray root, preroot, stream;
    bool mkroot = false;
    QStringList events;
    foreach (const QString &t, scn.toks) {
        QStringList p = t.split(':');
        if (p[0] == "root") root = unhx(p[1]);
        else if (p[0] == "preroot") preroot = unhx(p[1]);
        else if (p[0] == "mkroot") mkroot = true;
        else { events << t; if (p[0] == "feed") stream.append(unhx(p[1])); }
    }
    urlOracle(stream, out);
    fsOracle(out);
    // `mkroot`: the document root is a directory of this scenario alone (created here, removed at the end), holding
    // one file whose content the scenario changes and restores (`warmrw`)
    const QString rwFile = QString::fromUtf8(root) + "/f.bin";
    auto rwContent = [](int n) { QByteArray b(n, 0); for (int i = 0; i < n; ++i) b[i] = char((i * 7 + 11) % 251); return b; };
    auto rwPut = [&](int n) { QFile f(rwFile); if (f.open(QIODevice::WriteOnly | QIODevice::Truncate)) { f.write(rwContent(n)); f.close(); } };
    if (mkroot) {
        QDir().mkpath(QString::fromUtf8(root));
        rwPut(50);
        fsOracleAt(out, QDir::cleanPath(QString::fromUtf8(root)));
    }

    // `preroot`: the handler object served another document root before (`setroot` switches to the scenario's root)
    QPointer<FilesystemHandler> handlerP = new FilesystemHandler(QString::fromUtf8(preroot.isEmpty() ? root : preroot));
    FilesystemHandler &handler = *handlerP;
    QPointer<SimTcp> tcp = new SimTcp;
    tcp->log = obs;
    QPointer<Socket> sock;
    int k = 0;
    foreach (const QString &t, events) {
        QStringList p = t.split(':');
        if (p[0] == "warmls") {
            // the same handler object listed the scenario's own directory before, when it held one entry less (or more);
            // the directory is put back as it was, modification time included.  Not observed.
            if (!handlerP || !mkroot) continue;
            const QByteArray dirp = root;
            struct stat sd; bool haved = ::stat(dirp.constData(), &sd) == 0;
            auto keepDir = [&]() { if (haved) { struct timespec ts[2] = { sd.st_atim, sd.st_mtim }; ::utimensat(AT_FDCWD, dirp.constData(), ts, 0); } };
            const QString other = QString::fromUtf8(root) + (p[1] == "1" ? "/zz-extra.bin" : "/f.bin");
            QByteArray saved;
            if (p[1] == "1") { QFile f(other); if (f.open(QIODevice::WriteOnly)) { f.write("x"); f.close(); } }      // one entry more
            else { QFile f(other); if (f.open(QIODevice::ReadOnly)) { saved = f.readAll(); f.close(); } QFile::remove(other); }   // one less
            keepDir();
            QStringList sink2;
            QPointer<SimTcp> wt = new SimTcp;
            wt->log = &sink2;
            QPointer<Socket> ws = new Socket(wt);
            Socket *w = ws;
            FilesystemHandler *hp2 = handlerP;
            QObject::connect(w, &Socket::headersParsed, [hp2, w]() { hp2->route(w, w->path().mid(1)); });
            wt->feed("GET / HTTP/1.1\r\n\r\n");
            for (int i = 0; i < 6; ++i) { eventTurn(); if (wt) wt->ackAll(); }
            if (wt) { wt->log = nullptr; wt->peerClose(); }
            eventTurn();
            if (ws) delete ws.data();
            eventTurn();
            if (p[1] == "1") QFile::remove(other);
            else { QFile f(other); if (f.open(QIODevice::WriteOnly)) { f.write(saved); f.close(); } }
            keepDir();
            continue;
        }
        if (p[0] == "warmrw") {
            // an earlier request for the scenario's own file, served by the same handler object while the file had
            // another size; the content is put back afterwards with the modification time unchanged (two saves
            // within the granularity of the time stamp).  Not observed.
            if (!handlerP || !mkroot) continue;
            struct stat st0; bool have = ::stat(rwFile.toUtf8().constData(), &st0) == 0;
            auto keepTime = [&]() { if (have) { struct timespec ts[2] = { st0.st_atim, st0.st_mtim }; ::utimensat(AT_FDCWD, rwFile.toUtf8().constData(), ts, 0); } };
            rwPut(p[1].toInt()); keepTime();
            QStringList sink2;
            QPointer<SimTcp> wt = new SimTcp;
            wt->log = &sink2;
            QPointer<Socket> ws = new Socket(wt);
            Socket *w = ws;
            FilesystemHandler *hp2 = handlerP;
            QObject::connect(w, &Socket::headersParsed, [hp2, w]() { hp2->route(w, w->path().mid(1)); });
            wt->feed("GET /f.bin HTTP/1.1\r\n\r\n");
            for (int i = 0; i < 6; ++i) { eventTurn(); if (wt) wt->ackAll(); }
            if (wt) { wt->log = nullptr; wt->peerClose(); }
            eventTurn();
            if (ws) delete ws.data();
            eventTurn();
            rwPut(50); keepTime();
            continue;
        }
        if (p[0] == "warm") {
            // an earlier request, on another connection, served by the same handler object; not observed: what
            // the handler answers later must not depend on it
            if (!handlerP) continue;
            QStringList sink2;
            QPointer<SimTcp> wt = new SimTcp;
            wt->log = &sink2;
            QPointer<Socket> ws = new Socket(wt);
            Socket *w = ws;
            FilesystemHandler *hp2 = handlerP;
            QObject::connect(w, &Socket::headersParsed, [hp2, w]() { hp2->route(w, w->path().mid(1)); });
            wt->feed("GET " + unhx(p[1]) + " HTTP/1.1\r\n\r\n");
            for (int i = 0; i < 6; ++i) { eventTurn(); if (wt) wt->ackAll(); }
            if (wt) { wt->log = nullptr; wt->peerClose(); }
            eventTurn();
            if (ws) delete ws.data();
            eventTurn();
            continue;
        }
        if (p[0] == "setroot") {
            if (handlerP) handlerP->setDocumentRoot(QString::fromUtf8(root));
            continue;
        }
        if (p[0] == "killhandler") {
            // the handler object goes away while the response it started is under way (the file and the copier of
            // that response do not belong to it)
            if (handlerP) delete handlerP.data();
            continue;
        }
        if (!(k > 0 && !sock)) *obs << QString("e:%1").arg(k);
        ++k;
        if (p[0] == "new") {
            sock = new Socket(tcp);
            Socket *s = sock;
            QObject::connect(s, &Socket::headersParsed, [handlerP, s, obs]() { obs->append("hp"); if (handlerP) handlerP->route(s, s->path().mid(1)); });
            QObject::connect(s, &Socket::disconnected, [obs]() { obs->append("dc"); });
            QObject::connect(s, &QObject::destroyed, [obs]() { obs->append("del"); });
        } else if (p[0] == "feed") { if (tcp) tcp->feed(unhx(p[1])); }
        else if (p[0] == "turn") eventTurn();
        else if (p[0] == "ackall") { if (tcp) tcp->ackAll(); }
        else if (p[0] == "ack") { if (tcp) tcp->ack(p[1].toLongLong()); }
        else if (p[0] == "peerclose") { if (tcp) tcp->peerClose(); }
    }
    out.obs << "end";
    QStringList sink;
    if (tcp) tcp->log = nullptr;
    QObject::disconnect(sock, nullptr, nullptr, nullptr);
    if (sock) delete sock.data();
    if (tcp) delete tcp.data();      // a scenario without `new`: nothing took ownership of the transport
    eventTurn();
    if (handlerP) delete handlerP.data();
    eventTurn();
    if (mkroot) QDir(QString::fromUtf8(root)).removeRecursively();
}
