// Language `proxy`: ProxyHandler between a SimTcp client and a scripted upstream server on
// loopback.  `turn` runs the event loop until nothing moves any more.
#include "common.h"
#include "simtcp.h"
#include <QCoreApplication>
#include <QElapsedTimer>
#include <QPointer>
#include <QTcpServer>
#include <QTcpSocket>
#include <QThread>
#include <netinet/in.h>
#include <netinet/tcp.h>
#include <sys/socket.h>
#include <qhttpengine/proxyhandler.h>
#include <qhttpengine/socket.h>
using namespace QHttpEngine;
extern long long g_vclock_offset_ns;
void urlOracle(const QByteArray &stream, Out &out);

void runProxy(const Scn &scn, Out &out)
{
    QStringList *obs = &out.obs;
    QByteArray stream;
    bool refuse = false;
    QStringList events;
    foreach (const QString &t, scn.toks) {
        QStringList p = t.split(':');
        if (p[0] == "refuse") refuse = true;
        else { events << t; if (p[0] == "feed") stream.append(unhx(p[1])); }
    }
    urlOracle(stream, out);

    QTcpServer upstream;
    upstream.listen(QHostAddress::LocalHost, 0);
    quint16 port = upstream.serverPort();
    if (refuse) upstream.close();
    QPointer<QTcpSocket> upSock;
    QByteArray received;
    int reported = 0;

    ProxyHandler handler(QHostAddress::LocalHost, port);
    QPointer<SimTcp> tcp = new SimTcp;
    tcp->log = obs;
    QPointer<Socket> sock;

    auto pump = [&]() {
        int quiet = 0, lastObs = -1, lastRecv = -1;
        QElapsedTimer timer; timer.start();
        while (quiet < 4 && timer.elapsed() < 3000) {
            QCoreApplication::processEvents(QEventLoop::AllEvents, 2);
            QCoreApplication::sendPostedEvents(nullptr, QEvent::DeferredDelete);
            if (!upSock && upstream.hasPendingConnections()) {
                upSock = upstream.nextPendingConnection();
                // the scripted server's writes are small and come one per `up` event: without TCP_NODELAY Nagle's
                // algorithm holds the second one back until the proxy's kernel acknowledges the first, which it
                // delays (~40 ms) once the connection has carried data both ways - longer than a `turn` waits
                upSock->setSocketOption(QAbstractSocket::LowDelayOption, 1);
            }
            // once the scripted upstream has sent something, the kernel delays its acknowledgements (~40 ms) and
            // Nagle's algorithm then holds back the proxy's next small write for as long: ask for immediate
            // acknowledgements (the option is not sticky, so on every round)
            if (upSock && upSock->state() == QAbstractSocket::ConnectedState) {
                int one = 1;
                setsockopt(int(upSock->socketDescriptor()), IPPROTO_TCP, TCP_QUICKACK, &one, sizeof one);
            }
            if (upSock && upSock->bytesAvailable()) received.append(upSock->readAll());
            if (obs->size() == lastObs && received.size() == lastRecv) { ++quiet; QThread::msleep(2); }
            else quiet = 0;
            lastObs = obs->size(); lastRecv = received.size();
        }
        if (received.size() > reported) { obs->append("x:20:" + hx(received.mid(reported))); reported = received.size(); }
    };

    int k = 0;
    foreach (const QString &t, events) {
        QStringList p = t.split(':');
        if (p[0] == "advance") {
            // time passes (virtual: every timer due by then fires at the next turn); not an event of the model, which has
            // no timers - nothing the proxy does may depend on how long an exchange takes
            g_vclock_offset_ns += p[1].toLongLong() * 1000000LL;
            continue;
        }
        if (!(k > 0 && !sock)) *obs << QString("e:%1").arg(k);
        ++k;
        if (p[0] == "new") {
            sock = new Socket(tcp);
            Socket *s = sock;
            QObject::connect(s, &Socket::headersParsed, [&handler, s]() { handler.route(s, s->path().mid(1)); });
        } else if (p[0] == "feed") { if (tcp) tcp->feed(unhx(p[1])); }
        else if (p[0] == "ackall") { if (tcp) tcp->ackAll(); }
        else if (p[0] == "peerclose") { if (tcp) tcp->peerClose(); }
        else if (p[0] == "turn") pump();
        else if (p[0] == "up") { if (upSock && upSock->state() == QAbstractSocket::ConnectedState) { upSock->write(unhx(p[1])); upSock->flush(); } }
        else if (p[0] == "upclose") { if (upSock && upSock->state() == QAbstractSocket::ConnectedState) upSock->disconnectFromHost(); }
    }
    out.obs << "end";
    if (tcp) tcp->log = nullptr;
    if (sock) delete sock.data();
    if (tcp) delete tcp.data();      // a scenario without `new`: nothing took ownership of the transport
    if (upSock) delete upSock.data();
    upstream.close();
    eventTurn();
    eventTurn();
}
