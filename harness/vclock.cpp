// Virtual time for the scenarios that need it: the monotonic clocks every timer of Qt (and of the library, should it
// ever arm one) is driven by can be moved forward by the harness.  `clock_gettime` defined here takes precedence over
// libc's (and over the sanitizer's interceptor) for every caller in the process.
#include <sys/syscall.h>
#include <time.h>
#include <unistd.h>

long long g_vclock_offset_ns = 0;

extern "C" int clock_gettime(clockid_t id, struct timespec *ts)
{
    int r = int(syscall(SYS_clock_gettime, id, ts));
    if (r == 0 && g_vclock_offset_ns != 0 &&
        (id == CLOCK_MONOTONIC || id == CLOCK_MONOTONIC_RAW || id == CLOCK_MONOTONIC_COARSE || id == CLOCK_BOOTTIME)) {
        long long ns = ts->tv_nsec + g_vclock_offset_ns % 1000000000LL;
        ts->tv_sec += g_vclock_offset_ns / 1000000000LL + ns / 1000000000LL;
        ts->tv_nsec = ns % 1000000000LL;
    }
    return r;
}
