// Correspondence harness: executes scenario lines against the library built from the current
// working tree of /repo and prints what was observed.
//   in : SCN <prop> <lang> <id> <token>...
//   out: the SCN line, then ORA <id> ..., then OBS <id> ...
#include "common.h"

#include <QCoreApplication>
#include <QTextStream>
#include <iostream>
#include <string>

int main(int argc, char **argv)
{
    qputenv("QT_LOGGING_RULES", "*.warning=false;*.debug=false");
    QCoreApplication app(argc, argv);
    // global oracle: the error pages the library produces on its own initiative
    {
        QStringList g;
        for (int code : {400, 401, 403, 404, 500, 502})
            g << QString("ep:%1:~:%2").arg(code).arg(hx(errorPage(code, QByteArray(), true)));
        std::cout << "ORA * " << g.join(' ').toStdString() << std::endl;
    }
    std::string line;
    while (std::getline(std::cin, line)) {
        QString l = QString::fromStdString(line).trimmed();
        if (!l.startsWith("SCN ")) continue;
        QStringList t = l.split(' ', Qt::SkipEmptyParts);
        if (t.size() < 4) continue;
        Scn scn{t[1], t[2], t[3], t.mid(4)};
        std::cout << line << std::endl;     // flushed before execution: a crash is attributable
        Out out;
        if (scn.lang == "sock") runSock(scn, out);
        else if (scn.lang == "qt") runQt(scn, out);
        else if (scn.lang == "range") runRange(scn, out);
        else if (scn.lang == "route") runRoute(scn, out);
        else if (scn.lang == "auth") runAuth(scn, out);
        else if (scn.lang == "copier") runCopier(scn, out);
        else if (scn.lang == "fs") runFs(scn, out);
        else if (scn.lang == "slot") runSlot(scn, out);
        else if (scn.lang == "lauth") runLauth(scn, out);
        else if (scn.lang == "proxy") runProxy(scn, out);
        else if (scn.lang == "life") runLife(scn, out);
        else if (scn.lang == "tls") runTls(scn, out);
        else out.obs << "badlang";
        std::cout << "ORA " << scn.id.toStdString() << " " << out.ora.join(' ').toStdString() << "\n";
        std::cout << "OBS " << scn.id.toStdString() << " " << out.obs.join(' ').toStdString() << std::endl;
    }
    return 0;
}
