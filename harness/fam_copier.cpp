// Language `copier`: QIODeviceCopier between instrumented devices, event loop stepped explicitly.
#include "common.h"
#include <QBuffer>
#include <QCoreApplication>
#include <qhttpengine/qiodevicecopier.h>
using namespace QHttpEngine;

namespace {

struct Faults { bool srcOpen = false, dstOpen = false, seek = false; int readAt = -1, writeAt = -1; };

// random-access source: a QBuffer with injected failures
class MemSrc : public QBuffer
{
public:
    Faults *f; int reads = 0;
    MemSrc(Faults *ff) : f(ff) {}
    bool open(OpenMode m) override { return f->srcOpen ? false : QBuffer::open(m); }
    bool seek(qint64 p) override { return f->seek ? false : QBuffer::seek(p); }
protected:
    qint64 readData(char *d, qint64 n) override { if (reads++ == f->readAt) return -1; return QBuffer::readData(d, n); }
};

// sequential source fed by the scenario
class SeqSrc : public QIODevice
{
public:
    Faults *f; QByteArray buf;
    SeqSrc(Faults *ff) : f(ff) {}
    bool isSequential() const override { return true; }
    bool open(OpenMode m) override { return f->srcOpen ? false : QIODevice::open(m); }
    qint64 bytesAvailable() const override { return buf.size() + QIODevice::bytesAvailable(); }
    void arrive(const QByteArray &b) { if (!isOpen()) return; buf.append(b); Q_EMIT readyRead(); }
    // data that reaches the device's buffer without a readyRead() of its own (e.g. together with the end of the stream)
    void arriveQuiet(const QByteArray &b) { if (!isOpen()) return; buf.append(b); }
    void eof() { Q_EMIT readChannelFinished(); }
protected:
    qint64 readData(char *d, qint64 n) override { qint64 k = qMin<qint64>(n, buf.size()); if (k > 0) { memcpy(d, buf.constData(), k); buf.remove(0, k); } return k; }
    qint64 writeData(const char *, qint64) override { return -1; }
};

class LogDest : public QIODevice
{
public:
    Faults *f; QStringList *obs; int writes = 0;
    // `stopin:k`: the k-th write (counted from 0) stops the copier from inside the write, as a slot reached from the
    // destination's own signals would
    int stopIn = -1; QIODeviceCopier *copier = nullptr;
    // a destination that queues what it is given (as a socket does): bytesToWrite() reports the backlog,
    // `dack` takes some of it off and announces that with bytesWritten()
    bool buffered = false; qint64 pending = 0;
    LogDest(Faults *ff, QStringList *o) : f(ff), obs(o) {}
    bool isSequential() const override { return true; }
    qint64 bytesToWrite() const override { return buffered ? pending : 0; }
    void ack(qint64 n) { qint64 k = qMin(n, pending); if (k <= 0) return; pending -= k; Q_EMIT bytesWritten(k); }
    bool open(OpenMode m) override { return f->dstOpen ? false : QIODevice::open(m); }
protected:
    qint64 readData(char *, qint64) override { return 0; }
    qint64 writeData(const char *d, qint64 n) override
    {
        if (writes++ == f->writeAt) return -1;
        if (n > 0) obs->append("x:1:" + hx(QByteArray(d, n)));
        if (buffered && n > 0) pending += n;
        if (writes - 1 == stopIn && copier) copier->stop();
        return n;
    }
};

} // namespace

void runCopier(const Scn &scn, Out &out)
{
    QStringList *obs = &out.obs;
    Faults f;
    QByteArray content; bool seq = false; qint64 block = 65536; bool hasRange = false; qint64 rf = 0, rt = -1;
    QStringList events;
    bool dbuf = false; qint64 prepos = -1; int stopIn = -1;
    foreach (const QString &t, scn.toks) {
        QStringList p = t.split(':');
        if (p[0] == "src") content = unhx(p[1]);
        else if (p[0] == "dbuf") dbuf = true;
        else if (p[0] == "prepos") prepos = p[1].toLongLong();
        else if (p[0] == "stopin") stopIn = p[1].toInt();
        else if (p[0] == "seq") seq = true;
        else if (p[0] == "block") block = p[1].toLongLong();
        else if (p[0] == "range") { hasRange = true; rf = p[1].toLongLong(); rt = p[2].toLongLong(); }
        else if (p[0] == "fail") {
            if (p[1] == "srcopen") f.srcOpen = true; else if (p[1] == "dstopen") f.dstOpen = true;
            else if (p[1] == "seek") f.seek = true; else if (p[1] == "read") f.readAt = p[2].toInt();
            else if (p[1] == "write") f.writeAt = p[2].toInt();
        } else events << t;
    }
    MemSrc *mem = nullptr; SeqSrc *ss = nullptr; QIODevice *src;
    if (seq) { ss = new SeqSrc(&f); src = ss; } else { mem = new MemSrc(&f); mem->setData(content); src = mem; }
    // the application has already read from the random-access source: it is open and stands at `prepos` when the
    // scenario begins (QBuffer::seek, not the fault-injecting override; a read-only QBuffer refuses a position
    // beyond its size and stays at 0)
    if (mem && prepos >= 0 && mem->open(QIODevice::ReadOnly)) mem->QBuffer::seek(prepos);
    LogDest *dst = new LogDest(&f, obs);
    dst->buffered = dbuf;
    QIODeviceCopier *copier = new QIODeviceCopier(src, dst);
    copier->setBufferSize(block);
    dst->stopIn = stopIn; dst->copier = copier;
    if (hasRange) copier->setRange(rf, rt);
    QObject::connect(copier, &QIODeviceCopier::finished, [obs]() { obs->append("x:2:-"); });
    QObject::connect(copier, &QIODeviceCopier::error, [obs](const QString &) { obs->append("x:3:-"); });
    int k = 0;
    foreach (const QString &t, events) {
        QStringList p = t.split(':');
        // the destination takes bytes off its backlog: not an event of the copier's protocol (the copier is
        // not entitled to depend on it), so it carries no marker
        if (p[0] == "dack") { dst->ack(p[1].toLongLong()); continue; }
        *obs << QString("e:%1").arg(k++);
        if (p[0] == "start") copier->start();
        else if (p[0] == "turn") QCoreApplication::processEvents();
        else if (p[0] == "stop") copier->stop();
        else if (p[0] == "arrive") { if (ss) ss->arrive(unhx(p[1])); }
        else if (p[0] == "arriveq") { if (ss) ss->arriveQuiet(unhx(p[1])); }
        else if (p[0] == "eof") { if (ss) ss->eof(); }
    }
    out.obs << "end";
    QStringList sink;
    dst->obs = &sink;
    QObject::disconnect(copier, nullptr, nullptr, nullptr);
    delete copier;
    delete src;
    delete dst;
    QCoreApplication::processEvents();
}
