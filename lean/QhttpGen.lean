import QhttpGen.Range
import QhttpGen.Ack
import QhttpGen.Tables
import QhttpGen.Copier
import QhttpGen.Sock
import QhttpGen.Parser
import QhttpGen.Proxy
import QhttpGen.Fs
