import Qhttp
/-
  Line-protocol driver.  Reads the harness's output (SCN / ORA / OBS lines), runs the model on
  each scenario, and prints for each:
    RES <prop> <id> eq=<0|1> hm=<0|1> hi=<0|1> miss=<0|1> [| <model projection> | <impl projection>]
  eq   : projection of the model's history = projection of the implementation's
  hm/hi: the property predicate (`Cxx.holds`, the one the theorems are about) on the model's /
         the implementation's history
  miss : the model asked an oracle question the harness did not answer (harness defect)
-/
open Qhttp Qhttp.Proto

/-- merge adjacent transport writes: chunking of writes is not part of any property -/
def mergeW : List Obs → List Obs
  | .w a :: .w c :: l => mergeW (.w (a ++ c) :: l)
  | o :: l => o :: mergeW l
  | [] => []
termination_by l => l.length

def keep (prop : String) (o : Obs) : Bool :=
  match prop, o with
  | "C01", .hp => true | "C01", .snap _ => true | "C01", _ => false
  | "C02", .w _ => false | "C02", .tc => false | "C02", .bw _ => false | "C02", .rr => false
  | "C03", .bw _ => false | "C03", .rr => false
  | "C18", .rr => false
  | _, _ => true

def project (prop : String) (l : List Obs) : List Obs := mergeW (l.filter (keep prop))

def containsMiss (l : List Obs) : Bool :=
  l.any fun o => match o with
    | .w b => isInfixB MISS b
    | .snap s => s.path == MISS
    | _ => false

def holdsFor (prop : String) (env : Env) (sc : Scenario) (obs : List Obs) : Bool :=
  match prop with
  | "C01" => C01.holds env sc obs
  | "C02" => C02.holds env sc obs
  | "C03" => C03.holds env sc obs
  | "C04" => C04.holds env sc obs
  | "C18" => C18.holds sc obs
  | "C19" => C19.holdsMarked sc obs
  | "C11" => C11.holds obs
  | _ => true

structure Pending where
  prop : String := ""
  lang : String := ""
  id   : String := ""
  toks : List String := []
  ora  : Oracle := {}

def evalSock (p : Pending) (glob : Oracle) (obsToks : List String) : String :=
  let ps := parseSock p.toks
  let ora : Oracle := { urls := glob.urls ++ p.ora.urls, pages := glob.pages ++ p.ora.pages,
                        json := glob.json ++ p.ora.json, misc := p.ora.misc }
  -- a JSON document is given by its source text; what writeJson() sends is QJsonDocument's
  -- serialisation of it, which the harness reports as an oracle value
  let js (op : ApiOp) : ApiOp := match op with
    | .json doc c => .json ((ora.json.find? (·.1 == doc)).map (·.2) |>.getD MISS) c
    | o => o
  let script : Script := { onHp := ps.app.onHp.map js, onRr := ps.app.onRr.map js, onRcf := ps.app.onRcf.map js,
                           onBw := ps.app.onBw.map js, onDc := ps.app.onDc.map js }
  let sc : Scenario := { app := script.app, events := ps.events.map fun e => match e with | .api o => .api (js o) | e => e }
  let env := ora.env
  let mlog := (Scenario.run env sc).log
  let crashed := obsToks.contains "crash"
  let ilog := (obsToks.filter (· != "end")).filterMap parseObs
  let badTok := (obsToks.filter (fun t => t != "end" && (parseObs t).isNone))
  let pm := project p.prop mlog
  let pi := project p.prop ilog
  let eq := pm == pi
  let hm := holdsFor p.prop env sc mlog
  let hi := holdsFor p.prop env sc ilog
  let miss := containsMiss mlog || !ps.bad.isEmpty || !badTok.isEmpty
  let b (x : Bool) := if x then "1" else "0"
  let head := s!"RES {p.prop} {p.id} eq={b eq} hm={b hm} hi={b hi} miss={b miss} crash={b crashed}"
  if eq && hi && hm && !miss then head
  else head ++ " | " ++ showLog pm ++ " | " ++ showLog pi ++
    (if ps.bad.isEmpty && badTok.isEmpty then "" else " | bad: " ++ " ".intercalate (ps.bad ++ badTok))

/-! language `range` -/

def parseBuild (tok : String) : Option C16.Build :=
  match fields tok with
  | ["n", f, t, s] => some (.nums (toInt f) (toInt t) (toInt s))
  | ["a", f, t, s] => some (.nums (toInt f) (toInt t) (toInt s))
  -- an object that held (and was asked about) another range before: what it was is of no consequence
  | ["q", _, _, _, f, t, s] => some (.nums (toInt f) (toInt t) (toInt s))
  | ["qs", _, _, _, x, s] => some (.text (unhex x) (toInt s))
  | ["s", x, s] => some (.text (unhex x) (toInt s))
  | ["c", f, t, s, s'] => some (.resize (toInt f) (toInt t) (toInt s) (toInt s'))
  | ["qc", f, t, s, s'] => some (.resize (toInt f) (toInt t) (toInt s) (toInt s'))
  | ["d"] => some (.text [] (-1))
  | _ => none

def parseAcc (tok : String) : Option C16.Acc :=
  match fields tok with
  | ["r", v, f, t, l, s, x] => some { valid := v == "1", frm := toInt f, to := toInt t, len := toInt l, size := toInt s, text := unhex x }
  | _ => none

def showAcc (a : C16.Acc) : String :=
  s!"r:{if a.valid then 1 else 0}:{a.frm}:{a.to}:{a.len}:{a.size}:{hex a.text}"

def evalRange (p : Pending) (obsToks : List String) : String :=
  let bs := p.toks.filterMap parseBuild
  let accs := obsToks.filterMap parseAcc
  let model := bs.map fun b => C16.accOf (C16.build b)
  let bad := bs.length != p.toks.length || accs.length != bs.length
  let eq := model == accs
  let hm := (bs.zip model).all fun (b, a) => C16.holds b a
  let hi := (bs.zip accs).all fun (b, a) => C16.holds b a
  let b (x : Bool) := if x then "1" else "0"
  let head := s!"RES {p.prop} {p.id} eq={b eq} hm={b hm} hi={b hi} miss={b bad} crash={b (obsToks.contains "crash")}"
  if eq && hm && hi && !bad then head
  else
    -- report only the builds that differ or fail
    let triples := (p.toks.zip (model.zip accs)).filter fun (_, m, a) =>
      m != a || !(match parseBuild "" with | _ => true) || true
    let badOnes := triples.filter fun (t, m, a) =>
      m != a || (match parseBuild t with | some b => !(C16.holds b a) || !(C16.holds b m) | none => true)
    head ++ " | " ++ " ".intercalate (badOnes.map fun (t, m, _) => t ++ "=>" ++ showAcc m) ++ " | " ++
      " ".intercalate (badOnes.map fun (t, _, a) => t ++ "=>" ++ showAcc a)

/-! language `route` -/

def unhex16 (s : String) : QStr :=
  let bs := unhex s
  let rec go : Bytes → QStr
    | a :: c :: rest => (UInt16.ofNat (a.toNat * 256 + c.toNat)) :: go rest
    | _ => []
  go bs

structure NodeSpec where
  id : Nat
  parent : Int
  pat : Nat
  own : Bool

structure RouteParse where
  nodes  : List NodeSpec := []
  redirs : List (Nat × Nat × QStr) := []     -- node, pattern, template (declaration order)
  mws    : List (Nat × Nat × Bool) := []     -- node, id, verdict
  raw    : Bytes := []
  noroot : Bool := false
  soft   : Bool := false
  prebuf : Bool := false                      -- the request was in the transport's buffer when the server took the connection

def parseRouteToks (toks : List String) : RouteParse :=
  toks.foldl (fun r t =>
    match fields t with
    | ["node", i, p, pat, own] => { r with nodes := r.nodes ++ [{ id := toNat i, parent := toInt p, pat := toNat pat, own := own == "1" }] }
    | ["redir", n, pat, tm] => { r with redirs := r.redirs ++ [(toNat n, toNat pat, unhex16 tm)] }
    | ["mw", n, i, ok] => { r with mws := r.mws ++ [(toNat n, toNat i, ok == "1" || ok == "3")] }
    | ["req", x] => { r with raw := unhex x }
    | ["noroot"] => { r with noroot := true }
    | ["unsetlate"] => { r with noroot := true }     -- the handler in force at headersParsed time decides
    | ["soft"] => { r with soft := true }             -- refusing middleware write their own response and do not close
    | ["prebuf"] => { r with prebuf := true }
    | _ => r) {}

instance : Inhabited Node := ⟨Node.mk 0 [] [] Subs.nil false⟩

partial def buildNode (r : RouteParse) (n : NodeSpec) : Node :=
  let kids := r.nodes.filter fun c => c.parent == (n.id : Int)
  let subs := kids.foldr (fun c acc => Subs.cons c.pat (buildNode r c) acc) Subs.nil
  Node.mk n.id ((r.mws.filter (·.1 == n.id)).map fun e => (e.2.1, e.2.2))
    ((r.redirs.filter (·.1 == n.id)).map fun e => (e.2.1, e.2.2)) subs n.own

def matcherOf (o : Oracle) : Matcher := fun pat subject =>
  (o.misc.findSome? fun f =>
    match f with
    | ["m", p, subj, idx, len, caps] =>
      if toNat p == pat && unhex16 subj == subject then
        some { idx := toNat idx, len := toNat len,
               caps := if caps == "~" then [] else (caps.splitOn ",").map unhex16 }
      else none
    | _ => none)

def evalRoute (p : Pending) (glob : Oracle) (obsToks : List String) : String :=
  let r := parseRouteToks p.toks
  let ora : Oracle := { urls := glob.urls ++ p.ora.urls, pages := glob.pages ++ p.ora.pages, misc := p.ora.misc }
  let root := if r.noroot then none else (r.nodes.find? (·.parent == -1)).map (buildNode r)
  let p16 := (ora.misc.findSome? fun f => match f with | ["p16", x] => some (unhex16 x) | _ => none).getD []
  let sc : RouteScn := { root := root, matcher := matcherOf ora, raw := r.raw, p16 := p16 }
  let env := ora.env
  -- `prebuf`: the same request, already buffered when `ServerPrivate::process` runs (a schedule of the correspondence runs;
  -- the route theorems are stated for the request arriving afterwards)
  let scn : Scenario := if r.prebuf then { app := sc.app, events := [.prebuf sc.stream, .new, .turn] }
                        else if r.soft then sc.softScenario else sc.scenario
  let mlog := (Scenario.run env scn).log
  let ilog := (obsToks.filter (· != "end")).filterMap parseObs
  let badTok := obsToks.filter (fun t => t != "end" && (parseObs t).isNone)
  let keepR (o : Obs) : Bool := match o with | .del => false | .dc => false | .hp => false | _ => true
  let pm := mergeW (mlog.filter keepR)
  let pi := mergeW (ilog.filter keepR)
  -- C04 through the Server's glue: for a head the library rejects, no middleware and no handler is ever asked
  let rejected := match C01.headOf sc.stream with | some h => (C01.expect env h).isNone | none => true
  let untouched (l : List Obs) : Bool := !l.any fun o => match o with | .mw _ _ => true | .rt _ _ => true | .pr _ _ => true | _ => false
  let hold (l : List Obs) : Bool :=
    if p.prop == "C04" then (!rejected || untouched l)
    else if p.prop == "C06" then C06.holds env sc l else if p.prop == "C11" then C11.holds l else C05.holds env sc l
  let eq := pm == pi
  let hm := hold mlog
  let hi := hold ilog
  let miss := containsMiss mlog || !badTok.isEmpty
  let b (x : Bool) := if x then "1" else "0"
  let head := s!"RES {p.prop} {p.id} eq={b eq} hm={b hm} hi={b hi} miss={b miss} crash={b (obsToks.contains "crash")}"
  if eq && hi && hm && !miss then head else head ++ " | " ++ showLog pm ++ " | " ++ showLog pi

/-! language `auth` -/

def evalAuth (p : Pending) (glob : Oracle) (obsToks : List String) : String :=
  let ora : Oracle := { urls := glob.urls ++ p.ora.urls, pages := glob.pages ++ p.ora.pages, misc := p.ora.misc }
  let env := ora.env
  let realm := (p.toks.findSome? fun t => match fields t with | ["realm", r] => some (unhex r) | _ => none).getD []
  -- tokens in order: `cred` changes the table, `head` is one request against the table of that moment
  let reqs : List C09.AuthScn := (p.toks.foldl (fun (acc : List (Bytes × Bytes) × List C09.AuthScn) t =>
    match fields t with
    | ["cred", u, pw] => (acc.1 ++ [(unhex u, unhex pw)], acc.2)
    | ["head", h] => (acc.1, acc.2 ++ [{ table := acc.1, realm := realm, head := unhex h }])
    | _ => acc) ([], [])).2
  let mlogs := reqs.map fun sc => (Scenario.run env sc.scenario).log
  let ilog := (obsToks.filter (· != "end")).filterMap parseObs
  let badTok := obsToks.filter (fun t => t != "end" && (parseObs t).isNone)
  let keepR (o : Obs) : Bool := match o with | .del => false | .dc => false | .hp => false | _ => true
  -- the implementation's history, cut at each request's first marker
  let ilogs : List (List Obs) := (ilog.foldl (fun (acc : List (List Obs)) o =>
    match o, acc with
    | .ev 0, _ => acc ++ [[o]]
    | _, [] => [[o]]
    | _, _ => acc.dropLast ++ [acc.getLast! ++ [o]]) [])
  let pm := mlogs.map fun l => mergeW (l.filter keepR)
  let pi := ilogs.map fun l => mergeW (l.filter keepR)
  let eq := pm == pi
  let hm := (reqs.zip mlogs).all fun (sc, l) => C09.holds env sc l
  let hi := ilogs.length == reqs.length && ((reqs.zip ilogs).all fun (sc, l) => C09.holds env sc l)
  let miss := mlogs.any containsMiss || !badTok.isEmpty
  let b (x : Bool) := if x then "1" else "0"
  let head := s!"RES {p.prop} {p.id} eq={b eq} hm={b hm} hi={b hi} miss={b miss} crash={b (obsToks.contains "crash")}"
  if eq && hi && hm && !miss then head else head ++ " | " ++ " || ".intercalate (pm.map showLog) ++ " | " ++ " || ".intercalate (pi.map showLog)

/-! language `copier` -/

def evalCopier (p : Pending) (obsToks : List String) : String :=
  let (cfg, evs) := p.toks.foldl (fun (acc : Copier.Cfg × List Copier.Ev) t =>
    let (c, es) := acc
    match fields t with
    | ["src", x] => ({ c with src := unhex x }, es)
    | ["seq"] => ({ c with seq := true }, es)
    | ["block", n] => ({ c with block := toNat n }, es)
    | ["range", f, t'] => ({ c with range := some (toInt f, toInt t') }, es)
    | ["fail", "srcopen"] => ({ c with srcOpenFails := true }, es)
    | ["fail", "dstopen"] => ({ c with dstOpenFails := true }, es)
    | ["fail", "seek"] => ({ c with seekFails := true }, es)
    | ["fail", "read", k] => ({ c with readFailAt := some (toNat k) }, es)
    | ["fail", "write", k] => ({ c with writeFailAt := some (toNat k) }, es)
    | ["start"] => (c, es ++ [.start])
    | ["turn"] => (c, es ++ [.turn])
    | ["stop"] => (c, es ++ [.stop])
    | ["arrive", x] => (c, es ++ [.arrive (unhex x)])
    | ["eof"] => (c, es ++ [.eof])
    | ["arriveq", x] => (c, es ++ [.arriveQ (unhex x)])
    | ["prepos", n] => ({ c with prePos := toNat n }, es)
    | _ => (c, es)) (({ src := [] } : Copier.Cfg), [])
  -- `prepos:n`: the harness opens the random-access source and seeks to `n` before the first event;
  -- a QBuffer opened for reading refuses a position beyond its size and stays at 0
  let cfg := { cfg with prePos := if cfg.prePos ≤ cfg.src.length then cfg.prePos else 0 }
  -- `stopin:k`: stop() is called from inside the k-th write of the destination.  What must be observed is what the model
  -- shows when stop() is an event of its own right after the turn that makes that write (the C14 theorems about stop()
  -- speak about that run), or, when that write is the last one of the copy, the run without stop() (the completion
  -- stop() signals is the only one): `C14.stopInEvs`.  That this is what the repaired code does when stop() runs inside
  -- the write (model `Copier.runS`) is the theorem `C14.stopin_equiv`; event markers are left out of the comparison,
  -- the implementation's run has one less.
  let stopIn : Option Nat := p.toks.findSome? fun t => match fields t with | ["stopin", k] => some (toNat k) | _ => none
  let evs0 := evs
  let evs := match stopIn with
    | some k => C14.stopInEvs cfg k evs
    | none => evs
  let mlog := (Copier.run cfg evs).log
  let ilog := (obsToks.filter (· != "end")).filterMap parseObs
  let badTok := obsToks.filter (fun t => t != "end" && (parseObs t).isNone)
  -- chunking of destination writes is not part of the property: merge adjacent ones
  let mergeX (l : List Obs) : List Obs :=
    l.foldr (fun o acc => match o, acc with
      | .misc 1 a, .misc 1 c :: rest => .misc 1 (a ++ c) :: rest
      | o, acc => o :: acc) []
  let noEv (l : List Obs) : List Obs := C14.noMark l
  let pm := if stopIn.isSome then mergeX (noEv mlog) else mergeX mlog
  let pi := if stopIn.isSome then mergeX (noEv ilog) else mergeX ilog
  let eq := pm == pi
  let hm := C14.holdsRuns cfg evs mlog
  -- `stopin:k`: the implementation is also compared with the model that has the nested stop() itself (`Copier.runS`)
  let eqS := match stopIn with
    | some k => mergeX (noEv (Copier.runS cfg k evs0).log) == pi
    | none => true
  let hi := if stopIn.isSome then eq && eqS else C14.holdsRuns cfg evs ilog
  let b (x : Bool) := if x then "1" else "0"
  let head := s!"RES {p.prop} {p.id} eq={b eq} hm={b hm} hi={b hi} miss={b (!badTok.isEmpty)} crash={b (obsToks.contains "crash")}"
  if eq && hi && hm && badTok.isEmpty then head else head ++ " | " ++ showLog pm ++ " | " ++ showLog pi

/-! language `fs` -/

def locOf (path : Bytes) : List Bytes := (Fs.segs path).filter (!·.isEmpty)

def patternBytes (size seed : Nat) : Bytes := (List.range size).map fun i => UInt8.ofNat ((i * 7 + seed) % 251)

partial def replaceFirst (pat rep : Bytes) (xs : Bytes) : Bytes :=
  match breakOn pat xs with
  | some (a, r) => a ++ rep ++ r
  | none => xs

def fsEnvOf (ora : Oracle) (root : Bytes) : FsHandler.FsEnv :=
  let entries : List (List Bytes × Fs.Kind × Nat × Nat) := ora.misc.filterMap fun f => match f with
    | ["fs", path, "d", _] => some (locOf (unhex path), .dir, 0, 0)
    | ["fs", path, "f", size, seed] => some (locOf (unhex path), .file, toNat size, toNat seed)
    | _ => none
  let tree : Fs.Tree := entries.map fun e => (e.1, e.2.1)
  let mimes : List (List Bytes × Bytes) := ora.misc.filterMap fun f => match f with
    | ["mime", path, m] => some (locOf (unhex path), unhex m) | _ => none
  let lsts : List (List Bytes × Bytes) := ora.misc.filterMap fun f => match f with
    | ["lst", path, b] => some (locOf (unhex path), unhex b) | _ => none
  let t1 := "<title>/</title>".toUTF8.toList
  let h1 := "<h1>/</h1>".toUTF8.toList
  { root := root, tree := tree,
    content := fun loc => match entries.find? (·.1 == loc) with | some (_, _, sz, sd) => patternBytes sz sd | none => [],
    mime := fun loc => ((mimes.find? (·.1 == loc)).map (·.2)).getD MISS,
    listing := fun loc decoded =>
      match lsts.find? (·.1 == loc) with
      | none => MISS
      | some (_, b) =>
        let esc := C07.htmlEscape decoded
        let b := replaceFirst t1 ("<title>/".toUTF8.toList ++ esc ++ "</title>".toUTF8.toList) b
        replaceFirst h1 ("<h1>/".toUTF8.toList ++ esc ++ "</h1>".toUTF8.toList) b }

def evalFs (p : Pending) (glob : Oracle) (obsToks : List String) : String :=
  let ora : Oracle := { urls := glob.urls ++ p.ora.urls, pages := glob.pages ++ p.ora.pages, misc := p.ora.misc }
  let env := ora.env
  let root := (p.toks.findSome? fun t => match fields t with | ["root", r] => some (unhex r) | _ => none).getD []
  let evs : List Event := p.toks.filterMap fun t => match fields t with | ["root", _] => none | _ => parseEvent t
  let fe := fsEnvOf ora root
  let mlog := (FsHandler.run env fe evs).sock.log
  let ilog := (obsToks.filter (· != "end")).filterMap parseObs
  let badTok := obsToks.filter (fun t => t != "end" && (parseObs t).isNone)
  let pm := mergeW mlog
  let pi := mergeW ilog
  let stream := Scenario.fed evs
  let snap := (C01.headOf stream).bind (C01.expect env)
  let path := (snap.map (·.path.drop 1)).getD []
  let rangeHdr := (snap.map fun s => HeaderMap.value FsHandler.RANGE s.headers).getD []
  -- complete: the request was delivered whole and the event loop was given at least 4 turns
  let complete := snap.isSome && (evs.filter fun e => match e with | .turn => true | _ => false).length ≥ 4 &&
                  !(evs.any fun e => match e with | .peerClose => true | _ => false)
  let hold (l : List Obs) : Bool :=
    if p.prop == "C08" then C08.holds fe path rangeHdr complete l else if p.prop == "C11" then C11.holds l
    else C07.holds fe path complete l
  let eq := pm == pi
  let hm := hold mlog
  let hi := hold ilog
  let miss := containsMiss mlog || !badTok.isEmpty
  let b (x : Bool) := if x then "1" else "0"
  let head := s!"RES {p.prop} {p.id} eq={b eq} hm={b hm} hi={b hi} miss={b miss} crash={b (obsToks.contains "crash")}"
  if eq && hi && hm && !miss then head else head ++ " | " ++ showLog pm ++ " | " ++ showLog pi

/-! language `slot` -/

def evalSlot (p : Pending) (glob : Oracle) (obsToks : List String) : String :=
  let ora : Oracle := { urls := glob.urls ++ p.ora.urls, pages := glob.pages ++ p.ora.pages, misc := p.ora.misc }
  let env := ora.env
  let (regs, evs) := p.toks.foldl (fun (acc : List SlotHandler.Reg × List Event) t =>
    let (rs, es) := acc
    match fields t with
    | ["reg", n, kind, ra] =>
      (rs ++ [{ name := unhex16 n, idx := rs.length, good := kind == "old" || kind == "old2" || kind == "pmf" || kind == "functor", readAll := ra == "1" }], es)
    | _ => match parseEvent t with | some e => (rs, es ++ [e]) | none => (rs, es)) ([], [])
  let p16 := (ora.misc.findSome? fun f => match f with | ["p16", x] => some (unhex16 x) | _ => none).getD []
  let path := p16.drop 1
  let app := SlotHandler.app regs path
  let mlog := (Scenario.run env { app := app, events := evs }).log
  let ilog := (obsToks.filter (· != "end")).filterMap parseObs
  let badTok := obsToks.filter (fun t => t != "end" && (parseObs t).isNone)
  let keepR (o : Obs) : Bool := match o with | .del => false | .dc => false | .rr => false | .bw _ => false | _ => true
  let pm := mergeW (mlog.filter keepR)
  let pi := mergeW (ilog.filter keepR)
  let stream := Scenario.fed evs
  let accepted := match C01.headOf stream with | some h => (C01.expect env h).isSome | none => false
  let rq := C02.req env stream
  let eq := pm == pi
  let hm := C15.holds regs path accepted rq mlog
  let hi := C15.holds regs path accepted rq ilog
  let miss := containsMiss mlog || !badTok.isEmpty
  let b (x : Bool) := if x then "1" else "0"
  let head := s!"RES {p.prop} {p.id} eq={b eq} hm={b hm} hi={b hi} miss={b miss} crash={b (obsToks.contains "crash")}"
  if eq && hi && hm && !miss then head else head ++ " | " ++ showLog pm ++ " | " ++ showLog pi

/-! language `lauth` -/

def parseLOp (tok : String) : Option LocalAuth.Op :=
  match fields tok with
  | ["umask", m] => some (.umask ((m.toList.foldl (fun a c => a * 8 + (c.toNat - 48)) 0)))
  | ["pre", m] => some (.pre ((m.toList.foldl (fun a c => a * 8 + (c.toNat - 48)) 0)))
  | ["create"] => some .create
  | ["data", ks] => some (.setData (if ks == "-" then [] else (ks.splitOn ",").map unhex))
  | ["hdrname", n] => some (.setHeaderName (unhex n))
  | ["req", "none"] => some (.req none)
  | ["req", n, v] =>
    let tv : LocalAuth.TokVal :=
      if v == "exact" then .exact else if v == "upper" then .upper else if v == "droplast" then .dropLast
      else if v == "braceless" then .braceless else if v == "nul" then .nulSuffix else if v == "bom" then .bomPrefix
      else if v == "previous" then .previous else .other (unhex (v.drop 2).toString)
    some (.req (some (unhex n, tv)))
  | ["destroy"] => some .destroy
  | ["block"] => some .block
  | ["unblock"] => some .unblock
  | _ => none

def evalLauth (p : Pending) (obsToks : List String) : String :=
  let ops := p.toks.filterMap parseLOp
  let mlog := (LocalAuth.run ops).log
  let ilog := (obsToks.filter (· != "end")).filterMap parseObs
  let badTok := obsToks.filter (fun t => t != "end" && (parseObs t).isNone)
  -- before the first instance exists the file is whatever the scenario left there: compare
  -- snapshots only from the first `create` on (the model does not track foreign content)
  let eq := mlog == ilog
  let hm := C17.holds ops mlog
  let hi := C17.holds ops ilog
  let b (x : Bool) := if x then "1" else "0"
  let head := s!"RES {p.prop} {p.id} eq={b eq} hm={b hm} hi={b hi} miss={b (!badTok.isEmpty || ops.length != p.toks.length)} crash={b (obsToks.contains "crash")}"
  if eq && hi && hm && badTok.isEmpty then head else head ++ " | " ++ showLog mlog ++ " | " ++ showLog ilog

/-! language `proxy` -/

def evalProxy (p : Pending) (glob : Oracle) (obsToks : List String) : String :=
  let ora : Oracle := { urls := glob.urls ++ p.ora.urls, pages := glob.pages ++ p.ora.pages, misc := p.ora.misc }
  let env := ora.env
  let refuse := p.toks.contains "refuse"
  let evs : List Proxy.PEv := p.toks.filterMap fun t =>
    match fields t with
    | ["refuse"] => none
    | ["turn"] => some .turn
    | ["up", b] => some (.up (unhex b))
    | ["upclose"] => some .upClose
    | _ => (parseEvent t).map .sock
  let stream := C12.clientStream evs
  let snap := (C01.headOf stream).bind (C01.expect env)
  let cfg : Proxy.Cfg := { refuse := refuse, path := (snap.map (·.path.drop 1)).getD [] }
  let mlog := (Proxy.run env cfg evs).sock.log
  let ilog := (obsToks.filter (· != "end")).filterMap parseObs
  let badTok := obsToks.filter (fun t => t != "end" && (parseObs t).isNone)
  let keepR (o : Obs) : Bool := match o with
    | .del => false | .dc => false | .hp => false | .rr => false | .rd _ => false | .rcf => false | .bw _ => false | _ => true
  let pm := mergeW (mlog.filter keepR)
  let pi := mergeW (ilog.filter keepR)
  let hold (l : List Obs) : Bool := if p.prop == "C13" then C13.holds env cfg evs l else if p.prop == "C11" then C11.holds l else C12.holds env cfg evs l
  let eq := pm == pi
  let hm := hold mlog
  let hi := hold ilog
  let miss := containsMiss mlog || !badTok.isEmpty
  let b (x : Bool) := if x then "1" else "0"
  let head := s!"RES {p.prop} {p.id} eq={b eq} hm={b hm} hi={b hi} miss={b miss} crash={b (obsToks.contains "crash")}"
  if eq && hi && hm && !miss then head else head ++ " | " ++ showLog pm ++ " | " ++ showLog pi

/-! language `life` -/

def evalLife (p : Pending) (glob : Oracle) (obsToks : List String) : String :=
  let ora : Oracle := { urls := glob.urls ++ p.ora.urls, pages := glob.pages ++ p.ora.pages, misc := p.ora.misc }
  let env := ora.env
  let root := (p.toks.findSome? fun t => match fields t with | ["root", r] => some (unhex r) | _ => none).getD []
  let kind := (p.toks.findSome? fun t => match fields t with | ["kind", k] => some k | _ => none).getD "fs"
  let evs : List Life.LEv := p.toks.filterMap fun t =>
    match fields t with
    | ["root", _] => none | ["kind", _] => none
    | ["killserver"] => some .killServer
    | _ => (parseEvent t).map .ev
  let fe := fsEnvOf ora root
  -- the harness ends every scenario the same way: both sides closed, then four turns
  let tailEvs : List Life.LEv := [.ev .peerClose, .ev .ackAll, .ev .turn, .ev .turn, .ev .turn, .ev .turn]
  let body := Life.run env fe evs
  -- the closing events are not marked in the harness: run them on the model without markers
  let fin := tailEvs.foldl (fun st e =>
      let before := st.fs.sock.log.length
      let st' := Life.step env fe st e
      -- drop the marker the model logged for this unmarked event
      let added := st'.fs.sock.log.drop before
      let kept := added.filter fun o => match o with | .ev _ => false | _ => true
      { st' with fs := { st'.fs with sock := { st'.fs.sock with log := st.fs.sock.log ++ kept } } }) body
  let mlog := body.fs.sock.log ++ [Obs.misc 30 [UInt8.ofNat (Life.live fin)], Obs.misc 31 [0]]
  let ilog := (obsToks.filter (· != "end")).filterMap parseObs
  let badTok := obsToks.filter (fun t => t != "end" && (parseObs t).isNone)
  let keepR (o : Obs) : Bool := match o with | .del => false | .dc => false | .hp => false | .rcf => false | .rr => false | .bw _ => false | .ev _ => false | _ => true
  let pm := mergeW (mlog.filter keepR)
  let pi := mergeW (ilog.filter keepR)
  -- for handler kinds without a model (the slot handler) only the predicate is evaluated
  let noModel := kind == "slot" || kind == "proxy"
  let eq := noModel || pm == pi
  let hm := noModel || C10.holds mlog
  let hi := C10.holds ilog
  let miss := (!noModel && containsMiss mlog) || !badTok.isEmpty
  let b (x : Bool) := if x then "1" else "0"
  let head := s!"RES {p.prop} {p.id} eq={b eq} hm={b hm} hi={b hi} miss={b miss} crash={b (obsToks.contains "crash")}"
  if eq && hi && hm && !miss then head else head ++ " | " ++ showLog pm ++ " | " ++ showLog pi ++ " | " ++
    " ".intercalate ((ora.misc.filter fun f => f.head? == some "leak").map fun f => ":".intercalate f)

/-! language `tls` -/

def evalTls (p : Pending) (glob : Oracle) (obsToks : List String) : String :=
  if p.toks.contains "halfclose" then
    -- a client that shuts its sending side behind the request still gets a complete, self-consistent file response
    let ok := obsToks.contains "x:45:01" && !obsToks.contains "crash" && !obsToks.contains "hang"
    let b (x : Bool) := if x then "1" else "0"
    s!"RES {p.prop} {p.id} eq={b ok} hm=1 hi={b ok} miss=0 crash={b (obsToks.contains "crash" || obsToks.contains "hang")}" ++
      (if ok then "" else " | x:45:01 | " ++ " ".intercalate obsToks)
  else
  if p.toks.contains "crowd" then
    -- several clients at once, one of which leaves while others are still sending: everybody is served once and
    -- nothing per-connection is left afterwards
    let ok := obsToks.contains "x:44:01" && !obsToks.contains "crash" && !obsToks.contains "hang"
    let b (x : Bool) := if x then "1" else "0"
    s!"RES {p.prop} {p.id} eq={b ok} hm=1 hi={b ok} miss=0 crash={b (obsToks.contains "crash" || obsToks.contains "hang")}" ++
      (if ok then "" else " | x:44:01 | " ++ " ".intercalate obsToks)
  else
  if p.toks.contains "chainbig" then
    let ok := obsToks.contains "x:50:01" && !obsToks.contains "crash" && !obsToks.contains "hang"
    let b (x : Bool) := if x then "1" else "0"
    s!"RES {p.prop} {p.id} eq={b ok} hm=1 hi={b ok} miss=0 crash={b (obsToks.contains "crash" || obsToks.contains "hang")}" ++
      (if ok then "" else " | x:50:01 | " ++ " ".intercalate obsToks)
  else
  if p.toks.contains "chain" || p.toks.contains "bigbody" then
    -- over real sockets: a handler pacing itself on bytesWritten() delivers everything and closes (48); a response larger
    -- than every buffer arrives in full over TLS (49)
    let want := if p.toks.contains "chain" then "x:48:01" else "x:49:01"
    let ok := obsToks.contains want && !obsToks.contains "crash" && !obsToks.contains "hang"
    let b (x : Bool) := if x then "1" else "0"
    s!"RES {p.prop} {p.id} eq={b ok} hm=1 hi={b ok} miss=0 crash={b (obsToks.contains "crash" || obsToks.contains "hang")}" ++
      (if ok then "" else " | " ++ want ++ " | " ++ " ".intercalate obsToks)
  else
  if p.toks.contains "slowread" then
    -- a slow reader gets the whole response, however long (virtual time) it pauses
    let ok := obsToks.contains "x:46:01" && !obsToks.contains "crash" && !obsToks.contains "hang"
    let b (x : Bool) := if x then "1" else "0"
    s!"RES {p.prop} {p.id} eq={b ok} hm=1 hi={b ok} miss=0 crash={b (obsToks.contains "crash" || obsToks.contains "hang")}" ++
      (if ok then "" else " | x:46:01 | " ++ " ".intercalate obsToks)
  else
  if p.toks.contains "stall" then
    -- liveness scenario: the second client must be served while the first one does not read
    let ok := obsToks.contains "x:43:01" && !obsToks.contains "crash" && !obsToks.contains "hang"
    let b (x : Bool) := if x then "1" else "0"
    s!"RES {p.prop} {p.id} eq={b ok} hm=1 hi={b ok} miss=0 crash={b (obsToks.contains "crash" || obsToks.contains "hang")}" ++
      (if ok then "" else " | x:43:01 | " ++ " ".intercalate obsToks)
  else
  let ora : Oracle := { urls := glob.urls ++ p.ora.urls, pages := glob.pages ++ p.ora.pages, misc := p.ora.misc }
  let env := ora.env
  let tls := p.toks.contains "tls"
  let client : C20.Client := (p.toks.findSome? fun t => match fields t with
    | ["raw", b] => some (C20.Client.raw (unhex b))
    | ["ssl", b] => some (C20.Client.ssl (unhex b))
    | _ => none).getD (.raw [])
  -- the request a clear-text client's bytes amount to on a plain server, if any
  let reqOf (bytes : Bytes) : List Tls.TEv :=
    match C01.headOf bytes with
    | some h => (match C01.expect env h with | some f => [.request f.rawPath] | none => [])
    | none => []
  let evs : List Tls.TEv := match client with
    | .raw b => [.connect, .clear b] ++ (if tls then [] else reqOf b) ++ [.clientClose]
    | .ssl t =>
      -- the target must be one the parser accepts, else nothing is routed either way
      let routed := reqOf (lit ['G','E','T',' '] ++ t ++ lit [' ','H','T','T','P','/','1','.','1'] ++ CRLF2)
      [.connect] ++ (if tls then [.handshakeDone] else []) ++ routed ++ [.clientClose]
  let mlog := (Tls.run tls evs).log
  let ilog := (obsToks.filter (· != "end")).filterMap parseObs
  let badTok := obsToks.filter (fun t => t != "end" && (parseObs t).isNone)
  let keepR (o : Obs) : Bool := match o with | .misc 41 _ => false | .misc 42 _ => false | .mw _ _ => false | _ => true
  let pm := mlog.filter keepR
  let pi := ilog.filter keepR
  -- for an ssl client the expected routing is exactly the accepted request (none if rejected)
  let client' : C20.Client := match client with
    | .ssl t => if (reqOf (lit ['G','E','T',' '] ++ t ++ lit [' ','H','T','T','P','/','1','.','1'] ++ CRLF2)).isEmpty then .raw [] else .ssl t
    | c => c
  let eq := pm == pi
  let hm := C20.holds tls client' mlog
  let hi := C20.holds tls client' ilog
  let b (x : Bool) := if x then "1" else "0"
  let head := s!"RES {p.prop} {p.id} eq={b eq} hm={b hm} hi={b hi} miss={b (!badTok.isEmpty)} crash={b (obsToks.contains "crash")}"
  if eq && hi && hm && badTok.isEmpty then head else head ++ " | " ++ showLog pm ++ " | " ++ showLog pi

/-! language `qt`: the Lean sub-models of Qt value classes against Qt itself -/

def evalQt (p : Pending) (obsToks : List String) : String :=
  let showL (l : List Bytes) : String := if l.isEmpty then "-" else ",".intercalate (l.map hex)
  let step (acc : HeaderMap × List String) (t : String) : HeaderMap × List String :=
    let (m, out) := acc
    match fields t with
    | ["lower", x] => (m, out ++ ["b:" ++ hex (lower (unhex x))])
    | ["trim", x] => (m, out ++ ["b:" ++ hex (trim (unhex x))])
    | ["toll", x] => (m, out ++ [s!"i:{toLongLong (unhex x)}"])
    | ["toint", x] => (m, out ++ [s!"i:{toIntQ (unhex x)}"])
    | ["num", n] => (m, out ++ ["b:" ++ hex (intText (toInt n))])
    | ["lt", a, c] => (m, out ++ [s!"i:{if HeaderMap.keyLt (unhex a) (unhex c) then 1 else 0}"])
    | ["splitc", x, c] => (m, out ++ ["l:" ++ ",".intercalate ((splitChar (UInt8.ofNat (toNat c)) (unhex x)).map hex)])
    | ["mins", k, v] => let m' := HeaderMap.insert (unhex k) (unhex v) m; (m', out ++ ["m:" ++ showPairs m'])
    | ["mrep", k, v] => let m' := HeaderMap.replace (unhex k) (unhex v) m; (m', out ++ ["m:" ++ showPairs m'])
    | ["mval", k] => (m, out ++ ["b:" ++ hex (HeaderMap.value (unhex k) m)])
    | ["mvals", k] => (m, out ++ ["l:" ++ showL (HeaderMap.values (unhex k) m)])
    | ["mcnt", k] => (m, out ++ [s!"i:{HeaderMap.count (unhex k) m}"])
    | ["mhas", k] => (m, out ++ [s!"i:{if HeaderMap.contains (unhex k) m then 1 else 0}"])
    | ["b64", x] => (m, out ++ ["b:" ++ hex (BasicAuth.fromBase64 (unhex x))])
    | ["pct", x] => (m, out ++ ["b:" ++ hex (Fs.pctDecode (unhex x))])
    | ["clean", x] => (m, out ++ ["b:" ++ hex (Fs.cleanPath (unhex x))])
    | _ => (m, out ++ ["?"])
  let model := (p.toks.foldl step ([], [])).2
  let impl := obsToks.filter (· != "end")
  let eq := model == impl
  let b (x : Bool) := if x then "1" else "0"
  let head := s!"RES {p.prop} {p.id} eq={b eq} hm=1 hi={b eq} miss=0 crash={b (obsToks.contains "crash")}"
  if eq then head else head ++ " | " ++ " ".intercalate model ++ " | " ++ " ".intercalate impl

partial def loop (h : IO.FS.Stream) (glob : Oracle) (cur : Pending) : IO Unit := do
  let line ← h.getLine
  if line.isEmpty then return ()
  let toks := (line.trimAscii.toString.splitOn " ").filter (· != "")
  match toks with
  | "SCN" :: prop :: lang :: id :: rest =>
    loop h glob { prop := prop, lang := lang, id := id, toks := rest }
  | "ORA" :: "*" :: rest =>
    loop h (rest.foldl Oracle.add glob) cur
  | "ORA" :: _ :: rest =>
    loop h glob { cur with ora := rest.foldl Oracle.add cur.ora }
  | "OBS" :: _ :: rest =>
    let out := match cur.lang with
      | "sock" => evalSock cur glob rest
      | "range" => evalRange cur rest
      | "route" => evalRoute cur glob rest
      | "auth" => evalAuth cur glob rest
      | "copier" => evalCopier cur rest
      | "fs" => evalFs cur glob rest
      | "slot" => evalSlot cur glob rest
      | "lauth" => evalLauth cur rest
      | "proxy" => evalProxy cur glob rest
      | "life" => evalLife cur glob rest
      | "tls" => evalTls cur glob rest
      | "qt" => evalQt cur rest
      | l => s!"RES {cur.prop} {cur.id} eq=0 hm=0 hi=0 miss=1 crash=0 | unknown language {l}"
    IO.println out
    loop h glob cur
  | _ => loop h glob cur

def main : IO Unit := do
  loop (← IO.getStdin) {} {}
