import QhttpGen.Ack
import Qhttp.Model.Socket
/-
  Bridge: `SocketPrivate::onBytesWritten` as translated from /repo/src/src/socket.cpp on this run
  computes the same new write state, the same remaining header count and the same emitted
  notification as the model's `Sock.onBytesWritten` (C18's theorems are about the latter).
-/
namespace QhttpBridge.Ack
open Qhttp

def encWs : WState → Int
  | .none => 0 | .headers => 1 | .data => 2 | .finished => 3

theorem enum_values :
    QhttpGen.Ack.WriteNone = encWs .none ∧ QhttpGen.Ack.WriteHeaders = encWs .headers ∧
    QhttpGen.Ack.WriteData = encWs .data ∧ QhttpGen.Ack.WriteFinished = encWs .finished := by
  decide

theorem onBytesWritten_eq (env : Env) (s : Sock) (n : Int) :
    let r := QhttpGen.Ack.onBytesWritten ⟨encWs s.ws, s.hdrRemaining⟩ n
    let s' := Sock.onBytesWritten env {} s n
    encWs s'.ws = r.1 ∧ s'.hdrRemaining = r.2.1 ∧ s'.log = s.log ++ r.2.2.map Obs.bw := by
  simp only [QhttpGen.Ack.onBytesWritten, Sock.onBytesWritten, Sock.emit, Sock.apis]
  by_cases h1 : s.ws = .headers
  · by_cases h2 : n < s.hdrRemaining
    · simp [h1, h2, encWs]
    · simp [h1, h2, encWs]
  · by_cases h3 : s.ws = .data
    · simp [h3, encWs]
    · have e1 : encWs s.ws ≠ 1 := by cases hw : s.ws <;> simp_all [encWs]
      have e2 : encWs s.ws ≠ 2 := by cases hw : s.ws <;> simp_all [encWs]
      simp [h1, h3, e1, e2]

end QhttpBridge.Ack
