import QhttpGen.Ack
import Qhttp.Model.Socket
/-
  Bridge: `SocketPrivate::onBytesWritten` as translated from /repo/src/src/socket.cpp on this run
  computes the same new write state, the same remaining header count and the same emitted
  notification as the model's `Sock.onBytesWritten` (C18's theorems are about the latter).
-/
namespace QhttpBridge.Ack
open Qhttp

def encWs : WState → Int
  | .none => 0 | .headers => 1 | .data => 2 | .finished => 3

theorem enum_values :
    QhttpGen.Ack.WriteNone = encWs .none ∧ QhttpGen.Ack.WriteHeaders = encWs .headers ∧
    QhttpGen.Ack.WriteData = encWs .data ∧ QhttpGen.Ack.WriteFinished = encWs .finished := by
  decide

theorem onBytesWritten_eq (env : Env) (s : Sock) (n : Int) :
    let r := QhttpGen.Ack.onBytesWritten ⟨encWs s.ws, s.hdrRemaining⟩ n
    let s' := Sock.onBytesWritten env {} s n
    encWs s'.ws = r.1 ∧ s'.hdrRemaining = r.2.1 ∧ s'.log = s.log ++ r.2.2.map Obs.bw := by
  simp only [QhttpGen.Ack.onBytesWritten, Sock.onBytesWritten, Sock.emit, Sock.apis]
  cases hw : s.ws <;> simp only [encWs] <;> (split <;> simp_all <;> grind)

end QhttpBridge.Ack
