import Lean.Elab.Tactic
import QhttpGen.Parser
import Qhttp.Lemmas.BytesLemmas
import Qhttp.Lemmas.C01Parser
/-
  Bridge: the functions of /repo/src/src/parser.cpp as translated on this run (`QhttpGen/Parser.lean`,
  by tools/cxx2lean.py) ARE the functions of the hand-written model (`Qhttp/Model/Parser.lean`,
  `Qhttp.split` of `Qhttp/Model/Bytes.lean`) that the theorems of C01, C02, C04, C12 and C13 are about.

  The translated functions are pure: a reference parameter of the C++ comes back in the result
  tuple, and every function takes a bound `fuel` for the counter loop of `Parser::split`.

  Main theorems (each for every input and every fuel above the length of the data):
    split_eq                  Parser::split appends the model's `split` (non-empty delimiter, maxSplit ≥ 0)
    parseHeaderList_eq        } success flag = the model's `isSome`; on success the returned parts / map / method /
    parseHeaders_eq           } path / status are the model's; on failure `false` (and method, path untouched)
    parseRequestHeaders_eq    }
    parseResponseHeaders_eq   }
    cxx_parseRequestHeaders   the vocabulary entry `Cxx.parseRequestHeaders` used by the translated socket.cpp is
                              the translated parser function with its out-parameters bound to the members
  and, for a run on which the function is translated (`∉ untranslated`), what the C++ returns EXACTLY,
  failure included (the partly filled map, the code stored before it is refused):
    parseHeaderList_run + headerListRun_snd, parseHeaders_run, parseResponseHeaders_run.

  How the proofs are kept independent of the shape of the generated text
    * statements mention the top-level functions only (`Parser_split`, `Parser_parseHeaderList`, ...);
      the auxiliary loop constants (`Parser_split.go1`, ...) appear in tactic scripts only;
    * the loop of `split` is compared with a reference loop `refLoop` written here in the same
      vocabulary (`Cxx.indexOfFrom`, `Cxx.mid`, `Cxx.size`); the comparison is structural
      (`induction fuel`, the two tests of the loop, `simp`), the semantic content (`refLoop` = the model's
      `splitF`, the loop invariant) is proved once, about `refLoop`;
    * neither the order nor the names of the loop variables of `go1`, nor what else it captures, are used:
      the tactic `abstract_closed_int_args` replaces the two closed `Int` arguments of the call of `go1`
      (the initial values of the counter and of the position) by variables, and both assignments of
      roles are tried;
    * the loop over the lines of `parseHeaderList` is handled by induction on the list on the goal itself;
    * a function that is outside the translated subset on a run is the model's function (a stand-in, listed
      in `QhttpGen.Parser.untranslated`); every proof starts with `first | (stand-in script) | (script)`.
      The `_run` theorems say more than the stand-ins do, hence their hypothesis `… ∉ untranslated`
      (decided by `decide` where they are used).
-/
set_option linter.unusedVariables false   -- a stand-in does not need the fuel hypotheses
set_option linter.unusedSimpArgs false    -- the scripts name more facts than one shape of the generated text needs

namespace QhttpBridge.Parser
open Qhttp QhttpGen.Parser

/-! ### a small tactic: make the initial loop state of a generated loop general -/

open Lean Elab Tactic Meta in
/-- `abstract_closed_int_args f`: in the goal `G[f a₁ … aₙ]` (first full application of the constant `f`)
    every argument `aⱼ : Int` that is a closed term (a literal initial value such as `0`) is replaced by a
    new universally quantified variable; the new goal is `∀ x₁ … xₖ, x₁ = a… → … → G[f … xⱼ …]`.
    Arguments that are variables or depend on variables (`parts`, `Cxx.size delim`) stay. -/
elab "abstract_closed_int_args " f:ident : tactic => withMainContext do
  let fn ← realizeGlobalConstNoOverloadWithInfo f
  let goal ← getMainGoal
  let tgt ← instantiateMVars (← goal.getType)
  let arity := (← inferType (← mkConstWithLevelParams fn)).getForallArity
  let some app := tgt.find? (fun e => e.isAppOfArity fn arity && !e.hasLooseBVars)
    | throwError "abstract_closed_int_args: no application of {fn} in the goal"
  let args := app.getAppArgs
  let mut idxs : Array Nat := #[]
  for j in [0:args.size] do
    let a := args[j]!
    if !a.hasFVar && !a.hasMVar && !a.hasLooseBVars && (← inferType a).isConstOf ``Int then
      idxs := idxs.push j
  if idxs.isEmpty then throwError "abstract_closed_int_args: nothing to abstract"
  let vals := idxs.map (fun j => args[j]!)
  let decls : Array (Name × (Array Expr → TacticM Expr)) :=
    idxs.map (fun j => (Name.mkSimple s!"x{j}", fun _ => pure (mkConst ``Int)))
  let newTgt ← withLocalDeclsD decls fun xs => do
    let mut args' := args
    for k in [0:idxs.size] do
      args' := args'.set! idxs[k]! xs[k]!
    let app' := mkAppN app.getAppFn args'
    let body := tgt.replace (fun e => if e == app then some app' else none)
    let mut r := body
    for k in [0:idxs.size] do
      let k' := idxs.size - 1 - k
      r ← mkArrow (← mkEq xs[k']! vals[k']!) r
    mkForallFVars xs r
  let newGoal ← mkFreshExprSyntheticOpaqueMVar newTgt (← goal.getTag)
  let mut pf := mkAppN newGoal vals
  for v in vals do
    pf := mkApp pf (← mkEqRefl v)
  goal.assign pf
  replaceMainGoal [newGoal.mvarId!]

/-! ### the vocabulary on positions inside the array -/

/-- `indexOf(d, from)` for a position inside the array is the model's `breakOn` on the rest -/
theorem indexOfFrom_drop (data d : Bytes) (p : Nat) (hp : p ≤ data.length) :
    Cxx.indexOfFrom data d (p : Int) =
      match breakOn d (data.drop p) with
      | some (a, _) => (p : Int) + a.length
      | none => -1 := by
  unfold Cxx.indexOfFrom
  have h1 : ¬ ((p : Int) < 0) := by omega
  have h2 : ¬ ((p : Int) > (data.length : Int)) := by omega
  simp only [h1, if_false, h2, Int.toNat_natCast]
  cases breakOn d (data.drop p) <;> rfl

theorem indexOfFrom_none {data d : Bytes} {p : Nat} (hp : p ≤ data.length)
    (h : breakOn d (data.drop p) = none) : Cxx.indexOfFrom data d (p : Int) = -1 := by
  rw [indexOfFrom_drop data d p hp, h]

theorem indexOfFrom_some {data d a r : Bytes} {p : Nat} (hp : p ≤ data.length)
    (h : breakOn d (data.drop p) = some (a, r)) :
    Cxx.indexOfFrom data d (p : Int) = ((p + a.length : Nat) : Int) := by
  rw [indexOfFrom_drop data d p hp, h]; simp

/-- `indexOf` returns a position or -1: however the C++ tests for "not found", it is `= -1` -/
theorem indexOfFrom_ge (b d : Bytes) (f : Int) : -1 ≤ Cxx.indexOfFrom b d f := by
  unfold Cxx.indexOfFrom
  simp only []
  have h0 : (0 : Int) ≤ (if f < 0 then max (f + (b.length : Int)) 0 else f) := by split <;> omega
  generalize (if f < 0 then max (f + (b.length : Int)) 0 else f) = g at h0
  split
  · omega
  · cases breakOn d (b.drop g.toNat) with
    | none => simp
    | some q => simp only []; omega

theorem indexOfFrom_lt_zero (b d : Bytes) (f : Int) : Cxx.indexOfFrom b d f < 0 ↔ Cxx.indexOfFrom b d f = -1 := by
  have := indexOfFrom_ge b d f; omega
theorem indexOfFrom_le_neg_one (b d : Bytes) (f : Int) : Cxx.indexOfFrom b d f ≤ -1 ↔ Cxx.indexOfFrom b d f = -1 := by
  have := indexOfFrom_ge b d f; omega
theorem indexOfFrom_nonneg (b d : Bytes) (f : Int) : 0 ≤ Cxx.indexOfFrom b d f ↔ ¬ Cxx.indexOfFrom b d f = -1 := by
  have := indexOfFrom_ge b d f; omega
theorem indexOfFrom_gt_neg_one (b d : Bytes) (f : Int) : -1 < Cxx.indexOfFrom b d f ↔ ¬ Cxx.indexOfFrom b d f = -1 := by
  have := indexOfFrom_ge b d f; omega

/-- `mid(pos, -1)`: the rest from a position inside the array -/
theorem mid_rest (data : Bytes) (p : Nat) (hp : p ≤ data.length) :
    Cxx.mid data (p : Int) (-1) = data.drop p := by
  unfold Cxx.mid
  have h1 : ¬ ((p : Int) > (data.length : Int)) := by omega
  have h2 : ¬ ((p : Int) < 0) := by omega
  have h3 : ((data.length : Int) - (p : Int)).toNat = data.length - p := by omega
  simp only [h1, h2, if_false, Int.toNat_natCast, show ((-1 : Int) < 0) from by decide, true_or, if_true, h3]
  rw [List.take_of_length_le (by simp)]

/-- `mid(pos, size - pos)` is `mid(pos)`, at every position -/
theorem mid_size_sub (data : Bytes) (pos : Int) : Cxx.mid data pos (Cxx.size data - pos) = Cxx.mid data pos (-1) := by
  unfold Cxx.mid Cxx.size
  simp only []
  split
  · rfl
  · split
    · have h1 : ((data.length : Int) - pos + pos ≥ (data.length : Int)) := by omega
      simp [h1]
    · have h1 : ¬ ((data.length : Int) - pos < 0 ∨ (data.length : Int) - pos > (data.length : Int) - pos) := by omega
      simp [h1]

/-- `mid(pos, next - pos)`: the piece in front of the occurrence `breakOn` found -/
theorem mid_piece {data d a r : Bytes} {p : Nat} (hp : p ≤ data.length)
    (h : breakOn d (data.drop p) = some (a, r)) :
    Cxx.mid data (p : Int) (((p + a.length : Nat) : Int) - (p : Int)) = a := by
  have hl := breakOn_length h
  have he := breakOn_some h
  simp only [List.length_drop] at hl
  unfold Cxx.mid
  have h1 : ¬ ((p : Int) > (data.length : Int)) := by omega
  have h2 : ¬ ((p : Int) < 0) := by omega
  have e : ((p + a.length : Nat) : Int) - (p : Int) = (a.length : Int) := by omega
  have h3 : ¬ ((a.length : Int) < 0 ∨ (a.length : Int) > (data.length : Int) - (p : Int)) := by omega
  simp only [h1, h2, if_false, e, h3, Int.toNat_natCast]
  rw [he, List.append_assoc, List.take_left']
  rfl

/-- the position after the delimiter: what `breakOn` returns as the rest -/
theorem drop_after {data d a r : Bytes} {p : Nat}
    (h : breakOn d (data.drop p) = some (a, r)) :
    data.drop (p + a.length + d.length) = r := by
  have he := breakOn_some h
  rw [Nat.add_assoc, ← List.drop_drop, he]
  exact List.drop_left' (by simp)

/-! ### the loop of `Parser::split`, written once in the vocabulary, and what it computes -/

/-- the loop of `Parser::split` followed by the final `parts.append(data.mid(index))`:
    `i` counts the cuts made, `idx` is the position behind the last delimiter found -/
def refLoop (data delim : Bytes) (m : Int) : Nat → Int → Int → List Bytes → List Bytes
  | 0, _, idx, ps => ps ++ [Cxx.mid data idx (-1)]
  | f + 1, i, idx, ps =>
    if m = 0 ∨ i < m then
      if Cxx.indexOfFrom data delim idx = -1 then ps ++ [Cxx.mid data idx (-1)]
      else refLoop data delim m f (i + 1) (Cxx.indexOfFrom data delim idx + Cxx.size delim)
             (ps ++ [Cxx.mid data idx (Cxx.indexOfFrom data delim idx - idx)])
    else ps ++ [Cxx.mid data idx (-1)]

/-- the model's limit (`none` = unlimited, `some k` = `k` more cuts) after `i` cuts -/
def limAt (m i : Int) : Option Nat := if m = 0 then none else some (m - i).toNat

theorem limAt_succ (m i : Int) : limAt m (i + 1) = (limAt m i).map (· - 1) := by
  unfold limAt
  split
  · rfl
  · simp only [Option.map_some, Option.some.injEq]; omega

theorem limAt_zero (m : Int) (hm : 0 ≤ m) : limAt m 0 = limOf m.toNat := by
  unfold limAt limOf
  by_cases h : m = 0
  · simp [h]
  · have : ¬ m.toNat = 0 := by omega
    simp [h, this]

/-- LOOP INVARIANT.  Entered with `i` cuts made (`i ≤ maxSplit` when there is a limit) at a position
    `p` inside the array, the loop appends the model's `splitF` of the rest of the array, with the
    same fuel and the limit that is left. -/
theorem refLoop_splitF (data delim : Bytes) (m : Int) (f : Nat) (i : Int) (p : Nat) (ps : List Bytes)
    (hp : p ≤ data.length) (hi : m = 0 ∨ i ≤ m) :
    refLoop data delim m f i (p : Int) ps = ps ++ splitF delim f (limAt m i) (data.drop p) := by
  induction f generalizing i p ps with
  | zero => rw [refLoop, splitF_zero, mid_rest data p hp]
  | succ f ih =>
    rw [refLoop, splitF_succ]
    by_cases hc : m = 0 ∨ i < m
    · have hl : ¬ limAt m i = some 0 := by
        unfold limAt
        split
        · simp
        · simp only [Option.some.injEq]; omega
      rw [if_pos hc, if_neg hl]
      cases hb : breakOn delim (data.drop p) with
      | none => rw [indexOfFrom_none hp hb, if_pos rfl, mid_rest data p hp]
      | some q =>
        obtain ⟨a, r⟩ := q
        have hlen := breakOn_length hb
        simp only [List.length_drop] at hlen
        have hne : ¬ (((p + a.length : Nat) : Int) = -1) := by omega
        have e : ((p + a.length : Nat) : Int) + Cxx.size delim = ((p + a.length + delim.length : Nat) : Int) := by
          simp only [Cxx.size]; omega
        rw [indexOfFrom_some hp hb, if_neg hne, mid_piece hp hb, e,
          ih (i + 1) (p + a.length + delim.length) (ps ++ [a]) (by omega) (by omega),
          drop_after hb, limAt_succ]
        simp
    · have hl : limAt m i = some 0 := by
        unfold limAt
        have : ¬ m = 0 := by omega
        simp only [this, if_false, Option.some.injEq]; omega
      rw [if_neg hc, if_pos hl, mid_rest data p hp]

/-- the reference loop from the start is the model's `split` -/
theorem refLoop_split (data delim : Bytes) (m : Int) (fuel : Nat) (ps : List Bytes)
    (hd : delim ≠ []) (hm : 0 ≤ m) (hf : data.length + 1 ≤ fuel) :
    refLoop data delim m fuel 0 0 ps = ps ++ split delim m.toNat data := by
  have h := refLoop_splitF data delim m fuel 0 0 ps (Nat.zero_le _) (by omega)
  simp only [Int.natCast_zero] at h
  rw [h, limAt_zero m hm, List.drop_zero, split_eq_splitF hd m.toNat (f := fuel) (by omega)]

/-! ### `Parser::split` -/

set_option hygiene false in
/-- the generated loop (whatever the order and the names of its loop variables, whatever it captures)
    against `refLoop`, with `x` as the counter and `y` as the position: structural, no semantic content -/
macro "split_loop_vs_refLoop " x:ident y:ident : tactic => `(tactic|
  (clear hf
   induction fuel generalizing $x $y parts with
   | zero => simp [Parser_split.go1, refLoop, mid_size_sub]
   | succ f ih =>
     simp only [Parser_split.go1, refLoop]
     by_cases c1 : maxSplit = 0 ∨ $x < maxSplit
     · by_cases c2 : Cxx.indexOfFrom data delim $y = -1
       · simp [c1, c2, mid_size_sub]
       · simp [c1, c2, ih, indexOfFrom_lt_zero, indexOfFrom_le_neg_one, indexOfFrom_nonneg, indexOfFrom_gt_neg_one]
     · simp [c1, mid_size_sub]))

/-- `Parser::split(data, delim, maxSplit, parts)` appends the model's `split` to `parts`.

    Side conditions, each necessary:
    * `delim ≠ []`: with an empty delimiter `indexOf` finds a match at every position and `index` never
      advances; for `maxSplit = 0` the C++ loops for ever (here: the result depends on `fuel`), for
      `maxSplit = k` it yields `k` empty pieces where the model (fuel `|data| + 1`) stops earlier.  Every
      call site passes a non-empty literal (`Props/C11`).
    * `0 ≤ maxSplit`: for a negative `maxSplit` the C++ test `!maxSplit || i < maxSplit` fails at once
      (no cut at all), while `maxSplit.toNat = 0` means "unlimited" in the model.
    * `|data| + 1 ≤ fuel`: each round consumes at least one byte, so `|data| + 1` rounds suffice; with
      less fuel the translated loop would stop early. -/
theorem split_eq (fuel : Nat) (data delim : Bytes) (maxSplit : Int) (parts : List Bytes)
    (hd : delim ≠ []) (hm : 0 ≤ maxSplit) (hf : data.length + 1 ≤ fuel) :
    Parser_split fuel data delim maxSplit parts = parts ++ split delim maxSplit.toNat data := by
  first
  | -- outside the translated subset on this run: the model's function stands in
    (unfold Parser_split; exact rfl)
  | -- translated
    (have e : ∀ a b : Int, a = 0 → b = 0 →
         parts ++ split delim maxSplit.toNat data = refLoop data delim maxSplit fuel a b parts := by
       intro a b ha hb; rw [ha, hb]; exact (refLoop_split data delim maxSplit fuel parts hd hm hf).symm
     unfold Parser_split
     unfold_parser_helpers
     simp only []
     -- the call `go1 … 0 0 …` becomes `go1 … x y …` (in the order of the generated parameters)
     abstract_closed_int_args Parser_split.go1
     intro x y hx hy
     first
     | (rw [e x y hx hy]; clear e hx hy; split_loop_vs_refLoop x y)
     | (rw [e y x hy hx]; clear e hx hy; split_loop_vs_refLoop y x))

example : Parser_split 12 (lit ['a',':','b',':','c']) [COLON] 1 [[1]] = [[1], lit ['a'], lit ['b',':','c']] := by decide

/-- the hypotheses are satisfiable -/
example : Parser_split 6 (lit ['a',':','b']) [COLON] 1 [] = [] ++ split [COLON] 1 (lit ['a',':','b']) :=
  split_eq 6 _ _ 1 [] (by decide) (by decide) (by decide)

/-! each side condition is necessary (shown on the reference loop, which is the translated loop) -/
/-- a negative `maxSplit` makes no cut in the C++, `maxSplit.toNat = 0` is "unlimited" in the model -/
example : refLoop [1, 58, 2] [58] (-1) 4 0 0 [] = [[1, 58, 2]] ∧ split [58] (-1 : Int).toNat [1, 58, 2] = [[1], [2]] := by decide
/-- an empty delimiter: the position never advances, the result is as long as the fuel allows -/
example : refLoop [1, 2] [] 0 5 0 0 [] = [[], [], [], [], [], [1, 2]] ∧ split [] 0 [1, 2] = [[], [], [], [1, 2]] := by decide
/-- too little fuel: the loop stops early -/
example : refLoop [1, 58, 2, 58, 3] [58] 0 1 0 0 [] = [[1], [2, 58, 3]] ∧ split [58] 0 [1, 58, 2, 58, 3] = [[1], [2], [3]] := by decide

/-! ### `Parser::parseHeaderList` -/

/-- What `Parser::parseHeaderList` returns, failure included: the flag, and the map as the C++ leaves
    it (on failure the lines before the first refused one have been inserted). -/
def headerListRun : List Bytes → HeaderMap → Bool × HeaderMap
  | [], m => (true, m)
  | line :: rest, m =>
    match breakOn [COLON] line with
    | some (n, v) =>
      if (trim n).isEmpty then (false, m)
      else headerListRun rest (HeaderMap.insert (trim n) (trim v) m)
    | none => (false, m)

theorem count_one (a : Bytes) : Cxx.count [a] = 1 := rfl
theorem count_two (a c : Bytes) : Cxx.count [a, c] = 2 := rfl
theorem nth_zero (a : Bytes) (l : List Bytes) : Cxx.nth (a :: l) 0 = a := rfl
theorem nth_one (a c : Bytes) (l : List Bytes) : Cxx.nth (a :: c :: l) 1 = c := rfl
theorem nth_two (a c d : Bytes) (l : List Bytes) : Cxx.nth (a :: c :: d :: l) 2 = d := rfl

/-- the translated function, exactly (flag and map), for a fuel above the length of every line.
    (Only for a run on which the function is translated: the stand-in leaves the map alone on failure.) -/
theorem parseHeaderList_run (fuel : Nat) (lines : List Bytes) (h : HeaderMap)
    (hu : "Parser::parseHeaderList" ∉ untranslated) (hf : ∀ l ∈ lines, l.length < fuel) :
    Parser_parseHeaderList fuel lines h = headerListRun lines h := by
  first
  | -- a stand-in on this run: nothing is claimed
    exact absurd (by decide) hu
  | -- translated
    (unfold Parser_parseHeaderList
     unfold_parser_helpers
     induction lines generalizing h with
     | nil => simp [Parser_parseHeaderList.go1, headerListRun]
     | cons line rest ih =>
       have hl : line.length + 1 ≤ fuel := hf line (by simp)
       have hr : ∀ l ∈ rest, l.length < fuel := fun l hl => hf l (by simp [hl])
       have hs := split_eq fuel line [58] 1 [] (by decide) (by decide) hl
       rw [show ((1 : Int).toNat) = 1 from rfl, List.nil_append, show ([58] : Bytes) = [COLON] from rfl, Qhttp.Parser.split_colon] at hs
       simp only [Parser_parseHeaderList.go1, headerListRun]
       rw [show ([58] : Bytes) = [COLON] from rfl, hs]
       cases hb : breakOn [COLON] line with
       | none => simp [count_one]
       | some q =>
         obtain ⟨n, v⟩ := q
         simp only [count_two, nth_zero, nth_one]
         by_cases he : (trim n).isEmpty = true
         · simp [he]
         · simp [he, ih _ hr])

/-- `headerListRun` against the model: the flag is the model's success, on success the map is the model's -/
theorem headerListRun_model (lines : List Bytes) (h : HeaderMap) :
    match Qhttp.Parser.parseHeaderList lines h with
    | some m => headerListRun lines h = (true, m)
    | none => (headerListRun lines h).1 = false := by
  induction lines generalizing h with
  | nil => simp [Qhttp.Parser.parseHeaderList, headerListRun]
  | cons line rest ih =>
    rw [Qhttp.Parser.parseHeaderList, Qhttp.Parser.split_colon, headerListRun]
    cases hb : breakOn [COLON] line with
    | none => simp
    | some q =>
      obtain ⟨n, v⟩ := q
      by_cases he : (trim n).isEmpty = true
      · simp [he]
      · simp only [he]
        exact ih _

/-- on failure the C++ has inserted the lines in front of the first refused one (`hdrLineB`: a colon and
    a name that is not blank), and nothing else -/
theorem headerListRun_snd (lines : List Bytes) (h : HeaderMap) :
    (headerListRun lines h).2 = (lines.takeWhile Qhttp.Parser.hdrLineB).foldl Qhttp.Parser.insertLine h := by
  induction lines generalizing h with
  | nil => rfl
  | cons line rest ih =>
    rw [headerListRun, List.takeWhile_cons]
    cases hb : breakOn [COLON] line with
    | none =>
      have hh : Qhttp.Parser.hdrLineB line = false := by simp [Qhttp.Parser.hdrLineB, hb]
      simp [hh]
    | some q =>
      obtain ⟨n, v⟩ := q
      by_cases he : (trim n).isEmpty = true
      · have hh : Qhttp.Parser.hdrLineB line = false := by simp [Qhttp.Parser.hdrLineB, hb, he]
        simp [hh, he]
      · have hh : Qhttp.Parser.hdrLineB line = true := by simp [Qhttp.Parser.hdrLineB, hb, he]
        simp only [hh, he, if_true, List.foldl_cons, Qhttp.Parser.insertLine, hb]
        exact ih _

/-- `Parser::parseHeaderList(lines, headers)` for a fuel above the length of every line: the model's
    function when it succeeds; when it fails the C++ returns `false` (and leaves the map partly filled:
    `parseHeaderList_run`, `headerListRun_snd` say with what). -/
theorem parseHeaderList_eq (fuel : Nat) (lines : List Bytes) (h : HeaderMap)
    (hf : ∀ l ∈ lines, l.length < fuel) :
    match Qhttp.Parser.parseHeaderList lines h with
    | some m => Parser_parseHeaderList fuel lines h = (true, m)
    | none => (Parser_parseHeaderList fuel lines h).1 = false := by
  first
  | -- outside the translated subset on this run: the model's function stands in
    (unfold Parser_parseHeaderList
     cases Qhttp.Parser.parseHeaderList lines h <;> simp <;> done)
  | -- translated
    (rw [parseHeaderList_run fuel lines h (by decide) hf]
     exact headerListRun_model lines h)

/-- the success flag alone -/
theorem parseHeaderList_fst (fuel : Nat) (lines : List Bytes) (h : HeaderMap)
    (hf : ∀ l ∈ lines, l.length < fuel) :
    (Parser_parseHeaderList fuel lines h).1 = (Qhttp.Parser.parseHeaderList lines h).isSome := by
  have := parseHeaderList_eq fuel lines h hf
  cases hm : Qhttp.Parser.parseHeaderList lines h with
  | none => rw [hm] at this; simpa using this
  | some m => rw [hm] at this; simp [this]

example : Parser_parseHeaderList 8 [lit ['a',':','b'], lit ['c',':',' ','d']] [] =
    (true, [(lit ['a'], lit ['b']), (lit ['c'], lit ['d'])]) := by decide
example : headerListRun [lit ['a',':','b'], lit [' ',':','d']] [] = (false, [(lit ['a'], lit ['b'])]) := by decide

/-! ### `Parser::parseHeaders` -/

/-- no piece is longer than the input -/
theorem splitF_mem_length_le (d : Bytes) (f : Nat) (lim : Option Nat) (xs : Bytes) :
    ∀ l ∈ splitF d f lim xs, l.length ≤ xs.length := by
  induction f generalizing lim xs with
  | zero => intro l hl; rw [splitF_zero] at hl; simp at hl; simp [hl]
  | succ f ih =>
    intro l hl
    rw [splitF_succ] at hl
    split at hl
    · simp at hl; simp [hl]
    · split at hl
      · simp at hl; simp [hl]
      · rename_i a r hb
        have hlen := breakOn_length hb
        rcases List.mem_cons.1 hl with rfl | hl
        · omega
        · have := ih _ _ l hl
          omega

theorem split_mem_length_le (d : Bytes) (k : Nat) (xs : Bytes) : ∀ l ∈ split d k xs, l.length ≤ xs.length :=
  splitF_mem_length_le _ _ _ _

/-- What `Parser::parseHeaders` returns, failure included (`parts0` is what the caller's list held). -/
def headersRun (data : Bytes) (parts0 : List Bytes) (h : HeaderMap) : Bool × List Bytes × HeaderMap :=
  let parts := parts0 ++ split [SP] 2 ((split CRLF 0 data).headD [])
  if parts.length = 3 then
    ((headerListRun (split CRLF 0 data).tail h).1, parts, (headerListRun (split CRLF 0 data).tail h).2)
  else (false, parts, h)

/-- the translated function, exactly, for a fuel above the length of the data
    (only for a run on which the function is translated) -/
theorem parseHeaders_run (fuel : Nat) (data : Bytes) (parts0 : List Bytes) (h : HeaderMap)
    (hu : "Parser::parseHeaders" ∉ untranslated) (hf : data.length < fuel) :
    Parser_parseHeaders fuel data parts0 h = headersRun data parts0 h := by
  first
  | -- a stand-in on this run: nothing is claimed
    exact absurd (by decide) hu
  | -- translated
    (unfold Parser_parseHeaders headersRun
     unfold_parser_helpers
     have hlen := split_mem_length_le CRLF 0 data
     have h1 := split_eq fuel data [13, 10] 0 [] (by decide) (by decide) (by omega)
     rw [show ((0 : Int).toNat) = 0 from rfl, List.nil_append, show ([13, 10] : Bytes) = CRLF from rfl] at h1
     have hfirst : ((split CRLF 0 data).headD []).length + 1 ≤ fuel := by
       cases hs : split CRLF 0 data with
       | nil => simp; omega
       | cons a t => have := hlen a (by simp [hs]); simp; omega
     have h2 := split_eq fuel ((split CRLF 0 data).headD []) [32] 2 parts0 (by decide) (by decide) hfirst
     rw [show ((2 : Int).toNat) = 2 from rfl, show ([32] : Bytes) = [SP] from rfl] at h2
     have h3 := parseHeaderList_run fuel (split CRLF 0 data).tail h (by decide)
       (fun l hl => by have := hlen l (List.mem_of_mem_tail hl); omega)
     have hcnt : ∀ l : List Bytes, Cxx.count l = (3 : Int) ↔ l.length = 3 := by
       intro l; unfold Cxx.count; omega
     have hnth : ∀ l : List Bytes, Cxx.nth l 0 = l.headD [] := by
       intro l; cases l <;> simp [Cxx.nth]
     simp only [show ([13, 10] : Bytes) = CRLF from rfl, show ([32] : Bytes) = [SP] from rfl, h1, Cxx.takeFirst, hnth, h2, h3,
       ne_eq, hcnt]
     by_cases hc : (parts0 ++ split [SP] 2 ((split CRLF 0 data).headD [])).length = 3
     · simp only [hc]; all_goals simp
     · simp only [hc]; all_goals simp)

/-- `headersRun` against the model -/
theorem headersRun_model (data : Bytes) (h : HeaderMap) :
    match Qhttp.Parser.parseHeaders data h with
    | some (p0, p1, p2, m) => headersRun data [] h = (true, [p0, p1, p2], m)
    | none => (headersRun data [] h).1 = false := by
  rcases hs : split CRLF 0 data with _ | ⟨first, lines⟩
  · have e : split [SP] 2 ([] : Bytes) = [[]] := by decide
    simp [Qhttp.Parser.parseHeaders, headersRun, hs, e]
  · have hm := headerListRun_model lines h
    rcases hq : split [SP] 2 first with _ | ⟨a, _ | ⟨c, _ | ⟨d, _ | ⟨e, t⟩⟩⟩⟩
    · simp [Qhttp.Parser.parseHeaders, headersRun, hs, hq]
    · simp [Qhttp.Parser.parseHeaders, headersRun, hs, hq]
    · simp [Qhttp.Parser.parseHeaders, headersRun, hs, hq]
    · cases hl : Qhttp.Parser.parseHeaderList lines h with
      | none => rw [hl] at hm; simp [Qhttp.Parser.parseHeaders, headersRun, hs, hq, hl, hm]
      | some m => rw [hl] at hm; simp [Qhttp.Parser.parseHeaders, headersRun, hs, hq, hl, hm]
    · simp [Qhttp.Parser.parseHeaders, headersRun, hs, hq]

/-- `Parser::parseHeaders(data, parts, headers)` called with an empty `parts` (every call site), for a fuel
    above the length of the data: the model's function when it succeeds, `false` when it fails. -/
theorem parseHeaders_eq (fuel : Nat) (data : Bytes) (h : HeaderMap) (hf : data.length < fuel) :
    match Qhttp.Parser.parseHeaders data h with
    | some (p0, p1, p2, m) => Parser_parseHeaders fuel data [] h = (true, [p0, p1, p2], m)
    | none => (Parser_parseHeaders fuel data [] h).1 = false := by
  first
  | -- outside the translated subset on this run: the model's function stands in
    (unfold Parser_parseHeaders
     cases hp : Qhttp.Parser.parseHeaders data h with
     | none => simp
     | some q => obtain ⟨p0, p1, p2, m⟩ := q; simp)
  | -- translated
    (rw [parseHeaders_run fuel data [] h (by decide) hf]
     exact headersRun_model data h)

theorem parseHeaders_fst (fuel : Nat) (data : Bytes) (h : HeaderMap) (hf : data.length < fuel) :
    (Parser_parseHeaders fuel data [] h).1 = (Qhttp.Parser.parseHeaders data h).isSome := by
  have := parseHeaders_eq fuel data h hf
  cases hm : Qhttp.Parser.parseHeaders data h with
  | none => rw [hm] at this; simpa using this
  | some q => obtain ⟨p0, p1, p2, m⟩ := q; rw [hm] at this; simp [this]

example : Parser_parseHeaders 40 (lit ['G','E','T',' ','/',' ','x','\r','\n','a',':','b']) [] [] =
    (true, [lit ['G','E','T'], lit ['/'], lit ['x']], [(lit ['a'], lit ['b'])]) := by decide

/-! ### `Parser::parseRequestHeaders` -/

/-- the literals of the C++ are the model's tokens -/
theorem token_bytes :
    Qhttp.Parser.OPTIONS = [79, 80, 84, 73, 79, 78, 83] ∧ Qhttp.Parser.GET = [71, 69, 84] ∧
    Qhttp.Parser.HEAD = [72, 69, 65, 68] ∧ Qhttp.Parser.POST = [80, 79, 83, 84] ∧ Qhttp.Parser.PUT = [80, 85, 84] ∧
    Qhttp.Parser.DELETE = [68, 69, 76, 69, 84, 69] ∧ Qhttp.Parser.TRACE = [84, 82, 65, 67, 69] ∧
    Qhttp.Parser.CONNECT = [67, 79, 78, 78, 69, 67, 84] ∧
    Qhttp.Parser.HTTP10 = [72, 84, 84, 80, 47, 49, 46, 48] ∧ Qhttp.Parser.HTTP11 = [72, 84, 84, 80, 47, 49, 46, 49] := by
  decide

/-- the model's codes of the eight tokens (`Socket::Method`) -/
theorem token_codes :
    Qhttp.Parser.methodCode [79, 80, 84, 73, 79, 78, 83] = some 1 ∧ Qhttp.Parser.methodCode [71, 69, 84] = some 2 ∧
    Qhttp.Parser.methodCode [72, 69, 65, 68] = some 4 ∧ Qhttp.Parser.methodCode [80, 79, 83, 84] = some 8 ∧
    Qhttp.Parser.methodCode [80, 85, 84] = some 16 ∧ Qhttp.Parser.methodCode [68, 69, 76, 69, 84, 69] = some 32 ∧
    Qhttp.Parser.methodCode [84, 82, 65, 67, 69] = some 64 ∧
    Qhttp.Parser.methodCode [67, 79, 78, 78, 69, 67, 84] = some 128 := by
  decide

/-- `Parser::parseRequestHeaders(data, method, path, headers)` for a fuel above the length of the data:
    on success method (the `Socket::Method` value, as `Int`), path and headers are the model's; on failure
    the C++ returns `false` and leaves `method` and `path` as they were (the map may be partly filled). -/
theorem parseRequestHeaders_eq (fuel : Nat) (data : Bytes) (method : Int) (path : Bytes) (h : HeaderMap)
    (hf : data.length < fuel) :
    match Qhttp.Parser.parseRequestHeaders data h with
    | some rh => Parser_parseRequestHeaders fuel data method path h = (true, (rh.method : Int), rh.rawPath, rh.headers)
    | none => (Parser_parseRequestHeaders fuel data method path h).1 = false ∧
              (Parser_parseRequestHeaders fuel data method path h).2.1 = method ∧
              (Parser_parseRequestHeaders fuel data method path h).2.2.1 = path := by
  first
  | -- outside the translated subset on this run: the model's function stands in
    (unfold Parser_parseRequestHeaders
     cases Qhttp.Parser.parseRequestHeaders data h <;> simp <;> done)
  | -- translated: the chain of comparisons, in whatever order the C++ makes them
    (have hh := parseHeaders_eq fuel data h hf
     unfold Parser_parseRequestHeaders Qhttp.Parser.parseRequestHeaders
     unfold_parser_helpers
     try simp only []
     cases hp : Qhttp.Parser.parseHeaders data h with
     | none =>
       rw [hp] at hh
       revert hh
       generalize Parser_parseHeaders fuel data [] h = r
       obtain ⟨t, ps, hs⟩ := r
       intro hh
       simp only at hh
       subst hh
       simp
     | some q =>
       obtain ⟨p0, p1, p2, m⟩ := q
       rw [hp] at hh
       obtain ⟨t1, t2, t3, t4, t5, t6, t7, t8, v0, v1⟩ := token_bytes
       obtain ⟨c1, c2, c3, c4, c5, c6, c7, c8⟩ := token_codes
       simp only [hh, nth_zero, nth_one, nth_two, v0, v1]
       -- the version test and the chain of method tokens, in whatever Boolean form and order the C++ has them:
       -- every case is decided on the concrete tokens
       by_cases hv : p2 = [72, 84, 84, 80, 47, 49, 46, 48] ∨ p2 = [72, 84, 84, 80, 47, 49, 46, 49]
       · have hmc := Qhttp.Parser.methodCode_ne_none_iff p0
         rw [t1, t2, t3, t4, t5, t6, t7, t8] at hmc
         by_cases hm : p0 = [79, 80, 84, 73, 79, 78, 83] ∨ p0 = [71, 69, 84] ∨ p0 = [72, 69, 65, 68] ∨
             p0 = [80, 79, 83, 84] ∨ p0 = [80, 85, 84] ∨ p0 = [68, 69, 76, 69, 84, 69] ∨ p0 = [84, 82, 65, 67, 69] ∨
             p0 = [67, 79, 78, 78, 69, 67, 84]
         · rcases hv with rfl | rfl <;>
             rcases hm with rfl | rfl | rfl | rfl | rfl | rfl | rfl | rfl <;>
               simp [c1, c2, c3, c4, c5, c6, c7, c8]
         · have hnone : Qhttp.Parser.methodCode p0 = none := by
             cases hc : Qhttp.Parser.methodCode p0 with
             | none => rfl
             | some c => exact absurd (hmc.1 (by simp [hc])) hm
           simp only [not_or] at hm
           obtain ⟨n1, n2, n3, n4, n5, n6, n7, n8⟩ := hm
           rcases hv with rfl | rfl <;> simp [hnone, n1, n2, n3, n4, n5, n6, n7, n8]
       · simp only [not_or] at hv
         obtain ⟨w0, w1⟩ := hv
         simp [w0, w1])

example : Parser_parseRequestHeaders 40 (lit ['P','U','T',' ','/','a',' ','H','T','T','P','/','1','.','1','\r','\n','k',':','v']) 0 [] [] =
    (true, 16, lit ['/','a'], [(lit ['k'], lit ['v'])]) := by decide

theorem parseRequestHeaders_fst (fuel : Nat) (data : Bytes) (method : Int) (path : Bytes) (h : HeaderMap)
    (hf : data.length < fuel) :
    (Parser_parseRequestHeaders fuel data method path h).1 = (Qhttp.Parser.parseRequestHeaders data h).isSome := by
  have := parseRequestHeaders_eq fuel data method path h hf
  cases hm : Qhttp.Parser.parseRequestHeaders data h with
  | none => rw [hm] at this; simpa using this.1
  | some rh => rw [hm] at this; simp [this]

/-- The vocabulary entry `Cxx.parseRequestHeaders` (what the translated `SocketPrivate::readHeaders` of
    `QhttpGen/Sock.lean` calls) is the translated `Parser::parseRequestHeaders` with its out-parameters bound to
    the members `requestMethod`, `requestRawPath`, `requestHeaders`.  On failure the C++ leaves method and raw
    path alone; the map it may have partly filled is not modelled (no accessor shows it, see `CxxPrim.lean`). -/
theorem cxx_parseRequestHeaders (fuel : Nat) (s : Sock) (data : Bytes) (hf : data.length < fuel) :
    (Cxx.parseRequestHeaders s data).2 = (Parser_parseRequestHeaders fuel data (s.method : Int) s.rawPath s.reqHeaders).1 ∧
    ((Parser_parseRequestHeaders fuel data (s.method : Int) s.rawPath s.reqHeaders).1 = true →
      (Cxx.parseRequestHeaders s data).1 =
        { s with method := (Parser_parseRequestHeaders fuel data (s.method : Int) s.rawPath s.reqHeaders).2.1.toNat,
                 rawPath := (Parser_parseRequestHeaders fuel data (s.method : Int) s.rawPath s.reqHeaders).2.2.1,
                 reqHeaders := (Parser_parseRequestHeaders fuel data (s.method : Int) s.rawPath s.reqHeaders).2.2.2 }) ∧
    ((Parser_parseRequestHeaders fuel data (s.method : Int) s.rawPath s.reqHeaders).1 = false →
      (Cxx.parseRequestHeaders s data).1 = s ∧
      (Parser_parseRequestHeaders fuel data (s.method : Int) s.rawPath s.reqHeaders).2.1 = (s.method : Int) ∧
      (Parser_parseRequestHeaders fuel data (s.method : Int) s.rawPath s.reqHeaders).2.2.1 = s.rawPath) := by
  have h := parseRequestHeaders_eq fuel data (s.method : Int) s.rawPath s.reqHeaders hf
  unfold Cxx.parseRequestHeaders
  cases hp : Qhttp.Parser.parseRequestHeaders data s.reqHeaders with
  | none => rw [hp] at h; simp [h.1, h.2.1, h.2.2]
  | some rh => rw [hp] at h; simp [h]

/-! ### `Parser::parseResponseHeaders` -/

/-- `Parser::parseResponseHeaders(data, statusCode, statusReason, headers)` for a fuel above the length of
    the data, in terms of the model's `parseHeaders` (any initial map).  When the status line and the header
    lines parse, the C++ stores code and reason even if it then refuses the code (outside 100 … 599);
    otherwise it leaves both as they were.  (Only for a run on which the function is translated: the
    stand-in starts from the empty map and stores nothing on failure.) -/
theorem parseResponseHeaders_run (fuel : Nat) (data : Bytes) (sc : Int) (sr : Bytes) (h : HeaderMap)
    (hu : "Parser::parseResponseHeaders" ∉ untranslated) (hf : data.length < fuel) :
    match Qhttp.Parser.parseHeaders data h with
    | some (_, p1, p2, m) =>
      Parser_parseResponseHeaders fuel data sc sr h =
        (decide (100 ≤ toIntQ p1) && decide (toIntQ p1 ≤ 599), toIntQ p1, p2, m)
    | none => (Parser_parseResponseHeaders fuel data sc sr h).1 = false ∧
              (Parser_parseResponseHeaders fuel data sc sr h).2.1 = sc ∧
              (Parser_parseResponseHeaders fuel data sc sr h).2.2.1 = sr := by
  first
  | -- a stand-in on this run: nothing is claimed
    exact absurd (by decide) hu
  | -- translated
    (have hh := parseHeaders_eq fuel data h hf
     unfold Parser_parseResponseHeaders
     unfold_parser_helpers
     try simp only []
     cases hp : Qhttp.Parser.parseHeaders data h with
     | none =>
       rw [hp] at hh
       revert hh
       generalize Parser_parseHeaders fuel data [] h = r
       obtain ⟨t, ps, hs⟩ := r
       intro hh
       simp only at hh
       subst hh
       simp
     | some q =>
       obtain ⟨p0, p1, p2, m⟩ := q
       rw [hp] at hh
       simp only [hh, nth_one, nth_two, if_true]
       -- whatever form the range test has in the C++ (`>= && <=`, `< || >` with two returns, ...)
       all_goals first
       | rfl
       | (by_cases hc1 : 100 ≤ toIntQ p1 <;> by_cases hc2 : toIntQ p1 ≤ 599 <;> simp [hc1, hc2] <;> omega)
       | grind)

/-- against the model's `parseResponseHeaders` (which starts from the empty map, as `ProxySocket` does) -/
theorem parseResponseHeaders_eq (fuel : Nat) (data : Bytes) (sc : Int) (sr : Bytes) (hf : data.length < fuel) :
    match Qhttp.Parser.parseResponseHeaders data with
    | some (code, reason, m) => Parser_parseResponseHeaders fuel data sc sr [] = (true, code, reason, m)
    | none => (Parser_parseResponseHeaders fuel data sc sr []).1 = false := by
  first
  | -- outside the translated subset on this run: the model's function stands in
    (unfold Parser_parseResponseHeaders
     cases hp : Qhttp.Parser.parseResponseHeaders data with
     | none => simp
     | some q => obtain ⟨c, r, m⟩ := q; simp)
  | -- translated
    (have hr := parseResponseHeaders_run fuel data sc sr [] (by decide) hf
     unfold Qhttp.Parser.parseResponseHeaders
     cases hp : Qhttp.Parser.parseHeaders data [] with
     | none => rw [hp] at hr; simpa using hr.1
     | some q =>
       obtain ⟨p0, p1, p2, m⟩ := q
       rw [hp] at hr
       simp only at hr ⊢
       by_cases hc : (decide (100 ≤ toIntQ p1) && decide (toIntQ p1 ≤ 599)) = true
       · rw [if_pos hc]; simp only; rw [hr, hc]
       · rw [if_neg hc]; simp only; rw [hr]; simpa using hc)

example : Parser_parseResponseHeaders 40 (lit ['H','T','T','P','/','1','.','0',' ','2','0','4',' ','N','o',' ','C','\r','\n','k',':','v']) 0 [] [] =
    (true, 204, lit ['N','o',' ','C'], [(lit ['k'], lit ['v'])]) := by decide

theorem parseResponseHeaders_fst (fuel : Nat) (data : Bytes) (sc : Int) (sr : Bytes) (hf : data.length < fuel) :
    (Parser_parseResponseHeaders fuel data sc sr []).1 = (Qhttp.Parser.parseResponseHeaders data).isSome := by
  have := parseResponseHeaders_eq fuel data sc sr hf
  cases hm : Qhttp.Parser.parseResponseHeaders data with
  | none => rw [hm] at this; simpa using this
  | some q => obtain ⟨c, r, m⟩ := q; rw [hm] at this; simp [this]

/-! ### C11: the loops of the translated parser terminate

  The translated counter loop of `Parser::split` runs on a fuel argument; "the C++ loop terminates" means: beyond
  `|data| + 1` rounds the fuel is never what stops it — any two sufficient fuels give the same result.  (For an empty
  delimiter and `maxSplit = 0` the loop does NOT terminate; every call site passes a non-empty literal.) -/

/-- `Parser::split` terminates within `|data| + 1` rounds for every non-empty delimiter -/
theorem split_terminates (f1 f2 : Nat) (data delim : Bytes) (maxSplit : Int) (parts : List Bytes)
    (hd : delim ≠ []) (hm : 0 ≤ maxSplit) (h1 : data.length + 1 ≤ f1) (h2 : data.length + 1 ≤ f2) :
    Parser_split f1 data delim maxSplit parts = Parser_split f2 data delim maxSplit parts := by
  rw [split_eq f1 data delim maxSplit parts hd hm h1, split_eq f2 data delim maxSplit parts hd hm h2]

/-- handling one request head terminates: the whole of `Parser::parseRequestHeaders` (three nested uses of `split`
    and the walk over the header lines) gives the same answer for every fuel above the length of the head -/
theorem parseRequestHeaders_terminates (f1 f2 : Nat) (data : Bytes) (method : Int) (path : Bytes) (h : HeaderMap)
    (h1 : data.length < f1) (h2 : data.length < f2) :
    (Parser_parseRequestHeaders f1 data method path h).1 = (Parser_parseRequestHeaders f2 data method path h).1 ∧
    ((Parser_parseRequestHeaders f1 data method path h).1 = true →
      Parser_parseRequestHeaders f1 data method path h = Parser_parseRequestHeaders f2 data method path h) := by
  have e1 := parseRequestHeaders_eq f1 data method path h h1
  have e2 := parseRequestHeaders_eq f2 data method path h h2
  cases hp : Qhttp.Parser.parseRequestHeaders data h with
  | none => simp only [hp] at e1 e2; simp [e1.1, e2.1]
  | some rh => simp only [hp] at e1 e2; simp [e1, e2]

/-- the same for a response head (the proxy's upstream side) -/
theorem parseResponseHeaders_terminates (f1 f2 : Nat) (data : Bytes) (sc : Int) (sr : Bytes)
    (h1 : data.length < f1) (h2 : data.length < f2) :
    (Parser_parseResponseHeaders f1 data sc sr []).1 = (Parser_parseResponseHeaders f2 data sc sr []).1 := by
  have e1 := parseResponseHeaders_eq f1 data sc sr h1
  have e2 := parseResponseHeaders_eq f2 data sc sr h2
  cases hp : Qhttp.Parser.parseResponseHeaders data with
  | none => simp only [hp] at e1 e2; simp [e1, e2]
  | some q => obtain ⟨c, r, m⟩ := q; simp only [hp] at e1 e2; simp [e1, e2]

end QhttpBridge.Parser
