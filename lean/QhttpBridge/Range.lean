import QhttpGen.Range
import Qhttp.Model.Range
/-
  Bridge: the functions translated from /repo/src/src/range.cpp on this run equal the hand model
  the C16/C08 theorems are about.  Automation only: a harmless rewrite of the C++ still yields a
  provably equal function; a semantic change makes one of these fail, and the check then searches
  for a failing input.
-/
namespace QhttpBridge.Range
open Qhttp

def conv (s : QhttpGen.Range.St) : Qhttp.Range := ⟨s.frm, s.to, s.dataSize⟩

theorem isValid_eq (s : QhttpGen.Range.St) : QhttpGen.Range.isValid_ s = (conv s).isValid := by
  obtain ⟨a, b, c⟩ := s
  simp only [QhttpGen.Range.isValid_, Qhttp.Range.isValid, conv]
  grind

theorem from_eq (s : QhttpGen.Range.St) : QhttpGen.Range.from_ s = (conv s).absFrom := by
  obtain ⟨a, b, c⟩ := s
  simp only [QhttpGen.Range.from_, Qhttp.Range.absFrom, conv]
  grind

theorem to_eq (s : QhttpGen.Range.St) : QhttpGen.Range.to_ s = (conv s).absTo := by
  obtain ⟨a, b, c⟩ := s
  simp only [QhttpGen.Range.to_, Qhttp.Range.absTo, conv]
  grind

theorem length_eq (s : QhttpGen.Range.St) : QhttpGen.Range.length_ s = (conv s).length := by
  unfold Qhttp.Range.length QhttpGen.Range.length_
  rw [isValid_eq]
  obtain ⟨a, b, c⟩ := s
  simp only [conv]
  by_cases h : Qhttp.Range.isValid ⟨a, b, c⟩ = true
  · simp only [h]; grind
  · simp only [h]; grind

theorem dataSize_eq (s : QhttpGen.Range.St) : QhttpGen.Range.dataSize_ s = (conv s).size := rfl

theorem ctor3_eq (f t s : Int) : conv (QhttpGen.Range.ctor3 f t s) = Qhttp.Range.ofNums f t s := by
  simp only [QhttpGen.Range.ctor3, Qhttp.Range.ofNums, conv]

theorem ctorResize_eq (o : QhttpGen.Range.St) (s : Int) :
    conv (QhttpGen.Range.ctorResize o s) = (conv o).withSize s := by
  simp only [QhttpGen.Range.ctorResize, Qhttp.Range.withSize, conv]

end QhttpBridge.Range
