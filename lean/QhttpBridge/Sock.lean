import QhttpGen.Sock
import Qhttp.Lemmas.BytesLemmas
/-
  Bridge: the member functions of `SocketPrivate` and `Socket` as translated from
  /repo/src/src/socket.cpp on this run (`QhttpGen/Sock.lean`, by tools/cxx2lean_qt.py) ARE the
  functions of the hand-written model (`Qhttp/Model/Socket.lean`) that the theorems of
  C01-C04, C11, C18 and C19 are about.

  Every theorem is an equation between a translated function and the model's, for every state,
  every environment and every application.  Two statements carry a side condition, both on the
  one path where the model is knowingly coarser than the code (a request head that parses but whose
  target QUrl rejects: the C++ has stored method, raw target and headers by then, the model has
  not; no accessor is specified for a rejected request): see `readHeaders_eq`.
-/
namespace QhttpBridge.Sock
open Qhttp QhttpGen.Sock

/-! ### enum order -/

theorem enum_codes :
    enumCodes = [("ReadHeaders", Cxx.rcode .headers), ("ReadData", Cxx.rcode .data), ("ReadFinished", Cxx.rcode .finished),
                 ("WriteNone", Cxx.wcode .none), ("WriteHeaders", Cxx.wcode .headers), ("WriteData", Cxx.wcode .data),
                 ("WriteFinished", Cxx.wcode .finished)] := by decide

/-! ### small facts about the vocabulary -/


theorem intText_natCast (n : Nat) : intText (n : Int) = natDigits n := by
  simp [intText]

theorem number_size (b : Bytes) : Cxx.number (Cxx.size b) = natDigits b.length := by
  simp [Cxx.number, Cxx.size, intText_natCast]

theorem foldl_append_each (f : Bytes × Bytes → Bytes) (m : HeaderMap) (acc : Bytes) :
    m.foldl (fun a e => a ++ f e) acc = acc ++ m.flatMap f := by
  induction m generalizing acc with
  | nil => simp
  | cons e m ih => simp [List.foldl_cons, ih, List.flatMap_cons, List.append_assoc]

theorem headerLines_flatMap (m : HeaderMap) :
    Sock.headerLines m = m.flatMap (fun e => e.1 ++ (58 :: 32 :: (e.2 ++ [13, 10]))) := by
  induction m with
  | nil => rfl
  | cons e m ih =>
    obtain ⟨k, v⟩ := e
    simp [Sock.headerLines, ih, List.flatMap_cons, COLON, SP, CRLF, List.append_assoc]

theorem count_eq_zero_iff (n : Bytes) (m : HeaderMap) : HeaderMap.count n m = 0 ↔ HeaderMap.contains n m = false := by
  simp only [HeaderMap.count, HeaderMap.values, HeaderMap.contains, List.length_map, List.length_eq_zero_iff,
    List.filter_eq_nil_iff, List.any_eq_false]

theorem setHeader_eq (s : Sock) (n v : Bytes) (r : Bool) :
    Socket_setHeader s n v r = Sock.setHeader s n v r := by
  unfold Socket_setHeader Sock.setHeader
  unfold_gen_helpers
  have hc := count_eq_zero_iff n s.respHeaders
  grind

theorem lit_http : lit ['H','T','T','P','/','1','.','0',' '] = ([72, 84, 84, 80, 47, 49, 46, 48, 32] : Bytes) := by decide

theorem writeHeaders_eq (s : Sock) : Socket_writeHeaders s = Sock.writeHeaders s := by
  unfold Socket_writeHeaders Sock.writeHeaders Sock.headBytes
  unfold_gen_helpers
  simp only [headerLines_flatMap, Cxx.tcpWrite, Cxx.size, Cxx.number, lit_http, CRLF, SP, List.append_assoc, List.cons_append, List.nil_append]
  simp only [foldl_append_each, List.append_assoc, List.cons_append, List.nil_append]

theorem take_min_length (l : Bytes) (n : Nat) : l.take (min l.length n) = l.take n := by
  by_cases h : n ≤ l.length
  · rw [Nat.min_eq_right h]
  · have h' : l.length ≤ n := by omega
    rw [Nat.min_eq_left h', List.take_of_length_le (Nat.le_refl _), List.take_of_length_le h']

theorem drop_min_length (l : Bytes) (n : Nat) : l.drop (min l.length n) = l.drop n := by
  by_cases h : n ≤ l.length
  · rw [Nat.min_eq_right h]
  · have h' : l.length ≤ n := by omega
    rw [Nat.min_eq_left h', List.drop_eq_nil_of_le (Nat.le_refl _), List.drop_eq_nil_of_le h']

theorem left_min (l : Bytes) (n : Nat) : Cxx.left l (min (Cxx.size l) (n : Int)) = l.take n := by
  simp only [Cxx.left, Cxx.size]
  have h0 : ¬ (min (l.length : Int) (n : Int) < 0) := by omega
  have e : (min (l.length : Int) (n : Int)).toNat = min l.length n := by omega
  simp only [h0, if_false, e, take_min_length]

theorem removeAt_min (l : Bytes) (n : Nat) : Cxx.removeAt l 0 (min (Cxx.size l) (n : Int)) = l.drop n := by
  simp only [Cxx.removeAt, Cxx.size]
  by_cases hz : min (l.length : Int) (n : Int) ≤ 0
  · have : l.length = 0 ∨ n = 0 := by omega
    simp only [hz, true_or, if_true]
    rcases this with h0 | h0
    · rw [List.length_eq_zero_iff] at h0; simp [h0]
    · simp [h0]
  · have c1 : ¬ (min (l.length : Int) (n : Int) ≤ 0 ∨ (0 : Int) < 0 ∨ (0 : Int) ≥ l.length) := by omega
    have e : (min (l.length : Int) (n : Int)).toNat = min l.length n := by omega
    simp only [c1, if_false, e, Int.toNat_zero, List.take_zero, List.nil_append, Nat.zero_add, drop_min_length]

theorem take_len_min (l : Bytes) (n : Nat) : ((l.take n).length : Int) = min (Cxx.size l) (n : Int) := by
  simp only [Cxx.size, List.length_take]; omega

theorem readData_eq (s : Sock) (n : Nat) :
    let r := Socket_readData s (n : Int)
    (r.1, r.2.1) = Sock.readData s n ∧ r.2.2 = ((Sock.readData s n).2.length : Int) := by
  unfold Socket_readData Sock.readData
  unfold_gen_helpers
  have hE : min (Cxx.size s.readBuffer) (n : Int) ≤ 0 → s.readBuffer.take n = [] := by
    intro hpos
    simp only [Cxx.size] at hpos
    have : s.readBuffer.length = 0 ∨ n = 0 := by omega
    rcases this with h0 | h0
    · rw [List.length_eq_zero_iff] at h0; simp [h0]
    · simp [h0]
  grind [left_min, removeAt_min, take_len_min]

/-! ### response side -/

theorem setStatusCode_eq (s : Sock) (c : Int) (r : Option Bytes) :
    Socket_setStatusCode s c r = Sock.setStatusCode s c r := by
  cases r <;> simp [Socket_setStatusCode, Sock.setStatusCode]

theorem setHeaders_eq (s : Sock) (h : HeaderMap) :
    Socket_setHeaders s h = { s with respHeaders := h } := rfl

theorem writeData_eq (s : Sock) (data : Bytes) :
    (Socket_writeData s data).1 = Sock.tcpWrite (if s.ws = .none then Sock.writeHeaders s else s) data := by
  unfold Socket_writeData
  unfold_gen_helpers
  by_cases h : s.ws = .none <;> simp [h, writeHeaders_eq, Cxx.tcpWrite]

/-- `QIODevice::write` on the Socket, through the translated `writeData`, is the model's `write` -/
theorem write_eq (s : Sock) (data : Bytes) :
    Cxx.qioWrite (fun s b => Socket_writeData s b) s data = Sock.write s data := by
  unfold Cxx.qioWrite Sock.write
  by_cases h : s.ioOpen = true
  · simp [h, writeData_eq]
  · simp [h]

theorem close_eq (s : Sock) : Socket_close s = Sock.close s := rfl

theorem writeRedirect_eq (s : Sock) (path : Bytes) (permanent : Bool) :
    Socket_writeRedirect s path permanent = Sock.writeRedirect s path permanent := by
  unfold Socket_writeRedirect Sock.writeRedirect
  unfold_gen_helpers
  simp only [setStatusCode_eq, setHeader_eq, writeHeaders_eq, close_eq]
  cases permanent <;> rfl

theorem writeError_eq (env : Env) (app : App) (s : Sock) (c : Int) (r : Option Bytes) :
    Socket_writeError env app s c r = Sock.writeError env s c r := by
  unfold Socket_writeError Sock.writeError
  unfold_gen_helpers
  simp only [setStatusCode_eq, setHeader_eq, writeHeaders_eq, close_eq, write_eq, number_size]
  rfl

theorem writeJson_eq (s : Sock) (doc : Bytes) (c : Int) :
    Socket_writeJson s doc c = Sock.writeJson s doc c := by
  unfold Socket_writeJson Sock.writeJson
  unfold_gen_helpers
  simp only [setStatusCode_eq, setHeader_eq, close_eq, write_eq, number_size]
  rfl

/-! ### request side -/

theorem bytesAvailable_eq (s : Sock) : Socket_bytesAvailable s = (Sock.bytesAvailable s : Int) := by
  unfold Socket_bytesAvailable Sock.bytesAvailable
  unfold_gen_helpers
  cases h : s.rs <;> simp [Cxx.rcode, Cxx.size, Cxx.qioBytesAvailable]

theorem isHeadersParsed_eq (s : Sock) : Socket_isHeadersParsed s = (Sock.takeSnap s).parsed := by
  unfold Socket_isHeadersParsed Sock.takeSnap
  unfold_gen_helpers
  cases h : s.rs <;> simp [Cxx.rcode]

theorem contentLength_eq (s : Sock) : Socket_contentLength s = (Sock.takeSnap s).total := rfl

theorem onBytesWritten_eq (env : Env) (app : App) (s : Sock) (n : Int) :
    SocketPrivate_onBytesWritten env app s n = Sock.onBytesWritten env app s n := by
  unfold SocketPrivate_onBytesWritten Sock.onBytesWritten
  unfold_gen_helpers
  simp only [Cxx.emitBw]
  grind

theorem onReadChannelFinished_eq (env : Env) (app : App) (s : Sock) :
    SocketPrivate_onReadChannelFinished env app s = Sock.onReadChannelFinished env app s := by
  unfold SocketPrivate_onReadChannelFinished Sock.onReadChannelFinished
  unfold_gen_helpers
  simp only [Cxx.emitRcf]
  grind


theorem indexOf_none {rb d : Bytes} (h : breakOn d rb = none) : Cxx.indexOf rb d = -1 := by
  simp [Cxx.indexOf, h]
theorem indexOf_some {rb d a r : Bytes} (h : breakOn d rb = some (a, r)) : Cxx.indexOf rb d = a.length := by
  simp [Cxx.indexOf, h]
theorem left_some {rb d a r : Bytes} (h : breakOn d rb = some (a, r)) : Cxx.left rb (a.length : Int) = a := by
  have e := breakOn_some h
  subst e
  have h0 : ¬ ((a.length : Int) < 0) := by omega
  simp [Cxx.left, h0]
theorem removeAt_some {rb a r : Bytes} (h : breakOn CRLF2 rb = some (a, r)) :
    Cxx.removeAt rb 0 ((a.length : Int) + 4) = r := by
  have e := breakOn_some h
  subst e
  have c1 : ¬ ((a.length : Int) + 4 ≤ 0 ∨ (0 : Int) < 0 ∨ (0 : Int) ≥ ((a ++ CRLF2 ++ r).length : Int)) := by
    simp [CRLF2]; omega
  have e2 : ((a.length : Int) + 4).toNat = a.length + 4 := by omega
  simp only [Cxx.removeAt, c1, if_false, e2, Int.toNat_zero, List.take_zero, List.nil_append, Nat.zero_add]
  simp [CRLF2, List.drop_append]

theorem crlf2_lit : ([13, 10, 13, 10] : Bytes) = CRLF2 := rfl
theorem cl_lit : ([67, 111, 110, 116, 101, 110, 116, 45, 76, 101, 110, 103, 116, 104] : Bytes) = Sock.CONTENT_LENGTH_KEY := by decide

theorem readHeaders_eq (env : Env) (app : App) (s : Sock)
    (hurl : ∀ head rest rh, breakOn CRLF2 s.readBuffer = some (head, rest) →
      Parser.parseRequestHeaders head s.reqHeaders = some rh → env.url rh.rawPath ≠ none) :
    SocketPrivate_readHeaders env app s = Sock.readHeaders env app s := by
  unfold SocketPrivate_readHeaders Sock.readHeaders
  unfold_gen_helpers
  simp only [crlf2_lit, cl_lit]
  cases hb : breakOn CRLF2 s.readBuffer with
  | none => simp [indexOf_none hb]
  | some p =>
    obtain ⟨head, rest⟩ := p
    have hne : ¬ ((head.length : Int) = -1) := by omega
    simp only [indexOf_some hb, left_some hb, removeAt_some hb, hne, decide_false, Bool.false_eq_true, if_false]
    cases hp : Parser.parseRequestHeaders head s.reqHeaders with
    | none => simp [Cxx.parseRequestHeaders, hp, writeError_eq, Cxx.viaQ]
    | some rh =>
      cases hu : env.url rh.rawPath with
      | none => exact absurd hu (hurl head rest rh hb hp)
      | some pq =>
        obtain ⟨p, q⟩ := pq
        simp only [Cxx.parseRequestHeaders, hp, Cxx.parsePath, hu, if_true, Cxx.emitHp, Cxx.size, Cxx.truncate, removeAt_some hb]
        grind

theorem readDataSlot_eq (env : Env) (app : App) (s : Sock) :
    SocketPrivate_readData env app s = Sock.readDataSlot env app s := by
  unfold SocketPrivate_readData Sock.readDataSlot
  unfold_gen_helpers
  simp only [Cxx.emitRr, Cxx.emitRcf, Cxx.size, Cxx.truncate]
  grind

/-- no buffered head parses to a target that QUrl rejects -/
def NoBadUrl (env : Env) (s : Sock) : Prop :=
  ∀ head rest rh, breakOn CRLF2 s.readBuffer = some (head, rest) →
    Parser.parseRequestHeaders head s.reqHeaders = some rh → env.url rh.rawPath ≠ none

/-- the state in which `onReadyRead` looks at the buffer -/
def afterRead (s : Sock) : Sock :=
  let r := Cxx.tcpReadAll s
  { r.1 with readBuffer := r.1.readBuffer ++ r.2 }

theorem afterRead_eq (s : Sock) :
    afterRead s = (if s.tcp.devOpen then { s with readBuffer := s.readBuffer ++ s.tcp.inbox, tcp := { s.tcp with inbox := [] } } else s) := by
  unfold afterRead Cxx.tcpReadAll
  by_cases h : s.tcp.devOpen = true <;> simp [h]

theorem with_readBuffer_self (s : Sock) : ({ s with readBuffer := s.readBuffer } : Sock) = s := by cases s; rfl

theorem onReadyRead_eq (env : Env) (app : App) (s : Sock) (hurl : NoBadUrl env (afterRead s)) :
    SocketPrivate_onReadyRead env app s = Sock.onReadyRead env app s := by
  unfold SocketPrivate_onReadyRead Sock.onReadyRead
  unfold_gen_helpers
  have hrh := readHeaders_eq env app (afterRead s) hurl
  rw [afterRead_eq] at hrh
  simp only [readDataSlot_eq]
  by_cases hf : s.rs = .finished
  · simp only [hf, decide_true, if_true, Cxx.tcpReadAll]
    by_cases hd : s.tcp.devOpen = true <;> simp [hd]
  · simp only [hf, decide_false, Bool.false_eq_true, if_false, Cxx.tcpReadAll]
    by_cases hd : s.tcp.devOpen = true
    · simp only [hd, if_true] at hrh ⊢
      grind
    · cases s
      simp only [Bool.not_eq_true] at hd
      simp only [hd, Bool.false_eq_true, if_false, List.append_nil] at hrh ⊢
      grind

/-- the one path on which the model is coarser than the code, exactly: the head parses, QUrl rejects
    the target.  The code has stored the parsed method, raw target and header map before it answers
    400; the model answers 400 from the untouched state.  Everything else (the response, the close,
    the `disconnected` delivery) is the same call on both sides. -/
theorem readHeaders_badUrl (env : Env) (app : App) (s : Sock) (head rest : Bytes) (rh : Parser.ReqHead)
    (hb : breakOn CRLF2 s.readBuffer = some (head, rest))
    (hp : Parser.parseRequestHeaders head s.reqHeaders = some rh) (hu : env.url rh.rawPath = none) :
    SocketPrivate_readHeaders env app s =
      (Cxx.viaQ env app (Sock.writeError env { s with method := rh.method, rawPath := rh.rawPath, reqHeaders := rh.headers } 400 none), false) ∧
    Sock.readHeaders env app s = (Cxx.viaQ env app (Sock.writeError env s 400 none), false) := by
  constructor
  · unfold SocketPrivate_readHeaders
    have hne : ¬ ((head.length : Int) = -1) := by omega
    simp only [crlf2_lit, indexOf_some hb, left_some hb, hne, decide_false, Bool.false_eq_true, if_false,
      Cxx.parseRequestHeaders, hp, Cxx.parsePath, hu, if_true, writeError_eq]
  · unfold Sock.readHeaders
    simp only [hb, hp, hu, Cxx.viaQ]

end QhttpBridge.Sock
