import QhttpGen.Slot
/-
  Bridge: `QObjectHandler::process` as translated from /repo/src/src/qobjecthandler.cpp on this run takes the decision
  of the model's `SlotHandler.onHp` (C15's theorems are about the latter): 404 for a name nobody registered, else the
  registration stored last under exactly that name is invoked at once — when it does not ask for the whole body or the
  whole body is there — or when end-of-body is announced.
-/
namespace QhttpBridge.Slot
open Qhttp QhttpGen.Slot

/-- what an action of the translated `process` is in the model: the API calls made now -/
def now (s : Sock) : Sx.Act → List ApiOp
  | .err code => [.err code.toNat none]
  | .invoke m => SlotHandler.invoke m s
  | .defer _ => []

theorem process_eq (se : Sx.Env) (path : QStr) :
    QObjectHandler_process se [] path =
      (match SlotHandler.lookup se.regs path with
       | none => [Sx.Act.err 404]
       | some m => if !m.readAll || (Sock.bytesAvailable se.sock : Int) ≥ se.sock.total then [Sx.Act.invoke m] else [Sx.Act.defer m]) := by
  unfold QObjectHandler_process
  unfold_slot_helpers
  -- (`delta`, not `simp only`: the vocabulary words also occur inside the `Decidable` instances of the `if`s)
  delta Sx.mapContains Sx.mapValue Sx.bytesAvailable Sx.contentLength
  simp only [Sx.err, Sx.invoke, Sx.defer, List.nil_append]
  cases h : SlotHandler.lookup se.regs path with
  | none => simp
  | some m =>
    simp only [Option.isSome_some, Bool.not_true, Option.getD_some]
    by_cases hr : m.readAll = true <;> by_cases hb : se.sock.total ≤ (Sock.bytesAvailable se.sock : Int) <;>
      first | (simp [hr, hb]; done) | (simp_all; done) | (simp_all; omega) | grind

/-- hence what `process` makes happen at `headersParsed` is the model's reaction `SlotHandler.onHp` -/
theorem process_onHp (se : Sx.Env) (path : QStr) :
    (QObjectHandler_process se [] path).flatMap (now se.sock) = SlotHandler.onHp se.regs path se.sock := by
  rw [process_eq]
  unfold SlotHandler.onHp
  cases h : SlotHandler.lookup se.regs path with
  | none => rfl
  | some m => simp only; split <;> simp_all [now]

/-- a deferred invocation is recorded for exactly the registration the model's `onRcf` will invoke -/
theorem process_defers (se : Sx.Env) (path : QStr) (m : SlotHandler.Reg)
    (h : Sx.Act.defer m ∈ QObjectHandler_process se [] path) :
    SlotHandler.lookup se.regs path = some m ∧ m.readAll = true := by
  rw [process_eq] at h
  cases hl : SlotHandler.lookup se.regs path with
  | none => simp [hl] at h
  | some m' =>
    simp only [hl] at h
    split at h
    · simp at h
    · rename_i hc
      simp only [List.mem_singleton, Sx.Act.defer.injEq] at h
      subst h
      refine ⟨rfl, ?_⟩
      cases hr : m.readAll <;> simp_all

end QhttpBridge.Slot
