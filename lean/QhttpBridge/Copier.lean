import QhttpGen.Copier
import Qhttp.Model.Copier
/-
  Bridge: `QIODeviceCopierPrivate::nextBlock` as translated from /repo/src/src/qiodevicecopier.cpp
  on this run, fed with what the model's devices answer, performs exactly the actions the
  model's `Copier.nextBlock` records (C14's and C08's theorems are about the latter).
-/
namespace QhttpBridge.Copier
open Qhttp Qhttp.Copier
open QhttpGen.Copier (Act In)

/-- the block the source hands out in state `s` -/
def blockOf (c : Cfg) (s : St) : Bytes := (c.src.drop s.pos).take c.block

/-- what the private members and the two devices look like to one call of nextBlock(), when the
    source hands out the block `D` -/
def inputsD (c : Cfg) (s : St) (D : Bytes) : In :=
  { stopped := s.stopped, bufferSize := c.block, rangeTo := rangeTo c,
    readResult := if c.readFailAt == some s.reads then -1 else D.length,
    pos := ((s.pos + D.length : Nat) : Int),
    atEnd := decide (s.pos + D.length ≥ c.src.length),
    writeFails := fun n => decide (n < 0) || c.writeFailAt == some s.writes }

def inputs (c : Cfg) (s : St) : In := inputsD c s (blockOf c s)

/-- the observations the model logs for a list of actions -/
def obsOfD (c : Cfg) (s : St) (D : Bytes) : List Act → List Obs
  | [] => []
  | .write n :: r =>
    (if (decide (n < 0) || c.writeFailAt == some s.writes) then []
     else if (D.take n.toNat).isEmpty then [] else [wrote (D.take n.toNat)]) ++ obsOfD c s D r
  | .error :: r => err :: obsOfD c s D r
  | .finished :: r => fin :: obsOfD c s D r
  | .requeue :: r => obsOfD c s D r

/-- the model's `nextBlock` with the block as a parameter -/
def coreD (c : Cfg) (s : St) (D : Bytes) : St :=
  if s.stopped then s else
  let idx := s.reads
  let s := { s with reads := s.reads + 1 }
  if c.readFailAt == some idx then { s with log := s.log ++ [err, fin] } else
  let s := { s with pos := s.pos + D.length }
  let past := rangeTo c != -1 && (s.pos : Int) > rangeTo c
  let n : Int := if past then (D.length : Int) - ((s.pos : Int) - rangeTo c - 1) else D.length
  let (s, failed) := destWrite c s D n
  if failed then { s with log := s.log ++ [err, fin] } else
  if s.pos ≥ c.src.length || past then { s with log := s.log ++ [fin] }
  else { s with pending := .nextBlock }

theorem nextBlock_eq_core (c : Cfg) (s : St) : Qhttp.Copier.nextBlock c s = coreD c s (blockOf c s) := rfl

theorem core_log (c : Cfg) (s : St) (D : Bytes) :
    (coreD c s D).log = s.log ++ obsOfD c s D (QhttpGen.Copier.nextBlock (inputsD c s D)) := by
  unfold coreD QhttpGen.Copier.nextBlock
  simp only [inputsD, destWrite]
  by_cases hst : s.stopped = true
  · simp [hst, obsOfD]
  · simp only [hst, Bool.false_eq_true, if_false]
    by_cases hrf : (c.readFailAt == some s.reads) = true
    · simp [hrf, obsOfD]
    · simp only [hrf, Bool.false_eq_true, if_false]
      have hne : ((D.length : Nat) : Int) ≠ -1 := by omega
      have hnn : ¬ (((D.length : Nat) : Int) < 0) := by omega
      by_cases hr : rangeTo c = -1
      · by_cases hwf : (c.writeFailAt == some s.writes) = true
        · (simp [hr, hwf, hne, hnn, obsOfD]; try (split <;> simp))
        · by_cases hend : c.src.length ≤ s.pos + D.length
          · (simp [hr, hwf, hne, hnn, hend, obsOfD]; try (split <;> simp))
          · (simp [hr, hwf, hne, hnn, hend, obsOfD]; try (split <;> simp))
      · by_cases hp : rangeTo c < (s.pos : Int) + (D.length : Int)
        · by_cases hwf : (c.writeFailAt == some s.writes) = true
          · (simp [hr, hp, hwf, hne, hnn, obsOfD]; try (split <;> simp))
          · by_cases hneg : ((D.length : Nat) : Int) - ((s.pos : Int) + (D.length : Int) - rangeTo c - 1) < 0
            · (simp [hr, hp, hwf, hne, hnn, hneg, obsOfD]; try (split <;> simp))
            · (simp [hr, hp, hwf, hne, hnn, hneg, obsOfD]; try (split <;> simp))
        · by_cases hwf : (c.writeFailAt == some s.writes) = true
          · (simp [hr, hp, hwf, hne, hnn, obsOfD]; try (split <;> simp))
          · by_cases hend : c.src.length ≤ s.pos + D.length
            · (simp [hr, hp, hwf, hne, hnn, hend, obsOfD]; try (split <;> simp))
            · (simp [hr, hp, hwf, hne, hnn, hend, obsOfD]; try (split <;> simp))

theorem core_pending (c : Cfg) (s : St) (D : Bytes) :
    (coreD c s D).pending =
      if Act.requeue ∈ QhttpGen.Copier.nextBlock (inputsD c s D) then Pending.nextBlock else s.pending := by
  unfold coreD QhttpGen.Copier.nextBlock
  simp only [inputsD, destWrite]
  by_cases hst : s.stopped = true
  · simp [hst, obsOfD]
  · simp only [hst, Bool.false_eq_true, if_false]
    by_cases hrf : (c.readFailAt == some s.reads) = true
    · simp [hrf, obsOfD]
    · simp only [hrf, Bool.false_eq_true, if_false]
      have hne : ((D.length : Nat) : Int) ≠ -1 := by omega
      have hnn : ¬ (((D.length : Nat) : Int) < 0) := by omega
      by_cases hr : rangeTo c = -1
      · by_cases hwf : (c.writeFailAt == some s.writes) = true
        · (simp [hr, hwf, hne, hnn, obsOfD]; try (split <;> simp))
        · by_cases hend : c.src.length ≤ s.pos + D.length
          · (simp [hr, hwf, hne, hnn, hend, obsOfD]; try (split <;> simp))
          · (simp [hr, hwf, hne, hnn, hend, obsOfD]; try (split <;> simp))
      · by_cases hp : rangeTo c < (s.pos : Int) + (D.length : Int)
        · by_cases hwf : (c.writeFailAt == some s.writes) = true
          · (simp [hr, hp, hwf, hne, hnn, obsOfD]; try (split <;> simp))
          · by_cases hneg : ((D.length : Nat) : Int) - ((s.pos : Int) + (D.length : Int) - rangeTo c - 1) < 0
            · (simp [hr, hp, hwf, hne, hnn, hneg, obsOfD]; try (split <;> simp))
            · (simp [hr, hp, hwf, hne, hnn, hneg, obsOfD]; try (split <;> simp))
        · by_cases hwf : (c.writeFailAt == some s.writes) = true
          · (simp [hr, hp, hwf, hne, hnn, obsOfD]; try (split <;> simp))
          · by_cases hend : c.src.length ≤ s.pos + D.length
            · (simp [hr, hp, hwf, hne, hnn, hend, obsOfD]; try (split <;> simp))
            · (simp [hr, hp, hwf, hne, hnn, hend, obsOfD]; try (split <;> simp))

/-- **bridge**: the translated `nextBlock`, fed with the model's device answers, logs what the
    model's `nextBlock` logs -/
theorem nextBlock_log (c : Cfg) (s : St) :
    (Qhttp.Copier.nextBlock c s).log =
      s.log ++ obsOfD c s (blockOf c s) (QhttpGen.Copier.nextBlock (inputs c s)) := by
  rw [nextBlock_eq_core]; exact core_log c s (blockOf c s)

/-- the translated function re-arms the timer exactly when the model keeps the copy pending -/
theorem nextBlock_pending (c : Cfg) (s : St) :
    (Qhttp.Copier.nextBlock c s).pending =
      if Act.requeue ∈ QhttpGen.Copier.nextBlock (inputs c s) then Pending.nextBlock else s.pending := by
  rw [nextBlock_eq_core]; exact core_pending c s (blockOf c s)

end QhttpBridge.Copier
