import QhttpBridge.Proxy.Base
namespace QhttpBridge.Proxy
open Qhttp QhttpGen.Proxy

/-- the branch `relayReads` takes: request bytes read from the downstream socket go straight upstream once the
    request head was written, into `mUpstreamWrite` before -/
theorem onDownstreamReadyRead_eq (env : Env) (s : Proxy.St) (news : Bytes) :
    ProxySocket_onDownstreamReadyRead env s news =
      (if s.headersWritten then { s with toUp := s.toUp ++ news } else { s with buf := s.buf ++ news }) := by
  unfold ProxySocket_onDownstreamReadyRead
  unfold_proxy_helpers
  simp only [Px.upWrite]
  all_goals grind

/-- … which is what `Proxy.relayReads` does with the bytes of the reads made since it last ran, once the
    ProxySocket exists -/
theorem relayReads_eq (env : Env) (st : Proxy.St) (h : (st.conn == .none) = false) :
    Proxy.relayReads st =
      ProxySocket_onDownstreamReadyRead env { st with seenRd := (Proxy.rdsOf st.sock.log).length }
        (((Proxy.rdsOf st.sock.log).drop st.seenRd).flatten) := by
  rw [onDownstreamReadyRead_eq]
  unfold Proxy.relayReads
  simp [h]

end QhttpBridge.Proxy
