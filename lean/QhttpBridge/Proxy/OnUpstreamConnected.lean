import QhttpBridge.Proxy.Base
/-
  Bridge: `ProxySocket::onUpstreamConnected` as translated on this run writes exactly the model's upstream request
  head (`Proxy.upstreamHead`: request line with the re-encoded routed path and the client's query, the client's
  headers with X-Forwarded-For extended and X-Real-IP added) followed by the body bytes buffered so far, and marks the
  head as written — what the model's `turn` does when the connection attempt completes (C12's theorems are about
  `upstreamHead`).  `fuel` bounds the loop over the X-Forwarded-For values; any fuel above their number gives the same.
-/
namespace QhttpBridge.Proxy
open Qhttp QhttpGen.Proxy

theorem xff_lit : ([88, 45, 70, 111, 114, 119, 97, 114, 100, 101, 100, 45, 70, 111, 114] : Bytes) = Proxy.XFF := by decide
theorem xri_lit : ([88, 45, 82, 101, 97, 108, 45, 73, 80] : Bytes) = Proxy.XRI := by decide

theorem nth_nat (l : List Bytes) (k : Nat) (h : k < l.length) : Cxx.nth l (k : Int) = l[k] := by
  simp [Cxx.nth, List.getD, h]

/-- the reverse loop over the X-Forwarded-For values: `for (i = n - 1; i >= 0; --i) combined += fwd.at(i) + ", "` -/
theorem xff_loop (fwd : List Bytes) :
    ∀ (k fuel : Nat) (combined : Bytes), k ≤ fwd.length → k + 1 ≤ fuel →
      (ProxySocket_onUpstreamConnected.go1 fwd fuel combined ((k : Int) - 1)).2.1
        = combined ++ ((fwd.take k).reverse.flatMap fun v => v ++ [44, 32]) := by
  intro k
  induction k with
  | zero =>
    intro fuel combined _ hf
    obtain ⟨f, rfl⟩ : ∃ f, fuel = f + 1 := ⟨fuel - 1, by omega⟩
    unfold ProxySocket_onUpstreamConnected.go1
    simp
  | succ k ih =>
    intro fuel combined hk hf
    obtain ⟨f, rfl⟩ : ∃ f, fuel = f + 1 := ⟨fuel - 1, by omega⟩
    unfold ProxySocket_onUpstreamConnected.go1
    have hidx : ((k + 1 : Nat) : Int) - 1 = (k : Int) := by omega
    have hk0 : (k : Int) ≥ 0 := by omega
    simp only [hidx, hk0, decide_true, if_true]
    rw [ih f _ (by omega) (by omega), nth_nat fwd k (by omega)]
    have hlt : k < fwd.length := by omega
    have ht : fwd.take (k + 1) = fwd.take k ++ [fwd[k]] := by
      rw [List.take_succ]
      simp [List.getElem?_eq_getElem hlt]
    rw [ht, List.reverse_append]
    simp only [List.reverse_cons, List.reverse_nil, List.nil_append, List.singleton_append, List.flatMap_cons,
      List.append_assoc, List.cons_append]

theorem mid_query {raw a q : Bytes} (h : breakOn [63] raw = some (a, q)) :
    Cxx.mid raw (a.length : Int) (-1) = 63 :: q := by
  have e := breakOn_some h
  subst e
  have c1 : ¬ ((a.length : Int) > ((a ++ [63] ++ q).length : Int)) := by simp; omega
  have c2 : ¬ ((a.length : Int) < 0) := by omega
  simp only [Cxx.mid, c1, c2, if_false, Int.toNat_natCast]
  simp [List.drop_append]
  apply List.take_of_length_le
  simp
  omega

theorem foldl_upWrite (m : HeaderMap) (s : Proxy.St) :
    m.foldl (fun s e => Px.upWrite s (e.1 ++ (58 :: 32 :: (e.2 ++ [13, 10])))) s
      = { s with toUp := s.toUp ++ Sock.headerLines m } := by
  induction m generalizing s with
  | nil => simp [Sock.headerLines]
  | cons e m ih =>
    obtain ⟨k, v⟩ := e
    rw [List.foldl_cons, ih]
    simp [Px.upWrite, Sock.headerLines, COLON, SP, CRLF, List.append_assoc]

theorem lit_http11 : ([32, 72, 84, 84, 80, 47, 49, 46, 49, 13, 10] : Bytes) = lit [' ','H','T','T','P','/','1','.','1'] ++ CRLF := by decide

theorem onUpstreamConnected_eq (c : Proxy.Cfg) (s : Proxy.St) (fuel : Nat)
    (hf : (HeaderMap.values Proxy.XFF s.sock.reqHeaders).length + 1 ≤ fuel) :
    ProxySocket_onUpstreamConnected c s fuel =
      { s with headersWritten := true, toUp := s.toUp ++ Proxy.upstreamHead c s.sock ++ s.buf, buf := [] } := by
  unfold ProxySocket_onUpstreamConnected Proxy.upstreamHead Proxy.upstreamQuery Proxy.rawQuery
  unfold_proxy_helpers
  have hloop := xff_loop (HeaderMap.values Proxy.XFF s.sock.reqHeaders) (HeaderMap.values Proxy.XFF s.sock.reqHeaders).length fuel [] (Nat.le_refl _) hf
  simp only [List.take_length, List.nil_append] at hloop
  simp only [xff_lit, xri_lit, Cxx.count, lit_http11, List.append_assoc, List.cons_append, List.nil_append]
  simp only [foldl_upWrite]
  have hpe : pctEncode Proxy.queryKeep [] = [] := by simp [pctEncode]
  cases hq : breakOn [63] s.sock.rawPath with
  | none =>
    simp only [indexOf_none hq, hpe]
    by_cases he : (HeaderMap.values Proxy.XFF s.sock.reqHeaders).isEmpty = true
    · by_cases hbuf : s.buf = [] <;>
        by_cases hx : HeaderMap.contains Proxy.XRI (HeaderMap.insert Proxy.XFF c.peerIP s.sock.reqHeaders) = true <;>
        simp [he, hbuf, hx, Px.upWrite, Cxx.size, List.append_assoc, SP, CRLF]
    · by_cases hbuf : s.buf = [] <;>
        simp [he, hbuf, Px.upWrite, Cxx.size, List.append_assoc, hloop, SP, CRLF] <;> (split <;> simp_all)
  | some p =>
    obtain ⟨a, q⟩ := p
    have hne : ((a.length : Int) ≠ -1) := by omega
    simp only [indexOf_some hq, mid_query hq]
    by_cases he : (HeaderMap.values Proxy.XFF s.sock.reqHeaders).isEmpty = true
    · by_cases hbuf : s.buf = [] <;>
        by_cases hx : HeaderMap.contains Proxy.XRI (HeaderMap.insert Proxy.XFF c.peerIP s.sock.reqHeaders) = true <;>
        simp [he, hne, hbuf, hx, Px.upWrite, Cxx.size, List.append_assoc, SP, CRLF]
    · by_cases hbuf : s.buf = [] <;>
        simp [he, hne, hbuf, Px.upWrite, Cxx.size, List.append_assoc, hloop, SP, CRLF] <;> (split <;> simp_all)

end QhttpBridge.Proxy
