import QhttpBridge.Proxy.Base
namespace QhttpBridge.Proxy
open Qhttp QhttpGen.Proxy

theorem onUpstreamReadyRead_eq (env : Env) (s : Proxy.St) (chunk : Bytes) :
    ProxySocket_onUpstreamReadyRead env s chunk = Proxy.onUpstreamReadyRead env s chunk := by
  unfold ProxySocket_onUpstreamReadyRead Proxy.onUpstreamReadyRead
  unfold_proxy_helpers
  simp only [crlf2_lit, Px.dsWrite, Px.dsWriteError, Px.dsSetStatusCode, Px.dsSetHeaders, Px.dsWriteHeaders, Px.parseResponseHeaders]
  by_cases hp : s.headersParsed = true
  · simp [hp]
  · simp only [hp, Bool.not_eq_true, Bool.false_eq_true, if_false]
    cases hb : breakOn CRLF2 (s.upRead ++ chunk) with
    | none => simp [indexOf_none hb]
    | some p =>
      obtain ⟨head, rest⟩ := p
      -- however the code tests "not found" (!= -1, < 0, …): the index is a length
      have hlen : (0 : Int) ≤ (head.length : Int) := by omega
      simp only [indexOf_some hb, left_some hb, mid_some hb]
      cases hr : Parser.parseResponseHeaders head with
      | none => simp; all_goals grind
      | some t =>
        obtain ⟨code, reason, hs⟩ := t
        simp; all_goals grind

end QhttpBridge.Proxy
