import QhttpGen.Proxy
import Qhttp.Lemmas.BytesLemmas
/-
  Bridge: the slots of `ProxySocket` translated from /repo/src/src/proxysocket.cpp on this run
  (`QhttpGen/Proxy.lean`) are the functions of the model `Qhttp/Model/Proxy.lean` that C13's and C12's
  theorems are about.

  * `onUpstreamReadyRead_eq`  — head detection, response parsing, relay / 502: equal to the model's function for
    every state and every chunk the upstream socket hands out;
  * `onUpstreamError_eq`      — 502 before a head was relayed, close afterwards (the model additionally sets its
    ghost flag `errored`);
  * `onDownstreamReadyRead_eq` — request bytes go upstream once the head was written, into the buffer before:
    the branch `relayReads` takes for the bytes read during one socket event.
  (`onUpstreamConnected`, which builds the upstream request head, is tied by the correspondence runs only.)
-/
namespace QhttpBridge.Proxy
open Qhttp QhttpGen.Proxy

theorem crlf2_lit : ([13, 10, 13, 10] : Bytes) = CRLF2 := rfl

theorem indexOf_none {rb d : Bytes} (h : breakOn d rb = none) : Cxx.indexOf rb d = -1 := by
  simp [Cxx.indexOf, h]
theorem indexOf_some {rb d a r : Bytes} (h : breakOn d rb = some (a, r)) : Cxx.indexOf rb d = a.length := by
  simp [Cxx.indexOf, h]
theorem left_some {rb d a r : Bytes} (h : breakOn d rb = some (a, r)) : Cxx.left rb (a.length : Int) = a := by
  have e := breakOn_some h
  subst e
  have h0 : ¬ ((a.length : Int) < 0) := by omega
  simp [Cxx.left, h0]
theorem mid_some {rb a r : Bytes} (h : breakOn CRLF2 rb = some (a, r)) :
    Cxx.mid rb ((a.length : Int) + 4) (-1) = r := by
  have e := breakOn_some h
  subst e
  have hl : ((a ++ CRLF2 ++ r).length : Int) = a.length + 4 + r.length := by simp [CRLF2]; omega
  have c1 : ¬ ((a.length : Int) + 4 > ((a ++ CRLF2 ++ r).length : Int)) := by omega
  have c2 : ¬ ((a.length : Int) + 4 < 0) := by omega
  have e2 : ((a.length : Int) + 4).toNat = a.length + 4 := by omega
  simp only [Cxx.mid, c1, c2, if_false, e2]
  have hd : (a ++ CRLF2 ++ r).drop (a.length + 4) = r := by simp [CRLF2, List.drop_append]
  rw [hd]
  apply List.take_of_length_le
  simp [CRLF2]
  omega

end QhttpBridge.Proxy
