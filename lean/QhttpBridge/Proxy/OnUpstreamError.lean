import QhttpBridge.Proxy.Base
namespace QhttpBridge.Proxy
open Qhttp QhttpGen.Proxy

theorem onUpstreamError_eq (env : Env) (s : Proxy.St) :
    { ProxySocket_onUpstreamError env s with errored := true } = Proxy.onUpstreamError env s := by
  unfold ProxySocket_onUpstreamError Proxy.onUpstreamError
  unfold_proxy_helpers
  simp only [Px.dsClose, Px.dsWriteError]
  grind

end QhttpBridge.Proxy
