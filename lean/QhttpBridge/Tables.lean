import QhttpGen.Tables
import Qhttp.Model.Socket
/-
  Bridge: the constant tables read from the C++ on this run equal the model's.
-/
namespace QhttpBridge.Tables
open Qhttp

/-- the method tokens `Parser::parseRequestHeaders` recognises are exactly the model's table, each with its code
    (as sets: the tokens are mutually exclusive, so the order in which the C++ tests them does not matter) -/
theorem methodTokens_eq :
    (QhttpGen.Tables.methodTokens.all fun e => (Parser.methodTable.map (fun x => (x.1, (x.2 : Int)))).contains e) = true ∧
    ((Parser.methodTable.map (fun x => (x.1, (x.2 : Int)))).all fun e => QhttpGen.Tables.methodTokens.contains e) = true ∧
    QhttpGen.Tables.methodTokens.length = Parser.methodTable.length := by decide

/-- each token is mapped to the `Socket::Method` value of the same name (no swapped constants) -/
theorem methodTokens_enum :
    (QhttpGen.Tables.methodTokens.all fun e => QhttpGen.Tables.methodEnum.contains e) = true ∧
    (QhttpGen.Tables.methodEnum.all fun e => QhttpGen.Tables.methodTokens.contains e) = true := by decide

/-- the eight values are the distinct powers of two 1 … 128 -/
theorem method_codes : Parser.methodTable.map (·.2) = [1, 2, 4, 8, 16, 32, 64, 128] := by decide

theorem versions_eq : QhttpGen.Tables.versions = [Parser.HTTP10, Parser.HTTP11] := by decide

/-- `SocketPrivate::statusReason` -/
theorem statusReason_eq :
    (QhttpGen.Tables.statusReasons.all fun e => statusReason e.1 == e.2) = true ∧
    statusReason 299 = QhttpGen.Tables.statusReasonDefault ∧
    (QhttpGen.Tables.statusReasons.map (·.1)) =
      [200, 201, 202, 206, 301, 302, 400, 401, 403, 404, 405, 409, 502, 503, 500, 505] := by decide

/-- codes outside the table get the default phrase in the model -/
theorem statusReason_default (c : Int)
    (h : c ∉ [200, 201, 202, 206, 301, 302, 400, 401, 403, 404, 405, 409, 500, 502, 503, 505]) :
    statusReason c = QhttpGen.Tables.statusReasonDefault := by
  simp only [List.mem_cons, List.not_mem_nil, or_false, not_or] at h
  simp only [statusReason]
  obtain ⟨h1, h2, h3, h4, h5, h6, h7, h8, h9, h10, h11, h12, h13, h14, h15, h16⟩ := h
  simp [h1, h2, h3, h4, h5, h6, h7, h8, h9, h10, h11, h12, h13, h14, h15, h16]
  decide

/-- `ProxySocket::methodToString` inverts the method table -/
theorem methodToString_inverse :
    QhttpGen.Tables.methodToString = Parser.methodTable.map (fun e => ((e.2 : Int), e.1)) := by decide

end QhttpBridge.Tables
