import QhttpGen.Srv
import Qhttp.Model.Handler
/-
  Bridge: `ServerPrivate::process` as translated from /repo/src/src/server.cpp on this run creates the HTTP socket as a
  child of the server's private object, has `disconnected()` delete it, and connects to `headersParsed()` a lambda that
  is the model's `serverRoute`: with a root handler, `route(socket, path.mid(1))` — the decoded path without its first
  unit, exactly one unit —; without one, 500.  Nothing is routed at any other moment (the function itself calls neither).
-/
namespace QhttpBridge.SrvProcess
open Qhttp QhttpGen.Srv

theorem process_eq (ve : Vx.Env) :
    ServerPrivate_process ve [] =
      [Vx.Act.newHttp, .onDisconnectedDelete,
       .onHeadersParsed (if ve.hasHandler then [Vx.LAct.route 1] else [Vx.LAct.err 500])] := by
  unfold ServerPrivate_process
  unfold_srv_helpers
  cases h : ve.hasHandler <;> simp [Vx.act, Vx.lact]

/-- what the lambda does, read as the model's `serverRoute`: `some` = the root handler routes the path without its first
    unit, `none` = 500 -/
def lambdaMeaning (m : Matcher) (root : Option Node) (path : QStr) : List Vx.LAct → Option (List Act)
  | [.route n] => root.map fun r => route m r (path.drop n.toNat)
  | _ => none

theorem lambda_is_serverRoute (m : Matcher) (root : Option Node) (path : QStr) (ve : Vx.Env) (h : ve.hasHandler = root.isSome) :
    ∃ body, ServerPrivate_process ve [] = [Vx.Act.newHttp, .onDisconnectedDelete, .onHeadersParsed body] ∧
      lambdaMeaning m root path body = serverRoute m root path := by
  refine ⟨_, process_eq ve, ?_⟩
  unfold serverRoute
  cases root with
  | none => simp at h; simp [h, lambdaMeaning]
  | some r => simp at h; simp [h, lambdaMeaning]

/-- the socket is deleted when the client has gone, and only through that connection -/
theorem deletes_on_disconnect (ve : Vx.Env) : Vx.Act.onDisconnectedDelete ∈ ServerPrivate_process ve [] := by
  rw [process_eq]; simp

example : lambdaMeaning (fun _ _ => none) (some (Node.mk 0 [] [] Subs.nil false)) [47, 97] [Vx.LAct.route 1] =
    some [Act.process 0 [97]] := by decide

end QhttpBridge.SrvProcess
