import QhttpGen.Srv
import Qhttp.Model.Handler
/-
  Bridge: `ServerPrivate::process` as translated from /repo/src/src/server.cpp on this run creates the HTTP socket as a
  child of the server's private object, has `disconnected()` delete it, and connects to `headersParsed()` a lambda that
  is the model's `serverRoute`: with a root handler, `route(socket, path.mid(1))` — the decoded path without its first
  unit, exactly one unit —; without one, 500.  Nothing is routed at any other moment (the function itself calls neither).
-/
namespace QhttpBridge.SrvProcess
open Qhttp QhttpGen.Srv

/-- what the lambda must be: with a root handler `route(socket, path.mid(1))`, without one 500 -/
def lambdaBody (ve : Vx.Env) : List Vx.LAct := if ve.hasHandler then [Vx.LAct.route 1] else [Vx.LAct.err 500]

/-- the HTTP socket is created first; then, in either order, `disconnected()` is connected to its deletion and
    `headersParsed()` to the lambda; nothing else happens (in particular nothing is routed by the function itself) -/
theorem process_eq (ve : Vx.Env) :
    ∃ rest, ServerPrivate_process ve [] = Vx.Act.newHttp :: rest ∧ rest.length = 2 ∧
      Vx.Act.onDisconnectedDelete ∈ rest ∧ Vx.Act.onHeadersParsed (lambdaBody ve) ∈ rest := by
  unfold ServerPrivate_process lambdaBody
  unfold_srv_helpers
  cases h : ve.hasHandler <;> simp [Vx.act, Vx.lact]

/-- what the lambda does, read as the model's `serverRoute`: `some` = the root handler routes the path without its first
    unit, `none` = 500 -/
def lambdaMeaning (m : Matcher) (root : Option Node) (path : QStr) : List Vx.LAct → Option (List Act)
  | [.route n] => root.map fun r => route m r (path.drop n.toNat)
  | _ => none

theorem lambda_is_serverRoute (m : Matcher) (root : Option Node) (path : QStr) (ve : Vx.Env) (h : ve.hasHandler = root.isSome) :
    Vx.Act.onHeadersParsed (lambdaBody ve) ∈ ServerPrivate_process ve [] ∧
      lambdaMeaning m root path (lambdaBody ve) = serverRoute m root path := by
  obtain ⟨rest, e, _, _, hm⟩ := process_eq ve
  refine ⟨by rw [e]; exact List.mem_cons_of_mem _ hm, ?_⟩
  unfold serverRoute lambdaBody
  cases root with
  | none => simp at h; simp [h, lambdaMeaning]
  | some r => simp at h; simp [h, lambdaMeaning]

/-- the socket is deleted when the client has gone -/
theorem deletes_on_disconnect (ve : Vx.Env) : Vx.Act.onDisconnectedDelete ∈ ServerPrivate_process ve [] := by
  obtain ⟨rest, e, _, hd, _⟩ := process_eq ve
  rw [e]; exact List.mem_cons_of_mem _ hd

/-- the function itself neither routes nor answers: whatever is routed is routed by the lambda -/
theorem only_the_lambda_routes (ve : Vx.Env) :
    (ServerPrivate_process ve []).filter (fun a => match a with | .onHeadersParsed _ => true | _ => false) =
      [Vx.Act.onHeadersParsed (lambdaBody ve)] := by
  unfold ServerPrivate_process lambdaBody
  unfold_srv_helpers
  cases h : ve.hasHandler <;> simp [Vx.act, Vx.lact]

example : lambdaMeaning (fun _ _ => none) (some (Node.mk 0 [] [] Subs.nil false)) [47, 97] [Vx.LAct.route 1] =
    some [Act.process 0 [97]] := by decide

end QhttpBridge.SrvProcess
