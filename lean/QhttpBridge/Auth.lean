import QhttpGen.Auth
/-
  Bridge: `BasicAuthMiddleware::verify` / `process` as translated from /repo/src/src/basicauthmiddleware.cpp on this run
  take the decision of the model's `BasicAuth.verdict` (C09's theorems are about the latter) and, when they refuse,
  do on the socket what `BasicAuth.ops` says: the `WWW-Authenticate` challenge with the realm, then 401.

  A QString is represented by its UTF-8 encoding and `QString::fromUtf8(b).toUtf8()` by an arbitrary function
  `round`; the only thing assumed is that the registered user names and passwords are encodings of strings
  (`TableText`: `round` leaves them alone) — they entered the map as QStrings.
-/
namespace QhttpBridge.Auth
open Qhttp QhttpGen.Auth

/-- the registered credentials are UTF-8 encodings of QStrings -/
def TableText (round : Bytes → Bytes) (t : List (Bytes × Bytes)) : Prop :=
  ∀ e ∈ t, round e.1 = e.1 ∧ round e.2 = e.2

theorem lookup_mem {t : List (Bytes × Bytes)} {u p : Bytes} (h : BasicAuth.lookup t u = some p) : (u, p) ∈ t := by
  unfold BasicAuth.lookup at h
  cases hf : t.reverse.find? (fun e => e.1 == u) with
  | none => simp [hf] at h
  | some e =>
    simp only [hf, Option.map_some, Option.some.injEq] at h
    have hm := List.mem_of_find?_eq_some hf
    have hp := List.find?_some hf
    simp only [beq_iff_eq] at hp
    have : e = (u, p) := by cases e; simp_all
    rw [← this]; exact List.mem_reverse.mp hm

/-- `d->map.contains(u) && d->map.value(u) == p` is "the password registered last for `u` is `p`" -/
theorem verify_eq (ae : Ax.Env) (s : List Ax.Act) (u p : Bytes) :
    BasicAuthMiddleware_verify ae s u p = (BasicAuth.lookup ae.table u == some p) := by
  unfold BasicAuthMiddleware_verify
  unfold_auth_helpers
  -- (`delta`, not `simp only`: the vocabulary words also occur inside the `Decidable` instances of `if`s)
  delta Ax.mapContains Ax.mapValue
  cases BasicAuth.lookup ae.table u <;> simp

theorem basic_lit : lower ([66, 97, 115, 105, 99] : Bytes) = BasicAuth.BASIC := by decide
theorem authorization_lit : ([65, 117, 116, 104, 111, 114, 105, 122, 97, 116, 105, 111, 110] : Bytes) = BasicAuth.AUTHORIZATION := by decide
theorem www_lit : ([87, 87, 87, 45, 65, 117, 116, 104, 101, 110, 116, 105, 99, 97, 116, 101] : Bytes) = BasicAuth.WWW_AUTH := by decide

/-- `QString("Basic realm=\"%1\"").arg(realm)` is the model's challenge, whatever the realm contains -/
theorem challenge_eq (realm : Bytes) :
    Ax.arg1 ([66, 97, 115, 105, 99, 32, 114, 101, 97, 108, 109, 61, 34, 37, 49, 34] : Bytes) realm = BasicAuth.challenge realm := by
  have h : split [37, 49] 0 ([66, 97, 115, 105, 99, 32, 114, 101, 97, 108, 109, 61, 34, 37, 49, 34] : Bytes) =
      [[66, 97, 115, 105, 99, 32, 114, 101, 97, 108, 109, 61, 34], [34]] := by decide
  unfold Ax.arg1
  rw [h]
  simp [joinWith, BasicAuth.challenge, lit]
  decide

/-- the same challenge built by concatenation (`QLatin1String("Basic realm=\"") + realm + QLatin1Char('"')`) -/
theorem challenge_cat (realm : Bytes) :
    ([66, 97, 115, 105, 99, 32, 114, 101, 97, 108, 109, 61, 34] : Bytes) ++ realm ++ [34] = BasicAuth.challenge realm := by
  simp [BasicAuth.challenge, lit]
  decide

theorem challenge_cons (realm : Bytes) :
    (66 :: 97 :: 115 :: 105 :: 99 :: 32 :: 114 :: 101 :: 97 :: 108 :: 109 :: 61 :: 34 :: (realm ++ [34]) : Bytes) = BasicAuth.challenge realm := by
  rw [← challenge_cat]; rfl

theorem last_two (a b : Bytes) : Cxx.last [a, b] = b := rfl
theorem last_one (a : Bytes) : Cxx.last [a] = a := rfl
theorem last_nil : Cxx.last [] = [] := rfl

/-! equalities the C++ may write either way round, oriented once and for all -/
theorem round_beq (f : Bytes → Bytes) (x : Bytes) : (x == f x) = (f x == x) := by
  rw [Bool.eq_iff_iff]; simp only [beq_iff_eq]; exact eq_comm
theorem round_eq (f : Bytes → Bytes) (x : Bytes) : (x = f x) = (f x = x) := propext eq_comm
theorem basic_beq (x : Bytes) : (BasicAuth.BASIC == lower x) = (lower x == BasicAuth.BASIC) := by
  rw [Bool.eq_iff_iff]; simp only [beq_iff_eq]; exact eq_comm
theorem basic_eq (x : Bytes) : (BasicAuth.BASIC = lower x) = (lower x = BasicAuth.BASIC) := propext eq_comm

theorem count_two_iff (l : List Bytes) : Cxx.count l = 2 ↔ ∃ a b, l = [a, b] := by
  unfold Cxx.count
  constructor
  · intro h
    match l, h with
    | [a, b], _ => exact ⟨a, b, rfl⟩
    | [], h => simp at h
    | [_], h => simp at h
    | _ :: _ :: _ :: _, h => simp at h; omega
  · rintro ⟨a, b, rfl⟩; rfl

/-- what the refusing branch does -/
def refusal (realm : Bytes) : List Ax.Act := [.hdr BasicAuth.WWW_AUTH (BasicAuth.challenge realm), .err 401]

theorem process_eq (ae : Ax.Env) (hT : TableText ae.round ae.table) :
    BasicAuthMiddleware_process ae [] =
      if BasicAuth.verdict ae.table (HeaderMap.value BasicAuth.AUTHORIZATION ae.hdrs) then ([], true)
      else (refusal ae.realm, false) := by
  unfold BasicAuthMiddleware_process BasicAuth.verdict
  unfold_auth_helpers
  simp only [verify_eq, authorization_lit, www_lit, challenge_eq, challenge_cat, Ax.ieq, basic_lit, Ax.setHeader, Ax.err, Ax.parserSplit,
    List.nil_append, refusal]
  generalize HeaderMap.value BasicAuth.AUTHORIZATION ae.hdrs = v
  rcases hsp : splitChar 32 v with _ | ⟨a, _ | ⟨b, _ | ⟨c, l⟩⟩⟩
  · simp [Cxx.count, challenge_cons]
  · simp [Cxx.count, challenge_cons]
  · -- scheme and token
    by_cases hs : lower a = BasicAuth.BASIC
    · rcases hsq : split [58] 1 (BasicAuth.fromBase64 b) with _ | ⟨u, _ | ⟨p, _ | ⟨c, l⟩⟩⟩ <;>
        have hsq' : split [COLON] 1 (BasicAuth.fromBase64 b) = _ := hsq
      · simp [Cxx.count, Cxx.nth, last_two, last_nil, hs, hsq, hsq', challenge_cons, round_beq, round_eq, basic_beq, basic_eq]
      · simp [Cxx.count, Cxx.nth, last_two, last_one, hs, hsq, hsq', challenge_cons, round_beq, round_eq, basic_beq, basic_eq]
      · cases hl : BasicAuth.lookup ae.table u == some p
        · simp_all [Cxx.count, Cxx.nth, last_two, round_beq, round_eq, basic_beq, basic_eq] <;> (try simp [challenge_cons])
        · have hm := hT _ (lookup_mem (by simpa using hl))
          simp_all [Cxx.count, Cxx.nth, last_two, round_beq, round_eq, basic_beq, basic_eq] <;> (try simp [challenge_cons])
      · have hne : ¬ ((l.length : Int) + 1 + 1 + 1 = 2) := by omega
        simp [Cxx.count, Cxx.nth, last_two, hs, hsq, hsq', hne, challenge_cons, round_beq, round_eq, basic_beq, basic_eq]
    · simp [Cxx.count, Cxx.nth, last_two, hs, challenge_cons, round_beq, round_eq, basic_beq, basic_eq]
  · have hne : ¬ ((l.length : Int) + 1 + 1 + 1 = 2) := by omega
    simp [Cxx.count, hne, challenge_cons]

/-- non-vacuity: a table of plain text and the identity round trip -/
example : TableText id [(lit ['u'], lit ['p'])] := by intro e he; simp

/-- hence the middleware's verdict and its actions on the socket are those of the model's `BasicAuth.ops` -/
theorem process_ops (ae : Ax.Env) (hT : TableText ae.round ae.table) :
    (BasicAuthMiddleware_process ae []).2 = BasicAuth.verdict ae.table (HeaderMap.value BasicAuth.AUTHORIZATION ae.hdrs) ∧
    ((BasicAuthMiddleware_process ae []).2 = false →
      (BasicAuthMiddleware_process ae []).1 = [.hdr BasicAuth.WWW_AUTH (BasicAuth.challenge ae.realm), .err 401]) := by
  rw [process_eq ae hT]
  split <;> simp_all [refusal]

end QhttpBridge.Auth
