import QhttpGen.Srv
/-
  Bridge: `Server::incomingConnection` as translated from /repo/src/src/server.cpp on this run is the two-mode gate of
  the model (`Tls.step … .connect`: `processed := !tls`): without a TLS configuration the plain socket is handed to
  `ServerPrivate::process` at once; with one, nothing is processed now — `process` is only connected to the TLS
  socket's `encrypted()` signal, an error deletes the socket, and the handshake is started with the configuration.
-/
namespace QhttpBridge.Srv
open Qhttp QhttpGen.Srv

theorem incomingConnection_eq (ve : Vx.Env) :
    Server_incomingConnection ve [] =
      if ve.tlsNull then [Vx.Act.newTcp, .setDescriptor, .process]
      else [Vx.Act.newSsl, .onEncryptedProcess, .onErrorDelete, .setDescriptor, .setConfig, .startEncryption] := by
  unfold Server_incomingConnection
  unfold_srv_helpers
  cases h : ve.tlsNull <;> simp [Vx.act]

/-- the HTTP layer is started on the new connection right away exactly when no TLS configuration was set: the model's
    `processed := !tls` -/
theorem processes_now_iff (ve : Vx.Env) :
    (Vx.Act.process ∈ Server_incomingConnection ve []) ↔ ve.tlsNull = true := by
  rw [incomingConnection_eq]; cases ve.tlsNull <;> simp

theorem model_connect (tls : Bool) :
    (Tls.step { tls := tls } .connect).processed = decide (Vx.Act.process ∈ Server_incomingConnection { tlsNull := !tls } []) := by
  rw [incomingConnection_eq]; cases tls <;> simp [Tls.step]

/-- with a configuration: processing waits for `encrypted()`, a failed handshake releases the socket, and the handshake
    is started on a socket that has the descriptor and the configuration — in this order -/
theorem tls_path (ve : Vx.Env) (h : ve.tlsNull = false) :
    Server_incomingConnection ve [] =
      [Vx.Act.newSsl, .onEncryptedProcess, .onErrorDelete, .setDescriptor, .setConfig, .startEncryption] := by
  rw [incomingConnection_eq, h]; rfl

end QhttpBridge.Srv
