import QhttpGen.Fs
/-
  Bridge: `FilesystemHandlerPrivate::absolutePath` as translated from /repo/src/src/filesystemhandler.cpp on this run
  is the model's containment decision `Fs.served` (C07's theorems are about the latter): it says yes exactly when
  `served` yields a location, and the absolute name it hands back is `QDir::absoluteFilePath(path)`.
-/
namespace QhttpBridge.Fs
open Qhttp QhttpGen.Fs

theorem dotdot_lit : ([46, 46] : Bytes) = Fs.DOTDOT := rfl
theorem dotdotslash_lit : ([46, 46, 47] : Bytes) = Fs.DOTDOTSLASH := rfl

/-- the model's decision as one boolean (a fact about the model alone) -/
theorem served_isSome (t : Fs.Tree) (root path : Bytes) :
    (Fs.served t root path).isSome =
      ((Fs.resolve t (Fs.absoluteFilePath root path)).isSome &&
        !(startsWith Fs.DOTDOTSLASH (Fs.relativeFilePath root path)) && !(Fs.relativeFilePath root path == Fs.DOTDOT)) := by
  unfold Fs.served
  simp only []
  split <;> rename_i h
  · simp [h]
  · cases h1 : startsWith Fs.DOTDOTSLASH (Fs.relativeFilePath root path) <;>
      cases h2 : (Fs.relativeFilePath root path == Fs.DOTDOT) <;> simp_all

theorem absolutePath_eq (fe : FsHandler.FsEnv) (path a0 : Bytes) :
    (FilesystemHandlerPrivate_absolutePath fe path a0).1 = (Fs.served fe.tree fe.root path).isSome ∧
    (FilesystemHandlerPrivate_absolutePath fe path a0).2 = Fs.absoluteFilePath fe.root path := by
  rw [served_isSome]
  unfold FilesystemHandlerPrivate_absolutePath
  unfold_fs_helpers
  simp only [dotdot_lit, dotdotslash_lit, Fx.exists]
  refine ⟨?_, ?_⟩ <;> grind

/-- where it says yes, the location served is where the absolute name leads -/
theorem served_loc (fe : FsHandler.FsEnv) (path : Bytes) (loc : List Bytes)
    (h : Fs.served fe.tree fe.root path = some loc) :
    Fs.resolve fe.tree (Fs.absoluteFilePath fe.root path) = some loc := by
  unfold Fs.served at h
  cases hr : Fs.resolve fe.tree (Fs.absoluteFilePath fe.root path) with
  | none => simp [hr] at h
  | some l => simp only [hr] at h; split at h <;> simp_all

end QhttpBridge.Fs
