import QhttpGen.Fs
/-
  Bridge: `FilesystemHandlerPrivate::absolutePath` as translated from /repo/src/src/filesystemhandler.cpp on this run
  is the model's containment decision `Fs.served` (C07's theorems are about the latter): it says yes exactly when
  `served` yields a location, and the absolute name it hands back is `QDir::absoluteFilePath(path)`.
-/
namespace QhttpBridge.Fs
open Qhttp QhttpGen.Fs

theorem dotdot_lit : ([46, 46] : Bytes) = Fs.DOTDOT := rfl
theorem dotdotslash_lit : ([46, 46, 47] : Bytes) = Fs.DOTDOTSLASH := rfl

theorem absolutePath_eq (fe : FsHandler.FsEnv) (path a0 : Bytes) :
    (FilesystemHandlerPrivate_absolutePath fe path a0).1 = (Fs.served fe.tree fe.root path).isSome ∧
    (FilesystemHandlerPrivate_absolutePath fe path a0).2 = Fs.absoluteFilePath fe.root path := by
  unfold FilesystemHandlerPrivate_absolutePath Fs.served
  unfold_fs_helpers
  simp only [dotdot_lit, dotdotslash_lit, Fx.exists]
  cases h : Fs.resolve fe.tree (Fs.absoluteFilePath fe.root path) <;> simp <;> grind

/-- where it says yes, the location served is where the absolute name leads -/
theorem served_loc (fe : FsHandler.FsEnv) (path : Bytes) (loc : List Bytes)
    (h : Fs.served fe.tree fe.root path = some loc) :
    Fs.resolve fe.tree (Fs.absoluteFilePath fe.root path) = some loc := by
  unfold Fs.served at h
  cases hr : Fs.resolve fe.tree (Fs.absoluteFilePath fe.root path) with
  | none => simp [hr] at h
  | some l => simp only [hr] at h; split at h <;> simp_all

end QhttpBridge.Fs
