import QhttpBridge.Fs.AbsolutePath
/-
  Bridge: `FilesystemHandler::process` as translated on this run takes the decision of the model's
  `FsHandler.plan`: 404 when the (twice decoded) path is not served, else a directory listing or a file transfer
  for the absolute name of the decoded path.
-/
namespace QhttpBridge.Fs
open Qhttp QhttpGen.Fs

theorem process_eq (fe : FsHandler.FsEnv) (path : Bytes) (hdrs : HeaderMap) :
    FilesystemHandler_process fe [] path =
      (match FsHandler.plan fe path hdrs with
       | .notFound => [Fx.Act.err 404]
       | .dir _ decoded => [Fx.Act.dir decoded (Fs.absoluteFilePath fe.root decoded)]
       | .file _ _ => [Fx.Act.file (Fs.absoluteFilePath fe.root (Fs.pctDecode path))]) := by
  unfold FilesystemHandler_process FsHandler.plan
  unfold_fs_helpers
  have ha := absolutePath_eq fe (Fs.pctDecode path) []
  obtain ⟨h1, h2⟩ := ha
  cases hs : Fs.served fe.tree fe.root (Fs.pctDecode path) with
  | none =>
    simp only [hs, Option.isSome_none] at h1
    simp only [Fx.rootPath, Option.isNone_some, Bool.false_eq_true, if_false, Fx.err, Fx.dir, Fx.file]
    all_goals grind
  | some loc =>
    have hr := served_loc fe (Fs.pctDecode path) loc hs
    simp only [hs, Option.isSome_some] at h1
    simp only [Fx.rootPath, Option.isNone_some, Bool.false_eq_true, if_false, Fx.err, Fx.dir, Fx.file, Fx.isDir]
    cases hk : Fs.kindAt fe.tree loc with
    | none => all_goals grind
    | some k => cases k <;> all_goals grind

end QhttpBridge.Fs
