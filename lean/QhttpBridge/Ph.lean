import QhttpGen.Ph
/-
  Bridge: `ProxyHandler::process(socket, path)` as translated from /repo/src/src/proxyhandler.cpp on this run re-parents
  the socket to the handler and creates ONE ProxySocket for it, with the routed path exactly as it was handed in (the
  model's `Proxy.Cfg.path`: nothing is stripped from or added to it) and the configured upstream address and port.
-/
namespace QhttpBridge.Ph
open Qhttp QhttpGen.Ph

theorem process_eq (path : QStr) :
    ProxyHandler_process [] path = [Vx.PAct.reparent, Vx.PAct.newProxySocket path] := by
  unfold ProxyHandler_process
  simp [Vx.pact]

/-- exactly one proxy socket, for the path as routed -/
theorem one_proxy_socket (path : QStr) :
    (ProxyHandler_process [] path).filter (fun a => match a with | .newProxySocket _ => true | _ => false) =
      [Vx.PAct.newProxySocket path] := by
  rw [process_eq]; rfl

end QhttpBridge.Ph
