import QhttpBridge.Sock.Base
import QhttpBridge.Sock.ReadHeaders
import QhttpBridge.Sock.ReadDataSlot
namespace QhttpBridge.Sock
open Qhttp QhttpGen.Sock

theorem onReadyRead_eq (env : Env) (app : App) (s : Sock) (hurl : NoBadUrl env (afterRead s)) :
    SocketPrivate_onReadyRead env app s = Sock.onReadyRead env app s := by
  unfold SocketPrivate_onReadyRead Sock.onReadyRead
  unfold_gen_helpers
  have hrh := readHeaders_eq env app (afterRead s) hurl
  rw [afterRead_eq] at hrh
  simp only [readDataSlot_eq]
  by_cases hf : s.rs = .finished
  · simp only [hf, decide_true, if_true, Cxx.tcpReadAll]
    by_cases hd : s.tcp.devOpen = true <;> simp [hd]
  · simp only [hf, decide_false, Bool.false_eq_true, if_false, Cxx.tcpReadAll]
    by_cases hd : s.tcp.devOpen = true
    · simp only [hd, if_true] at hrh ⊢
      grind
    · cases s
      simp only [Bool.not_eq_true] at hd
      simp only [hd, Bool.false_eq_true, if_false, List.append_nil] at hrh ⊢
      grind

end QhttpBridge.Sock
