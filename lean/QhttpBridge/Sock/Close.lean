import QhttpBridge.Sock.Base
namespace QhttpBridge.Sock
open Qhttp QhttpGen.Sock

theorem close_eq (s : Sock) : Socket_close s = Sock.close s := rfl

end QhttpBridge.Sock
