import QhttpBridge.Sock.Base
namespace QhttpBridge.Sock
open Qhttp QhttpGen.Sock

theorem setHeaders_eq (s : Sock) (h : HeaderMap) :
    Socket_setHeaders s h = { s with respHeaders := h } := rfl

end QhttpBridge.Sock
