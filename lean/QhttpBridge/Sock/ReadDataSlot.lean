import QhttpBridge.Sock.Base
namespace QhttpBridge.Sock
open Qhttp QhttpGen.Sock

theorem readDataSlot_eq (env : Env) (app : App) (s : Sock) :
    SocketPrivate_readData env app s = Sock.readDataSlot env app s := by
  unfold SocketPrivate_readData Sock.readDataSlot
  unfold_gen_helpers
  simp only [Cxx.emitRr, Cxx.emitRcf, Cxx.size, Cxx.truncate]
  grind

end QhttpBridge.Sock
