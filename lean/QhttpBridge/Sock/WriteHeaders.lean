import QhttpBridge.Sock.Base
namespace QhttpBridge.Sock
open Qhttp QhttpGen.Sock

theorem writeHeaders_eq (s : Sock) : Socket_writeHeaders s = Sock.writeHeaders s := by
  unfold Socket_writeHeaders Sock.writeHeaders Sock.headBytes
  unfold_gen_helpers
  simp only [headerLines_flatMap, Cxx.tcpWrite, Cxx.size, Cxx.number, lit_http, CRLF, SP, List.append_assoc, List.cons_append, List.nil_append]
  simp only [foldl_append_each, List.append_assoc, List.cons_append, List.nil_append]

end QhttpBridge.Sock
