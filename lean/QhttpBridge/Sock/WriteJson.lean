import QhttpBridge.Sock.Base
import QhttpBridge.Sock.SetStatusCode
import QhttpBridge.Sock.SetHeader
import QhttpBridge.Sock.WriteData
import QhttpBridge.Sock.Close
namespace QhttpBridge.Sock
open Qhttp QhttpGen.Sock

theorem writeJson_eq (s : Sock) (doc : Bytes) (c : Int) :
    Socket_writeJson s doc c = Sock.writeJson s doc c := by
  unfold Socket_writeJson Sock.writeJson
  unfold_gen_helpers
  simp only [setStatusCode_eq, setHeader_eq, close_eq, write_eq, number_size]
  rfl

end QhttpBridge.Sock
