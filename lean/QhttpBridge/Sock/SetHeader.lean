import QhttpBridge.Sock.Base
namespace QhttpBridge.Sock
open Qhttp QhttpGen.Sock

theorem setHeader_eq (s : Sock) (n v : Bytes) (r : Bool) :
    Socket_setHeader s n v r = Sock.setHeader s n v r := by
  unfold Socket_setHeader Sock.setHeader
  unfold_gen_helpers
  have hc := count_eq_zero_iff n s.respHeaders
  grind

end QhttpBridge.Sock
