import QhttpBridge.Sock.Base
import QhttpBridge.Sock.SetStatusCode
import QhttpBridge.Sock.SetHeader
import QhttpBridge.Sock.WriteHeaders
import QhttpBridge.Sock.Close
namespace QhttpBridge.Sock
open Qhttp QhttpGen.Sock

theorem writeRedirect_eq (s : Sock) (path : Bytes) (permanent : Bool) :
    Socket_writeRedirect s path permanent = Sock.writeRedirect s path permanent := by
  unfold Socket_writeRedirect Sock.writeRedirect
  unfold_gen_helpers
  simp only [setStatusCode_eq, setHeader_eq, writeHeaders_eq, close_eq]
  cases permanent <;> rfl

end QhttpBridge.Sock
