import QhttpBridge.Sock.Base
namespace QhttpBridge.Sock
open Qhttp QhttpGen.Sock

theorem setStatusCode_eq (s : Sock) (c : Int) (r : Option Bytes) :
    Socket_setStatusCode s c r = Sock.setStatusCode s c r := by
  cases r <;> simp [Socket_setStatusCode, Sock.setStatusCode]

end QhttpBridge.Sock
