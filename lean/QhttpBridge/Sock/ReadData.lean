import QhttpBridge.Sock.Base
namespace QhttpBridge.Sock
open Qhttp QhttpGen.Sock

theorem readData_eq (s : Sock) (n : Nat) :
    let r := Socket_readData s (n : Int)
    (r.1, r.2.1) = Sock.readData s n ∧ r.2.2 = ((Sock.readData s n).2.length : Int) := by
  unfold Socket_readData Sock.readData
  unfold_gen_helpers
  have hE : min (Cxx.size s.readBuffer) (n : Int) ≤ 0 → s.readBuffer.take n = [] := by
    intro hpos
    simp only [Cxx.size] at hpos
    have : s.readBuffer.length = 0 ∨ n = 0 := by omega
    rcases this with h0 | h0
    · rw [List.length_eq_zero_iff] at h0; simp [h0]
    · simp [h0]
  grind [left_min, removeAt_min, take_len_min]

end QhttpBridge.Sock
