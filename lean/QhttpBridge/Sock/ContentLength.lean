import QhttpBridge.Sock.Base
namespace QhttpBridge.Sock
open Qhttp QhttpGen.Sock

theorem contentLength_eq (s : Sock) : Socket_contentLength s = (Sock.takeSnap s).total := rfl

end QhttpBridge.Sock
