import QhttpBridge.Sock.Base
namespace QhttpBridge.Sock
open Qhttp QhttpGen.Sock

theorem onReadChannelFinished_eq (env : Env) (app : App) (s : Sock) :
    SocketPrivate_onReadChannelFinished env app s = Sock.onReadChannelFinished env app s := by
  unfold SocketPrivate_onReadChannelFinished Sock.onReadChannelFinished
  unfold_gen_helpers
  simp only [Cxx.emitRcf]
  grind

end QhttpBridge.Sock
