import QhttpBridge.Sock.Base
namespace QhttpBridge.Sock
open Qhttp QhttpGen.Sock

theorem isHeadersParsed_eq (s : Sock) : Socket_isHeadersParsed s = (Sock.takeSnap s).parsed := by
  unfold Socket_isHeadersParsed Sock.takeSnap
  unfold_gen_helpers
  cases h : s.rs <;> simp [Cxx.rcode]

end QhttpBridge.Sock
