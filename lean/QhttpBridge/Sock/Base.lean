import QhttpGen.Sock
import Qhttp.Lemmas.BytesLemmas
/-
  Bridge: the member functions of `SocketPrivate` and `Socket` as translated from
  /repo/src/src/socket.cpp on this run (`QhttpGen/Sock.lean`, by tools/cxx2lean_qt.py) ARE the
  functions of the hand-written model (`Qhttp/Model/Socket.lean`) that the theorems of
  C01-C04, C11, C18 and C19 are about.

  Every theorem is an equation between a translated function and the model's, for every state,
  every environment and every application.  Two statements carry a side condition, both on the
  one path where the model is knowingly coarser than the code (a request head that parses but whose
  target QUrl rejects: the C++ has stored method, raw target and headers by then, the model has
  not; no accessor is specified for a rejected request): see `readHeaders_eq`.
-/
namespace QhttpBridge.Sock
open Qhttp QhttpGen.Sock

/-! Facts about the vocabulary (`CxxPrim`) shared by the per-function bridge modules `QhttpBridge/Sock/*.lean`.
    One module per translated function: when a function is outside the translated subset on some tree, only the
    modules that mention it are skipped (tools/check.py), the others are still obligations. -/

theorem enum_codes :
    enumCodes = [("ReadHeaders", Cxx.rcode .headers), ("ReadData", Cxx.rcode .data), ("ReadFinished", Cxx.rcode .finished),
                 ("WriteNone", Cxx.wcode .none), ("WriteHeaders", Cxx.wcode .headers), ("WriteData", Cxx.wcode .data),
                 ("WriteFinished", Cxx.wcode .finished)] := by decide

theorem intText_natCast (n : Nat) : intText (n : Int) = natDigits n := by
  simp [intText]

theorem number_size (b : Bytes) : Cxx.number (Cxx.size b) = natDigits b.length := by
  simp [Cxx.number, Cxx.size, intText_natCast]

theorem foldl_append_each (f : Bytes × Bytes → Bytes) (m : HeaderMap) (acc : Bytes) :
    m.foldl (fun a e => a ++ f e) acc = acc ++ m.flatMap f := by
  induction m generalizing acc with
  | nil => simp
  | cons e m ih => simp [List.foldl_cons, ih, List.flatMap_cons, List.append_assoc]

theorem headerLines_flatMap (m : HeaderMap) :
    Sock.headerLines m = m.flatMap (fun e => e.1 ++ (58 :: 32 :: (e.2 ++ [13, 10]))) := by
  induction m with
  | nil => rfl
  | cons e m ih =>
    obtain ⟨k, v⟩ := e
    simp [Sock.headerLines, ih, List.flatMap_cons, COLON, SP, CRLF, List.append_assoc]

theorem count_eq_zero_iff (n : Bytes) (m : HeaderMap) : HeaderMap.count n m = 0 ↔ HeaderMap.contains n m = false := by
  simp only [HeaderMap.count, HeaderMap.values, HeaderMap.contains, List.length_map, List.length_eq_zero_iff,
    List.filter_eq_nil_iff, List.any_eq_false]

theorem lit_http : lit ['H','T','T','P','/','1','.','0',' '] = ([72, 84, 84, 80, 47, 49, 46, 48, 32] : Bytes) := by decide

theorem take_min_length (l : Bytes) (n : Nat) : l.take (min l.length n) = l.take n := by
  by_cases h : n ≤ l.length
  · rw [Nat.min_eq_right h]
  · have h' : l.length ≤ n := by omega
    rw [Nat.min_eq_left h', List.take_of_length_le (Nat.le_refl _), List.take_of_length_le h']

theorem drop_min_length (l : Bytes) (n : Nat) : l.drop (min l.length n) = l.drop n := by
  by_cases h : n ≤ l.length
  · rw [Nat.min_eq_right h]
  · have h' : l.length ≤ n := by omega
    rw [Nat.min_eq_left h', List.drop_eq_nil_of_le (Nat.le_refl _), List.drop_eq_nil_of_le h']

theorem left_min (l : Bytes) (n : Nat) : Cxx.left l (min (Cxx.size l) (n : Int)) = l.take n := by
  simp only [Cxx.left, Cxx.size]
  have h0 : ¬ (min (l.length : Int) (n : Int) < 0) := by omega
  have e : (min (l.length : Int) (n : Int)).toNat = min l.length n := by omega
  simp only [h0, if_false, e, take_min_length]

theorem removeAt_min (l : Bytes) (n : Nat) : Cxx.removeAt l 0 (min (Cxx.size l) (n : Int)) = l.drop n := by
  simp only [Cxx.removeAt, Cxx.size]
  by_cases hz : min (l.length : Int) (n : Int) ≤ 0
  · have : l.length = 0 ∨ n = 0 := by omega
    simp only [hz, true_or, if_true]
    rcases this with h0 | h0
    · rw [List.length_eq_zero_iff] at h0; simp [h0]
    · simp [h0]
  · have c1 : ¬ (min (l.length : Int) (n : Int) ≤ 0 ∨ (0 : Int) < 0 ∨ (0 : Int) ≥ l.length) := by omega
    have e : (min (l.length : Int) (n : Int)).toNat = min l.length n := by omega
    simp only [c1, if_false, e, Int.toNat_zero, List.take_zero, List.nil_append, Nat.zero_add, drop_min_length]

theorem take_len_min (l : Bytes) (n : Nat) : ((l.take n).length : Int) = min (Cxx.size l) (n : Int) := by
  simp only [Cxx.size, List.length_take]; omega

theorem indexOf_none {rb d : Bytes} (h : breakOn d rb = none) : Cxx.indexOf rb d = -1 := by
  simp [Cxx.indexOf, h]

theorem indexOf_some {rb d a r : Bytes} (h : breakOn d rb = some (a, r)) : Cxx.indexOf rb d = a.length := by
  simp [Cxx.indexOf, h]

theorem left_some {rb d a r : Bytes} (h : breakOn d rb = some (a, r)) : Cxx.left rb (a.length : Int) = a := by
  have e := breakOn_some h
  subst e
  have h0 : ¬ ((a.length : Int) < 0) := by omega
  simp [Cxx.left, h0]

theorem removeAt_some {rb a r : Bytes} (h : breakOn CRLF2 rb = some (a, r)) :
    Cxx.removeAt rb 0 ((a.length : Int) + 4) = r := by
  have e := breakOn_some h
  subst e
  have c1 : ¬ ((a.length : Int) + 4 ≤ 0 ∨ (0 : Int) < 0 ∨ (0 : Int) ≥ ((a ++ CRLF2 ++ r).length : Int)) := by
    simp [CRLF2]; omega
  have e2 : ((a.length : Int) + 4).toNat = a.length + 4 := by omega
  simp only [Cxx.removeAt, c1, if_false, e2, Int.toNat_zero, List.take_zero, List.nil_append, Nat.zero_add]
  simp [CRLF2, List.drop_append]

theorem crlf2_lit : ([13, 10, 13, 10] : Bytes) = CRLF2 := rfl

theorem cl_lit : ([67, 111, 110, 116, 101, 110, 116, 45, 76, 101, 110, 103, 116, 104] : Bytes) = Sock.CONTENT_LENGTH_KEY := by decide

/-- no buffered head parses to a target that QUrl rejects -/
def NoBadUrl (env : Env) (s : Sock) : Prop :=
  ∀ head rest rh, breakOn CRLF2 s.readBuffer = some (head, rest) →
    Parser.parseRequestHeaders head s.reqHeaders = some rh → env.url rh.rawPath ≠ none

/-- the state in which `onReadyRead` looks at the buffer -/
def afterRead (s : Sock) : Sock :=
  let r := Cxx.tcpReadAll s
  { r.1 with readBuffer := r.1.readBuffer ++ r.2 }

theorem afterRead_eq (s : Sock) :
    afterRead s = (if s.tcp.devOpen then { s with readBuffer := s.readBuffer ++ s.tcp.inbox, tcp := { s.tcp with inbox := [] } } else s) := by
  unfold afterRead Cxx.tcpReadAll
  by_cases h : s.tcp.devOpen = true <;> simp [h]

theorem with_readBuffer_self (s : Sock) : ({ s with readBuffer := s.readBuffer } : Sock) = s := by cases s; rfl

end QhttpBridge.Sock
