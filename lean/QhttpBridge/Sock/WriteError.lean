import QhttpBridge.Sock.Base
import QhttpBridge.Sock.SetStatusCode
import QhttpBridge.Sock.SetHeader
import QhttpBridge.Sock.WriteHeaders
import QhttpBridge.Sock.WriteData
import QhttpBridge.Sock.Close
namespace QhttpBridge.Sock
open Qhttp QhttpGen.Sock

theorem writeError_eq (env : Env) (app : App) (s : Sock) (c : Int) (r : Option Bytes) :
    Socket_writeError env app s c r = Sock.writeError env s c r := by
  unfold Socket_writeError Sock.writeError
  unfold_gen_helpers
  simp only [setStatusCode_eq, setHeader_eq, writeHeaders_eq, close_eq, write_eq, number_size]
  rfl

end QhttpBridge.Sock
