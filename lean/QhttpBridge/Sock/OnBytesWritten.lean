import QhttpBridge.Sock.Base
namespace QhttpBridge.Sock
open Qhttp QhttpGen.Sock

theorem onBytesWritten_eq (env : Env) (app : App) (s : Sock) (n : Int) :
    SocketPrivate_onBytesWritten env app s n = Sock.onBytesWritten env app s n := by
  unfold SocketPrivate_onBytesWritten Sock.onBytesWritten
  unfold_gen_helpers
  simp only [Cxx.emitBw]
  grind

end QhttpBridge.Sock
