import QhttpBridge.Sock.Base
namespace QhttpBridge.Sock
open Qhttp QhttpGen.Sock

theorem bytesAvailable_eq (s : Sock) : Socket_bytesAvailable s = (Sock.bytesAvailable s : Int) := by
  unfold Socket_bytesAvailable Sock.bytesAvailable
  unfold_gen_helpers
  cases h : s.rs <;> simp [Cxx.rcode, Cxx.size, Cxx.qioBytesAvailable]

end QhttpBridge.Sock
