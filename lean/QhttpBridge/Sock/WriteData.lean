import QhttpBridge.Sock.Base
import QhttpBridge.Sock.WriteHeaders
namespace QhttpBridge.Sock
open Qhttp QhttpGen.Sock

theorem writeData_eq (s : Sock) (data : Bytes) :
    (Socket_writeData s data).1 = Sock.tcpWrite (if s.ws = .none then Sock.writeHeaders s else s) data := by
  unfold Socket_writeData
  unfold_gen_helpers
  by_cases h : s.ws = .none <;> simp [h, writeHeaders_eq, Cxx.tcpWrite]

/-- `QIODevice::write` on the Socket, through the translated `writeData`, is the model's `write` -/
theorem write_eq (s : Sock) (data : Bytes) :
    Cxx.qioWrite (fun s b => Socket_writeData s b) s data = Sock.write s data := by
  unfold Cxx.qioWrite Sock.write
  by_cases h : s.ioOpen = true
  · simp [h, writeData_eq]
  · simp [h]

end QhttpBridge.Sock
