import QhttpBridge.Sock.Base
import QhttpBridge.Sock.WriteError
namespace QhttpBridge.Sock
open Qhttp QhttpGen.Sock

theorem readHeaders_eq (env : Env) (app : App) (s : Sock)
    (hurl : ∀ head rest rh, breakOn CRLF2 s.readBuffer = some (head, rest) →
      Parser.parseRequestHeaders head s.reqHeaders = some rh → env.url rh.rawPath ≠ none) :
    SocketPrivate_readHeaders env app s = Sock.readHeaders env app s := by
  unfold SocketPrivate_readHeaders Sock.readHeaders
  unfold_gen_helpers
  simp only [crlf2_lit, cl_lit]
  cases hb : breakOn CRLF2 s.readBuffer with
  | none => simp [indexOf_none hb]
  | some p =>
    obtain ⟨head, rest⟩ := p
    -- however the code tests "not found" (== -1, < 0, …): the index is a length
    have hlen : (0 : Int) ≤ (head.length : Int) := by omega
    simp only [indexOf_some hb, left_some hb, removeAt_some hb]
    cases hp : Parser.parseRequestHeaders head s.reqHeaders with
    | none =>
      simp only [Cxx.parseRequestHeaders, hp, writeError_eq, Cxx.viaQ, removeAt_some hb]
      all_goals grind
    | some rh =>
      cases hu : env.url rh.rawPath with
      | none => exact absurd hu (hurl head rest rh hb hp)
      | some pq =>
        obtain ⟨p, q⟩ := pq
        simp only [Cxx.parseRequestHeaders, hp, Cxx.parsePath, hu, if_true, Cxx.emitHp, Cxx.size, Cxx.truncate, removeAt_some hb]
        all_goals grind

/-- the one path on which the model is coarser than the code, exactly: the head parses, QUrl rejects
    the target.  The code has stored the parsed method, raw target and header map before it answers
    400; the model answers 400 from the untouched state.  Everything else (the response, the close,
    the `disconnected` delivery) is the same call on both sides. -/
theorem readHeaders_badUrl (env : Env) (app : App) (s : Sock) (head rest : Bytes) (rh : Parser.ReqHead)
    (hb : breakOn CRLF2 s.readBuffer = some (head, rest))
    (hp : Parser.parseRequestHeaders head s.reqHeaders = some rh) (hu : env.url rh.rawPath = none) :
    SocketPrivate_readHeaders env app s =
      (Cxx.viaQ env app (Sock.writeError env { s with method := rh.method, rawPath := rh.rawPath, reqHeaders := rh.headers } 400 none), false) ∧
    Sock.readHeaders env app s = (Cxx.viaQ env app (Sock.writeError env s 400 none), false) := by
  constructor
  · unfold SocketPrivate_readHeaders
    unfold_gen_helpers
    have hlen : (0 : Int) ≤ (head.length : Int) := by omega
    simp only [crlf2_lit, indexOf_some hb, left_some hb, Cxx.parseRequestHeaders, hp, Cxx.parsePath, hu, if_true, writeError_eq]
    all_goals grind
  · unfold Sock.readHeaders
    simp only [hb, hp, hu, Cxx.viaQ]

end QhttpBridge.Sock
