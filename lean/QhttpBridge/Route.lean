import QhttpGen.Route
/-
  Bridge: `Handler::route` as translated from /repo/src/src/handler.cpp on this run IS the model's `route` on the node
  made of this handler's middleware, redirects and sub-handlers (C05's and C06's theorems are about the latter): the three
  loops are `runMws`, `firstRedirect` and `routeSubs`, in this order, each left at the first hit.
  The proofs are inductions over the shape of the translated loops (soft obligations, see tools/props.py).
-/
namespace QhttpBridge.Route
open Qhttp QhttpGen.Route

/-- `d->subHandlers` as the model's `Subs` -/
def subsOf : List (Nat × Node) → Subs
  | [] => .nil
  | (p, c) :: r => .cons p c (subsOf r)

theorem mw_loop (re : Rx.Env) (l : List (Nat × Bool)) (s : List Act) :
    Handler_route.go1 l s = (if (runMws l).2 then none else some (), s ++ (runMws l).1) := by
  induction l generalizing s with
  | nil => simp [Handler_route.go1, runMws]
  | cons m tl ih =>
    obtain ⟨id, ok⟩ := m
    unfold Handler_route.go1
    simp only [Rx.mwProcess, runMws]
    cases ok
    · simp
    · simp only [if_true]
      rw [ih]
      cases h : (runMws tl).2 <;> simp [List.append_assoc]

theorem redirect_loop (re : Rx.Env) (path : QStr) (l : List (Nat × QStr)) (s : List Act) :
    Handler_route.go2 re path l s =
      (match firstRedirect re.matcher path l with
       | some loc => (some (), s ++ [Act.redirect re.id loc])
       | none => (none, s)) := by
  induction l generalizing s with
  | nil => simp [Handler_route.go2, firstRedirect]
  | cons r tl ih =>
    obtain ⟨pat, tmpl⟩ := r
    unfold Handler_route.go2
    delta Rx.indexIn Rx.caps Rx.redirect
    simp only [firstRedirect]
    cases hm : re.matcher pat path with
    | none => simp [ih]
    | some mt =>
      have : ¬ ((mt.idx : Int) = -1) := by omega
      simp [this]

theorem sub_loop (re : Rx.Env) (path : QStr) (l : List (Nat × Node)) (s : List Act) :
    Handler_route.go3 re path l s =
      (match routeSubs re.matcher (subsOf l) path with
       | some r => (some (), s ++ r)
       | none => (none, s)) := by
  induction l generalizing s with
  | nil => simp [Handler_route.go3, subsOf, routeSubs]
  | cons e tl ih =>
    obtain ⟨pat, child⟩ := e
    unfold Handler_route.go3
    delta Rx.indexIn Rx.matchedLength Rx.subRoute Rx.qmid
    simp only [subsOf, routeSubs]
    cases hm : re.matcher pat path with
    | none => simp [ih]
    | some mt =>
      have : ¬ ((mt.idx : Int) = -1) := by omega
      simp [this]

/-- **`Handler::route` is the model's `route`** on this node, for every matcher, every path, every list of middleware,
    redirects and sub-handlers -/
theorem route_eq (re : Rx.Env) (path : QStr) :
    Handler_route re [] path = route re.matcher (Node.mk re.id re.mws re.redirects (subsOf re.subs) re.own) path := by
  unfold Handler_route
  rw [mw_loop re]
  unfold route
  cases h : runMws re.mws with
  | mk acts go =>
    cases go
    · simp
    · simp only [if_true, List.nil_append, Bool.not_true, Bool.false_eq_true, if_false]
      rw [redirect_loop]
      cases hr : firstRedirect re.matcher path re.redirects with
      | some loc => simp
      | none =>
        simp only []
        rw [sub_loop]
        cases hs : routeSubs re.matcher (subsOf re.subs) path with
        | some r => simp
        | none => simp [Rx.process]

/-- non-vacuity -/
example : Handler_route { id := 3, mws := [(0, true)], redirects := [], subs := [], matcher := fun _ _ => none } [] [97] =
    [Act.mw 0 true, Act.process 3 [97]] := by decide

end QhttpBridge.Route
