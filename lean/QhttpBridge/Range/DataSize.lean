import QhttpBridge.Range.Base
namespace QhttpBridge.Range
open Qhttp

theorem dataSize_eq (s : QhttpGen.Range.St) : QhttpGen.Range.dataSize_ s = (conv s).size := rfl

end QhttpBridge.Range
