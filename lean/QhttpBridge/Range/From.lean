import QhttpBridge.Range.Base
namespace QhttpBridge.Range
open Qhttp

theorem from_eq (s : QhttpGen.Range.St) : QhttpGen.Range.from_ s = (conv s).absFrom := by
  obtain ⟨a, b, c⟩ := s
  simp only [QhttpGen.Range.from_, Qhttp.Range.absFrom, conv]
  grind

end QhttpBridge.Range
