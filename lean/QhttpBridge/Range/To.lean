import QhttpBridge.Range.Base
namespace QhttpBridge.Range
open Qhttp

theorem to_eq (s : QhttpGen.Range.St) : QhttpGen.Range.to_ s = (conv s).absTo := by
  obtain ⟨a, b, c⟩ := s
  simp only [QhttpGen.Range.to_, Qhttp.Range.absTo, conv]
  grind

end QhttpBridge.Range
