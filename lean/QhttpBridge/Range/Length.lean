import QhttpBridge.Range.Base
import QhttpBridge.Range.IsValid
namespace QhttpBridge.Range
open Qhttp

theorem length_eq (s : QhttpGen.Range.St) : QhttpGen.Range.length_ s = (conv s).length := by
  unfold Qhttp.Range.length QhttpGen.Range.length_
  rw [isValid_eq]
  obtain ⟨a, b, c⟩ := s
  simp only [conv]
  by_cases h : Qhttp.Range.isValid ⟨a, b, c⟩ = true
  · simp only [h]; grind
  · simp only [h]; grind

end QhttpBridge.Range
