import QhttpBridge.Range.Base
namespace QhttpBridge.Range
open Qhttp

theorem isValid_eq (s : QhttpGen.Range.St) : QhttpGen.Range.isValid_ s = (conv s).isValid := by
  obtain ⟨a, b, c⟩ := s
  simp only [QhttpGen.Range.isValid_, Qhttp.Range.isValid, conv]
  grind

end QhttpBridge.Range
