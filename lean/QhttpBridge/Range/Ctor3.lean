import QhttpBridge.Range.Base
namespace QhttpBridge.Range
open Qhttp

theorem ctor3_eq (f t s : Int) : conv (QhttpGen.Range.ctor3 f t s) = Qhttp.Range.ofNums f t s := by
  simp only [QhttpGen.Range.ctor3, Qhttp.Range.ofNums, conv]

end QhttpBridge.Range
