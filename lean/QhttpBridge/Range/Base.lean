import QhttpGen.Range
import Qhttp.Model.Range
/-
  Bridge: the functions translated from /repo/src/src/range.cpp on this run equal the hand model
  the C16/C08 theorems are about (one module per function: a function outside the translated subset on
  some tree only takes its own module out, see tools/check.py).  Automation only: a harmless rewrite of the
  C++ still yields a provably equal function; a semantic change makes one of these fail.
-/
namespace QhttpBridge.Range
open Qhttp

def conv (s : QhttpGen.Range.St) : Qhttp.Range := ⟨s.frm, s.to, s.dataSize⟩

end QhttpBridge.Range
