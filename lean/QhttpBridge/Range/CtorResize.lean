import QhttpBridge.Range.Base
namespace QhttpBridge.Range
open Qhttp

theorem ctorResize_eq (o : QhttpGen.Range.St) (s : Int) :
    conv (QhttpGen.Range.ctorResize o s) = (conv o).withSize s := by
  simp only [QhttpGen.Range.ctorResize, Qhttp.Range.withSize, conv]

end QhttpBridge.Range
