import QhttpGen.Auth
/-
  Bridge: `LocalAuthMiddleware::process` as translated from /repo/src/src/localauthmiddleware.cpp on this run admits a
  request exactly when the value of the configured header is the token, byte for byte, and otherwise answers 403
  (C17's decision `LocalAuth.admits`: name up to case, value `exact`).
-/
namespace QhttpBridge.LocalAuth
open Qhttp QhttpGen.Auth

theorem process_eq (ae : Ax.Env) :
    LocalAuthMiddleware_process ae [] =
      if HeaderMap.value ae.tokenHeader ae.hdrs == ae.token then ([], true) else ([Ax.Act.err 403], false) := by
  unfold LocalAuthMiddleware_process
  unfold_auth_helpers
  by_cases h : HeaderMap.value ae.tokenHeader ae.hdrs = ae.token <;> simp [Ax.err, h]

/-- a request without any header is refused (the token is never empty: it is a UUID) -/
theorem no_header (ae : Ax.Env) (hh : ae.hdrs = []) (ht : ae.token ≠ []) :
    LocalAuthMiddleware_process ae [] = ([Ax.Act.err 403], false) := by
  rw [process_eq, hh]
  have : HeaderMap.value ae.tokenHeader [] = [] := rfl
  rw [this]
  cases ht' : ae.token with
  | nil => exact absurd ht' ht
  | cons a l => simp

/-- a request carrying one header `(n, v)`: admitted exactly when `n` is the configured name up to case and `v` is the
    token — `LocalAuth.admits` with `TokVal.exact` read as "the same bytes" -/
theorem single_header (ae : Ax.Env) (n v : Bytes) (hh : ae.hdrs = [(n, v)]) (ht : ae.token ≠ []) :
    (LocalAuthMiddleware_process ae []).2 = (HeaderMap.keyEq n ae.tokenHeader && v == ae.token) := by
  rw [process_eq, hh]
  cases hk : HeaderMap.keyEq n ae.tokenHeader
  · have : HeaderMap.value ae.tokenHeader [(n, v)] = [] := by simp [HeaderMap.value, HeaderMap.values, hk]
    rw [this]
    cases ht' : ae.token with
    | nil => exact absurd ht' ht
    | cons a l => simp
  · have : HeaderMap.value ae.tokenHeader [(n, v)] = v := by simp [HeaderMap.value, HeaderMap.values, hk]
    rw [this]
    cases (v == ae.token) <;> simp

example : (LocalAuthMiddleware_process { tokenHeader := lit ['X','-','T'], token := lit ['{','a','}'], hdrs := [(lit ['x','-','t'], lit ['{','a','}'])] } []).2 = true := by decide
example : (LocalAuthMiddleware_process { tokenHeader := lit ['X','-','T'], token := lit ['{','a','}'], hdrs := [(lit ['x','-','t'], lit ['{','A','}'])] } []) = ([Ax.Act.err 403], false) := by decide

end QhttpBridge.LocalAuth
