-- GENERATED on every run by tools/cxx2lean.py from src/src/range.cpp — do not edit.

namespace QhttpGen.Range

/-- `RangePrivate` -/
structure St where
  frm : Int
  to : Int
  dataSize : Int
deriving DecidableEq, Repr

/-- `Range::dataSize()` -/
def dataSize_ (s : St) : Int :=
    s.dataSize

/-- `Range::isValid()` -/
def isValid_ (s : St) : Bool :=
    if (s.dataSize ≥ (0 : Int)) then
      if (s.frm < (0 : Int)) then
        if ((s.dataSize + s.frm) ≥ (0 : Int)) then
          true
        else
          false
      else
        if (s.to ≤ (-(1 : Int))) then
          if (s.frm < s.dataSize) then
            true
          else
            false
        else
          if ((s.frm ≤ s.to) ∧ (s.to < s.dataSize)) then
            true
          else
            false
    else
      if (s.frm < (0 : Int)) then
        true
      else
        if (s.to ≤ (-(1 : Int))) then
          true
        else
          if (s.frm ≤ s.to) then
            true
          else
            false

/-- `Range::from()` -/
def from_ (s : St) : Int :=
    if ((s.frm < (0 : Int)) ∧ (s.dataSize ≠ (-(1 : Int)))) then
      if ((-s.frm) ≥ s.dataSize) then
        (0 : Int)
      else
        (s.dataSize + s.frm)
    else
      if ((((s.frm > s.to) ∧ (s.to ≠ (-(1 : Int))))) ∨ (((s.frm ≥ s.dataSize) ∧ (s.dataSize ≠ (-(1 : Int)))))) then
        (0 : Int)
      else
        s.frm

/-- `Range::to()` -/
def to_ (s : St) : Int :=
    if ((s.frm < (0 : Int)) ∧ (s.dataSize ≠ (-(1 : Int)))) then
      (s.dataSize - (1 : Int))
    else
      if (((s.frm > (0 : Int)) ∧ (s.to = (-(1 : Int)))) ∧ (s.dataSize ≠ (-(1 : Int)))) then
        (s.dataSize - (1 : Int))
      else
        if ((s.frm > s.to) ∧ (s.to ≠ (-(1 : Int)))) then
          s.frm
        else
          if ((((s.to ≥ s.dataSize) ∨ (s.to = (-(1 : Int))))) ∧ (s.dataSize ≠ (-(1 : Int)))) then
            (s.dataSize - (1 : Int))
          else
            s.to

/-- `Range::length()` -/
def length_ (s : St) : Int :=
    if (¬ ((isValid_ s) = true)) then
      (-(1 : Int))
    else
      if (s.frm < (0 : Int)) then
        (-(s.frm))
      else
        if (s.to ≥ (0 : Int)) then
          ((s.to - s.frm) + (1 : Int))
        else
          if (s.dataSize ≥ (0 : Int)) then
            (s.dataSize - s.frm)
          else
            (-(1 : Int))

/-- `Range::Range(qint64 from, qint64 to, qint64 dataSize)` -/
def ctor3 (frm_in to_in dataSize_in : Int) : St :=
    let frm : Int := frm_in
    let to : Int := (if (to_in < (0 : Int)) then (-(1 : Int)) else to_in)
    let dataSize : Int := (if (dataSize_in < (0 : Int)) then (-(1 : Int)) else dataSize_in)
    { frm := frm, to := to, dataSize := dataSize }

/-- `Range::Range(const Range &other, qint64 dataSize)` -/
def ctorResize (o : St) (dataSize_in : Int) : St :=
    let frm : Int := o.frm
    let to : Int := o.to
    let dataSize : Int := dataSize_in
    { frm := frm, to := to, dataSize := dataSize }

end QhttpGen.Range
