-- GENERATED on every run by tools/cxx2lean.py from src/src/socket.cpp — do not edit.

namespace QhttpGen.Ack

/-- values of the write-state enum of `SocketPrivate` -/
def WriteNone : Int := 0
def WriteHeaders : Int := 1
def WriteData : Int := 2
def WriteFinished : Int := 3

structure St where
  writeState : Int
  responseHeaderRemaining : Int

/-- `SocketPrivate::onBytesWritten(bytes)`: new writeState, new responseHeaderRemaining, emitted counts -/
def onBytesWritten (s : St) (bytes : Int) : Int × Int × List Int :=
    if (s.writeState = (1 : Int)) then
      if ((s.responseHeaderRemaining - bytes) > (0 : Int)) then
        let responseHeaderRemaining : Int := (s.responseHeaderRemaining - bytes)
        if (s.writeState = (2 : Int)) then
          let emits : List Int := ([] : List Int) ++ [bytes]
          (s.writeState, responseHeaderRemaining, emits)
        else
          (s.writeState, responseHeaderRemaining, ([] : List Int))
      else
        let writeState : Int := (2 : Int)
        let bytes : Int := (bytes - s.responseHeaderRemaining)
        if (writeState = (2 : Int)) then
          let emits : List Int := ([] : List Int) ++ [bytes]
          (writeState, s.responseHeaderRemaining, emits)
        else
          (writeState, s.responseHeaderRemaining, ([] : List Int))
    else
      if (s.writeState = (2 : Int)) then
        let emits : List Int := ([] : List Int) ++ [bytes]
        (s.writeState, s.responseHeaderRemaining, emits)
      else
        (s.writeState, s.responseHeaderRemaining, ([] : List Int))

end QhttpGen.Ack
