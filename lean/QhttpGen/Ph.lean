-- GENERATED on every run by tools/cxx2lean_qt.py from src/src/proxyhandler.cpp — do not edit.
import Qhttp.Model.VxPrim
set_option linter.unusedVariables false

namespace QhttpGen.Ph
open Qhttp

/-- `ProxyHandler::process` -/
def ProxyHandler_process (s : List Vx.PAct) (path : QStr) : List Vx.PAct :=
  let s := Vx.pact s Vx.PAct.reparent
  let s := Vx.pact s (Vx.PAct.newProxySocket path)
  s

end QhttpGen.Ph
