-- GENERATED on every run by tools/cxx2lean_qt.py from src/src/basicauthmiddleware.cpp and localauthmiddleware.cpp — do not edit.
import Qhttp.Model.AxPrim
set_option linter.unusedVariables false

namespace QhttpGen.Auth
open Qhttp

/-- `BasicAuthMiddleware::verify` -/
def BasicAuthMiddleware_verify (ae : Ax.Env) (s : List Ax.Act) (username : Bytes) (password : Bytes) : Bool :=
  ((Ax.mapContains ae.table username) && ((Ax.mapValue ae.table username) == password))

/-- `BasicAuthMiddleware::process` -/
def BasicAuthMiddleware_process (ae : Ax.Env) (s : List Ax.Act) : List Ax.Act × Bool :=
  let headerParts : List Bytes := (Qhttp.splitChar 32 (HeaderMap.value ([65, 117, 116, 104, 111, 114, 105, 122, 97, 116, 105, 111, 110] : Bytes) ae.hdrs))
  if ((decide ((Cxx.count headerParts) = (2 : Int))) && (Ax.ieq (Cxx.nth headerParts (0 : Int)) ([66, 97, 115, 105, 99] : Bytes))) then
    let parts : List Bytes := []
    let parts := Ax.parserSplit (BasicAuth.fromBase64 (Cxx.nth headerParts (1 : Int))) ([58] : Bytes) (1 : Int) parts
    if (decide ((Cxx.count parts) = (2 : Int))) then
      let username : Bytes := (ae.round (Cxx.nth parts (0 : Int)))
      let password : Bytes := (ae.round (Cxx.nth parts (1 : Int)))
      if (((username == (Cxx.nth parts (0 : Int))) && (password == (Cxx.nth parts (1 : Int)))) && (BasicAuthMiddleware_verify ae s username password)) then
        (s, true)
      else
        let s := Ax.setHeader s ([87, 87, 87, 45, 65, 117, 116, 104, 101, 110, 116, 105, 99, 97, 116, 101] : Bytes) (Ax.arg1 ([66, 97, 115, 105, 99, 32, 114, 101, 97, 108, 109, 61, 34, 37, 49, 34] : Bytes) ae.realm)
        let s := Ax.err s (401 : Int)
        (s, false)
    else
      let s := Ax.setHeader s ([87, 87, 87, 45, 65, 117, 116, 104, 101, 110, 116, 105, 99, 97, 116, 101] : Bytes) (Ax.arg1 ([66, 97, 115, 105, 99, 32, 114, 101, 97, 108, 109, 61, 34, 37, 49, 34] : Bytes) ae.realm)
      let s := Ax.err s (401 : Int)
      (s, false)
  else
    let s := Ax.setHeader s ([87, 87, 87, 45, 65, 117, 116, 104, 101, 110, 116, 105, 99, 97, 116, 101] : Bytes) (Ax.arg1 ([66, 97, 115, 105, 99, 32, 114, 101, 97, 108, 109, 61, 34, 37, 49, 34] : Bytes) ae.realm)
    let s := Ax.err s (401 : Int)
    (s, false)

/-- `LocalAuthMiddleware::process` -/
def LocalAuthMiddleware_process (ae : Ax.Env) (s : List Ax.Act) : List Ax.Act × Bool :=
  if ((HeaderMap.value ae.tokenHeader ae.hdrs) != ae.token) then
    let s := Ax.err s (403 : Int)
    (s, false)
  else
    (s, true)

end QhttpGen.Auth

macro "unfold_auth_helpers" : tactic => `(tactic| skip)
