-- GENERATED on every run by tools/cxx2lean_qt.py from src/src/socket.cpp — do not edit.
import Qhttp.Model.CxxPrim
set_option linter.unusedVariables false

namespace QhttpGen.Sock
open Qhttp

/-- declaration order of the private state enums, as read from socket_p.h -/
def enumCodes : List (String × Int) :=
  [("ReadHeaders", 0), ("ReadData", 1), ("ReadFinished", 2), ("WriteNone", 0), ("WriteHeaders", 1), ("WriteData", 2), ("WriteFinished", 3)]

/-- `Socket::setStatusCode` -/
def Socket_setStatusCode (s : Sock) (statusCode : Int) (statusReason : Option Bytes) : Sock :=
  let s := { s with code := statusCode }
  let s := { s with reason := (if statusReason.isNone then (Qhttp.statusReason statusCode) else (statusReason.getD [])) }
  s

/-- `Socket::setHeader` -/
def Socket_setHeader (s : Sock) (name : Bytes) (value : Bytes) (replace : Bool) : Sock :=
  let s :=
    if (replace || (!(decide (((HeaderMap.count name s.respHeaders : Nat) : Int) ≠ 0)))) then
      let s := { s with respHeaders := (HeaderMap.remove name s.respHeaders) }
      let s := { s with respHeaders := (HeaderMap.insert name value s.respHeaders) }
      s
    else
      let s := { s with respHeaders := (HeaderMap.replace name (((HeaderMap.value name s.respHeaders) ++ ([44, 32] : Bytes)) ++ value) s.respHeaders) }
      s
  s

/-- `Socket::writeHeaders` -/
def Socket_writeHeaders (s : Sock) : Sock :=
  let header : Bytes := []
  let header : Bytes := (header ++ ([72, 84, 84, 80, 47, 49, 46, 48, 32] : Bytes))
  let header : Bytes := (header ++ (((Cxx.number s.code) ++ ([32] : Bytes)) ++ s.reason))
  let header : Bytes := (header ++ ([13, 10] : Bytes))
  let header : Bytes := s.respHeaders.foldl (fun header e =>
      let header : Bytes := (header ++ e.1)
      let header : Bytes := (header ++ ([58, 32] : Bytes))
      let header : Bytes := (header ++ e.2)
      let header : Bytes := (header ++ ([13, 10] : Bytes))
      header) header
  let header : Bytes := (header ++ ([13, 10] : Bytes))
  let s := { s with ws := WState.headers }
  let s := { s with hdrRemaining := (Cxx.size header) }
  let (s, t5) := Cxx.tcpWrite s header
  s

/-- `Socket::writeData` -/
def Socket_writeData (s : Sock) (data : Bytes) : Sock × Int :=
  let s :=
    if (decide (s.ws = WState.none)) then
      let s := Socket_writeHeaders s
      s
    else
      s
  let (s, t6) := Cxx.tcpWrite s data
  (s, t6)

/-- `Socket::close` -/
def Socket_close (s : Sock) : Sock :=
  let s := Cxx.qioClose s
  let s := { s with rs := RState.finished }
  let s := { s with ws := WState.finished }
  let s := Cxx.connectDisconnectedDeleteLater s
  let s := Cxx.tcpClose s
  s

/-- `Socket::writeError` -/
def Socket_writeError (env : Env) (app : App) (s : Sock) (statusCode : Int) (statusReason : Option Bytes) : Sock :=
  let s := Socket_setStatusCode s statusCode statusReason
  let data : Bytes := (env.errPage s.code s.reason)
  let s := Socket_setHeader s ([67, 111, 110, 116, 101, 110, 116, 45, 76, 101, 110, 103, 116, 104] : Bytes) (Cxx.number (Cxx.size data)) true
  let s := Socket_setHeader s ([67, 111, 110, 116, 101, 110, 116, 45, 84, 121, 112, 101] : Bytes) ([116, 101, 120, 116, 47, 104, 116, 109, 108] : Bytes) true
  let s := Socket_writeHeaders s
  let s := Cxx.qioWrite (fun s b => Socket_writeData s b) s data
  let s := Socket_close s
  s

/-- `SocketPrivate::readHeaders` -/
def SocketPrivate_readHeaders (env : Env) (app : App) (s : Sock) : Sock × Bool :=
  let index : Int := (Cxx.indexOf s.readBuffer ([13, 10, 13, 10] : Bytes))
  if (decide (index = (-(1 : Int)))) then
    (s, false)
  else
    let (s, t3) := Cxx.parseRequestHeaders s (Cxx.left s.readBuffer index)
    if t3 then
      let (s, t4) := Cxx.parsePath env s s.rawPath
      if t4 then
        let s := { s with readBuffer := (Cxx.removeAt s.readBuffer (0 : Int) (index + (4 : Int))) }
        let s := { s with rs := RState.data }
        let s :=
          if (HeaderMap.contains ([67, 111, 110, 116, 101, 110, 116, 45, 76, 101, 110, 103, 116, 104] : Bytes) s.reqHeaders) then
            let s := { s with total := (Qhttp.toLongLong (HeaderMap.value ([67, 111, 110, 116, 101, 110, 116, 45, 76, 101, 110, 103, 116, 104] : Bytes) s.reqHeaders)) }
            let s :=
              if ((decide (s.total ≥ (0 : Int))) && (decide ((Cxx.size s.readBuffer) > s.total))) then
                let s := { s with readBuffer := (Cxx.truncate s.readBuffer s.total) }
                s
              else
                s
            s
          else
            s
        let s := Cxx.emitHp env app s
        (s, true)
      else
        let s := Socket_writeError env app s (400 : Int) none
        let s := Cxx.viaQ env app s
        (s, false)
    else
      let s := Socket_writeError env app s (400 : Int) none
      let s := Cxx.viaQ env app s
      (s, false)

/-- `SocketPrivate::readData` -/
def SocketPrivate_readData (env : Env) (app : App) (s : Sock) : Sock :=
  let s :=
    if ((decide (s.total ≥ (0 : Int))) && (decide ((s.dataRead + (Cxx.size s.readBuffer)) > s.total))) then
      let s := { s with readBuffer := (Cxx.truncate s.readBuffer (s.total - s.dataRead)) }
      s
    else
      s
  let s :=
    if (decide ((Cxx.size s.readBuffer) ≠ 0)) then
      let s := Cxx.emitRr env app s
      s
    else
      s
  let s :=
    if ((decide (s.total ≠ (-(1 : Int)))) && (decide ((s.dataRead + (Cxx.size s.readBuffer)) ≥ s.total))) then
      let s := { s with rs := RState.finished }
      let s := Cxx.emitRcf env app s
      s
    else
      s
  s

/-- `SocketPrivate::onReadyRead` -/
def SocketPrivate_onReadyRead (env : Env) (app : App) (s : Sock) : Sock :=
  if (decide (s.rs = RState.finished)) then
    let (s, t1) := Cxx.tcpReadAll s
    s
  else
    let (s, t2) := Cxx.tcpReadAll s
    let s := { s with readBuffer := (s.readBuffer ++ t2) }
    if (decide (s.rs = RState.headers)) then
      let (s, t7) := SocketPrivate_readHeaders env app s
      if t7 then
        let s :=
          if (decide (s.rs = RState.data)) then
            let s := SocketPrivate_readData env app s
            s
          else
            if (decide (s.rs = RState.finished)) then
              let s := { s with readBuffer := ([] : Bytes) }
              s
            else
              s
        s
      else
        s
    else
      let s :=
        if (decide (s.rs = RState.data)) then
          let s := SocketPrivate_readData env app s
          s
        else
          if (decide (s.rs = RState.finished)) then
            let s := { s with readBuffer := ([] : Bytes) }
            s
          else
            s
      s

/-- `SocketPrivate::onBytesWritten` -/
def SocketPrivate_onBytesWritten (env : Env) (app : App) (s : Sock) (bytes : Int) : Sock :=
  let (s, bytes) :=
    if (decide (s.ws = WState.headers)) then
      let (s, bytes) :=
        if (decide ((s.hdrRemaining - bytes) > (0 : Int))) then
          let s := { s with hdrRemaining := (s.hdrRemaining - bytes) }
          (s, bytes)
        else
          let s := { s with ws := WState.data }
          let bytes : Int := (bytes - s.hdrRemaining)
          (s, bytes)
      (s, bytes)
    else
      (s, bytes)
  let s :=
    if (decide (s.ws = WState.data)) then
      let s := Cxx.emitBw env app s bytes
      s
    else
      s
  s

/-- `SocketPrivate::onReadChannelFinished` -/
def SocketPrivate_onReadChannelFinished (env : Env) (app : App) (s : Sock) : Sock :=
  let s :=
    if (decide (s.total = (-(1 : Int)))) then
      let s := Cxx.emitRcf env app s
      s
    else
      s
  s

/-- `Socket::bytesAvailable` -/
def Socket_bytesAvailable (s : Sock) : Int :=
  if (decide (Cxx.rcode s.rs > Cxx.rcode RState.headers)) then
    ((Cxx.size s.readBuffer) + (Cxx.qioBytesAvailable s))
  else
    (0 : Int)

/-- `Socket::isHeadersParsed` -/
def Socket_isHeadersParsed (s : Sock) : Bool :=
  (decide (Cxx.rcode s.rs > Cxx.rcode RState.headers))

/-- `Socket::contentLength` -/
def Socket_contentLength (s : Sock) : Int :=
  s.total

/-- `Socket::setHeaders` -/
def Socket_setHeaders (s : Sock) (headers : HeaderMap) : Sock :=
  let s := { s with respHeaders := headers }
  s

/-- `Socket::writeRedirect` -/
def Socket_writeRedirect (s : Sock) (path : Bytes) (permanent : Bool) : Sock :=
  let s := Socket_setStatusCode s (if permanent then (301 : Int) else (302 : Int)) none
  let s := Socket_setHeader s ([76, 111, 99, 97, 116, 105, 111, 110] : Bytes) path true
  let s := Socket_writeHeaders s
  let s := Socket_close s
  s

/-- `Socket::writeJson` -/
def Socket_writeJson (s : Sock) (document : Bytes) (statusCode : Int) : Sock :=
  let data : Bytes := document
  let s := Socket_setStatusCode s statusCode none
  let s := Socket_setHeader s ([67, 111, 110, 116, 101, 110, 116, 45, 76, 101, 110, 103, 116, 104] : Bytes) (Cxx.number (Cxx.size data)) true
  let s := Socket_setHeader s ([67, 111, 110, 116, 101, 110, 116, 45, 84, 121, 112, 101] : Bytes) ([97, 112, 112, 108, 105, 99, 97, 116, 105, 111, 110, 47, 106, 115, 111, 110] : Bytes) true
  let s := Cxx.qioWrite (fun s b => Socket_writeData s b) s data
  let s := Socket_close s
  s

/-- `Socket::readData` -/
def Socket_readData (s : Sock) (maxlen : Int) : Sock × Bytes × Int :=
  let data : Bytes := []
  if (decide (s.rs = RState.headers)) then
    (s, data, (0 : Int))
  else
    let size : Int := (min (Cxx.size s.readBuffer) maxlen)
    let data :=
      if (decide (size > (0 : Int))) then
        let data : Bytes := (Cxx.left s.readBuffer size)
        data
      else
        data
    let s := { s with readBuffer := (Cxx.removeAt s.readBuffer (0 : Int) size) }
    let s := { s with dataRead := (s.dataRead + size) }
    (s, data, size)

end QhttpGen.Sock

/-- unfolds the functions the translation produced besides the interface functions (helpers introduced
    by the C++: private methods, file-scope functions); the bridge proofs start with it -/
macro "unfold_gen_helpers" : tactic => `(tactic| skip)
