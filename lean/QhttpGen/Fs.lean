-- GENERATED on every run by tools/cxx2lean_qt.py from src/src/filesystemhandler.cpp — do not edit.
import Qhttp.Model.FxPrim
set_option linter.unusedVariables false

namespace QhttpGen.Fs
open Qhttp

/-- `FilesystemHandlerPrivate::absolutePath` -/
def FilesystemHandlerPrivate_absolutePath (fe : FsHandler.FsEnv) (path : Bytes) (absolutePath : Bytes) : Bool × Bytes :=
  let absolutePath : Bytes := (Fs.absoluteFilePath fe.root path)
  let relativePath : Bytes := (Fs.relativeFilePath fe.root path)
  ((((Fx.exists fe absolutePath) && (relativePath != ([46, 46] : Bytes))) && (!(Qhttp.startsWith ([46, 46, 47] : Bytes) relativePath))), absolutePath)

/-- `FilesystemHandler::process` -/
def FilesystemHandler_process (fe : FsHandler.FsEnv) (s : List Fx.Act) (path : Bytes) : List Fx.Act :=
  if (Fx.rootPath fe).isNone then
    let s := Fx.err s (500 : Int)
    s
  else
    let decodedPath : Bytes := (Fs.pctDecode path)
    let absolutePath : Bytes := []
    let (t1, absolutePath) := FilesystemHandlerPrivate_absolutePath fe decodedPath absolutePath
    if t1 then
      let s :=
        if (Fx.isDir fe absolutePath) then
          let s := Fx.dir s decodedPath absolutePath
          s
        else
          let s := Fx.file s absolutePath
          s
      s
    else
      let s := Fx.err s (404 : Int)
      s

end QhttpGen.Fs

macro "unfold_fs_helpers" : tactic => `(tactic| skip)
