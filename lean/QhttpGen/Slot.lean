-- GENERATED on every run by tools/cxx2lean_qt.py from src/src/qobjecthandler.cpp — do not edit.
import Qhttp.Model.SxPrim
set_option linter.unusedVariables false

namespace QhttpGen.Slot
open Qhttp

/-- `QObjectHandler::process` -/
def QObjectHandler_process (se : Sx.Env) (s : List Sx.Act) (path : QStr) : List Sx.Act :=
  if (!(Sx.mapContains se.regs path)) then
    let s := Sx.err s (404 : Int)
    s
  else
    let m : SlotHandler.Reg := (Sx.mapValue se.regs path)
    let s :=
      if ((!m.readAll) || (decide ((Sx.bytesAvailable se) ≥ (Sx.contentLength se)))) then
        let s := Sx.invoke s m
        s
      else
        let s := Sx.defer s m
        s
    s

end QhttpGen.Slot

macro "unfold_slot_helpers" : tactic => `(tactic| skip)
