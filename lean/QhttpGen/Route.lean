-- GENERATED on every run by tools/cxx2lean_qt.py from src/src/handler.cpp — do not edit.
import Qhttp.Model.RxPrim
set_option linter.unusedVariables false

namespace QhttpGen.Route
open Qhttp

/-- `Handler::route` -/
def Handler_route (re : Rx.Env) (s : List Act) (path : QStr) : List Act :=
  let rec go1 (l_ : List (Nat × Bool)) (s : List Act) : Option Unit × List Act :=
    match l_ with
    | [] => (none, s)
    | middleware :: tl_ =>
      let (s, t1) := Rx.mwProcess s middleware
      if t1 then
        go1 tl_ s
      else
        ((some ()), s)
  match go1 re.mws s with
  | (some r_, s) => s
  | (none, s) =>
    let rec go2 (l_ : List (Nat × QStr)) (s : List Act) : Option Unit × List Act :=
      match l_ with
      | [] => (none, s)
      | redirect :: tl_ =>
        if (decide ((Rx.indexIn re redirect.1 path) ≠ (-(1 : Int)))) then
          let newPath : QStr := (Qhttp.substitute redirect.2 (Rx.caps re redirect.1 path))
          let s := Rx.redirect s re newPath
          ((some ()), s)
        else
          go2 tl_ s
    match go2 re.redirects s with
    | (some r_, s) => s
    | (none, s) =>
      let rec go3 (l_ : List (Nat × Node)) (s : List Act) : Option Unit × List Act :=
        match l_ with
        | [] => (none, s)
        | subHandler :: tl_ =>
          if (decide ((Rx.indexIn re subHandler.1 path) ≠ (-(1 : Int)))) then
            let s := Rx.subRoute s re subHandler.2 (Rx.qmid path (Rx.matchedLength re subHandler.1 path))
            ((some ()), s)
          else
            go3 tl_ s
      match go3 re.subs s with
      | (some r_, s) => s
      | (none, s) =>
        let s := Rx.process s re path
        s

end QhttpGen.Route
