-- GENERATED on every run by tools/cxx2lean_qt.py from src/src/proxysocket.cpp — do not edit.
import Qhttp.Model.PxPrim
set_option linter.unusedVariables false

namespace QhttpGen.Proxy
open Qhttp

/-- `ProxySocket::onDownstreamReadyRead` -/
def ProxySocket_onDownstreamReadyRead (env : Env) (s : Proxy.St) (dsChunk : Bytes) : Proxy.St :=
  let s :=
    if s.headersWritten then
      let s := Px.upWrite s dsChunk
      s
    else
      let s := { s with buf := (s.buf ++ dsChunk) }
      s
  s

/-- `ProxySocket::onUpstreamReadyRead` -/
def ProxySocket_onUpstreamReadyRead (env : Env) (s : Proxy.St) (upChunk : Bytes) : Proxy.St :=
  if (!s.headersParsed) then
    let s := { s with upRead := (s.upRead ++ upChunk) }
    let index : Int := (Cxx.indexOf s.upRead ([13, 10, 13, 10] : Bytes))
    if (decide (index ≠ (-(1 : Int)))) then
      let statusCode : Int := 0
      let statusReason : Bytes := []
      let headers : HeaderMap := []
      let (t1, statusCode, statusReason, headers) := Px.parseResponseHeaders (Cxx.left s.upRead index) statusCode statusReason headers
      if t1 then
        let s := Px.dsSetStatusCode env s statusCode statusReason
        let s := Px.dsSetHeaders s headers
        let s := Px.dsWriteHeaders env s
        let s := Px.dsWrite env s (Cxx.mid s.upRead (index + (4 : Int)) (-1))
        let s := { s with headersParsed := true }
        let s := { s with upRead := ([] : Bytes) }
        s
      else
        let s := Px.dsWriteError env s (502 : Int)
        s
    else
      s
  else
    let s := Px.dsWrite env s upChunk
    s

/-- `ProxySocket::onUpstreamError` -/
def ProxySocket_onUpstreamError (env : Env) (s : Proxy.St) : Proxy.St :=
  let s :=
    if s.headersParsed then
      let s := Px.dsClose env s
      s
    else
      let s := Px.dsWriteError env s (502 : Int)
      s
  s

end QhttpGen.Proxy

macro "unfold_proxy_helpers" : tactic => `(tactic| skip)
