-- GENERATED on every run by tools/cxx2lean_qt.py from src/src/proxysocket.cpp — do not edit.
import Qhttp.Model.PxPrim
set_option linter.unusedVariables false

namespace QhttpGen.Proxy
open Qhttp

/-- `ProxySocket::onDownstreamReadyRead` -/
def ProxySocket_onDownstreamReadyRead (env : Env) (s : Proxy.St) (dsChunk : Bytes) : Proxy.St :=
  let s :=
    if s.headersWritten then
      let s := Px.upWrite s dsChunk
      s
    else
      let s := { s with buf := (s.buf ++ dsChunk) }
      s
  s

/-- `ProxySocket::onUpstreamReadyRead` -/
def ProxySocket_onUpstreamReadyRead (env : Env) (s : Proxy.St) (upChunk : Bytes) : Proxy.St :=
  if (!s.headersParsed) then
    let s := { s with upRead := (s.upRead ++ upChunk) }
    let index : Int := (Cxx.indexOf s.upRead ([13, 10, 13, 10] : Bytes))
    if (decide (index ≠ (-(1 : Int)))) then
      let statusCode : Int := 0
      let statusReason : Bytes := []
      let headers : HeaderMap := []
      let (t1, statusCode, statusReason, headers) := Px.parseResponseHeaders (Cxx.left s.upRead index) statusCode statusReason headers
      if t1 then
        let s := Px.dsSetStatusCode env s statusCode statusReason
        let s := Px.dsSetHeaders s headers
        let s := Px.dsWriteHeaders env s
        let s := Px.dsWrite env s (Cxx.mid s.upRead (index + (4 : Int)) (-1))
        let s := { s with headersParsed := true }
        let s := { s with upRead := ([] : Bytes) }
        s
      else
        let s := Px.dsWriteError env s (502 : Int)
        s
    else
      s
  else
    let s := Px.dsWrite env s upChunk
    s

/-- `ProxySocket::onUpstreamError` -/
def ProxySocket_onUpstreamError (env : Env) (s : Proxy.St) : Proxy.St :=
  let s :=
    if s.headersParsed then
      let s := Px.dsClose env s
      s
    else
      let s := Px.dsWriteError env s (502 : Int)
      s
  s

/-- `ProxySocket::onUpstreamConnected` -/
def ProxySocket_onUpstreamConnected (c : Proxy.Cfg) (s : Proxy.St) (fuel : Nat) : Proxy.St :=
  let target : Bytes := (([47] : Bytes) ++ (pctEncode Proxy.pathKeep c.path))
  let rawPath : Bytes := s.sock.rawPath
  let queryIndex : Int := (Cxx.indexOf rawPath ([63] : Bytes))
  let target :=
    if (decide (queryIndex ≠ (-(1 : Int)))) then
      let target : Bytes := (target ++ (pctEncode Proxy.queryKeep (Cxx.mid rawPath queryIndex (-1))))
      target
    else
      target
  let s := Px.upWrite s ((((Proxy.methodToString ((s.sock.method : Nat) : Int).toNat) ++ ([32] : Bytes)) ++ target) ++ ([32, 72, 84, 84, 80, 47, 49, 46, 49, 13, 10] : Bytes))
  let headers : HeaderMap := s.sock.reqHeaders
  let peerIP : Bytes := c.peerIP
  let fwd : List Bytes := (HeaderMap.values ([88, 45, 70, 111, 114, 119, 97, 114, 100, 101, 100, 45, 70, 111, 114] : Bytes) headers)
  let headers :=
    if (fwd.isEmpty) then
      let headers : HeaderMap := (HeaderMap.insert ([88, 45, 70, 111, 114, 119, 97, 114, 100, 101, 100, 45, 70, 111, 114] : Bytes) peerIP headers)
      headers
    else
      let combined : Bytes := []
      let i : Int := ((Cxx.count fwd) - (1 : Int))
      let rec go1 (fuel : Nat) (combined : Bytes) (i : Int) : Option Unit × Bytes × Int :=
        match fuel with
        | 0 => (none, combined, i)
        | fuel + 1 =>
          if (decide (i ≥ (0 : Int))) then
            let combined : Bytes := (combined ++ ((Cxx.nth fwd i) ++ ([44, 32] : Bytes)))
            let i : Int := (i - 1)
            go1 fuel combined i
          else
            (none, combined, i)
      match go1 fuel combined i with
      | (_, combined, i) =>
        let headers : HeaderMap := (HeaderMap.remove ([88, 45, 70, 111, 114, 119, 97, 114, 100, 101, 100, 45, 70, 111, 114] : Bytes) headers)
        let headers : HeaderMap := (HeaderMap.insert ([88, 45, 70, 111, 114, 119, 97, 114, 100, 101, 100, 45, 70, 111, 114] : Bytes) (combined ++ peerIP) headers)
        headers
  let headers :=
    if (!(HeaderMap.contains ([88, 45, 82, 101, 97, 108, 45, 73, 80] : Bytes) headers)) then
      let headers : HeaderMap := (HeaderMap.insert ([88, 45, 82, 101, 97, 108, 45, 73, 80] : Bytes) peerIP headers)
      headers
    else
      headers
  let s := headers.foldl (fun s e =>
      let s := Px.upWrite s (((e.1 ++ ([58, 32] : Bytes)) ++ e.2) ++ ([13, 10] : Bytes))
      s) s
  let s := Px.upWrite s ([13, 10] : Bytes)
  let s := { s with headersWritten := true }
  let s :=
    if (decide ((Cxx.size s.buf) ≠ 0)) then
      let s := Px.upWrite s s.buf
      let s := { s with buf := ([] : Bytes) }
      s
    else
      s
  s

end QhttpGen.Proxy

macro "unfold_proxy_helpers" : tactic => `(tactic| skip)
