-- GENERATED on every run by tools/cxx2lean_qt.py from src/src/parser.cpp — do not edit.
import Qhttp.Model.CxxPrim
set_option linter.unusedVariables false

namespace QhttpGen.Parser
open Qhttp

/-- `Parser::split` -/
def Parser_split (fuel : Nat) (data : Bytes) (delim : Bytes) (maxSplit : Int) (parts : List Bytes) : List Bytes :=
  let index : Int := (0 : Int)
  let i : Int := (0 : Int)
  let rec go1 (fuel : Nat) (i : Int) (index : Int) (parts : List Bytes) : Option Unit × Int × Int × List Bytes :=
    match fuel with
    | 0 => (none, i, index, parts)
    | fuel + 1 =>
      if ((!(decide (maxSplit ≠ 0))) || (decide (i < maxSplit))) then
        let nextIndex : Int := (Cxx.indexOfFrom data delim index)
        if (decide (nextIndex = (-(1 : Int)))) then
          (none, i, index, parts)
        else
          let parts : List Bytes := (parts ++ [(Cxx.mid data index (nextIndex - index))])
          let index : Int := (nextIndex + (Cxx.size delim))
          let i : Int := (i + 1)
          go1 fuel i index parts
      else
        (none, i, index, parts)
  match go1 fuel i index parts with
  | (_, i, index, parts) =>
    let parts : List Bytes := (parts ++ [(Cxx.mid data index (-1))])
    parts

/-- `Parser::parseHeaderList` -/
def Parser_parseHeaderList (fuel : Nat) (lines : List Bytes) (headers : HeaderMap) : Bool × HeaderMap :=
  let rec go1 (l_ : List Bytes) (headers : HeaderMap) : Option Bool × HeaderMap :=
    match l_ with
    | [] => (none, headers)
    | line :: tl_ =>
      let parts : List Bytes := []
      let parts := Parser_split fuel line ([58] : Bytes) (1 : Int) parts
      if (decide ((Cxx.count parts) ≠ (2 : Int))) then
        ((some false), headers)
      else
        if ((Qhttp.trim (Cxx.nth parts (0 : Int))).isEmpty) then
          ((some false), headers)
        else
          let headers : HeaderMap := (HeaderMap.insert (Qhttp.trim (Cxx.nth parts (0 : Int))) (Qhttp.trim (Cxx.nth parts (1 : Int))) headers)
          go1 tl_ headers
  match go1 lines headers with
  | (some r_, headers) => (r_, headers)
  | (none, headers) =>
    (true, headers)

/-- `Parser::parseHeaders` -/
def Parser_parseHeaders (fuel : Nat) (data : Bytes) (parts : List Bytes) (headers : HeaderMap) : Bool × List Bytes × HeaderMap :=
  let lines : List Bytes := []
  let lines := Parser_split fuel data ([13, 10] : Bytes) (0 : Int) lines
  let (t1, lines) := Cxx.takeFirst lines
  let parts := Parser_split fuel t1 ([32] : Bytes) (2 : Int) parts
  if (decide ((Cxx.count parts) ≠ (3 : Int))) then
    (false, parts, headers)
  else
    let (t2, headers) := Parser_parseHeaderList fuel lines headers
    (t2, parts, headers)

/-- `Parser::parseRequestHeaders` -/
def Parser_parseRequestHeaders (fuel : Nat) (data : Bytes) (method : Int) (path : Bytes) (headers : HeaderMap) : Bool × Int × Bytes × HeaderMap :=
  let parts : List Bytes := []
  let (t3, parts, headers) := Parser_parseHeaders fuel data parts headers
  if t3 then
    if (((Cxx.nth parts (2 : Int)) != ([72, 84, 84, 80, 47, 49, 46, 48] : Bytes)) && ((Cxx.nth parts (2 : Int)) != ([72, 84, 84, 80, 47, 49, 46, 49] : Bytes))) then
      (false, method, path, headers)
    else
      if ((Cxx.nth parts (0 : Int)) == ([79, 80, 84, 73, 79, 78, 83] : Bytes)) then
        let method : Int := (1 : Int)
        let path : Bytes := (Cxx.nth parts (1 : Int))
        (true, method, path, headers)
      else
        if ((Cxx.nth parts (0 : Int)) == ([71, 69, 84] : Bytes)) then
          let method : Int := (2 : Int)
          let path : Bytes := (Cxx.nth parts (1 : Int))
          (true, method, path, headers)
        else
          if ((Cxx.nth parts (0 : Int)) == ([72, 69, 65, 68] : Bytes)) then
            let method : Int := (4 : Int)
            let path : Bytes := (Cxx.nth parts (1 : Int))
            (true, method, path, headers)
          else
            if ((Cxx.nth parts (0 : Int)) == ([80, 79, 83, 84] : Bytes)) then
              let method : Int := (8 : Int)
              let path : Bytes := (Cxx.nth parts (1 : Int))
              (true, method, path, headers)
            else
              if ((Cxx.nth parts (0 : Int)) == ([80, 85, 84] : Bytes)) then
                let method : Int := (16 : Int)
                let path : Bytes := (Cxx.nth parts (1 : Int))
                (true, method, path, headers)
              else
                if ((Cxx.nth parts (0 : Int)) == ([68, 69, 76, 69, 84, 69] : Bytes)) then
                  let method : Int := (32 : Int)
                  let path : Bytes := (Cxx.nth parts (1 : Int))
                  (true, method, path, headers)
                else
                  if ((Cxx.nth parts (0 : Int)) == ([84, 82, 65, 67, 69] : Bytes)) then
                    let method : Int := (64 : Int)
                    let path : Bytes := (Cxx.nth parts (1 : Int))
                    (true, method, path, headers)
                  else
                    if ((Cxx.nth parts (0 : Int)) == ([67, 79, 78, 78, 69, 67, 84] : Bytes)) then
                      let method : Int := (128 : Int)
                      let path : Bytes := (Cxx.nth parts (1 : Int))
                      (true, method, path, headers)
                    else
                      (false, method, path, headers)
  else
    (false, method, path, headers)

/-- `Parser::parseResponseHeaders` -/
def Parser_parseResponseHeaders (fuel : Nat) (data : Bytes) (statusCode : Int) (statusReason : Bytes) (headers : HeaderMap) : Bool × Int × Bytes × HeaderMap :=
  let parts : List Bytes := []
  let (t4, parts, headers) := Parser_parseHeaders fuel data parts headers
  if t4 then
    let statusCode : Int := (Qhttp.toIntQ (Cxx.nth parts (1 : Int)))
    let statusReason : Bytes := (Cxx.nth parts (2 : Int))
    (((decide (statusCode ≥ (100 : Int))) && (decide (statusCode ≤ (599 : Int)))), statusCode, statusReason, headers)
  else
    (false, statusCode, statusReason, headers)

/-- functions of parser.cpp that are outside the translated subset on this run -/
def untranslated : List String := []

end QhttpGen.Parser

macro "unfold_parser_helpers" : tactic => `(tactic| skip)
