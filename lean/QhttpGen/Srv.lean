-- GENERATED on every run by tools/cxx2lean_qt.py from src/src/server.cpp — do not edit.
import Qhttp.Model.VxPrim
set_option linter.unusedVariables false

namespace QhttpGen.Srv
open Qhttp

/-- `Server::incomingConnection` -/
def Server_incomingConnection (ve : Vx.Env) (s : List Vx.Act) : List Vx.Act :=
  let s :=
    if (!ve.tlsNull) then
      let s := Vx.act s Vx.Act.newSsl
      let s := Vx.act s Vx.Act.onEncryptedProcess
      let s := Vx.act s Vx.Act.onErrorDelete
      let s := Vx.act s Vx.Act.setDescriptor
      let s := Vx.act s Vx.Act.setConfig
      let s := Vx.act s Vx.Act.startEncryption
      s
    else
      let s := Vx.act s Vx.Act.newTcp
      let s := Vx.act s Vx.Act.setDescriptor
      let s := Vx.act s Vx.Act.process
      s
  s

end QhttpGen.Srv

macro "unfold_srv_helpers" : tactic => `(tactic| skip)
