-- GENERATED on every run by tools/cxx2lean_qt.py from src/src/server.cpp — do not edit.
import Qhttp.Model.VxPrim
set_option linter.unusedVariables false

namespace QhttpGen.Srv
open Qhttp

/-- `Server::incomingConnection` -/
def Server_incomingConnection (ve : Vx.Env) (s : List Vx.Act) : List Vx.Act :=
  let s :=
    if (!ve.tlsNull) then
      let s := Vx.act s Vx.Act.newSsl
      let s := Vx.act s Vx.Act.onEncryptedProcess
      let s := Vx.act s Vx.Act.onErrorDelete
      let s := Vx.act s Vx.Act.setDescriptor
      let s := Vx.act s Vx.Act.setConfig
      let s := Vx.act s Vx.Act.startEncryption
      s
    else
      let s := Vx.act s Vx.Act.newTcp
      let s := Vx.act s Vx.Act.setDescriptor
      let s := Vx.act s Vx.Act.process
      s
  s

/-- `ServerPrivate::process` -/
def ServerPrivate_process (ve : Vx.Env) (s : List Vx.Act) : List Vx.Act :=
  let s := Vx.act s Vx.Act.newHttp
  let s := Vx.act s Vx.Act.onDisconnectedDelete
  let s := Vx.act s (Vx.Act.onHeadersParsed (
    let s : List Vx.LAct := []
    let s :=
      if ve.hasHandler then
        let s := Vx.lact s (Vx.LAct.route (1 : Int))
        s
      else
        let s := Vx.lact s (Vx.LAct.err (500 : Int))
        s
    s))
  s

end QhttpGen.Srv

macro "unfold_srv_helpers" : tactic => `(tactic| skip)
