-- GENERATED on every run by tools/cxx2lean.py from src/src/qiodevicecopier.cpp — do not edit.

namespace QhttpGen.Copier

/-- what one call of `nextBlock()` does, in order -/
inductive Act
  | write (n : Int)      -- dest->write(data, n)
  | error | finished | requeue
deriving DecidableEq, Repr

/-- the private members read and what the two devices answer during this call -/
structure In where
  stopped : Bool
  bufferSize : Int
  rangeTo : Int
  readResult : Int            -- src->read(data, bufferSize)
  pos : Int                   -- src->pos() after the read
  atEnd : Bool                -- src->atEnd() after the read
  writeFails : Int → Bool     -- dest->write(data, n) == -1

/-- `QIODeviceCopierPrivate::nextBlock()` -/
def nextBlock (i : In) : List Act :=
    if (i.stopped = true) then
      ([] : List Act)
    else
      let dataRead : Int := i.readResult
      if (dataRead = (-(1 : Int))) then
        let acts : List Act := ([] : List Act) ++ [.error]
        let acts : List Act := acts ++ [.finished]
        acts
      else
        if ((i.rangeTo ≠ (-(1 : Int))) ∧ (i.pos > i.rangeTo)) then
          let dataRead : Int := (dataRead - ((i.pos - i.rangeTo) - (1 : Int)))
          let acts : List Act := ([] : List Act) ++ [.write dataRead]
          if (i.writeFails dataRead = true) then
            let acts : List Act := acts ++ [.error]
            let acts : List Act := acts ++ [.finished]
            acts
          else
            if (i.stopped = true) then
              acts
            else
              if ((i.atEnd = true) ∨ (((i.rangeTo ≠ (-(1 : Int))) ∧ (i.pos > i.rangeTo)))) then
                let acts : List Act := acts ++ [.finished]
                acts
              else
                let acts : List Act := acts ++ [.requeue]
                acts
        else
          let acts : List Act := ([] : List Act) ++ [.write dataRead]
          if (i.writeFails dataRead = true) then
            let acts : List Act := acts ++ [.error]
            let acts : List Act := acts ++ [.finished]
            acts
          else
            if (i.stopped = true) then
              acts
            else
              if ((i.atEnd = true) ∨ (((i.rangeTo ≠ (-(1 : Int))) ∧ (i.pos > i.rangeTo)))) then
                let acts : List Act := acts ++ [.finished]
                acts
              else
                let acts : List Act := acts ++ [.requeue]
                acts

end QhttpGen.Copier
