import Qhttp.Model.Socket
/-
  src/src/handler.cpp (`Handler::route`) and the Server's glue (`ServerPrivate::process`).

  QString values are lists of UTF-16 code units.  QRegExp is a PARAMETER: a `Matcher` answers
  `indexIn` for a pattern (by number) and a subject with the match index, the matched length and
  the captured texts; the theorems hold for every matcher, the harness supplies Qt's answers.
  Middleware is a parameter as well: each attached middleware carries the verdict it returns for
  this request (what it writes when it refuses is its own business, see `Route.ops`).
-/
namespace Qhttp

abbrev QStr := List UInt16

structure Match where
  idx  : Nat
  len  : Nat
  caps : List QStr          -- capturedTexts().mid(1)
deriving DecidableEq, Repr, Inhabited

abbrev Matcher := Nat → QStr → Option Match

/-! ### Qt's place markers: `%`, an optional `L`, one or two digits (Qt 5.15 `findArgEscapes`)

  `argScan` is the scanner of `QString::arg`, state by state; it defines what a place marker of a
  template IS (the specification of C05 and the legacy analysis in Lemmas/RouteSubst.lean use it).
  `Handler::route` itself no longer calls `arg()`: see `substitute` below. -/

/-- `QChar::digitValue()` on UTF-16 code units, as runs `(first unit, length, value of the first)`:
    ASCII digits, the decimal digits of the other scripts and the super/subscript, circled,
    parenthesised … digits (dumped from Qt 5.15.8 by calling it on all 65536 units) -/
def digitRuns : List (Nat × Nat × Nat) :=
  [
   (0x0030, 10, 0), (0x00B2, 2, 2), (0x00B9, 1, 1), (0x0660, 10, 0), (0x06F0, 10, 0), (0x07C0, 10, 0),
   (0x0966, 10, 0), (0x09E6, 10, 0), (0x0A66, 10, 0), (0x0AE6, 10, 0), (0x0B66, 10, 0), (0x0BE6, 10, 0),
   (0x0C66, 10, 0), (0x0CE6, 10, 0), (0x0D66, 10, 0), (0x0DE6, 10, 0), (0x0E50, 10, 0), (0x0ED0, 10, 0),
   (0x0F20, 10, 0), (0x1040, 10, 0), (0x1090, 10, 0), (0x1369, 9, 1), (0x17E0, 10, 0), (0x1810, 10, 0),
   (0x1946, 10, 0), (0x19D0, 10, 0), (0x19DA, 1, 1), (0x1A80, 10, 0), (0x1A90, 10, 0), (0x1B50, 10, 0),
   (0x1BB0, 10, 0), (0x1C40, 10, 0), (0x1C50, 10, 0), (0x2070, 1, 0), (0x2074, 6, 4), (0x2080, 10, 0),
   (0x2460, 9, 1), (0x2474, 9, 1), (0x2488, 9, 1), (0x24EA, 1, 0), (0x24F5, 9, 1), (0x24FF, 1, 0),
   (0x2776, 9, 1), (0x2780, 9, 1), (0x278A, 9, 1), (0xA620, 10, 0), (0xA8D0, 10, 0), (0xA900, 10, 0),
   (0xA9D0, 10, 0), (0xA9F0, 10, 0), (0xAA50, 10, 0), (0xABF0, 10, 0), (0xFF10, 10, 0)]

def digitIn : List (Nat × Nat × Nat) → Nat → Option Nat
  | [], _ => none
  | (lo, len, v) :: r, c => if lo ≤ c ∧ c < lo + len then some (v + (c - lo)) else digitIn r c

def digit16 (c : UInt16) : Option Nat := digitIn digitRuns c.toNat

/-- the value of a digit (0 for a unit that is none) -/
def dval (c : UInt16) : Nat := (digit16 c).getD 0

inductive ArgTok
  | lit (c : UInt16)
  | esc (n : Nat) (raw : QStr)        -- a place marker `%n` / `%Ln` and the units it is spelled with
deriving DecidableEq, Repr

inductive ArgSt
  | normal
  | pct                                -- after '%'
  | pctL                               -- after '%L'
  | d1 (loc : Bool) (c : UInt16)       -- after '%'['L'] and one digit `c`
deriving DecidableEq, Repr

def rawOf (loc : Bool) (ds : QStr) : QStr := (37 : UInt16) :: (if loc then (76 : UInt16) :: ds else ds)

/-- one pass over the template, char by char -/
def argScan : ArgSt → QStr → List ArgTok
  | .normal, [] => []
  | .pct, [] => [.lit 37]
  | .pctL, [] => [.lit 37, .lit 76]
  | .d1 loc c, [] => [.esc (dval c) (rawOf loc [c])]
  | .normal, c :: cs => if c = 37 then argScan .pct cs else .lit c :: argScan .normal cs
  | .pct, c :: cs =>
    if c = 76 then argScan .pctL cs
    else if (digit16 c).isSome then argScan (.d1 false c) cs
    else if c = 37 then .lit 37 :: argScan .pct cs
    else .lit 37 :: .lit c :: argScan .normal cs
  | .pctL, c :: cs =>
    if (digit16 c).isSome then argScan (.d1 true c) cs
    else if c = 37 then .lit 37 :: .lit 76 :: argScan .pct cs
    else .lit 37 :: .lit 76 :: .lit c :: argScan .normal cs
  | .d1 loc d, c :: cs =>
    if (digit16 c).isSome then
      .esc (10 * dval d + dval c) (rawOf loc [d, c]) :: argScan .normal cs
    else if c = 37 then .esc (dval d) (rawOf loc [d]) :: argScan .pct cs
    else .esc (dval d) (rawOf loc [d]) :: .lit c :: argScan .normal cs

def minEsc : List ArgTok → Option Nat
  | [] => none
  | .lit _ :: l => minEsc l
  | .esc n _ :: l => match minEsc l with | some m => some (min n m) | none => some n

def argFill (n : Nat) (a : QStr) : List ArgTok → QStr
  | [] => []
  | .lit c :: l => c :: argFill n a l
  | .esc k raw :: l => (if k = n then a else raw) ++ argFill n a l

/-- `tmpl.arg(a)`: every occurrence of the lowest-numbered place marker is replaced by `a`;
    a template without markers is returned unchanged -/
def qarg (tmpl a : QStr) : QStr :=
  let toks := argScan .normal tmpl
  match minEsc toks with
  | none => tmpl
  | some n => argFill n a toks

/-! ### `substituteCaptures` / `markerAt` (src/src/handler.cpp): one pass, captures never rescanned -/

/-- one or two digits at the start of `s`: how many, and the number they spell -/
def digitsAt : QStr → Option (Nat × Nat)
  | [] => none
  | d :: r =>
    match digit16 d with
    | none => none
    | some v =>
      match r with
      | [] => some (1, v)
      | e :: _ => match digit16 e with | some w => some (2, 10 * v + w) | none => some (1, v)

/-- `markerAt(tmpl, pos, &number)`, given the units AFTER the '%' at `pos`: length of the marker
    (the '%' included) and its number; `none` is the C++ function's 0 -/
def markerAt : QStr → Option (Nat × Nat)
  | [] => none
  | l :: r =>
    if l = 76 then (digitsAt r).map fun p => (p.1 + 2, p.2)
    else (digitsAt (l :: r)).map fun p => (p.1 + 1, p.2)

/-- the first loop: the marker numbers that occur in the template (`present[]`), in order of
    occurrence; `skip` = units of a recognised marker still to be stepped over (`i += length`) -/
def presentGo : Nat → QStr → List Nat
  | _, [] => []
  | skip + 1, _ :: cs => presentGo skip cs
  | 0, c :: cs =>
    match (if c = 37 then markerAt cs else none) with
    | some (len, n) => n :: presentGo (len - 1) cs
    | none => presentGo 0 cs

/-- `for (n = 0; n < number; ++n) rank += present[n]` -/
def rank (present : List Nat) : Nat → Nat
  | 0 => 0
  | n + 1 => rank present n + (if present.contains n then 1 else 0)

/-- the second loop: a marker whose number has rank `k` among the numbers present becomes the
    k-th capture if there is one and stays as spelled otherwise; everything else is copied -/
def fillGo (present : List Nat) (caps : List QStr) : Nat → QStr → QStr
  | _, [] => []
  | skip + 1, _ :: cs => fillGo present caps skip cs
  | 0, c :: cs =>
    match (if c = 37 then markerAt cs else none) with
    | some (len, n) =>
      (match caps[rank present n]? with
       | some a => a
       | none => (c :: cs).take len) ++ fillGo present caps (len - 1) cs
    | none => c :: fillGo present caps 0 cs

/-- `substituteCaptures(redirect.second, redirect.first.capturedTexts().mid(1))` -/
def substitute (tmpl : QStr) (caps : List QStr) : QStr := fillGo (presentGo 0 tmpl) caps 0 tmpl

/-! ### the handler tree -/

mutual
  inductive Node
    | mk (id : Nat) (mws : List (Nat × Bool)) (redirects : List (Nat × QStr)) (subs : Subs) (own : Bool)
  inductive Subs
    | nil
    | cons (pat : Nat) (child : Node) (rest : Subs)
end

/-- what routing does, in order -/
inductive Act
  | mw (id : Nat) (ok : Bool)          -- a middleware was consulted and returned `ok`
  | redirect (node : Nat) (loc : QStr) -- the redirect of `node` answered with this Location
  | process (node : Nat) (path : QStr) -- `node`'s own process() ran with the remaining path
deriving DecidableEq, Repr

/-- the middleware loop: consult in attachment order, stop at the first refusal -/
def runMws : List (Nat × Bool) → List Act × Bool
  | [] => ([], true)
  | (id, ok) :: rest =>
    if ok then let (acts, r) := runMws rest; (.mw id true :: acts, r) else ([.mw id false], false)

/-- the redirect loop: first pattern that matches anywhere in the path -/
def firstRedirect (m : Matcher) (path : QStr) : List (Nat × QStr) → Option QStr
  | [] => none
  | (pat, tmpl) :: rest =>
    match m pat path with
    | some mt => some (substitute tmpl mt.caps)
    | none => firstRedirect m path rest

mutual
  /-- `Handler::route(socket, path)` -/
  def route (m : Matcher) : Node → QStr → List Act
    | .mk id mws redirects subs _, path =>
      let (acts, go) := runMws mws
      if !go then acts else
      match firstRedirect m path redirects with
      | some loc => acts ++ [.redirect id loc]
      | none =>
        match routeSubs m subs path with
        | some r => acts ++ r
        | none => acts ++ [.process id path]
  /-- the sub-handler loop: first pattern that matches; the child sees `path.mid(matchedLength)` -/
  def routeSubs (m : Matcher) : Subs → QStr → Option (List Act)
    | .nil, _ => none
    | .cons pat child rest, path =>
      match m pat path with
      | some mt => some (route m child (path.drop mt.len))
      | none => routeSubs m rest path
end

/-- `ServerPrivate::process`' lambda: the root sees the decoded path without its first unit;
    a server without root handler answers 500 (`none`) -/
def serverRoute (m : Matcher) (root : Option Node) (path : QStr) : Option (List Act) :=
  root.map fun r => route m r (path.drop 1)

/-! ### UTF-16 → UTF-8 (`QString::toUtf8`): lone surrogates become '?' as in Qt 5 -/

def utf8OfCode (c : Nat) : Bytes :=
  if c < 0x80 then [UInt8.ofNat c]
  else if c < 0x800 then [UInt8.ofNat (0xC0 + c / 64), UInt8.ofNat (0x80 + c % 64)]
  else if c < 0x10000 then [UInt8.ofNat (0xE0 + c / 4096), UInt8.ofNat (0x80 + c / 64 % 64), UInt8.ofNat (0x80 + c % 64)]
  else [UInt8.ofNat (0xF0 + c / 262144), UInt8.ofNat (0x80 + c / 4096 % 64), UInt8.ofNat (0x80 + c / 64 % 64), UInt8.ofNat (0x80 + c % 64)]

def isHi (c : UInt16) : Bool := 0xD800 ≤ c && c < 0xDC00
def isLo (c : UInt16) : Bool := 0xDC00 ≤ c && c < 0xE000

/-- `hi`: a pending high surrogate -/
def toUtf8Aux : Option UInt16 → QStr → Bytes
  | none, [] => []
  | some _, [] => [63]
  | none, c :: cs =>
    if isHi c then toUtf8Aux (some c) cs
    else if isLo c then 63 :: toUtf8Aux none cs
    else utf8OfCode c.toNat ++ toUtf8Aux none cs
  | some h, c :: cs =>
    if isLo c then utf8OfCode (0x10000 + (h.toNat - 0xD800) * 1024 + (c.toNat - 0xDC00)) ++ toUtf8Aux none cs
    else if isHi c then 63 :: toUtf8Aux (some c) cs
    else 63 :: utf8OfCode c.toNat ++ toUtf8Aux none cs

def toUtf8 (s : QStr) : Bytes := toUtf8Aux none s

/-! ### `QUrl::toPercentEncoding(text, "/:?#[]@!$&'()*+,;=%")` -/

def hexUp (n : Nat) : UInt8 := if n < 10 then UInt8.ofNat (48 + n) else UInt8.ofNat (55 + n)

/-- bytes left alone: unreserved (ALPHA DIGIT - . _ ~) and the excluded set -/
def locKeep (c : UInt8) : Bool :=
  (65 ≤ c && c ≤ 90) || (97 ≤ c && c ≤ 122) || (48 ≤ c && c ≤ 57) ||
  c == 45 || c == 46 || c == 95 || c == 126 ||
  c == 47 || c == 58 || c == 63 || c == 35 || c == 91 || c == 93 || c == 64 || c == 33 || c == 36 ||
  c == 38 || c == 39 || c == 40 || c == 41 || c == 42 || c == 43 || c == 44 || c == 59 || c == 61 || c == 37

def pctEncode (keep : UInt8 → Bool) : Bytes → Bytes
  | [] => []
  | c :: cs => (if keep c then [c] else [37, hexUp (c.toNat / 16), hexUp (c.toNat % 16)]) ++ pctEncode keep cs

/-- the Location header value of a pattern redirect -/
def encodeLoc (loc : QStr) : Bytes := pctEncode locKeep (toUtf8 loc)

/-- big-endian byte image of a QString, used to carry paths in observations -/
def be16 (s : QStr) : Bytes := s.flatMap fun c => [UInt8.ofNat (c.toNat / 256), UInt8.ofNat (c.toNat % 256)]

end Qhttp
