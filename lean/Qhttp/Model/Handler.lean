import Qhttp.Model.Socket
/-
  src/src/handler.cpp (`Handler::route`) and the Server's glue (`ServerPrivate::process`).

  QString values are lists of UTF-16 code units.  QRegExp is a PARAMETER: a `Matcher` answers
  `indexIn` for a pattern (by number) and a subject with the match index, the matched length and
  the captured texts; the theorems hold for every matcher, the harness supplies Qt's answers.
  Middleware is a parameter as well: each attached middleware carries the verdict it returns for
  this request (what it writes when it refuses is its own business, see `Route.ops`).
-/
namespace Qhttp

abbrev QStr := List UInt16

structure Match where
  idx  : Nat
  len  : Nat
  caps : List QStr          -- capturedTexts().mid(1)
deriving DecidableEq, Repr, Inhabited

abbrev Matcher := Nat → QStr → Option Match

/-! ### `QString::arg(const QString &)` (Qt 5.15 `findArgEscapes` / `replaceArgEscapes`) -/

inductive ArgTok
  | lit (c : UInt16)
  | esc (n : Nat) (raw : QStr)        -- a place marker `%n` / `%Ln` and the units it is spelled with
deriving DecidableEq, Repr

inductive ArgSt
  | normal
  | pct                                -- after '%'
  | pctL                               -- after '%L'
  | d1 (loc : Bool) (c : UInt16)       -- after '%'['L'] and one digit `c`
deriving DecidableEq, Repr

def digit16 (c : UInt16) : Option Nat := if 48 ≤ c ∧ c ≤ 57 then some (c.toNat - 48) else none

def rawOf (loc : Bool) (ds : QStr) : QStr := (37 : UInt16) :: (if loc then (76 : UInt16) :: ds else ds)

/-- one pass over the template, char by char -/
def argScan : ArgSt → QStr → List ArgTok
  | .normal, [] => []
  | .pct, [] => [.lit 37]
  | .pctL, [] => [.lit 37, .lit 76]
  | .d1 loc c, [] => [.esc (c.toNat - 48) (rawOf loc [c])]
  | .normal, c :: cs => if c = 37 then argScan .pct cs else .lit c :: argScan .normal cs
  | .pct, c :: cs =>
    if c = 76 then argScan .pctL cs
    else if (digit16 c).isSome then argScan (.d1 false c) cs
    else if c = 37 then .lit 37 :: argScan .pct cs
    else .lit 37 :: .lit c :: argScan .normal cs
  | .pctL, c :: cs =>
    if (digit16 c).isSome then argScan (.d1 true c) cs
    else if c = 37 then .lit 37 :: .lit 76 :: argScan .pct cs
    else .lit 37 :: .lit 76 :: .lit c :: argScan .normal cs
  | .d1 loc d, c :: cs =>
    if (digit16 c).isSome then
      .esc (10 * (d.toNat - 48) + (c.toNat - 48)) (rawOf loc [d, c]) :: argScan .normal cs
    else if c = 37 then .esc (d.toNat - 48) (rawOf loc [d]) :: argScan .pct cs
    else .esc (d.toNat - 48) (rawOf loc [d]) :: .lit c :: argScan .normal cs

def minEsc : List ArgTok → Option Nat
  | [] => none
  | .lit _ :: l => minEsc l
  | .esc n _ :: l => match minEsc l with | some m => some (min n m) | none => some n

def argFill (n : Nat) (a : QStr) : List ArgTok → QStr
  | [] => []
  | .lit c :: l => c :: argFill n a l
  | .esc k raw :: l => (if k = n then a else raw) ++ argFill n a l

/-- `tmpl.arg(a)`: every occurrence of the lowest-numbered place marker is replaced by `a`;
    a template without markers is returned unchanged -/
def qarg (tmpl a : QStr) : QStr :=
  let toks := argScan .normal tmpl
  match minEsc toks with
  | none => tmpl
  | some n => argFill n a toks

/-- `foreach (replacement, capturedTexts().mid(1)) newPath = newPath.arg(replacement)` -/
def substitute (tmpl : QStr) (caps : List QStr) : QStr := caps.foldl qarg tmpl

/-! ### the handler tree -/

mutual
  inductive Node
    | mk (id : Nat) (mws : List (Nat × Bool)) (redirects : List (Nat × QStr)) (subs : Subs) (own : Bool)
  inductive Subs
    | nil
    | cons (pat : Nat) (child : Node) (rest : Subs)
end

/-- what routing does, in order -/
inductive Act
  | mw (id : Nat) (ok : Bool)          -- a middleware was consulted and returned `ok`
  | redirect (node : Nat) (loc : QStr) -- the redirect of `node` answered with this Location
  | process (node : Nat) (path : QStr) -- `node`'s own process() ran with the remaining path
deriving DecidableEq, Repr

/-- the middleware loop: consult in attachment order, stop at the first refusal -/
def runMws : List (Nat × Bool) → List Act × Bool
  | [] => ([], true)
  | (id, ok) :: rest =>
    if ok then let (acts, r) := runMws rest; (.mw id true :: acts, r) else ([.mw id false], false)

/-- the redirect loop: first pattern that matches anywhere in the path -/
def firstRedirect (m : Matcher) (path : QStr) : List (Nat × QStr) → Option QStr
  | [] => none
  | (pat, tmpl) :: rest =>
    match m pat path with
    | some mt => some (substitute tmpl mt.caps)
    | none => firstRedirect m path rest

mutual
  /-- `Handler::route(socket, path)` -/
  def route (m : Matcher) : Node → QStr → List Act
    | .mk id mws redirects subs _, path =>
      let (acts, go) := runMws mws
      if !go then acts else
      match firstRedirect m path redirects with
      | some loc => acts ++ [.redirect id loc]
      | none =>
        match routeSubs m subs path with
        | some r => acts ++ r
        | none => acts ++ [.process id path]
  /-- the sub-handler loop: first pattern that matches; the child sees `path.mid(matchedLength)` -/
  def routeSubs (m : Matcher) : Subs → QStr → Option (List Act)
    | .nil, _ => none
    | .cons pat child rest, path =>
      match m pat path with
      | some mt => some (route m child (path.drop mt.len))
      | none => routeSubs m rest path
end

/-- `ServerPrivate::process`' lambda: the root sees the decoded path without its first unit;
    a server without root handler answers 500 (`none`) -/
def serverRoute (m : Matcher) (root : Option Node) (path : QStr) : Option (List Act) :=
  root.map fun r => route m r (path.drop 1)

/-! ### UTF-16 → UTF-8 (`QString::toUtf8`): lone surrogates become '?' as in Qt 5 -/

def utf8OfCode (c : Nat) : Bytes :=
  if c < 0x80 then [UInt8.ofNat c]
  else if c < 0x800 then [UInt8.ofNat (0xC0 + c / 64), UInt8.ofNat (0x80 + c % 64)]
  else if c < 0x10000 then [UInt8.ofNat (0xE0 + c / 4096), UInt8.ofNat (0x80 + c / 64 % 64), UInt8.ofNat (0x80 + c % 64)]
  else [UInt8.ofNat (0xF0 + c / 262144), UInt8.ofNat (0x80 + c / 4096 % 64), UInt8.ofNat (0x80 + c / 64 % 64), UInt8.ofNat (0x80 + c % 64)]

def isHi (c : UInt16) : Bool := 0xD800 ≤ c && c < 0xDC00
def isLo (c : UInt16) : Bool := 0xDC00 ≤ c && c < 0xE000

/-- `hi`: a pending high surrogate -/
def toUtf8Aux : Option UInt16 → QStr → Bytes
  | none, [] => []
  | some _, [] => [63]
  | none, c :: cs =>
    if isHi c then toUtf8Aux (some c) cs
    else if isLo c then 63 :: toUtf8Aux none cs
    else utf8OfCode c.toNat ++ toUtf8Aux none cs
  | some h, c :: cs =>
    if isLo c then utf8OfCode (0x10000 + (h.toNat - 0xD800) * 1024 + (c.toNat - 0xDC00)) ++ toUtf8Aux none cs
    else if isHi c then 63 :: toUtf8Aux (some c) cs
    else 63 :: utf8OfCode c.toNat ++ toUtf8Aux none cs

def toUtf8 (s : QStr) : Bytes := toUtf8Aux none s

/-! ### `QUrl::toPercentEncoding(text, "/:?#[]@!$&'()*+,;=%")` -/

def hexUp (n : Nat) : UInt8 := if n < 10 then UInt8.ofNat (48 + n) else UInt8.ofNat (55 + n)

/-- bytes left alone: unreserved (ALPHA DIGIT - . _ ~) and the excluded set -/
def locKeep (c : UInt8) : Bool :=
  (65 ≤ c && c ≤ 90) || (97 ≤ c && c ≤ 122) || (48 ≤ c && c ≤ 57) ||
  c == 45 || c == 46 || c == 95 || c == 126 ||
  c == 47 || c == 58 || c == 63 || c == 35 || c == 91 || c == 93 || c == 64 || c == 33 || c == 36 ||
  c == 38 || c == 39 || c == 40 || c == 41 || c == 42 || c == 43 || c == 44 || c == 59 || c == 61 || c == 37

def pctEncode (keep : UInt8 → Bool) : Bytes → Bytes
  | [] => []
  | c :: cs => (if keep c then [c] else [37, hexUp (c.toNat / 16), hexUp (c.toNat % 16)]) ++ pctEncode keep cs

/-- the Location header value of a pattern redirect -/
def encodeLoc (loc : QStr) : Bytes := pctEncode locKeep (toUtf8 loc)

/-- big-endian byte image of a QString, used to carry paths in observations -/
def be16 (s : QStr) : Bytes := s.flatMap fun c => [UInt8.ofNat (c.toNat / 256), UInt8.ofNat (c.toNat % 256)]

end Qhttp
