import Qhttp.Model.Fs
import Qhttp.Model.Range
import Qhttp.Model.Copier
/-
  src/src/filesystemhandler.cpp: `process`, `processFile`, `processDirectory`, composed with the
  socket model and the copier model.  Parameters (oracles): the file system tree and file
  contents, MIME type names (QMimeDatabase), the HTML of directory listings.
-/
namespace Qhttp
namespace FsHandler

structure FsEnv where
  root    : Bytes                                   -- document root as given to the handler
  tree    : Fs.Tree
  content : List Bytes → Bytes                      -- bytes of the file at a location
  mime    : List Bytes → Bytes                      -- QMimeDatabase::mimeTypeForFile(...).name()
  listing : List Bytes → Bytes → Bytes              -- HTML body of the listing of a directory (location, decoded path)

def RANGE : Bytes := lit ['R','a','n','g','e']
def BYTES_EQ : Bytes := lit ['b','y','t','e','s','=']
def CONTENT_RANGE : Bytes := lit ['C','o','n','t','e','n','t','-','R','a','n','g','e']
def BYTES_SP : Bytes := lit ['b','y','t','e','s',' ']

/-- the range `processFile` derives from the request's Range header for a file of `size` bytes -/
def requestedRange (hdr : Bytes) (size : Nat) : Range :=
  if !hdr.isEmpty && startsWith BYTES_EQ hdr then
    match splitChar 44 (hdr.drop 6) with
    | first :: _ => Range.ofString first size
    | [] => Range.invalid
  else Range.invalid

inductive Plan
  | notFound
  | dir (loc : List Bytes) (decoded : Bytes)
  | file (loc : List Bytes) (r : Range)

/-- `FilesystemHandler::process` for the path the root handler receives (already decoded once
    by QUrl): decode again, resolve, contain, classify -/
def plan (fe : FsEnv) (path : Bytes) (reqHeaders : HeaderMap) : Plan :=
  let decoded := Fs.pctDecode path
  match Fs.served fe.tree fe.root decoded with
  | none => .notFound
  | some loc =>
    match Fs.kindAt fe.tree loc with
    | some .dir => .dir loc decoded
    | _ => .file loc (requestedRange (HeaderMap.value RANGE reqHeaders) (fe.content loc).length)

/-- the API calls made synchronously from `headersParsed` -/
def hpOps (fe : FsEnv) (s : Sock) : List ApiOp :=
  match plan fe (s.path.drop 1) s.reqHeaders with
  | .notFound => [.err 404 none]
  | .dir loc decoded =>
    let body := fe.listing loc decoded
    [.hdr Sock.CONTENT_TYPE Sock.TEXT_HTML true, .hdr Sock.CONTENT_LENGTH (natDigits body.length) true,
     .write body, .close]
  | .file loc r =>
    let size := (fe.content loc).length
    (if r.isValid then
       [.status 206 none, .hdr Sock.CONTENT_LENGTH (intText r.length) true,
        .hdr CONTENT_RANGE (BYTES_SP ++ r.contentRange) true]
     else [.hdr Sock.CONTENT_LENGTH (natDigits size) true]) ++
    [.hdr Sock.CONTENT_TYPE (fe.mime loc) true, .wh]

/-- the copier configuration `processFile` sets up (default 64 KiB blocks) -/
def copierCfg (fe : FsEnv) (s : Sock) : Option Copier.Cfg :=
  match plan fe (s.path.drop 1) s.reqHeaders with
  | .file loc r =>
    some { src := fe.content loc, block := 65536,
           range := if r.isValid then some (r.absFrom, r.absTo) else none }
  | _ => none

structure St where
  sock   : Sock := {}
  cop    : Option (Copier.Cfg × Copier.St) := none
  routed : Bool := false

/-- apply the copier's new observations to the socket: a block handed to the destination is a
    `write` on the socket, `finished` closes it (the lambda connected in processFile) -/
def relay (env : Env) (app : App) (s : Sock) : List Obs → Sock
  | [] => s
  | .misc 1 b :: rest => relay env app (Sock.api env app s (.write b)) rest
  | .misc 2 _ :: rest => relay env app (Sock.api env app s .close) rest
  | _ :: rest => relay env app s rest

def app (fe : FsEnv) : App := { onHp := fun s => hpOps fe s }

/-- the request was routed during the last event: processFile created and started the copier -/
def afterRoute (fe : FsEnv) (hpBefore : Nat) (st : St) : St :=
  if !st.routed && Obs.countP Obs.isHp st.sock.log > hpBefore then
    match copierCfg fe st.sock with
    | some cfg => { st with routed := true, cop := some (cfg, Copier.start cfg {}) }
    | none => { st with routed := true }
  else st

/-- one event-loop turn of the harness: posted events (the queued initial read), then timers
    (the copier's pending call, whose destination is the socket), then deferred deletion -/
def turn (env : Env) (fe : FsEnv) (st : St) : St :=
  let a := app fe
  let s := st.sock
  if !s.alive then st else
  let hpBefore := Obs.countP Obs.isHp s.log
  let k := Obs.countP (fun o => match o with | .ev _ => true | _ => false) s.log
  let s := { s with log := s.log ++ [Obs.ev k] }
  let s := if s.initPending then Sock.onReadyRead env a { s with initPending := false } else s
  let st := afterRoute fe hpBefore { st with sock := s }
  let st :=
    match st.cop with
    | some (cfg, cs) =>
      let before := cs.log.length
      let cs' := Copier.step cfg cs .turn
      { st with sock := relay env a st.sock (cs'.log.drop before), cop := some (cfg, cs') }
    | none => st
  let s := st.sock
  { st with sock := if s.delPending then { s with alive := false, delPending := false, log := s.log ++ [Obs.del] } else s }

def step (env : Env) (fe : FsEnv) (st : St) (e : Event) : St :=
  match e with
  | .turn => turn env fe st
  | e =>
    let hpBefore := Obs.countP Obs.isHp st.sock.log
    let k := Obs.countP (fun o => match o with | .ev _ => true | _ => false) st.sock.log
    let (s1, _) := Sock.stepK env (app fe) (st.sock, k) e
    afterRoute fe hpBefore { st with sock := s1 }

def run (env : Env) (fe : FsEnv) (evs : List Event) : St := evs.foldl (step env fe) {}

end FsHandler
end Qhttp
