import Qhttp.Model.SlotHandler
import Qhttp.Model.CxxPrim
/-
  Vocabulary of the translated `QObjectHandler::process` (`QhttpGen/Slot.lean`): the registry `d->map`, the two
  questions asked of the socket, and what `process` does recorded as one action.  `invokeSlot` itself (Qt's meta-object
  call) is not translated; its model is `SlotHandler.invoke`.  Hand-written, trusted like `CxxPrim.lean`.
-/
namespace Qhttp
namespace Sx

inductive Act
  | err (code : Int)                        -- socket->writeError(code)
  | invoke (m : SlotHandler.Reg)            -- d->invokeSlot(socket, m)
  | defer (m : SlotHandler.Reg)             -- connect(socket, &Socket::readChannelFinished, [..]{ d->invokeSlot(socket, m); })
deriving DecidableEq, Repr

structure Env where
  regs : List SlotHandler.Reg := []         -- QObjectHandlerPrivate::map, in order of registration
  sock : Sock := {}                         -- the socket `process` is handed

def err (s : List Act) (code : Int) : List Act := s ++ [.err code]
def invoke (s : List Act) (m : SlotHandler.Reg) : List Act := s ++ [.invoke m]
def defer (s : List Act) (m : SlotHandler.Reg) : List Act := s ++ [.defer m]

instance : Inhabited SlotHandler.Reg := ⟨{ name := [], idx := 0, good := false, readAll := false }⟩

/-- `QMap<QString, Method>::contains / value` -/
def mapContains (regs : List SlotHandler.Reg) (path : QStr) : Bool := (SlotHandler.lookup regs path).isSome
def mapValue (regs : List SlotHandler.Reg) (path : QStr) : SlotHandler.Reg := (SlotHandler.lookup regs path).getD default

/-- `socket->bytesAvailable()`, `socket->contentLength()` (what the translated socket.cpp is proved to return:
    `QhttpBridge.Sock.bytesAvailable_eq`, `contentLength_eq`) -/
def bytesAvailable (e : Env) : Int := Sock.bytesAvailable e.sock
def contentLength (e : Env) : Int := e.sock.total

end Sx
end Qhttp
