/-
  Byte strings and the QByteArray operations the library uses.
  Core-only, structural recursion everywhere (so `decide` can evaluate examples in the kernel).

  Modelled, not verified (validated differentially against Qt 5.15 by the harness, family `qt`):
    QByteArray::indexOf / mid / left      -> breakOn
    QByteArray::trimmed                   -> trim      (strips 9..13 and 32)
    QByteArray::toLower (Latin-1)         -> lower8
    QByteArray::toLongLong / toInt        -> toLongLong / toIntQ
    QByteArray::number                    -> natDigits / intText
    QByteArray::split(char)               -> splitChar
-/
namespace Qhttp

abbrev Bytes := List UInt8

/-- one ASCII character as a byte -/
def b (c : Char) : UInt8 := c.toNat.toUInt8
/-- a literal given as a list of characters -/
def lit (cs : List Char) : Bytes := cs.map b

def CR : UInt8 := 13
def LF : UInt8 := 10
def SP : UInt8 := 32
def COLON : UInt8 := 58
def CRLF : Bytes := [13, 10]
def CRLF2 : Bytes := [13, 10, 13, 10]

/-- `breakOn d xs = some (a, rest)` iff the first occurrence of `d` in `xs` starts after `a`
    and `rest` follows it: `QByteArray::indexOf(d)` + `left(i)` + `mid(i + d.size())`. -/
def breakOn (d : Bytes) (xs : Bytes) : Option (Bytes × Bytes) :=
  if d.isPrefixOf xs then some ([], xs.drop d.length) else
  match xs with
  | [] => none
  | x :: xs' =>
    match breakOn d xs' with
    | some (a, r) => some (x :: a, r)
    | none => none

/-- `Parser::split` with a fuel argument; `lim = none` is `maxSplit == 0` (unlimited),
    `lim = some k` allows `k` more cuts. -/
def splitF (d : Bytes) : Nat → Option Nat → Bytes → List Bytes
  | 0, _, xs => [xs]
  | fuel + 1, lim, xs =>
    if lim = some 0 then [xs] else
    match breakOn d xs with
    | none => [xs]
    | some (a, r) => a :: splitF d fuel (lim.map (· - 1)) r

def limOf (maxSplit : Nat) : Option Nat := if maxSplit = 0 then none else some maxSplit

/-- `Parser::split(data, delim, maxSplit, parts)`; the C++ loops for ever when `delim` is
    empty and `maxSplit == 0`, every call site passes a non-empty literal (see `Props/C11`). -/
def split (d : Bytes) (maxSplit : Nat) (xs : Bytes) : List Bytes :=
  splitF d (xs.length + 1) (limOf maxSplit) xs

/-- `QByteArray::split(char)` -/
def splitChar (c : UInt8) (xs : Bytes) : List Bytes :=
  splitF [c] (xs.length + 1) none xs

def joinWith (d : Bytes) : List Bytes → Bytes
  | [] => []
  | [x] => x
  | x :: y :: ys => x ++ d ++ joinWith d (y :: ys)

/-- bytes `QByteArray::trimmed` removes: `\t \n \v \f \r` and space -/
def isSp (c : UInt8) : Bool := (9 ≤ c && c ≤ 13) || c == 32

def trimL (xs : Bytes) : Bytes := xs.dropWhile isSp
def trimR (xs : Bytes) : Bytes := (xs.reverse.dropWhile isSp).reverse
def trim (xs : Bytes) : Bytes := trimR (trimL xs)

/-- Qt 5 `QByteArray::toLower`: Latin-1 folding (A–Z, and 0xC0–0xDE except 0xD7). -/
def lower8 (c : UInt8) : UInt8 :=
  if (65 ≤ c && c ≤ 90) || (192 ≤ c && c ≤ 222 && c != 215) then c + 32 else c

def lower (xs : Bytes) : Bytes := xs.map lower8

/-- lexicographic order on unsigned bytes, shorter first: `qstrcmp(a, b) < 0` -/
def bytesLt : Bytes → Bytes → Bool
  | [], [] => false
  | [], _ :: _ => true
  | _ :: _, [] => false
  | x :: xs, y :: ys => if x < y then true else if y < x then false else bytesLt xs ys

def isDigit (c : UInt8) : Bool := 48 ≤ c && c ≤ 57

def digitsVal : Bytes → Nat → Nat
  | [], acc => acc
  | c :: cs, acc => digitsVal cs (acc * 10 + (c.toNat - 48))

/-- decimal text of a natural number (`QByteArray::number`) -/
def natDigitsAux : Nat → Nat → Bytes → Bytes
  | 0, _, acc => acc
  | fuel + 1, n, acc =>
    let acc' := (UInt8.ofNat (48 + n % 10)) :: acc
    if n / 10 = 0 then acc' else natDigitsAux fuel (n / 10) acc'

def natDigits (n : Nat) : Bytes := natDigitsAux (n + 1) n []

def intText (i : Int) : Bytes :=
  if i < 0 then b '-' :: natDigits i.natAbs else natDigits i.natAbs

/-- `QByteArray::toLongLong()` (base 10): surrounding white space tolerated, optional sign,
    at least one digit, nothing else; overflow or any other text gives 0. -/
def toLongLong (xs : Bytes) : Int :=
  let t := trim xs
  let (neg, ds) : Bool × Bytes :=
    match t with
    | 45 :: r => (true, r)
    | 43 :: r => (false, r)
    | r => (false, r)
  if ds.isEmpty || !ds.all isDigit then 0 else
  let v := digitsVal ds 0
  if neg then (if v ≤ 9223372036854775808 then -(v : Int) else 0)
  else (if v ≤ 9223372036854775807 then (v : Int) else 0)

/-- `QByteArray::toInt()` (base 10, 32 bit): as `toLongLong` with the `int` range. -/
def toIntQ (xs : Bytes) : Int :=
  let v := toLongLong xs
  if v < -2147483648 || v > 2147483647 then 0 else v

def startsWith (p xs : Bytes) : Bool := p.isPrefixOf xs

def containsByte (c : UInt8) (xs : Bytes) : Bool := xs.any (· == c)

def isInfixB (d : Bytes) (xs : Bytes) : Bool := (breakOn d xs).isSome

end Qhttp
