import Qhttp.Model.Socket
/-
  `Server::incomingConnection` as a two-mode gate.
  Configuration null: `ServerPrivate::process` runs at once on the plain TCP socket.
  Configuration set: a QSslSocket is created and `process` runs only from its `encrypted()`
  signal; `error` schedules the socket for deletion.  That clear text cannot complete a
  handshake is QSslSocket's guarantee (a parameter here: `handshakeDone` is an event).
  Observations: `.pr 0 path` = the root handler ran for a request with this raw target,
  `.misc 40 [1]` = the connection's objects were released.
-/
namespace Qhttp
namespace Tls

inductive TEv
  | connect                     -- incomingConnection()
  | clear (bytes : Bytes)       -- bytes arriving before the handshake completed
  | handshakeDone               -- QSslSocket::encrypted()
  | sslError                    -- QAbstractSocket::error() on the TLS socket
  | request (target : Bytes)    -- one complete request for `target` arrives (in the clear on a
                                --   plain server, decrypted on a TLS connection)
  | clientClose
deriving Repr, DecidableEq, Inhabited

structure St where
  tls       : Bool              -- the server was given a TLS configuration
  connected : Bool := false
  encrypted : Bool := false
  processed : Bool := false     -- ServerPrivate::process() has created the HTTP socket
  routed    : Bool := false
  released  : Bool := false
  log       : List Obs := []
deriving Repr

def step (s : St) : TEv → St
  | .connect => if s.connected then s else { s with connected := true, processed := !s.tls }
  | .clear _ => s               -- consumed by the TLS layer (or, on a plain server, never used: see `request`)
  | .handshakeDone =>
    if s.connected && s.tls && !s.released && !s.encrypted then { s with encrypted := true, processed := true } else s
  | .sslError => if s.connected && s.tls && !s.released then { s with released := true, log := s.log ++ [.misc 40 [1]] } else s
  | .request target =>
    if s.connected && s.processed && !s.released && !s.routed
    then { s with routed := true, log := s.log ++ [.pr 0 target] } else s
  | .clientClose =>
    if s.connected && !s.released then { s with released := true, log := s.log ++ [.misc 40 [1]] } else s

def run (tls : Bool) (evs : List TEv) : St := evs.foldl step { tls := tls }

end Tls
end Qhttp
