import Qhttp.Model.Socket
/-
  src/src/filesystemhandler.cpp: path handling (`process`, `absolutePath`).

  Paths are UTF-8 byte strings.  Modelled, not verified (validated against Qt 5.15 by the `fs`
  and `qt` scenario families): `QUrl::fromPercentEncoding`, `QDir::setPath`, `absoluteFilePath`,
  `cleanPath`, `relativeFilePath`; the file system is a PARAMETER: a finite tree of directories
  and files without symbolic links, resolved the way the kernel does (every intermediate
  component must exist and be a directory; `..` of `/` is `/`).
-/
namespace Qhttp
namespace Fs

def SLASH : UInt8 := 47
def DOT : Bytes := [46]
def DOTDOT : Bytes := [46, 46]

def segs (p : Bytes) : List Bytes := splitF [SLASH] (p.length + 1) none p
def isAbs (p : Bytes) : Bool := p.head? == some SLASH
def joinSegs (l : List Bytes) : Bytes := joinWith [SLASH] l

/-- the segment stack of `qt_normalizePathSegments`: `""` and `.` vanish, `..` removes the
    preceding real name, or stays when there is none to remove -/
def normStack (acc : List Bytes) : List Bytes → List Bytes
  | [] => acc.reverse
  | s :: rest =>
    if s.isEmpty || s == DOT then normStack acc rest
    else if s == DOTDOT then
      (match acc with
       | top :: below => if top == DOTDOT then normStack (s :: acc) rest else normStack below rest
       | [] => normStack [s] rest)
    else normStack (s :: acc) rest

/-- `QDir::cleanPath` -/
def cleanPath (p : Bytes) : Bytes :=
  if p.isEmpty then [] else
  let st := normStack [] (segs p)
  if isAbs p then SLASH :: joinSegs st
  else if st.isEmpty then DOT else joinSegs st

/-- `QDir::setPath`: one trailing slash is removed (unless the path is just "/") -/
def storedRoot (spelling : Bytes) : Bytes :=
  if spelling.length > 1 && spelling.getLast? == some SLASH then spelling.dropLast else spelling

/-- `QDir::absoluteFilePath(fn)` for an absolute document root -/
def absoluteFilePath (root fn : Bytes) : Bytes :=
  if isAbs fn then fn else
  let r := storedRoot root
  if fn.isEmpty then r
  else if r.getLast? == some SLASH then r ++ fn else r ++ [SLASH] ++ fn

def commonPrefixLen : List Bytes → List Bytes → Nat
  | a :: as, c :: cs => if a == c then commonPrefixLen as cs + 1 else 0
  | _, _ => 0

/-- `QDir::relativeFilePath(fn)` for an absolute document root -/
def relativeFilePath (root fn : Bytes) : Bytes :=
  let dir := cleanPath (storedRoot root)
  let file := cleanPath fn
  if !isAbs file then file else
  let de := (segs dir).filter (!·.isEmpty)
  let fe := (segs file).filter (!·.isEmpty)
  let i := commonPrefixLen de fe
  let ups := (List.replicate (de.length - i) (DOTDOT ++ [SLASH])).flatten
  let res := ups ++ joinSegs (fe.drop i)
  if res.isEmpty then DOT else res

/-! ### the file system -/

inductive Kind | file | dir
deriving DecidableEq, Repr

/-- absolute, resolved locations (lists of names) that exist, with their kind -/
abbrev Tree := List (List Bytes × Kind)

def kindAt (t : Tree) (loc : List Bytes) : Option Kind :=
  if loc.isEmpty then some .dir else (t.find? (·.1 == loc)).map (·.2)

/-- kernel path resolution without symlinks: `cur` is a directory (reversed name list) -/
def walk (t : Tree) : List Bytes → List Bytes → Option (List Bytes)
  | cur, [] => some cur.reverse
  | cur, s :: rest =>
    if s.isEmpty || s == DOT then walk t cur rest
    else if s == DOTDOT then walk t (cur.drop 1) rest
    else
      match kindAt t (s :: cur).reverse with
      | some .dir => walk t (s :: cur) rest
      | some .file => if rest.isEmpty then some (s :: cur).reverse else none   -- ENOTDIR otherwise, even for a trailing slash
      | none => none

/-- where an absolute path string leads, if anywhere -/
def resolve (t : Tree) (abs : Bytes) : Option (List Bytes) := walk t [] (segs abs)

def DOTDOTSLASH : Bytes := [46, 46, 47]

/-- `FilesystemHandlerPrivate::absolutePath`: the location served for a decoded request path,
    `none` = 404 -/
def served (t : Tree) (root path : Bytes) : Option (List Bytes) :=
  let abs := absoluteFilePath root path
  match resolve t abs with
  | none => none
  | some loc =>
    let rel := relativeFilePath root path
    if startsWith DOTDOTSLASH rel || rel == DOTDOT then none else some loc

/-- `QUrl::fromPercentEncoding`: `%XX` with two hex digits becomes the byte, anything else stays -/
def hexv (c : UInt8) : Option Nat :=
  if 48 ≤ c ∧ c ≤ 57 then some (c.toNat - 48)
  else if 97 ≤ c ∧ c ≤ 102 then some (c.toNat - 87)
  else if 65 ≤ c ∧ c ≤ 70 then some (c.toNat - 55)
  else none

def pctDecode : Bytes → Bytes
  | 37 :: a :: c :: rest =>
    (match hexv a, hexv c with
     | some x, some y => UInt8.ofNat (x * 16 + y) :: pctDecode rest
     | _, _ => 37 :: pctDecode (a :: c :: rest))
  | x :: rest => x :: pctDecode rest
  | [] => []
termination_by l => l.length

end Fs
end Qhttp
