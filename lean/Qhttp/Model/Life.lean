import Qhttp.Model.FsHandler
/-
  Per-connection object lifetime behind the Server glue (`ServerPrivate::process`):
  the HTTP socket is deleted (deferred) when the transport reports `disconnected`, and a file
  copy in progress is stopped then.  Built on the composed filesystem-handler model.
  Observation `Obs.misc 30 [n]`: per-connection objects still alive at the end of the scenario.
-/
namespace Qhttp
namespace Life

structure St where
  fs      : FsHandler.St := {}
  stopped : Bool := false          -- the copier was stopped by `disconnected`
  deadSrv : Bool := false          -- the Server (owner of the socket) was destroyed
deriving Inhabited

inductive LEv
  | ev (e : Event)
  | killServer
deriving Repr, Inhabited

def dcCount (s : Sock) : Nat := Obs.countP Obs.isDc s.log

/-- after a socket-level event: the documented `disconnected -> deleteLater` connection of the
    Server, and `disconnected -> copier.stop` of processFile (stop -> finished -> close) -/
def afterEvent (env : Env) (fe : FsHandler.FsEnv) (dcBefore : Nat) (st : St) : St :=
  let s := st.fs.sock
  if !s.alive || dcCount s == dcBefore then st else
  let s := { s with delPending := true }
  match st.fs.cop with
  | some (cfg, cs) =>
    let finished := cs.log.any fun o => match o with | .misc 2 _ => true | _ => false
    if finished || st.stopped then { st with fs := { st.fs with sock := s } }
    else
      let cs' := Copier.stop cs
      let s := Sock.api env (FsHandler.app fe) s .close
      { st with fs := { st.fs with sock := s, cop := some (cfg, cs') }, stopped := true }
  | none => { st with fs := { st.fs with sock := s } }

def step (env : Env) (fe : FsHandler.FsEnv) (st : St) : LEv → St
  | .ev e =>
    if st.deadSrv then st else
    let dcBefore := dcCount st.fs.sock
    afterEvent env fe dcBefore { st with fs := FsHandler.step env fe st.fs e }
  | .killServer =>
    -- the Server owns the HTTP socket: everything per-connection goes with it, at once
    if st.deadSrv then st else
    let s := st.fs.sock
    let k := Obs.countP (fun o => match o with | .ev _ => true | _ => false) s.log
    { st with deadSrv := true, fs := { st.fs with sock := { s with alive := false, log := s.log ++ [Obs.ev k] } } }

def run (env : Env) (fe : FsHandler.FsEnv) (evs : List LEv) : St := evs.foldl (step env fe) {}

/-- per-connection objects still alive -/
def live (st : St) : Nat := if st.fs.sock.alive && !st.deadSrv then 1 else 0

end Life
end Qhttp
