import Qhttp.Model.FsHandler
/-
  Vocabulary of the translated `FilesystemHandlerPrivate::absolutePath` / `FilesystemHandler::process`
  (`QhttpGen/Fs.lean`).  QString paths are UTF-8 byte strings; `QDir::absoluteFilePath/relativeFilePath` are the
  model's `Fs.absoluteFilePath/relativeFilePath`; `QDir::exists(abs)` and `QFileInfo(abs).isDir()` are kernel path
  resolution on the model's tree.  What `process` decides is recorded as one action.  Hand-written, trusted like
  `CxxPrim.lean`.
-/
namespace Qhttp
namespace Fx

inductive Act
  | err (code : Int)                 -- socket->writeError(code)
  | dir (decoded abs : Bytes)        -- d->processDirectory(socket, decodedPath, absolutePath)
  | file (abs : Bytes)               -- d->processFile(socket, absolutePath)
deriving DecidableEq, Repr

def err (s : List Act) (code : Int) : List Act := s ++ [.err code]
def dir (s : List Act) (decoded abs : Bytes) : List Act := s ++ [.dir decoded abs]
def file (s : List Act) (abs : Bytes) : List Act := s ++ [.file abs]

/-- `documentRoot.exists(abs)` -/
def «exists» (fe : FsHandler.FsEnv) (abs : Bytes) : Bool := (Fs.resolve fe.tree abs).isSome

/-- `QFileInfo(abs).isDir()` -/
def isDir (fe : FsHandler.FsEnv) (abs : Bytes) : Bool :=
  match Fs.resolve fe.tree abs with
  | some loc => Fs.kindAt fe.tree loc == some .dir
  | none => false

/-- `documentRoot.path()`: the handlers of the scenario families are constructed with a document root -/
def rootPath (fe : FsHandler.FsEnv) : Option Bytes := some fe.root

end Fx
end Qhttp
