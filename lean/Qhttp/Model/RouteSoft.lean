import Qhttp.Model.RouteScn
/-
  A second kind of refusing middleware for the `route` language (token `soft`): it writes its own
  complete response — status 403, its `X-Mw` mark, `Content-Length: 6`, the body "denied" — and
  returns false WITHOUT closing the connection.  C06 says that what the client receives is then
  exactly that response: routing adds nothing to it.
-/
namespace Qhttp
namespace RouteScn

def DENIED : Bytes := lit ['d','e','n','i','e','d']

/-- what the harness's instrumented middleware / handlers do when refusals are `soft` -/
def softActOps (root : Node) : Act → List ApiOp
  | .mw id false =>
    [.note (.mw id false), .hdr X_MW (natDigits id) true, .hdr Sock.CONTENT_LENGTH (natDigits 6) true,
     .status 403 none, .wh, .write DENIED]
  | a => actOps root a

def softApp (sc : RouteScn) : App :=
  { onHp := fun _ =>
      match sc.root, sc.acts with
      | some r, some as => as.flatMap (softActOps r)
      | _, _ => [.err 500 none] }

def softScenario (sc : RouteScn) : Scenario :=
  { app := sc.softApp, events := [.new, .feed sc.stream, .turn] }

end RouteScn
end Qhttp
