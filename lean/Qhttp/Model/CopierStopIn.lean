import Qhttp.Model.Copier
/-
  src/src/qiodevicecopier.cpp with `stop()` called from INSIDE a write of the destination.

  `dest->write()` may reach a slot (the destination's own signals) that calls
  `QIODeviceCopier::stop()` before `write()` returns.  `stop()` sets `stopped`, disconnects the
  source's signals and emits `finished()`.  Back in `nextBlock()` the repaired code tests
  `if (stopped) return;` right after the successful write, so the call does nothing more: no
  `finished()` of its own when that block was the last one, no new single-shot timer otherwise.

  `Copier.step` has `stop` only as an event of its own, between two calls of the copier's slots.
  Here the write whose 0-based index is `k` (the value of the write counter when `dest->write()` is
  entered; every call of `destWrite` counts, also a failing one) stops the copier, provided it did
  not fail (a destination whose `writeData()` returns -1 does not get as far as the slot: harness
  `LogDest::writeData`, scenario token `stopin:k`).  Random-access sources only: the nested stop
  is placed in `nextBlock()`; `onReadyRead()` is taken from `Copier` unchanged.
-/
namespace Qhttp
namespace Copier

/-- `QIODeviceCopierPrivate::nextBlock()` when write number `k` of the destination calls `stop()` -/
def nextBlockS (c : Cfg) (k : Nat) (s : St) : St :=
  if s.stopped then s else
  let idx := s.reads
  let s := { s with reads := s.reads + 1 }
  if c.readFailAt == some idx then { s with log := s.log ++ [err, fin] } else
  let data := (c.src.drop s.pos).take c.block
  let s := { s with pos := s.pos + data.length }
  let past := rangeTo c != -1 && (s.pos : Int) > rangeTo c
  let n : Int := if past then (data.length : Int) - ((s.pos : Int) - rangeTo c - 1) else data.length
  let nested := s.writes == k                     -- this call of write() is write number k
  let (s, failed) := destWrite c s data n
  if failed then { s with log := s.log ++ [err, fin] } else
  -- still inside dest->write(): the slot calls stop() (after the destination has taken the bytes)
  let s := if nested then stop s else s
  -- `if (stopped) return;` after the write
  if s.stopped then s else
  if s.pos ≥ c.src.length || past then { s with log := s.log ++ [fin] }
  else { s with pending := .nextBlock }

/-- `Copier.step` with `nextBlockS` for the timer call of `nextBlock()` -/
def stepS (c : Cfg) (k : Nat) (s : St) : Ev → St
  | .turn =>
    match s.pending with
    | .none => s
    | .nextBlock => nextBlockS c k { s with pending := .none }
    | .readyRead => onReadyRead c { s with pending := .none }
  | e => step c s e

def stepKS (c : Cfg) (k : Nat) (sk : St × Nat) (e : Ev) : St × Nat :=
  (stepS c k { sk.1 with log := sk.1.log ++ [Obs.ev sk.2] } e, sk.2 + 1)

def runS (c : Cfg) (k : Nat) (evs : List Ev) : St := (evs.foldl (stepKS c k) (init c, 0)).1

end Copier
end Qhttp
