import Qhttp.Model.HeaderMap
/-
  src/src/parser.cpp, function by function.
  `QUrl` is a parameter (`UrlOracle`): the library's guarantees are relative to Qt's URL parser.
-/
namespace Qhttp
namespace Parser

/-- `Parser::parseHeaderList`: every line is cut at its first ':'; both halves trimmed; a line
    whose name is empty after trimming is refused (`parts[0].trimmed().isEmpty()`). -/
def parseHeaderList : List Bytes → HeaderMap → Option HeaderMap
  | [], m => some m
  | line :: rest, m =>
    match split [COLON] 1 line with
    | [n, v] =>
      if (trim n).isEmpty then none
      else parseHeaderList rest (HeaderMap.insert (trim n) (trim v) m)
    | _ => none

/-- `Parser::parseHeaders`: lines by CRLF, first line into at most three parts by ' '. -/
def parseHeaders (data : Bytes) (m : HeaderMap) : Option (Bytes × Bytes × Bytes × HeaderMap) :=
  match split CRLF 0 data with
  | [] => none            -- unreachable: `split` never returns an empty list (Props/C11)
  | first :: lines =>
    match split [SP] 2 first with
    | [p0, p1, p2] =>
      match parseHeaderList lines m with
      | some m' => some (p0, p1, p2, m')
      | none => none
    | _ => none

/-- `Socket::Method` enum values -/
def methodTable : List (Bytes × Nat) :=
  [ (lit ['O','P','T','I','O','N','S'], 1),
    (lit ['G','E','T'], 2),
    (lit ['H','E','A','D'], 4),
    (lit ['P','O','S','T'], 8),
    (lit ['P','U','T'], 16),
    (lit ['D','E','L','E','T','E'], 32),
    (lit ['T','R','A','C','E'], 64),
    (lit ['C','O','N','N','E','C','T'], 128) ]

def methodCode (tok : Bytes) : Option Nat :=
  (methodTable.find? (fun e => e.1 == tok)).map (·.2)

def HTTP10 : Bytes := lit ['H','T','T','P','/','1','.','0']
def HTTP11 : Bytes := lit ['H','T','T','P','/','1','.','1']

structure ReqHead where
  method  : Nat
  rawPath : Bytes
  headers : HeaderMap
deriving Repr, DecidableEq

/-- `Parser::parseRequestHeaders` (headers are inserted into the caller's map `m0`) -/
def parseRequestHeaders (data : Bytes) (m0 : HeaderMap := []) : Option ReqHead :=
  match parseHeaders data m0 with
  | none => none
  | some (p0, p1, p2, m) =>
    if p2 != HTTP10 && p2 != HTTP11 then none else
    match methodCode p0 with
    | none => none
    | some c => some { method := c, rawPath := p1, headers := m }

/-- `Parser::parseResponseHeaders`: status code by `toInt`, must be in 100..599 -/
def parseResponseHeaders (data : Bytes) : Option (Int × Bytes × HeaderMap) :=
  match parseHeaders data [] with
  | none => none
  | some (_, p1, p2, m) =>
    let code := toIntQ p1
    if 100 ≤ code && code ≤ 599 then some (code, p2, m) else none

end Parser
end Qhttp
