import Qhttp.Model.Handler
/-
  Vocabulary of the translated `Handler::route` (`QhttpGen/Route.lean`): one node of the handler tree.  The attached
  middleware carry the verdict they return for this request, QRegExp is the model's `Matcher` (a parameter: any function),
  sub-handlers are nodes of the model's tree, and what routing does is the model's own list of actions — a sub-handler's
  `route()` is the model's `route` on that node.  Hand-written, trusted like `CxxPrim.lean`.
-/
namespace Qhttp
namespace Rx

structure Env where
  id : Nat := 0
  mws : List (Nat × Bool) := []            -- d->middleware, with what process(socket) returns for this request
  redirects : List (Nat × QStr) := []      -- d->redirects: (pattern, template)
  subs : List (Nat × Node) := []           -- d->subHandlers: (pattern, handler)
  matcher : Matcher := fun _ _ => none     -- QRegExp
  own : Bool := false

/-- `middleware->process(socket)` -/
def mwProcess (s : List Act) (m : Nat × Bool) : List Act × Bool := (s ++ [.mw m.1 m.2], m.2)

/-- `pattern.indexIn(subject)`; then `capturedTexts().mid(1)` and `matchedLength()` of that match -/
def indexIn (re : Env) (pat : Nat) (subj : QStr) : Int :=
  match re.matcher pat subj with | some mt => (mt.idx : Int) | none => -1
def caps (re : Env) (pat : Nat) (subj : QStr) : List QStr :=
  match re.matcher pat subj with | some mt => mt.caps | none => []
def matchedLength (re : Env) (pat : Nat) (subj : QStr) : Int :=
  match re.matcher pat subj with | some mt => (mt.len : Int) | none => -1

/-- `QString::mid(n)` for `0 ≤ n` -/
def qmid (p : QStr) (n : Int) : QStr := p.drop n.toNat

/-- `socket->writeRedirect(QUrl::toPercentEncoding(loc, "/:?#[]@!$&'()*+,;=%"))` -/
def redirect (s : List Act) (re : Env) (loc : QStr) : List Act := s ++ [.redirect re.id loc]

/-- `handler->route(socket, path)` on a sub-handler: the model's `route` on that node -/
def subRoute (s : List Act) (re : Env) (child : Node) (path : QStr) : List Act := s ++ route re.matcher child path

/-- `process(socket, path)` (virtual) -/
def process (s : List Act) (re : Env) (path : QStr) : List Act := s ++ [.process re.id path]

end Rx
end Qhttp
