import Qhttp.Model.BasicAuth
import Qhttp.Model.CxxPrim
/-
  Vocabulary of the translated `BasicAuthMiddleware::process/verify` and `LocalAuthMiddleware::process`
  (`QhttpGen/Auth.lean`).  A QString is represented by its UTF-8 encoding; `QString::fromUtf8(b).toUtf8()` is the
  parameter `round` (what it does to bytes that are not the encoding of a string is not modelled — the bridge
  theorems hold for every `round` that leaves the registered credentials alone).  What the middleware does on the
  socket is recorded as a list of actions.  Hand-written, trusted like `CxxPrim.lean`.
-/
namespace Qhttp
namespace Ax

inductive Act
  | hdr (name value : Bytes)         -- socket->setHeader(name, value)
  | err (code : Int)                 -- socket->writeError(code)
deriving DecidableEq, Repr

def setHeader (s : List Act) (n v : Bytes) : List Act := s ++ [.hdr n v]
def err (s : List Act) (code : Int) : List Act := s ++ [.err code]

/-- what the middleware object holds and what the request carries -/
structure Env where
  table : List (Bytes × Bytes) := []     -- BasicAuthMiddlewarePrivate::map, in order of `add`
  realm : Bytes := []                    -- BasicAuthMiddlewarePrivate::realm
  hdrs  : HeaderMap := []                -- socket->headers()
  round : Bytes → Bytes := id            -- QString::fromUtf8(b).toUtf8()
  tokenHeader : Bytes := []              -- LocalAuthMiddlewarePrivate::tokenHeader
  token : Bytes := []                    -- LocalAuthMiddlewarePrivate::token, as UTF-8

/-- `QByteArray == IByteArray`: both sides lower-cased -/
def ieq (a b : Bytes) : Bool := lower a == lower b

/-- `QMap<QString,QString>::contains / value` -/
def mapContains (t : List (Bytes × Bytes)) (u : Bytes) : Bool := (BasicAuth.lookup t u).isSome
def mapValue (t : List (Bytes × Bytes)) (u : Bytes) : Bytes := (BasicAuth.lookup t u).getD []

/-- `Parser::split(data, delim, maxSplit, parts)` as proved of the translated parser.cpp
    (`QhttpBridge.Parser.split_eq`) -/
def parserSplit (data delim : Bytes) (maxSplit : Int) (parts : List Bytes) : List Bytes :=
  parts ++ split delim maxSplit.toNat data

/-- `QString(fmt).arg(a)` for a format whose only place marker is `%1`: every `%1` is replaced -/
def arg1 (fmt a : Bytes) : Bytes := joinWith a (split [37, 49] 0 fmt)

end Ax
end Qhttp
