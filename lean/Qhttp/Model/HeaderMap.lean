import Qhttp.Model.Bytes
/-
  `Socket::HeaderMap = QMultiMap<IByteArray, QByteArray>` as an association list kept in
  QMultiMap iteration order: ascending by case-folded key (`IByteArray::operator<` compares
  `toLower()` images), entries with equal keys most recently inserted first
  (`QMap::insertMulti` descends left on `!(x.key < key)`).

  Modelled, not verified: Qt 5.15 `QMap`/`QMultiMap`; validated by random operation sequences
  against a real `QMultiMap<IByteArray,QByteArray>` (harness family `qt`).
-/
namespace Qhttp

abbrev HeaderMap := List (Bytes × Bytes)

namespace HeaderMap

def keyLt (a c : Bytes) : Bool := bytesLt (lower a) (lower c)
def keyEq (a c : Bytes) : Bool := lower a == lower c

/-- `QMultiMap::insert` (= `insertMulti`): before the first entry whose key is not smaller. -/
def insert (k v : Bytes) : HeaderMap → HeaderMap
  | [] => [(k, v)]
  | (k', v') :: m => if keyLt k' k then (k', v') :: insert k v m else (k, v) :: (k', v') :: m

/-- `QMultiMap::values(k)`: most recently inserted first. -/
def values (k : Bytes) (m : HeaderMap) : List Bytes :=
  (m.filter (fun e => keyEq e.1 k)).map (·.2)

/-- `QMultiMap::value(k)`: most recently inserted, or the empty (null) array. -/
def value (k : Bytes) (m : HeaderMap) : Bytes :=
  match values k m with
  | v :: _ => v
  | [] => []

def count (k : Bytes) (m : HeaderMap) : Nat := (values k m).length
def contains (k : Bytes) (m : HeaderMap) : Bool := m.any (fun e => keyEq e.1 k)

/-- `QMultiMap::replace(k, v)`: overwrite the most recently inserted entry with that key
    (the key object itself is kept), or insert when there is none. -/
def replace (k v : Bytes) : HeaderMap → HeaderMap
  | [] => [(k, v)]
  | (k', v') :: m =>
    if keyEq k' k then (k', v) :: m
    else if keyLt k' k then (k', v') :: replace k v m
    else (k, v) :: (k', v') :: m

/-- `QMultiMap::remove(k)`: every entry with that key -/
def remove (k : Bytes) (m : HeaderMap) : HeaderMap := m.filter (fun e => !keyEq e.1 k)

end HeaderMap
end Qhttp
