import Qhttp.Model.Handler
import Qhttp.Model.Http
/-
  Scenarios of the `route` language: a handler tree behind the Server glue, one request.
  The routing decision (`route`) is turned into the API calls the instrumented handlers of the
  harness make on the socket; the socket model executes them as the reaction to `headersParsed`.
-/
namespace Qhttp

structure RouteScn where
  root    : Option Node
  matcher : Matcher
  raw     : Bytes            -- request target as sent
  p16     : QStr             -- QUrl(raw).path() as UTF-16 (oracle)

namespace RouteScn

def X_MW : Bytes := lit ['X','-','M','w']
def OK_BODY : Bytes := lit ['o','k']

mutual
  def ownOf : Node → Nat → Option Bool
    | .mk id _ _ subs own, k => if id = k then some own else ownOfSubs subs k
  def ownOfSubs : Subs → Nat → Option Bool
    | .nil, _ => none
    | .cons _ child rest, k => match ownOf child k with | some b => some b | none => ownOfSubs rest k
end

/-- what the harness's instrumented middleware / handlers do on the socket for each action -/
def actOps (root : Node) : Act → List ApiOp
  | .mw id true => [.note (.mw id true)]
  | .mw id false => [.note (.mw id false), .hdr X_MW (natDigits id) true, .err 403 none]
  | .redirect _ loc => [.redir (encodeLoc loc) false]
  | .process id path =>
    .note (.pr id (be16 path)) ::
      (if (ownOf root id).getD false then [.write OK_BODY, .close] else [.err 404 none])

def acts (sc : RouteScn) : Option (List Act) := serverRoute sc.matcher sc.root sc.p16

def app (sc : RouteScn) : App :=
  { onHp := fun _ =>
      match sc.root, sc.acts with
      | some r, some as => as.flatMap (actOps r)
      | _, _ => [.err 500 none] }

def stream (sc : RouteScn) : Bytes :=
  lit ['G','E','T',' '] ++ sc.raw ++ lit [' ','H','T','T','P','/','1','.','1'] ++ CRLF2

def scenario (sc : RouteScn) : Scenario :=
  { app := sc.app, events := [.new, .feed sc.stream, .turn] }

end RouteScn
end Qhttp
