import Qhttp.Model.Socket
/-
  src/src/basicauthmiddleware.cpp.  Credentials are kept as the UTF-8 bytes of the registered
  QStrings (the harness registers well-formed, NUL-free text).
  Modelled, not verified: `QByteArray::fromBase64` (Qt's default lenient decoder: bytes outside
  the alphabet, including '=', are skipped), `QByteArray::split(' ')`, `QMap::insert/contains/value`.
-/
namespace Qhttp
namespace BasicAuth

def b64val (c : UInt8) : Option Nat :=
  if 65 ≤ c ∧ c ≤ 90 then some (c.toNat - 65)
  else if 97 ≤ c ∧ c ≤ 122 then some (c.toNat - 97 + 26)
  else if 48 ≤ c ∧ c ≤ 57 then some (c.toNat - 48 + 52)
  else if c = 43 then some 62
  else if c = 47 then some 63
  else none

/-- Qt 5.15 `fromBase64` (IgnoreBase64DecodingErrors): `buf` holds `nbits` pending bits -/
def b64dec : Nat → Nat → Bytes → Bytes
  | _, _, [] => []
  | buf, nbits, c :: cs =>
    match b64val c with
    | none => b64dec buf nbits cs
    | some d =>
      let buf := buf * 64 + d
      let nbits := nbits + 6
      if nbits ≥ 8 then
        UInt8.ofNat (buf / 2 ^ (nbits - 8)) :: b64dec (buf % 2 ^ (nbits - 8)) (nbits - 8) cs
      else b64dec buf nbits cs

def fromBase64 (x : Bytes) : Bytes := b64dec 0 0 x

/-- `QMap<QString,QString>`: later `add` of the same user replaces the earlier one -/
def lookup (table : List (Bytes × Bytes)) (u : Bytes) : Option Bytes :=
  (table.reverse.find? (fun e => e.1 == u)).map (·.2)

def BASIC : Bytes := lit ['b','a','s','i','c']

/-- `BasicAuthMiddleware::process`: the verdict for an Authorization header value -/
def verdict (table : List (Bytes × Bytes)) (v : Bytes) : Bool :=
  match splitChar 32 v with
  | [scheme, tok] =>
    lower scheme == BASIC &&
    (match split [COLON] 1 (fromBase64 tok) with
     | [u, p] => lookup table u == some p
     | _ => false)
  | _ => false

def AUTHORIZATION : Bytes := lit ['A','u','t','h','o','r','i','z','a','t','i','o','n']
def WWW_AUTH : Bytes := lit ['W','W','W','-','A','u','t','h','e','n','t','i','c','a','t','e']

/-- `Basic realm="<realm>"` -/
def challenge (realm : Bytes) : Bytes :=
  lit ['B','a','s','i','c',' ','r','e','a','l','m','=','"'] ++ realm ++ [34]

/-- what the middleware does on the socket when `headersParsed` routes the request through a
    handler that has it attached and whose own processing answers 200 "ok" -/
def ops (table : List (Bytes × Bytes)) (realm : Bytes) (s : Sock) : List ApiOp :=
  if verdict table (HeaderMap.value AUTHORIZATION s.reqHeaders) then
    [.note (.mw 0 true), .note (.pr 0 []), .write (lit ['o','k']), .close]
  else
    [.note (.mw 0 false), .hdr WWW_AUTH (challenge realm) true, .err 401 none]

end BasicAuth
end Qhttp
