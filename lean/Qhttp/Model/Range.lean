import Qhttp.Model.Bytes
/-
  src/src/range.cpp — hand model.  `QhttpGen/Range.lean` is the same code translated mechanically
  from the C++ on every run; `QhttpBridge/Range.lean` proves the two equal.
  qint64 is modelled as Int (the properties bound magnitudes below 2^62; see Props/C16 for the
  no-overflow lemma).
-/
namespace Qhttp

structure Range where
  frm  : Int
  to   : Int
  size : Int
deriving DecidableEq, Repr, Inhabited

namespace Range

/-- `Range()` and every failed string parse -/
def invalid : Range := ⟨1, 0, -1⟩

/-- `Range(qint64 from, qint64 to, qint64 dataSize)` -/
def ofNums (f t s : Int) : Range := ⟨f, if t < 0 then -1 else t, if s < 0 then -1 else s⟩

/-- `Range(const Range &other, qint64 dataSize)`: raw bounds kept, size taken as given -/
def withSize (r : Range) (s : Int) : Range := ⟨r.frm, r.to, s⟩

def isValid (r : Range) : Bool :=
  if r.size ≥ 0 then
    if r.frm < 0 then decide (r.size + r.frm ≥ 0)
    else if r.to ≤ -1 then decide (r.frm < r.size)
    else decide (r.frm ≤ r.to ∧ r.to < r.size)
  else
    decide (r.frm < 0 ∨ r.to ≤ -1 ∨ r.frm ≤ r.to)

/-- `Range::from()` -/
def absFrom (r : Range) : Int :=
  if r.frm < 0 ∧ r.size ≠ -1 then (if -r.frm ≥ r.size then 0 else r.size + r.frm)
  else if (r.frm > r.to ∧ r.to ≠ -1) ∨ (r.frm ≥ r.size ∧ r.size ≠ -1) then 0
  else r.frm

/-- `Range::to()` -/
def absTo (r : Range) : Int :=
  if r.frm < 0 ∧ r.size ≠ -1 then r.size - 1
  else if r.frm > 0 ∧ r.to = -1 ∧ r.size ≠ -1 then r.size - 1
  else if r.frm > r.to ∧ r.to ≠ -1 then r.frm
  else if (r.to ≥ r.size ∨ r.to = -1) ∧ r.size ≠ -1 then r.size - 1
  else r.to

/-- `Range::length()` -/
def length (r : Range) : Int :=
  if !r.isValid then -1
  else if r.frm < 0 then -r.frm
  else if r.to ≥ 0 then r.to - r.frm + 1
  else if r.size ≥ 0 then r.size - r.frm
  else -1

/-- `Range::contentRange()` as Latin-1 text -/
def contentRange (r : Range) : Bytes :=
  if r.size ≥ 0 then
    if r.isValid then intText r.absFrom ++ [45] ++ intText r.absTo ++ [47] ++ intText r.size
    else [42, 47] ++ intText r.size
  else
    if r.isValid then intText r.absFrom ++ [45] ++ intText r.absTo ++ [47, 42]
    else []

/-- `QString::toInt` on a non-empty all-digit text: the value if it fits an `int` -/
def digitsToInt (ds : Bytes) : Option Int :=
  let v := digitsVal ds 0
  if v ≤ 2147483647 then some (v : Int) else none

/-- `Range(const QString &range, qint64 dataSize)` for ASCII text: trim, `^(\d*)-(\d*)$`,
    32-bit `toInt`, the `-n` form stored as `from = -n, to = -1` (`-0` is invalid).  The size is stored as given. -/
def ofString (text : Bytes) (s : Int) : Range :=
  let t := trim text
  match breakOn [45] t with
  | none => invalid
  | some (a, c) =>
    if !(a.all isDigit) || !(c.all isDigit) then invalid else
    if a.isEmpty && c.isEmpty then invalid else
    match (if a.isEmpty then some 0 else digitsToInt a), (if c.isEmpty then some (-1) else digitsToInt c) with
    | some f, some t' =>
      if a.isEmpty then (if t' = 0 then invalid else ⟨-t', -1, s⟩) else ⟨f, t', s⟩
    | _, _ => invalid

end Range
end Qhttp
