import Qhttp.Model.Socket
/-
  src/src/qiodevicecopier.cpp over abstract devices.

  The source is a byte string that is either random-access (`QBuffer`/`QFile`: `read`, `seek`,
  `pos`, `atEnd`) or sequential (data arrives in pieces: `readyRead`, then `readChannelFinished`).
  A random-access source may already have been read from when the copier is started (`prePos`: its
  position when the scenario begins; `start()` seeks only for a range start > 0).  A sequential
  source may hold bytes that were never announced by a `readyRead()` of their own (`arriveQ`: for
  example a last piece that comes together with the end of the stream).
  Device failures are parameters: open/seek fail flags, the index of the read / write call that
  returns -1.  `QTimer::singleShot(0, …)` is a pending call executed by the next `turn`.
  Observations use `Obs.misc`: tag 1 = bytes handed to the destination, 2 = finished(), 3 = error().
-/
namespace Qhttp
namespace Copier

structure Cfg where
  src          : Bytes
  seq          : Bool := false
  block        : Nat := 65536
  range        : Option (Int × Int) := none      -- setRange(from, to)
  srcOpenFails : Bool := false
  dstOpenFails : Bool := false
  seekFails    : Bool := false
  readFailAt   : Option Nat := none              -- 0-based index of the read() call that fails
  writeFailAt  : Option Nat := none              -- 0-based index of the write() call that fails
  prePos       : Nat := 0                        -- random-access source: its position when the scenario begins
                                                 -- (≤ |src|: a QBuffer opened for reading refuses a position beyond its size)
deriving Repr, Inhabited

inductive Ev
  | start | turn | stop
  | arrive (bytes : Bytes)      -- sequential source: a piece of data becomes available
  | eof                         -- sequential source: end of data
  | arriveQ (bytes : Bytes)     -- sequential source: data is appended to its buffer, no readyRead() is emitted
deriving Repr, Inhabited, DecidableEq

inductive Pending | none | nextBlock | readyRead
deriving Repr, DecidableEq, Inhabited

structure St where
  pos       : Nat := 0                 -- read position of a random-access source
  buffered  : Bytes := []              -- sequential source: arrived and not yet read
  srcClosed : Bool := false
  pending   : Pending := .none         -- the 0 ms single-shot timer
  connected : Bool := false            -- readyRead / readChannelFinished connected to the private slots
  stopped   : Bool := false
  reads     : Nat := 0
  writes    : Nat := 0
  log       : List Obs := []
deriving Repr, Inhabited

def wrote (b : Bytes) : Obs := .misc 1 b
def fin : Obs := .misc 2 []
def err : Obs := .misc 3 []

def rangeFrom (c : Cfg) : Int := match c.range with | some (f, _) => f | none => 0
def rangeTo (c : Cfg) : Int := match c.range with | some (_, t) => t | none => -1

/-- `dest->write(data, n)`: -1 for a negative count (QIODevice refuses it) or an injected failure;
    returns the new state and whether the write failed -/
def destWrite (c : Cfg) (s : St) (data : Bytes) (n : Int) : St × Bool :=
  let idx := s.writes
  let s := { s with writes := s.writes + 1 }
  if n < 0 || c.writeFailAt == some idx then (s, true)
  else
    let d := data.take n.toNat
    ({ s with log := if d.isEmpty then s.log else s.log ++ [wrote d] }, false)

/-- `QIODeviceCopier::start()` -/
def start (c : Cfg) (s : St) : St :=
  let s := { s with stopped := false }
  if c.srcOpenFails then { s with log := s.log ++ [err, fin] } else
  if c.dstOpenFails then { s with log := s.log ++ [err, fin] } else
  let seekNeeded := rangeFrom c > 0 && !c.seq
  if seekNeeded && (c.seekFails || (rangeFrom c).toNat > c.src.length) then { s with log := s.log ++ [err, fin] } else
  let s := if seekNeeded then { s with pos := (rangeFrom c).toNat } else s
  { s with connected := true, pending := if c.seq then .readyRead else .nextBlock }

/-- `QIODeviceCopierPrivate::onReadyRead()` (sequential sources) -/
def onReadyRead (c : Cfg) (s : St) : St :=
  if s.stopped then s else
  let data := if s.srcClosed then [] else s.buffered
  let s := { s with buffered := if s.srcClosed then s.buffered else [] }
  let (s, failed) := destWrite c s data data.length
  if failed then { s with srcClosed := true, log := s.log ++ [err] } else s

/-- `QIODeviceCopierPrivate::onReadChannelFinished()` -/
def onReadChannelFinished (c : Cfg) (s : St) : St :=
  let s := if !s.srcClosed && s.buffered.length != 0 then onReadyRead c s else s
  { s with log := s.log ++ [fin] }

/-- `QIODeviceCopierPrivate::nextBlock()` -/
def nextBlock (c : Cfg) (s : St) : St :=
  if s.stopped then s else
  let idx := s.reads
  let s := { s with reads := s.reads + 1 }
  if c.readFailAt == some idx then { s with log := s.log ++ [err, fin] } else
  let data := (c.src.drop s.pos).take c.block
  let s := { s with pos := s.pos + data.length }
  let past := rangeTo c != -1 && (s.pos : Int) > rangeTo c
  let n : Int := if past then (data.length : Int) - ((s.pos : Int) - rangeTo c - 1) else data.length
  let (s, failed) := destWrite c s data n
  if failed then { s with log := s.log ++ [err, fin] } else
  if s.pos ≥ c.src.length || past then { s with log := s.log ++ [fin] }
  else { s with pending := .nextBlock }

/-- `QIODeviceCopier::stop()` -/
def stop (s : St) : St :=
  { s with connected := false, stopped := true, log := s.log ++ [fin] }

def step (c : Cfg) (s : St) : Ev → St
  | .start => start c s
  | .turn =>
    match s.pending with
    | .none => s
    | .nextBlock => nextBlock c { s with pending := .none }
    | .readyRead => onReadyRead c { s with pending := .none }
  | .stop => stop s
  | .arrive b =>
    if !c.seq || s.srcClosed then s else
    let s := { s with buffered := s.buffered ++ b }
    if s.connected then onReadyRead c s else s
  | .eof =>
    if !c.seq then s else
    if s.connected then onReadChannelFinished c s else s
  | .arriveQ b =>
    if !c.seq || s.srcClosed then s else { s with buffered := s.buffered ++ b }

def stepK (c : Cfg) (sk : St × Nat) (e : Ev) : St × Nat :=
  (step c { sk.1 with log := sk.1.log ++ [Obs.ev sk.2] } e, sk.2 + 1)

/-- the state a scenario begins in: nothing has happened but the random-access source stands at `prePos` -/
def init (c : Cfg) : St := { pos := c.prePos }

def run (c : Cfg) (evs : List Ev) : St := (evs.foldl (stepK c) (init c, 0)).1

end Copier
end Qhttp
