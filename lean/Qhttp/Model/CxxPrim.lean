import Qhttp.Model.Socket
/-
  The vocabulary the translated C++ is written in (`tools/cxx2lean_qt.py` -> `QhttpGen/Sock.lean`).

  Hand-written, small, and part of the trusted base in the same sense as `Bytes.lean`: each definition
  says what ONE Qt call, or one signal emission, means on the model's state.

    QByteArray::size/indexOf/left/remove/truncate/number/toLongLong -> size/indexOf/left/removeAt/truncate/number
    QTcpSocket::readAll/write/close on the transport             -> tcpReadAll/tcpWrite/tcpClose
    QIODevice::close/bytesAvailable/write on the Socket itself    -> qioClose/qioBytesAvailable/qioWrite
    Q_EMIT q->signal()                                           -> emitHp/emitRr/emitRcf/emitBw (the application
                                                                     reacts inside the emission)
    q->publicMethod() called from SocketPrivate                  -> viaQ (a `disconnected` raised inside is delivered)
    Parser::parseRequestHeaders / parsePath with out-parameters  -> parseRequestHeaders / parsePath
-/
namespace Qhttp
namespace Cxx

/-! ### QByteArray (indices are C++ `int`s) -/

def size (b : Bytes) : Int := b.length

/-- `indexOf(d)`: start of the first occurrence, -1 when there is none -/
def indexOf (b d : Bytes) : Int :=
  match breakOn d b with
  | some (a, _) => a.length
  | none => -1

/-- `left(n)`: the whole array for `n ≥ size`, empty for `n < 0` -/
def left (b : Bytes) (n : Int) : Bytes := if n < 0 then [] else b.take n.toNat

/-- `remove(pos, len)` -/
def removeAt (b : Bytes) (pos len : Int) : Bytes :=
  if len ≤ 0 ∨ pos < 0 ∨ pos ≥ b.length then b else b.take pos.toNat ++ b.drop (pos.toNat + len.toNat)

/-- `truncate(n)`: no effect for `n ≥ size`; `n < 0` empties the array -/
def truncate (b : Bytes) (n : Int) : Bytes := if n < b.length then b.take n.toNat else b

def number (n : Int) : Bytes := intText n

/-- `mid(pos, len)` (Qt 5 `QContainerImplHelper::mid`): `len < 0` means "to the end" -/
def mid (b : Bytes) (pos len : Int) : Bytes :=
  let n : Int := b.length
  if pos > n then [] else
  if pos < 0 then
    if len < 0 ∨ len + pos ≥ n then b
    else if len + pos ≤ 0 then [] else b.take (len + pos).toNat
  else
    let l : Int := if len < 0 ∨ len > n - pos then n - pos else len
    (b.drop pos.toNat).take l.toNat

/-- `indexOf(d, from)`: a negative `from` counts from the end -/
def indexOfFrom (b d : Bytes) (frm : Int) : Int :=
  let f : Int := if frm < 0 then max (frm + b.length) 0 else frm
  if f > b.length then -1 else
  match breakOn d (b.drop f.toNat) with
  | some (a, _) => f + a.length
  | none => -1

/-! ### QList<QByteArray> -/

def count (l : List Bytes) : Int := l.length
/-- `l[i]` / `l.at(i)` for an index the code has checked to be in range -/
def nth (l : List Bytes) (i : Int) : Bytes := l.getD i.toNat []
/-- `last()` on a non-empty list -/
def last (l : List Bytes) : Bytes := l.getLastD []
/-- `takeFirst()` on a non-empty list -/
def takeFirst (l : List Bytes) : Bytes × List Bytes := (l.headD [], l.tail)

/-! ### enum codes (declaration order; checked against the C++ by `QhttpBridge.Sock.enum_codes`) -/

def rcode : RState → Int | .headers => 0 | .data => 1 | .finished => 2
def wcode : WState → Int | .none => 0 | .headers => 1 | .data => 2 | .finished => 3

/-! ### the transport (`d->socket`, a QTcpSocket) -/

/-- `socket->readAll()`: everything buffered, nothing from a closed device -/
def tcpReadAll (s : Sock) : Sock × Bytes :=
  if s.tcp.devOpen then ({ s with tcp := { s.tcp with inbox := [] } }, s.tcp.inbox) else (s, [])

/-- `socket->write(bytes)`; the result is the count accepted or -1 -/
def tcpWrite (s : Sock) (b : Bytes) : Sock × Int :=
  (Sock.tcpWrite s b, if s.tcp.devOpen && s.tcp.conn == .connected then (b.length : Int) else -1)

def tcpClose (s : Sock) : Sock := Sock.tcpClose s

/-! ### QIODevice, the base class of Socket -/

def qioClose (s : Sock) : Sock := { s with ioOpen := false, qio := [] }
def qioBytesAvailable (s : Sock) : Int := s.qio.length

/-- `QIODevice::write(data)` on the Socket: refused when the device is not open, else the virtual
    `writeData` -/
def qioWrite (writeData : Sock → Bytes → Sock × Int) (s : Sock) (b : Bytes) : Sock :=
  if !s.ioOpen then s else (writeData s b).1

/-- `connect(d->socket, &QTcpSocket::disconnected, this, &Socket::deleteLater)` -/
def connectDisconnectedDeleteLater (s : Sock) : Sock := { s with closeCalled := true }

/-! ### signals of Socket: the connected slots run inside the emission -/

def emitHp (env : Env) (app : App) (s : Sock) : Sock := Sock.emit env app s .hp (app.onHp s)
def emitRr (env : Env) (app : App) (s : Sock) : Sock := Sock.emit env app s .rr (app.onRr s)
def emitRcf (env : Env) (app : App) (s : Sock) : Sock := Sock.emit env app s .rcf (app.onRcf s)
def emitBw (env : Env) (app : App) (s : Sock) (n : Int) : Sock := Sock.emit env app s (.bw n) (app.onBw s)

/-- a public method of `q` called from the private object: when it closed the transport, the
    `disconnected` signal is delivered before the caller goes on -/
def viaQ (env : Env) (app : App) (s : Sock) : Sock := if s.dcFlag then Sock.emitDc env app s else s

/-! ### static parser functions with out-parameters bound to members -/

/-- `Parser::parseRequestHeaders(data, requestMethod, requestRawPath, requestHeaders)`.  On failure the
    members are left as they were (the C++ may have filled part of the map: no accessor shows it,
    `isHeadersParsed()` aside, before `headersParsed()` fired). -/
def parseRequestHeaders (s : Sock) (data : Bytes) : Sock × Bool :=
  match Parser.parseRequestHeaders data s.reqHeaders with
  | some rh => ({ s with method := rh.method, rawPath := rh.rawPath, reqHeaders := rh.headers }, true)
  | none => (s, false)

/-- `Parser::parsePath(rawPath, requestPath, requestQueryString)` -/
def parsePath (env : Env) (s : Sock) (raw : Bytes) : Sock × Bool :=
  match env.url raw with
  | some (p, q) => ({ s with path := p, query := q.foldl (fun m e => Sock.qmInsert e.1 e.2 m) s.query }, true)
  | none => (s, false)

/-- forget the parsed request fields (what a rejected head leaves behind in them is not modelled) -/
def eraseReq (s : Sock) : Sock := { s with method := 0, rawPath := [], reqHeaders := [] }

end Cxx
end Qhttp
