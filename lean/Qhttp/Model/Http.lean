import Qhttp.Model.Socket
/-
  A strict HTTP/1.x message reader used only by property predicates (never by the model of
  the library): one start line, header lines `name: value`, blank line, the rest is the body.
  It shares nothing with `Parser` except `breakOn`.
-/
namespace Qhttp
namespace Http

structure Msg where
  start   : Bytes
  headers : List (Bytes × Bytes)      -- in wire order, names as spelled
  body    : Bytes
deriving DecidableEq, Repr, Inhabited

/-- a header line must be `name ": " value` with a non-empty name free of ':' -/
def headerLine (l : Bytes) : Option (Bytes × Bytes) :=
  match breakOn [COLON, SP] l with
  | some (n, v) => if n.isEmpty || containsByte COLON n then none else some (n, v)
  | none => none

def headerLines : List Bytes → Option (List (Bytes × Bytes))
  | [] => some []
  | l :: ls =>
    match headerLine l, headerLines ls with
    | some h, some hs => some (h :: hs)
    | _, _ => none

def parse (wire : Bytes) : Option Msg :=
  match breakOn CRLF2 wire with
  | none => none
  | some (head, body) =>
    match splitF CRLF (head.length + 1) none head with
    | [] => none
    | start :: ls =>
      match headerLines ls with
      | some hs => some { start := start, headers := hs, body := body }
      | none => none

structure Status where
  code   : Nat
  reason : Bytes
deriving DecidableEq, Repr, Inhabited

/-- `HTTP/1.x SP digits SP reason` -/
def statusLine (l : Bytes) : Option Status :=
  match l with
  | 72 :: 84 :: 84 :: 80 :: 47 :: 49 :: 46 :: v :: 32 :: rest =>
    if v != 48 && v != 49 then none else
    match breakOn [SP] rest with
    | some (c, r) => if c.isEmpty || !c.all isDigit then none else some { code := digitsVal c 0, reason := r }
    | none => none
  | _ => none

/-- values carried under a (case-folded) name, each line split at `", "`, in wire order -/
def valuesOf (name : Bytes) (hs : List (Bytes × Bytes)) : List Bytes :=
  (hs.filter (fun h => lower h.1 == lower name)).flatMap
    (fun h => splitF [44, 32] (h.2.length + 1) none h.2)

def names (hs : List (Bytes × Bytes)) : List Bytes := (hs.map (fun h => lower h.1)).eraseDups

/-- insertion sort of byte strings: canonical form of a multiset of values -/
def insertSorted (x : Bytes) : List Bytes → List Bytes
  | [] => [x]
  | y :: ys => if bytesLt y x then y :: insertSorted x ys else x :: y :: ys
def sortBytes (l : List Bytes) : List Bytes := l.foldr insertSorted []

end Http
end Qhttp
