import Qhttp.Model.Handler
/-
  src/src/proxysocket.cpp (+ proxyhandler.cpp) composed with the socket model.

  The downstream side is the socket model on the simulated transport.  The upstream side is a
  real loopback connection in the harness; here it is a queue in each direction that one
  event-loop `turn` drains completely (the harness's `turn` runs the loop until quiescent).
  Observation `Obs.misc 20 bytes`: bytes the upstream server received during a turn.
-/
namespace Qhttp
namespace Proxy

inductive UpConn | none | connecting | connected | closed
deriving DecidableEq, Repr, Inhabited

structure Cfg where
  peerIP   : Bytes := lit ['1','0','.','1','.','2','.','3']
  refuse   : Bool := false          -- nothing listens on the upstream port
  path     : Bytes := []            -- the routed path (`mPath`) in UTF-8
deriving Repr, Inhabited

structure St where
  sock            : Sock := {}
  conn            : UpConn := .none
  buf             : Bytes := []      -- mUpstreamWrite
  headersWritten  : Bool := false
  headersParsed   : Bool := false
  upRead          : Bytes := []      -- mUpstreamRead
  toUp            : Bytes := []      -- written to the upstream socket, not yet delivered
  fromUp          : List Bytes := [] -- chunks the upstream server wrote, not yet delivered
  upClosing       : Bool := false    -- the upstream server closed its side (delivered after the data)
  errored         : Bool := false
  seenRd          : Nat := 0         -- how many `rd` observations of the socket were already relayed
deriving Repr, Inhabited

/-- `ProxySocket::methodToString` -/
def methodToString (code : Nat) : Bytes :=
  match Parser.methodTable.find? (fun e => e.2 == code) with
  | some (tok, _) => tok
  | none => []

def XFF : Bytes := lit ['X','-','F','o','r','w','a','r','d','e','d','-','F','o','r']
def XRI : Bytes := lit ['X','-','R','e','a','l','-','I','P']

/-- bytes left alone in the request target: unreserved and the sub-delimiters that may appear in a
    path (`QUrl::toPercentEncoding(mPath, "/:@!$&'()*+,;=")`) -/
def pathKeep (c : UInt8) : Bool :=
  (65 ≤ c && c ≤ 90) || (97 ≤ c && c ≤ 122) || (48 ≤ c && c ≤ 57) ||
  c == 45 || c == 46 || c == 95 || c == 126 ||
  c == 47 || c == 58 || c == 64 || c == 33 || c == 36 || c == 38 || c == 39 || c == 40 || c == 41 ||
  c == 42 || c == 43 || c == 44 || c == 59 || c == 61

/-- the client's query string as sent: everything from the first '?' of the raw target -/
def rawQuery (rawPath : Bytes) : Bytes :=
  match breakOn [63] rawPath with
  | some (_, q) => 63 :: q
  | none => []

/-- bytes of the raw query passed on unchanged: unreserved, delimiters, '%' (existing escapes)
    (`QByteArray::toPercentEncoding("?/:@!$&'()*+,;=%#[]")`) -/
def queryKeep (c : UInt8) : Bool :=
  pathKeep c || c == 63 || c == 37 || c == 35 || c == 91 || c == 93

/-- the query part of the upstream request target -/
def upstreamQuery (rawPath : Bytes) : Bytes := pctEncode queryKeep (rawQuery rawPath)

/-- the upstream request head written by `onUpstreamConnected` -/
def upstreamHead (c : Cfg) (s : Sock) : Bytes :=
  let target := 47 :: pctEncode pathKeep c.path ++ upstreamQuery s.rawPath
  let line := methodToString s.method ++ [SP] ++ target ++ lit [' ','H','T','T','P','/','1','.','1'] ++ CRLF
  let h := s.reqHeaders
  let fwd := HeaderMap.values XFF h              -- most recently received first
  let h := if fwd.isEmpty then HeaderMap.insert XFF c.peerIP h
           else HeaderMap.insert XFF ((fwd.reverse.flatMap fun v => v ++ [44, 32]) ++ c.peerIP) (HeaderMap.remove XFF h)
  let h := if HeaderMap.contains XRI h then h else HeaderMap.insert XRI c.peerIP h
  line ++ Sock.headerLines h ++ CRLF

def app : App := { onRr := fun _ => [.readAll] }

def rdsOf (log : List Obs) : List Bytes := log.filterMap fun o => match o with | .rd b => some b | _ => none

/-- `onDownstreamReadyRead` ran for every `readyRead` the socket emitted during the last socket
    event: what it read goes upstream directly or into the buffer -/
def relayReads (st : St) : St :=
  let rds := rdsOf st.sock.log
  let news := (rds.drop st.seenRd).flatten
  let st := { st with seenRd := rds.length }
  if st.conn == .none then st else
  if st.headersWritten then { st with toUp := st.toUp ++ news } else { st with buf := st.buf ++ news }

/-- `ProxyHandler::process` at headersParsed: the ProxySocket is created and starts connecting -/
def afterRoute (hpBefore : Nat) (st : St) : St :=
  if st.conn == .none && Obs.countP Obs.isHp st.sock.log > hpBefore then { st with conn := .connecting } else st

def sockEvent (env : Env) (st : St) (e : Event) : St :=
  let hpBefore := Obs.countP Obs.isHp st.sock.log
  let k := Obs.countP (fun o => match o with | .ev _ => true | _ => false) st.sock.log
  let (s1, _) := Sock.stepK env app (st.sock, k) e
  -- reads made before the ProxySocket existed are not its reads
  let st := { st with sock := s1 }
  let st := afterRoute hpBefore st
  relayReads st

/-- `onUpstreamError`: 502 before a response head was relayed, else close -/
def onUpstreamError (env : Env) (st : St) : St :=
  if st.headersParsed then { st with sock := Sock.api env app st.sock .close, errored := true }
  else { st with sock := Sock.api env app st.sock (.err 502 none), errored := true }

/-- `onUpstreamReadyRead` for one delivered chunk -/
def onUpstreamReadyRead (env : Env) (st : St) (chunk : Bytes) : St :=
  if st.headersParsed then { st with sock := Sock.api env app st.sock (.write chunk) } else
  let acc := st.upRead ++ chunk
  match breakOn CRLF2 acc with
  | none => { st with upRead := acc }
  | some (head, rest) =>
    match Parser.parseResponseHeaders head with
    | none => { st with upRead := acc, sock := Sock.api env app st.sock (.err 502 none) }
    | some (code, reason, hs) =>
      let s := st.sock
      let s := Sock.api env app s (.status code (some reason))
      let s := if s.alive then { s with respHeaders := hs } else s
      let s := Sock.api env app s .wh
      let s := Sock.api env app s (.write rest)
      { st with sock := s, headersParsed := true, upRead := [] }

def deliverAll (env : Env) : List Bytes → St → St
  | [], st => st
  | c :: cs, st => deliverAll env cs (onUpstreamReadyRead env st c)

/-- one event-loop turn, run until quiescent -/
def turn (env : Env) (c : Cfg) (st : St) : St :=
  let s := st.sock
  if !s.alive then st else
  let hpBefore := Obs.countP Obs.isHp s.log
  let k := Obs.countP (fun o => match o with | .ev _ => true | _ => false) s.log
  let s := { s with log := s.log ++ [Obs.ev k] }
  let s := if s.initPending then Sock.onReadyRead env app { s with initPending := false } else s
  let st := relayReads (afterRoute hpBefore { st with sock := s })
  -- the connection attempt completes
  let st :=
    if st.conn == .connecting then
      if c.refuse then onUpstreamError env { st with conn := .closed }
      else
        let st := { st with conn := .connected, headersWritten := true,
                            toUp := st.toUp ++ upstreamHead c st.sock ++ st.buf, buf := [] }
        st
    else st
  -- everything written upstream reaches the upstream server
  let st :=
    if st.conn == .connected && !st.toUp.isEmpty
    then { st with sock := { st.sock with log := st.sock.log ++ [Obs.misc 20 st.toUp] }, toUp := [] } else st
  -- everything the upstream server wrote reaches the proxy, then its close
  let st := if st.conn == .connected then deliverAll env st.fromUp { st with fromUp := [] } else st
  let st :=
    if st.conn == .connected && st.upClosing then onUpstreamError env { st with conn := .closed, upClosing := false }
    else st
  let s := st.sock
  { st with sock := if s.delPending then { s with alive := false, delPending := false, log := s.log ++ [Obs.del] } else s }

inductive PEv
  | sock (e : Event)
  | turn
  | up (bytes : Bytes)      -- the upstream server writes
  | upClose                 -- the upstream server closes the connection
deriving Repr, Inhabited

def marker (st : St) : St :=
  let s := st.sock
  if !s.alive then st else
  let k := Obs.countP (fun o => match o with | .ev _ => true | _ => false) s.log
  { st with sock := { s with log := s.log ++ [Obs.ev k] } }

def step (env : Env) (c : Cfg) (st : St) : PEv → St
  | .sock e => sockEvent env st e
  | .turn => turn env c st
  | .up b => let st := marker st; if st.conn == .connected then { st with fromUp := st.fromUp ++ [b] } else st
  | .upClose => let st := marker st; if st.conn == .connected then { st with upClosing := true } else st

def run (env : Env) (c : Cfg) (evs : List PEv) : St := evs.foldl (step env c) {}

/-! ### reading a scenario: what the scripted upstream server manages to send

  The upstream server can write only on an established connection (`step` drops an `up` payload
  while `conn ≠ .connected`, the harness does the same).  The connection of a routed request is
  established by the first event-loop turn that starts after the client's head is complete.
  `upScan` follows exactly that through an event list; `upstreamSent` is the concatenation of the
  payloads that reach the proxy, in order. -/

structure UpScan where
  fed  : Bytes := []       -- the client's bytes so far
  conn : Bool := false     -- a turn has run since the client's head was complete
  got  : Bytes := []       -- payloads written on the established connection
deriving Repr, Inhabited

def upScanStep (u : UpScan) : PEv → UpScan
  | .sock (.feed b) => { u with fed := u.fed ++ b }
  | .sock (.prebuf b) => { u with fed := u.fed ++ b }
  | .turn => { u with conn := u.conn || (breakOn CRLF2 u.fed).isSome }
  | .up b => if u.conn then { u with got := u.got ++ b } else u
  | _ => u

def upScan (evs : List PEv) : UpScan := evs.foldl upScanStep {}

/-- everything the upstream server sent on the established connection -/
def upstreamSent (evs : List PEv) : Bytes := (upScan evs).got

/-- the upstream server's answer, as far as it has been sent, does not make the proxy give up:
    either no response head is complete yet (no blank line), or the first one is a response head
    `Parser::parseResponseHeaders` accepts (then it is relayed and `mHeadersParsed` is set; the
    downstream socket stays open).  Otherwise `onUpstreamReadyRead` answers 502 through
    `writeError`, which closes the downstream socket: nothing more is read from the client. -/
def upHeadOk (evs : List PEv) : Bool :=
  match breakOn CRLF2 (upstreamSent evs) with
  | none => true
  | some (h, _) => (Parser.parseResponseHeaders h).isSome

end Proxy
end Qhttp
