import Qhttp.Model.Proxy
import Qhttp.Model.CxxPrim
/-
  Vocabulary of the translated `ProxySocket` slots (`QhttpGen/Proxy.lean`): what ONE call on the downstream
  HTTP socket (`mDownstreamSocket->…`, through the socket model's public API, with the application of the proxy
  family connected) or on the upstream QTcpSocket means on the model's `Proxy.St`.  Hand-written, trusted like
  `CxxPrim.lean`.
-/
namespace Qhttp
namespace Px
open Proxy

/-- `mUpstreamSocket.write(bytes)`: queued towards the upstream server -/
def upWrite (s : St) (b : Bytes) : St := { s with toUp := s.toUp ++ b }

def dsWriteError (env : Env) (s : St) (code : Int) : St := { s with sock := Sock.api env app s.sock (.err code none) }
def dsSetStatusCode (env : Env) (s : St) (code : Int) (reason : Bytes) : St :=
  { s with sock := Sock.api env app s.sock (.status code (some reason)) }
/-- `setHeaders(map)` (a destroyed socket is never touched: the ProxySocket is its child) -/
def dsSetHeaders (s : St) (h : HeaderMap) : St :=
  { s with sock := if s.sock.alive then { s.sock with respHeaders := h } else s.sock }
def dsWriteHeaders (env : Env) (s : St) : St := { s with sock := Sock.api env app s.sock .wh }
def dsWrite (env : Env) (s : St) (b : Bytes) : St := { s with sock := Sock.api env app s.sock (.write b) }
def dsClose (env : Env) (s : St) : St := { s with sock := Sock.api env app s.sock .close }

/-- `Parser::parseResponseHeaders(data, statusCode, statusReason, headers)` with local out-parameters -/
def parseResponseHeaders (data : Bytes) (c : Int) (r : Bytes) (h : HeaderMap) : Bool × Int × Bytes × HeaderMap :=
  match Parser.parseResponseHeaders data with
  | some (c', r', m) => (true, c', r', m)
  | none => (false, c, r, h)

end Px
end Qhttp
