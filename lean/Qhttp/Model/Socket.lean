import Qhttp.Model.Parser
/-
  src/src/socket.cpp over a simulated transport.

  `Tcp` is the model of the harness's `SimTcp` (a QTcpSocket subclass): a segment inbox, the
  wire (everything the library wrote), the count of unacknowledged bytes, the QIODevice open
  flag of the transport and its connection state.

  `Sock` has one field per member of `SocketPrivate` (socket_p.h) plus what `QIODevice`
  contributes to `Socket` itself (its own read buffer `qio`, its open flag `ioOpen`), the
  construction phase, lifetime flags and a history variable `log`.

  Qt's direct signal/slot calls are synchronous: application code runs *inside* `emit`.
  The application is a parameter: `App` gives, per signal, the list of API calls made from
  the connected slot.  API calls can emit one signal only (`disconnected`, through
  `QTcpSocket::close`), and at that point the transport is unconnected, so nothing can be
  emitted from inside that reaction: two levels (`apiPrim`, `api`) suffice and all is total.
-/
namespace Qhttp

inductive RState | headers | data | finished
deriving DecidableEq, Repr, Inhabited
inductive WState | none | headers | data | finished
deriving DecidableEq, Repr, Inhabited
inductive Conn | connected | closing | unconnected
deriving DecidableEq, Repr, Inhabited

structure Tcp where
  inbox   : Bytes := []
  wire    : Bytes := []
  unacked : Nat := 0
  devOpen : Bool := true
  conn    : Conn := .connected
deriving DecidableEq, Repr, Inhabited

/-- accessor snapshot taken by the `snap` operation -/
structure Snap where
  parsed  : Bool
  method  : Nat
  rawPath : Bytes
  path    : Bytes
  query   : List (Bytes × Bytes)
  headers : HeaderMap
  total   : Int
deriving DecidableEq, Repr, Inhabited

/-- what can be observed from outside the library, in order -/
inductive Obs
  | hp | rr | rcf | bw (n : Int) | dc          -- Socket's signals
  | w (bytes : Bytes)                           -- bytes reaching the transport
  | tc                                          -- the library closed the transport
  | rd (bytes : Bytes)                          -- result of read()/readAll()
  | av (n : Nat)                                -- result of bytesAvailable()
  | snap (s : Snap)
  | del                                         -- the Socket object was destroyed
  | crash                                       -- call on an incompletely constructed object
  | mw (id : Nat) (ok : Bool)                   -- a middleware ran and returned ok
  | rt (node : Nat) (path : Bytes)              -- Handler::route entered
  | pr (node : Nat) (path : Bytes)              -- Handler::process entered
  | slot (name : Nat) (avail : Nat)             -- a registered slot was invoked
  | ev (k : Nat)                                -- marker: the k-th external event starts here
  | misc (tag : Nat) (data : Bytes)             -- family-specific observation (upstream bytes, copier signals, ...)
deriving DecidableEq, Repr, Inhabited

/-- QUrl as a parameter: `none` = `!isValid()`, else (path(), query items) in UTF-8 -/
abbrev UrlOracle := Bytes → Option (Bytes × List (Bytes × Bytes))

structure Env where
  url      : UrlOracle
  errPage  : Int → Bytes → Bytes          -- the HTML body of writeError(code, reason)

inductive ApiOp
  | read (n : Nat) | readAll | avail | snap
  | status (code : Int) (reason : Option Bytes)
  | hdr (name value : Bytes) (replace : Bool)
  | hdrs (m : List (Bytes × Bytes))
  | wh | write (bytes : Bytes)
  | err (code : Int) (reason : Option Bytes)
  | redir (path : Bytes) (permanent : Bool)
  | json (body : Bytes) (code : Int)
  | close
  | note (o : Obs)             -- application code records an observation (routing, slots)
deriving DecidableEq, Repr, Inhabited

structure Sock where
  tcp         : Tcp := {}
  readBuffer  : Bytes := []
  qio         : Bytes := []
  rs          : RState := .headers
  method      : Nat := 0
  rawPath     : Bytes := []
  path        : Bytes := []
  query       : List (Bytes × Bytes) := []
  reqHeaders  : HeaderMap := []
  dataRead    : Int := 0
  total       : Int := -1
  ws          : WState := .none
  code        : Int := 200
  reason      : Bytes := lit ['O','K']
  respHeaders : HeaderMap := []
  hdrRemaining : Int := 0
  ioOpen      : Bool := true
  initPending : Bool := false        -- the queued initial onReadyRead() has not run yet
  closeCalled : Bool := false
  dcFlag      : Bool := false        -- the transport emitted `disconnected` inside the last primitive
  delPending  : Bool := false
  alive       : Bool := true
  log         : List Obs := []
deriving Repr, Inhabited

/-- the application: for each signal, the API calls its slot makes, as a function of the state
    the socket is in when the signal is emitted (this is how routing, which looks at the parsed
    request, and handlers that test `bytesAvailable()` are expressed) -/
structure App where
  onHp  : Sock → List ApiOp := fun _ => []
  onRr  : Sock → List ApiOp := fun _ => []
  onRcf : Sock → List ApiOp := fun _ => []
  onBw  : Sock → List ApiOp := fun _ => []
  onDc  : Sock → List ApiOp := fun _ => []

instance : Inhabited App := ⟨{}⟩

def statusReason (code : Int) : Bytes :=
  if code = 200 then lit ['O','K']
  else if code = 201 then lit ['C','R','E','A','T','E','D']
  else if code = 202 then lit ['A','C','C','E','P','T','E','D']
  else if code = 206 then lit ['P','A','R','T','I','A','L',' ','C','O','N','T','E','N','T']
  else if code = 301 then lit ['M','O','V','E','D',' ','P','E','R','M','A','N','E','N','T','L','Y']
  else if code = 302 then lit ['F','O','U','N','D']
  else if code = 400 then lit ['B','A','D',' ','R','E','Q','U','E','S','T']
  else if code = 401 then lit ['U','N','A','U','T','H','O','R','I','Z','E','D']
  else if code = 403 then lit ['F','O','R','B','I','D','D','E','N']
  else if code = 404 then lit ['N','O','T',' ','F','O','U','N','D']
  else if code = 405 then lit ['M','E','T','H','O','D',' ','N','O','T',' ','A','L','L','O','W','E','D']
  else if code = 409 then lit ['C','O','N','F','L','I','C','T']
  else if code = 500 then lit ['I','N','T','E','R','N','A','L',' ','S','E','R','V','E','R',' ','E','R','R','O','R']
  else if code = 502 then lit ['B','A','D',' ','G','A','T','E','W','A','Y']
  else if code = 503 then lit ['S','E','R','V','I','C','E',' ','U','N','A','V','A','I','L','A','B','L','E']
  else if code = 505 then lit ['H','T','T','P',' ','V','E','R','S','I','O','N',' ','N','O','T',' ','S','U','P','P','O','R','T','E','D']
  else lit ['U','N','K','N','O','W','N',' ','E','R','R','O','R']

namespace Sock

/-! ### transport -/

/-- `QTcpSocket::write`: reaches the wire only while the device is open and connected -/
def tcpWrite (s : Sock) (bytes : Bytes) : Sock :=
  if s.tcp.devOpen && s.tcp.conn == .connected && !bytes.isEmpty then
    { s with tcp := { s.tcp with wire := s.tcp.wire ++ bytes, unacked := s.tcp.unacked + bytes.length },
             log := s.log ++ [Obs.w bytes] }
  else s

/-- `SimTcp::close()` = `QAbstractSocket::close`: close the device; disconnect now when nothing
    is pending, else when the last outstanding byte is acknowledged; idempotent. -/
def tcpClose (s : Sock) : Sock :=
  if !s.tcp.devOpen then s else
  let s := { s with tcp := { s.tcp with devOpen := false }, log := s.log ++ [Obs.tc] }
  match s.tcp.conn with
  | .connected =>
    if s.tcp.unacked = 0 then { s with tcp := { s.tcp with conn := .unconnected }, dcFlag := true }
    else { s with tcp := { s.tcp with conn := .closing } }
  | _ => s

/-! ### response side -/

def setStatusCode (s : Sock) (code : Int) (reason : Option Bytes) : Sock :=
  { s with code := code, reason := match reason with | some r => r | none => statusReason code }

/-- `Socket::setHeader` -/
def setHeader (s : Sock) (name value : Bytes) (replace : Bool) : Sock :=
  if replace || HeaderMap.count name s.respHeaders == 0 then
    { s with respHeaders := HeaderMap.insert name value (HeaderMap.remove name s.respHeaders) }
  else
    { s with respHeaders :=
        HeaderMap.replace name (HeaderMap.value name s.respHeaders ++ [44, 32] ++ value) s.respHeaders }

/-- one line per map entry, in map order -/
def headerLines : HeaderMap → Bytes
  | [] => []
  | (k, v) :: rest => k ++ [COLON, SP] ++ v ++ CRLF ++ headerLines rest

def headBytes (s : Sock) : Bytes :=
  lit ['H','T','T','P','/','1','.','0',' '] ++ intText s.code ++ [SP] ++ s.reason ++ CRLF
    ++ headerLines s.respHeaders ++ CRLF

def writeHeaders (s : Sock) : Sock :=
  let h := headBytes s
  tcpWrite { s with ws := .headers, hdrRemaining := h.length } h

/-- `QIODevice::write` on the Socket -> `Socket::writeData` -/
def write (s : Sock) (bytes : Bytes) : Sock :=
  if !s.ioOpen then s else
  let s := if s.ws = .none then writeHeaders s else s
  tcpWrite s bytes

/-- `Socket::close` -/
def close (s : Sock) : Sock :=
  let s := { s with ioOpen := false, qio := [], rs := .finished, ws := .finished, closeCalled := true }
  tcpClose s

def writeRedirect (s : Sock) (path : Bytes) (permanent : Bool) : Sock :=
  let s := setStatusCode s (if permanent then 301 else 302) none
  let s := setHeader s (lit ['L','o','c','a','t','i','o','n']) path true
  close (writeHeaders s)

def CONTENT_LENGTH : Bytes := lit ['C','o','n','t','e','n','t','-','L','e','n','g','t','h']
def CONTENT_TYPE : Bytes := lit ['C','o','n','t','e','n','t','-','T','y','p','e']
def TEXT_HTML : Bytes := lit ['t','e','x','t','/','h','t','m','l']
def APP_JSON : Bytes := lit ['a','p','p','l','i','c','a','t','i','o','n','/','j','s','o','n']

def writeError (env : Env) (s : Sock) (code : Int) (reason : Option Bytes) : Sock :=
  let s := setStatusCode s code reason
  let body := env.errPage s.code s.reason
  let s := setHeader s CONTENT_LENGTH (natDigits body.length) true
  let s := setHeader s CONTENT_TYPE TEXT_HTML true
  let s := writeHeaders s
  let s := write s body
  close s

def writeJson (s : Sock) (body : Bytes) (code : Int) : Sock :=
  let s := setStatusCode s code none
  let s := setHeader s CONTENT_LENGTH (natDigits body.length) true
  let s := setHeader s CONTENT_TYPE APP_JSON true
  close (write s body)

/-! ### request side -/

/-- `Socket::readData(data, maxlen)` -/
def readData (s : Sock) (maxlen : Nat) : Sock × Bytes :=
  if s.rs = .headers then (s, []) else
  let got := s.readBuffer.take maxlen
  ({ s with readBuffer := s.readBuffer.drop maxlen, dataRead := s.dataRead + got.length }, got)

def chunk : Nat := 16384

/-- `QIODevice::read(n)` on the Socket (sequential, buffered): Qt 5.15 `QIODevicePrivate::read` -/
def read (s : Sock) (n : Nat) : Sock × Bytes :=
  if !s.ioOpen then (s, []) else
  let out1 := s.qio.take n
  let s := { s with qio := s.qio.drop n }
  let rem := n - out1.length
  if rem = 0 then (s, out1) else
  if rem ≥ chunk then
    let (s, got) := readData s rem
    (s, out1 ++ got)
  else
    let (s, got) := readData s chunk
    let s := { s with qio := s.qio ++ got }
    (({ s with qio := s.qio.drop rem }), out1 ++ s.qio.take rem)

/-- `QIODevice::readAll()` on the Socket: loops until a read returns nothing -/
def readAll (s : Sock) : Sock × Bytes :=
  if !s.ioOpen then (s, []) else
  let out1 := s.qio
  let (s, got) := readData { s with qio := [] } s.readBuffer.length
  (s, out1 ++ got)

/-- `Socket::bytesAvailable` -/
def bytesAvailable (s : Sock) : Nat :=
  if s.rs = .headers then 0 else s.readBuffer.length + s.qio.length

def takeSnap (s : Sock) : Snap :=
  { parsed := s.rs != .headers, method := s.method, rawPath := s.rawPath, path := s.path,
    query := s.query, headers := s.reqHeaders, total := s.total }

/-! ### API calls -/

/-- one API call, no reaction to `disconnected` run yet (`dcFlag` records that it is due) -/
def apiPrim (env : Env) (s : Sock) (op : ApiOp) : Sock :=
  if !s.alive then s else
  match op with
  | .read n   => let (s, out) := read s n; { s with log := s.log ++ [Obs.rd out] }
  | .readAll  => let (s, out) := readAll s; { s with log := s.log ++ [Obs.rd out] }
  | .avail    => { s with log := s.log ++ [Obs.av (bytesAvailable s)] }
  | .snap     => { s with log := s.log ++ [Obs.snap (takeSnap s)] }
  | .status c r => setStatusCode s c r
  | .hdr n v r  => setHeader s n v r
  | .hdrs m     => { s with respHeaders := m.foldl (fun acc e => HeaderMap.insert e.1 e.2 acc) [] }
  | .wh         => writeHeaders s
  | .write bs   => write s bs
  | .err c r    => writeError env s c r
  | .redir p pm => writeRedirect s p pm
  | .json bd c  => writeJson s bd c
  | .close      => close s
  | .note o     => { s with log := s.log ++ [o] }

/-- `disconnected` is being emitted: `Socket::disconnected` first (connected in the private
    constructor), then `deleteLater` if `Socket::close` had connected it before this emission. -/
def emitDc (env : Env) (app : App) (s : Sock) : Sock :=
  let hadClose := s.closeCalled
  let s := { s with dcFlag := false, log := s.log ++ [Obs.dc] }
  let s := (app.onDc s).foldl (apiPrim env) s
  { s with dcFlag := false, delPending := s.delPending || hadClose }

def api (env : Env) (app : App) (s : Sock) (op : ApiOp) : Sock :=
  let s := apiPrim env s op
  if s.dcFlag then emitDc env app s else s

def apis (env : Env) (app : App) (s : Sock) (ops : List ApiOp) : Sock :=
  ops.foldl (api env app) s

/-- emit one of the Socket's own signals and run the connected slot -/
def emit (env : Env) (app : App) (s : Sock) (o : Obs) (ops : List ApiOp) : Sock :=
  apis env app { s with log := s.log ++ [o] } ops

/-! ### private slots -/

/-- `QMultiMap<QString,QString>::insert` on UTF-8 images (exact for ASCII keys) -/
def qmInsert (k v : Bytes) : List (Bytes × Bytes) → List (Bytes × Bytes)
  | [] => [(k, v)]
  | (k', v') :: m => if bytesLt k' k then (k', v') :: qmInsert k v m else (k, v) :: (k', v') :: m

def CONTENT_LENGTH_KEY : Bytes := CONTENT_LENGTH

/-- `SocketPrivate::readHeaders` -/
def readHeaders (env : Env) (app : App) (s : Sock) : Sock × Bool :=
  match breakOn CRLF2 s.readBuffer with
  | none => (s, false)
  | some (head, rest) =>
    let bad : Sock × Bool :=
      let s' := writeError env s 400 none
      (if s'.dcFlag then emitDc env app s' else s', false)
    match Parser.parseRequestHeaders head s.reqHeaders with
    | none => bad
    | some rh =>
      match env.url rh.rawPath with
      | none => bad
      | some (p, q) =>
        let s := { s with method := rh.method, rawPath := rh.rawPath, reqHeaders := rh.headers,
                          path := p, query := q.foldl (fun m e => qmInsert e.1 e.2 m) s.query,
                          readBuffer := rest, rs := .data }
        let s := if HeaderMap.contains CONTENT_LENGTH_KEY s.reqHeaders
                 then
                   let t := toLongLong (HeaderMap.value CONTENT_LENGTH_KEY s.reqHeaders)
                   -- anything beyond the declared length is not part of this request
                   { s with total := t,
                            readBuffer := if t ≥ 0 && (s.readBuffer.length : Int) > t
                                          then s.readBuffer.take t.toNat else s.readBuffer }
                 else s
        (emit env app s .hp (app.onHp s), true)

/-- `SocketPrivate::readData` -/
def readDataSlot (env : Env) (app : App) (s : Sock) : Sock :=
  let s := if s.total ≥ 0 && s.dataRead + s.readBuffer.length > s.total
           then { s with readBuffer := s.readBuffer.take (s.total - s.dataRead).toNat } else s
  let s := if s.readBuffer.length != 0 then emit env app s .rr (app.onRr s) else s
  if s.total != -1 && s.dataRead + s.readBuffer.length ≥ s.total then
    (let s := { s with rs := .finished }; emit env app s .rcf (app.onRcf s))
  else s

/-- `SocketPrivate::onReadyRead` -/
def onReadyRead (env : Env) (app : App) (s : Sock) : Sock :=
  -- request complete or socket closed: only the newly arrived data is discarded
  if s.rs = .finished then
    (if s.tcp.devOpen then { s with tcp := { s.tcp with inbox := [] } } else s) else
  let s := if s.tcp.devOpen
           then { s with readBuffer := s.readBuffer ++ s.tcp.inbox, tcp := { s.tcp with inbox := [] } }
           else s
  let (s, go) := if s.rs = .headers then readHeaders env app s else (s, true)
  if !go then s else
  match s.rs with
  | .data => readDataSlot env app s
  | .finished => { s with readBuffer := [] }
  | .headers => s

/-- `SocketPrivate::onBytesWritten` -/
def onBytesWritten (env : Env) (app : App) (s : Sock) (bytes : Int) : Sock :=
  let (s, bytes) :=
    if s.ws = .headers then
      if s.hdrRemaining - bytes > 0 then ({ s with hdrRemaining := s.hdrRemaining - bytes }, bytes)
      else ({ s with ws := .data }, bytes - s.hdrRemaining)
    else (s, bytes)
  if s.ws = .data then emit env app s (.bw bytes) (app.onBw s) else s

/-- `SocketPrivate::onReadChannelFinished` -/
def onReadChannelFinished (env : Env) (app : App) (s : Sock) : Sock :=
  if s.total = -1 then emit env app s .rcf (app.onRcf s) else s

end Sock

/-! ### external stimuli -/

inductive Event
  | prebuf (bytes : Bytes)      -- bytes already in the transport before the Socket exists
  | new                         -- construct the Socket (queues the initial `onReadyRead()`)
  | feed (seg : Bytes)
  | ack (n : Nat)
  | ackAll
  | peerClose
  | turn
  | api (op : ApiOp)
deriving Repr, Inhabited

namespace Sock

def ackN (env : Env) (app : App) (s : Sock) (n : Nat) : Sock :=
  let n := min n s.tcp.unacked
  if n = 0 then s else
  let s := { s with tcp := { s.tcp with unacked := s.tcp.unacked - n } }
  let s := onBytesWritten env app s n
  if s.tcp.conn == .closing && s.tcp.unacked = 0 then
    emitDc env app { s with tcp := { s.tcp with conn := .unconnected } }
  else s

def step (env : Env) (app : App) (s : Sock) (e : Event) : Sock :=
  if !s.alive then s else
  match e with
  | .prebuf bs => { s with tcp := { s.tcp with inbox := s.tcp.inbox ++ bs } }
  | .new => { s with initPending := true }
  | .feed seg =>
    onReadyRead env app { s with tcp := { s.tcp with inbox := s.tcp.inbox ++ seg } }
  | .ack n => ackN env app s n
  | .ackAll => ackN env app s s.tcp.unacked
  | .peerClose =>
    if s.tcp.conn == .unconnected then s else
    -- QAbstractSocket: the state is Unconnected before readChannelFinished and disconnected
    let s := onReadChannelFinished env app { s with tcp := { s.tcp with conn := .unconnected } }
    emitDc env app s
  | .turn =>
    -- posted events first (the queued initial read), then deferred deletion
    let s := if s.initPending then onReadyRead env app { s with initPending := false } else s
    if s.delPending then { s with alive := false, delPending := false, log := s.log ++ [Obs.del] } else s
  | .api op => api env app s op

/-- the k-th external event, preceded by its marker in the history -/
def stepK (env : Env) (app : App) (sk : Sock × Nat) (e : Event) : Sock × Nat :=
  let s := sk.1
  let s := if !s.alive then s else { s with log := s.log ++ [Obs.ev sk.2] }
  (step env app s e, sk.2 + 1)

def run (env : Env) (app : App) (evs : List Event) (s : Sock := {}) : Sock :=
  (evs.foldl (stepK env app) (s, 0)).1

end Sock

/-- a scenario of the `sock` language: the scripted application and the external events -/
structure Scenario where
  app    : App := {}
  events : List Event := []

/-- scripted application: fixed call lists per signal (what the `sock` scenario language can say) -/
structure Script where
  onHp  : List ApiOp := []
  onRr  : List ApiOp := []
  onRcf : List ApiOp := []
  onBw  : List ApiOp := []
  onDc  : List ApiOp := []
deriving Repr, Inhabited

def Script.app (sc : Script) : App :=
  { onHp := fun _ => sc.onHp, onRr := fun _ => sc.onRr, onRcf := fun _ => sc.onRcf,
    onBw := fun _ => sc.onBw, onDc := fun _ => sc.onDc }

namespace Scenario
/-- all bytes the client sent, in order -/
def fed (evs : List Event) : Bytes :=
  evs.flatMap fun e => match e with | .prebuf b => b | .feed b => b | _ => []
def run (env : Env) (sc : Scenario) : Sock := Sock.run env sc.app sc.events
end Scenario

namespace Obs
def wire (l : List Obs) : Bytes := l.flatMap fun o => match o with | .w b => b | _ => []
def reads (l : List Obs) : Bytes := l.flatMap fun o => match o with | .rd b => b | _ => []
def countP (p : Obs → Bool) (l : List Obs) : Nat := (l.filter p).length
def isHp : Obs → Bool | .hp => true | _ => false
def isRr : Obs → Bool | .rr => true | _ => false
def isRcf : Obs → Bool | .rcf => true | _ => false
def isDc : Obs → Bool | .dc => true | _ => false
def isTc : Obs → Bool | .tc => true | _ => false
def isW : Obs → Bool | .w _ => true | _ => false
def isCrash : Obs → Bool | .crash => true | _ => false
def isRouting : Obs → Bool | .mw _ _ => true | .rt _ _ => true | .pr _ _ => true | .slot _ _ => true | _ => false
end Obs
end Qhttp
