import Qhttp.Model.Tls
import Qhttp.Model.Handler
/-
  Vocabulary of the translated `Server::incomingConnection` (`QhttpGen/Srv.lean`): what the function does with the new
  connection, recorded as a list of actions; the one question it asks is whether a TLS configuration was set.
  Hand-written, trusted like `CxxPrim.lean`.
-/
namespace Qhttp
namespace Vx

/-- what the lambda connected to `headersParsed` in `ServerPrivate::process` does -/
inductive LAct
  | route (drop : Int)      -- handler->route(httpSocket, httpSocket->path().mid(drop))
  | err (code : Int)        -- httpSocket->writeError(code)
deriving DecidableEq, Repr

inductive Act
  | newHttp                 -- httpSocket = new Socket(socket, this)
  | onDisconnectedDelete    -- connect(httpSocket, &Socket::disconnected, httpSocket, &Socket::deleteLater)
  | onHeadersParsed (body : List LAct)   -- connect(httpSocket, &Socket::headersParsed, [..]{ body })
  | newSsl                  -- socket = new QSslSocket(this)
  | newTcp                  -- socket = new QTcpSocket(this)
  | onEncryptedProcess      -- connect(socket, &QSslSocket::encrypted, [..]{ d->process(socket); })
  | onErrorDelete           -- connect(socket, &QAbstractSocket::error, socket, &QObject::deleteLater)
  | setDescriptor           -- socket->setSocketDescriptor(socketDescriptor)
  | setConfig               -- socket->setSslConfiguration(d->configuration)
  | startEncryption         -- socket->startServerEncryption()
  | process                 -- d->process(socket), now
deriving DecidableEq, Repr

/-- what `ProxyHandler::process(socket, path)` does -/
inductive PAct
  | reparent                      -- socket->setParent(this)
  | newProxySocket (path : QStr)  -- new ProxySocket(socket, path, d->address, d->port)
deriving DecidableEq, Repr

def pact (s : List PAct) (a : PAct) : List PAct := s ++ [a]

structure Env where
  tlsNull : Bool := true    -- d->configuration.isNull()
  hasHandler : Bool := true -- ServerPrivate::handler != nullptr (when the lambda runs)

def act (s : List Act) (a : Act) : List Act := s ++ [a]
def lact (s : List LAct) (a : LAct) : List LAct := s ++ [a]

end Vx
end Qhttp
