import Qhttp.Model.Socket
/-
  src/src/localauthmiddleware.cpp + localfile.cpp as a small state machine.
  Parameters / observed, not modelled: QUuid (a token is identified by the number of the instance
  that drew it; distinctness of tokens across instances is QUuid's property), the home directory,
  JSON serialisation (the file content is represented by its set of top-level keys).
  `LocalFile::open()` = create-or-truncate (`0666 & ~umask` when new, mode kept when it exists),
  then `chmod 0600`.
  Fault path: `LocalFile::open()` FAILS while something that is not a regular file occupies the
  advertised name (`Op.block` puts a directory there, `Op.unblock` takes it away).  Then
  `QFile::open(WriteOnly)` fails (EISDIR), `setPermission()` is not reached, `updateFile()` writes
  nothing; the middleware keeps `data` (with the token) in memory and writes all of it at the next
  `updateFile()` that can open the file.  `QFile::remove()` of a directory fails (unlink: EISDIR),
  so the destructor leaves the obstacle where it is.
-/
namespace Qhttp
namespace LocalAuth

/-- how a request's header value relates to the current token -/
inductive TokVal
  | exact | upper | dropLast | braceless | nulSuffix | bomPrefix | previous
  | other (b : Bytes)
deriving Repr, DecidableEq

inductive Op
  | umask (m : Nat)
  | pre (mode : Nat)                    -- a file with this mode and foreign content exists beforehand
  | create                              -- construct the middleware (draws a fresh token)
  | setData (keys : List Bytes)         -- setData(map with these keys)
  | setHeaderName (n : Bytes)
  | req (hdr : Option (Bytes × TokVal)) -- one request carrying (name, value) or no such header
  | destroy
  | block                               -- a directory appears at the advertised file name (only when nothing is there)
  | unblock                             -- that directory is removed again
deriving Repr, DecidableEq

structure File where
  mode     : Nat
  keys     : List Bytes            -- sorted, distinct top-level keys of the JSON object
  hasToken : Bool                  -- a `token` member holding the current token
deriving Repr, DecidableEq

structure St where
  umask    : Nat := 0o022
  inst     : Nat := 0               -- number of instances created so far (= id of the current token)
  alive    : Bool := false
  hdrName  : Bytes := lit ['X','-','A','u','t','h','-','T','o','k','e','n']
  file     : Option File := none
  blocked  : Bool := false          -- a directory occupies the advertised name: `LocalFile::open()` fails
  log      : List Obs := []
deriving Repr

def TOKEN : Bytes := lit ['t','o','k','e','n']

def insertKey (k : Bytes) : List Bytes → List Bytes
  | [] => [k]
  | x :: xs => if bytesLt k x then k :: x :: xs else if k == x then x :: xs else x :: insertKey k xs

def sortKeys (ks : List Bytes) : List Bytes := ks.foldr insertKey []

/-- `updateFile()`: open (create/truncate), chmod 0600, write the JSON object of `data`;
    nothing at all when the open fails -/
def writeFile (s : St) (keys : List Bytes) : St :=
  if s.blocked then s else
  { s with file := some { mode := 0o600, keys := sortKeys keys, hasToken := keys.contains TOKEN } }

/-- snapshot observation: exists, mode, keys, token member present and equal to the current token;
    a directory at the name is not the advertised file: "no file" -/
def snap (s : St) : Obs :=
  if s.blocked then .misc 10 [] else
  match s.file with
  | none => .misc 10 []
  | some f => .misc 10 ([1, UInt8.ofNat (f.mode / 64 % 8), UInt8.ofNat (f.mode / 8 % 8), UInt8.ofNat (f.mode % 8),
                          (if f.hasToken then 1 else 0)] ++ joinWith [44] f.keys)

def admits (s : St) (hdr : Option (Bytes × TokVal)) : Bool :=
  match hdr with
  | none => false
  | some (n, v) => lower n == lower s.hdrName && v == .exact

def step (s : St) (op : Op) : St :=
  let s :=
    match op with
    | .umask m => { s with umask := m }
    | .pre mode => if s.alive || s.blocked then s else { s with file := some { mode := mode, keys := [lit ['j','u','n','k']], hasToken := false } }
    | .create =>
      if s.alive then s else
      -- the constructor stores the token in the data before the first write
      writeFile { s with alive := true, inst := s.inst + 1, hdrName := lit ['X','-','A','u','t','h','-','T','o','k','e','n'] } [TOKEN]
    | .setData keys => if !s.alive then s else writeFile s (TOKEN :: keys.filter (· != TOKEN))
    | .setHeaderName n => if !s.alive then s else { s with hdrName := n }
    | .req hdr =>
      if !s.alive then s else
      { s with log := s.log ++ [Obs.misc 11 [if admits s hdr then 1 else 0]] }
    -- `file.remove()`: removes the file if there is one, whatever happened at construction; a
    -- directory at the name stays (`blocked` unchanged)
    | .destroy => if !s.alive then s else { s with alive := false, file := none }
    | .block => if s.blocked || s.file.isSome then s else { s with blocked := true }
    | .unblock => { s with blocked := false }
  { s with log := s.log ++ [snap s] }

def run (ops : List Op) : St := ops.foldl step {}

end LocalAuth
end Qhttp
