import Qhttp.Model.Handler
/-
  src/src/qobjecthandler.cpp.  The registry is `QMap<QString, Method>`: registering a name again
  replaces the earlier entry.  A registration is `good` (an invokable slot taking one Socket*:
  old-style SLOT(), pointer to member, functor) or not (slot missing / wrong signature: 500).
-/
namespace Qhttp
namespace SlotHandler

structure Reg where
  name    : QStr
  idx     : Nat          -- position in registration order (what the harness's slots report)
  good    : Bool
  readAll : Bool
deriving Repr, DecidableEq

/-- `QMap::value(path)` after the inserts: the last registration under exactly that name -/
def lookup (regs : List Reg) (path : QStr) : Option Reg := regs.reverse.find? (·.name == path)

def isSlot : Obs → Bool | .slot _ _ => true | _ => false

/-- `QObjectHandlerPrivate::invokeSlot` -/
def invoke (m : Reg) (s : Sock) : List ApiOp :=
  if m.good then [.note (.slot m.idx (Sock.bytesAvailable s))] else [.err 500 none]

/-- `QObjectHandler::process` as the reaction to headersParsed (`path` = decoded path minus '/') -/
def onHp (regs : List Reg) (path : QStr) (s : Sock) : List ApiOp :=
  match lookup regs path with
  | none => [.err 404 none]
  | some m =>
    if !m.readAll || (Sock.bytesAvailable s : Int) ≥ s.total then invoke m s
    else []                                   -- connects the lambda to readChannelFinished

/-- the lambda connected in the deferred case; it exists iff `process` neither invoked the slot
    nor answered, which the state shows: no slot observation yet and no response started -/
def onRcf (regs : List Reg) (path : QStr) (s : Sock) : List ApiOp :=
  match lookup regs path with
  | none => []
  | some m =>
    if m.readAll && !(s.log.any isSlot) && s.ws == .none && s.log.any Obs.isHp then invoke m s else []

def app (regs : List Reg) (path : QStr) : App :=
  { onHp := fun s => onHp regs path s, onRcf := fun s => onRcf regs path s }

end SlotHandler
end Qhttp
