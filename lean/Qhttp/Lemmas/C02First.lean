import Qhttp.Props.C01
/-
  An accepted head never contains a blank line, and the blank line that ends it is the first
  one of the stream: the separation hypothesis of the C01/C02 socket theorems follows from
  acceptance (uses the characterisation `C01.accept_iff`).
-/
namespace Qhttp.C02
open Qhttp

theorem joinWith_append (d : Bytes) : ∀ (xs ys : List Bytes), xs ≠ [] → ys ≠ [] →
    joinWith d (xs ++ ys) = joinWith d xs ++ d ++ joinWith d ys := by
  intro xs
  induction xs with
  | nil => intro ys h; exact absurd rfl h
  | cons x xs ih =>
    intro ys _ hy
    cases xs with
    | nil =>
      show joinWith d (x :: ys) = _
      rw [joinWith_cons hy]; rfl
    | cons x' xs' =>
      show joinWith d (x :: ((x' :: xs') ++ ys)) = _
      have e1 : joinWith d (x :: ((x' :: xs') ++ ys)) = x ++ d ++ joinWith d ((x' :: xs') ++ ys) :=
        joinWith_cons (by simp)
      have e2 : joinWith d (x :: x' :: xs') = x ++ d ++ joinWith d (x' :: xs') := joinWith_cons (by simp)
      rw [e1, ih ys (by simp) hy, e2]
      simp [List.append_assoc]

/-- CRLF-free non-empty pieces joined by CRLF never contain CRLF CRLF -/
theorem no_CRLF2_joinWith (qs : List Bytes) (hne : qs ≠ []) (hfree : ∀ q ∈ qs, ¬ CRLF <:+: q)
    (hnonempty : ∀ q ∈ qs, q ≠ []) : ¬ CRLF2 <:+: joinWith CRLF qs := by
  rintro ⟨a, b, e⟩
  have ha := join_split CRLF 0 a
  have hb := join_split CRLF 0 b
  have hane := split_ne_nil CRLF 0 a
  have hbne := split_ne_nil CRLF 0 b
  have hj : joinWith CRLF (split CRLF 0 a ++ ([[]] ++ split CRLF 0 b)) = joinWith CRLF qs := by
    rw [joinWith_append _ _ _ hane (by simp), joinWith_append _ _ _ (by simp) hbne, ha, hb, ← e]
    simp [joinWith, CRLF2, CRLF, List.append_assoc]
  have hs1 := split_CRLF_joinWith (split CRLF 0 a ++ ([[]] ++ split CRLF 0 b)) (by simp) (by
    intro p hp
    rcases List.mem_append.1 hp with hp | hp
    · exact split_zero_not_infix CRLF_ne_nil a p hp
    · rcases List.mem_append.1 hp with hp | hp
      · have : p = [] := by simpa using hp
        subst this
        intro c; have := c.length_le; simp [CRLF] at this
      · exact split_zero_not_infix CRLF_ne_nil b p hp)
  have hs2 := split_CRLF_joinWith qs hne hfree
  rw [hj, hs2] at hs1
  exact hnonempty [] (by rw [hs1]; simp) rfl

/-- the blank line after an accepted head is the first one of any stream that starts with it -/
theorem first_of_accepted (env : Env) (head : Bytes) (h : (C01.expect env head).isSome) :
    ¬ CRLF2 <:+: head ++ CRLF2.dropLast := by
  obtain ⟨m, t, v, hs, hm, hv, _, h2, _, hl, rfl⟩ := (C01.accept_iff env head).1 h
  have e : C01.render m t v hs ++ CRLF2.dropLast =
      joinWith CRLF (((m ++ [SP] ++ t ++ [SP] ++ v) :: hs) ++ [[13]]) := by
    rw [joinWith_append _ _ _ (by simp) (by simp), ← C01.render_eq_joinWith]
    simp [joinWith, CRLF2, CRLF, List.append_assoc]
  rw [e]
  apply no_CRLF2_joinWith _ (by simp)
  · intro q hq
    rcases List.mem_append.1 hq with hq | hq
    · rcases List.mem_cons.1 hq with rfl | hq
      · exact Parser.requestLine_no_CRLF hm hv h2
      · exact (hl q hq).2
    · have : q = [13] := by simpa using hq
      subst this
      intro c; have := c.length_le; simp [CRLF] at this
  · intro q hq
    rcases List.mem_append.1 hq with hq | hq
    · rcases List.mem_cons.1 hq with rfl | hq
      · simp
      · intro hc
        obtain ⟨n, x, e', _, _⟩ := (hl q hq).1
        rw [hc] at e'
        simp at e'
    · have : q = [13] := by simpa using hq
      subst this; simp

end Qhttp.C02
