import Qhttp.Lemmas.C13Open
import Qhttp.Lemmas.C13Parse
/-
  C13, item 8: the whole scripted-upstream history, by induction over the events that follow
  `new; feed req; turn`.
-/
namespace Qhttp.C13L
open Qhttp Qhttp.Sock Qhttp.Proxy

/-- `C13.upstreamSent` (same text; Props/C13 imports this file) -/
def upstreamSent' : List PEv → (connected : Bool) → Bytes × Bool
  | [], _ => ([], false)
  | .turn :: rest, _ => upstreamSent' rest true
  | .up b :: rest, true => let (x, c) := upstreamSent' rest true; (b ++ x, c)
  | .upClose :: _, true => ([], true)
  | _ :: rest, conn => upstreamSent' rest conn

/-- `C13.delivered` (same text) -/
def delivered' (evs : List PEv) : Bool :=
  match (evs.reverse.dropWhile fun e => match e with | .up _ => false | .upClose => false | _ => true) with
  | [] => true
  | _ => (evs.reverse.takeWhile fun e => match e with | .up _ => false | .upClose => false | _ => true).any
           fun e => match e with | .turn => true | _ => false

/-- where the upstream side of the history stands -/
inductive UpPh | open | closing | closed
deriving DecidableEq, Repr

/-- the events that may follow `new; feed req; turn`: upstream writes, the upstream's close,
    event-loop turns, acknowledgements of the client; the upstream server writes nothing between
    its close and the next turn (the model would deliver it, the real server cannot send it) -/
def restOk : UpPh → List PEv → Bool
  | _, [] => true
  | ph, .up _ :: r => ph != .closing && restOk ph r
  | ph, .upClose :: r => restOk (if ph == .open then .closing else ph) r
  | ph, .turn :: r => restOk (if ph == .closing then .closed else ph) r
  | ph, .sock (.ack _) :: r => restOk ph r
  | ph, .sock .ackAll :: r => restOk ph r
  | _, _ :: _ => false

/-- `delivered`, recursively: `b` = an upstream action is waiting for a turn -/
def dl : Bool → List PEv → Bool
  | b, [] => !b
  | _, .up _ :: r => dl true r
  | _, .upClose :: r => dl true r
  | _, .turn :: r => dl false r
  | b, .sock _ :: r => dl b r

theorem restOk_pevOk : ∀ (r : List PEv) (ph : UpPh), restOk ph r = true → ∀ e ∈ r, pevOk e = true := by
  intro r
  induction r with
  | nil => intro _ _ e he; cases he
  | cons x r ih =>
    intro ph h e he
    have key : pevOk x = true ∧ ∃ ph', restOk ph' r = true := by
      cases x with
      | sock ev =>
        cases ev <;> first | exact ⟨rfl, ph, h⟩ | (simp [restOk] at h)
      | turn => exact ⟨rfl, _, h⟩
      | up b =>
        simp only [restOk, Bool.and_eq_true] at h
        exact ⟨rfl, _, h.2⟩
      | upClose => exact ⟨rfl, _, h⟩
    obtain ⟨h1, ph', h2⟩ := key
    rcases List.mem_cons.mp he with he' | he'
    · rw [he']; exact h1
    · exact ih ph' h2 e he'

/-! ### `delivered` -/

def isUpAct : PEv → Bool | .up _ => true | .upClose => true | _ => false
def isTurnEv : PEv → Bool | .turn => true | _ => false

theorem delivered'_eq (evs : List PEv) :
    delivered' evs =
      match evs.reverse.dropWhile (fun e => !isUpAct e) with
      | [] => true
      | _ => (evs.reverse.takeWhile (fun e => !isUpAct e)).any isTurnEv := by
  have e1 : (fun e : PEv => match e with | .up _ => false | .upClose => false | _ => true) =
      fun e => !isUpAct e := by
    funext e; cases e <;> rfl
  have e2 : (fun e : PEv => match e with | .turn => true | _ => false) = isTurnEv := by
    funext e; cases e <;> rfl
  unfold delivered'
  rw [e1, e2]

/-- generalisation: `b` says an action is already waiting before `evs` -/
def dlG (b : Bool) (evs : List PEv) : Bool :=
  match evs.reverse.dropWhile (fun e => !isUpAct e) with
  | [] => !b || evs.any isTurnEv
  | _ => (evs.reverse.takeWhile (fun e => !isUpAct e)).any isTurnEv

theorem dropWhile_snoc_of_all {α} (p : α → Bool) (l : List α) (x : α) (h : ∀ y ∈ l, p y = true) :
    (l ++ [x]).dropWhile p = [x].dropWhile p ∧ (l ++ [x]).takeWhile p = l ++ [x].takeWhile p := by
  induction l with
  | nil => simp
  | cons a l ih =>
    have ha : p a = true := h a (by simp)
    have := ih (fun y hy => h y (by simp [hy]))
    simp [ha, this.1, this.2]

theorem dropWhile_snoc_of_not_all {α} (p : α → Bool) (l : List α) (x : α) (h : l.dropWhile p ≠ []) :
    (l ++ [x]).dropWhile p = l.dropWhile p ++ [x] ∧ (l ++ [x]).takeWhile p = l.takeWhile p := by
  induction l with
  | nil => simp at h
  | cons a l ih =>
    by_cases ha : p a = true
    · simp only [List.dropWhile_cons, ha, if_true] at h
      have := ih h
      simp [ha, this.1, this.2]
    · simp [ha]

theorem dropWhile_eq_nil_iff_all {α} (p : α → Bool) (l : List α) :
    l.dropWhile p = [] ↔ ∀ y ∈ l, p y = true := by
  induction l with
  | nil => simp
  | cons a l ih =>
    by_cases ha : p a = true
    · simp [ha, ih]
    · simp [ha]

theorem dlG_cons (b : Bool) (e : PEv) (r : List PEv) :
    dlG b (e :: r) = dlG (if isUpAct e then true else if isTurnEv e then false else b) r := by
  unfold dlG
  rw [List.reverse_cons]
  by_cases hall : r.reverse.dropWhile (fun e => !isUpAct e) = []
  · have hall' := (dropWhile_eq_nil_iff_all _ _).mp hall
    obtain ⟨h1, h2⟩ := dropWhile_snoc_of_all (fun e => !isUpAct e) r.reverse e hall'
    rw [h1, h2, hall]
    cases e <;> simp [isUpAct, isTurnEv]
  · obtain ⟨h1, h2⟩ := dropWhile_snoc_of_not_all (fun e => !isUpAct e) r.reverse e hall
    rw [h1, h2]
    cases hd : r.reverse.dropWhile (fun e => !isUpAct e) with
    | nil => exact absurd hd hall
    | cons a l => simp

theorem dl_eq_dlG : ∀ (evs : List PEv) (b : Bool), dl b evs = dlG b evs := by
  intro evs
  induction evs with
  | nil => intro b; simp [dl, dlG]
  | cons e r ih =>
    intro b
    rw [dlG_cons]
    cases e with
    | sock ev => simp [dl, isUpAct, isTurnEv, ih]
    | turn => simp [dl, isUpAct, isTurnEv, ih]
    | up x => simp [dl, isUpAct, ih]
    | upClose => simp [dl, isUpAct, ih]

theorem dl_of_delivered' (evs : List PEv) : dl false evs = delivered' evs := by
  rw [dl_eq_dlG, delivered'_eq]
  unfold dlG
  cases evs.reverse.dropWhile (fun e => !isUpAct e) <;> simp

/-! ### what the history must end with -/

/-- the client's wire at the end, given everything the upstream sent and whether it closed -/
def FinalP (env : Env) (s : Sock) (sent : Bytes) (closed : Bool) : Prop :=
  match breakOn CRLF2 sent with
  | none => if closed then Obs.wire s.log = err502 env [] else Obs.wire s.log = []
  | some (head, body) =>
    match Parser.parseResponseHeaders head with
    | none => Obs.wire s.log = err502 env []
    | some (code, reason, hs) =>
      Obs.wire s.log = headOut code reason hs ++ body ∧ (if closed then WShut s else WOpen s)

theorem final_failed (env : Env) {s : Sock} {D head body : Bytes} (x : Bytes) (cl : Bool)
    (hb : breakOn CRLF2 D = some (head, body)) (hq : Parser.parseResponseHeaders head = none)
    (fr : Frozen (err502 env []) s) : FinalP env s (D ++ x) cl := by
  unfold FinalP
  rw [breakOn_append x hb]
  simp only [hq]
  exact fr.wire

theorem upstreamSent'_up (b : Bytes) (r : List PEv) :
    upstreamSent' (.up b :: r) true = (b ++ (upstreamSent' r true).1, (upstreamSent' r true).2) := rfl
theorem upstreamSent'_upClose (r : List PEv) : upstreamSent' (.upClose :: r) true = ([], true) := rfl
theorem upstreamSent'_turn (r : List PEv) (c : Bool) : upstreamSent' (.turn :: r) c = upstreamSent' r true := by
  cases c <;> rfl
theorem upstreamSent'_sock (e : Event) (r : List PEv) (c : Bool) :
    upstreamSent' (.sock e :: r) c = upstreamSent' r c := by
  cases c <;> rfl

/-! ### single events on an open proxy -/

theorem marker_open {st : St} (o : OSt st) :
    ∃ s', marker st = { st with sock := s' } ∧ WStep st.sock s' [] := by
  refine ⟨{ st.sock with log := st.sock.log ++ [Obs.ev (evCount st.sock.log)] }, ?_, wstep_note o.op (quiet_ev _)⟩
  unfold marker
  dsimp only
  rw [if_neg (by simp [o.op.alive])]
  rfl

theorem sockEvent_ack_open (env : Env) {st : St} {D : Bytes} (o : OSt st) (m : OMode st D) {e : Event}
    (he : e = .ackAll ∨ ∃ n, e = .ack n) :
    OSt (sockEvent env st e) ∧ OMode (sockEvent env st e) D ∧ (sockEvent env st e).fromUp = st.fromUp ∧
    (sockEvent env st e).upClosing = st.upClosing := by
  have hcn : st.conn ≠ .none := by rw [o.conn]; simp
  have hf := sockEvent_fields env st e
  simp only [Prod.mk.injEq] at hf
  have hc := sockEvent_conn_of_ne env st e hcn
  have w : WStep st.sock (sockEvent env st e).sock [] := by
    rw [sockEvent_sock, C03L.stepK_alive env app _ e o.op.alive]
    have w0 := wstep_note o.op (quiet_ev (evCount st.sock.log))
    have : ∃ n, Sock.step env app { st.sock with log := st.sock.log ++ [Obs.ev (evCount st.sock.log)] } e =
        ackN env app { st.sock with log := st.sock.log ++ [Obs.ev (evCount st.sock.log)] } n := by
      have hn : ¬ (!({ st.sock with log := st.sock.log ++ [Obs.ev (evCount st.sock.log)] } : Sock).alive) = true := by
        have := w0.op.alive
        simp only at this
        simp [this]
      rcases he with rfl | ⟨n, rfl⟩
      · exact ⟨_, by unfold Sock.step; rw [if_neg hn]⟩
      · exact ⟨n, by unfold Sock.step; rw [if_neg hn]⟩
    obtain ⟨n, hn⟩ := this
    show WStep st.sock (Sock.step env app _ e) []
    rw [hn]
    simpa using w0.trans (wstep_ackN env w0.op n)
  exact ⟨o.quiet w hc, m.quiet w hf.1 hf.2.1, hf.2.2.1, hf.2.2.2⟩

/-! ### the induction -/

theorem run_open (env : Env) (c : Cfg) : ∀ (rest : List PEv) (st : St) (D : Bytes) (b : Bool),
    OSt st → OMode st D → restOk (if st.upClosing then .closing else .open) rest = true →
    dl b rest = true → ((st.fromUp ≠ [] ∨ st.upClosing = true) → b = true) →
    FinalP env (rest.foldl (Proxy.step env c) st).sock
      (D ++ st.fromUp.flatten ++ (if st.upClosing then [] else (upstreamSent' rest true).1))
      (st.upClosing || (upstreamSent' rest true).2) := by
  intro rest
  induction rest with
  | nil =>
    intro st D b o m _ hd hb
    have hb' : b = false := by simpa [dl] using hd
    have hfu : st.fromUp = [] := by
      cases h : st.fromUp with
      | nil => rfl
      | cons a l => have := hb (Or.inl (by rw [h]; simp)); rw [hb'] at this; cases this
    have huc : st.upClosing = false := by
      cases h : st.upClosing with
      | false => rfl
      | true => have := hb (Or.inr h); rw [hb'] at this; cases this
    simp only [List.foldl_nil, hfu, huc, upstreamSent', List.flatten_nil, List.append_nil, Bool.false_eq_true,
      if_false, Bool.or_false]
    unfold FinalP
    cases m with
    | acc wire hp respH upRead nb => rw [nb]; simpa using wire
    | relayed head body code reason hs hp ws hb hq wire =>
      rw [hb]; simp only [hq]; exact ⟨wire, by simpa using o.op⟩
  | cons e r ih =>
    intro st D b o m hr hd hb
    rw [List.foldl_cons]
    cases e with
    | up x =>
      have huc : st.upClosing = false := by
        cases h : st.upClosing with
        | false => rfl
        | true => rw [h] at hr; simp [restOk] at hr
      rw [huc] at hr
      simp only [restOk, Bool.and_eq_true] at hr
      obtain ⟨s', em, w⟩ := marker_open o
      have es : Proxy.step env c st (.up x) = { st with sock := s', fromUp := st.fromUp ++ [x] } := by
        show (if (marker st).conn == .connected then { marker st with fromUp := (marker st).fromUp ++ [x] }
          else marker st) = _
        rw [em]; simp [o.conn]
      rw [es]
      have o' : OSt ({ st with sock := s', fromUp := st.fromUp ++ [x] } : St) := o.quiet w rfl
      have m' : OMode ({ st with sock := s', fromUp := st.fromUp ++ [x] } : St) D := m.quiet w rfl rfl
      have := ih { st with sock := s', fromUp := st.fromUp ++ [x] } D true o' m'
        (by show restOk (if st.upClosing = true then _ else _) r = true; rw [huc]; exact hr.2)
        (by simpa [dl] using hd) (fun _ => rfl)
      simp only [huc, Bool.false_eq_true, if_false, Bool.false_or, upstreamSent'_up] at this ⊢
      simpa [List.flatten_append, List.append_assoc] using this
    | upClose =>
      obtain ⟨s', em, w⟩ := marker_open o
      have es : Proxy.step env c st .upClose = { st with sock := s', upClosing := true } := by
        show (if (marker st).conn == .connected then { marker st with upClosing := true }
          else marker st) = _
        rw [em]; simp [o.conn]
      rw [es]
      have o' : OSt ({ st with sock := s', upClosing := true } : St) := o.quiet w rfl
      have m' : OMode ({ st with sock := s', upClosing := true } : St) D := m.quiet w rfl rfl
      have hr' : restOk .closing r = true := by
        cases h : st.upClosing <;> (rw [h] at hr; simpa [restOk] using hr)
      have := ih { st with sock := s', upClosing := true } D true o' m' hr'
        (by simpa [dl] using hd) (fun _ => rfl)
      simp only [if_true, Bool.true_or, List.append_nil] at this
      rw [upstreamSent'_upClose]
      cases h : st.upClosing <;> simpa [h] using this
    | turn =>
      have hd' : dl false r = true := by simpa [dl] using hd
      show FinalP env (r.foldl (Proxy.step env c) (Proxy.turn env c st)).sock _ _
      rw [upstreamSent'_turn]
      have hpe : ∀ e ∈ r, pevOk e = true := restOk_pevOk r _ (by simpa [restOk] using hr)
      cases turn_open env c o m with
      | cont hc o' m' fu uc =>
        have := ih (Proxy.turn env c st) (D ++ st.fromUp.flatten) false o' m'
          (by rw [uc]; rw [hc] at hr; simpa [restOk] using hr) hd'
          (by intro h; rcases h with h | h
              · exact absurd fu h
              · rw [uc] at h; cases h)
        simpa [fu, uc, hc] using this
      | failed head body hb' hq fr =>
        have fr' := frozen_run env c r fr hpe
        exact final_failed env _ _ hb' hq fr'
      | closedNone hc nb fr =>
        have fr' := frozen_run env c r fr hpe
        simp only [hc, if_true, List.append_nil, Bool.true_or]
        unfold FinalP
        rw [nb]
        simpa using fr'.wire
      | closedRelayed hc head body code reason hs hb' hq fr =>
        have fr' := frozen_run env c r fr hpe
        simp only [hc, if_true, List.append_nil, Bool.true_or]
        unfold FinalP
        rw [hb']
        simp only [hq]
        exact ⟨fr'.wire, by simpa using fr'.shut⟩
    | sock ev =>
      have hev : ev = .ackAll ∨ ∃ n, ev = .ack n := by
        cases ev <;> first | exact Or.inl rfl | exact Or.inr ⟨_, rfl⟩ | (cases h : st.upClosing <;> (rw [h] at hr; simp [restOk] at hr))
      have hr' : restOk (if st.upClosing then .closing else .open) r = true := by
        rcases hev with rfl | ⟨n, rfl⟩ <;> simpa [restOk] using hr
      rw [step_sock, upstreamSent'_sock]
      obtain ⟨o', m', fu, uc⟩ := sockEvent_ack_open env o m hev
      have := ih (sockEvent env st ev) D b o' m' (by rw [uc]; exact hr') (by simpa [dl] using hd)
        (by rw [fu, uc]; exact hb)
      rw [fu, uc] at this
      exact this

/-! ### the whole history -/

theorem step_turn (env : Env) (c : Cfg) (st : St) : Proxy.step env c st .turn = Proxy.turn env c st := rfl

/-- the client sent one request whose head the library accepts -/
structure Accepted (env : Env) (req : Bytes) : Prop where
  ex : ∃ head rest rh p q, breakOn CRLF2 req = some (head, rest) ∧
    Parser.parseRequestHeaders head [] = some rh ∧ env.url rh.rawPath = some (p, q)

/-- **the end of every scripted-upstream history** `new; feed req; turn; rest` -/
theorem run_final (env : Env) (c : Cfg) (req : Bytes) (rest : List PEv) (ha : Accepted env req)
    (hr : restOk (if c.refuse then .closed else .open) rest = true) (hd : dl false rest = true) :
    (c.refuse = true →
      Frozen (err502 env []) (Proxy.run env c (.sock .new :: .sock (.feed req) :: .turn :: rest)).sock) ∧
    (c.refuse = false →
      FinalP env (Proxy.run env c (.sock .new :: .sock (.feed req) :: .turn :: rest)).sock
        (upstreamSent' rest true).1 (upstreamSent' rest true).2) := by
  obtain ⟨head, restb, rh, p, q, hb, hp, hu⟩ := ha.ex
  have hfed := fed_state env c req head restb rh p q hb hp hu
  have e : Proxy.run env c (.sock .new :: .sock (.feed req) :: .turn :: rest) =
      rest.foldl (Proxy.step env c)
        (Proxy.turn env c ([PEv.sock .new, .sock (.feed req)].foldl (Proxy.step env c) {})) := by
    unfold Proxy.run
    simp only [List.foldl_cons, List.foldl_nil, step_turn]
  rw [e]
  generalize ([PEv.sock .new, .sock (.feed req)].foldl (Proxy.step env c) {}) = fed at hfed
  obtain ⟨h1, h2⟩ := first_turn env c hfed
  constructor
  · intro hrf
    exact frozen_run env c rest (h1 hrf) (restOk_pevOk rest _ hr)
  · intro hrf
    obtain ⟨o, m, fu, uc⟩ := h2 hrf
    rw [hrf] at hr
    have := run_open env c rest (Proxy.turn env c fed) [] false o m (by rw [uc]; exact hr) hd
      (by intro h; rcases h with h | h
          · exact absurd fu h
          · rw [uc] at h; cases h)
    simpa [fu, uc] using this

end Qhttp.C13L
