import Qhttp.Model.SlotHandler
import Qhttp.Lemmas.C02Slots
/-
  C15 — history bookkeeping for the slot application and the "quiet" part of every run: once a
  slot observation exists or a response was started, the application never acts again, so the
  slot observations and the bytes on the wire are frozen.
-/
namespace Qhttp.C15L
open Qhttp SlotHandler

/-- `C15.slots`, stated here so that the lemma files do not depend on the property file -/
def slotsL (obs : List Obs) : List (Nat × Nat) :=
  obs.filterMap fun o => match o with | .slot i a => some (i, a) | _ => none

/-- observations that are neither a slot invocation, nor bytes on the wire, nor `headersParsed` -/
def passive : Obs → Bool
  | .slot _ _ => false | .w _ => false | .hp => false | _ => true

theorem slotsL_append (a b : List Obs) : slotsL (a ++ b) = slotsL a ++ slotsL b := by
  simp [slotsL, List.filterMap_append]

theorem wire_append (a c : List Obs) : Obs.wire (a ++ c) = Obs.wire a ++ Obs.wire c := by
  simp [Obs.wire]

theorem passive_facts (l : List Obs) (h : l.all passive = true) :
    slotsL l = [] ∧ Obs.wire l = [] ∧ l.any Obs.isHp = false ∧ l.any isSlot = false := by
  rw [List.all_eq_true] at h
  refine ⟨?_, ?_, ?_, ?_⟩
  · unfold slotsL
    rw [List.filterMap_eq_nil_iff]
    intro o ho
    have := h o ho
    cases o <;> simp [passive] at this <;> rfl
  · unfold Obs.wire
    rw [List.flatMap_eq_nil_iff]
    intro o ho
    have := h o ho
    cases o <;> simp [passive] at this <;> rfl
  · rw [List.any_eq_false]
    intro o ho
    have := h o ho
    cases o <;> simp [passive] at this <;> simp [Obs.isHp]
  · rw [List.any_eq_false]
    intro o ho
    have := h o ho
    cases o <;> simp [passive] at this <;> simp [isSlot]

theorem any_isSlot_false_iff {l : List Obs} : l.any isSlot = false ↔ slotsL l = [] := by
  unfold slotsL
  rw [List.any_eq_false, List.filterMap_eq_nil_iff]
  constructor
  · intro h o ho
    have := h o ho
    cases o <;> simp [isSlot] at this <;> rfl
  · intro h o ho
    have := h o ho
    cases o <;> simp [isSlot] at this ⊢

/-! ### frame: the history grew by passive observations, the response state is unchanged -/

def Fr (s s' : Sock) : Prop :=
  s'.ws = s.ws ∧ (s.rs ≠ .headers → s'.rs ≠ .headers) ∧ ∃ l, s'.log = s.log ++ l ∧ l.all passive = true

theorem Fr.refl (s : Sock) : Fr s s := ⟨rfl, id, [], by simp, rfl⟩

theorem Fr.trans {s1 s2 s3 : Sock} (h1 : Fr s1 s2) (h2 : Fr s2 s3) : Fr s1 s3 := by
  obtain ⟨a1, b1, l1, c1, d1⟩ := h1
  obtain ⟨a2, b2, l2, c2, d2⟩ := h2
  refine ⟨a2.trans a1, fun h => b2 (b1 h), l1 ++ l2, by rw [c2, c1, List.append_assoc], ?_⟩
  rw [List.all_append, d1, d2]; rfl

theorem Fr.slots {s s' : Sock} (h : Fr s s') : slotsL s'.log = slotsL s.log := by
  obtain ⟨_, _, l, e, hl⟩ := h
  rw [e, slotsL_append, (passive_facts l hl).1, List.append_nil]

theorem Fr.wire {s s' : Sock} (h : Fr s s') : Obs.wire s'.log = Obs.wire s.log := by
  obtain ⟨_, _, l, e, hl⟩ := h
  rw [e, wire_append, (passive_facts l hl).2.1, List.append_nil]

theorem Fr.anySlot {s s' : Sock} (h : Fr s s') : s'.log.any isSlot = s.log.any isSlot := by
  obtain ⟨_, _, l, e, hl⟩ := h
  rw [e, List.any_append, (passive_facts l hl).2.2.2, Bool.or_false]

theorem Fr.anyHp {s s' : Sock} (h : Fr s s') : s'.log.any Obs.isHp = s.log.any Obs.isHp := by
  obtain ⟨_, _, l, e, hl⟩ := h
  rw [e, List.any_append, (passive_facts l hl).2.2.1, Bool.or_false]

/-- the history only changed by one passive observation -/
theorem Fr.log1 (s : Sock) (o : Obs) (ho : passive o = true) : Fr s { s with log := s.log ++ [o] } :=
  ⟨rfl, id, [o], rfl, by simp [ho]⟩

/-- a state change that touches neither the history, nor the response state, nor the phase -/
theorem Fr.of_eq {s s' : Sock} (h1 : s'.ws = s.ws) (h2 : s'.rs = s.rs) (h3 : s'.log = s.log) : Fr s s' :=
  ⟨h1, fun h => by rw [h2]; exact h, [], by simp [h3], rfl⟩

/-! ### the application is silent -/

/-- once a slot observation exists or a response was started, the deferred lambda does nothing
    (it was never connected, or it already ran) -/
def Silent (s : Sock) : Prop := s.log.any isSlot = true ∨ s.ws ≠ .none

/-- `Quiet`: past the headers, and silent -/
def Quiet (s : Sock) : Prop := s.rs ≠ .headers ∧ Silent s

theorem Silent.fr {s s' : Sock} (h : Silent s) (f : Fr s s') : Silent s' := by
  rcases h with h | h
  · left; rw [f.anySlot]; exact h
  · right; rw [f.1]; exact h

theorem Quiet.fr {s s' : Sock} (h : Quiet s) (f : Fr s s') : Quiet s' := ⟨f.2.1 h.1, h.2.fr f⟩

theorem onRcf_silent (regs : List Reg) (path : QStr) (s : Sock) (h : Silent s) : onRcf regs path s = [] := by
  unfold onRcf
  cases lookup regs path with
  | none => rfl
  | some m =>
    simp only
    rcases h with h | h
    · simp [h]
    · have : (s.ws == WState.none) = false := by
        cases hw : s.ws <;> simp_all
      simp [this]

theorem onRcf_noHp (regs : List Reg) (path : QStr) (s : Sock) (h : s.log.any Obs.isHp = false) :
    onRcf regs path s = [] := by
  unfold onRcf
  cases lookup regs path with
  | none => rfl
  | some m => simp [h]

theorem emit_nil (env : Env) (app : App) (s : Sock) (o : Obs) :
    Sock.emit env app s o [] = { s with log := s.log ++ [o] } := rfl

section quiet
variable (env : Env) (regs : List Reg) (path : QStr)

theorem cutS_fr (s : Sock) : Fr s (C02.cutS s) := by
  unfold C02.cutS; split
  · exact Fr.of_eq rfl rfl rfl
  · exact Fr.refl s

theorem cutS_log (s : Sock) : (C02.cutS s).log = s.log := by
  unfold C02.cutS; split <;> rfl

theorem rrS_fr (s : Sock) : Fr s (C02.rrS env (app regs path) s) := by
  unfold C02.rrS; split
  · exact Fr.log1 s .rr rfl
  · exact Fr.refl s

theorem pullS_fr (s : Sock) : Fr s (C02.pullS s) := by
  unfold C02.pullS; split
  · exact Fr.of_eq rfl rfl rfl
  · exact Fr.refl s

theorem finS_silent (s : Sock) (h : Silent s) : Fr s (C02.finS env (app regs path) s) := by
  unfold C02.finS; split
  · have hs : Silent { s with rs := .finished } := h
    show Fr s (Sock.emit env (app regs path) { s with rs := .finished } .rcf (onRcf regs path { s with rs := .finished }))
    rw [onRcf_silent regs path _ hs, emit_nil]
    exact ⟨rfl, fun _ => by simp, [.rcf], rfl, rfl⟩
  · exact Fr.refl s

theorem readDataSlot_silent (s : Sock) (h : Silent s) :
    Fr s (Sock.readDataSlot env (app regs path) s) := by
  rw [C02.readDataSlot_eq]
  have f1 := cutS_fr s
  have f2 := rrS_fr env regs path (C02.cutS s)
  have f12 := f1.trans f2
  exact f12.trans (finS_silent env regs path _ (h.fr f12))

theorem onReadyRead_quiet (s : Sock) (h : Quiet s) : Fr s (Sock.onReadyRead env (app regs path) s) := by
  rw [C02.onReadyRead_eq]
  split
  · split
    · exact Fr.of_eq rfl rfl rfl
    · exact Fr.refl s
  · rename_i hnf
    have hd : s.rs = .data := by
      have := h.1
      cases hr : s.rs <;> simp_all
    have f1 := pullS_fr s
    have hd1 : (C02.pullS s).rs = .data := by rw [C02.pullS_rs, hd]
    rw [C02.orrBody_data _ _ _ hd1]
    exact f1.trans (readDataSlot_silent env regs path _ (h.2.fr f1))

theorem emitDc_fr (s : Sock) : Fr s (Sock.emitDc env (app regs path) s) := by
  have : Sock.emitDc env (app regs path) s =
      { s with dcFlag := false, log := s.log ++ [Obs.dc], delPending := s.delPending || s.closeCalled } := rfl
  rw [this]
  exact ⟨rfl, id, [.dc], rfl, rfl⟩

theorem onRCF_fr (s : Sock) (h : Silent s ∨ s.log.any Obs.isHp = false) :
    Fr s (Sock.onReadChannelFinished env (app regs path) s) := by
  unfold Sock.onReadChannelFinished
  split
  · have : onRcf regs path s = [] := by
      rcases h with h | h
      · exact onRcf_silent regs path s h
      · exact onRcf_noHp regs path s h
    show Fr s (Sock.emit env (app regs path) s .rcf (onRcf regs path s))
    rw [this, emit_nil]
    exact Fr.log1 s .rcf rfl
  · exact Fr.refl s

/-- the three events of the scenario shape -/
def slotEvent : Event → Bool
  | .feed _ => true | .turn => true | .peerClose => true | _ => false

theorem step_quiet (s : Sock) (h : Quiet s) (e : Event) (he : slotEvent e = true) :
    Fr s (Sock.step env (app regs path) s e) := by
  unfold Sock.step
  split
  · exact Fr.refl s
  · cases e <;> simp [slotEvent] at he
    · -- feed
      rename_i seg
      have f0 : Fr s { s with tcp := { s.tcp with inbox := s.tcp.inbox ++ seg } } := Fr.of_eq rfl rfl rfl
      exact f0.trans (onReadyRead_quiet env regs path _ (h.fr f0))
    · -- peerClose
      simp only
      split
      · exact Fr.refl s
      · have f0 : Fr s { s with tcp := { s.tcp with conn := .unconnected } } := Fr.of_eq rfl rfl rfl
        have f1 := onRCF_fr env regs path _ (Or.inl (h.2.fr f0))
        exact (f0.trans f1).trans (emitDc_fr env regs path _)
    · -- turn
      simp only
      have f1 : Fr s (if s.initPending then Sock.onReadyRead env (app regs path) { s with initPending := false } else s) := by
        split
        · have f0 : Fr s { s with initPending := false } := Fr.of_eq rfl rfl rfl
          exact f0.trans (onReadyRead_quiet env regs path _ (h.fr f0))
        · exact Fr.refl s
      generalize (if s.initPending then Sock.onReadyRead env (app regs path) { s with initPending := false } else s) = s1 at f1
      split
      · exact f1.trans ⟨rfl, id, [.del], rfl, rfl⟩
      · exact f1

end quiet
end Qhttp.C15L
