import Qhttp.Model.Http
import Qhttp.Lemmas.C04Bytes
/-
  The closed form of the 400 response written by `writeError env s 400 none` on a fresh
  socket, and what the strict reader `Http.parse` makes of it.
-/
namespace Qhttp.C04L
open Qhttp

/-- status line of the 400 response -/
def START400 : Bytes :=
  lit ['H','T','T','P','/','1','.','0',' ','4','0','0',' ','B','A','D',' ','R','E','Q','U','E','S','T']

/-- the header block of the error response with `Content-Length: d` -/
def head400 (d : Bytes) : Bytes :=
  START400 ++ (CRLF ++ ((Sock.CONTENT_LENGTH ++ ([COLON, SP] ++ d)) ++
    (CRLF ++ ((Sock.CONTENT_TYPE ++ ([COLON, SP] ++ Sock.TEXT_HTML)) ++ (CRLF2)))))

/-- the text before the blank line -/
def headText400 (d : Bytes) : Bytes :=
  START400 ++ (CRLF ++ ((Sock.CONTENT_LENGTH ++ ([COLON, SP] ++ d)) ++
    (CRLF ++ (Sock.CONTENT_TYPE ++ ([COLON, SP] ++ Sock.TEXT_HTML)))))

def msg400 (d body : Bytes) : Http.Msg :=
  { start := START400,
    headers := [(Sock.CONTENT_LENGTH, d), (Sock.CONTENT_TYPE, Sock.TEXT_HTML)],
    body := body }

theorem breakOn_first' (d0 : UInt8) (dt a r : Bytes) (h : a.all (· != d0) = true) :
    breakOn (d0 :: dt) (a ++ ((d0 :: dt) ++ r)) = some (a, r) := by
  rw [← List.append_assoc]; exact breakOn_first d0 dt a r h

/-- a CRLF followed by a non-empty line without CR is not the blank line -/
theorem breakOn_crlf2_line (a l xs : Bytes) (ha : a.all (· != 13) = true)
    (hl : l.all (· != 13) = true) (hne : l ≠ []) :
    breakOn CRLF2 (a ++ (CRLF ++ (l ++ xs))) =
      (breakOn CRLF2 (l ++ xs)).map (fun p => (a ++ (CRLF ++ p.1), p.2)) := by
  cases l with
  | nil => exact absurd rfl hne
  | cons y l =>
    simp at hl
    have hy : y ≠ 13 := hl.1
    have h1 : breakOn CRLF2 (a ++ (CRLF ++ (y :: l ++ xs))) =
        (breakOn CRLF2 (CRLF ++ (y :: l ++ xs))).map (fun p => (a ++ p.1, p.2)) :=
      breakOn_skip 13 [10, 13, 10] a _ ha
    have h2 : breakOn CRLF2 (CRLF ++ (y :: l ++ xs)) =
        (breakOn CRLF2 (y :: l ++ xs)).map (fun p => (CRLF ++ p.1, p.2)) := by
      show breakOn CRLF2 (13 :: 10 :: (y :: l ++ xs)) = _
      conv => lhs; unfold breakOn
      have hp : CRLF2.isPrefixOf (13 :: 10 :: (y :: l ++ xs)) = false := by
        simp [CRLF2, List.isPrefixOf]
        intro h; exact absurd h.symm hy
      rw [hp]
      simp only [Bool.false_eq_true, if_false]
      have h3 : breakOn CRLF2 (10 :: (y :: l ++ xs)) =
          (breakOn CRLF2 (y :: l ++ xs)).map (fun p => (10 :: p.1, p.2)) :=
        breakOn_cons_ne 13 [10, 13, 10] 10 _ (by decide)
      rw [h3]
      cases breakOn CRLF2 (y :: l ++ xs) with
      | none => rfl
      | some p => rfl
    rw [h1, h2]
    cases breakOn CRLF2 (y :: l ++ xs) with
    | none => rfl
    | some p => simp

theorem all_ne_of_digits (c : UInt8) (hc : isDigit c = false) :
    ∀ (d : Bytes), d.all isDigit = true → d.all (· != c) = true := by
  intro d h
  rw [List.all_eq_true] at h ⊢
  intro x hx
  exact isDigit_ne x c hc (h x hx)

theorem start400_noCR : START400.all (· != 13) = true := by decide
theorem cl_noCR : (Sock.CONTENT_LENGTH ++ [COLON, SP]).all (· != 13) = true := by decide
theorem ct_noCR : (Sock.CONTENT_TYPE ++ ([COLON, SP] ++ Sock.TEXT_HTML)).all (· != 13) = true := by
  decide

theorem line2_noCR (d : Bytes) (hd : d.all isDigit = true) :
    (Sock.CONTENT_LENGTH ++ ([COLON, SP] ++ d)).all (· != 13) = true := by
  rw [← List.append_assoc, List.all_append, cl_noCR, all_ne_of_digits 13 (by decide) d hd]
  rfl

theorem line2_ne_nil (d : Bytes) : (Sock.CONTENT_LENGTH ++ ([COLON, SP] ++ d)) ≠ [] := by
  simp [Sock.CONTENT_LENGTH, lit]

theorem line3_ne_nil : (Sock.CONTENT_TYPE ++ ([COLON, SP] ++ Sock.TEXT_HTML)) ≠ [] := by
  decide

/-- the blank line of the response is the one that ends its header block, whatever the body -/
theorem breakOn_head400 (d body : Bytes) (hd : d.all isDigit = true) :
    breakOn CRLF2 (head400 d ++ body) = some (headText400 d, body) := by
  have e : head400 d ++ body =
      START400 ++ (CRLF ++ ((Sock.CONTENT_LENGTH ++ ([COLON, SP] ++ d)) ++
        (CRLF ++ ((Sock.CONTENT_TYPE ++ ([COLON, SP] ++ Sock.TEXT_HTML)) ++ (CRLF2 ++ body))))) := by
    simp only [head400, List.append_assoc]
  rw [e]
  rw [breakOn_crlf2_line _ _ _ start400_noCR (line2_noCR d hd) (line2_ne_nil d)]
  rw [breakOn_crlf2_line _ _ _ (line2_noCR d hd) ct_noCR line3_ne_nil]
  have h3 : breakOn CRLF2 ((Sock.CONTENT_TYPE ++ ([COLON, SP] ++ Sock.TEXT_HTML)) ++ (CRLF2 ++ body))
      = some (Sock.CONTENT_TYPE ++ ([COLON, SP] ++ Sock.TEXT_HTML), body) :=
    breakOn_first' 13 [10, 13, 10] _ _ ct_noCR
  rw [h3]
  simp [headText400]

theorem split_headText400 (d : Bytes) (hd : d.all isDigit = true) :
    splitF CRLF ((headText400 d).length + 1) none (headText400 d) =
      [START400, Sock.CONTENT_LENGTH ++ ([COLON, SP] ++ d),
       Sock.CONTENT_TYPE ++ ([COLON, SP] ++ Sock.TEXT_HTML)] := by
  obtain ⟨f, hf⟩ : ∃ f, (headText400 d).length + 1 = f + 3 := by
    refine ⟨(headText400 d).length - 2, ?_⟩
    have : 4 ≤ (headText400 d).length := by
      simp [headText400, CRLF]; omega
    omega
  rw [hf]
  have h1 : breakOn CRLF (headText400 d) = some (START400,
      (Sock.CONTENT_LENGTH ++ ([COLON, SP] ++ d)) ++
        (CRLF ++ (Sock.CONTENT_TYPE ++ ([COLON, SP] ++ Sock.TEXT_HTML)))) :=
    breakOn_first' 13 [10] _ _ start400_noCR
  have h2 : breakOn CRLF ((Sock.CONTENT_LENGTH ++ ([COLON, SP] ++ d)) ++
        (CRLF ++ (Sock.CONTENT_TYPE ++ ([COLON, SP] ++ Sock.TEXT_HTML)))) =
      some (Sock.CONTENT_LENGTH ++ ([COLON, SP] ++ d),
        Sock.CONTENT_TYPE ++ ([COLON, SP] ++ Sock.TEXT_HTML)) :=
    breakOn_first' 13 [10] _ _ (line2_noCR d hd)
  have h3 : breakOn CRLF (Sock.CONTENT_TYPE ++ ([COLON, SP] ++ Sock.TEXT_HTML)) = none :=
    breakOn_none 13 [10] _ ct_noCR
  rw [splitF_step _ _ _ _ _ h1, splitF_step _ _ _ _ _ h2, splitF_none_of_breakOn_none _ _ _ h3]

theorem headerLine_cl (d : Bytes) :
    Http.headerLine (Sock.CONTENT_LENGTH ++ ([COLON, SP] ++ d)) = some (Sock.CONTENT_LENGTH, d) := by
  have h : breakOn [COLON, SP] (Sock.CONTENT_LENGTH ++ ([COLON, SP] ++ d)) =
      some (Sock.CONTENT_LENGTH, d) :=
    breakOn_first' 58 [32] _ _ (by decide)
  have h2 : (Sock.CONTENT_LENGTH.isEmpty || containsByte COLON Sock.CONTENT_LENGTH) = false := by
    decide
  simp only [Http.headerLine, h, h2]
  simp

theorem headerLine_ct :
    Http.headerLine (Sock.CONTENT_TYPE ++ ([COLON, SP] ++ Sock.TEXT_HTML)) =
      some (Sock.CONTENT_TYPE, Sock.TEXT_HTML) := by
  decide

/-- the strict reader understands the error response exactly -/
theorem parse_head400 (d body : Bytes) (hd : d.all isDigit = true) :
    Http.parse (head400 d ++ body) = some (msg400 d body) := by
  simp only [Http.parse, breakOn_head400 d body hd, split_headText400 d hd, Http.headerLines,
    headerLine_cl, headerLine_ct, msg400]

theorem statusLine_start400 :
    Http.statusLine START400 =
      some { code := 400, reason := lit ['B','A','D',' ','R','E','Q','U','E','S','T'] } := by
  decide

theorem valuesOf_cl (d : Bytes) (hd : d.all isDigit = true) :
    Http.valuesOf Sock.CONTENT_LENGTH
      [(Sock.CONTENT_LENGTH, d), (Sock.CONTENT_TYPE, Sock.TEXT_HTML)] = [d] := by
  have h2 : (lower Sock.CONTENT_TYPE == lower Sock.CONTENT_LENGTH) = false := by decide
  have h3 : breakOn [44, 32] d = none :=
    breakOn_none 44 [32] d (all_ne_of_digits 44 (by decide) d hd)
  simp [Http.valuesOf, List.filter, h2, splitF_none_of_breakOn_none _ _ _ h3]

end Qhttp.C04L
