import Qhttp.Model.LocalAuth
import Qhttp.Lemmas.HttpBytes
/-
  C17 helper lemmas, part 1: `insertKey` / `sortKeys` (the key set of the advertised JSON object).
  `sortKeys` is insertion sort with de-duplication for the strict total order `bytesLt`.
-/
namespace Qhttp.C17L
open Qhttp LocalAuth HB

/-- strictly increasing for `bytesLt` (hence duplicate-free) -/
def Sorted (l : List Bytes) : Prop := l.Pairwise (fun a b => bytesLt a b = true)

theorem mem_insertKey {k x : Bytes} {l : List Bytes} : x ∈ insertKey k l ↔ x = k ∨ x ∈ l := by
  induction l with
  | nil => simp [insertKey]
  | cons y l ih =>
    simp only [insertKey]
    split
    · simp
    · split
      · rename_i h; have : k = y := by simpa using h
        subst this; simp
      · simp only [List.mem_cons, ih]
        constructor
        · rintro (h | h | h) <;> simp [h]
        · rintro (h | h | h) <;> simp [h]

theorem mem_sortKeys {x : Bytes} {l : List Bytes} : x ∈ sortKeys l ↔ x ∈ l := by
  induction l with
  | nil => simp [sortKeys]
  | cons y l ih =>
    have : sortKeys (y :: l) = insertKey y (sortKeys l) := rfl
    rw [this, mem_insertKey, ih]; simp

theorem sortKeys_cons (k : Bytes) (l : List Bytes) : sortKeys (k :: l) = insertKey k (sortKeys l) := rfl

theorem insertKey_sorted {k : Bytes} {l : List Bytes} (h : Sorted l) : Sorted (insertKey k l) := by
  induction l with
  | nil => simp [insertKey, Sorted]
  | cons y l ih =>
    have hy : ∀ z ∈ l, bytesLt y z = true := (List.pairwise_cons.mp h).1
    have hl : Sorted l := (List.pairwise_cons.mp h).2
    simp only [insertKey]
    cases h1 : bytesLt k y with
    | true =>
      simp only [if_true]
      refine List.pairwise_cons.mpr ⟨?_, h⟩
      intro z hz
      rcases List.mem_cons.mp hz with rfl | hz
      · exact h1
      · exact bytesLt_trans h1 (hy z hz)
    | false =>
      simp only [Bool.false_eq_true, if_false]
      split
      · exact h
      · rename_i hne
        have hne' : k ≠ y := by simpa using hne
        refine List.pairwise_cons.mpr ⟨?_, ih hl⟩
        intro z hz
        rcases mem_insertKey.mp hz with rfl | hz
        · cases h2 : bytesLt y z with
          | true => rfl
          | false => exact absurd (bytesLt_total h1 h2) hne'
        · exact hy z hz

/-- the result of `sortKeys` is strictly increasing -/
theorem sortKeys_sorted (l : List Bytes) : Sorted (sortKeys l) := by
  induction l with
  | nil => simp [sortKeys, Sorted]
  | cons y l ih => rw [sortKeys_cons]; exact insertKey_sorted ih

theorem Sorted.nodup {l : List Bytes} (h : Sorted l) : l.Nodup := by
  refine List.Pairwise.imp ?_ h
  intro a b hab heq
  subst heq
  rw [bytesLt_irrefl] at hab; cases hab

/-- the result of `sortKeys` has no duplicates -/
theorem sortKeys_nodup (l : List Bytes) : (sortKeys l).Nodup := (sortKeys_sorted l).nodup

theorem insertKey_of_sorted_cons {k : Bytes} {l : List Bytes} (h : Sorted (k :: l)) :
    insertKey k l = k :: l := by
  cases l with
  | nil => rfl
  | cons y l =>
    have : bytesLt k y = true := (List.pairwise_cons.mp h).1 y (by simp)
    simp [insertKey, this]

/-- a strictly increasing list is a fixed point of `sortKeys` -/
theorem sortKeys_of_sorted {l : List Bytes} (h : Sorted l) : sortKeys l = l := by
  induction l with
  | nil => rfl
  | cons y l ih =>
    rw [sortKeys_cons, ih (List.pairwise_cons.mp h).2, insertKey_of_sorted_cons h]

/-- `sortKeys` is idempotent -/
theorem sortKeys_idem (l : List Bytes) : sortKeys (sortKeys l) = sortKeys l :=
  sortKeys_of_sorted (sortKeys_sorted l)

theorem insertKey_idem (k : Bytes) (l : List Bytes) : insertKey k (insertKey k l) = insertKey k l := by
  induction l with
  | nil => simp [insertKey, bytesLt_irrefl]
  | cons y l ih =>
    simp only [insertKey]
    cases h1 : bytesLt k y with
    | true => simp [insertKey, bytesLt_irrefl]
    | false =>
      simp only [Bool.false_eq_true, if_false]
      by_cases h2 : (k == y) = true
      · simp only [h2, if_true, insertKey, h1, Bool.false_eq_true, if_false]
      · simp only [h2, if_false, insertKey, h1, Bool.false_eq_true, ih]

theorem insertKey_comm (a c : Bytes) (l : List Bytes) :
    insertKey a (insertKey c l) = insertKey c (insertKey a l) := by
  by_cases hac : a = c
  · subst hac; rfl
  have hne1 : (a == c) = false := by simpa using hac
  have hne2 : (c == a) = false := by simpa using (fun h => hac h.symm)
  induction l with
  | nil =>
    simp only [insertKey]
    cases h1 : bytesLt a c <;> cases h2 : bytesLt c a <;> simp [hne1, hne2]
    · exact (hac (bytesLt_total h1 h2)).elim
    · rw [bytesLt_asymm h1] at h2; cases h2
  | cons y l ih =>
    simp only [insertKey]
    cases hay : bytesLt a y <;> cases hcy : bytesLt c y <;>
      simp only [Bool.false_eq_true, if_false, if_true]
    · -- neither is below y
      by_cases e1 : (a == y) = true
      · have : a = y := by simpa using e1
        subst this
        simp only [e1, if_true, hne2, Bool.false_eq_true, if_false, insertKey, hay, hcy]
      · by_cases e2 : (c == y) = true
        · have : c = y := by simpa using e2
          subst this
          simp only [e1, e2, if_true, if_false, insertKey, hay, hcy, Bool.false_eq_true]
        · simp only [e1, e2, if_false, insertKey, hay, hcy, Bool.false_eq_true, ih]
    · -- c < y ≤ a
      have hca : bytesLt c a = true := by
        cases h : bytesLt c a with
        | true => rfl
        | false =>
          cases h' : bytesLt a c with
          | true => rw [bytesLt_trans h' hcy] at hay; cases hay
          | false => exact absurd (bytesLt_total h' h) hac
      have hac' : bytesLt a c = false := bytesLt_asymm hca
      by_cases e1 : (a == y) = true
      · simp only [e1, if_true, insertKey, hac', hne1, hay, hcy, Bool.false_eq_true, if_false]
      · simp only [e1, if_false, insertKey, hac', hne1, hay, hcy, Bool.false_eq_true, if_true]
    · -- a < y ≤ c
      have hac' : bytesLt a c = true := by
        cases h : bytesLt a c with
        | true => rfl
        | false =>
          cases h' : bytesLt c a with
          | true => rw [bytesLt_trans h' hay] at hcy; cases hcy
          | false => exact absurd (bytesLt_total h h') hac
      have hca : bytesLt c a = false := bytesLt_asymm hac'
      by_cases e2 : (c == y) = true
      · simp only [e2, if_true, insertKey, hca, hne2, hay, hcy, Bool.false_eq_true, if_false]
      · simp only [e2, if_false, insertKey, hca, hne2, hay, hcy, Bool.false_eq_true, if_true]
    · -- both below y
      simp only [insertKey]
      cases h1 : bytesLt a c <;> cases h2 : bytesLt c a <;>
        simp [hne1, hne2, hay, hcy]
      · exact (hac (bytesLt_total h1 h2)).elim
      · rw [bytesLt_asymm h1] at h2; cases h2

/-- `sortKeys` only depends on the set of keys: permuted input, same result -/
theorem sortKeys_perm {l l' : List Bytes} (h : l.Perm l') : sortKeys l = sortKeys l' := by
  induction h with
  | nil => rfl
  | cons x _ ih => rw [sortKeys_cons, sortKeys_cons, ih]
  | swap x y l => simp only [sortKeys_cons]; exact insertKey_comm _ _ _
  | trans _ _ ih1 ih2 => exact ih1.trans ih2

/-- `setData` strips a caller-supplied `token` key before inserting its own: same key set -/
theorem sortKeys_token_filter (t : Bytes) (ks : List Bytes) :
    sortKeys (t :: ks.filter (· != t)) = sortKeys (t :: ks) := by
  simp only [sortKeys_cons]
  induction ks with
  | nil => rfl
  | cons x ks ih =>
    by_cases hx : x = t
    · subst hx
      simp only [List.filter_cons, bne_self_eq_false, Bool.false_eq_true, if_false, sortKeys_cons]
      rw [insertKey_idem]; exact ih
    · have : (x != t) = true := by simpa using hx
      simp only [List.filter_cons, this, if_true, sortKeys_cons]
      rw [insertKey_comm t x, ih, insertKey_comm x t]

/-- the `token` key is always a member of what `setData` writes -/
theorem token_mem_sortKeys (t : Bytes) (ks : List Bytes) : t ∈ sortKeys (t :: ks) :=
  mem_sortKeys.mpr (by simp)

end Qhttp.C17L
