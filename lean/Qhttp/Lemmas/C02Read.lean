import Qhttp.Model.Socket
import Qhttp.Lemmas.C02Bytes
/-
  C02 — the read side of the socket: reader applications, the history walk in "append" form,
  and what `read`/`readAll`/`bytesAvailable` do to the state.
-/
namespace Qhttp.C02
open Qhttp

/-! ### reader applications and scenario shape -/

/-- call lists of a reader: `read n`, `readAll`, and `avail` immediately followed by `readAll` -/
def readerOps : List ApiOp → Bool
  | [] => true
  | .read _ :: l => readerOps l
  | .readAll :: l => readerOps l
  | .avail :: .readAll :: l => readerOps l
  | _ => false

def ReaderOps (l : List ApiOp) : Prop := readerOps l = true

instance (l : List ApiOp) : Decidable (ReaderOps l) := inferInstanceAs (Decidable (_ = true))

/-- every reaction, in every state, is a reader call list -/
structure ReaderApp (app : App) : Prop where
  hp  : ∀ s, ReaderOps (app.onHp s)
  rr  : ∀ s, ReaderOps (app.onRr s)
  rcf : ∀ s, ReaderOps (app.onRcf s)
  bw  : ∀ s, ReaderOps (app.onBw s)
  dc  : ∀ s, ReaderOps (app.onDc s)

/-- the scripted applications (what the `sock` scenario language can say) that are readers -/
def readerScript (sc : Script) : Bool :=
  readerOps sc.onHp && readerOps sc.onRr && readerOps sc.onRcf && readerOps sc.onBw && readerOps sc.onDc

theorem ReaderApp.of_script (sc : Script) (h : readerScript sc = true) : ReaderApp sc.app := by
  simp only [readerScript, Bool.and_eq_true] at h
  obtain ⟨⟨⟨⟨h1, h2⟩, h3⟩, h4⟩, h5⟩ := h
  exact ⟨fun _ => h1, fun _ => h2, fun _ => h3, fun _ => h4, fun _ => h5⟩

def readerOp : ApiOp → Bool
  | .read _ => true | .readAll => true | .avail => true | _ => false

/-- events after construction: segments, event-loop turns, reads from idle context -/
def readerEvent : Event → Bool
  | .feed _ => true | .turn => true | .api op => readerOp op | _ => false

/-- the scenario shape of C02: construct the socket, then feed / turn / idle-context reads
    (`avail` is allowed anywhere from idle context, in particular directly before `readAll`) -/
def readerEvents : List Event → Bool
  | .new :: rest => rest.all readerEvent
  | _ => false

/-! ### the history walk, compositional form -/

def evLen (evs : List Event) (k : Nat) : Nat :=
  match evs[k]? with
  | some (.feed b) => b.length
  | some (.prebuf b) => b.length
  | _ => 0

/-- `C02.walk` with the two numbers it uses from the request made explicit -/
def walkL (evs : List Event) (hl n : Nat) : List Obs → (fed : Nat) → (hp : Bool) → (lastAv : Option Nat) → Bool
  | [], _, _, _ => true
  | o :: l, fed, hp, lastAv =>
    match o with
    | .ev k => walkL evs hl n l (fed + evLen evs k) hp none
    | .hp => walkL evs hl n l fed true none
    | .av m => walkL evs hl n l fed hp (some m)
    | .rd b =>
      (hp || b.isEmpty) && (match lastAv with | some m => b.length == m | none => true) &&
        walkL evs hl n l fed hp none
    | .rcf => (fed ≥ hl + n) && walkL evs hl n l fed hp none
    | _ => walkL evs hl n l fed hp none

/-- the state of the walk after a history -/
def wst (evs : List Event) : List Obs → Nat → Bool → Option Nat → Nat × Bool × Option Nat
  | [], fed, hp, lastAv => (fed, hp, lastAv)
  | o :: l, fed, hp, _lastAv =>
    match o with
    | .ev k => wst evs l (fed + evLen evs k) hp none
    | .hp => wst evs l fed true none
    | .av m => wst evs l fed hp (some m)
    | _ => wst evs l fed hp none

theorem walkL_append (evs : List Event) (hl n : Nat) (l1 l2 : List Obs) :
    ∀ f h a, walkL evs hl n (l1 ++ l2) f h a =
      (walkL evs hl n l1 f h a &&
        walkL evs hl n l2 (wst evs l1 f h a).1 (wst evs l1 f h a).2.1 (wst evs l1 f h a).2.2) := by
  induction l1 with
  | nil => intro f h a; simp [walkL, wst]
  | cons o l ih =>
    intro f h a
    cases o <;> simp [walkL, wst, ih, Bool.and_assoc]

theorem wst_append (evs : List Event) (l1 l2 : List Obs) :
    ∀ f h a, wst evs (l1 ++ l2) f h a =
      wst evs l2 (wst evs l1 f h a).1 (wst evs l1 f h a).2.1 (wst evs l1 f h a).2.2 := by
  induction l1 with
  | nil => intro f h a; simp [wst]
  | cons o l ih =>
    intro f h a
    cases o <;> simp [wst, ih]

theorem wst_hp (evs : List Event) (l : List Obs) :
    ∀ f h a, (wst evs l f h a).2.1 = (h || l.any Obs.isHp) := by
  induction l with
  | nil => intro f h a; simp [wst]
  | cons o l ih =>
    intro f h a
    cases o <;> simp [wst, ih, Obs.isHp]

/-- a `bytesAvailable` answer directly followed by a read: the read returns exactly that many bytes -/
theorem walkL_av_rd (evs : List Event) (hl n : Nat) (l1 l2 : List Obs) (m : Nat) (b : Bytes)
    (h : walkL evs hl n (l1 ++ Obs.av m :: Obs.rd b :: l2) 0 false none = true) : b.length = m := by
  rw [walkL_append] at h
  simp only [walkL, Bool.and_eq_true, beq_iff_eq] at h
  exact h.2.1.2

/-- a read that returns bytes comes after `headersParsed` -/
theorem walkL_rd_hp (evs : List Event) (hl n : Nat) (l1 l2 : List Obs) (b : Bytes)
    (h : walkL evs hl n (l1 ++ Obs.rd b :: l2) 0 false none = true) (hb : b ≠ []) : Obs.hp ∈ l1 := by
  rw [walkL_append, wst_hp] at h
  simp only [walkL, Bool.and_eq_true, Bool.or_eq_true, Bool.false_or, List.any_eq_true,
    List.isEmpty_iff] at h
  rcases h.2.1.1 with ⟨o, ho, hh⟩ | he
  · cases o <;> simp [Obs.isHp] at hh
    exact ho
  · exact absurd he hb

theorem countP_append (p : Obs → Bool) (l1 l2 : List Obs) :
    Obs.countP p (l1 ++ l2) = Obs.countP p l1 + Obs.countP p l2 := by
  simp [Obs.countP, List.filter_append]

theorem reads_append (l1 l2 : List Obs) : Obs.reads (l1 ++ l2) = Obs.reads l1 ++ Obs.reads l2 := by
  simp [Obs.reads, List.flatMap_append]

/-! ### `read`, `readAll` -/

theorem read_headers (s : Sock) (n : Nat) (hh : s.rs = .headers) (hq : s.qio = []) :
    Sock.read s n = (s, []) := by
  obtain ⟨tcp, rb, qio, rs, method, rawPath, path, query, reqHeaders, dataRead, total, ws, code, reason,
    respHeaders, hdrRemaining, ioOpen, initPending, closeCalled, dcFlag, delPending, alive, log⟩ := s
  simp only at hh hq
  subst hh hq
  simp only [Sock.read, Sock.readData]
  split
  · rfl
  · simp

theorem read_data (s : Sock) (n : Nat) (hio : s.ioOpen = true) (hh : s.rs ≠ .headers) :
    ∃ out q b d, Sock.read s n = ({ s with qio := q, readBuffer := b, dataRead := d }, out) ∧
      out ++ q ++ b = s.qio ++ s.readBuffer ∧ d + s.qio.length = s.dataRead + out.length + q.length := by
  obtain ⟨tcp, rb, qio, rs, method, rawPath, path, query, reqHeaders, dataRead, total, ws, code, reason,
    respHeaders, hdrRemaining, ioOpen, initPending, closeCalled, dcFlag, delPending, alive, log⟩ := s
  simp only at hh hio
  subst hio
  simp only [Sock.read, Sock.readData, hh]
  simp only [Bool.not_true, Bool.false_eq_true, if_false]
  by_cases h0 : n - (List.take n qio).length = 0
  · simp only [h0, if_true]
    refine ⟨_, _, _, _, rfl, ?_, ?_⟩
    · simp
    · simp; omega
  · have hlt : qio.length < n := by
      simp at h0; omega
    have ht : qio.take n = qio := List.take_of_length_le (by omega)
    have hd : qio.drop n = [] := List.drop_of_length_le (by omega)
    have h0' : ¬ (n - qio.length = 0) := by omega
    simp only [ht, hd, h0', if_false]
    by_cases hc : n - qio.length ≥ Sock.chunk
    · simp only [hc, if_true]
      refine ⟨_, _, _, _, rfl, ?_, ?_⟩
      · simp
      · simp; omega
    · simp only [hc, if_false]
      refine ⟨_, _, _, _, rfl, ?_, ?_⟩
      · simp
      · simp; omega

theorem readAll_headers (s : Sock) (hh : s.rs = .headers) (hq : s.qio = []) :
    Sock.readAll s = (s, []) := by
  obtain ⟨tcp, rb, qio, rs, method, rawPath, path, query, reqHeaders, dataRead, total, ws, code, reason,
    respHeaders, hdrRemaining, ioOpen, initPending, closeCalled, dcFlag, delPending, alive, log⟩ := s
  simp only at hh hq
  subst hh hq
  simp only [Sock.readAll, Sock.readData]
  split
  · rfl
  · simp

theorem readAll_data (s : Sock) (hio : s.ioOpen = true) (hh : s.rs ≠ .headers) :
    Sock.readAll s = ({ s with qio := [], readBuffer := [],
                               dataRead := s.dataRead + s.readBuffer.length }, s.qio ++ s.readBuffer) := by
  obtain ⟨tcp, rb, qio, rs, method, rawPath, path, query, reqHeaders, dataRead, total, ws, code, reason,
    respHeaders, hdrRemaining, ioOpen, initPending, closeCalled, dcFlag, delPending, alive, log⟩ := s
  simp only at hh hio
  subst hio
  simp [Sock.readAll, Sock.readData, hh]

end Qhttp.C02
