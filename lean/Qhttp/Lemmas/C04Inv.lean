import Qhttp.Model.Socket
import Qhttp.Lemmas.C04Wire
/-
  Invariants of the socket model used by C04.

  Phase 2 (`Done W s`): the library has closed the transport and finished the request; the
  history is `a ++ tc :: c` with the response `W` on the wire in `a` and only quiet
  observations in `c`.  Every event and every reaction of a quiet application preserves it.

  Phase 1 (`Fresh s`): nothing but arrival events so far and no blank line in `readBuffer`.
-/
namespace Qhttp.C04L
open Qhttp Qhttp.Sock

/-- observations that none of the things C04 counts (`= C04.quietObs`) -/
def qObs : Obs → Bool
  | .hp => false | .crash => false | .tc => false | .w _ => false
  | .mw _ _ => false | .rt _ _ => false | .pr _ _ => false | .slot _ _ => false
  | _ => true

/-- `= C04.quietOp` -/
def qOp : ApiOp → Bool
  | .note o => qObs o
  | _ => true

/-- `= C04.AppOK` -/
structure AppQ (app : App) : Prop where
  rr  : ∀ s, (app.onRr s).all qOp = true
  rcf : ∀ s, (app.onRcf s).all qOp = true
  bw  : ∀ s, (app.onBw s).all qOp = true
  dc  : ∀ s, (app.onDc s).all qOp = true

/-- what may precede the library's `tc`: anything but `tc`, `hp`, `crash`, routing -/
def preObs : Obs → Bool
  | .hp => false | .crash => false | .tc => false
  | .mw _ _ => false | .rt _ _ => false | .pr _ _ => false | .slot _ _ => false
  | _ => true

def LogOK (W : Bytes) (l : List Obs) : Prop :=
  ∃ a c, l = a ++ Obs.tc :: c ∧ a.all preObs = true ∧ Obs.wire a = W ∧ c.all qObs = true

theorem LogOK.append {W : Bytes} {l : List Obs} (h : LogOK W l) (r : List Obs)
    (hr : r.all qObs = true) : LogOK W (l ++ r) := by
  obtain ⟨a, c, rfl, ha, hw, hc⟩ := h
  refine ⟨a, c ++ r, by simp, ha, hw, ?_⟩
  rw [List.all_append, hc, hr]; rfl

/-- phase 2 -/
def Done (W : Bytes) (s : Sock) : Prop :=
  s.tcp.devOpen = false ∧ s.rs = .finished ∧ LogOK W s.log

theorem Done.core {W : Bytes} {s s' : Sock} (h : Done W s)
    (h1 : s'.tcp.devOpen = s.tcp.devOpen) (h2 : s'.rs = s.rs) (h3 : s'.log = s.log) :
    Done W s' := by
  unfold Done at *; rw [h1, h2, h3]; exact h

theorem Done.log {W : Bytes} {s s' : Sock} (h : Done W s) (r : List Obs)
    (h1 : s'.tcp.devOpen = s.tcp.devOpen) (h2 : s'.rs = s.rs) (h3 : s'.log = s.log ++ r)
    (hr : r.all qObs = true) : Done W s' := by
  unfold Done at *; rw [h1, h2, h3]; exact ⟨h.1, h.2.1, h.2.2.append r hr⟩

/-! ### primitives on a closed transport -/

theorem tcpWrite_closed (s : Sock) (bs : Bytes) (h : s.tcp.devOpen = false) :
    tcpWrite s bs = s := by
  simp [tcpWrite, h]

theorem tcpClose_closed (s : Sock) (h : s.tcp.devOpen = false) : tcpClose s = s := by
  simp [tcpClose, h]

theorem Done.setStatusCode_ok {W s} (h : Done W s) (c : Int) (r : Option Bytes) :
    Done W (setStatusCode s c r) := h.core rfl rfl rfl

theorem Done.setHeader_ok {W s} (h : Done W s) (n v : Bytes) (r : Bool) :
    Done W (setHeader s n v r) := by
  unfold Sock.setHeader; split <;> exact h.core rfl rfl rfl

theorem Done.tcpWrite_ok {W s} (h : Done W s) (bs : Bytes) : Done W (tcpWrite s bs) := by
  rw [tcpWrite_closed _ _ h.1]; exact h

theorem Done.tcpClose_ok {W s} (h : Done W s) : Done W (tcpClose s) := by
  rw [tcpClose_closed _ h.1]; exact h

theorem Done.writeHeaders_ok {W s} (h : Done W s) : Done W (writeHeaders s) := by
  unfold Sock.writeHeaders
  simp only
  apply Done.tcpWrite_ok
  exact h.core rfl rfl rfl

theorem Done.write_ok {W s} (h : Done W s) (bs : Bytes) : Done W (write s bs) := by
  unfold Sock.write
  split
  · exact h
  · simp only
    split
    · exact h.writeHeaders_ok.tcpWrite_ok bs
    · exact h.tcpWrite_ok bs

theorem Done.close_ok {W s} (h : Done W s) : Done W (close s) := by
  unfold Sock.close
  simp only
  apply Done.tcpClose_ok
  exact h.core rfl h.2.1.symm rfl

theorem Done.writeError_ok {W s} (h : Done W s) (env : Env) (c : Int) (r : Option Bytes) :
    Done W (writeError env s c r) := by
  simp only [Sock.writeError]
  exact (((((h.setStatusCode_ok c r).setHeader_ok _ _ _).setHeader_ok _ _ _).writeHeaders_ok).write_ok _).close_ok

theorem Done.writeRedirect_ok {W s} (h : Done W s) (p : Bytes) (pm : Bool) :
    Done W (writeRedirect s p pm) := by
  simp only [Sock.writeRedirect]
  exact (((h.setStatusCode_ok _ _).setHeader_ok _ _ _).writeHeaders_ok).close_ok

theorem Done.writeJson_ok {W s} (h : Done W s) (bd : Bytes) (c : Int) :
    Done W (writeJson s bd c) := by
  simp only [Sock.writeJson]
  exact ((((h.setStatusCode_ok _ _).setHeader_ok _ _ _).setHeader_ok _ _ _).write_ok _).close_ok

theorem readData_core (s : Sock) (m : Nat) :
    (readData s m).1.tcp = s.tcp ∧ (readData s m).1.rs = s.rs ∧ (readData s m).1.log = s.log := by
  unfold Sock.readData; split <;> simp

theorem read_core (s : Sock) (n : Nat) :
    (read s n).1.tcp = s.tcp ∧ (read s n).1.rs = s.rs ∧ (read s n).1.log = s.log := by
  unfold Sock.read
  split
  · simp
  · simp only
    split
    · simp
    · split
      · have := readData_core { s with qio := s.qio.drop n } (n - (s.qio.take n).length)
        simpa using this
      · have := readData_core { s with qio := s.qio.drop n } chunk
        simpa using this

theorem readAll_core (s : Sock) :
    (readAll s).1.tcp = s.tcp ∧ (readAll s).1.rs = s.rs ∧ (readAll s).1.log = s.log := by
  unfold Sock.readAll
  split
  · simp
  · have := readData_core { s with qio := [] } s.readBuffer.length
    simpa using this

/-- an API call on a finished, closed socket records quiet observations only -/
theorem Done.apiPrim_ok {W s} (h : Done W s) (env : Env) (op : ApiOp) (hq : qOp op = true) :
    Done W (apiPrim env s op) := by
  unfold Sock.apiPrim
  split
  · exact h
  · cases op with
    | read n =>
      have hc := read_core s n
      simp only
      generalize read s n = p at hc
      obtain ⟨s', out⟩ := p
      obtain ⟨c1, c2, c3⟩ := hc
      simp only at c1 c2 c3
      exact h.log [Obs.rd out] (by simp [c1]) c2 (by simp [c3]) rfl
    | readAll =>
      have hc := readAll_core s
      simp only
      generalize readAll s = p at hc
      obtain ⟨s', out⟩ := p
      obtain ⟨c1, c2, c3⟩ := hc
      simp only at c1 c2 c3
      exact h.log [Obs.rd out] (by simp [c1]) c2 (by simp [c3]) rfl
    | avail => exact h.log [Obs.av _] rfl rfl rfl rfl
    | snap => exact h.log [Obs.snap _] rfl rfl rfl rfl
    | status c r => exact h.setStatusCode_ok c r
    | hdr n v r => exact h.setHeader_ok n v r
    | hdrs m => exact h.core rfl rfl rfl
    | wh => exact h.writeHeaders_ok
    | write bs => exact h.write_ok bs
    | err c r => exact h.writeError_ok env c r
    | redir p pm => exact h.writeRedirect_ok p pm
    | json bd c => exact h.writeJson_ok bd c
    | close => exact h.close_ok
    | note o => exact h.log [o] rfl rfl rfl (by simpa [qOp] using hq)

theorem Done.apiPrims_ok {W} (env : Env) : ∀ (ops : List ApiOp) (s : Sock), Done W s →
    ops.all qOp = true → Done W (ops.foldl (apiPrim env) s) := by
  intro ops
  induction ops with
  | nil => intro s h _; exact h
  | cons op ops ih =>
    intro s h hq
    simp only [List.all_cons, Bool.and_eq_true] at hq
    exact ih _ (h.apiPrim_ok env op hq.1) hq.2

theorem Done.emitDc_ok {W s} (h : Done W s) (env : Env) {app : App} (ha : AppQ app) :
    Done W (emitDc env app s) := by
  unfold Sock.emitDc
  simp only
  have h1 : Done W { s with dcFlag := false, log := s.log ++ [Obs.dc] } :=
    h.log [Obs.dc] rfl rfl rfl rfl
  refine Done.core ?_ rfl rfl rfl
  exact Done.apiPrims_ok env _ _ h1 (ha.dc _)

theorem Done.api_ok {W s} (h : Done W s) (env : Env) {app : App} (ha : AppQ app) (op : ApiOp)
    (hq : qOp op = true) : Done W (api env app s op) := by
  unfold Sock.api
  simp only
  split
  · exact (h.apiPrim_ok env op hq).emitDc_ok env ha
  · exact h.apiPrim_ok env op hq

theorem Done.apis_ok {W} (env : Env) {app : App} (ha : AppQ app) : ∀ (ops : List ApiOp) (s : Sock),
    Done W s → ops.all qOp = true → Done W (apis env app s ops) := by
  intro ops
  induction ops with
  | nil => intro s h _; exact h
  | cons op ops ih =>
    intro s h hq
    simp only [List.all_cons, Bool.and_eq_true] at hq
    exact ih _ (h.api_ok env ha op hq.1) hq.2

theorem Done.emit_ok {W s} (h : Done W s) (env : Env) {app : App} (ha : AppQ app) (o : Obs)
    (ho : qObs o = true) (ops : List ApiOp) (hq : ops.all qOp = true) :
    Done W (emit env app s o ops) := by
  unfold Sock.emit
  exact Done.apis_ok env ha ops _ (h.log [o] rfl rfl rfl (by simpa using ho)) hq

theorem onReadyRead_done {W s} (h : Done W s) (env : Env) (app : App) :
    onReadyRead env app s = s := by
  unfold Sock.onReadyRead
  simp [h.1, h.2.1]

theorem done_fst_ite {W} {c : Prop} [Decidable c] {a b : Sock × Int}
    (ha : Done W a.1) (hb : Done W b.1) : Done W (if c then a else b).1 := by
  split
  · exact ha
  · exact hb

theorem Done.onBytesWritten_ok {W s} (h : Done W s) (env : Env) {app : App} (ha : AppQ app)
    (n : Int) : Done W (onBytesWritten env app s n) := by
  unfold Sock.onBytesWritten
  have key : ∀ p : Sock × Int, Done W p.1 →
      Done W (match p with
        | (s, bytes) =>
          if s.ws = WState.data then Sock.emit env app s (Obs.bw bytes) (app.onBw s) else s) := by
    intro p hp
    obtain ⟨s1, b⟩ := p
    simp only
    split
    · exact Done.emit_ok hp env ha _ rfl _ (ha.bw _)
    · exact hp
  apply key
  refine done_fst_ite ?_ ?_
  · refine done_fst_ite ?_ ?_ <;> exact h.core rfl rfl rfl
  · exact h

theorem Done.onReadChannelFinished_ok {W s} (h : Done W s) (env : Env) {app : App} (ha : AppQ app) :
    Done W (onReadChannelFinished env app s) := by
  unfold Sock.onReadChannelFinished
  split
  · exact Done.emit_ok h env ha _ rfl _ (ha.rcf _)
  · exact h

theorem Done.ackN_ok {W s} (h : Done W s) (env : Env) {app : App} (ha : AppQ app) (n : Nat) :
    Done W (ackN env app s n) := by
  unfold Sock.ackN
  simp only
  split
  · exact h
  · split
    · apply Done.emitDc_ok _ env ha
      refine Done.core ?_ rfl rfl rfl
      apply Done.onBytesWritten_ok _ env ha
      exact h.core rfl rfl rfl
    · apply Done.onBytesWritten_ok _ env ha
      exact h.core rfl rfl rfl

theorem done_turn_tail {W s} (h : Done W s) :
    Done W (if s.delPending = true
      then { s with alive := false, delPending := false, log := s.log ++ [Obs.del] } else s) := by
  split
  · exact h.log [Obs.del] rfl rfl rfl rfl
  · exact h

/-- every external event keeps a finished, closed socket finished and closed -/
theorem Done.step_ok {W s} (h : Done W s) (env : Env) {app : App} (ha : AppQ app) (e : Event)
    (he : ∀ op, e = .api op → qOp op = true) : Done W (step env app s e) := by
  unfold Sock.step
  split
  · exact h
  · cases e with
    | prebuf bs => exact h.core rfl rfl rfl
    | new => exact h.core rfl rfl rfl
    | feed seg =>
      simp only
      have h1 : Done W { s with tcp := { s.tcp with inbox := s.tcp.inbox ++ seg } } :=
        h.core rfl rfl rfl
      rw [onReadyRead_done h1]; exact h1
    | ack n => exact h.ackN_ok env ha n
    | ackAll => exact h.ackN_ok env ha _
    | peerClose =>
      simp only
      split
      · exact h
      · apply Done.emitDc_ok _ env ha
        apply Done.onReadChannelFinished_ok _ env ha
        exact h.core rfl rfl rfl
    | turn =>
      simp only
      apply done_turn_tail
      split
      · have h0 : Done W { s with initPending := false } := h.core rfl rfl rfl
        rw [onReadyRead_done h0]; exact h0
      · exact h
    | api op => exact h.api_ok env ha op (he op rfl)

theorem Done.stepK_ok {W} {sk : Sock × Nat} (h : Done W sk.1) (env : Env) {app : App}
    (ha : AppQ app) (e : Event) (he : ∀ op, e = .api op → qOp op = true) :
    Done W (stepK env app sk e).1 := by
  unfold Sock.stepK
  simp only
  apply Done.step_ok _ env ha e he
  split
  · exact h
  · exact h.log [Obs.ev sk.2] rfl rfl rfl rfl

theorem Done.steps_ok {W} (env : Env) {app : App} (ha : AppQ app) : ∀ (evs : List Event)
    (sk : Sock × Nat), Done W sk.1 → (∀ e ∈ evs, ∀ op, e = .api op → qOp op = true) →
    Done W (evs.foldl (stepK env app) sk).1 := by
  intro evs
  induction evs with
  | nil => intro sk h _; exact h
  | cons e evs ih =>
    intro sk h he
    simp only [List.foldl_cons]
    apply ih
    · exact Done.stepK_ok h env ha e (he e (by simp))
    · intro e' he'; exact he e' (by simp [he'])

end Qhttp.C04L
