import Qhttp.Model.Copier
/-
  C14 helper lemmas, part 1: observation-log bookkeeping (counts, written bytes, markers,
  "closed" logs) and the frame property of `Copier.step` (it only appends copier signals).
  The definitions `written`, `isFin`, … are literal copies of those in Props/C14.lean
  (Props imports this file, so they cannot be shared); Props proves them equal by `rfl`.
-/
namespace Qhttp.C14L
open Qhttp Copier

def written (obs : List Obs) : Bytes :=
  obs.flatMap fun o => match o with | .misc 1 b => b | _ => []
def isFin : Obs → Bool | .misc 2 _ => true | _ => false
def isErr : Obs → Bool | .misc 3 _ => true | _ => false
def isWrote : Obs → Bool | .misc 1 _ => true | _ => false
/-- event marker -/
def isMk : Obs → Bool | .ev _ => true | _ => false
/-- copier signal (anything `step` itself may append) -/
def isSig : Obs → Bool | .misc _ _ => true | _ => false

def anyFault (c : Cfg) : Bool :=
  c.srcOpenFails || c.dstOpenFails || c.seekFails || c.readFailAt.isSome || c.writeFailAt.isSome

/-- the position of the first byte copied: `start()` seeks only to a range start > 0, otherwise
    the copy begins where the source stands -/
def firstPos (c : Cfg) : Nat := if rangeFrom c > 0 then (rangeFrom c).toNat else c.prePos

def wanted (c : Cfg) : Bytes :=
  match c.range with
  | none => c.src.drop c.prePos
  | some (f, t) =>
    if f < 0 then [] else
    let p := if f > 0 then f.toNat else c.prePos
    if t < 0 then c.src.drop p else
    if t < p then [] else (c.src.drop p).take (t.toNat + 1 - p)

def rangeOK (c : Cfg) : Bool :=
  match c.range with
  | some (f, t) => f ≥ 0 && (t ≥ firstPos c || t == -1) && firstPos c ≤ c.src.length
  | none => c.prePos ≤ c.src.length

/-! ### counts and written bytes -/

@[simp] theorem cnt_nil (p : Obs → Bool) : Obs.countP p [] = 0 := rfl
theorem cnt_append (p : Obs → Bool) (a b : List Obs) :
    Obs.countP p (a ++ b) = Obs.countP p a + Obs.countP p b := by
  simp [Obs.countP, List.filter_append]
theorem cnt_cons (p : Obs → Bool) (a : Obs) (l : List Obs) :
    Obs.countP p (a :: l) = (if p a then 1 else 0) + Obs.countP p l := by
  simp only [Obs.countP, List.filter_cons]; split <;> simp <;> omega
theorem cnt_eq_zero {p : Obs → Bool} {l : List Obs} :
    Obs.countP p l = 0 ↔ ∀ o ∈ l, p o = false := by
  simp [Obs.countP, List.filter_eq_nil_iff]

@[simp] theorem written_nil : written [] = [] := rfl
theorem written_append (a b : List Obs) : written (a ++ b) = written a ++ written b := by
  simp [written, List.flatMap_append]
theorem written_cons (a : Obs) (l : List Obs) : written (a :: l) = written [a] ++ written l := by
  simp [written]
@[simp] theorem written_wrote (d : Bytes) : written [wrote d] = d := by simp [written, wrote]
@[simp] theorem written_fin : written [fin] = [] := by simp [written, fin]
@[simp] theorem written_err : written [err] = [] := by simp [written, err]
@[simp] theorem written_ev (k : Nat) : written [Obs.ev k] = [] := by simp [written]

theorem written_of_mk {l : List Obs} (h : ∀ o ∈ l, isMk o = true) : written l = [] := by
  induction l with
  | nil => rfl
  | cons a l ih =>
    rw [written_cons, ih (fun o ho => h o (List.mem_cons_of_mem _ ho))]
    have := h a (List.mem_cons_self ..)
    cases a <;> simp_all [isMk, written]

theorem cnt_of_mk {p : Obs → Bool} (hp : ∀ o, isMk o = true → p o = false) {l : List Obs}
    (h : ∀ o ∈ l, isMk o = true) : Obs.countP p l = 0 :=
  cnt_eq_zero.2 fun o ho => hp o (h o ho)

theorem mk_not_fin (o : Obs) (h : isMk o = true) : isFin o = false := by cases o <;> simp_all [isMk, isFin]
theorem mk_not_err (o : Obs) (h : isMk o = true) : isErr o = false := by cases o <;> simp_all [isMk, isErr]
theorem mk_not_wrote (o : Obs) (h : isMk o = true) : isWrote o = false := by cases o <;> simp_all [isMk, isWrote]

@[simp] theorem isFin_fin : isFin fin = true := rfl
@[simp] theorem isFin_err : isFin err = false := rfl
@[simp] theorem isFin_wrote (d : Bytes) : isFin (wrote d) = false := rfl
@[simp] theorem isFin_ev (k : Nat) : isFin (Obs.ev k) = false := rfl
@[simp] theorem isErr_fin : isErr fin = false := rfl
@[simp] theorem isErr_err : isErr err = true := rfl
@[simp] theorem isErr_wrote (d : Bytes) : isErr (wrote d) = false := rfl
@[simp] theorem isErr_ev (k : Nat) : isErr (Obs.ev k) = false := rfl
@[simp] theorem isWrote_fin : isWrote fin = false := rfl
@[simp] theorem isWrote_err : isWrote err = false := rfl
@[simp] theorem isWrote_wrote (d : Bytes) : isWrote (wrote d) = true := rfl
@[simp] theorem isWrote_ev (k : Nat) : isWrote (Obs.ev k) = false := rfl
@[simp] theorem isMk_ev (k : Nat) : isMk (Obs.ev k) = true := rfl
@[simp] theorem isSig_fin : isSig fin = true := rfl
@[simp] theorem isSig_err : isSig err = true := rfl
@[simp] theorem isSig_wrote (d : Bytes) : isSig (wrote d) = true := rfl

theorem dropWhile_notFin_of_cnt {l : List Obs} (h : Obs.countP isFin l = 0) :
    l.dropWhile (fun o => !isFin o) = [] := by
  induction l with
  | nil => rfl
  | cons a l ih =>
    rw [cnt_cons] at h
    have ha : isFin a = false := by cases hh : isFin a <;> simp_all
    have hl : Obs.countP isFin l = 0 := by omega
    simp [ha, ih hl]

theorem dropWhile_notFin_append {l1 l2 : List Obs} (h : Obs.countP isFin l1 = 0) :
    (l1 ++ fin :: l2).dropWhile (fun o => !isFin o) = fin :: l2 := by
  induction l1 with
  | nil => simp
  | cons a l ih =>
    rw [cnt_cons] at h
    have ha : isFin a = false := by cases hh : isFin a <;> simp_all
    have hl : Obs.countP isFin l = 0 := by omega
    simp [ha, ih hl]

/-! ### closed logs: exactly one `fin`, nothing but event markers after it -/

def Closed (log : List Obs) : Prop :=
  ∃ l1 l2, log = l1 ++ fin :: l2 ∧ Obs.countP isFin l1 = 0 ∧ ∀ o ∈ l2, isMk o = true

theorem Closed.snoc_mk {log : List Obs} (h : Closed log) (k : Nat) : Closed (log ++ [Obs.ev k]) := by
  obtain ⟨l1, l2, rfl, h1, h2⟩ := h
  refine ⟨l1, l2 ++ [Obs.ev k], by simp, h1, ?_⟩
  intro o ho
  rcases List.mem_append.1 ho with ho | ho
  · exact h2 o ho
  · simp at ho; subst ho; rfl

theorem Closed.of_snoc_fin {log : List Obs} (h : Obs.countP isFin log = 0) : Closed (log ++ [fin]) :=
  ⟨log, [], rfl, h, by simp⟩

theorem Closed.cnt_fin {log : List Obs} (h : Closed log) : Obs.countP isFin log = 1 := by
  obtain ⟨l1, l2, rfl, h1, h2⟩ := h
  rw [cnt_append, cnt_cons, h1, cnt_of_mk mk_not_fin h2]; simp

theorem Closed.dropWhile {log : List Obs} (h : Closed log) :
    ∃ l2, log.dropWhile (fun o => !isFin o) = fin :: l2 ∧ ∀ o ∈ l2, isMk o = true := by
  obtain ⟨l1, l2, rfl, h1, h2⟩ := h
  exact ⟨l2, dropWhile_notFin_append h1, h2⟩

/-- completion is after the last write -/
theorem Closed.no_wrote_after {log : List Obs} (h : Closed log) :
    Obs.countP isWrote ((log.dropWhile (fun o => !isFin o)).drop 1) = 0 := by
  obtain ⟨l2, e, h2⟩ := h.dropWhile
  rw [e]; exact cnt_of_mk mk_not_wrote h2

/-- no error at or after the completion -/
theorem Closed.no_err_after {log : List Obs} (h : Closed log) :
    Obs.countP isErr (log.dropWhile (fun o => !isFin o)) = 0 := by
  obtain ⟨l2, e, h2⟩ := h.dropWhile
  rw [e, cnt_cons, cnt_of_mk mk_not_err h2]; simp

/-! ### markers -/

/-- every marker in the log is below the event counter -/
def MInv (log : List Obs) (k : Nat) : Prop := ∀ j, Obs.ev j ∈ log → j < k

theorem dropWhile_ne_mk {L rest : List Obs} {k : Nat} (h : Obs.ev k ∉ L) :
    (L ++ Obs.ev k :: rest).dropWhile (fun o => o != Obs.ev k) = Obs.ev k :: rest := by
  induction L with
  | nil => simp
  | cons a l ih =>
    have ha : a ≠ Obs.ev k := fun e => h (by simp [e])
    have hl : Obs.ev k ∉ l := fun e => h (List.mem_cons_of_mem _ e)
    simp [ha, ih hl]

/-! ### normal forms of the model's functions -/

/-- the observation of a (possibly empty) successful write -/
def wr (d : Bytes) : List Obs := if d.isEmpty then [] else [wrote d]

@[simp] theorem written_wr (d : Bytes) : written (wr d) = d := by
  unfold wr; split <;> simp_all
theorem wr_sig (d : Bytes) : ∀ o ∈ wr d, isSig o = true := by
  unfold wr; split <;> simp
theorem wr_fin (d : Bytes) : Obs.countP isFin (wr d) = 0 := by
  unfold wr; split <;> simp [cnt_cons]
theorem wr_err (d : Bytes) : Obs.countP isErr (wr d) = 0 := by
  unfold wr; split <;> simp [cnt_cons]

/-- does this `dest->write(data, n)` call return -1 ? -/
def wfail (c : Cfg) (w : Nat) (n : Int) : Bool := n < 0 || c.writeFailAt == some w

theorem destWrite_eq (c : Cfg) (s : St) (data : Bytes) (n : Int) :
    destWrite c s data n =
      ({ s with writes := s.writes + 1,
                log := s.log ++ (if wfail c s.writes n then [] else wr (data.take n.toNat)) }, wfail c s.writes n) := by
  unfold destWrite wr
  simp only []
  cases hw : wfail c s.writes n
  · have : (decide (n < 0) || c.writeFailAt == some s.writes) = false := hw
    simp only [this, Bool.false_eq_true, ↓reduceIte]
    split <;> simp
  · have : (decide (n < 0) || c.writeFailAt == some s.writes) = true := hw
    simp [this]

theorem onReadyRead_eq (c : Cfg) (s : St) (hs : s.stopped = false) :
    onReadyRead c s =
      let data := if s.srcClosed then [] else s.buffered
      let failed := c.writeFailAt == some s.writes
      { s with buffered := if s.srcClosed then s.buffered else [],
               writes := s.writes + 1,
               srcClosed := s.srcClosed || failed,
               log := s.log ++ (if failed then [err] else wr data) } := by
  unfold onReadyRead
  simp only [hs, Bool.false_eq_true, ↓reduceIte, destWrite_eq, wfail]
  have h0 : ∀ k : Nat, ((k : Int) < 0) = False := by intro k; simp
  simp only [h0]
  cases hf : (c.writeFailAt == some s.writes) <;> simp

def nbData (c : Cfg) (pos : Nat) : Bytes := (c.src.drop pos).take c.block
def nbPos (c : Cfg) (pos : Nat) : Nat := pos + (nbData c pos).length
def nbPast (c : Cfg) (pos : Nat) : Bool := rangeTo c != -1 && (nbPos c pos : Int) > rangeTo c
def nbN (c : Cfg) (pos : Nat) : Int :=
  if nbPast c pos then ((nbData c pos).length : Int) - ((nbPos c pos : Int) - rangeTo c - 1) else (nbData c pos).length
def nbD (c : Cfg) (pos : Nat) : Bytes := (nbData c pos).take (nbN c pos).toNat
def nbDone (c : Cfg) (pos : Nat) : Bool := decide (nbPos c pos ≥ c.src.length) || nbPast c pos

theorem nextBlock_eq0 (c : Cfg) (s : St) (hs : s.stopped = false) :
    nextBlock c s =
      if c.readFailAt == some s.reads then
        { s with reads := s.reads + 1, log := s.log ++ [err, fin] }
      else
        let s2 : St := { s with reads := s.reads + 1, pos := nbPos c s.pos, writes := s.writes + 1,
                                log := s.log ++ (if wfail c s.writes (nbN c s.pos) then [] else wr (nbD c s.pos)) }
        if wfail c s.writes (nbN c s.pos) then { s2 with log := s2.log ++ [err, fin] }
        else if nbDone c s.pos then { s2 with log := s2.log ++ [fin] }
        else { s2 with pending := .nextBlock } := by
  unfold nextBlock
  simp only [hs, Bool.false_eq_true, ↓reduceIte, destWrite_eq]
  rfl

/-- `nextBlock` on a copier that was not stopped: read failure / write failure / block written
    (then finished, or re-armed) -/
theorem nextBlock_eq (c : Cfg) (s : St) (hs : s.stopped = false) :
    nextBlock c s =
      if c.readFailAt == some s.reads then
        { s with reads := s.reads + 1, log := s.log ++ [err, fin] }
      else if wfail c s.writes (nbN c s.pos) then
        { s with reads := s.reads + 1, pos := nbPos c s.pos, writes := s.writes + 1, log := s.log ++ [err, fin] }
      else
        { s with reads := s.reads + 1, pos := nbPos c s.pos, writes := s.writes + 1,
                 log := s.log ++ (wr (nbD c s.pos) ++ (if nbDone c s.pos then [fin] else [])),
                 pending := if nbDone c s.pos then s.pending else .nextBlock } := by
  rw [nextBlock_eq0 c s hs]
  cases h1 : (c.readFailAt == some s.reads)
  · cases h2 : wfail c s.writes (nbN c s.pos)
    · cases h3 : nbDone c s.pos <;> simp
    · simp
  · rfl

def seekNeeded (c : Cfg) : Bool := rangeFrom c > 0 && !c.seq
/-- `start()` gives up: a device does not open, or the seek to the range start fails -/
def startFails (c : Cfg) : Bool :=
  c.srcOpenFails || c.dstOpenFails ||
  (seekNeeded c && (c.seekFails || (rangeFrom c).toNat > c.src.length))

theorem start_eq (c : Cfg) (s : St) :
    start c s =
      if startFails c then { s with stopped := false, log := s.log ++ [err, fin] }
      else { s with stopped := false,
                    pos := if seekNeeded c then (rangeFrom c).toNat else s.pos,
                    connected := true,
                    pending := if c.seq then .readyRead else .nextBlock } := by
  cases h1 : c.srcOpenFails
  · cases h2 : c.dstOpenFails
    · cases h4 : seekNeeded c
      · have h4' : (decide (rangeFrom c > 0) && !c.seq) = false := h4
        unfold start startFails
        simp [h1, h2, h4, h4']
      · have h4' : (decide (rangeFrom c > 0) && !c.seq) = true := h4
        unfold start startFails
        simp only [h1, h2, h4, h4', Bool.false_eq_true, if_false, Bool.false_or, Bool.true_and, if_true]
    · unfold start startFails; simp [h1, h2]
  · unfold start startFails; simp [h1]

/-! ### frame: `step` only appends copier signals to the log -/

def Ext (s s' : St) : Prop := ∃ l, s'.log = s.log ++ l ∧ ∀ o ∈ l, isSig o = true

theorem Ext.refl (s : St) : Ext s s := ⟨[], by simp, by simp⟩
theorem Ext.trans {a b c : St} (h1 : Ext a b) (h2 : Ext b c) : Ext a c := by
  obtain ⟨l1, e1, p1⟩ := h1
  obtain ⟨l2, e2, p2⟩ := h2
  refine ⟨l1 ++ l2, by rw [e2, e1, List.append_assoc], ?_⟩
  intro o ho
  rcases List.mem_append.1 ho with ho | ho
  · exact p1 o ho
  · exact p2 o ho

theorem destWrite_ext (c : Cfg) (s : St) (data : Bytes) (n : Int) : Ext s (destWrite c s data n).1 := by
  rw [destWrite_eq]
  refine ⟨_, rfl, ?_⟩
  split
  · simp
  · exact wr_sig _

theorem onReadyRead_ext (c : Cfg) (s : St) : Ext s (onReadyRead c s) := by
  cases hs : s.stopped
  · rw [onReadyRead_eq c s hs]
    refine ⟨_, rfl, ?_⟩
    split
    · simp
    · exact wr_sig _
  · unfold onReadyRead; simp [hs]; exact Ext.refl s

theorem snoc_ext {s s' : St} (h : Ext s s') (o : Obs) (ho : isSig o = true) :
    Ext s { s' with log := s'.log ++ [o] } := by
  obtain ⟨l, e, p⟩ := h
  refine ⟨l ++ [o], by simp [e], ?_⟩
  intro o' ho'
  rcases List.mem_append.1 ho' with ho' | ho'
  · exact p o' ho'
  · simp at ho'; subst ho'; exact ho

theorem onReadChannelFinished_ext (c : Cfg) (s : St) : Ext s (onReadChannelFinished c s) := by
  unfold onReadChannelFinished
  simp only []
  apply snoc_ext _ _ rfl
  split
  · exact onReadyRead_ext c s
  · exact Ext.refl s

theorem start_ext (c : Cfg) (s : St) : Ext s (start c s) := by
  unfold start
  simp only []
  have hef : ∀ o ∈ [err, fin], isSig o = true := by simp
  split
  · exact ⟨[err, fin], rfl, hef⟩
  · split
    · exact ⟨[err, fin], rfl, hef⟩
    · split
      · exact ⟨[err, fin], rfl, hef⟩
      · refine ⟨[], ?_, by simp⟩
        split <;> simp

theorem nextBlock_ext (c : Cfg) (s : St) : Ext s (nextBlock c s) := by
  have hef : ∀ o ∈ [err, fin], isSig o = true := by simp
  cases hs : s.stopped
  · rw [nextBlock_eq c s hs]
    cases h1 : (c.readFailAt == some s.reads)
    · cases h2 : wfail c s.writes (nbN c s.pos)
      · simp only [Bool.false_eq_true, ↓reduceIte]
        refine ⟨_, rfl, ?_⟩
        intro o ho
        rcases List.mem_append.1 ho with ho | ho
        · exact wr_sig _ o ho
        · split at ho <;> simp at ho
          subst ho; rfl
      · exact ⟨[err, fin], rfl, hef⟩
    · exact ⟨[err, fin], rfl, hef⟩
  · unfold nextBlock; simp [hs]; exact Ext.refl s

theorem stop_ext (s : St) : Ext s (stop s) := ⟨[fin], rfl, by simp⟩

theorem step_ext (c : Cfg) (s : St) (e : Ev) : Ext s (step c s e) := by
  cases e with
  | start => exact start_ext c s
  | turn =>
    simp only [step]
    split
    · exact Ext.refl s
    · exact nextBlock_ext c { s with pending := .none }
    · exact onReadyRead_ext c { s with pending := .none }
  | stop => exact stop_ext s
  | arrive b =>
    simp only [step]
    split
    · exact Ext.refl s
    · split
      · exact onReadyRead_ext c { s with buffered := s.buffered ++ b }
      · exact Ext.refl s
  | eof =>
    simp only [step]
    split
    · exact Ext.refl s
    · split
      · exact onReadChannelFinished_ext c s
      · exact Ext.refl s
  | arriveQ b =>
    simp only [step]
    split
    · exact Ext.refl s
    · exact ⟨[], by simp, by simp⟩

end Qhttp.C14L
