import Qhttp.Lemmas.ProxyGen
import Qhttp.Lemmas.C02C01
/-
  C12 — the socket under the proxy's application when the accepted head declares no body length
  (`total = -1`: no `Content-Length`, or one that reads as -1): nothing is cut, the request never
  finishes, every byte after the blank line is handed out at once.
-/
namespace Qhttp.ProxyL
open Qhttp Proxy Qhttp.C02

/-- the accepted head without a declared length -/
structure ParsedN (env : Env) (head : Bytes) (rh : Parser.ReqHead) : Prop where
  parse : Parser.parseRequestHeaders head [] = some rh
  url : ∃ p q, env.url rh.rawPath = some (p, q)
  nolen : (if HeaderMap.contains Sock.CONTENT_LENGTH_KEY rh.headers
           then toLongLong (HeaderMap.value Sock.CONTENT_LENGTH_KEY rh.headers) else -1) = -1

structure NInv (head : Bytes) (rh : Parser.ReqHead) (fed : Bytes) (s : Sock) : Prop where
  alive : s.alive = true
  ioOpen : s.ioOpen = true
  devOpen : s.tcp.devOpen = true
  dcFlag : s.dcFlag = false
  delPending : s.delPending = false
  inbox : s.tcp.inbox = []
  total : s.total = -1
  qio : s.qio = []
  notFin : s.rs ≠ .finished
  hdr : s.rs = .headers → s.readBuffer = fed ∧ breakOn CRLF2 fed = none ∧ s.reqHeaders = [] ∧
          Obs.reads s.log = [] ∧ Obs.countP Obs.isHp s.log = 0
  dat : s.rs = .data → s.readBuffer = [] ∧ (∃ rest, fed = head ++ CRLF2 ++ rest ∧ Obs.reads s.log = rest) ∧
          Obs.countP Obs.isHp s.log = 1 ∧
          s.method = rh.method ∧ s.rawPath = rh.rawPath ∧ s.reqHeaders = rh.headers

/-- the data slot without a declared length: one `readyRead` + `readAll` if anything arrived -/
theorem readDataSlot_nolen (env : Env) (s : Sock) (hl : Live s) (hrs : s.rs = .data)
    (ht : s.total = -1) (hq : s.qio = []) :
    Sock.readDataSlot env Proxy.app s =
      if s.readBuffer.length != 0 then
        { s with qio := [], readBuffer := [], dataRead := s.dataRead + s.readBuffer.length,
                 log := s.log ++ [.rr, .rd s.readBuffer] }
      else s := by
  rw [readDataSlot_eq]
  have c1 : cutS s = s := by unfold cutS; rw [ht]; rfl
  rw [c1]
  have c2 : rrS env Proxy.app s = if s.readBuffer.length != 0 then
        { s with qio := [], readBuffer := [], dataRead := s.dataRead + s.readBuffer.length,
                 log := s.log ++ [.rr, .rd s.readBuffer] } else s := by
    unfold rrS
    split
    · rw [emit_rr_app env s hl.alive hl.ioOpen (by rw [hrs]; simp) hl.dcFlag, hq]; rfl
    · rfl
  rw [c2]
  unfold finS
  split <;> simp [ht]

theorem countP_snoc2 (p : Obs → Bool) (l : List Obs) (a b : Obs) (ha : p a = false) (hb : p b = false) :
    Obs.countP p (l ++ [a, b]) = Obs.countP p l := by
  rw [countP_append]; simp [Obs.countP, ha, hb]

/-- one `onReadyRead` delivering `seg` -/
theorem orr_nolen (env : Env) {head : Bytes} {rh : Parser.ReqHead} (hp : ParsedN env head rh)
    (fedF restF fed seg : Bytes) (hfin : breakOn CRLF2 fedF = some (head, restF))
    (hpre : (fed ++ seg) <+: fedF) {s : Sock} (h : NInv head rh fed { s with tcp := { s.tcp with inbox := [] } })
    (hin : s.tcp.inbox = seg) :
    NInv head rh (fed ++ seg) (Sock.onReadyRead env Proxy.app s) ∧
    Grow s (Sock.onReadyRead env Proxy.app s) ∧
    (Sock.onReadyRead env Proxy.app s).initPending = s.initPending := by
  obtain ⟨ha, hio, hdev, hdc, hdel, _, htot, hq, hnf, hhdr, hdat⟩ := h
  simp only at ha hio hdev hdc hdel htot hq hnf hhdr hdat
  rw [onReadyRead_eq, if_neg hnf]
  have hpl : pullS s = { s with readBuffer := s.readBuffer ++ seg, tcp := { s.tcp with inbox := [] } } := by
    unfold pullS; rw [if_pos hdev, hin]
  rw [hpl]
  have h2 : s.rs = .data ∨ s.rs = .headers := by
    cases hrs : s.rs <;> simp_all
  rcases h2 with hrs | hrs
  · obtain ⟨d1, ⟨rest, d2, d3⟩, d4, d5, d6, d7⟩ := hdat hrs
    rw [orrBody_data _ _ _ (by exact hrs)]
    generalize hx : ({ s with readBuffer := s.readBuffer ++ seg, tcp := { s.tcp with inbox := [] } } : Sock) = x
    have x1 : Live x := by rw [← hx]; exact ⟨ha, hio, hdc⟩
    have x2 : x.rs = .data := by rw [← hx]; exact hrs
    have x3 : x.total = -1 := by rw [← hx]; exact htot
    have x4 : x.qio = [] := by rw [← hx]; exact hq
    have x5 : x.readBuffer = seg := by rw [← hx]; show s.readBuffer ++ seg = seg; rw [d1]; rfl
    have x6 : x.log = s.log := by rw [← hx]
    have x7 : x.tcp.devOpen = true ∧ x.delPending = false ∧ x.tcp.inbox = [] ∧ x.initPending = s.initPending ∧
        x.method = rh.method ∧ x.rawPath = rh.rawPath ∧ x.reqHeaders = rh.headers := by
      rw [← hx]; exact ⟨hdev, hdel, rfl, rfl, d5, d6, d7⟩
    obtain ⟨xdev, xdel, xin, xip, xm, xr, xh⟩ := x7
    rw [readDataSlot_nolen env x x1 x2 x3 x4, x5]
    split
    · refine ⟨⟨x1.alive, x1.ioOpen, xdev, x1.dcFlag, xdel, xin, x3, rfl, (by show x.rs ≠ .finished; rw [x2]; simp),
        fun h => absurd (x2.symm.trans h) (by simp), fun _ =>
        ⟨rfl, ⟨rest ++ seg, by rw [d2]; simp, ?_⟩, ?_, xm, xr, xh⟩⟩, ⟨[.rr, .rd seg], by show x.log ++ _ = _; rw [x6], rfl⟩, xip⟩
      · show Obs.reads (x.log ++ [Obs.rr, Obs.rd seg]) = rest ++ seg
        rw [x6, reads_append, d3]; simp [Obs.reads]
      · show Obs.countP Obs.isHp (x.log ++ [Obs.rr, Obs.rd seg]) = 1
        rw [x6, countP_snoc2 _ _ _ _ rfl rfl]; exact d4
    · rename_i hlen
      have hseg : seg = [] := by
        cases seg with
        | nil => rfl
        | cons y ys => simp at hlen
      subst hseg
      refine ⟨⟨x1.alive, x1.ioOpen, xdev, x1.dcFlag, xdel, xin, x3, x4, (by rw [x2]; simp),
        fun h => absurd (x2.symm.trans h) (by simp), fun _ =>
        ⟨x5, ⟨rest, by rw [d2]; simp, by rw [x6]; exact d3⟩, by rw [x6]; exact d4, xm, xr, xh⟩⟩,
        Grow.of_log_eq x6, xip⟩
  · obtain ⟨g1, g2, g3, g4, g5⟩ := hhdr hrs
    cases hbk : breakOn CRLF2 (s.readBuffer ++ seg) with
    | none =>
      rw [orrBody_headers_none _ _ _ (by exact hrs) (by exact hbk)]
      refine ⟨⟨ha, hio, hdev, hdc, hdel, rfl, htot, hq, hnf, fun _ => ⟨by show s.readBuffer ++ seg = fed ++ seg; rw [g1],
        by rw [← g1]; exact hbk, g3, g4, g5⟩, fun h => absurd (hrs.symm.trans h) (by simp)⟩, Grow.of_log_eq rfl, rfl⟩
    | some pr =>
      obtain ⟨h', rest⟩ := pr
      have hbuf : s.readBuffer ++ seg = fed ++ seg := by rw [g1]
      obtain ⟨t, _, ht⟩ := C02L.breakOn_prefix CRLF2 (fed ++ seg) fedF h' rest hpre (by rw [← hbuf]; exact hbk)
      rw [hfin] at ht
      have hhead : h' = head := by
        simp only [Option.some.injEq, Prod.mk.injEq] at ht; exact ht.1.symm
      subst hhead
      have hsplit := C02L.breakOn_some_eq CRLF2 _ _ _ hbk
      obtain ⟨p, q, hu⟩ := hp.url
      rw [orrBody_headers _ _ _ (by exact hrs)]
      rw [readHeaders_ok env Proxy.app _ h' rest rh p q (by exact hbk)
        (by show Parser.parseRequestHeaders h' s.reqHeaders = some rh; rw [g3]; exact hp.parse) hu]
      rw [emit_hp_app]
      -- the state in which `headersParsed` was emitted
      generalize hse : ({ hpStateG { s with readBuffer := s.readBuffer ++ seg, tcp := { s.tcp with inbox := [] } } rh p q rest
        with log := (hpStateG { s with readBuffer := s.readBuffer ++ seg, tcp := { s.tcp with inbox := [] } } rh p q rest).log ++ [Obs.hp] } : Sock) = se
      have hG : hpStateG { s with readBuffer := s.readBuffer ++ seg, tcp := { s.tcp with inbox := [] } } rh p q rest =
          { s with method := rh.method, rawPath := rh.rawPath, reqHeaders := rh.headers, path := p,
                   query := q.foldl (fun m e => Sock.qmInsert e.1 e.2 m) s.query,
                   readBuffer := rest, rs := .data, total := -1, tcp := { s.tcp with inbox := [] } } := by
        have hnl := hp.nolen
        unfold hpStateG
        simp only []
        split
        · rename_i hc
          have hc' : HeaderMap.contains Sock.CONTENT_LENGTH_KEY rh.headers = true := hc
          rw [if_pos hc'] at hnl
          have hnl' : toLongLong (HeaderMap.value Sock.CONTENT_LENGTH_KEY rh.headers) = -1 := hnl
          simp [hnl']
        · simp [htot]
      rw [hG] at hse
      have e1 : se.log = s.log ++ [Obs.hp] := by rw [← hse]
      have e3 : Live se := by rw [← hse]; exact ⟨ha, hio, hdc⟩
      have e4 : se.rs = .data := by rw [← hse]
      have e5 : se.qio = [] := by rw [← hse]; exact hq
      have e6 : se.total = -1 := by rw [← hse]
      have e7 : se.readBuffer = rest := by rw [← hse]
      simp only [Bool.not_true, Bool.false_eq_true, if_false, e4]
      rw [readDataSlot_nolen env se e3 e4 e6 e5, e7]
      have hfed : fed ++ seg = h' ++ CRLF2 ++ rest := by rw [← hbuf]; exact hsplit
      have hhp : Obs.countP Obs.isHp se.log = 1 := by
        rw [e1, countP_append, g5]; rfl
      have hrd : Obs.reads se.log = [] := by
        rw [e1, reads_append, g4]; rfl
      have hf : se.method = rh.method ∧ se.rawPath = rh.rawPath ∧ se.reqHeaders = rh.headers := by
        rw [← hse]; exact ⟨rfl, rfl, rfl⟩
      have hfl : se.alive = true ∧ se.ioOpen = true ∧ se.tcp.devOpen = true ∧ se.dcFlag = false ∧
          se.delPending = false ∧ se.tcp.inbox = [] ∧ se.initPending = s.initPending := by
        rw [← hse]; exact ⟨ha, hio, hdev, hdc, hdel, rfl, rfl⟩
      obtain ⟨fa, fio, fdev, fdc, fdel, fin, fip⟩ := hfl
      split
      · refine ⟨⟨fa, fio, fdev, fdc, fdel, fin, e6, rfl, (by show se.rs ≠ .finished; rw [e4]; simp),
          fun h => absurd (e4.symm.trans h) (by simp), fun _ => ⟨rfl, ⟨rest, hfed, ?_⟩, ?_, hf⟩⟩, ?_, fip⟩
        · show Obs.reads (se.log ++ [Obs.rr, Obs.rd rest]) = rest
          rw [reads_append, hrd]; simp [Obs.reads]
        · show Obs.countP Obs.isHp (se.log ++ [Obs.rr, Obs.rd rest]) = 1
          rw [countP_snoc2 _ _ _ _ rfl rfl]; exact hhp
        · exact ⟨[.hp, .rr, .rd rest], by show se.log ++ [Obs.rr, Obs.rd rest] = _; rw [e1]; simp, rfl⟩
      · rename_i hlen
        have hr0 : rest = [] := by
          cases rest with
          | nil => rfl
          | cons x xs => simp at hlen
        refine ⟨⟨fa, fio, fdev, fdc, fdel, fin, e6, e5, by rw [e4]; simp,
          fun h => absurd (e4.symm.trans h) (by simp), fun _ => ⟨by rw [e7, hr0], ⟨rest, hfed, by rw [hrd, hr0]⟩, hhp, hf⟩⟩,
          ⟨[.hp], e1, rfl⟩, fip⟩

/-- the invariant only looks at these parts of the state -/
theorem NInv.transfer {head : Bytes} {rh : Parser.ReqHead} {fed : Bytes} {s s' : Sock} (h : NInv head rh fed s)
    (e1 : s'.alive = s.alive) (e2 : s'.ioOpen = s.ioOpen) (e3 : s'.tcp.devOpen = s.tcp.devOpen)
    (e4 : s'.dcFlag = s.dcFlag) (e5 : s'.delPending = s.delPending) (e6 : s'.tcp.inbox = [])
    (e7 : s'.total = s.total) (e8 : s'.qio = s.qio) (e9 : s'.rs = s.rs) (e10 : s'.readBuffer = s.readBuffer)
    (e11 : s'.reqHeaders = s.reqHeaders) (e12 : s'.method = s.method) (e13 : s'.rawPath = s.rawPath)
    (e14 : Obs.reads s'.log = Obs.reads s.log)
    (e15 : Obs.countP Obs.isHp s'.log = Obs.countP Obs.isHp s.log) : NInv head rh fed s' := by
  obtain ⟨ha, hio, hdev, hdc, hdel, _, htot, hq, hnf, hhdr, hdat⟩ := h
  refine ⟨e1.trans ha, e2.trans hio, e3.trans hdev, e4.trans hdc, e5.trans hdel, e6, e7.trans htot,
    e8.trans hq, by rw [e9]; exact hnf, fun h => ?_, fun h => ?_⟩
  · obtain ⟨a, b, c, d, f⟩ := hhdr (e9.symm.trans h)
    exact ⟨e10.trans a, b, e11.trans c, e14.trans d, e15.trans f⟩
  · obtain ⟨a, b, c, d, f, g⟩ := hdat (e9.symm.trans h)
    refine ⟨e10.trans a, ?_, e15.trans c, e12.trans d, e13.trans f, e11.trans g⟩
    obtain ⟨rest, b1, b2⟩ := b
    exact ⟨rest, b1, e14.trans b2⟩

theorem NInv.snoc {head : Bytes} {rh : Parser.ReqHead} {fed : Bytes} {s : Sock} (h : NInv head rh fed s)
    (o : Obs) (h1 : Obs.reads [o] = []) (h2 : Obs.isHp o = false) :
    NInv head rh fed { s with log := s.log ++ [o] } :=
  h.transfer rfl rfl rfl rfl rfl h.inbox rfl rfl rfl rfl rfl rfl rfl
    (by show Obs.reads (s.log ++ [o]) = _; rw [reads_append, h1, List.append_nil])
    (by show Obs.countP Obs.isHp (s.log ++ [o]) = _; rw [countP_append]; simp [Obs.countP, h2])

theorem NInv_init (head : Bytes) (rh : Parser.ReqHead) : NInv head rh [] ({} : Sock) :=
  ⟨rfl, rfl, rfl, rfl, rfl, rfl, rfl, rfl, by simp, fun _ => ⟨rfl, by decide, rfl, rfl, rfl⟩,
    fun h => nomatch h⟩

/-- one socket event of the relay shape, no declared length -/
theorem stepK_nolen (env : Env) {head : Bytes} {rh : Parser.ReqHead}
    (hp : ParsedN env head rh) (fedF restF fed : Bytes) (hfin : breakOn CRLF2 fedF = some (head, restF))
    (e : Event) (k : Nat) (he : relaySockEvent e = true) (hpre : (fed ++ evBytesOf e) <+: fedF)
    {s : Sock} (h : NInv head rh fed s) :
    NInv head rh (fed ++ evBytesOf e) (Sock.stepK env Proxy.app (s, k) e).1 ∧
    LogStep s (Sock.stepK env Proxy.app (s, k) e).1 k ∧
    (e = .turn → (Sock.stepK env Proxy.app (s, k) e).1 = turnSock env s k) := by
  have h1 := h.snoc (Obs.ev k) rfl rfl
  rw [stepK_alive env Proxy.app s k e h.alive]
  simp only []
  have hgrow : ∀ s' : Sock, Grow { s with log := s.log ++ [Obs.ev k] } s' → LogStep s s' k := by
    rintro s' ⟨l, e1, q1⟩
    exact ⟨⟨l, by rw [e1]; simp, q1⟩⟩
  unfold Sock.step
  rw [if_neg (by simp [h.alive])]
  cases e with
  | prebuf b => simp [relaySockEvent] at he
  | ack n => simp [relaySockEvent] at he
  | ackAll => simp [relaySockEvent] at he
  | peerClose => simp [relaySockEvent] at he
  | api op => simp [relaySockEvent] at he
  | new =>
    simp only [evBytesOf, List.append_nil]
    exact ⟨h1.transfer rfl rfl rfl rfl rfl h1.inbox rfl rfl rfl rfl rfl rfl rfl rfl rfl,
      hgrow _ (Grow.of_log_eq rfl), fun h => nomatch h⟩
  | feed seg =>
    simp only [evBytesOf] at hpre ⊢
    obtain ⟨r1, r2, _⟩ := orr_nolen env hp fedF restF fed seg hfin hpre
      (s := { ({ s with log := s.log ++ [Obs.ev k] } : Sock) with
              tcp := { s.tcp with inbox := s.tcp.inbox ++ seg } })
      (h1.transfer rfl rfl rfl rfl rfl rfl rfl rfl rfl rfl rfl rfl rfl rfl rfl)
      (by show s.tcp.inbox ++ seg = seg; rw [h.inbox]; rfl)
    exact ⟨r1, hgrow _ ((Grow.of_log_eq rfl).trans r2), fun h => nomatch h⟩
  | turn =>
    simp only [evBytesOf, List.append_nil] at hpre ⊢
    by_cases hip : s.initPending = true
    · have hip' : ({ s with log := s.log ++ [Obs.ev k] } : Sock).initPending = true := hip
      rw [if_pos hip']
      obtain ⟨r1, r2, _⟩ := orr_nolen env hp fedF restF fed [] hfin (by simpa using hpre)
        (s := { ({ s with log := s.log ++ [Obs.ev k] } : Sock) with initPending := false })
        (h1.transfer rfl rfl rfl rfl rfl rfl rfl rfl rfl rfl rfl rfl rfl rfl rfl)
        (by show s.tcp.inbox = []; exact h.inbox)
      rw [List.append_nil] at r1
      rw [if_neg (by simp [r1.delPending])]
      refine ⟨r1, hgrow _ ((Grow.of_log_eq rfl).trans r2), fun _ => ?_⟩
      unfold turnSock
      simp only []
      rw [if_pos hip]
    · have hip' : ¬ ({ s with log := s.log ++ [Obs.ev k] } : Sock).initPending = true := hip
      rw [if_neg hip', if_neg (by simp [h.delPending])]
      refine ⟨h1, hgrow _ (Grow.refl _), fun _ => ?_⟩
      unfold turnSock
      simp only []
      rw [if_neg hip]

/-- the socket invariant without a declared length, as an instance of the relay interface: the
    upstream server is entitled to every byte after the blank line -/
theorem sockI_nolen (env : Env) (evs : List Event) {head : Bytes} {rh : Parser.ReqHead}
    (hp : ParsedN env head rh) (fedF restF : Bytes) (hfin : breakOn CRLF2 fedF = some (head, restF)) :
    SockI env evs fedF rh restF (NInv head rh) where
  init := NInv_init head rh
  hpCount := by
    intro fed s h
    cases hrs : s.rs with
    | headers => rw [if_pos rfl]; exact (h.hdr hrs).2.2.2.2
    | data => rw [if_neg (by simp)]; exact (h.dat hrs).2.2.1
    | finished => exact absurd hrs h.notFin
  readsNil := fun h hrs => (h.hdr hrs).2.2.2.1
  flags := fun h => ⟨h.alive, h.delPending⟩
  misc := fun b h => h.snoc (Obs.misc 20 b) rfl rfl
  fields := by
    intro fed s h hne
    have : s.rs = .data := by
      cases hrs : s.rs with
      | headers => exact absurd hrs hne
      | data => rfl
      | finished => exact absurd hrs h.notFin
    exact (h.dat this).2.2.2
  step := fun e k h _ he hpre => stepK_nolen env hp fedF restF _ hfin e k he hpre h
  full := by
    intro s h hc
    have := (h.hdr hc).2.1
    rw [hfin] at this; cases this
  readsPre := by
    intro fed s h hpre
    cases hrs : s.rs with
    | headers => rw [(h.hdr hrs).2.2.2.1]; exact List.nil_prefix
    | finished => exact absurd hrs h.notFin
    | data =>
      obtain ⟨rest, e1, e2⟩ := (h.dat hrs).2.1
      rw [e2]
      obtain ⟨t, ht⟩ := hpre
      have hF := C02L.breakOn_some_eq CRLF2 _ _ _ hfin
      rw [← ht, e1] at hF
      simp only [List.append_assoc] at hF
      have := List.append_cancel_left (List.append_cancel_left hF)
      exact ⟨t, this⟩
  readsAll := by
    intro s h
    have hne : s.rs = .data := by
      cases hrs : s.rs with
      | headers =>
        have := (h.hdr hrs).2.1
        rw [hfin] at this; cases this
      | data => rfl
      | finished => exact absurd hrs h.notFin
    obtain ⟨rest, e1, e2⟩ := (h.dat hne).2.1
    rw [e2]
    have hF := C02L.breakOn_some_eq CRLF2 _ _ _ hfin
    rw [e1] at hF
    simp only [List.append_assoc] at hF
    exact List.append_cancel_left (List.append_cancel_left hF)

end Qhttp.ProxyL
