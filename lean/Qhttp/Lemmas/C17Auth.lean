import Qhttp.Model.LocalAuth
import Qhttp.Lemmas.C17Keys
/-
  C17 helper lemmas, part 2: the `LocalAuth` state machine, its history specification (`Ghost`)
  (the simulation of `C17.walk` by `LocalAuth.step` is in Props/C17.lean).
-/
namespace Qhttp.C17L
open Qhttp LocalAuth

/-- the default header name set by the constructor -/
def DEFHDR : Bytes := lit ['X','-','A','u','t','h','-','T','o','k','e','n']

/-- the advertised file as it must look while an instance is alive -/
def goodFile (keys : List Bytes) : File := { mode := 0o600, keys := keys, hasToken := true }

/-! ### projections of `step` -/

/-- the verdict observation a request produces (nothing for the other operations) -/
def verdictOut (s : St) : Op → List Obs
  | .req hdr => if s.alive then [Obs.misc 11 [if admits s hdr then 1 else 0]] else []
  | _ => []

theorem step_log (s : St) (op : Op) :
    (step s op).log = s.log ++ verdictOut s op ++ [snap (step s op)] := by
  obtain ⟨um, inst, alive, hdrName, file, blocked, log⟩ := s
  cases op <;> cases alive <;> cases blocked <;> cases file <;> simp [step, verdictOut, snap, writeFile]

theorem step_alive (s : St) (op : Op) :
    (step s op).alive = (match op with | .create => true | .destroy => false | _ => s.alive) := by
  obtain ⟨um, inst, alive, hdrName, file, blocked, log⟩ := s
  cases op <;> cases alive <;> cases blocked <;> cases file <;> simp [step, writeFile]

theorem step_hdrName (s : St) (op : Op) :
    (step s op).hdrName =
      (match op with
       | .setHeaderName n => if s.alive then n else s.hdrName
       | .create => if s.alive then s.hdrName else DEFHDR
       | _ => s.hdrName) := by
  obtain ⟨um, inst, alive, hdrName, file, blocked, log⟩ := s
  cases op <;> cases alive <;> cases blocked <;> cases file <;> simp [step, writeFile, DEFHDR]

theorem step_inst (s : St) (op : Op) :
    (step s op).inst = (match op with | .create => if s.alive then s.inst else s.inst + 1 | _ => s.inst) := by
  obtain ⟨um, inst, alive, hdrName, file, blocked, log⟩ := s
  cases op <;> cases alive <;> cases blocked <;> cases file <;> simp [step, writeFile]

/-- `block` takes effect only when nothing is at the name; `unblock` always clears; the
    destructor cannot remove a directory -/
theorem step_blocked (s : St) (op : Op) :
    (step s op).blocked =
      (match op with
       | .block => if s.blocked || s.file.isSome then s.blocked else true
       | .unblock => false
       | _ => s.blocked) := by
  obtain ⟨um, inst, alive, hdrName, file, blocked, log⟩ := s
  cases op <;> cases alive <;> cases blocked <;> cases file <;> simp [step, writeFile]

theorem sortKeys_single (k : Bytes) : sortKeys [k] = [k] := rfl

/-- the file after one operation; `updateFile()` (in `create`, `setData`) and `pre` leave it as it
    is while the name is blocked; `destroy` removes it whatever happened before -/
theorem step_file (s : St) (op : Op) :
    (step s op).file =
      (match op with
       | .pre mode => if s.alive || s.blocked then s.file
                      else some { mode := mode, keys := [lit ['j','u','n','k']], hasToken := false }
       | .create => if s.alive || s.blocked then s.file else some (goodFile [TOKEN])
       | .setData ks => if s.alive && !s.blocked then some (goodFile (sortKeys (TOKEN :: ks))) else s.file
       | .destroy => if s.alive then none else s.file
       | _ => s.file) := by
  obtain ⟨um, inst, alive, hdrName, file, blocked, log⟩ := s
  cases op <;> cases alive <;> cases blocked <;> cases file <;>
    simp [step, writeFile, goodFile, sortKeys_token_filter, sortKeys_single]

theorem snap_good (s : St) (keys : List Bytes) (hb : s.blocked = false) (h : s.file = some (goodFile keys)) :
    snap s = Obs.misc 10 (1 :: 6 :: 0 :: 0 :: 1 :: joinWith [44] keys) := by
  simp [snap, h, hb, goodFile]

theorem snap_misc (s : St) : ∃ d, snap s = Obs.misc 10 d := by
  unfold snap; split
  · exact ⟨_, rfl⟩
  · split <;> exact ⟨_, rfl⟩

theorem snap_none (s : St) (h : s.file = none) : snap s = Obs.misc 10 [] := by
  simp [snap, h]

/-- a directory at the name is reported as "no file" -/
theorem snap_blocked (s : St) (h : s.blocked = true) : snap s = Obs.misc 10 [] := by
  simp [snap, h]

/-! ### runs -/

theorem run_append (a c : List Op) : run (a ++ c) = c.foldl step (run a) := by
  simp [run, List.foldl_append]

theorem run_snoc (a : List Op) (op : Op) : run (a ++ [op]) = step (run a) op := by
  simp [run, List.foldl_append]

/-- what a run from `s` appends to the log -/
def emit : St → List Op → List Obs
  | _, [] => []
  | s, op :: ops => verdictOut s op ++ [snap (step s op)] ++ emit (step s op) ops

theorem foldl_log (s : St) (ops : List Op) : (ops.foldl step s).log = s.log ++ emit s ops := by
  induction ops generalizing s with
  | nil => simp [emit]
  | cons op ops ih => simp [List.foldl_cons, ih, step_log, emit, List.append_assoc]

theorem run_log (ops : List Op) : (run ops).log = emit {} ops := by
  have := foldl_log {} ops
  simpa [run] using this

/-! ### the state invariant -/

/-- a directory and a file cannot be at the name together; while an instance is alive, a file at
    the name is the advertised one: owner-only, holding `token` plus data keys (it is there unless
    every `updateFile()` of this instance so far failed to open it: see `Agree.file`) -/
def LInv (s : St) : Prop :=
  (s.blocked = true → s.file = none) ∧
  (s.alive = true → s.file = none ∨ ∃ ks, s.file = some (goodFile (sortKeys (TOKEN :: ks))))

theorem LInv_init : LInv {} := ⟨(by intro h; cases h), (by intro h; cases h)⟩

theorem LInv_step {s : St} (h : LInv s) (op : Op) : LInv (step s op) := by
  obtain ⟨hb, hg⟩ := h
  constructor
  · intro hb'
    rw [step_blocked] at hb'
    rw [step_file]
    cases op with
    | block =>
      cases hsb : s.blocked with
      | true => exact hb hsb
      | false =>
        cases hf : s.file with
        | none => rfl
        | some f => simp [hsb, hf] at hb'
    | unblock => cases hb'
    | create => simp only at hb'; simp [hb', hb hb']
    | setData ks => simp only at hb'; simp [hb', hb hb']
    | destroy => simp only at hb'; simp [hb hb']
    | pre m => simp only at hb'; simp [hb', hb hb']
    | umask m => exact hb hb'
    | setHeaderName n => exact hb hb'
    | req hdr => exact hb hb'
  · intro ha
    rw [step_alive] at ha
    rw [step_file]
    cases op with
    | create =>
      cases hs : s.alive with
      | true => simpa [hs] using hg hs
      | false =>
        cases hsb : s.blocked with
        | true => left; simp [hb hsb]
        | false => right; exact ⟨[], by simp [sortKeys, insertKey]⟩
    | setData ks =>
      simp only at ha
      cases hsb : s.blocked with
      | true => simpa [ha, hsb] using hg ha
      | false => right; exact ⟨ks, by simp [ha]⟩
    | destroy => cases ha
    | pre m => simp only at ha; simpa [ha] using hg ha
    | umask m => exact hg ha
    | setHeaderName n => exact hg ha
    | req hdr => exact hg ha
    | block => exact hg ha
    | unblock => exact hg ha

theorem LInv_foldl {s : St} (h : LInv s) (ops : List Op) : LInv (ops.foldl step s) := by
  induction ops generalizing s with
  | nil => exact h
  | cons op ops ih => exact ih (LInv_step h op)

/-! ### history specification -/

/-- what the API history (and the history of the obstacle) says the configuration is -/
structure Ghost where
  alive   : Bool := false
  hdr     : Bytes := DEFHDR           -- argument of the last `setHeaderName` since the last `create`
  data    : List Bytes := []          -- keys of the last `setData` since the last `create`
  removed : Bool := false             -- an instance was destroyed; no `create` and no effective `pre` since
  blocked : Bool := false             -- a directory is at the name: `LocalFile::open()` fails
  present : Bool := false             -- a file is at the name: written by `pre` or by an `updateFile()`
                                      -- that could open it, and not removed by a destructor since
deriving Repr, DecidableEq

def gstep (g : Ghost) : Op → Ghost
  | .create =>
    if g.alive then g
    else { g with alive := true, hdr := DEFHDR, data := [],
                  removed := false, present := g.present || !g.blocked }
  | .setData ks => if g.alive then { g with data := ks, present := g.present || !g.blocked } else g
  | .setHeaderName n => if g.alive then { g with hdr := n } else g
  | .destroy => if g.alive then { g with alive := false, removed := true, present := false } else g
  | .pre _ => if g.alive || g.blocked then g else { g with removed := false, present := true }
  | .block => if g.blocked || g.present then g else { g with blocked := true }
  | .unblock => { g with blocked := false }
  | _ => g

def ghost (ops : List Op) : Ghost := ops.foldl gstep {}

/-- the model state agrees with the history specification -/
structure Agree (s : St) (g : Ghost) : Prop where
  alive   : s.alive = g.alive
  blocked : s.blocked = g.blocked
  present : s.file.isSome = g.present
  excl    : g.blocked = true → g.present = false
  hdr     : g.alive = true → s.hdrName = g.hdr
  file    : g.alive = true → g.present = true → s.file = some (goodFile (sortKeys (TOKEN :: g.data)))
  removed : g.removed = true → s.file = none ∧ g.alive = false

theorem Agree_init : Agree {} {} :=
  ⟨rfl, rfl, rfl, (by intro h; cases h), (by intro h; cases h), (by intro h; cases h), (by intro h; cases h)⟩

theorem Agree_step {s : St} {g : Ghost} (h : Agree s g) (op : Op) : Agree (step s op) (gstep g op) := by
  obtain ⟨ha, hb, hp, hx, hh, hf, hr⟩ := h
  obtain ⟨ga, gh, gd, gr, gb, gp⟩ := g
  simp only at ha hb hp hx hh hf hr
  refine ⟨?_, ?_, ?_, ?_, ?_, ?_, ?_⟩
  all_goals (try simp only [step_alive, step_hdrName, step_file, step_blocked])
  all_goals cases op <;> cases ga <;> cases gb <;> cases gp <;> simp_all [gstep, sortKeys, insertKey]

theorem Agree_run (ops : List Op) : Agree (run ops) (ghost ops) := by
  suffices ∀ (ops : List Op) (s : St) (g : Ghost), Agree s g → Agree (ops.foldl step s) (ops.foldl gstep g) from
    this ops {} {} Agree_init
  intro ops
  induction ops with
  | nil => intro s g h; exact h
  | cons op ops ih => intro s g h; exact ih _ _ (Agree_step h op)

/-- last `setData` argument of a destroy-free tail -/
def lastData (d : List Bytes) : List Op → List Bytes
  | [] => d
  | .setData ks :: ops => lastData ks ops
  | _ :: ops => lastData d ops

/-- last `setHeaderName` argument of a destroy-free tail -/
def lastHdr (h : Bytes) : List Op → Bytes
  | [] => h
  | .setHeaderName n :: ops => lastHdr n ops
  | _ :: ops => lastHdr h ops

/-- once the file of a live instance is there, it stays until `destroy` (`block` cannot take
    effect: the name is occupied by the file) -/
theorem gstep_alive_tail (g : Ghost) (ha : g.alive = true) (hp : g.present = true) (hb : g.blocked = false)
    (post : List Op) (hpost : ∀ op ∈ post, op ≠ Op.destroy) :
    post.foldl gstep g =
      { alive := true, hdr := lastHdr g.hdr post, data := lastData g.data post,
        removed := g.removed,
        blocked := false, present := true } := by
  induction post generalizing g with
  | nil => obtain ⟨ga, gh, gd, gr, gb, gp⟩ := g; simp only at ha hp hb; subst ha hp hb; simp [lastHdr, lastData]
  | cons op post ih =>
    have hp' : ∀ op ∈ post, op ≠ Op.destroy := fun o ho => hpost o (List.mem_cons_of_mem _ ho)
    have hop : op ≠ Op.destroy := hpost op (by simp)
    obtain ⟨ga, gh, gd, gr, gb, gp⟩ := g
    simp only at ha hp hb; subst ha hp hb
    rw [List.foldl_cons]
    cases op with
    | destroy => exact absurd rfl hop
    | create => rw [ih _ (by simp [gstep]) (by simp [gstep]) (by simp [gstep]) hp']; simp [gstep, lastHdr, lastData]
    | setData ks => rw [ih _ (by simp [gstep]) (by simp [gstep]) (by simp [gstep]) hp']; simp [gstep, lastHdr, lastData]
    | setHeaderName n => rw [ih _ (by simp [gstep]) (by simp [gstep]) (by simp [gstep]) hp']; simp [gstep, lastHdr, lastData]
    | pre m => rw [ih _ (by simp [gstep]) (by simp [gstep]) (by simp [gstep]) hp']; simp [gstep, lastHdr, lastData]
    | umask m => rw [ih _ (by simp [gstep]) (by simp [gstep]) (by simp [gstep]) hp']; simp [gstep, lastHdr, lastData]
    | req hdr => rw [ih _ (by simp [gstep]) (by simp [gstep]) (by simp [gstep]) hp']; simp [gstep, lastHdr, lastData]
    | block => rw [ih _ (by simp [gstep]) (by simp [gstep]) (by simp [gstep]) hp']; simp [gstep, lastHdr, lastData]
    | unblock => rw [ih _ (by simp [gstep]) (by simp [gstep]) (by simp [gstep]) hp']; simp [gstep, lastHdr, lastData]

/-- after a destructor ran, nothing but `create` / `pre` brings a file or an instance back
    (`block` / `unblock` only move the obstacle) -/
theorem gstep_dead_tail (g : Ghost) (ha : g.alive = false) (hr : g.removed = true) (post : List Op)
    (hp : ∀ op ∈ post, op ≠ Op.create ∧ ∀ m, op ≠ Op.pre m) :
    (post.foldl gstep g).alive = false ∧ (post.foldl gstep g).removed = true := by
  induction post generalizing g with
  | nil => exact ⟨ha, hr⟩
  | cons op post ih =>
    have hp' : ∀ op ∈ post, op ≠ Op.create ∧ ∀ m, op ≠ Op.pre m :=
      fun o ho => hp o (List.mem_cons_of_mem _ ho)
    have hop := hp op (by simp)
    rw [List.foldl_cons]
    have : (gstep g op).alive = false ∧ (gstep g op).removed = true := by
      cases op with
      | create => exact absurd rfl hop.1
      | pre m => exact absurd rfl (hop.2 m)
      | block => simp only [gstep]; split <;> simp [ha, hr]
      | _ => simp [gstep, ha, hr]
    exact ih _ this.1 this.2 hp'

end Qhttp.C17L
