import Qhttp.Model.LocalAuth
import Qhttp.Lemmas.C17Keys
/-
  C17 helper lemmas, part 2: the `LocalAuth` state machine, its history specification (`Ghost`)
  (the simulation of `C17.walk` by `LocalAuth.step` is in Props/C17.lean).
-/
namespace Qhttp.C17L
open Qhttp LocalAuth

/-- the default header name set by the constructor -/
def DEFHDR : Bytes := lit ['X','-','A','u','t','h','-','T','o','k','e','n']

/-- the advertised file as it must look while an instance is alive -/
def goodFile (keys : List Bytes) : File := { mode := 0o600, keys := keys, hasToken := true }

/-! ### projections of `step` -/

/-- the verdict observation a request produces (nothing for the other operations) -/
def verdictOut (s : St) : Op → List Obs
  | .req hdr => if s.alive then [Obs.misc 11 [if admits s hdr then 1 else 0]] else []
  | _ => []

theorem step_log (s : St) (op : Op) :
    (step s op).log = s.log ++ verdictOut s op ++ [snap (step s op)] := by
  obtain ⟨um, inst, alive, hdrName, file, log⟩ := s
  cases op <;> cases alive <;> simp [step, verdictOut, snap, writeFile]

theorem step_alive (s : St) (op : Op) :
    (step s op).alive = (match op with | .create => true | .destroy => false | _ => s.alive) := by
  obtain ⟨um, inst, alive, hdrName, file, log⟩ := s
  cases op <;> cases alive <;> simp [step, writeFile]

theorem step_hdrName (s : St) (op : Op) :
    (step s op).hdrName =
      (match op with
       | .setHeaderName n => if s.alive then n else s.hdrName
       | .create => if s.alive then s.hdrName else DEFHDR
       | _ => s.hdrName) := by
  obtain ⟨um, inst, alive, hdrName, file, log⟩ := s
  cases op <;> cases alive <;> simp [step, writeFile, DEFHDR]

theorem step_inst (s : St) (op : Op) :
    (step s op).inst = (match op with | .create => if s.alive then s.inst else s.inst + 1 | _ => s.inst) := by
  obtain ⟨um, inst, alive, hdrName, file, log⟩ := s
  cases op <;> cases alive <;> simp [step, writeFile]

theorem sortKeys_single (k : Bytes) : sortKeys [k] = [k] := rfl

theorem step_file (s : St) (op : Op) :
    (step s op).file =
      (match op with
       | .pre mode => if s.alive then s.file
                      else some { mode := mode, keys := [lit ['j','u','n','k']], hasToken := false }
       | .create => if s.alive then s.file else some (goodFile [TOKEN])
       | .setData ks => if s.alive then some (goodFile (sortKeys (TOKEN :: ks))) else s.file
       | .destroy => if s.alive then none else s.file
       | _ => s.file) := by
  obtain ⟨um, inst, alive, hdrName, file, log⟩ := s
  cases op <;> cases alive <;>
    simp [step, writeFile, goodFile, sortKeys_token_filter, sortKeys_single]

theorem snap_good (s : St) (keys : List Bytes) (h : s.file = some (goodFile keys)) :
    snap s = Obs.misc 10 (1 :: 6 :: 0 :: 0 :: 1 :: joinWith [44] keys) := by
  simp [snap, h, goodFile]

theorem snap_misc (s : St) : ∃ d, snap s = Obs.misc 10 d := by
  unfold snap; split <;> exact ⟨_, rfl⟩

theorem snap_none (s : St) (h : s.file = none) : snap s = Obs.misc 10 [] := by
  simp [snap, h]

/-! ### runs -/

theorem run_append (a c : List Op) : run (a ++ c) = c.foldl step (run a) := by
  simp [run, List.foldl_append]

theorem run_snoc (a : List Op) (op : Op) : run (a ++ [op]) = step (run a) op := by
  simp [run, List.foldl_append]

/-- what a run from `s` appends to the log -/
def emit : St → List Op → List Obs
  | _, [] => []
  | s, op :: ops => verdictOut s op ++ [snap (step s op)] ++ emit (step s op) ops

theorem foldl_log (s : St) (ops : List Op) : (ops.foldl step s).log = s.log ++ emit s ops := by
  induction ops generalizing s with
  | nil => simp [emit]
  | cons op ops ih => simp [List.foldl_cons, ih, step_log, emit, List.append_assoc]

theorem run_log (ops : List Op) : (run ops).log = emit {} ops := by
  have := foldl_log {} ops
  simpa [run] using this

/-! ### the state invariant -/

/-- while an instance is alive the file exists, is owner-only, and holds `token` plus data keys -/
def LInv (s : St) : Prop :=
  s.alive = true → ∃ ks, s.file = some (goodFile (sortKeys (TOKEN :: ks)))

theorem LInv_init : LInv {} := by intro h; cases h

theorem LInv_step {s : St} (h : LInv s) (op : Op) : LInv (step s op) := by
  intro ha
  rw [step_alive] at ha
  rw [step_file]
  cases op with
  | create =>
    cases hs : s.alive with
    | true => simpa [hs] using h hs
    | false => exact ⟨[], by simp [sortKeys, insertKey]⟩
  | setData ks => simp only at ha; simp only [ha, if_true]; exact ⟨ks, rfl⟩
  | destroy => cases ha
  | pre m => simp only at ha; simpa [ha] using h ha
  | umask m => exact h ha
  | setHeaderName n => exact h ha
  | req hdr => exact h ha

theorem LInv_foldl {s : St} (h : LInv s) (ops : List Op) : LInv (ops.foldl step s) := by
  induction ops generalizing s with
  | nil => exact h
  | cons op ops ih => exact ih (LInv_step h op)

/-! ### history specification -/

/-- what the API history says the middleware's configuration is -/
structure Ghost where
  alive   : Bool := false
  hdr     : Bytes := DEFHDR           -- argument of the last `setHeaderName` since the last `create`
  data    : List Bytes := []          -- keys of the last `setData` since the last `create`
  removed : Bool := false             -- an instance was destroyed and nothing recreated the file since
deriving Repr, DecidableEq

def gstep (g : Ghost) : Op → Ghost
  | .create => if g.alive then g else { alive := true, hdr := DEFHDR, data := [], removed := false }
  | .setData ks => if g.alive then { g with data := ks } else g
  | .setHeaderName n => if g.alive then { g with hdr := n } else g
  | .destroy => if g.alive then { g with alive := false, removed := true } else g
  | .pre _ => if g.alive then g else { g with removed := false }
  | _ => g

def ghost (ops : List Op) : Ghost := ops.foldl gstep {}

/-- the model state agrees with the history specification -/
structure Agree (s : St) (g : Ghost) : Prop where
  alive   : s.alive = g.alive
  hdr     : g.alive = true → s.hdrName = g.hdr
  file    : g.alive = true → s.file = some (goodFile (sortKeys (TOKEN :: g.data)))
  removed : g.removed = true → s.file = none ∧ g.alive = false

theorem Agree_init : Agree {} {} :=
  ⟨rfl, (by intro h; cases h), (by intro h; cases h), (by intro h; cases h)⟩

theorem Agree_step {s : St} {g : Ghost} (h : Agree s g) (op : Op) : Agree (step s op) (gstep g op) := by
  obtain ⟨ha, hh, hf, hr⟩ := h
  obtain ⟨ga, gh, gd, gr⟩ := g
  simp only at ha hh hf hr
  refine ⟨?_, ?_, ?_, ?_⟩
  all_goals simp only [step_alive, step_hdrName, step_file]
  all_goals cases op <;> cases ga <;> simp_all [gstep, sortKeys, insertKey]

theorem Agree_run (ops : List Op) : Agree (run ops) (ghost ops) := by
  suffices ∀ (ops : List Op) (s : St) (g : Ghost), Agree s g → Agree (ops.foldl step s) (ops.foldl gstep g) from
    this ops {} {} Agree_init
  intro ops
  induction ops with
  | nil => intro s g h; exact h
  | cons op ops ih => intro s g h; exact ih _ _ (Agree_step h op)

/-- last `setData` argument of a destroy-free tail -/
def lastData (d : List Bytes) : List Op → List Bytes
  | [] => d
  | .setData ks :: ops => lastData ks ops
  | _ :: ops => lastData d ops

/-- last `setHeaderName` argument of a destroy-free tail -/
def lastHdr (h : Bytes) : List Op → Bytes
  | [] => h
  | .setHeaderName n :: ops => lastHdr n ops
  | _ :: ops => lastHdr h ops

theorem gstep_alive_tail (g : Ghost) (ha : g.alive = true) (post : List Op)
    (hp : ∀ op ∈ post, op ≠ Op.destroy) :
    post.foldl gstep g =
      { alive := true, hdr := lastHdr g.hdr post, data := lastData g.data post, removed := g.removed } := by
  induction post generalizing g with
  | nil => obtain ⟨ga, gh, gd, gr⟩ := g; simp only at ha; subst ha; rfl
  | cons op post ih =>
    have hp' : ∀ op ∈ post, op ≠ Op.destroy := fun o ho => hp o (List.mem_cons_of_mem _ ho)
    have hop : op ≠ Op.destroy := hp op (by simp)
    obtain ⟨ga, gh, gd, gr⟩ := g
    simp only at ha; subst ha
    rw [List.foldl_cons]
    cases op with
    | destroy => exact absurd rfl hop
    | create => rw [ih _ (by simp [gstep]) hp']; simp [gstep, lastHdr, lastData]
    | setData ks => rw [ih _ (by simp [gstep]) hp']; simp [gstep, lastHdr, lastData]
    | setHeaderName n => rw [ih _ (by simp [gstep]) hp']; simp [gstep, lastHdr, lastData]
    | pre m => rw [ih _ (by simp [gstep]) hp']; simp [gstep, lastHdr, lastData]
    | umask m => rw [ih _ (by simp [gstep]) hp']; simp [gstep, lastHdr, lastData]
    | req hdr => rw [ih _ (by simp [gstep]) hp']; simp [gstep, lastHdr, lastData]

theorem gstep_dead_tail (g : Ghost) (ha : g.alive = false) (post : List Op)
    (hp : ∀ op ∈ post, op ≠ Op.create ∧ ∀ m, op ≠ Op.pre m) :
    post.foldl gstep g = g := by
  induction post with
  | nil => rfl
  | cons op post ih =>
    have hp' : ∀ op ∈ post, op ≠ Op.create ∧ ∀ m, op ≠ Op.pre m :=
      fun o ho => hp o (List.mem_cons_of_mem _ ho)
    have hop := hp op (by simp)
    rw [List.foldl_cons]
    have : gstep g op = g := by
      cases op with
      | create => exact absurd rfl hop.1
      | pre m => exact absurd rfl (hop.2 m)
      | _ => simp [gstep, ha]
    rw [this]; exact ih hp'

end Qhttp.C17L
