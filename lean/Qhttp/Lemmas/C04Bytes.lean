import Qhttp.Model.Bytes
/-
  Byte-string lemmas used by the proof of C04: `breakOn` (first occurrence is stable under
  appending; skipping bytes that cannot start the delimiter), `natDigits`/`digitsVal`.
-/
namespace Qhttp.C04L
open Qhttp

/-! ### breakOn -/

theorem breakOn_nil_left (xs : Bytes) : breakOn [] xs = some ([], xs) := by
  cases xs <;> simp [breakOn]

/-- a successful `breakOn` decomposes the input -/
theorem breakOn_some_eq {d : Bytes} : ∀ {xs a r : Bytes},
    breakOn d xs = some (a, r) → xs = a ++ d ++ r := by
  intro xs
  induction xs with
  | nil =>
    intro a r h
    unfold breakOn at h
    split at h
    · rename_i hp
      have : d = [] := by
        cases d with
        | nil => rfl
        | cons _ _ => simp at hp
      subst this
      simp at h
      obtain ⟨rfl, rfl⟩ := h
      simp
    · simp at h
  | cons x xs ih =>
    intro a r h
    unfold breakOn at h
    split at h
    · rename_i hp
      simp at h
      obtain ⟨h1, h2⟩ := h
      subst h1 h2
      have hp' := List.isPrefixOf_iff_prefix.mp hp
      obtain ⟨t, ht⟩ := hp'
      rw [← ht]
      simp
    · simp only at h
      split at h
      · rename_i a' r' hb
        simp at h
        obtain ⟨h1, h2⟩ := h
        subst h1 h2
        have := ih hb
        simp [this]
      · simp at h

/-- the first occurrence does not move when bytes are appended -/
theorem breakOn_append {d : Bytes} : ∀ {xs a r : Bytes} (ys : Bytes),
    breakOn d xs = some (a, r) → breakOn d (xs ++ ys) = some (a, r ++ ys) := by
  intro xs
  induction xs with
  | nil =>
    intro a r ys h
    have hd := breakOn_some_eq h
    have : d = [] := by
      cases d with
      | nil => rfl
      | cons _ _ => cases a <;> simp at hd
    subst this
    rw [breakOn_nil_left] at h
    simp at h
    obtain ⟨h1, h2⟩ := h
    subst h1 h2
    simp [breakOn_nil_left]
  | cons x xs ih =>
    intro a r ys h
    have hdec := breakOn_some_eq h
    unfold breakOn at h
    split at h
    · rename_i hp
      simp at h
      obtain ⟨h1, h2⟩ := h
      subst h1 h2
      have hp' := List.isPrefixOf_iff_prefix.mp hp
      have hp2 : d.isPrefixOf (x :: xs ++ ys) = true := by
        apply List.isPrefixOf_iff_prefix.mpr
        exact List.IsPrefix.trans hp' (List.prefix_append _ _)
      unfold breakOn
      rw [if_pos hp2]
      have hl : d.length ≤ (x :: xs).length := List.IsPrefix.length_le hp'
      rw [List.drop_append_of_le_length hl]
    · rename_i hnp
      simp only at h
      split at h
      · rename_i a' r' hb
        simp at h
        obtain ⟨h1, h2⟩ := h
        subst h1 h2
        have hlen : d.length ≤ xs.length := by
          have := breakOn_some_eq hb
          rw [this]; simp; omega
        have hnp2 : ¬ d.isPrefixOf (x :: xs ++ ys) = true := by
          intro hp2
          have hp2' := List.isPrefixOf_iff_prefix.mp hp2
          have : d <+: (x :: xs) := by
            apply List.prefix_of_prefix_length_le hp2' (List.prefix_append _ _)
            simp; omega
          exact hnp (List.isPrefixOf_iff_prefix.mpr this)
        unfold breakOn
        rw [if_neg hnp2]
        simp only [List.cons_append]
        rw [ih ys hb]
      · simp at h

/-- a byte different from the first delimiter byte is skipped -/
theorem breakOn_cons_ne (d0 : UInt8) (dt : Bytes) (x : UInt8) (xs : Bytes) (h : x ≠ d0) :
    breakOn (d0 :: dt) (x :: xs) =
      (breakOn (d0 :: dt) xs).map (fun p => (x :: p.1, p.2)) := by
  conv => lhs; unfold breakOn
  have : (d0 :: dt).isPrefixOf (x :: xs) = false := by
    simp [List.isPrefixOf]
    intro h'; exact absurd h'.symm h
  rw [this]
  simp only [Bool.false_eq_true, if_false]
  cases breakOn (d0 :: dt) xs with
  | none => rfl
  | some p => rfl

/-- a run of bytes none of which starts the delimiter is skipped -/
theorem breakOn_skip (d0 : UInt8) (dt : Bytes) : ∀ (a xs : Bytes), a.all (· != d0) = true →
    breakOn (d0 :: dt) (a ++ xs) =
      (breakOn (d0 :: dt) xs).map (fun p => (a ++ p.1, p.2)) := by
  intro a
  induction a with
  | nil =>
    intro xs _
    simp only [List.nil_append]
    cases breakOn (d0 :: dt) xs <;> simp
  | cons x a ih =>
    intro xs h
    simp at h
    simp only [List.cons_append]
    rw [breakOn_cons_ne _ _ _ _ h.1, ih xs (by simpa using h.2)]
    cases breakOn (d0 :: dt) xs <;> simp

theorem breakOn_self (d xs : Bytes) : breakOn d (d ++ xs) = some ([], xs) := by
  unfold breakOn
  have : d.isPrefixOf (d ++ xs) = true :=
    List.isPrefixOf_iff_prefix.mpr (List.prefix_append _ _)
  rw [if_pos this]
  simp

/-- the delimiter right after a run of bytes that cannot start it -/
theorem breakOn_first (d0 : UInt8) (dt a r : Bytes) (h : a.all (· != d0) = true) :
    breakOn (d0 :: dt) (a ++ (d0 :: dt) ++ r) = some (a, r) := by
  rw [List.append_assoc, breakOn_skip d0 dt a _ h, breakOn_self]
  simp

/-- no occurrence when the first delimiter byte does not occur -/
theorem breakOn_none (d0 : UInt8) (dt a : Bytes) (h : a.all (· != d0) = true) :
    breakOn (d0 :: dt) a = none := by
  have := breakOn_skip d0 dt a [] h
  simp at this
  rw [this]
  simp [breakOn, List.isPrefixOf]

/-! ### splitF -/

theorem splitF_none_of_breakOn_none (d : Bytes) (fuel : Nat) (xs : Bytes)
    (h : breakOn d xs = none) : splitF d fuel none xs = [xs] := by
  cases fuel with
  | zero => rfl
  | succ f => simp [splitF, h]

theorem splitF_step (d : Bytes) (fuel : Nat) (xs a r : Bytes)
    (h : breakOn d xs = some (a, r)) :
    splitF d (fuel + 1) none xs = a :: splitF d fuel none r := by
  simp [splitF, h]

/-! ### decimal digits -/

theorem digit_isDigit : ∀ k, k < 10 → isDigit (UInt8.ofNat (48 + k)) = true := by decide

theorem digit_toNat : ∀ k, k < 10 → (UInt8.ofNat (48 + k)).toNat - 48 = k := by decide

theorem isDigit_ne (c : UInt8) (x : UInt8) (hx : isDigit x = false) (hc : isDigit c = true) :
    (c != x) = true := by
  simp
  intro h; subst h; simp [hx] at hc

theorem natDigitsAux_acc : ∀ (fuel n : Nat) (acc : Bytes),
    natDigitsAux fuel n acc = natDigitsAux fuel n [] ++ acc := by
  intro fuel
  induction fuel with
  | zero => intro n acc; simp [natDigitsAux]
  | succ f ih =>
    intro n acc
    simp only [natDigitsAux]
    split
    · simp
    · rw [ih (n / 10) (_ :: acc), ih (n / 10) [_]]
      simp

theorem natDigitsAux_all : ∀ (fuel n : Nat) (acc : Bytes), acc.all isDigit = true →
    (natDigitsAux fuel n acc).all isDigit = true := by
  intro fuel
  induction fuel with
  | zero => intro n acc h; simpa [natDigitsAux] using h
  | succ f ih =>
    intro n acc h
    have hd : isDigit (UInt8.ofNat (48 + n % 10)) = true :=
      digit_isDigit _ (Nat.mod_lt _ (by decide))
    simp only [natDigitsAux]
    split
    · simp only [List.all_cons, hd, h, Bool.and_self]
    · apply ih
      simp only [List.all_cons, hd, h, Bool.and_self]

theorem natDigitsAux_ne_nil : ∀ (fuel n : Nat) (acc : Bytes), acc ≠ [] →
    natDigitsAux fuel n acc ≠ [] := by
  intro fuel
  induction fuel with
  | zero => intro n acc h; simpa [natDigitsAux] using h
  | succ f ih =>
    intro n acc _
    simp only [natDigitsAux]
    split
    · simp
    · apply ih; simp

theorem natDigits_all (n : Nat) : (natDigits n).all isDigit = true :=
  natDigitsAux_all _ _ _ (by simp)

theorem natDigits_ne_nil (n : Nat) : natDigits n ≠ [] := by
  unfold natDigits
  simp only [natDigitsAux]
  split
  · simp
  · apply natDigitsAux_ne_nil; simp

theorem digitsVal_append : ∀ (xs ys : Bytes) (a : Nat),
    digitsVal (xs ++ ys) a = digitsVal ys (digitsVal xs a) := by
  intro xs
  induction xs with
  | nil => intro ys a; rfl
  | cons x xs ih => intro ys a; simp [digitsVal, ih]

theorem digitsVal_natDigitsAux : ∀ (fuel n : Nat), n < fuel →
    digitsVal (natDigitsAux fuel n []) 0 = n := by
  intro fuel
  induction fuel with
  | zero => intro n h; omega
  | succ f ih =>
    intro n h
    have hd : (UInt8.ofNat (48 + n % 10)).toNat - 48 = n % 10 :=
      digit_toNat _ (Nat.mod_lt _ (by decide))
    simp only [natDigitsAux]
    split
    · rename_i h0
      simp only [digitsVal, hd]
      have : n < 10 := by
        rcases Nat.lt_or_ge n 10 with h | h
        · exact h
        · have := Nat.div_pos h (by decide : 0 < 10); omega
      omega
    · rename_i h0
      rw [natDigitsAux_acc, digitsVal_append, ih (n / 10) (by omega)]
      simp only [digitsVal, hd]
      omega

theorem digitsVal_natDigits (n : Nat) : digitsVal (natDigits n) 0 = n :=
  digitsVal_natDigitsAux _ _ (Nat.lt_succ_self n)

end Qhttp.C04L
