import Qhttp.Lemmas.C13Sock
import Qhttp.Lemmas.C13Spec
/-
  C13, items 6a, 6b, 7: `onUpstreamReadyRead` / `deliverAll` / `onUpstreamError` of the proxy model
  over the socket's writer, for every chunking of the upstream stream.
-/
namespace Qhttp.C13L
open Qhttp Qhttp.Sock Qhttp.Proxy

/-- the response head the proxy writes for an upstream head `(code, reason, hs)` -/
def headOut (code : Int) (reason : Bytes) (hs : HeaderMap) : Bytes :=
  lit ['H','T','T','P','/','1','.','0',' '] ++ intText code ++ [SP] ++ reason ++ CRLF ++
    Sock.headerLines hs ++ CRLF

/-- the 502 response on a socket whose header map was `H` -/
abbrev err502 (env : Env) (H : HeaderMap) : Bytes := errBytes env H 502

/-! ### relaying the head -/

/-- the four calls `setStatusCode; setHeaders; writeHeaders; write rest` on an open socket -/
theorem relay_head (env : Env) {s : Sock} (h : WOpen s) (code : Int) (reason : Bytes) (hs : HeaderMap)
    (rest : Bytes) :
    let s1 := api env app s (.status code (some reason))
    let s2 := if s1.alive then { s1 with respHeaders := hs } else s1
    let s4 := api env app (api env app s2 .wh) (.write rest)
    WOpen s4 ∧ Obs.wire s4.log = Obs.wire s.log ++ (headOut code reason hs ++ rest) ∧
    s4.ws ≠ .none ∧ s4.respHeaders = hs ∧ s4.initPending = s.initPending := by
  intro s1 s2 s4
  have e1 : s1 = { s with code := code, reason := reason } := api_status env app h.alive h.dcF code reason
  have e2 : s2 = { s with code := code, reason := reason, respHeaders := hs } := by
    show (if s1.alive then { s1 with respHeaders := hs } else s1) = _
    rw [e1]; simp [h.alive]
  have h2 : WOpen s2 := by rw [e2]; exact wopen_setHead h code reason hs
  obtain ⟨e3, h3, w3, ws3, i3, r3⟩ := api_wh env app h2
  have hw3 : (writeHeaders s2).ws ≠ .none := by rw [ws3]; simp
  have h4 := wstep_api_write env app h3 hw3 rest
  have e4 : s4 = api env app (writeHeaders s2) (.write rest) := by
    show api env app (api env app s2 .wh) (.write rest) = _
    rw [e3]
  rw [e4]
  refine ⟨h4.op, ?_, h4.ws hw3, ?_, ?_⟩
  · rw [h4.wire, w3, e2]
    show Obs.wire s.log ++ headOut code reason hs ++ rest = _
    simp [List.append_assoc]
  · rw [h4.respH, r3, e2]
  · rw [h4.initP, i3, e2]

/-! ### pass-through after the head -/

theorem passthrough_one (env : Env) {st : St} (h : WOpen st.sock) (hp : st.headersParsed = true)
    (hw : st.sock.ws ≠ .none) (c : Bytes) :
    ∃ s', onUpstreamReadyRead env st c = { st with sock := s' } ∧ WStep st.sock s' c := by
  refine ⟨api env app st.sock (.write c), ?_, wstep_api_write env app h hw c⟩
  simp [onUpstreamReadyRead, hp]

/-- once the head is relayed every chunk goes through as it is -/
theorem passthrough (env : Env) (cs : List Bytes) : ∀ {st : St}, WOpen st.sock → st.headersParsed = true →
    st.sock.ws ≠ .none →
    ∃ s', deliverAll env cs st = { st with sock := s' } ∧ WStep st.sock s' cs.flatten := by
  induction cs with
  | nil => intro st h _ _; exact ⟨st.sock, rfl, WStep.refl h⟩
  | cons c cs ih =>
    intro st h hp hw
    obtain ⟨s1, e1, w1⟩ := passthrough_one env h hp hw c
    have := ih (st := { st with sock := s1 }) w1.op hp (w1.ws hw)
    obtain ⟨s2, e2, w2⟩ := this
    refine ⟨s2, ?_, ?_⟩
    · show deliverAll env cs (onUpstreamReadyRead env st c) = _
      rw [e1, e2]
    · simpa using w1.trans w2

/-! ### a closed socket: nothing the proxy does changes the wire -/

/-- closed, and the wire is `w` -/
structure Frozen (w : Bytes) (s : Sock) : Prop where
  shut : WShut s
  wire : Obs.wire s.log = w

theorem Frozen.api (env : Env) (a : App) {w : Bytes} {s : Sock} (h : Frozen w s) {op : ApiOp}
    (hop : C03L.respOp op = true) : Frozen w (api env a s op) := by
  obtain ⟨h1, e1⟩ := wshut_api env a h.shut hop
  exact ⟨h1, by rw [e1]; exact h.wire⟩

theorem Frozen.of_eq {w : Bytes} {s s' : Sock} (h : Frozen w s)
    (hf : (s'.ioOpen, s'.tcp.devOpen, s'.rs, s'.dcFlag) = (s.ioOpen, s.tcp.devOpen, s.rs, s.dcFlag))
    (l : List Obs) (hl : ∀ o ∈ l, C03L.quietObs o = true) (hlog : s'.log = s.log ++ l) : Frozen w s' :=
  ⟨h.shut.of_eq hf (by rw [hlog]; exact h.shut.logShut.append hl),
   by rw [hlog, wire_append, wire_quiet hl, h.wire]; simp⟩

theorem Frozen.same {w : Bytes} {s s' : Sock} (h : Frozen w s)
    (hf : (s'.ioOpen, s'.tcp.devOpen, s'.rs, s'.dcFlag) = (s.ioOpen, s.tcp.devOpen, s.rs, s.dcFlag))
    (hlog : s'.log = s.log) : Frozen w s' :=
  h.of_eq hf [] (by simp) (by simp [hlog])

theorem frozen_onUpstreamReadyRead (env : Env) {w : Bytes} {st : St} (h : Frozen w st.sock) (c : Bytes) :
    Frozen w (onUpstreamReadyRead env st c).sock := by
  unfold onUpstreamReadyRead
  split
  · exact h.api env app rfl
  · dsimp only
    split
    · exact h
    · split
      · exact h.api env app rfl
      · dsimp only
        rename_i code reason hs _
        have h1 : Frozen w (Sock.api env app st.sock (.status code (some reason))) := h.api env app rfl
        refine Frozen.api env app (Frozen.api env app ?_ rfl) rfl
        split
        · exact h1.same rfl rfl
        · exact h1

theorem frozen_deliverAll (env : Env) {w : Bytes} (cs : List Bytes) : ∀ {st : St}, Frozen w st.sock →
    Frozen w (deliverAll env cs st).sock := by
  induction cs with
  | nil => intro st h; exact h
  | cons c cs ih => intro st h; exact ih (frozen_onUpstreamReadyRead env h c)

theorem frozen_onUpstreamError (env : Env) {w : Bytes} {st : St} (h : Frozen w st.sock) :
    Frozen w (onUpstreamError env st).sock := by
  unfold onUpstreamError
  split
  · exact h.api env app rfl
  · exact h.api env app rfl

/-! ### the accumulator and the head: every chunking -/

/-- what the chunks delivered so far amount to, given everything accumulated (`acc ++ chunks`) -/
inductive Outcome (env : Env) (st : St) (all : Bytes) (st' : St) : Prop
  /-- no blank line yet: nothing written, everything kept -/
  | waiting (h : breakOn CRLF2 all = none) (e : st' = { st with upRead := all })
  /-- a complete head the parser accepts: relayed, then the rest as it came -/
  | relayed (head body : Bytes) (code : Int) (reason : Bytes) (hs : HeaderMap)
      (hb : breakOn CRLF2 all = some (head, body))
      (hp : Parser.parseResponseHeaders head = some (code, reason, hs))
      (op : WOpen st'.sock)
      (wire : Obs.wire st'.sock.log = Obs.wire st.sock.log ++ (headOut code reason hs ++ body))
      (parsed : st'.headersParsed = true) (ws : st'.sock.ws ≠ .none) (respH : st'.sock.respHeaders = hs)
      (initP : st'.sock.initPending = st.sock.initPending)
      (rest : (st'.conn, st'.fromUp, st'.upClosing) = (st.conn, st.fromUp, st.upClosing))
  /-- a complete head the parser rejects: exactly one 502, transport closed -/
  | failed (head body : Bytes)
      (hb : breakOn CRLF2 all = some (head, body))
      (hp : Parser.parseResponseHeaders head = none)
      (fr : Frozen (Obs.wire st.sock.log ++ err502 env st.sock.respHeaders) st'.sock)
      (parsed : st'.headersParsed = false)
      (rest : (st'.conn, st'.fromUp, st'.upClosing) = (st.conn, st.fromUp, st.upClosing))

theorem deliverAll_fields (env : Env) (cs : List Bytes) : ∀ (st : St),
    ((deliverAll env cs st).conn, (deliverAll env cs st).fromUp, (deliverAll env cs st).upClosing) =
      (st.conn, st.fromUp, st.upClosing) := by
  induction cs with
  | nil => intro st; rfl
  | cons c cs ih =>
    intro st
    show ((deliverAll env cs (onUpstreamReadyRead env st c)).conn,
      (deliverAll env cs (onUpstreamReadyRead env st c)).fromUp,
      (deliverAll env cs (onUpstreamReadyRead env st c)).upClosing) = _
    rw [ih]
    unfold onUpstreamReadyRead
    split
    · rfl
    · dsimp only; split
      · rfl
      · split <;> rfl

/-- after a rejected head the proxy keeps rejecting: `headersParsed` stays false -/
theorem failed_stays (env : Env) {head : Bytes} (hbad : Parser.parseResponseHeaders head = none)
    (cs : List Bytes) : ∀ (st : St) (b : Bytes), st.headersParsed = false →
    breakOn CRLF2 st.upRead = some (head, b) → (deliverAll env cs st).headersParsed = false := by
  induction cs with
  | nil => intro st _ h _; exact h
  | cons c cs ih =>
    intro st b hp hu
    show (deliverAll env cs (onUpstreamReadyRead env st c)).headersParsed = false
    have hb := breakOn_append c hu
    have e : onUpstreamReadyRead env st c =
        { st with upRead := st.upRead ++ c, sock := Sock.api env app st.sock (.err 502 none) } := by
      unfold onUpstreamReadyRead
      rw [if_neg (by simp [hp])]
      dsimp only
      rw [hb]
      dsimp only
      rw [hbad]
    rw [e]
    exact ih _ (b ++ c) hp hb

theorem deliverAll_append (env : Env) (cs cs' : List Bytes) (st : St) :
    deliverAll env (cs ++ cs') st = deliverAll env cs' (deliverAll env cs st) := by
  induction cs generalizing st with
  | nil => rfl
  | cons c cs ih => exact ih _

/-- **6a + 6b + 7b**: from a state that has not relayed a head and holds no complete head, for
    EVERY list of chunks: the result is determined by the bytes accumulated, not by the chunking -/
theorem deliver_outcome (env : Env) (cs : List Bytes) : ∀ (st : St), WOpen st.sock →
    st.headersParsed = false → breakOn CRLF2 st.upRead = none →
    Outcome env st (st.upRead ++ cs.flatten) (deliverAll env cs st) := by
  induction cs with
  | nil =>
    intro st _ _ hu
    exact Outcome.waiting (by simpa using hu) (by simp [deliverAll])
  | cons c cs ih =>
    intro st ho hp hu
    have hall : st.upRead ++ (c :: cs).flatten = (st.upRead ++ c) ++ cs.flatten := by simp
    rw [hall]
    show Outcome env st _ (deliverAll env cs (onUpstreamReadyRead env st c))
    cases hb : breakOn CRLF2 (st.upRead ++ c) with
    | none =>
      have e : onUpstreamReadyRead env st c = { st with upRead := st.upRead ++ c } := by
        unfold onUpstreamReadyRead
        rw [if_neg (by simp [hp])]
        dsimp only
        rw [hb]
      rw [e]
      have := ih { st with upRead := st.upRead ++ c } ho hp hb
      cases this with
      | waiting h e' => exact Outcome.waiting h (by rw [e'])
      | relayed head body code reason hs hb' hp' op wire parsed ws respH initP rest =>
        exact Outcome.relayed head body code reason hs hb' hp' op wire parsed ws respH initP rest
      | failed head body hb' hp' fr parsed rest =>
        exact Outcome.failed head body hb' hp' fr parsed rest
    | some p =>
      obtain ⟨head, rest⟩ := p
      have hb2 := breakOn_append cs.flatten hb
      cases hq : Parser.parseResponseHeaders head with
      | none =>
        have e : onUpstreamReadyRead env st c =
            { st with upRead := st.upRead ++ c, sock := Sock.api env app st.sock (.err 502 none) } := by
          unfold onUpstreamReadyRead
          rw [if_neg (by simp [hp])]
          dsimp only
          rw [hb]
          dsimp only
          rw [hq]
        obtain ⟨h1, w1, _⟩ := wshut_api_err env ho 502
        have f1 : Frozen (Obs.wire st.sock.log ++ err502 env st.sock.respHeaders)
            ({ st with upRead := st.upRead ++ c, sock := Sock.api env app st.sock (.err 502 none) } : St).sock :=
          ⟨h1, w1⟩
        rw [e]
        refine Outcome.failed head (rest ++ cs.flatten) hb2 hq (frozen_deliverAll env cs f1) ?_ ?_
        · exact failed_stays env hq cs _ rest hp hb
        · rw [deliverAll_fields]
      | some x =>
        obtain ⟨code, reason, hs⟩ := x
        obtain ⟨h4, w4, ws4, r4, i4⟩ := relay_head env ho code reason hs rest
        have e : onUpstreamReadyRead env st c =
            { st with sock := Sock.api env app (Sock.api env app
                        (if (Sock.api env app st.sock (.status code (some reason))).alive
                         then { Sock.api env app st.sock (.status code (some reason)) with respHeaders := hs }
                         else Sock.api env app st.sock (.status code (some reason))) .wh) (.write rest),
                      headersParsed := true, upRead := [] } := by
          unfold onUpstreamReadyRead
          rw [if_neg (by simp [hp])]
          dsimp only
          rw [hb]
          dsimp only
          rw [hq]
        rw [e]
        obtain ⟨s', e', w'⟩ := passthrough env cs (st := { st with
            sock := Sock.api env app (Sock.api env app
                        (if (Sock.api env app st.sock (.status code (some reason))).alive
                         then { Sock.api env app st.sock (.status code (some reason)) with respHeaders := hs }
                         else Sock.api env app st.sock (.status code (some reason))) .wh) (.write rest),
            headersParsed := true, upRead := [] }) h4 rfl ws4
        rw [e']
        refine Outcome.relayed head (rest ++ cs.flatten) code reason hs hb2 hq w'.op ?_ rfl (w'.ws ws4) ?_ ?_ rfl
        · show Obs.wire s'.log = _
          rw [w'.wire]
          show Obs.wire (Sock.api env app _ _).log ++ _ = _
          rw [w4]; simp [List.append_assoc]
        · show s'.respHeaders = hs
          rw [w'.respH]; exact r4
        · show s'.initPending = _
          rw [w'.initP]; exact i4

/-- **6a**: while no blank line has arrived nothing is written and everything is kept, whatever the
    state of the socket -/
theorem accumulate (env : Env) (cs : List Bytes) : ∀ (st : St), st.headersParsed = false →
    breakOn CRLF2 (st.upRead ++ cs.flatten) = none →
    deliverAll env cs st = { st with upRead := st.upRead ++ cs.flatten } := by
  induction cs with
  | nil => intro st _ _; simp [deliverAll]
  | cons c cs ih =>
    intro st hp hn
    have hall : st.upRead ++ (c :: cs).flatten = (st.upRead ++ c) ++ cs.flatten := by simp
    rw [hall] at hn ⊢
    have hb := breakOn_none_of_append hn
    have e : onUpstreamReadyRead env st c = { st with upRead := st.upRead ++ c } := by
      unfold onUpstreamReadyRead
      rw [if_neg (by simp [hp])]
      dsimp only
      rw [hb]
    show deliverAll env cs (onUpstreamReadyRead env st c) = _
    rw [e]
    exact ih { st with upRead := st.upRead ++ c } hp hn

/-- the first blank line does not move when more chunks arrive -/
theorem first_blank_line_stable {acc head rest : Bytes} (pre post : List Bytes)
    (h : breakOn CRLF2 (acc ++ pre.flatten) = some (head, rest)) :
    breakOn CRLF2 (acc ++ (pre ++ post).flatten) = some (head, rest ++ post.flatten) := by
  have := breakOn_append post.flatten h
  simpa [List.append_assoc] using this

end Qhttp.C13L
