import Qhttp.Lemmas.FsPaths
/-
  C07 helper lemmas, part 4: when the kernel walk succeeds (prefix-closed trees), plain paths,
  the converse of the `../` test, idempotence of `cleanPath`.
-/
namespace Qhttp
namespace Fs

/-- every listed location has all its proper ancestors listed as directories (what a real
    directory tree satisfies) -/
def treeClosed (t : Tree) : Bool :=
  t.all fun e => (List.range e.1.length).all fun n => kindAt t (e.1.take n) == some .dir

theorem kindAt_prefix_dir {t : Tree} (ht : treeClosed t = true) {loc : List Bytes} {k : Kind}
    (h : kindAt t loc = some k) {n : Nat} (hn : n < loc.length) :
    kindAt t (loc.take n) = some .dir := by
  unfold kindAt at h
  have hne : loc.isEmpty = false := by
    cases loc with
    | nil => simp at hn
    | cons x l => rfl
  rw [hne] at h
  simp only [Bool.false_eq_true, if_false, Option.map_eq_some_iff] at h
  obtain ⟨e, he, _⟩ := h
  have hmem := List.mem_of_find?_eq_some he
  have heq : e.1 = loc := by simpa using List.find?_some he
  unfold treeClosed at ht
  rw [List.all_eq_true] at ht
  have := ht e hmem
  rw [List.all_eq_true] at this
  have := this n (by rw [List.mem_range, heq]; exact hn)
  rw [heq] at this
  simpa using this

/-- skipping through existing directories -/
theorem walk_dirs (t : Tree) (cur ss more : List Bytes) (hdd : ∀ s ∈ ss, s ≠ DOTDOT)
    (hd : ∀ n, n ≤ (ss.filter isName).length →
      kindAt t (cur.reverse ++ (ss.filter isName).take n) = some .dir) :
    walk t cur (ss ++ more) = walk t ((ss.filter isName).reverse ++ cur) more := by
  induction ss generalizing cur with
  | nil => rfl
  | cons s ss ih =>
    have hdd' : ∀ x ∈ ss, x ≠ DOTDOT := fun x hx => hdd x (by simp [hx])
    rw [List.cons_append]
    rcases seg_cases s with hs | rfl | hs
    · have hn : isName s = false := by rcases hs with rfl | rfl <;> decide
      rw [walk_skip t hs]
      rw [List.filter_cons_of_neg (by simp [hn])] at hd ⊢
      exact ih cur hdd' hd
    · exact absurd rfl (hdd DOTDOT (by simp))
    · rw [List.filter_cons_of_pos hs] at hd ⊢
      rw [walk_name t hs]
      have h1 := hd 1 (by simp)
      simp only [List.take_succ_cons, List.take_zero] at h1
      rw [List.reverse_cons, h1]
      simp only []
      have := ih (s :: cur) hdd' (by
        intro n hn
        have := hd (n + 1) (by simp; omega)
        simpa using this)
      rw [this]
      simp

/-- walking a list of names all of whose proper prefixes are directories -/
theorem walk_names (t : Tree) (cur names : List Bytes) (k : Kind)
    (hn : ∀ s ∈ names, isName s = true)
    (hd : ∀ n, n < names.length → kindAt t (cur.reverse ++ names.take n) = some .dir)
    (hk : kindAt t (cur.reverse ++ names) = some k) :
    walk t cur names = some (cur.reverse ++ names) := by
  induction names generalizing cur with
  | nil => simp [walk]
  | cons s rest ih =>
    rw [walk_name t (hn s (by simp))]
    cases rest with
    | nil =>
      rw [List.reverse_cons, hk]
      cases k <;> simp [walk]
    | cons r rest =>
      have h1 := hd 1 (by simp)
      simp only [List.take_succ_cons, List.take_zero] at h1
      rw [List.reverse_cons, h1]
      simp only []
      have := ih (s :: cur) (fun x hx => hn x (by simp [hx]))
        (by
          intro n hlt
          have := hd (n + 1) (by simp at hlt ⊢; omega)
          simpa using this)
        (by simpa using hk)
      rw [this]
      simp

/-! ### the absolute file path of a relative request path, segment-wise -/

theorem segs_absoluteFilePath {root : Bytes} (hr : CleanAbs root = true) {fn : Bytes}
    (hne : fn ≠ []) (h : isAbs fn = false) :
    ∃ pre, segs (absoluteFilePath root fn) = pre ++ segs fn ∧ (∀ s ∈ pre, s ≠ DOTDOT) ∧
      pre.filter isName = locOf root := by
  have hnd := storedRoot_no_dd (cleanAbs_no_dd hr)
  unfold absoluteFilePath
  rw [if_neg (by simp [h])]
  simp only []
  rw [if_neg (by simpa using hne)]
  split
  · rename_i hl
    have hl' : (storedRoot root).getLast? = some 47 := by simpa [SLASH] using hl
    have e := dropLast_append_of_getLast? hl'
    have hseg : segs (storedRoot root) = segs (storedRoot root).dropLast ++ [[]] := by
      conv => lhs; rw [← e]
      exact segs_append_single_slash _
    have e2 : storedRoot root ++ fn = (storedRoot root).dropLast ++ 47 :: fn := by
      conv => lhs; rw [← e]
      simp
    refine ⟨segs (storedRoot root).dropLast, by rw [e2, segs_append_slash], ?_, ?_⟩
    · intro s hs; exact hnd s (by rw [hseg]; simp [hs])
    · rw [← locOf_storedRoot root]
      unfold locOf
      rw [hseg, List.filter_append]
      simp [show isName ([] : Bytes) = false by decide]
  · have e2 : storedRoot root ++ [SLASH] ++ fn = storedRoot root ++ 47 :: fn := by
      simp [SLASH]
    exact ⟨segs (storedRoot root), by rw [e2, segs_append_slash], hnd, locOf_storedRoot root⟩

/-! ### plain relative paths -/

/-- every segment is a name -/
def allNames (p : Bytes) : Bool := (segs p).all isName

theorem allNames_iff {p : Bytes} : allNames p = true ↔ ∀ s ∈ segs p, isName s = true := by
  unfold allNames; exact List.all_eq_true

theorem allNames_ne_nil {p : Bytes} (h : allNames p = true) : p ≠ [] := by
  rintro rfl; exact absurd h (by decide)

theorem allNames_not_abs {p : Bytes} (h : allNames p = true) : isAbs p = false := by
  cases hp : isAbs p with
  | false => rfl
  | true =>
    obtain ⟨xs, rfl⟩ := isAbs_iff.1 hp
    have := allNames_iff.1 h [] (by rw [segs_cons_slash]; simp)
    exact absurd this (by decide)

theorem allNames_normStack {p : Bytes} (h : allNames p = true) : normStack [] (segs p) = segs p := by
  rw [normStack_names _ _ (allNames_iff.1 h)]; rfl

theorem allNames_cleanPath {p : Bytes} (h : allNames p = true) : cleanPath p = p := by
  rw [cleanPath_rel (allNames_ne_nil h) (allNames_not_abs h), allNames_normStack h]
  have : (segs p).isEmpty = false := by
    cases hs : segs p with
    | nil => exact absurd hs (segs_ne_nil p)
    | cons x l => rfl
  rw [this]
  simp only [Bool.false_eq_true, if_false]
  exact joinSegs_segs p

/-! ### converse of the `../` test -/

theorem segs_head_of_startsWith {x : Bytes} (h : startsWith DOTDOTSLASH x = true) :
    (segs x).head? = some DOTDOT := by
  unfold startsWith at h
  obtain ⟨r, rfl⟩ := List.isPrefixOf_iff_prefix.1 h
  have : DOTDOTSLASH ++ r = DOTDOT ++ 47 :: r := rfl
  rw [this, segs_append_slash, segs_of_no_slash DOTDOT_no_slash]
  rfl

theorem joinSegs_accepted {l : List Bytes} (hne : l ≠ [])
    (hl : ∀ s ∈ l, s ≠ [] ∧ (47 : UInt8) ∉ s) (hh : l.head? ≠ some DOTDOT) :
    startsWith DOTDOTSLASH (joinSegs l) = false ∧ joinSegs l ≠ DOTDOT := by
  have hs := segs_joinSegs hne (fun s hs => (hl s hs).2)
  constructor
  · cases hst : startsWith DOTDOTSLASH (joinSegs l) with
    | false => rfl
    | true =>
      have := segs_head_of_startsWith hst
      rw [hs] at this
      exact absurd this hh
  · intro e
    rw [e, segs_of_no_slash DOTDOT_no_slash] at hs
    rw [← hs] at hh
    exact hh rfl

/-- key lemma (b), both directions: a relative request path passes the two tests iff its cleaned
    segment list does not begin with `..` -/
theorem rel_accepted_iff {fn : Bytes} (h : isAbs fn = false) :
    (startsWith DOTDOTSLASH (cleanPath fn) = false ∧ cleanPath fn ≠ DOTDOT) ↔
      (normStack [] (segs fn)).head? ≠ some DOTDOT := by
  constructor
  · rintro ⟨h1, h2⟩; exact rel_accepted_head h h1 h2
  · intro hh
    by_cases hne : fn = []
    · subst hne; decide
    · rw [cleanPath_rel hne h]
      split
      · decide
      · rename_i he
        exact joinSegs_accepted (by intro e; rw [e] at he; exact he rfl)
          (normStack_segs_elems fn) hh

/-! ### cleanPath: shape and idempotence -/

theorem normStack_segs_joinSegs (p : Bytes) :
    normStack [] (segs (joinSegs (normStack [] (segs p)))) = normStack [] (segs p) := by
  cases hst : normStack [] (segs p) with
  | nil => decide
  | cons x l =>
    rw [← hst, segs_joinSegs (by rw [hst]; simp) (fun s hs => (normStack_segs_elems p s hs).2)]
    exact normStack_of_NF (normStack_nil_NF _)

theorem joinSegs_ne_nil {l : List Bytes} (hne : l ≠ []) (h : ∀ s ∈ l, s ≠ []) : joinSegs l ≠ [] := by
  cases l with
  | nil => exact absurd rfl hne
  | cons x l =>
    have hx := h x (by simp)
    cases l with
    | nil => rw [joinSegs_single]; exact hx
    | cons y l => rw [joinSegs_cons _ (by simp)]; simp [hx]

theorem cleanPath_idem' (p : Bytes) : cleanPath (cleanPath p) = cleanPath p := by
  by_cases hne : p = []
  · subst hne; rfl
  · cases habs : isAbs p with
    | true =>
      rw [cleanPath_abs habs]
      rw [cleanPath_abs (p := 47 :: _) (by simp [isAbs, SLASH])]
      rw [segs_cons_slash, normStack_skip (.inl rfl), normStack_segs_joinSegs]
    | false =>
      rw [cleanPath_rel hne habs]
      split
      · decide
      · rename_i he
        have hne' : normStack [] (segs p) ≠ [] := by intro e; rw [e] at he; exact he rfl
        have helems := normStack_segs_elems p
        rw [cleanPath_rel (joinSegs_ne_nil hne' (fun s hs => (helems s hs).1)) (joinSegs_head helems),
          normStack_segs_joinSegs]
        rw [if_neg he]

/-! ### what `walk` returns exists -/

theorem kindAt_nil (t : Tree) : kindAt t [] = some .dir := rfl

/-- every ancestor of the current directory exists -/
def Anc (t : Tree) (cur : List Bytes) : Prop := ∀ n, kindAt t (cur.drop n).reverse ≠ none

theorem Anc.nil (t : Tree) : Anc t [] := by
  intro n; simp [kindAt_nil]

theorem Anc.drop {t : Tree} {cur : List Bytes} (h : Anc t cur) (k : Nat) : Anc t (cur.drop k) := by
  intro n; rw [List.drop_drop]; exact h _

theorem Anc.push {t : Tree} {cur : List Bytes} (h : Anc t cur) {s : Bytes} {k : Kind}
    (hk : kindAt t (s :: cur).reverse = some k) : Anc t (s :: cur) := by
  intro n
  cases n with
  | zero => rw [List.drop_zero, hk]; simp
  | succ n => rw [List.drop_succ_cons]; exact h n

theorem walk_exists (t : Tree) (cur ss loc : List Bytes) (h : walk t cur ss = some loc)
    (ha : Anc t cur) : kindAt t loc ≠ none := by
  induction ss generalizing cur with
  | nil =>
    simp only [walk, Option.some.injEq] at h
    rw [← h]; exact ha 0
  | cons s ss ih =>
    rcases seg_cases s with hs | rfl | hs
    · rw [walk_skip t hs] at h; exact ih _ h ha
    · rw [walk_dd] at h; exact ih _ h (ha.drop 1)
    · rw [walk_name t hs] at h
      split at h
      · rename_i hk; exact ih _ h (ha.push hk)
      · rename_i hk
        split at h
        · simp only [Option.some.injEq] at h
          rw [← h, hk]; simp
        · cases h
      · cases h

/-- whatever is served exists in the tree -/
theorem served_exists (t : Tree) (root path : Bytes) {loc : List Bytes}
    (h : served t root path = some loc) : kindAt t loc ≠ none :=
  walk_exists t [] _ loc ((served_some_iff t root path loc).1 h).1 (Anc.nil t)

/-- an existing location is the root of the file system or an entry of the tree -/
theorem kindAt_mem {t : Tree} {loc : List Bytes} {k : Kind} (h : kindAt t loc = some k) :
    ∃ e ∈ ([], Kind.dir) :: t, e.1 = loc ∧ e.2 = k := by
  unfold kindAt at h
  split at h
  · rename_i he
    have : loc = [] := List.isEmpty_iff.1 he
    subst this
    simp only [Option.some.injEq] at h
    exact ⟨([], .dir), by simp, rfl, h⟩
  · simp only [Option.map_eq_some_iff] at h
    obtain ⟨e, he, hk⟩ := h
    refine ⟨e, by simp [List.mem_of_find?_eq_some he], ?_, hk⟩
    simpa using List.find?_some he

end Fs
end Qhttp
