import Qhttp.Lemmas.C02Run
import Qhttp.Props.C01
/-
  The socket-level statement of C01: with the application `@hp snap @end`, for every stream and
  every segmentation, `headersParsed` is emitted iff the head before the first blank line is
  acceptable, and the snapshot taken in the slot is the expected one.
-/
namespace Qhttp.C02
open Qhttp

/-- `@hp snap @end` -/
def snapApp : App := Script.app { onHp := [.snap] }

/-- observations that neither are `headersParsed` nor a snapshot -/
def quietObs : Obs → Bool
  | .hp => false | .snap _ => false | _ => true

/-- the history only grew, by quiet observations -/
def Quiet (s s' : Sock) : Prop := ∃ l, s'.log = s.log ++ l ∧ l.all quietObs = true

theorem Quiet.refl (s : Sock) : Quiet s s := ⟨[], by simp, rfl⟩
theorem Quiet.of_log_eq {s s' : Sock} (h : s'.log = s.log) : Quiet s s' := ⟨[], by simp [h], rfl⟩
theorem Quiet.trans {s1 s2 s3 : Sock} (h1 : Quiet s1 s2) (h2 : Quiet s2 s3) : Quiet s1 s3 := by
  obtain ⟨l1, e1, q1⟩ := h1
  obtain ⟨l2, e2, q2⟩ := h2
  exact ⟨l1 ++ l2, by rw [e2, e1, List.append_assoc], by rw [List.all_append, q1, q2]; rfl⟩
theorem Quiet.one (s : Sock) (o : Obs) (h : quietObs o = true) : Quiet s { s with log := s.log ++ [o] } :=
  ⟨[o], rfl, by simp [h]⟩

theorem countHp_quiet (l l' : List Obs) (h : l'.all quietObs = true) :
    Obs.countP Obs.isHp (l ++ l') = Obs.countP Obs.isHp l := by
  rw [countP_append]
  suffices Obs.countP Obs.isHp l' = 0 by omega
  induction l' with
  | nil => rfl
  | cons o l' ih =>
    simp only [List.all_cons, Bool.and_eq_true] at h
    have := ih h.2
    cases o <;> simp_all [Obs.countP, quietObs, Obs.isHp]

theorem firstSnap_quiet (l l' : List Obs) (h : l'.all quietObs = true) :
    C01.firstSnap (l ++ l') = C01.firstSnap l := by
  induction l with
  | nil =>
    induction l' with
    | nil => rfl
    | cons o l' ih =>
      simp only [List.all_cons, Bool.and_eq_true] at h
      have := ih h.2
      cases o <;> simp_all [C01.firstSnap, quietObs]
  | cons o l ih =>
    cases o <;> simp_all [C01.firstSnap]

theorem Quiet.countHp {s s' : Sock} (h : Quiet s s') :
    Obs.countP Obs.isHp s'.log = Obs.countP Obs.isHp s.log := by
  obtain ⟨l, e, q⟩ := h; rw [e, countHp_quiet _ _ q]

theorem Quiet.firstSnap {s s' : Sock} (h : Quiet s s') :
    C01.firstSnap s'.log = C01.firstSnap s.log := by
  obtain ⟨l, e, q⟩ := h; rw [e, firstSnap_quiet _ _ q]

/-! ### the error path: `writeError` + `close` keep the history quiet -/

/-- quiet, and the control fields the C01 argument looks at are as stated -/
structure QStep (s s' : Sock) : Prop where
  quiet : Quiet s s'
  alive : s'.alive = s.alive
  rs : s'.rs = s.rs

theorem QStep.refl (s : Sock) : QStep s s := ⟨Quiet.refl s, rfl, rfl⟩
theorem QStep.trans {s1 s2 s3 : Sock} (h1 : QStep s1 s2) (h2 : QStep s2 s3) : QStep s1 s3 :=
  ⟨h1.quiet.trans h2.quiet, h2.alive.trans h1.alive, h2.rs.trans h1.rs⟩

theorem tcpWrite_q (s : Sock) (b : Bytes) : QStep s (Sock.tcpWrite s b) := by
  unfold Sock.tcpWrite
  split
  · exact ⟨Quiet.one _ _ rfl, rfl, rfl⟩
  · exact QStep.refl s

theorem tcpClose_q (s : Sock) : QStep s (Sock.tcpClose s) := by
  unfold Sock.tcpClose
  split
  · exact QStep.refl s
  · simp only []
    split
    · split
      · exact ⟨Quiet.one _ _ rfl, rfl, rfl⟩
      · exact ⟨Quiet.one _ _ rfl, rfl, rfl⟩
    · exact ⟨Quiet.one _ _ rfl, rfl, rfl⟩

theorem writeHeaders_q (s : Sock) : QStep s (Sock.writeHeaders s) := by
  have h1 : QStep s { s with ws := .headers, hdrRemaining := (Sock.headBytes s).length } :=
    ⟨Quiet.of_log_eq rfl, rfl, rfl⟩
  exact h1.trans (tcpWrite_q _ _)

theorem write_q (s : Sock) (b : Bytes) : QStep s (Sock.write s b) := by
  unfold Sock.write
  split
  · exact QStep.refl s
  · simp only []
    split
    · exact (writeHeaders_q s).trans (tcpWrite_q _ _)
    · exact tcpWrite_q _ _

theorem close_q (s : Sock) : Quiet s (Sock.close s) ∧ (Sock.close s).alive = s.alive ∧
    (Sock.close s).rs = .finished := by
  unfold Sock.close
  have h := tcpClose_q { s with ioOpen := false, qio := [], rs := .finished, ws := .finished, closeCalled := true }
  exact ⟨h.quiet, h.alive, h.rs⟩

theorem writeError_q (env : Env) (s : Sock) (c : Int) (r : Option Bytes) :
    Quiet s (Sock.writeError env s c r) ∧ (Sock.writeError env s c r).alive = s.alive ∧
    (Sock.writeError env s c r).rs = .finished := by
  unfold Sock.writeError
  simp only []
  have h1 : QStep s (Sock.setHeader (Sock.setHeader (Sock.setStatusCode s c r) Sock.CONTENT_LENGTH
      (natDigits (env.errPage (Sock.setStatusCode s c r).code (Sock.setStatusCode s c r).reason).length) true)
      Sock.CONTENT_TYPE Sock.TEXT_HTML true) := by
    unfold Sock.setHeader Sock.setStatusCode
    simp only [Bool.true_or, if_true]
    exact ⟨Quiet.of_log_eq rfl, rfl, rfl⟩
  have h2 := h1.trans (writeHeaders_q _)
  have h3 := h2.trans (write_q _ (env.errPage (Sock.setStatusCode s c r).code (Sock.setStatusCode s c r).reason))
  obtain ⟨c1, c2, c3⟩ := close_q (Sock.write (Sock.writeHeaders (Sock.setHeader (Sock.setHeader (Sock.setStatusCode s c r) Sock.CONTENT_LENGTH
      (natDigits (env.errPage (Sock.setStatusCode s c r).code (Sock.setStatusCode s c r).reason).length) true)
      Sock.CONTENT_TYPE Sock.TEXT_HTML true)) (env.errPage (Sock.setStatusCode s c r).code (Sock.setStatusCode s c r).reason))
  exact ⟨h3.quiet.trans c1, c2.trans h3.alive, c3⟩

theorem emitDc_snap_q (env : Env) (s : Sock) : QStep s (Sock.emitDc env snapApp s) := by
  unfold Sock.emitDc
  exact ⟨Quiet.one _ _ rfl, rfl, rfl⟩

/-! ### body phase: nothing but `readyRead` / `readChannelFinished` is added -/

/-- quiet and still past the head -/
structure BStep (s s' : Sock) : Prop where
  quiet : Quiet s s'
  alive : s'.alive = s.alive
  rs : s'.rs ≠ .headers

theorem readDataSlot_snap (env : Env) (s : Sock) (h : s.rs ≠ .headers) :
    BStep s (Sock.readDataSlot env snapApp s) := by
  rw [readDataSlot_eq]
  have c1 : QStep s (cutS s) := by
    unfold cutS; split
    · exact ⟨Quiet.of_log_eq rfl, rfl, rfl⟩
    · exact QStep.refl s
  have c2 : QStep (cutS s) (rrS env snapApp (cutS s)) := by
    unfold rrS; split
    · exact ⟨Quiet.one _ _ rfl, rfl, rfl⟩
    · exact QStep.refl _
  have c12 := c1.trans c2
  generalize rrS env snapApp (cutS s) = s2 at c12
  unfold finS
  split
  · exact ⟨c12.quiet.trans (Quiet.one _ _ rfl), c12.alive, by simp [Sock.emit, Sock.apis, snapApp, Script.app]⟩
  · exact ⟨c12.quiet, c12.alive, by rw [c12.rs]; exact h⟩

theorem onReadyRead_snap_body (env : Env) (s : Sock) (h : s.rs ≠ .headers) :
    BStep s (Sock.onReadyRead env snapApp s) := by
  rw [onReadyRead_eq]
  split
  · split
    · exact ⟨Quiet.of_log_eq rfl, rfl, h⟩
    · exact ⟨Quiet.refl s, rfl, h⟩
  · rename_i hf
    have hd : s.rs = .data := by
      cases hrs : s.rs <;> simp_all
    have hp : QStep s (pullS s) := by
      unfold pullS; split
      · exact ⟨Quiet.of_log_eq rfl, rfl, rfl⟩
      · exact QStep.refl s
    have hd' : (pullS s).rs = .data := by rw [hp.rs, hd]
    rw [orrBody_data _ _ _ hd']
    have := readDataSlot_snap env (pullS s) (by rw [hd']; simp)
    exact ⟨hp.quiet.trans this.quiet, this.alive.trans hp.alive, this.rs⟩

/-! ### `readHeaders` for an arbitrary acceptable or unacceptable head -/

/-- the state in which `headersParsed` is emitted (any accepted head) -/
def hpStateG (s : Sock) (rh : Parser.ReqHead) (p : Bytes) (q : List (Bytes × Bytes)) (rest : Bytes) : Sock :=
  let s1 : Sock := { s with method := rh.method, rawPath := rh.rawPath, reqHeaders := rh.headers, path := p,
                            query := q.foldl (fun m e => Sock.qmInsert e.1 e.2 m) s.query,
                            readBuffer := rest, rs := .data }
  if HeaderMap.contains Sock.CONTENT_LENGTH_KEY s1.reqHeaders then
    let t := toLongLong (HeaderMap.value Sock.CONTENT_LENGTH_KEY s1.reqHeaders)
    { s1 with total := t,
              readBuffer := if t ≥ 0 && (s1.readBuffer.length : Int) > t
                            then s1.readBuffer.take t.toNat else s1.readBuffer }
  else s1

theorem readHeaders_ok (env : Env) (app : App) (s : Sock) (head rest : Bytes) (rh : Parser.ReqHead)
    (p : Bytes) (q : List (Bytes × Bytes))
    (hb : breakOn CRLF2 s.readBuffer = some (head, rest))
    (hp : Parser.parseRequestHeaders head s.reqHeaders = some rh)
    (hu : env.url rh.rawPath = some (p, q)) :
    Sock.readHeaders env app s =
      (Sock.emit env app (hpStateG s rh p q rest) .hp (app.onHp (hpStateG s rh p q rest)), true) := by
  unfold Sock.readHeaders
  simp only [hb, hp, hu]
  rfl

theorem readHeaders_bad (env : Env) (app : App) (s : Sock) (head rest : Bytes)
    (hb : breakOn CRLF2 s.readBuffer = some (head, rest))
    (hbad : Parser.parseRequestHeaders head s.reqHeaders = none ∨
      ∃ rh, Parser.parseRequestHeaders head s.reqHeaders = some rh ∧ env.url rh.rawPath = none) :
    Sock.readHeaders env app s =
      (if (Sock.writeError env s 400 none).dcFlag then Sock.emitDc env app (Sock.writeError env s 400 none)
       else Sock.writeError env s 400 none, false) := by
  unfold Sock.readHeaders
  rcases hbad with hp | ⟨rh, hp, hu⟩
  · simp only [hb, hp]
  · simp only [hb, hp, hu]

theorem hpStateG_props (s : Sock) (rh : Parser.ReqHead) (p : Bytes) (q : List (Bytes × Bytes)) (rest : Bytes) :
    (hpStateG s rh p q rest).rs = .data ∧ (hpStateG s rh p q rest).alive = s.alive ∧
    (hpStateG s rh p q rest).log = s.log ∧ (hpStateG s rh p q rest).dcFlag = s.dcFlag := by
  unfold hpStateG
  simp only []
  split <;> exact ⟨rfl, rfl, rfl, rfl⟩

/-- the snapshot taken inside the `headersParsed` slot is what `C01.expect` computes -/
theorem takeSnap_hpStateG (env : Env) (s : Sock) (head : Bytes) (rh : Parser.ReqHead) (p : Bytes)
    (q : List (Bytes × Bytes)) (rest : Bytes)
    (hp : Parser.parseRequestHeaders head [] = some rh) (hu : env.url rh.rawPath = some (p, q))
    (hq : s.query = []) (ht : s.total = -1) :
    C01.expect env head = some (Sock.takeSnap (hpStateG s rh p q rest)) := by
  unfold C01.expect
  simp only [hp, hu]
  unfold hpStateG
  simp only []
  by_cases hc : HeaderMap.contains Sock.CONTENT_LENGTH_KEY rh.headers = true
  · have hc' : HeaderMap.contains Sock.CONTENT_LENGTH rh.headers = true := hc
    simp [hc', Sock.takeSnap, hq, Sock.CONTENT_LENGTH_KEY]
  · have hc' : ¬ HeaderMap.contains Sock.CONTENT_LENGTH rh.headers = true := hc
    simp [hc, hc', Sock.takeSnap, hq, ht]

/-! ### the invariant of the `@hp snap @end` runs -/

/-- head not complete yet (without the claim that the buffer has no blank line) -/
structure C1H0 (fed : Bytes) (s : Sock) : Prop where
  rs : s.rs = .headers
  buf : s.readBuffer = fed
  rh : s.reqHeaders = []
  q : s.query = []
  total : s.total = -1
  devOpen : s.tcp.devOpen = true
  inbox : s.tcp.inbox = []
  dcFlag : s.dcFlag = false
  hp : Obs.countP Obs.isHp s.log = 0
  snap : C01.firstSnap s.log = none

/-- the head was accepted: one `headersParsed`, the first snapshot is the expected one -/
def C1A (env : Env) (fed : Bytes) (s : Sock) : Prop :=
  s.rs ≠ .headers ∧ ∃ head rest f, breakOn CRLF2 fed = some (head, rest) ∧ C01.expect env head = some f ∧
    Obs.countP Obs.isHp s.log = 1 ∧ C01.firstSnap s.log = some f

/-- the head was rejected: no `headersParsed` -/
def C1R (env : Env) (fed : Bytes) (s : Sock) : Prop :=
  s.rs ≠ .headers ∧ ∃ head rest, breakOn CRLF2 fed = some (head, rest) ∧ C01.expect env head = none ∧
    Obs.countP Obs.isHp s.log = 0

def C1Inv (env : Env) (fed : Bytes) (s : Sock) : Prop :=
  s.alive = true ∧ ((C1H0 fed s ∧ breakOn CRLF2 fed = none) ∨ C1A env fed s ∨ C1R env fed s)

theorem firstSnap_append_none (l l' : List Obs) (h : C01.firstSnap l = none) :
    C01.firstSnap (l ++ l') = C01.firstSnap l' := by
  induction l with
  | nil => rfl
  | cons o l ih => cases o <;> simp_all [C01.firstSnap]

theorem emit_snap (env : Env) (s : Sock) (ha : s.alive = true) (hd : s.dcFlag = false) :
    Sock.emit env snapApp s .hp (snapApp.onHp s) =
      { s with log := s.log ++ [Obs.hp] ++ [Obs.snap (Sock.takeSnap s)] } := by
  simp [Sock.emit, Sock.apis, snapApp, Script.app, Sock.api, Sock.apiPrim, ha, hd, Sock.takeSnap]

theorem orrBody_headers (env : Env) (app : App) (s : Sock) (h : s.rs = .headers) :
    orrBody env app s =
      (if !(Sock.readHeaders env app s).2 then (Sock.readHeaders env app s).1 else
       match (Sock.readHeaders env app s).1.rs with
       | .data => Sock.readDataSlot env app (Sock.readHeaders env app s).1
       | .finished => { (Sock.readHeaders env app s).1 with readBuffer := [] }
       | .headers => (Sock.readHeaders env app s).1) := by
  unfold orrBody; simp only [h, if_true]; rfl

theorem bad_c1 (env : Env) (s : Sock) (ha : s.alive = true) (hhp : Obs.countP Obs.isHp s.log = 0) :
    (if (Sock.writeError env s 400 none).dcFlag then Sock.emitDc env snapApp (Sock.writeError env s 400 none)
       else Sock.writeError env s 400 none).alive = true ∧
    (if (Sock.writeError env s 400 none).dcFlag then Sock.emitDc env snapApp (Sock.writeError env s 400 none)
       else Sock.writeError env s 400 none).rs ≠ .headers ∧
    Obs.countP Obs.isHp (if (Sock.writeError env s 400 none).dcFlag
       then Sock.emitDc env snapApp (Sock.writeError env s 400 none)
       else Sock.writeError env s 400 none).log = 0 := by
  obtain ⟨w1, w2, w3⟩ := writeError_q env s 400 none
  split
  · have e := emitDc_snap_q env (Sock.writeError env s 400 none)
    exact ⟨by rw [e.alive, w2, ha], by rw [e.rs, w3]; simp, by rw [(w1.trans e.quiet).countHp, hhp]⟩
  · exact ⟨by rw [w2, ha], by rw [w3]; simp, by rw [w1.countHp, hhp]⟩

theorem orrBody_c1 (env : Env) (s : Sock) (fed : Bytes) (ha : s.alive = true) (h : C1H0 fed s) :
    C1Inv env fed (orrBody env snapApp s) := by
  cases hb : breakOn CRLF2 s.readBuffer with
  | none =>
    rw [orrBody_headers_none _ _ _ h.rs hb]
    exact ⟨ha, Or.inl ⟨h, by rw [← h.buf]; exact hb⟩⟩
  | some pr =>
    obtain ⟨head, rest⟩ := pr
    have hbf : breakOn CRLF2 fed = some (head, rest) := by rw [← h.buf]; exact hb
    rw [orrBody_headers _ _ _ h.rs]
    have bad : ∀ (hbad : Parser.parseRequestHeaders head s.reqHeaders = none ∨
        ∃ rh, Parser.parseRequestHeaders head s.reqHeaders = some rh ∧ env.url rh.rawPath = none)
        (hexp : C01.expect env head = none),
        C1Inv env fed (if !(Sock.readHeaders env snapApp s).2 then (Sock.readHeaders env snapApp s).1 else
          match (Sock.readHeaders env snapApp s).1.rs with
          | .data => Sock.readDataSlot env snapApp (Sock.readHeaders env snapApp s).1
          | .finished => { (Sock.readHeaders env snapApp s).1 with readBuffer := [] }
          | .headers => (Sock.readHeaders env snapApp s).1) := by
      intro hbad hexp
      rw [readHeaders_bad env snapApp s head rest hb hbad]
      simp only [Bool.not_false, if_true]
      obtain ⟨b1, b2, b3⟩ := bad_c1 env s ha h.hp
      exact ⟨b1, Or.inr (Or.inr ⟨b2, head, rest, hbf, hexp, b3⟩)⟩
    cases hp : Parser.parseRequestHeaders head [] with
    | none =>
      exact bad (Or.inl (by rw [h.rh]; exact hp)) (by unfold C01.expect; simp only [hp])
    | some rh =>
      cases hu : env.url rh.rawPath with
      | none =>
        exact bad (Or.inr ⟨rh, by rw [h.rh]; exact hp, hu⟩) (by unfold C01.expect; simp only [hp, hu])
      | some pq =>
        obtain ⟨p, q⟩ := pq
        rw [readHeaders_ok env snapApp s head rest rh p q hb (by rw [h.rh]; exact hp) hu]
        obtain ⟨g1, g2, g3, g4⟩ := hpStateG_props s rh p q rest
        rw [emit_snap env _ (by rw [g2]; exact ha) (by rw [g4]; exact h.dcFlag)]
        have hexp := takeSnap_hpStateG env s head rh p q rest hp hu h.q h.total
        generalize hse : ({ hpStateG s rh p q rest with
            log := (hpStateG s rh p q rest).log ++ [Obs.hp] ++ [Obs.snap (Sock.takeSnap (hpStateG s rh p q rest))] } : Sock)
            = se
        have e1 : se.rs = .data := by rw [← hse]; exact g1
        have e2 : se.alive = true := by rw [← hse]; show (hpStateG s rh p q rest).alive = true; rw [g2]; exact ha
        have e3 : se.log = s.log ++ [Obs.hp] ++ [Obs.snap (Sock.takeSnap (hpStateG s rh p q rest))] := by
          rw [← hse]; show (hpStateG s rh p q rest).log ++ _ ++ _ = _; rw [g3]
        simp only [Bool.not_true, Bool.false_eq_true, if_false, e1]
        have b := readDataSlot_snap env se (by rw [e1]; simp)
        refine ⟨by rw [b.alive]; exact e2,
          Or.inr (Or.inl ⟨b.rs, head, rest, _, hbf, hexp, ?_, ?_⟩)⟩
        · rw [b.quiet.countHp, e3, countP_append, countP_append, h.hp]; rfl
        · rw [b.quiet.firstSnap, e3, List.append_assoc, firstSnap_append_none _ _ h.snap]; rfl

/-! ### events -/

def feedEvent : Event → Bool
  | .new => true | .feed _ => true | _ => false

theorem C1A.step {env : Env} {fed seg : Bytes} {s s' : Sock} (h : C1A env fed s) (b : BStep s s') :
    C1A env (fed ++ seg) s' := by
  obtain ⟨_, head, rest, f, h1, h2, h3, h4⟩ := h
  exact ⟨b.rs, head, rest ++ seg, f, C02L.breakOn_append _ _ _ _ _ h1, h2,
    by rw [b.quiet.countHp, h3], by rw [b.quiet.firstSnap, h4]⟩

theorem C1R.step {env : Env} {fed seg : Bytes} {s s' : Sock} (h : C1R env fed s) (b : BStep s s') :
    C1R env (fed ++ seg) s' := by
  obtain ⟨_, head, rest, h1, h2, h3⟩ := h
  exact ⟨b.rs, head, rest ++ seg, C02L.breakOn_append _ _ _ _ _ h1, h2, by rw [b.quiet.countHp, h3]⟩

theorem stepK_c1 (env : Env) (fed : Bytes) (s : Sock) (k : Nat) (e : Event) (he : feedEvent e = true)
    (h : C1Inv env fed s) :
    C1Inv env (fed ++ evBytesOf e) (Sock.stepK env snapApp (s, k) e).1 := by
  obtain ⟨ha, h⟩ := h
  rw [stepK_alive env snapApp s k e ha]
  show C1Inv env _ (Sock.step env snapApp _ e)
  have hq1 : Quiet s { s with log := s.log ++ [Obs.ev k] } := Quiet.one _ _ rfl
  unfold Sock.step
  rw [if_neg (by simp [ha])]
  cases e with
  | prebuf b => simp [feedEvent] at he
  | ack n => simp [feedEvent] at he
  | ackAll => simp [feedEvent] at he
  | peerClose => simp [feedEvent] at he
  | turn => simp [feedEvent] at he
  | api op => simp [feedEvent] at he
  | new =>
    simp only [evBytesOf, List.append_nil]
    have hq : Quiet s { s with log := s.log ++ [Obs.ev k], initPending := true } := ⟨[Obs.ev k], rfl, rfl⟩
    have hb : s.rs ≠ .headers → BStep s { s with log := s.log ++ [Obs.ev k], initPending := true } :=
      fun hr => ⟨hq, rfl, hr⟩
    refine ⟨ha, ?_⟩
    rcases h with ⟨h0, hn⟩ | hA | hR
    · exact Or.inl ⟨⟨h0.rs, h0.buf, h0.rh, h0.q, h0.total, h0.devOpen, h0.inbox, h0.dcFlag,
        by rw [hq.countHp]; exact h0.hp, by rw [hq.firstSnap]; exact h0.snap⟩, hn⟩
    · have := hA.step (seg := []) (hb hA.1); rw [List.append_nil] at this; exact Or.inr (Or.inl this)
    · have := hR.step (seg := []) (hb hR.1); rw [List.append_nil] at this; exact Or.inr (Or.inr this)
  | feed seg =>
    simp only [evBytesOf]
    have hq2 : QStep s { s with log := s.log ++ [Obs.ev k], tcp := { s.tcp with inbox := s.tcp.inbox ++ seg } } :=
      ⟨⟨[Obs.ev k], rfl, rfl⟩, rfl, rfl⟩
    rcases h with ⟨h0, hn⟩ | hA | hR
    · rw [onReadyRead_eq, if_neg (by show ¬ s.rs = .finished; rw [h0.rs]; simp)]
      unfold pullS
      rw [if_pos (by exact h0.devOpen)]
      apply orrBody_c1 env _ _ (by exact ha)
      exact ⟨h0.rs, by show s.readBuffer ++ (s.tcp.inbox ++ seg) = fed ++ seg; rw [h0.buf, h0.inbox]; rfl,
        h0.rh, h0.q, h0.total, h0.devOpen, rfl, h0.dcFlag,
        by show Obs.countP Obs.isHp (s.log ++ [Obs.ev k]) = 0; rw [countP_append, h0.hp]; rfl,
        by show C01.firstSnap (s.log ++ [Obs.ev k]) = none
           rw [firstSnap_quiet _ _ rfl]; exact h0.snap⟩
    · have b := onReadyRead_snap_body env
        { s with log := s.log ++ [Obs.ev k], tcp := { s.tcp with inbox := s.tcp.inbox ++ seg } } hA.1
      have b' : BStep s _ := ⟨hq2.quiet.trans b.quiet, b.alive.trans hq2.alive, b.rs⟩
      exact ⟨by rw [b'.alive]; exact ha, Or.inr (Or.inl (hA.step b'))⟩
    · have b := onReadyRead_snap_body env
        { s with log := s.log ++ [Obs.ev k], tcp := { s.tcp with inbox := s.tcp.inbox ++ seg } } hR.1
      have b' : BStep s _ := ⟨hq2.quiet.trans b.quiet, b.alive.trans hq2.alive, b.rs⟩
      exact ⟨by rw [b'.alive]; exact ha, Or.inr (Or.inr (hR.step b'))⟩

theorem fold_c1 (env : Env) : ∀ (evs : List Event) (fed : Bytes) (s : Sock) (k : Nat),
    evs.all feedEvent = true → C1Inv env fed s →
    C1Inv env (fed ++ Scenario.fed evs) (evs.foldl (Sock.stepK env snapApp) (s, k)).1 := by
  intro evs
  induction evs with
  | nil => intro fed s k _ h; simpa [fed_eq] using h
  | cons e evs ih =>
    intro fed s k hall h
    simp only [List.all_cons, Bool.and_eq_true] at hall
    have h1 := stepK_c1 env fed s k e hall.1 h
    rw [List.foldl_cons]
    have := ih (fed ++ evBytesOf e) (Sock.stepK env snapApp (s, k) e).1 (Sock.stepK env snapApp (s, k) e).2
      hall.2 h1
    have e2 : Scenario.fed (e :: evs) = evBytesOf e ++ Scenario.fed evs := by
      rw [show e :: evs = [e] ++ evs from rfl, fed_append, fed_single]
    rw [e2, ← List.append_assoc]
    exact this

theorem C1Inv_init (env : Env) : C1Inv env [] ({} : Sock) :=
  ⟨rfl, Or.inl ⟨⟨rfl, rfl, rfl, rfl, rfl, rfl, rfl, rfl, rfl, rfl⟩, by decide⟩⟩

theorem run_c1 (env : Env) (evs : List Event) (h : evs.all feedEvent = true) :
    C1Inv env (Scenario.fed evs) (Sock.run env snapApp evs) := by
  have := fold_c1 env evs [] {} 0 h (C1Inv_init env)
  simpa [Sock.run] using this

theorem fed_feeds (segs : List Bytes) : Scenario.fed (.new :: segs.map .feed) = segs.flatten := by
  rw [show Event.new :: segs.map Event.feed = [Event.new] ++ segs.map Event.feed from rfl, fed_append, fed_single]
  simp only [evBytesOf, List.nil_append]
  induction segs with
  | nil => rfl
  | cons x xs ih =>
    rw [List.map_cons, show Event.feed x :: xs.map Event.feed = [Event.feed x] ++ xs.map Event.feed from rfl,
      fed_append, fed_single, ih]
    simp [evBytesOf]

theorem feeds_ok (segs : List Bytes) : (Event.new :: segs.map Event.feed).all feedEvent = true := by
  simp [feedEvent]

end Qhttp.C02
