import Qhttp.Model.Handler
/-
  The structure of `route`: the middleware of the handlers on the route in attachment order up
  to and including the first refusal, followed — only if none refused — by exactly one terminal
  action.
-/
namespace Qhttp.RouteL
open Qhttp

def isTerminalAct : Act → Bool
  | .mw _ _ => false
  | .redirect _ _ => true
  | .process _ _ => true

def mwAct (e : Nat × Bool) : Act := .mw e.1 e.2

/-- a list of verdicts cut after the first refusal -/
def takeThroughFirstRefusal : List (Nat × Bool) → List (Nat × Bool)
  | [] => []
  | (i, ok) :: l => if ok then (i, true) :: takeThroughFirstRefusal l else [(i, false)]

def allAccept (l : List (Nat × Bool)) : Bool := l.all (·.2)

/-- some redirect pattern of the list matches the path -/
def redirectFires (m : Matcher) (path : QStr) (reds : List (Nat × QStr)) : Bool :=
  reds.any fun r => (m r.1 path).isSome

mutual
  /-- the middleware of every handler on the route the request takes if all accept: the node's
      own list, then — unless one of its redirects fires — that of the first sub-handler whose
      pattern matches, recursively -/
  def chain (m : Matcher) : Node → QStr → List (Nat × Bool)
    | .mk _ mws reds subs _, path =>
      mws ++ (if redirectFires m path reds then [] else chainSubs m subs path)
  def chainSubs (m : Matcher) : Subs → QStr → List (Nat × Bool)
    | .nil, _ => []
    | .cons pat child rest, path =>
      match m pat path with
      | some mt => chain m child (path.drop mt.len)
      | none => chainSubs m rest path
end

mutual
  /-- the terminal action of the route when all middleware accept -/
  def termOf (m : Matcher) : Node → QStr → Act
    | .mk id _ reds subs _, path =>
      match firstRedirect m path reds with
      | some loc => .redirect id loc
      | none =>
        match termSubs m subs path with
        | some t => t
        | none => .process id path
  def termSubs (m : Matcher) : Subs → QStr → Option Act
    | .nil, _ => none
    | .cons pat child rest, path =>
      match m pat path with
      | some mt => some (termOf m child (path.drop mt.len))
      | none => termSubs m rest path
end

/-! ### the middleware loop -/

theorem runMws_fst (mws : List (Nat × Bool)) :
    (runMws mws).1 = (takeThroughFirstRefusal mws).map mwAct := by
  induction mws with
  | nil => rfl
  | cons e l ih =>
    obtain ⟨i, ok⟩ := e
    cases ok <;> simp [runMws, takeThroughFirstRefusal, mwAct, ih]

theorem runMws_snd (mws : List (Nat × Bool)) : (runMws mws).2 = allAccept mws := by
  induction mws with
  | nil => rfl
  | cons e l ih =>
    obtain ⟨i, ok⟩ := e
    cases ok <;> simp [runMws, allAccept, ih] <;> simp [allAccept] at ih ⊢ <;> exact ih

theorem ttfr_append_of_accept {a b : List (Nat × Bool)} (h : allAccept a = true) :
    takeThroughFirstRefusal (a ++ b) = a ++ takeThroughFirstRefusal b := by
  induction a with
  | nil => rfl
  | cons e l ih =>
    obtain ⟨i, ok⟩ := e
    simp only [allAccept, List.all_cons, Bool.and_eq_true] at h
    obtain ⟨h1, h2⟩ := h
    have h1 : ok = true := h1
    subst h1
    simp [takeThroughFirstRefusal, ih h2]

theorem ttfr_append_of_refuse {a : List (Nat × Bool)} (b : List (Nat × Bool)) (h : allAccept a = false) :
    takeThroughFirstRefusal (a ++ b) = takeThroughFirstRefusal a := by
  induction a with
  | nil => simp [allAccept] at h
  | cons e l ih =>
    obtain ⟨i, ok⟩ := e
    cases ok with
    | false => simp [takeThroughFirstRefusal]
    | true =>
      have : allAccept l = false := by simpa [allAccept] using h
      simp [takeThroughFirstRefusal, ih this]

theorem ttfr_of_accept {a : List (Nat × Bool)} (h : allAccept a = true) : takeThroughFirstRefusal a = a := by
  simpa [takeThroughFirstRefusal] using ttfr_append_of_accept (b := []) h

theorem allAccept_append (a b : List (Nat × Bool)) : allAccept (a ++ b) = (allAccept a && allAccept b) := by
  simp [allAccept]

theorem firstRedirect_isSome (m : Matcher) (path : QStr) (reds : List (Nat × QStr)) :
    (firstRedirect m path reds).isSome = redirectFires m path reds := by
  induction reds with
  | nil => rfl
  | cons r l ih =>
    obtain ⟨pat, tmpl⟩ := r
    simp only [firstRedirect, redirectFires, List.any_cons]
    cases h : m pat path with
    | none => simpa [redirectFires] using ih
    | some mt => simp

/-! ### the structure theorem -/

/-- what follows the middleware: the terminal action, only if nobody refused -/
def tailOf (m : Matcher) (n : Node) (path : QStr) : List Act :=
  if allAccept (chain m n path) then [termOf m n path] else []

mutual
  theorem route_struct (m : Matcher) : ∀ (n : Node) (path : QStr),
      route m n path = (takeThroughFirstRefusal (chain m n path)).map mwAct ++ tailOf m n path
    | .mk id mws reds subs own, path => by
      have h1 := runMws_fst mws
      have h2 := runMws_snd mws
      rw [route, chain, tailOf, chain, termOf]
      generalize runMws mws = r at h1 h2
      obtain ⟨acts, go⟩ := r
      simp only at h1 h2
      subst h1 h2
      have hfr := firstRedirect_isSome m path reds
      by_cases hgo : allAccept mws = true
      · simp only [hgo, Bool.not_true, Bool.false_eq_true, if_false]
        rw [ttfr_append_of_accept hgo, allAccept_append, hgo, ttfr_of_accept hgo]
        cases hr : firstRedirect m path reds with
        | some loc =>
          have : redirectFires m path reds = true := by rw [← hfr, hr]; rfl
          simp [this, takeThroughFirstRefusal, allAccept]
        | none =>
          have : redirectFires m path reds = false := by rw [← hfr, hr]; rfl
          simp only [this, Bool.false_eq_true, if_false, Bool.true_and]
          have hs := routeSubs_struct m subs path
          cases hrs : routeSubs m subs path with
          | some r =>
            rw [hrs] at hs
            obtain ⟨t, ht, hr'⟩ := hs
            simp [hr', ht]
          | none =>
            rw [hrs] at hs
            obtain ⟨hc, ht⟩ := hs
            simp [hc, ht, takeThroughFirstRefusal, allAccept]
      · have hgo' : allAccept mws = false := by simpa using hgo
        simp only [hgo', Bool.not_false, if_true]
        rw [ttfr_append_of_refuse _ hgo', allAccept_append, hgo']
        simp
  theorem routeSubs_struct (m : Matcher) : ∀ (s : Subs) (path : QStr),
      match routeSubs m s path with
      | some r => ∃ t, termSubs m s path = some t ∧
          r = (takeThroughFirstRefusal (chainSubs m s path)).map mwAct ++
              (if allAccept (chainSubs m s path) then [t] else [])
      | none => chainSubs m s path = [] ∧ termSubs m s path = none
    | .nil, path => by simp [routeSubs, chainSubs, termSubs]
    | .cons pat child rest, path => by
      rw [routeSubs, chainSubs, termSubs]
      cases h : m pat path with
      | some mt =>
        simp only
        refine ⟨_, rfl, ?_⟩
        have := route_struct m child (path.drop mt.len)
        rw [this, tailOf]
      | none =>
        simp only
        exact routeSubs_struct m rest path
end

/-! ### consequences -/

mutual
  theorem termOf_terminal (m : Matcher) : ∀ (n : Node) (path : QStr), isTerminalAct (termOf m n path) = true
    | .mk id mws reds subs own, path => by
      rw [termOf]
      cases firstRedirect m path reds with
      | some loc => rfl
      | none =>
        simp only
        have := termSubs_terminal m subs path
        cases h : termSubs m subs path with
        | some t => exact this t h
        | none => rfl
  theorem termSubs_terminal (m : Matcher) : ∀ (s : Subs) (path : QStr) (t : Act),
      termSubs m s path = some t → isTerminalAct t = true
    | .nil, path, t => by simp [termSubs]
    | .cons pat child rest, path, t => by
      rw [termSubs]
      cases h : m pat path with
      | some mt => simp only; intro e; cases e; exact termOf_terminal m child _
      | none => simp only; exact termSubs_terminal m rest path t
end

/-- a cut list either is the whole list (all accept) or ends with the first refusal -/
theorem ttfr_cases (c : List (Nat × Bool)) :
    (allAccept c = true ∧ takeThroughFirstRefusal c = c) ∨
    (allAccept c = false ∧ ∃ pre i, allAccept pre = true ∧ takeThroughFirstRefusal c = pre ++ [(i, false)]) := by
  induction c with
  | nil => left; simp [allAccept, takeThroughFirstRefusal]
  | cons e l ih =>
    obtain ⟨i, ok⟩ := e
    cases ok with
    | false => right; exact ⟨by simp [allAccept], [], i, by simp [allAccept], by simp [takeThroughFirstRefusal]⟩
    | true =>
      rcases ih with ⟨h1, h2⟩ | ⟨h1, pre, j, h2, h3⟩
      · left; constructor
        · simpa [allAccept] using h1
        · simp [takeThroughFirstRefusal, h2]
      · right; refine ⟨by simpa [allAccept] using h1, (i, true) :: pre, j, ?_, ?_⟩
        · simpa [allAccept] using h2
        · simp [takeThroughFirstRefusal, h3]

/-- no consulted middleware refused -/
def noRefusal (as : List Act) : Bool :=
  as.all fun a => match a with | .mw _ false => false | _ => true

theorem noRefusal_map_mwAct (l : List (Nat × Bool)) : noRefusal (l.map mwAct) = allAccept l := by
  induction l with
  | nil => rfl
  | cons e l ih =>
    obtain ⟨i, ok⟩ := e
    simp only [noRefusal, allAccept] at ih
    cases ok <;> simp [noRefusal, allAccept, mwAct, ih]

theorem noRefusal_route (m : Matcher) (n : Node) (path : QStr) :
    noRefusal (route m n path) = allAccept (chain m n path) := by
  rw [route_struct, tailOf]
  rcases ttfr_cases (chain m n path) with ⟨h1, h2⟩ | ⟨h1, pre, i, h2, h3⟩
  · have ht := termOf_terminal m n path
    rw [h1, h2]
    simp only [if_true, noRefusal, List.all_append] at *
    have := noRefusal_map_mwAct (chain m n path)
    simp only [noRefusal] at this
    rw [this, h1]
    cases hT : termOf m n path <;> simp_all [isTerminalAct]
  · rw [h1, h3]
    simp [noRefusal, mwAct]

/-- shape of every routing run: the consulted middleware (all accepting), then either one terminal
    action or one refusal — nothing else -/
theorem route_cases (m : Matcher) (n : Node) (path : QStr) :
    ∃ pre : List (Nat × Bool), allAccept pre = true ∧
      ((∃ t, isTerminalAct t = true ∧ route m n path = pre.map mwAct ++ [t] ∧ noRefusal (route m n path) = true) ∨
       (∃ id, route m n path = pre.map mwAct ++ [.mw id false] ∧ noRefusal (route m n path) = false)) := by
  have hn := noRefusal_route m n path
  rw [hn, route_struct, tailOf]
  rcases ttfr_cases (chain m n path) with ⟨h1, h2⟩ | ⟨h1, pre, i, h2, h3⟩
  · exact ⟨chain m n path, h1, Or.inl ⟨termOf m n path, termOf_terminal m n path, by simp [h1, h2], h1⟩⟩
  · exact ⟨pre, h2, Or.inr ⟨i, by simp [h1, h3, mwAct], h1⟩⟩

end Qhttp.RouteL
