import Qhttp.Lemmas.C19Mark
/-
  C19, part 7: the private slots, the external events and the run preserve the invariant `MS c`
  of C19Mark.  Between two external events the ghost flag `c` is "an earlier event was a closing
  API call from idle context": the Socket object is then gone or its transport's device is closed,
  and this stays so whatever happens later.
-/
namespace Qhttp.C19L
open Qhttp Qhttp.Obs Qhttp.Sock

variable {env : Env} {app : App} {c : Bool} {s : Sock}

/-! ### private slots -/

theorem readHeaders_MS (happ : AppM app) (h : MS c s) : MS c (readHeaders env app s).1 := by
  have hbad : MS c (if (writeError env s 400 none).dcFlag = true
      then emitDc env app (writeError env s 400 none) else writeError env s 400 none) :=
    fin_MS happ (writeError_closedM (MS_closed c) env _ _ h)
  unfold readHeaders
  split
  · exact h
  · dsimp only
    split
    · exact hbad
    · split
      · exact hbad
      · apply emit_MS happ .hp rfl rfl _ (happ.hp _)
        split <;> exact MS_same ⟨rfl, rfl, rfl⟩ h

theorem readDataSlot_MS (happ : AppM app) (h : MS c s) : MS c (readDataSlot env app s) := by
  unfold readDataSlot
  extract_lets s1 s2
  have h1 : MS c s1 := by
    simp only [s1]; split
    · exact MS_same ⟨rfl, rfl, rfl⟩ h
    · exact h
  have h2 : MS c s2 := by
    simp only [s2]; split
    · exact emit_MS happ .rr rfl rfl _ (happ.rr _) h1
    · exact h1
  split
  · exact emit_MS happ .rcf rfl rfl _ (happ.rcf _) (MS_same (s := s2) ⟨rfl, rfl, rfl⟩ h2)
  · exact h2

theorem onReadyRead_MS (happ : AppM app) (h : MS c s) : MS c (onReadyRead env app s) := by
  unfold onReadyRead
  split
  · split
    · exact MS_same ⟨rfl, rfl, rfl⟩ h
    · exact h
  · extract_lets src s1
    have h1 : MS c s1 := by
      simp only [s1, src]; split
      · exact MS_same ⟨rfl, rfl, rfl⟩ h
      · exact h
    have h2 : MS c (if s1.rs = .headers then readHeaders env app s1 else (s1, true)).1 := by
      split
      · exact readHeaders_MS happ h1
      · exact h1
    generalize (if s1.rs = .headers then readHeaders env app s1 else (s1, true)) = p at h2 ⊢
    obtain ⟨s3, go⟩ := p
    dsimp only at h2 ⊢
    split
    · exact h2
    · split
      · exact readDataSlot_MS happ h2
      · exact MS_same ⟨rfl, rfl, rfl⟩ h2
      · exact h2

theorem onBytesWritten_MS (happ : AppM app) (n : Int) (h : MS c s) :
    MS c (onBytesWritten env app s n) := by
  unfold onBytesWritten
  have h2 : MS c (if s.ws = .headers then
      if s.hdrRemaining - n > 0 then ({ s with hdrRemaining := s.hdrRemaining - n }, n)
      else ({ s with ws := .data }, n - s.hdrRemaining)
    else (s, n)).1 := by
    split
    · split <;> exact MS_same ⟨rfl, rfl, rfl⟩ h
    · exact h
  generalize (if s.ws = .headers then
      if s.hdrRemaining - n > 0 then ({ s with hdrRemaining := s.hdrRemaining - n }, n)
      else ({ s with ws := .data }, n - s.hdrRemaining)
    else (s, n)) = p at h2 ⊢
  obtain ⟨s3, b⟩ := p
  dsimp only at h2 ⊢
  split
  · exact emit_MS happ (.bw b) rfl rfl _ (happ.bw _) h2
  · exact h2

theorem onReadChannelFinished_MS (happ : AppM app) (h : MS c s) :
    MS c (onReadChannelFinished env app s) := by
  unfold onReadChannelFinished
  split
  · exact emit_MS happ .rcf rfl rfl _ (happ.rcf _) h
  · exact h

theorem ackN_MS (happ : AppM app) (n : Nat) (h : MS c s) : MS c (ackN env app s n) := by
  unfold ackN
  extract_lets n' src s2 s3
  split
  · exact h
  · have h3 : MS c s3 := onBytesWritten_MS happ _ (MS_same (s := s) ⟨rfl, rfl, rfl⟩ h)
    split
    · exact emitDc_MS happ (MS_same (s := s3) ⟨rfl, rfl, rfl⟩ h3)
    · exact h3

/-! ### events and the run -/

/-- what an event must look like when `c` holds before it: an API call from idle context does not
    fake a write, and writes the record only when `c` holds -/
def evOKM (c : Bool) : Event → Bool
  | .api op => nwOp op && (!markOp op || c)
  | _ => true

/-- the ghost flag after the event -/
def evC (c : Bool) : Event → Bool
  | .api op => c || closesOp op
  | _ => c

/-- the whole event list, from a state in which `c` holds -/
def evsFrom (c : Bool) : List Event → Bool
  | [] => true
  | e :: rest => evOKM c e && evsFrom (evC c e) rest

theorem step_MS (happ : AppM app) (e : Event) (he : evOKM c e = true) (h : MS c s) :
    MS (evC c e) (step env app s e) := by
  unfold step
  split
  · rename_i hal
    have hal' : s.alive = false := by simpa using hal
    unfold MS at h ⊢
    rw [hal'] at h ⊢
    exact MSf_dead h
  · cases e with
    | prebuf bs => exact MS_same (s := s) ⟨rfl, rfl, rfl⟩ h
    | new => exact MS_same (s := s) ⟨rfl, rfl, rfl⟩ h
    | feed seg => exact onReadyRead_MS happ (MS_same (s := s) ⟨rfl, rfl, rfl⟩ h)
    | ack n => exact ackN_MS happ n h
    | ackAll => exact ackN_MS happ _ h
    | peerClose =>
      dsimp only [evC]
      split
      · exact h
      · exact emitDc_MS happ (onReadChannelFinished_MS happ (MS_same (s := s) ⟨rfl, rfl, rfl⟩ h))
    | turn =>
      dsimp -zeta only [evC]
      extract_lets s2
      have h2 : MS c s2 := by
        simp only [s2]; split
        · exact onReadyRead_MS happ (MS_same (s := s) ⟨rfl, rfl, rfl⟩ h)
        · exact h
      split
      · show MSf c s2.tcp.devOpen false (s2.log ++ [.del])
        exact MSf_snoc .del rfl (fun x => by cases x) (MSf_dead h2)
      · exact h2
    | api op =>
      simp only [evOKM, Bool.and_eq_true, Bool.or_eq_true, Bool.not_eq_true'] at he
      refine api_MS happ he.1 (fun hm => ?_) h
      rcases he.2 with h' | h'
      · rw [hm] at h'; cases h'
      · exact h'

theorem stepK_MS (happ : AppM app) (k : Nat) (e : Event) (he : evOKM c e = true) (h : MS c s) :
    MS (evC c e) (stepK env app (s, k) e).1 := by
  unfold stepK
  dsimp only
  apply step_MS happ e he
  split
  · exact h
  · exact MS_note (.ev k) rfl (fun x => by cases x) h

theorem fold_MS (happ : AppM app) (evs : List Event) :
    ∀ (c : Bool) (s : Sock) (k : Nat), evsFrom c evs = true → MS c s →
      ∃ c', MS c' (evs.foldl (stepK env app) (s, k)).1 := by
  induction evs with
  | nil => intro c s k _ h; exact ⟨c, h⟩
  | cons e evs ih =>
    intro c s k hevs h
    simp only [evsFrom, Bool.and_eq_true] at hevs
    rw [List.foldl_cons]
    have h' := stepK_MS (env := env) happ k e hevs.1 h
    have e1 : stepK env app (s, k) e = ((stepK env app (s, k) e).1, k + 1) := by
      simp [stepK]
    rw [e1]
    exact ih _ _ _ hevs.2 h'

/-- at the end of every run: a record in the history means the transport's device is closed,
    and nothing was written after the first record -/
theorem run_MS (happ : AppM app) (evs : List Event) (hevs : evsFrom false evs = true) :
    ((Sock.run env app evs).log.any isMark = true → (Sock.run env app evs).tcp.devOpen = false) ∧
    wac (Sock.run env app evs).log = false := by
  unfold Sock.run
  obtain ⟨c', h⟩ := fold_MS (env := env) happ evs false {} 0 hevs MSf_init
  exact ⟨h.1, h.2.1⟩

/-- the invariant of C19Inv links the device flag to the count of `tc` -/
theorem KS_tc {ak : Nat → Nat → Nat} {q : Bool} {d m : Nat} (h : KS ak q d m s)
    (ho : s.tcp.devOpen = false) : countP isTc s.log = 1 := by
  have := h.1.2.1
  rw [ho] at this
  simpa using this

end Qhttp.C19L
