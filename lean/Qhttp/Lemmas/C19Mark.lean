import Qhttp.Lemmas.C19Step
/-
  C19, part 6: the application's own record "by now I have closed the HTTP socket" (`Obs.misc 50 _`,
  the `mark` of the scenario language) and what the history looks like around it.

  `wac l` ("wrote after the application's close", same body as `C19.wroteAfterAppClose`): some `w`
  follows the first such record.  The invariant `MS c`:
      a record in the history  →  the transport's device is closed
      wac s.log = false
      c = true  →  the Socket object is gone, or the transport's device is closed
  The ghost flag `c` is "an operation that closes the socket was issued earlier in the list of API
  calls that is being executed": a record may be written only when `c` holds.  A call on a Socket
  object that is gone records nothing; a closing call on a live one ends in `tcpClose`, which
  leaves the device closed; a closed device is never reopened, and `tcpWrite` reaches the wire only
  through an open device.

  The frame rule of C19Api speaks of all quiet notes, which include the record itself; it is
  restated here for notes that are neither `w` nor the record, over the three fields that matter
  (device flag, history, liveness of the Socket object).
-/
namespace Qhttp.C19L
open Qhttp Qhttp.Obs Qhttp.Sock

/-! ### histories -/

/-- the application's record (same body as `C19.isMark`) -/
def isMark : Obs → Bool | .misc 50 _ => true | _ => false

/-- some `w` from the first record on -/
def wac (l : List Obs) : Bool := (l.dropWhile (fun o => !isMark o)).any isW

theorem wac_nil : wac [] = false := rfl

theorem mark_notW {o : Obs} (h : isMark o = true) : isW o = false := by
  cases o <;> first | rfl | simp [isMark] at h

/-- appending an observation keeps `wac` false when it is not a write, or when the history has no
    record yet -/
theorem wac_snoc (l : List Obs) (o : Obs) (h : wac l = false)
    (ho : isW o = false ∨ l.any isMark = false) : wac (l ++ [o]) = false := by
  induction l with
  | nil =>
    cases hm : isMark o
    · simp [wac, hm]
    · simp [wac, hm, mark_notW hm]
  | cons x l ih =>
    by_cases hx : isMark x = true
    · have hw : isW o = false := by
        rcases ho with ho | ho
        · exact ho
        · simp [hx] at ho
      simp only [wac, List.cons_append, List.dropWhile_cons, hx, Bool.not_true,
        Bool.false_eq_true, ↓reduceIte] at h ⊢
      rw [← List.cons_append, List.any_append, h]
      simp [hw]
    · have hx' : isMark x = false := by simpa using hx
      have h' : wac l = false := by
        simpa [wac, List.dropWhile_cons, hx'] using h
      have ho' : isW o = false ∨ l.any isMark = false := by
        rcases ho with ho | ho
        · exact Or.inl ho
        · right; simpa [hx'] using ho
      have := ih h' ho'
      simpa [wac, List.dropWhile_cons, hx'] using this

/-! ### the invariant, over the fields it depends on -/

/-- `o` the transport's device flag, `a` the liveness of the Socket object, `l` the history -/
def MSf (c o a : Bool) (l : List Obs) : Prop :=
  (l.any isMark = true → o = false) ∧ wac l = false ∧ (c = true → a = false ∨ o = false)

def MS (c : Bool) (s : Sock) : Prop := MSf c s.tcp.devOpen s.alive s.log

theorem MSf_init : MSf false true true [] := ⟨by simp, rfl, by simp⟩

/-- an observation that is not a write; the record itself only over a closed device -/
theorem MSf_snoc {c o a : Bool} {l : List Obs} (x : Obs) (hw : isW x = false)
    (hm : isMark x = true → o = false) (h : MSf c o a l) : MSf c o a (l ++ [x]) := by
  obtain ⟨h1, h2, h3⟩ := h
  refine ⟨fun hx => ?_, wac_snoc l x h2 (Or.inl hw), h3⟩
  simp only [List.any_append, List.any_cons, List.any_nil, Bool.or_false, Bool.or_eq_true] at hx
  rcases hx with hx | hx
  · exact h1 hx
  · exact hm hx

/-- a write over an open device: the history has no record yet -/
theorem MSf_w {c a : Bool} {l : List Obs} (b : Bytes) (h : MSf c true a l) :
    MSf c true a (l ++ [.w b]) := by
  obtain ⟨h1, h2, h3⟩ := h
  have hn : l.any isMark = false := by
    cases hm : l.any isMark
    · rfl
    · exact absurd (h1 hm) (by decide)
  refine ⟨fun hx => ?_, wac_snoc l _ h2 (Or.inr hn), h3⟩
  simp [hn, isMark] at hx

/-- the device is closed -/
theorem MSf_shut {c c' o a : Bool} {l : List Obs} (h : MSf c o a l) : MSf c' false a l :=
  ⟨fun _ => rfl, h.2.1, fun _ => Or.inr rfl⟩

/-- the Socket object is gone -/
theorem MSf_dead {c c' o a : Bool} {l : List Obs} (h : MSf c o a l) : MSf c' o false l :=
  ⟨h.1, h.2.1, fun _ => Or.inl rfl⟩

theorem MSf_weaken {c c' o a : Bool} {l : List Obs} (h : MSf c' o a l)
    (hc : c = true → c' = true) : MSf c o a l :=
  ⟨h.1, h.2.1, fun x => h.2.2 (hc x)⟩

theorem MS_weaken {c c' : Bool} {s : Sock} (h : MS c' s) (hc : c = true → c' = true) : MS c s :=
  MSf_weaken h hc

/-! ### frame rule -/

/-- `s'` differs from `s` only in fields the invariant does not look at -/
structure Same3 (s s' : Sock) : Prop where
  o : s'.tcp.devOpen = s.tcp.devOpen
  l : s'.log = s.log
  a : s'.alive = s.alive

theorem Same3.refl (s : Sock) : Same3 s s := ⟨rfl, rfl, rfl⟩

theorem Same3.trans {a b c : Sock} (h1 : Same3 a b) (h2 : Same3 b c) : Same3 a c :=
  ⟨h2.o.trans h1.o, h2.l.trans h1.l, h2.a.trans h1.a⟩

structure ApiClosedM (P : Sock → Prop) : Prop where
  same : ∀ s s', Same3 s s' → P s → P s'
  tw : ∀ s b, P s → P (tcpWrite s b)
  tcl : ∀ s, P s → P (tcpClose s)
  note : ∀ s o, isW o = false → isMark o = false → P s → P { s with log := s.log ++ [o] }

/-- an API call that does not fake a write: every call except `note (.w _)` -/
def nwOp : ApiOp → Bool
  | .note o => !isW o
  | _ => true

/-- the application writes its record -/
def markOp : ApiOp → Bool
  | .note o => isMark o
  | _ => false

/-- the API calls that close the socket: `close`, `writeError`, `writeRedirect`, `writeJson` -/
def closesOp : ApiOp → Bool
  | .close => true
  | .err _ _ => true
  | .redir _ _ => true
  | .json _ _ => true
  | _ => false

section
variable {P : Sock → Prop} (hP : ApiClosedM P)
include hP

theorem setStatusCode_closedM {s : Sock} (c : Int) (r : Option Bytes) (h : P s) :
    P (setStatusCode s c r) :=
  hP.same s _ ⟨rfl, rfl, rfl⟩ h

theorem setHeader_closedM {s : Sock} (n v : Bytes) (r : Bool) (h : P s) :
    P (setHeader s n v r) := by
  unfold setHeader
  split <;> exact hP.same s _ ⟨rfl, rfl, rfl⟩ h

theorem writeHeaders_closedM {s : Sock} (h : P s) : P (writeHeaders s) := by
  unfold writeHeaders
  exact hP.tw _ _ (hP.same s _ ⟨rfl, rfl, rfl⟩ h)

theorem write_closedM {s : Sock} (b : Bytes) (h : P s) : P (write s b) := by
  unfold write
  split
  · exact h
  · apply hP.tw
    split
    · exact writeHeaders_closedM hP h
    · exact h

theorem close_closedM {s : Sock} (h : P s) : P (close s) := by
  unfold close
  exact hP.tcl _ (hP.same s _ ⟨rfl, rfl, rfl⟩ h)

theorem writeRedirect_closedM {s : Sock} (p : Bytes) (pm : Bool) (h : P s) :
    P (writeRedirect s p pm) := by
  unfold writeRedirect
  exact close_closedM hP (writeHeaders_closedM hP (setHeader_closedM hP _ _ _
    (setStatusCode_closedM hP _ _ h)))

theorem writeError_closedM (env : Env) {s : Sock} (c : Int) (r : Option Bytes) (h : P s) :
    P (writeError env s c r) := by
  unfold writeError
  exact close_closedM hP (write_closedM hP _ (writeHeaders_closedM hP (setHeader_closedM hP _ _ _
    (setHeader_closedM hP _ _ _ (setStatusCode_closedM hP _ _ h)))))

theorem writeJson_closedM {s : Sock} (b : Bytes) (c : Int) (h : P s) :
    P (writeJson s b c) := by
  unfold writeJson
  exact close_closedM hP (write_closedM hP _ (setHeader_closedM hP _ _ _
    (setHeader_closedM hP _ _ _ (setStatusCode_closedM hP _ _ h))))

end

theorem readData_same3 (s : Sock) (n : Nat) : Same3 s (readData s n).1 := by
  unfold Sock.readData
  split
  · exact Same3.refl s
  · exact ⟨rfl, rfl, rfl⟩

theorem read_same3 (s : Sock) (n : Nat) : Same3 s (read s n).1 := by
  unfold Sock.read
  split
  · exact Same3.refl s
  · dsimp only
    split
    · exact ⟨rfl, rfl, rfl⟩
    · have h0 : Same3 s { s with qio := s.qio.drop n } := ⟨rfl, rfl, rfl⟩
      split
      · exact h0.trans (readData_same3 _ _)
      · have h1 := h0.trans (readData_same3 { s with qio := s.qio.drop n } chunk)
        exact ⟨h1.o, h1.l, h1.a⟩

theorem readAll_same3 (s : Sock) : Same3 s (readAll s).1 := by
  unfold Sock.readAll
  split
  · exact Same3.refl s
  · have h0 : Same3 s { s with qio := [] } := ⟨rfl, rfl, rfl⟩
    exact h0.trans (readData_same3 _ _)

theorem rd_notMark (b : Bytes) : isMark (.rd b) = false := rfl

/-- the frame rule: an API call that is neither a faked write nor the record preserves every
    `ApiClosedM` predicate -/
theorem apiPrim_closedM {P : Sock → Prop} (hP : ApiClosedM P) (env : Env) {s : Sock} {op : ApiOp}
    (hq : nwOp op = true) (hm : markOp op = false) (h : P s) : P (apiPrim env s op) := by
  unfold apiPrim
  split
  · exact h
  · cases op with
    | read n => exact hP.note _ _ rfl rfl (hP.same _ _ (read_same3 s n) h)
    | readAll => exact hP.note _ _ rfl rfl (hP.same _ _ (readAll_same3 s) h)
    | avail => exact hP.note _ _ rfl rfl h
    | snap => exact hP.note _ _ rfl rfl h
    | status c r => exact setStatusCode_closedM hP _ _ h
    | hdr n v r => exact setHeader_closedM hP _ _ _ h
    | hdrs m => exact hP.same s _ ⟨rfl, rfl, rfl⟩ h
    | wh => exact writeHeaders_closedM hP h
    | write bs => exact write_closedM hP _ h
    | err c r => exact writeError_closedM hP env _ _ h
    | redir p pm => exact writeRedirect_closedM hP _ _ h
    | json bd c => exact writeJson_closedM hP _ _ h
    | close => exact close_closedM hP h
    | note o => exact hP.note _ _ (by simpa [nwOp] using hq) hm h

/-! ### the invariant is closed under the generators -/

theorem tcpClose_facts (s : Sock) :
    (tcpClose s).alive = s.alive ∧ (tcpClose s).tcp.devOpen = false ∧
    ((tcpClose s).log = s.log ∨ (tcpClose s).log = s.log ++ [.tc]) := by
  unfold tcpClose
  split
  · rename_i ho
    exact ⟨rfl, by simpa using ho, Or.inl rfl⟩
  · dsimp only
    split
    · split <;> exact ⟨rfl, rfl, Or.inr rfl⟩
    · exact ⟨rfl, rfl, Or.inr rfl⟩

theorem MS_same {c : Bool} {s s' : Sock} (hs : Same3 s s') (h : MS c s) : MS c s' := by
  unfold MS at *
  rw [hs.o, hs.l, hs.a]
  exact h

theorem MS_tcpWrite {c : Bool} {s : Sock} (b : Bytes) (h : MS c s) : MS c (tcpWrite s b) := by
  unfold tcpWrite
  split
  · rename_i hc
    simp only [Bool.and_eq_true, beq_iff_eq] at hc
    obtain ⟨⟨ho, _⟩, _⟩ := hc
    unfold MS at *
    show MSf c s.tcp.devOpen s.alive (s.log ++ [.w b])
    rw [ho] at h ⊢
    exact MSf_w b h
  · exact h

theorem MS_tcpClose {c c' : Bool} {s : Sock} (h : MS c s) : MS c' (tcpClose s) := by
  obtain ⟨ha, ho, hl⟩ := tcpClose_facts s
  unfold MS at *
  rw [ha, ho]
  rcases hl with e | e <;> rw [e]
  · exact MSf_shut h
  · exact MSf_snoc .tc rfl (fun _ => rfl) (MSf_shut h)

theorem MS_note {c : Bool} {s : Sock} (o : Obs) (hw : isW o = false)
    (hm : isMark o = true → s.tcp.devOpen = false) (h : MS c s) :
    MS c { s with log := s.log ++ [o] } :=
  MSf_snoc o hw hm h

theorem MS_closed (c : Bool) : ApiClosedM (MS c) where
  same := fun _ _ hs h => MS_same hs h
  tw := fun _ b h => MS_tcpWrite b h
  tcl := fun _ h => MS_tcpClose h
  note := fun _ o hw hm h => MS_note o hw (fun x => by rw [hm] at x; cases x) h

/-! ### a closing call leaves the device closed -/

theorem close_devOpen (s : Sock) : (close s).tcp.devOpen = false := by
  unfold close
  exact (tcpClose_facts _).2.1

theorem closes_devOpen (env : Env) {s : Sock} {op : ApiOp} (hal : s.alive = true)
    (hc : closesOp op = true) : (apiPrim env s op).tcp.devOpen = false := by
  unfold apiPrim
  simp only [hal, Bool.not_true, Bool.false_eq_true, ↓reduceIte]
  cases op <;> simp only [closesOp, Bool.false_eq_true] at hc
  · unfold writeError; exact close_devOpen _
  · unfold writeRedirect; exact close_devOpen _
  · unfold writeJson; exact close_devOpen _
  · exact close_devOpen _

theorem apiPrim_dead (env : Env) {s : Sock} (op : ApiOp) (hal : s.alive = false) :
    apiPrim env s op = s := by
  unfold apiPrim
  simp [hal]

theorem markOp_note {op : ApiOp} (h : markOp op = true) : ∃ o, op = .note o ∧ isMark o = true := by
  cases op <;> simp only [markOp, Bool.false_eq_true] at h
  exact ⟨_, rfl, h⟩

theorem markOp_closes {op : ApiOp} (h : markOp op = true) : closesOp op = false := by
  obtain ⟨o, rfl, _⟩ := markOp_note h
  rfl

/-! ### lists of API calls -/

/-- every record in the list has a closing call somewhere before it in the same list
    (`c`: one was issued before the list started) -/
def marksFrom (c : Bool) : List ApiOp → Bool
  | [] => true
  | op :: rest => (!markOp op || c) && marksFrom (c || closesOp op) rest

theorem marksFrom_mono {c c' : Bool} (hc : c = true → c' = true) (ops : List ApiOp)
    (h : marksFrom c ops = true) : marksFrom c' ops = true := by
  induction ops generalizing c c' with
  | nil => rfl
  | cons op ops ih =>
    simp only [marksFrom, Bool.and_eq_true, Bool.or_eq_true, Bool.not_eq_true'] at h ⊢
    refine ⟨?_, ih ?_ h.2⟩
    · rcases h.1 with h1 | h1
      · exact Or.inl h1
      · exact Or.inr (hc h1)
    · intro hx
      simp only [Bool.or_eq_true] at hx ⊢
      rcases hx with hx | hx
      · exact Or.inl (hc hx)
      · exact Or.inr hx

/-- one API call: a record needs `c`; a closing call establishes it -/
theorem apiPrim_MS (env : Env) {c : Bool} {s : Sock} {op : ApiOp} (hq : nwOp op = true)
    (hm : markOp op = true → c = true) (h : MS c s) :
    MS (c || closesOp op) (apiPrim env s op) := by
  by_cases hal : s.alive = true
  · by_cases hmk : markOp op = true
    · obtain ⟨o, rfl, ho⟩ := markOp_note hmk
      have hc := hm hmk
      subst hc
      have hd : s.tcp.devOpen = false := by
        rcases h.2.2 rfl with h' | h'
        · rw [hal] at h'; cases h'
        · exact h'
      unfold apiPrim
      rw [if_neg (by rw [hal]; decide)]
      simp only [closesOp, Bool.or_false]
      exact MS_note o (mark_notW ho) (fun _ => hd) h
    · have hmk' : markOp op = false := by simpa using hmk
      have h1 : MS c (apiPrim env s op) := apiPrim_closedM (MS_closed c) env hq hmk' h
      refine ⟨h1.1, h1.2.1, fun hx => ?_⟩
      simp only [Bool.or_eq_true] at hx
      rcases hx with hx | hx
      · exact h1.2.2 hx
      · exact Or.inr (closes_devOpen env hal hx)
  · have hal' : s.alive = false := by simpa using hal
    rw [apiPrim_dead env op hal']
    unfold MS at h ⊢
    rw [hal'] at h ⊢
    exact MSf_dead h

/-- what a list of API calls must look like: no faked write, records after a closing call -/
def okFrom (c : Bool) (ops : List ApiOp) : Bool := ops.all nwOp && marksFrom c ops

theorem okFrom_cons {c : Bool} {op : ApiOp} {ops : List ApiOp} (h : okFrom c (op :: ops) = true) :
    nwOp op = true ∧ (markOp op = true → c = true) ∧ okFrom (c || closesOp op) ops = true := by
  simp only [okFrom, List.all_cons, marksFrom, Bool.and_eq_true, Bool.or_eq_true,
    Bool.not_eq_true'] at h ⊢
  obtain ⟨⟨h1, h2⟩, h3, h4⟩ := h
  refine ⟨h1, fun hm => ?_, h2, h4⟩
  rcases h3 with h3 | h3
  · rw [hm] at h3; cases h3
  · exact h3

theorem okFrom_mono {c c' : Bool} (hc : c = true → c' = true) {ops : List ApiOp}
    (h : okFrom c ops = true) : okFrom c' ops = true := by
  simp only [okFrom, Bool.and_eq_true] at h ⊢
  exact ⟨h.1, marksFrom_mono hc ops h.2⟩

theorem foldl_apiPrim_MS (env : Env) (ops : List ApiOp) {c : Bool} {s : Sock}
    (hok : okFrom c ops = true) (h : MS c s) : MS c (ops.foldl (apiPrim env) s) := by
  induction ops generalizing c s with
  | nil => exact h
  | cons op ops ih =>
    obtain ⟨h1, h2, h3⟩ := okFrom_cons hok
    rw [List.foldl_cons]
    exact MS_weaken (ih h3 (apiPrim_MS env h1 h2 h)) (fun x => by simp [x])

/-! ### signals -/

/-- what the invariant needs from the application: in every reaction no faked write, and every
    record after a closing call of the same reaction -/
structure AppM (app : App) : Prop where
  hp  : ∀ s, okFrom false (app.onHp s) = true
  rr  : ∀ s, okFrom false (app.onRr s) = true
  rcf : ∀ s, okFrom false (app.onRcf s) = true
  bw  : ∀ s, okFrom false (app.onBw s) = true
  dc  : ∀ s, okFrom false (app.onDc s) = true

variable {env : Env} {app : App} {c : Bool} {s : Sock}

theorem emitDc_MS (happ : AppM app) (h : MS c s) : MS c (emitDc env app s) := by
  unfold emitDc
  dsimp only
  have h1 : MS c { s with dcFlag := false, log := s.log ++ [.dc] } :=
    MSf_snoc .dc rfl (fun x => by cases x) h
  have h3 := foldl_apiPrim_MS env
    (app.onDc { s with dcFlag := false, log := s.log ++ [.dc] })
    (okFrom_mono (c' := c) (fun x => by cases x) (happ.dc _)) h1
  generalize List.foldl (apiPrim env) _ _ = s2 at h3 ⊢
  exact h3

theorem fin_MS (happ : AppM app) (h : MS c s) :
    MS c (if s.dcFlag = true then emitDc env app s else s) := by
  split
  · exact emitDc_MS happ h
  · exact h

theorem api_MS (happ : AppM app) {op : ApiOp} (hq : nwOp op = true)
    (hm : markOp op = true → c = true) (h : MS c s) :
    MS (c || closesOp op) (api env app s op) := by
  unfold api
  exact fin_MS happ (apiPrim_MS env hq hm h)

theorem apis_MS (happ : AppM app) (ops : List ApiOp) (hok : okFrom c ops = true) (h : MS c s) :
    MS c (apis env app s ops) := by
  unfold apis
  induction ops generalizing c s with
  | nil => exact h
  | cons op ops ih =>
    obtain ⟨h1, h2, h3⟩ := okFrom_cons hok
    rw [List.foldl_cons]
    exact MS_weaken (ih h3 (api_MS happ h1 h2 h)) (fun x => by simp [x])

/-- a signal of the Socket and the reaction connected to it -/
theorem emit_MS (happ : AppM app) (o : Obs) (hw : isW o = false) (hm : isMark o = false)
    (ops : List ApiOp) (hok : okFrom false ops = true) (h : MS c s) :
    MS c (emit env app s o ops) := by
  unfold emit
  refine apis_MS happ ops (okFrom_mono (fun x => by cases x) hok) ?_
  exact MS_note o hw (fun x => by rw [hm] at x; cases x) h

end Qhttp.C19L
