import Qhttp.Lemmas.C13Relay
import Qhttp.Lemmas.HttpRender
import Qhttp.Lemmas.C04Wire
import Qhttp.Lemmas.ProxyHead
/-
  C13: what the strict reader `Http.parse` makes of the bytes the proxy writes: the relayed
  response and the 502.
-/
namespace Qhttp.C13L
open Qhttp Qhttp.Sock Qhttp.Proxy

/-! ### the relayed response -/

theorem headOut_eq (code : Int) (reason : Bytes) (hs : HeaderMap) :
    headOut code reason hs =
      (Http.HTTP10 ++ intText code ++ [SP] ++ reason) ++ CRLF ++ Sock.headerLines hs ++ CRLF := rfl

theorem intText_CR {code : Int} (hc : 0 ≤ code) : CR ∉ intText code := by
  rw [HB.intText_of_nonneg hc]; exact HB.natDigits_not_mem _ (Or.inl (by decide))

/-- **the relayed response re-parses**: start line with the upstream's code and reason, the
    header map entry by entry, the body untouched -/
theorem parse_relayed {code : Int} {reason : Bytes} {hs : HeaderMap} (body : Bytes)
    (hc : 0 ≤ code) (hr : CR ∉ reason) (hw : C03L.HdrWf hs) :
    Http.parse (headOut code reason hs ++ body) =
      some { start := Http.HTTP10 ++ intText code ++ [SP] ++ reason, headers := hs, body := body } ∧
    Http.statusLine (Http.HTTP10 ++ intText code ++ [SP] ++ reason) =
      some { code := code.natAbs, reason := reason } := by
  refine ⟨?_, Http.statusLine_intText hc reason⟩
  rw [headOut_eq]
  apply Http.parse_render _ _ _ _ hw
  simp only [List.mem_append, not_or]
  exact ⟨⟨⟨by decide, intText_CR hc⟩, by decide⟩, hr⟩

/-- what `C13.holds` checks of the client's wire in the relayed case -/
def relayCheck (wire : Bytes) (code : Int) (reason body : Bytes) (pairs : List (Bytes × Bytes)) : Bool :=
  match Http.parse wire with
  | none => false
  | some m =>
    (match Http.statusLine m.start with
     | some st => (st.code : Int) == code && st.reason == reason
     | none => false) &&
    m.body == body &&
    (Http.names m.headers).all (fun n => pairs.any fun h => lower h.1 == n) &&
    pairs.all (fun h => C12.vals h.1 m.headers == C12.vals h.1 pairs)

/-- a `name: value` pair without CR in name or value: the side condition of the CR-free lemmas
    `hdrWf_mapOf`/`relayCheck_relayed` below.  (That the name is not empty and has no ':' need not be
    asked: `specHead`, like the library's parser, refuses lines with a blank name,
    `nameOk_of_specHead'`.)  The run theorem `C13.holds_run` no longer needs it: see the general
    forms `parse_relayed_w`, `resp_parts_ok`, `relayCheck_relayed_w` at the end of this file. -/
def pairOk (e : Bytes × Bytes) : Bool := !containsByte CR e.1 && !containsByte CR e.2

theorem nameOk_of_headerPairs' (lines : List Bytes) : ∀ {pairs : List (Bytes × Bytes)},
    headerPairs' lines = some pairs → ∀ e ∈ pairs, ProxyL.NameOk e := by
  induction lines with
  | nil => intro pairs h e he; cases h; cases he
  | cons l ls ih =>
    intro pairs h e he
    rw [headerPairs'_cons] at h
    cases h1 : headerPairs' ls with
    | none => rw [h1] at h; cases h
    | some ps =>
      cases h2 : breakOn [COLON] l with
      | none => rw [h1, h2] at h; cases h
      | some p =>
        obtain ⟨n, v⟩ := p
        rw [h1, h2] at h
        simp only at h
        cases hemp : (trim n).isEmpty with
        | true => rw [hemp] at h; simp at h
        | false =>
          rw [hemp] at h
          simp only [Bool.false_eq_true, if_false, Option.some.injEq] at h
          subst h
          rcases List.mem_cons.mp he with rfl | he
          · refine ⟨fun c => ?_, fun hc => breakOn_singleton_not_mem h2 (ProxyL.mem_of_mem_trim hc)⟩
            simp only at c
            rw [c] at hemp
            cases hemp
          · exact ih h1 e he

/-- every pair `specHead` reads has a non-empty name without ':' -/
theorem nameOk_of_specHead' {head : Bytes} {code : Int} {reason : Bytes} {pairs : List (Bytes × Bytes)}
    (h : specHead' head = some (code, reason, pairs)) : ∀ e ∈ pairs, ProxyL.NameOk e := by
  unfold specHead' at h
  split at h
  · cases h
  · rename_i first lines _
    split at h
    · dsimp only at h
      split at h
      · cases hp : headerPairs' lines with
        | none => rw [hp] at h; cases h
        | some ps =>
          rw [hp] at h
          simp only [Option.map_some, Option.some.injEq, Prod.mk.injEq] at h
          obtain ⟨_, _, rfl⟩ := h
          exact nameOk_of_headerPairs' lines hp
      · cases h
    · cases h

theorem code_range_of_specHead' {head : Bytes} {code : Int} {reason : Bytes} {pairs : List (Bytes × Bytes)}
    (h : specHead' head = some (code, reason, pairs)) : 100 ≤ code ∧ code ≤ 599 := by
  unfold specHead' at h
  split at h
  · cases h
  · rename_i first lines _
    split at h
    · dsimp only at h
      split at h
      · rename_i hc
        cases hp : headerPairs' lines with
        | none => rw [hp] at h; cases h
        | some ps =>
          rw [hp] at h
          simp only [Option.map_some, Option.some.injEq, Prod.mk.injEq] at h
          obtain ⟨rfl, _, _⟩ := h
          simpa using hc
      · cases h
    · cases h

theorem hdrWf_mapOf {pairs : List (Bytes × Bytes)} (hc : ∀ e ∈ pairs, ProxyL.NameOk e)
    (hok : pairs.all pairOk = true) : C03L.HdrWf (mapOf pairs) := by
  intro e he
  have hm := mem_mapOf.mp he
  have h1 := List.all_eq_true.mp hok e hm
  simp only [pairOk, Bool.and_eq_true, Bool.not_eq_true', Http.containsByte_eq_false] at h1
  exact ⟨(hc e hm).1, (hc e hm).2, h1.1, h1.2⟩

/-- the relayed wire passes the check of `C13.holds` -/
theorem relayCheck_relayed {code : Int} {reason : Bytes} {pairs : List (Bytes × Bytes)} (body : Bytes)
    (hc : 0 ≤ code) (hr : CR ∉ reason) (hw : C03L.HdrWf (mapOf pairs)) :
    relayCheck (headOut code reason (mapOf pairs) ++ body) code reason body pairs = true := by
  obtain ⟨h1, h2⟩ := parse_relayed body hc hr hw
  unfold relayCheck
  rw [h1]
  simp only [h2]
  have e : ((code.natAbs : Nat) : Int) = code := Int.natAbs_of_nonneg hc
  simp only [e, beq_self_eq_true, Bool.and_self, Bool.true_and, names_mapOf,
    List.all_eq_true, beq_iff_eq]
  intro h _
  exact vals_mapOf h.1 pairs

/-! ### the 502 -/

theorem errHeaders_nil (d : Bytes) :
    C09L.errHeaders [] d = [(CONTENT_LENGTH, d), (CONTENT_TYPE, TEXT_HTML)] := by
  have k3 : HeaderMap.keyEq CONTENT_LENGTH CONTENT_TYPE = false := by decide
  have k5 : HeaderMap.keyLt CONTENT_LENGTH CONTENT_TYPE = true := by decide
  simp [C09L.errHeaders, HeaderMap.remove, HeaderMap.insert, List.filter, k3, k5]

def msg502 (env : Env) : Http.Msg :=
  { start := C09L.errStart 502,
    headers := [(CONTENT_LENGTH, natDigits (C09L.errBody env 502).length), (CONTENT_TYPE, TEXT_HTML)],
    body := C09L.errBody env 502 }

theorem parse_502 (env : Env) : Http.parse (err502 env []) = some (msg502 env) := by
  unfold err502 errBytes
  rw [errHeaders_nil]
  apply Http.parse_render
  · decide
  · intro e he
    simp only [List.mem_cons, List.not_mem_nil, or_false] at he
    rcases he with rfl | rfl
    · exact ⟨(by decide : CONTENT_LENGTH ≠ []), (by decide : COLON ∉ CONTENT_LENGTH),
        (by decide : CR ∉ CONTENT_LENGTH), HB.natDigits_not_mem _ (Or.inl (by decide))⟩
    · exact ⟨(by decide : CONTENT_TYPE ≠ []), (by decide : COLON ∉ CONTENT_TYPE),
        (by decide : CR ∉ CONTENT_TYPE), (by decide : CR ∉ TEXT_HTML)⟩

theorem statusLine_502 :
    Http.statusLine (C09L.errStart 502) =
      some { code := 502, reason := lit ['B','A','D',' ','G','A','T','E','W','A','Y'] } := by decide

/-- `C13.is502Only` (same text; Props/C13 imports this file) -/
def is502Only' (wire : Bytes) : Bool :=
  match Http.parse wire with
  | some m =>
    (Http.statusLine m.start).map (·.code) == some 502 &&
    Http.valuesOf Sock.CONTENT_LENGTH m.headers == [natDigits m.body.length]
  | none => false

/-- **7d**: the 502 written on a socket whose header map was empty is exactly one 502 response -/
theorem is502Only_err502 (env : Env) : is502Only' (err502 env []) = true := by
  unfold is502Only'
  rw [parse_502]
  simp only [msg502, statusLine_502, Option.map_some]
  rw [C04L.valuesOf_cl _ (HB.natDigits_all_isDigit _)]
  simp

/-! ### the general form: nothing is asked of the upstream head -/

theorem startOut_noCRLF {code : Int} {reason : Bytes} (hc : 0 ≤ code) (hr : ¬ CRLF <:+: reason) :
    ¬ CRLF <:+: Http.HTTP10 ++ intText code ++ [SP] ++ reason := by
  have h1 : ¬ CRLF <:+: Http.HTTP10 ++ intText code := by
    apply ProxyL.noCRLF_of_CR
    simp only [List.mem_append, not_or]
    exact ⟨by decide, intText_CR hc⟩
  exact not_infix_append_sep h1 hr (by decide)

/-- **the relayed response re-parses**, general form: the reason and the header entries need only
    be free of CR LF -/
theorem parse_relayed_w {code : Int} {reason : Bytes} {hs : HeaderMap} (body : Bytes)
    (hc : 0 ≤ code) (hr : ¬ CRLF <:+: reason) (hw : ProxyL.HdrW hs) :
    Http.parse (headOut code reason hs ++ body) =
      some { start := Http.HTTP10 ++ intText code ++ [SP] ++ reason, headers := hs, body := body } ∧
    Http.statusLine (Http.HTTP10 ++ intText code ++ [SP] ++ reason) =
      some { code := code.natAbs, reason := reason } := by
  refine ⟨?_, Http.statusLine_intText hc reason⟩
  rw [headOut_eq]
  exact Http.parse_render_w _ _ _ (by simp [Http.HTTP10, lit]) (startOut_noCRLF hc hr) hw

/-- what `Parser::parseResponseHeaders` returns is fit for re-reading, whatever the upstream
    server sent: the reason has no CR LF (it is part of a line), the header map is `HdrW` -/
theorem resp_parts_ok {head reason : Bytes} {code : Int} {m : HeaderMap}
    (h : Parser.parseResponseHeaders head = some (code, reason, m)) :
    ¬ CRLF <:+: reason ∧ ProxyL.HdrW m ∧ 100 ≤ code ∧ code ≤ 599 := by
  unfold Parser.parseResponseHeaders at h
  split at h
  · cases h
  · rename_i p0 p1 p2 m' hp
    simp only at h
    split at h
    · rename_i hc
      simp only [Option.some.injEq, Prod.mk.injEq] at h
      obtain ⟨rfl, rfl, rfl⟩ := h
      obtain ⟨hs, _, _, hf, hl, hpl, _⟩ := (Parser.parseHeaders_eq_some_iff _ _ _ _ _ _).1 hp
      refine ⟨ProxyL.noCRLF_of_infix hf ⟨p0 ++ [SP] ++ p1 ++ [SP], [], by simp⟩,
        ProxyL.hdrW_of_parseHeaderList hpl (fun e he => by cases he) hl, ?_⟩
      simpa using hc
    · cases h

/-- the relayed wire passes the check of `C13.holds` (general form) -/
theorem relayCheck_relayed_w {code : Int} {reason : Bytes} {pairs : List (Bytes × Bytes)} (body : Bytes)
    (hc : 0 ≤ code) (hr : ¬ CRLF <:+: reason) (hw : ProxyL.HdrW (mapOf pairs)) :
    relayCheck (headOut code reason (mapOf pairs) ++ body) code reason body pairs = true := by
  obtain ⟨h1, h2⟩ := parse_relayed_w body hc hr hw
  unfold relayCheck
  rw [h1]
  simp only [h2]
  have e : ((code.natAbs : Nat) : Int) = code := Int.natAbs_of_nonneg hc
  simp only [e, beq_self_eq_true, Bool.and_self, Bool.true_and, names_mapOf,
    List.all_eq_true, beq_iff_eq]
  intro h _
  exact vals_mapOf h.1 pairs

end Qhttp.C13L
