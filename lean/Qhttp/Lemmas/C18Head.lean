import Qhttp.Model.Socket
/-
  C18, part 1: the first blank line of a response head built from CR-free pieces is its last
  four bytes (so `breakOn CRLF2` on the wire measures exactly the head), and the response-side
  setters keep the pieces CR-free under the documented preconditions.
-/
namespace Qhttp
namespace C18L

/-- no carriage return in the byte string -/
def noCR (x : Bytes) : Bool := x.all (fun c => c != 13)

@[simp] theorem noCR_nil : noCR [] = true := rfl
@[simp] theorem noCR_cons (c : UInt8) (x : Bytes) : noCR (c :: x) = (c != 13 && noCR x) := by
  simp [noCR]
@[simp] theorem noCR_append (x y : Bytes) : noCR (x ++ y) = (noCR x && noCR y) := by
  simp [noCR]

theorem isPrefixOf_cr_cons (t x : Bytes) (c : UInt8) (hc : c ≠ 13) :
    List.isPrefixOf (13 :: t) (c :: x) = false := by
  simp [List.isPrefixOf, Ne.symm hc]

theorem breakOn_cons_ne (t x : Bytes) (c : UInt8) (hc : c ≠ 13) :
    breakOn (13 :: t) (c :: x) = (breakOn (13 :: t) x).map (fun p => (c :: p.1, p.2)) := by
  rw [breakOn, isPrefixOf_cr_cons t x c hc]
  cases breakOn (13 :: t) x <;> simp

/-- skipping a CR-free stretch -/
theorem breakOn_skip (t : Bytes) (a r : Bytes) (ha : noCR a = true) :
    breakOn (13 :: t) (a ++ r) = (breakOn (13 :: t) r).map (fun p => (a ++ p.1, p.2)) := by
  induction a with
  | nil => simp
  | cons c a ih =>
    simp only [noCR_cons, Bool.and_eq_true, bne_iff_ne, ne_eq] at ha
    rw [List.cons_append, breakOn_cons_ne t _ c ha.1, ih ha.2]
    cases breakOn (13 :: t) r <;> simp

/-- the first occurrence does not move when bytes are appended -/
theorem breakOn_append (d xs ys a r : Bytes) (h : breakOn d xs = some (a, r)) :
    breakOn d (xs ++ ys) = some (a, r ++ ys) := by
  induction xs generalizing a r with
  | nil =>
    unfold breakOn at h
    split at h
    · rename_i hp
      have : d = [] := by cases d <;> simp_all [List.isPrefixOf]
      subst this
      simp at h
      obtain ⟨rfl, rfl⟩ := h
      unfold breakOn
      simp [List.isPrefixOf]
    · simp at h
  | cons x xs ih =>
    unfold breakOn at h
    split at h
    · rename_i hp
      simp only [Option.some.injEq, Prod.mk.injEq] at h
      obtain ⟨rfl, rfl⟩ := h
      have hp' : d.isPrefixOf (x :: xs ++ ys) = true := by
        rw [List.isPrefixOf_iff_prefix] at hp ⊢
        exact List.IsPrefix.trans hp (List.prefix_append _ _)
      rw [List.cons_append] at hp' ⊢
      rw [breakOn, if_pos hp']
      have hl : d.length ≤ (x :: xs).length := (List.isPrefixOf_iff_prefix.mp hp).length_le
      rw [← List.cons_append, List.drop_append_of_le_length hl]
    · rename_i hp
      cases hb : breakOn d xs with
      | none => simp [hb] at h
      | some p =>
        obtain ⟨a', r'⟩ := p
        simp only [hb, Option.some.injEq, Prod.mk.injEq] at h
        obtain ⟨rfl, rfl⟩ := h
        -- `d` occurs in `xs`, so it is no longer than `xs`; a prefix of the longer list that short
        -- is a prefix of `x :: xs`
        have hlen : d.length ≤ xs.length := by
          clear ih hp
          induction xs generalizing a' r' with
          | nil =>
            unfold breakOn at hb
            split at hb
            · rename_i hp; cases d <;> simp_all [List.isPrefixOf]
            · simp at hb
          | cons y ys' ih2 =>
            unfold breakOn at hb
            split at hb
            · rename_i hp; exact (List.isPrefixOf_iff_prefix.mp hp).length_le
            · cases hb2 : breakOn d ys' with
              | none => simp [hb2] at hb
              | some q => have := ih2 q.1 q.2 hb2; simp; omega
        have hnp : d.isPrefixOf (x :: xs ++ ys) = false := by
          rw [Bool.eq_false_iff]
          intro hcon
          apply hp
          rw [List.isPrefixOf_iff_prefix] at hcon ⊢
          exact List.prefix_of_prefix_length_le hcon (List.prefix_append _ _) (by simp; omega)
        rw [List.cons_append] at hnp ⊢
        rw [breakOn, if_neg (by rw [hnp]; simp)]
        simp [ih a' r' hb]


theorem breakOn_length (d xs a r : Bytes) (h : breakOn d xs = some (a, r)) :
    a.length + d.length + r.length = xs.length := by
  induction xs generalizing a r with
  | nil =>
    unfold breakOn at h
    split at h
    · rename_i hp
      have : d = [] := by cases d <;> simp_all [List.isPrefixOf]
      subst this
      simp at h
      obtain ⟨rfl, rfl⟩ := h
      rfl
    · simp at h
  | cons x xs ih =>
    unfold breakOn at h
    split at h
    · rename_i hp
      simp only [Option.some.injEq, Prod.mk.injEq] at h
      obtain ⟨rfl, rfl⟩ := h
      have hl : d.length ≤ (x :: xs).length := (List.isPrefixOf_iff_prefix.mp hp).length_le
      simp only [List.length_nil, List.length_drop, Nat.zero_add]
      omega
    · cases hb : breakOn d xs with
      | none => simp [hb] at h
      | some p =>
        obtain ⟨a', r'⟩ := p
        simp only [hb, Option.some.injEq, Prod.mk.injEq] at h
        obtain ⟨rfl, rfl⟩ := h
        have := ih a' r' hb
        simp only [List.length_cons]
        omega

/-! ### the response head -/

theorem breakOn_crlf_ne (c : UInt8) (x : Bytes) (hc : c ≠ 13) :
    breakOn CRLF2 (13 :: 10 :: c :: x)
      = (breakOn CRLF2 (c :: x)).map (fun p => (13 :: 10 :: p.1, p.2)) := by
  have h1 : List.isPrefixOf CRLF2 (13 :: 10 :: c :: x) = false := by
    simp [CRLF2, List.isPrefixOf, Ne.symm hc]
  rw [breakOn, h1]
  have h2 := breakOn_cons_ne [10, 13, 10] (c :: x) 10 (by decide)
  simp only [CRLF2] at h2 ⊢
  rw [h2]
  cases breakOn [13, 10, 13, 10] (c :: x) <;> simp

/-- every entry CR-free -/
def cleanMap (m : HeaderMap) : Bool := m.all (fun e => noCR e.1 && noCR e.2)

/-- after a line end, the header lines and the closing blank line: the first blank line is the
    closing one -/
theorem breakOn_lines (hs : HeaderMap) (hc : cleanMap hs = true) (rest : Bytes) :
    ∃ a, breakOn CRLF2 (13 :: 10 :: (Sock.headerLines hs ++ (13 :: 10 :: rest))) = some (a, rest) ∧
         a.length = (Sock.headerLines hs).length := by
  induction hs with
  | nil =>
    refine ⟨[], ?_, rfl⟩
    simp [Sock.headerLines, breakOn, CRLF2, List.isPrefixOf]
  | cons e tl ih =>
    obtain ⟨k, v⟩ := e
    simp only [cleanMap, List.all_cons, Bool.and_eq_true] at hc
    obtain ⟨a, ha, hl⟩ := ih (by simpa [cleanMap] using hc.2)
    have hline : noCR (k ++ [COLON, SP] ++ v) = true := by
      simp [hc.1.1, hc.1.2, COLON, SP]
    -- the line starts with a byte that is not CR
    have hne : ∃ c x, k ++ [COLON, SP] ++ v = c :: x ∧ c ≠ 13 := by
      cases k with
      | nil => exact ⟨COLON, SP :: v, rfl, by decide⟩
      | cons c k' =>
        refine ⟨c, k' ++ [COLON, SP] ++ v, by simp, ?_⟩
        have := hc.1.1
        simp only [noCR_cons, Bool.and_eq_true, bne_iff_ne, ne_eq] at this
        exact this.1
    obtain ⟨c, x, hcx, hc13⟩ := hne
    have hshape : Sock.headerLines ((k, v) :: tl) ++ (13 :: 10 :: rest)
        = (k ++ [COLON, SP] ++ v) ++ (13 :: 10 :: (Sock.headerLines tl ++ (13 :: 10 :: rest))) := by
      simp [Sock.headerLines, CRLF]
    refine ⟨13 :: 10 :: ((k ++ [COLON, SP] ++ v) ++ a), ?_, ?_⟩
    · rw [hshape]
      have : (k ++ [COLON, SP] ++ v) ++ (13 :: 10 :: (Sock.headerLines tl ++ (13 :: 10 :: rest)))
          = c :: (x ++ (13 :: 10 :: (Sock.headerLines tl ++ (13 :: 10 :: rest)))) := by
        rw [hcx]; rfl
      rw [this, breakOn_crlf_ne c _ hc13, ← this]
      have := breakOn_skip [10, 13, 10] (k ++ [COLON, SP] ++ v)
        (13 :: 10 :: (Sock.headerLines tl ++ (13 :: 10 :: rest))) hline
      simp only [CRLF2] at this ha ⊢
      rw [this, ha]
      simp
    · simp [Sock.headerLines, CRLF, hl]
      omega


theorem digit_ne_cr : ∀ m, m < 10 → UInt8.ofNat (48 + m) ≠ 13 := by decide

theorem noCR_natDigitsAux (fuel n : Nat) (acc : Bytes) (h : noCR acc = true) :
    noCR (natDigitsAux fuel n acc) = true := by
  induction fuel generalizing n acc with
  | zero => simpa [natDigitsAux] using h
  | succ f ih =>
    have hd : noCR (UInt8.ofNat (48 + n % 10) :: acc) = true := by
      rw [noCR_cons, h, Bool.and_true, bne_iff_ne]
      exact digit_ne_cr (n % 10) (Nat.mod_lt _ (by decide))
    simp only [natDigitsAux]
    split
    · exact hd
    · exact ih _ _ hd

theorem noCR_natDigits (n : Nat) : noCR (natDigits n) = true :=
  noCR_natDigitsAux _ _ _ rfl

theorem noCR_intText (i : Int) : noCR (intText i) = true := by
  unfold intText
  split
  · simp [noCR_natDigits, b]
  · exact noCR_natDigits _

/-- reason phrase and header map are CR-free -/
def cleanHead (s : Sock) : Bool := noCR s.reason && cleanMap s.respHeaders

/-- the first blank line of a clean head followed by anything is the end of the head -/
theorem breakOn_head (s : Sock) (hc : cleanHead s = true) (rest : Bytes) :
    ∃ a, breakOn CRLF2 (Sock.headBytes s ++ rest) = some (a, rest) ∧
         a.length + 4 = (Sock.headBytes s).length := by
  simp only [cleanHead, Bool.and_eq_true] at hc
  obtain ⟨a, ha, hl⟩ := breakOn_lines s.respHeaders hc.2 rest
  let P : Bytes := lit ['H','T','T','P','/','1','.','0',' '] ++ intText s.code ++ [SP] ++ s.reason
  have hP : noCR P = true := by
    simp only [P, noCR_append, noCR_intText, hc.1, Bool.and_true]
    decide
  have hshape : Sock.headBytes s ++ rest
      = P ++ (13 :: 10 :: (Sock.headerLines s.respHeaders ++ (13 :: 10 :: rest))) := by
    simp [Sock.headBytes, P, CRLF]
  have hsk := breakOn_skip [10, 13, 10] P
      (13 :: 10 :: (Sock.headerLines s.respHeaders ++ (13 :: 10 :: rest))) hP
  refine ⟨P ++ a, ?_, ?_⟩
  · rw [hshape]
    simp only [CRLF2] at hsk ha ⊢
    rw [hsk, ha]; simp
  · have : (Sock.headBytes s).length = P.length + (2 + ((Sock.headerLines s.respHeaders).length + 2)) := by
      simp [Sock.headBytes, P, CRLF]; omega
    rw [this]; simp [hl]; omega


/-! ### the setters keep the head clean -/

theorem cleanMap_cons (k v : Bytes) (m : HeaderMap) :
    cleanMap ((k, v) :: m) = (noCR k && noCR v && cleanMap m) := by
  simp [cleanMap]

theorem cleanMap_insert (k v : Bytes) (m : HeaderMap) (hk : noCR k = true) (hv : noCR v = true)
    (hm : cleanMap m = true) : cleanMap (HeaderMap.insert k v m) = true := by
  induction m with
  | nil => simp [HeaderMap.insert, hk, hv, cleanMap]
  | cons e m ih =>
    obtain ⟨k', v'⟩ := e
    rw [cleanMap_cons] at hm
    simp only [Bool.and_eq_true] at hm
    simp only [HeaderMap.insert]
    split
    · rw [cleanMap_cons, ih hm.2]; simp [hm.1]
    · rw [cleanMap_cons, cleanMap_cons]; simp [hk, hv, hm]

theorem cleanMap_remove (k : Bytes) (m : HeaderMap) (hm : cleanMap m = true) :
    cleanMap (HeaderMap.remove k m) = true := by
  simp only [cleanMap, HeaderMap.remove, List.all_eq_true] at hm ⊢
  intro e he
  exact hm e (List.mem_filter.mp he).1

theorem cleanMap_replace (k v : Bytes) (m : HeaderMap) (hk : noCR k = true) (hv : noCR v = true)
    (hm : cleanMap m = true) : cleanMap (HeaderMap.replace k v m) = true := by
  induction m with
  | nil => simp [HeaderMap.replace, hk, hv, cleanMap]
  | cons e m ih =>
    obtain ⟨k', v'⟩ := e
    rw [cleanMap_cons] at hm
    simp only [Bool.and_eq_true] at hm
    simp only [HeaderMap.replace]
    split
    · rw [cleanMap_cons]; simp [hm, hv]
    · split
      · rw [cleanMap_cons, ih hm.2]; simp [hm.1]
      · rw [cleanMap_cons, cleanMap_cons]; simp [hk, hv, hm]

theorem noCR_value (k : Bytes) (m : HeaderMap) (hm : cleanMap m = true) :
    noCR (HeaderMap.value k m) = true := by
  unfold HeaderMap.value
  split
  · rename_i v rest hv
    have hmem : v ∈ HeaderMap.values k m := by rw [hv]; simp
    simp only [HeaderMap.values, List.mem_map, List.mem_filter] at hmem
    obtain ⟨e, ⟨he, _⟩, rfl⟩ := hmem
    simp only [cleanMap, List.all_eq_true, Bool.and_eq_true] at hm
    exact (hm e he).2
  · rfl

theorem cleanHead_setHeader (s : Sock) (n v : Bytes) (r : Bool) (hn : noCR n = true)
    (hv : noCR v = true) (h : cleanHead s = true) : cleanHead (Sock.setHeader s n v r) = true := by
  simp only [cleanHead, Bool.and_eq_true] at h ⊢
  unfold Sock.setHeader
  split
  · exact ⟨h.1, cleanMap_insert _ _ _ hn hv (cleanMap_remove _ _ h.2)⟩
  · refine ⟨h.1, cleanMap_replace _ _ _ hn ?_ h.2⟩
    simp [noCR_value _ _ h.2, hv]

theorem cleanMap_foldl_insert (m : List (Bytes × Bytes)) (acc : HeaderMap)
    (hm : cleanMap m = true) (ha : cleanMap acc = true) :
    cleanMap (m.foldl (fun acc e => HeaderMap.insert e.1 e.2 acc) acc) = true := by
  induction m generalizing acc with
  | nil => simpa using ha
  | cons e m ih =>
    rw [cleanMap_cons] at hm
    simp only [Bool.and_eq_true] at hm
    exact ih _ hm.2 (cleanMap_insert _ _ _ hm.1.1 hm.1.2 ha)

theorem noCR_ite (p : Prop) [Decidable p] (a b : Bytes) (ha : noCR a = true) (hb : noCR b = true) :
    noCR (if p then a else b) = true := by
  split <;> assumption

theorem noCR_statusReason (c : Int) : noCR (statusReason c) = true := by
  unfold statusReason
  repeat' (first | decide | apply noCR_ite)

theorem cleanHead_setStatusCode (s : Sock) (c : Int) (r : Option Bytes)
    (hr : ∀ x, r = some x → noCR x = true) (h : cleanHead s = true) :
    cleanHead (Sock.setStatusCode s c r) = true := by
  simp only [cleanHead, Bool.and_eq_true, Sock.setStatusCode] at h ⊢
  refine ⟨?_, h.2⟩
  cases r with
  | none => exact noCR_statusReason c
  | some x => exact hr x rfl

end C18L
end Qhttp
