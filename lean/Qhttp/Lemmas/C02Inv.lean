import Qhttp.Lemmas.C02Read
/-
  C02 — the invariant `Mid` that holds at every point where application code can run, and its
  preservation by reader calls and by the private slots.
-/
namespace Qhttp.C02
open Qhttp

/-- What is true whenever control is outside the library's private slots or inside a reaction.
    `fedLen`: bytes delivered so far; `hb`: the buffer while the head is incomplete;
    `B`: the body bytes the reader is entitled to so far (read + buffered); `a`: pending
    `bytesAvailable` answer in the history walk. -/
structure Mid (evs : List Event) (hl N fedLen : Nat) (hb B : Bytes) (a : Option Nat) (s : Sock) : Prop where
  alive : s.alive = true
  ioOpen : s.ioOpen = true
  devOpen : s.tcp.devOpen = true
  dcFlag : s.dcFlag = false
  delPending : s.delPending = false
  walk : walkL evs hl N s.log 0 false none = true
  wst : wst evs s.log 0 false none = (fedLen, s.rs != .headers, a)
  hp : Obs.countP Obs.isHp s.log = if s.rs = .headers then 0 else 1
  rcf : Obs.countP Obs.isRcf s.log = if s.rs = .finished then 1 else 0
  tc : s.log.any Obs.isTc = false
  hdr : s.rs = .headers → s.readBuffer = hb ∧ s.reqHeaders = [] ∧ s.query = [] ∧ s.qio = [] ∧
          Obs.reads s.log = [] ∧ s.dataRead = 0
  dat : s.rs ≠ .headers → Obs.reads s.log ++ s.qio ++ s.readBuffer = B ∧
          s.dataRead = ((Obs.reads s.log).length + s.qio.length : Nat) ∧ s.total = N ∧
          hl + B.length ≤ fedLen

variable {evs : List Event} {hl N fedLen : Nat} {hb B : Bytes} {a : Option Nat} {s : Sock}

theorem Mid.rd (h : Mid evs hl N fedLen hb B a s) (out q b : Bytes) (d : Int)
    (ha : a = none ∨ a = some out.length)
    (hH : s.rs = .headers → out = [] ∧ q = s.qio ∧ b = s.readBuffer ∧ d = s.dataRead)
    (hD : s.rs ≠ .headers → out ++ q ++ b = s.qio ++ s.readBuffer ∧
            d + s.qio.length = s.dataRead + out.length + q.length) :
    Mid evs hl N fedLen hb B none
      { s with qio := q, readBuffer := b, dataRead := d, log := s.log ++ [Obs.rd out] } := by
  refine { alive := h.alive, ioOpen := h.ioOpen, devOpen := h.devOpen,
           dcFlag := h.dcFlag, delPending := h.delPending,
           walk := ?_, wst := ?_, hp := ?_, rcf := ?_, tc := ?_, hdr := ?_, dat := ?_ }
  · show walkL evs hl N (s.log ++ [Obs.rd out]) 0 false none = true
    rw [walkL_append, h.walk, h.wst]
    by_cases hh : s.rs = .headers
    · have := (hH hh).1
      subst this
      rcases ha with rfl | rfl <;> simp [walkL]
    · rcases ha with rfl | rfl <;> simp [walkL, hh]
  · show C02.wst evs (s.log ++ [Obs.rd out]) 0 false none = _
    rw [wst_append, h.wst]; simp [C02.wst]
  · show Obs.countP Obs.isHp (s.log ++ [Obs.rd out]) = _
    rw [countP_append, h.hp]; simp [Obs.countP, Obs.isHp]
  · show Obs.countP Obs.isRcf (s.log ++ [Obs.rd out]) = _
    rw [countP_append, h.rcf]; simp [Obs.countP, Obs.isRcf]
  · show (s.log ++ [Obs.rd out]).any Obs.isTc = false
    rw [List.any_append, h.tc]; simp [Obs.isTc]
  · intro hh
    have hh' : s.rs = .headers := hh
    obtain ⟨h1, h2, h3, h4, h5, h6⟩ := h.hdr hh'
    obtain ⟨e1, e2, e3, e4⟩ := hH hh'
    show b = hb ∧ s.reqHeaders = [] ∧ s.query = [] ∧ q = [] ∧ Obs.reads (s.log ++ [Obs.rd out]) = [] ∧ d = 0
    subst e1 e2 e3 e4
    refine ⟨h1, h2, h3, h4, ?_, h6⟩
    rw [reads_append, h5]; simp [Obs.reads]
  · intro hh
    have hh' : s.rs ≠ .headers := hh
    obtain ⟨h1, h2, h3, h4⟩ := h.dat hh'
    obtain ⟨e1, e2⟩ := hD hh'
    show Obs.reads (s.log ++ [Obs.rd out]) ++ q ++ b = B ∧
      d = ((Obs.reads (s.log ++ [Obs.rd out])).length + q.length : Nat) ∧ s.total = N ∧ hl + B.length ≤ fedLen
    have hr : Obs.reads (s.log ++ [Obs.rd out]) = Obs.reads s.log ++ out := by
      rw [reads_append]; simp [Obs.reads]
    refine ⟨?_, ?_, h3, h4⟩
    · rw [hr, ← h1]
      simp only [List.append_assoc] at e1 ⊢
      rw [e1]
    · rw [hr]; simp; omega

/-- appending an observation the walk ignores (no check, clears the pending `av`) -/
theorem Mid.sig (h : Mid evs hl N fedLen hb B a s) (o : Obs)
    (hw : ∀ l f hp' a', walkL evs hl N (o :: l) f hp' a' = walkL evs hl N l f hp' none)
    (hs : ∀ l f hp' a', C02.wst evs (o :: l) f hp' a' = C02.wst evs l f hp' none)
    (h1 : Obs.isHp o = false) (h2 : Obs.isRcf o = false) (h3 : Obs.isTc o = false)
    (h4 : Obs.reads [o] = []) :
    Mid evs hl N fedLen hb B none { s with log := s.log ++ [o] } := by
  refine { alive := h.alive, ioOpen := h.ioOpen, devOpen := h.devOpen,
           dcFlag := h.dcFlag, delPending := h.delPending,
           walk := ?_, wst := ?_, hp := ?_, rcf := ?_, tc := ?_, hdr := ?_, dat := ?_ }
  · show walkL evs hl N (s.log ++ [o]) 0 false none = true
    rw [walkL_append, h.walk, hw]; simp [walkL]
  · show C02.wst evs (s.log ++ [o]) 0 false none = _
    rw [wst_append, h.wst, hs]; simp [C02.wst]
  · show Obs.countP Obs.isHp (s.log ++ [o]) = _
    rw [countP_append, h.hp]; simp [Obs.countP, h1]
  · show Obs.countP Obs.isRcf (s.log ++ [o]) = _
    rw [countP_append, h.rcf]; simp [Obs.countP, h2]
  · show (s.log ++ [o]).any Obs.isTc = false
    rw [List.any_append, h.tc]; simp [h3]
  · intro hh
    obtain ⟨e1, e2, e3, e4, e5, e6⟩ := h.hdr hh
    refine ⟨e1, e2, e3, e4, ?_, e6⟩
    show Obs.reads (s.log ++ [o]) = []
    rw [reads_append, e5, h4]; rfl
  · intro hh
    obtain ⟨e1, e2, e3, e4⟩ := h.dat hh
    show Obs.reads (s.log ++ [o]) ++ s.qio ++ s.readBuffer = B ∧
      s.dataRead = ((Obs.reads (s.log ++ [o])).length + s.qio.length : Nat) ∧ s.total = N ∧ hl + B.length ≤ fedLen
    rw [reads_append, h4, List.append_nil]
    exact ⟨e1, e2, e3, e4⟩

theorem Mid.rr (h : Mid evs hl N fedLen hb B a s) :
    Mid evs hl N fedLen hb B none { s with log := s.log ++ [Obs.rr] } :=
  h.sig Obs.rr (by intros; simp [walkL]) (by intros; simp [C02.wst]) rfl rfl rfl rfl

/-- the marker of the `k`-th external event: its bytes are now delivered -/
theorem Mid.ev (h : Mid evs hl N fedLen hb B a s) (k : Nat) :
    Mid evs hl N (fedLen + evLen evs k) hb B none { s with log := s.log ++ [Obs.ev k] } := by
  refine { alive := h.alive, ioOpen := h.ioOpen, devOpen := h.devOpen,
           dcFlag := h.dcFlag, delPending := h.delPending,
           walk := ?_, wst := ?_, hp := ?_, rcf := ?_, tc := ?_, hdr := ?_, dat := ?_ }
  · show walkL evs hl N (s.log ++ [Obs.ev k]) 0 false none = true
    rw [walkL_append, h.walk]; simp [walkL]
  · show C02.wst evs (s.log ++ [Obs.ev k]) 0 false none = _
    rw [wst_append, h.wst]; simp [C02.wst]
  · show Obs.countP Obs.isHp (s.log ++ [Obs.ev k]) = _
    rw [countP_append, h.hp]; simp [Obs.countP, Obs.isHp]
  · show Obs.countP Obs.isRcf (s.log ++ [Obs.ev k]) = _
    rw [countP_append, h.rcf]; simp [Obs.countP, Obs.isRcf]
  · show (s.log ++ [Obs.ev k]).any Obs.isTc = false
    rw [List.any_append, h.tc]; simp [Obs.isTc]
  · intro hh
    obtain ⟨e1, e2, e3, e4, e5, e6⟩ := h.hdr hh
    refine ⟨e1, e2, e3, e4, ?_, e6⟩
    show Obs.reads (s.log ++ [Obs.ev k]) = []
    rw [reads_append, e5]; rfl
  · intro hh
    obtain ⟨e1, e2, e3, e4⟩ := h.dat hh
    show Obs.reads (s.log ++ [Obs.ev k]) ++ s.qio ++ s.readBuffer = B ∧
      s.dataRead = ((Obs.reads (s.log ++ [Obs.ev k])).length + s.qio.length : Nat) ∧ s.total = N ∧
      hl + B.length ≤ fedLen + evLen evs k
    have : Obs.reads [Obs.ev k] = [] := rfl
    rw [reads_append, this, List.append_nil]
    exact ⟨e1, e2, e3, by omega⟩

/-- `bytesAvailable()` is recorded: the walk now expects the next read to return that many bytes -/
theorem Mid.av (h : Mid evs hl N fedLen hb B a s) (m : Nat) :
    Mid evs hl N fedLen hb B (some m) { s with log := s.log ++ [Obs.av m] } := by
  refine { alive := h.alive, ioOpen := h.ioOpen, devOpen := h.devOpen,
           dcFlag := h.dcFlag, delPending := h.delPending,
           walk := ?_, wst := ?_, hp := ?_, rcf := ?_, tc := ?_, hdr := ?_, dat := ?_ }
  · show walkL evs hl N (s.log ++ [Obs.av m]) 0 false none = true
    rw [walkL_append, h.walk]; simp [walkL]
  · show C02.wst evs (s.log ++ [Obs.av m]) 0 false none = _
    rw [wst_append, h.wst]; simp [C02.wst]
  · show Obs.countP Obs.isHp (s.log ++ [Obs.av m]) = _
    rw [countP_append, h.hp]; simp [Obs.countP, Obs.isHp]
  · show Obs.countP Obs.isRcf (s.log ++ [Obs.av m]) = _
    rw [countP_append, h.rcf]; simp [Obs.countP, Obs.isRcf]
  · show (s.log ++ [Obs.av m]).any Obs.isTc = false
    rw [List.any_append, h.tc]; simp [Obs.isTc]
  · intro hh
    obtain ⟨e1, e2, e3, e4, e5, e6⟩ := h.hdr hh
    refine ⟨e1, e2, e3, e4, ?_, e6⟩
    show Obs.reads (s.log ++ [Obs.av m]) = []
    rw [reads_append, e5]; rfl
  · intro hh
    obtain ⟨e1, e2, e3, e4⟩ := h.dat hh
    show Obs.reads (s.log ++ [Obs.av m]) ++ s.qio ++ s.readBuffer = B ∧
      s.dataRead = ((Obs.reads (s.log ++ [Obs.av m])).length + s.qio.length : Nat) ∧ s.total = N ∧
      hl + B.length ≤ fedLen
    have : Obs.reads [Obs.av m] = [] := rfl
    rw [reads_append, this, List.append_nil]
    exact ⟨e1, e2, e3, e4⟩

/-! ### reader calls -/

theorem Mid.apiPrim_read (env : Env) (h : Mid evs hl N fedLen hb B none s) (n : Nat) :
    Mid evs hl N fedLen hb B none (Sock.apiPrim env s (.read n)) := by
  unfold Sock.apiPrim
  simp only [h.alive, Bool.not_true, Bool.false_eq_true, if_false]
  by_cases hh : s.rs = .headers
  · rw [read_headers s n hh (h.hdr hh).2.2.2.1]
    have := h.rd [] s.qio s.readBuffer s.dataRead (Or.inl rfl) (fun _ => ⟨rfl, rfl, rfl, rfl⟩)
      (fun h' => absurd hh h')
    exact this
  · obtain ⟨out, q, b, d, e, e1, e2⟩ := read_data s n h.ioOpen hh
    rw [e]
    exact h.rd out q b d (Or.inl rfl) (fun h' => absurd h' hh) (fun _ => ⟨e1, e2⟩)

theorem Mid.apiPrim_readAll (env : Env) (h : Mid evs hl N fedLen hb B a s)
    (ha : a = none ∨ a = some (Sock.bytesAvailable s)) :
    Mid evs hl N fedLen hb B none (Sock.apiPrim env s .readAll) := by
  unfold Sock.apiPrim
  simp only [h.alive, Bool.not_true, Bool.false_eq_true, if_false]
  by_cases hh : s.rs = .headers
  · rw [readAll_headers s hh (h.hdr hh).2.2.2.1]
    have := h.rd [] s.qio s.readBuffer s.dataRead
      (by rcases ha with rfl | rfl
          · exact Or.inl rfl
          · right; simp [Sock.bytesAvailable, hh])
      (fun _ => ⟨rfl, rfl, rfl, rfl⟩) (fun h' => absurd hh h')
    exact this
  · rw [readAll_data s h.ioOpen hh]
    exact h.rd (s.qio ++ s.readBuffer) [] [] _
      (by rcases ha with rfl | rfl
          · exact Or.inl rfl
          · right; simp [Sock.bytesAvailable, hh]; omega)
      (fun h' => absurd h' hh) (fun _ => ⟨by simp, by simp; omega⟩)

theorem Mid.apiPrim_avail (env : Env) (h : Mid evs hl N fedLen hb B none s) :
    Mid evs hl N fedLen hb B (some (Sock.bytesAvailable s)) (Sock.apiPrim env s .avail) := by
  unfold Sock.apiPrim
  rw [if_neg (by simp [h.alive])]
  exact h.av _

theorem bytesAvailable_avail (env : Env) (s : Sock) :
    Sock.bytesAvailable (Sock.apiPrim env s .avail) = Sock.bytesAvailable s := by
  unfold Sock.apiPrim; split <;> rfl

theorem api_of_dcFlag (env : Env) (app : App) (s : Sock) (op : ApiOp)
    (h : (Sock.apiPrim env s op).dcFlag = false) : Sock.api env app s op = Sock.apiPrim env s op := by
  simp [Sock.api, h]

/-- frame: a reader call changes nothing but the two buffers, the counter and the history -/
def SameCtl (s s' : Sock) : Prop :=
  s'.rs = s.rs ∧ s'.tcp = s.tcp ∧ s'.initPending = s.initPending ∧ s'.total = s.total

theorem SameCtl.refl (s : Sock) : SameCtl s s := ⟨rfl, rfl, rfl, rfl⟩
theorem SameCtl.trans {s1 s2 s3 : Sock} (h1 : SameCtl s1 s2) (h2 : SameCtl s2 s3) : SameCtl s1 s3 :=
  ⟨h2.1.trans h1.1, h2.2.1.trans h1.2.1, h2.2.2.1.trans h1.2.2.1, h2.2.2.2.trans h1.2.2.2⟩

theorem Mid.read_sameCtl (h : Mid evs hl N fedLen hb B a s) (n : Nat) : SameCtl s (Sock.read s n).1 := by
  by_cases hh : s.rs = .headers
  · rw [read_headers s n hh (h.hdr hh).2.2.2.1]; exact SameCtl.refl s
  · obtain ⟨out, q, b, d, e, _, _⟩ := read_data s n h.ioOpen hh
    rw [e]; exact ⟨rfl, rfl, rfl, rfl⟩

theorem Mid.readAll_sameCtl (h : Mid evs hl N fedLen hb B a s) : SameCtl s (Sock.readAll s).1 := by
  by_cases hh : s.rs = .headers
  · rw [readAll_headers s hh (h.hdr hh).2.2.2.1]; exact SameCtl.refl s
  · rw [readAll_data s h.ioOpen hh]; exact ⟨rfl, rfl, rfl, rfl⟩

theorem Mid.apiPrim_sameCtl (env : Env) (h : Mid evs hl N fedLen hb B a s) (op : ApiOp)
    (hop : readerOp op = true) : SameCtl s (Sock.apiPrim env s op) := by
  unfold Sock.apiPrim
  rw [if_neg (by simp [h.alive])]
  cases op <;> simp [readerOp] at hop
  · exact h.read_sameCtl _
  · exact h.readAll_sameCtl
  · exact ⟨rfl, rfl, rfl, rfl⟩

theorem Mid.api_read (env : Env) (app : App) (h : Mid evs hl N fedLen hb B none s) (n : Nat) :
    Sock.api env app s (.read n) = Sock.apiPrim env s (.read n) :=
  api_of_dcFlag env app s _ (h.apiPrim_read env n).dcFlag

theorem Mid.api_readAll (env : Env) (app : App) (h : Mid evs hl N fedLen hb B a s)
    (ha : a = none ∨ a = some (Sock.bytesAvailable s)) :
    Sock.api env app s .readAll = Sock.apiPrim env s .readAll :=
  api_of_dcFlag env app s _ (h.apiPrim_readAll env ha).dcFlag

theorem Mid.api_avail (env : Env) (app : App) (h : Mid evs hl N fedLen hb B none s) :
    Sock.api env app s .avail = Sock.apiPrim env s .avail :=
  api_of_dcFlag env app s _ (h.apiPrim_avail env).dcFlag

/-- an arbitrary reader reaction, handled once -/
theorem Mid.apis (env : Env) (app : App) (ops : List ApiOp) (hops : ReaderOps ops) :
    ∀ s, Mid evs hl N fedLen hb B none s →
      Mid evs hl N fedLen hb B none (Sock.apis env app s ops) ∧ SameCtl s (Sock.apis env app s ops) := by
  unfold ReaderOps at hops
  fun_induction readerOps ops with
  | case1 => intro s h; exact ⟨h, SameCtl.refl s⟩
  | case2 n l ih =>
    intro s h
    have h1 := h.apiPrim_read env n
    have c1 := h.apiPrim_sameCtl env (.read n) rfl
    obtain ⟨h2, c2⟩ := ih hops _ h1
    simp only [Sock.apis, List.foldl_cons] at h2 c2 ⊢
    rw [h.api_read env app n]
    exact ⟨h2, c1.trans c2⟩
  | case3 l ih =>
    intro s h
    have h1 := h.apiPrim_readAll env (Or.inl rfl)
    have c1 := h.apiPrim_sameCtl env .readAll rfl
    obtain ⟨h2, c2⟩ := ih hops _ h1
    simp only [Sock.apis, List.foldl_cons] at h2 c2 ⊢
    rw [h.api_readAll env app (Or.inl rfl)]
    exact ⟨h2, c1.trans c2⟩
  | case4 l ih =>
    intro s h
    have h1 := h.apiPrim_avail env
    have c1 := h.apiPrim_sameCtl env .avail rfl
    have h2 := h1.apiPrim_readAll env (Or.inr (by rw [bytesAvailable_avail]))
    have c2 := h1.apiPrim_sameCtl env .readAll rfl
    obtain ⟨h3, c3⟩ := ih hops _ h2
    simp only [Sock.apis, List.foldl_cons] at h3 c3 ⊢
    rw [h.api_avail env app, h1.api_readAll env app (Or.inr (by rw [bytesAvailable_avail]))]
    exact ⟨h3, (c1.trans c2).trans c3⟩
  | case5 l h1 h2 h3 h4 => exact absurd hops (by simp)

end Qhttp.C02
