import Qhttp.Lemmas.C08Run
import Qhttp.Lemmas.C08Other
import Qhttp.Lemmas.HttpRender
/-
  C08 helper lemmas: reading the response of a file request back with the strict reader `Http.parse`.
-/
namespace Qhttp
namespace C08L
open Qhttp Qhttp.Sock FsHandler Qhttp.Http Qhttp.HB

theorem CR_not_mem_natDigits (n : Nat) : CR ∉ natDigits n := natDigits_not_mem n (Or.inl (by decide))

theorem CR_not_mem_intText (i : Int) : CR ∉ intText i := by
  unfold intText
  split
  · intro h
    rcases List.mem_cons.1 h with h | h
    · exact absurd h (by decide)
    · exact CR_not_mem_natDigits _ h
  · exact CR_not_mem_natDigits _

theorem CR_not_mem_contentRange (r : Range) : CR ∉ r.contentRange := by
  unfold Range.contentRange
  have hi := CR_not_mem_intText
  have h45 : CR ≠ 45 := by decide
  have h47 : CR ≠ 47 := by decide
  have h42 : CR ≠ 42 := by decide
  split <;> split <;> simp [hi, h45, h47, h42]

/-- the start line of the response -/
def respStart (r : Range) : Bytes :=
  Http.HTTP10 ++ intText (if r.isValid then 206 else 200) ++ [SP] ++
    (if r.isValid then statusReason 206 else lit ['O','K'])

theorem respHead_eq (r : Range) (size : Nat) (mime : Bytes) :
    respHead r size mime =
      respStart r ++ CRLF ++ Sock.headerLines (respHdrs r size mime) ++ CRLF := rfl

theorem CR_not_mem_respStart (r : Range) : CR ∉ respStart r := by
  unfold respStart
  simp only [List.mem_append, not_or]
  refine ⟨⟨⟨by decide, CR_not_mem_intText _⟩, by decide⟩, ?_⟩
  split <;> decide

theorem statusLine_respStart (r : Range) :
    (Http.statusLine (respStart r)).map (·.code) = some (if r.isValid then 206 else 200) := by
  unfold respStart
  rw [Http.statusLine_intText (by split <;> omega)]
  split <;> rfl

theorem keyOk_CL : Sock.CONTENT_LENGTH ≠ [] ∧ COLON ∉ Sock.CONTENT_LENGTH ∧ CR ∉ Sock.CONTENT_LENGTH := by decide
theorem keyOk_CR : CONTENT_RANGE ≠ [] ∧ COLON ∉ CONTENT_RANGE ∧ CR ∉ CONTENT_RANGE := by decide
theorem keyOk_CT : Sock.CONTENT_TYPE ≠ [] ∧ COLON ∉ Sock.CONTENT_TYPE ∧ CR ∉ Sock.CONTENT_TYPE := by decide

theorem entryOk_of {k v : Bytes} (hk : k ≠ [] ∧ COLON ∉ k ∧ CR ∉ k) (hv : CR ∉ v) : Http.EntryOk (k, v) :=
  ⟨hk.1, hk.2.1, hk.2.2, hv⟩

theorem entryOk_respHdrs (r : Range) (size : Nat) (mime : Bytes) (hm : CR ∉ mime) :
    ∀ e ∈ respHdrs r size mime, Http.EntryOk e := by
  intro e he
  unfold respHdrs at he
  split at he
  · simp only [List.mem_cons, List.not_mem_nil, or_false] at he
    rcases he with rfl | rfl | rfl
    · exact entryOk_of keyOk_CL (CR_not_mem_intText _)
    · refine entryOk_of keyOk_CR ?_
      simp only [List.mem_append, not_or]
      exact ⟨by decide, CR_not_mem_contentRange r⟩
    · exact entryOk_of keyOk_CT hm
  · simp only [List.mem_cons, List.not_mem_nil, or_false] at he
    rcases he with rfl | rfl
    · exact entryOk_of keyOk_CL (CR_not_mem_natDigits _)
    · exact entryOk_of keyOk_CT hm

/-- the strict reader recovers start line, header entries and body of a file response -/
theorem parse_response (r : Range) (size : Nat) (mime body : Bytes) (hm : CR ∉ mime) :
    Http.parse (respHead r size mime ++ body) =
      some { start := respStart r, headers := respHdrs r size mime, body := body } := by
  rw [respHead_eq]
  exact Http.parse_render _ _ _ (CR_not_mem_respStart r) (entryOk_respHdrs r size mime hm)

/-! ### header values read back -/

theorem splitVal {v : Bytes} (h : (44 : UInt8) ∉ v) : splitF [44, 32] (v.length + 1) none v = [v] :=
  splitAll_of_not_mem h

theorem lower_CL_CT : (lower Sock.CONTENT_TYPE == lower Sock.CONTENT_LENGTH) = false := by decide
theorem lower_CR_CL : (lower CONTENT_RANGE == lower Sock.CONTENT_LENGTH) = false := by decide
theorem lower_CL_CR : (lower Sock.CONTENT_LENGTH == lower CONTENT_RANGE) = false := by decide
theorem lower_CT_CR : (lower Sock.CONTENT_TYPE == lower CONTENT_RANGE) = false := by decide

theorem valuesOf_CL_full (v m : Bytes) (h : (44 : UInt8) ∉ v) :
    Http.valuesOf Sock.CONTENT_LENGTH [(Sock.CONTENT_LENGTH, v), (Sock.CONTENT_TYPE, m)] = [v] := by
  simp [Http.valuesOf, lower_CL_CT, splitVal h]

theorem valuesOf_CR_full (v m : Bytes) :
    Http.valuesOf CONTENT_RANGE [(Sock.CONTENT_LENGTH, v), (Sock.CONTENT_TYPE, m)] = [] := by
  simp [Http.valuesOf, lower_CL_CR, lower_CT_CR]

theorem valuesOf_CL_partial (v w m : Bytes) (h : (44 : UInt8) ∉ v) :
    Http.valuesOf Sock.CONTENT_LENGTH
      [(Sock.CONTENT_LENGTH, v), (CONTENT_RANGE, w), (Sock.CONTENT_TYPE, m)] = [v] := by
  simp [Http.valuesOf, lower_CL_CT, lower_CR_CL, splitVal h]

theorem valuesOf_CR_partial (v w m : Bytes) (h : (44 : UInt8) ∉ w) :
    Http.valuesOf CONTENT_RANGE
      [(Sock.CONTENT_LENGTH, v), (CONTENT_RANGE, w), (Sock.CONTENT_TYPE, m)] = [w] := by
  simp [Http.valuesOf, lower_CL_CR, lower_CT_CR, splitVal h]

theorem comma_not_mem_natDigits (n : Nat) : (44 : UInt8) ∉ natDigits n :=
  natDigits_not_mem n (Or.inl (by decide))

theorem comma_not_mem_rangeText (a b size : Nat) :
    (44 : UInt8) ∉ BYTES_SP ++ natDigits a ++ [45] ++ natDigits b ++ [47] ++ natDigits size := by
  have h := comma_not_mem_natDigits
  simp only [List.mem_append, not_or]
  exact ⟨⟨⟨⟨⟨by decide, h a⟩, by decide⟩, h b⟩, by decide⟩, h size⟩

/-! ### responses completed inside the slot -/

/-- the start line of such a response -/
def ansStart (c : Int) (rsn : Bytes) : Bytes := Http.HTTP10 ++ intText c ++ [SP] ++ rsn

theorem parse_answered (c : Int) (rsn : Bytes) (hdrs : HeaderMap) (body : Bytes) (hc : 0 ≤ c)
    (hr : CR ∉ rsn) (hh : ∀ e ∈ hdrs, Http.EntryOk e) :
    Http.parse (ansHead c rsn hdrs ++ body) =
      some { start := ansStart c rsn, headers := hdrs, body := body } := by
  have e : ansHead c rsn hdrs = ansStart c rsn ++ CRLF ++ Sock.headerLines hdrs ++ CRLF := rfl
  rw [e]
  refine Http.parse_render _ _ _ ?_ hh
  unfold ansStart
  rw [HB.intText_of_nonneg hc]
  simp only [List.mem_append, not_or]
  exact ⟨⟨⟨by decide, CR_not_mem_natDigits _⟩, by decide⟩, hr⟩

theorem statusLine_ansStart {c : Int} (hc : 0 ≤ c) (rsn : Bytes) :
    (Http.statusLine (ansStart c rsn)).map (·.code) = some c.natAbs := by
  unfold ansStart
  rw [Http.statusLine_intText hc]
  rfl

theorem entryOk_dirHdrs (body : Bytes) : ∀ e ∈ dirHdrs body, Http.EntryOk e := by
  intro e he
  simp only [dirHdrs, List.mem_cons, List.not_mem_nil, or_false] at he
  rcases he with rfl | rfl
  · exact entryOk_of keyOk_CL (CR_not_mem_natDigits _)
  · exact entryOk_of keyOk_CT (by decide)

theorem entryOk_nfHdrs (env : Env) : ∀ e ∈ nfHdrs env, Http.EntryOk e := by
  intro e he
  simp only [nfHdrs, List.mem_cons, List.not_mem_nil, or_false] at he
  rcases he with rfl | rfl
  · exact entryOk_of keyOk_CL (CR_not_mem_natDigits _)
  · exact entryOk_of keyOk_CT (by decide)

theorem valuesOf_CL_dirHdrs (body : Bytes) :
    Http.valuesOf Sock.CONTENT_LENGTH (dirHdrs body) = [natDigits body.length] :=
  valuesOf_CL_full _ _ (comma_not_mem_natDigits _)

/-! ### `plan` looks at the Range header only -/

theorem plan_congr (fe : FsEnv) (path : Bytes) {hs hs' : HeaderMap}
    (h : HeaderMap.value RANGE hs = HeaderMap.value RANGE hs') : plan fe path hs = plan fe path hs' := by
  unfold plan
  rw [h]

theorem value_RANGE_single (x : Bytes) : HeaderMap.value RANGE [(RANGE, x)] = x := by
  have : HeaderMap.keyEq RANGE RANGE = true := by decide
  simp [HeaderMap.value, HeaderMap.values, this]

end C08L
end Qhttp
