import Qhttp.Model.Proxy
import Qhttp.Model.Fs
import Qhttp.Lemmas.BytesLemmas
import Qhttp.Lemmas.HttpBytes
/-
  C12 — the request target written upstream: `"/" ++ pctEncode pathKeep path ++ rawQuery raw`.
  Pure byte lemmas: the percent-encoder's alphabet, `pctDecode ∘ pctEncode = id` whenever '%'
  itself is escaped, the shape of `rawQuery`.
-/
namespace Qhttp.ProxyL
open Qhttp Proxy

/-! ### hex digits -/

def isUpHex (c : UInt8) : Bool := (48 ≤ c && c ≤ 57) || (65 ≤ c && c ≤ 70)

theorem hexv_hexUp : ∀ n, n < 16 → Fs.hexv (hexUp n) = some n := by decide

theorem isUpHex_hexUp : ∀ n, n < 16 → isUpHex (hexUp n) = true := by decide

theorem u8_div_lt (c : UInt8) : c.toNat / 16 < 16 := by
  have := c.toNat_lt; omega

theorem u8_mod_lt (c : UInt8) : c.toNat % 16 < 16 := by omega

theorem u8_recompose (c : UInt8) : UInt8.ofNat (c.toNat / 16 * 16 + c.toNat % 16) = c := by
  have : c.toNat / 16 * 16 + c.toNat % 16 = c.toNat := by omega
  rw [this]; exact UInt8.ofNat_toNat

/-! ### `pctDecode` step by step -/

theorem pctDecode_cons_ne (x : UInt8) (rest : Bytes) (h : x ≠ 37) :
    Fs.pctDecode (x :: rest) = x :: Fs.pctDecode rest := by
  rw [Fs.pctDecode.eq_2]
  intro a c r hx _; exact h hx

theorem pctDecode_escape (c : UInt8) (rest : Bytes) :
    Fs.pctDecode (37 :: hexUp (c.toNat / 16) :: hexUp (c.toNat % 16) :: rest) = c :: Fs.pctDecode rest := by
  rw [Fs.pctDecode.eq_1, hexv_hexUp _ (u8_div_lt c), hexv_hexUp _ (u8_mod_lt c)]
  simp only [u8_recompose]

/-- **decoding inverts encoding** whenever '%' itself is always escaped -/
theorem pctDecode_pctEncode (keep : UInt8 → Bool) (h37 : keep 37 = false) (p : Bytes) :
    Fs.pctDecode (pctEncode keep p) = p := by
  induction p with
  | nil => simp [pctEncode, Fs.pctDecode.eq_3]
  | cons c cs ih =>
    rw [pctEncode]
    by_cases hk : keep c = true
    · have hc : c ≠ 37 := fun e => by rw [e, h37] at hk; cases hk
      simp only [hk, if_true, List.singleton_append]
      rw [pctDecode_cons_ne c _ hc, ih]
    · simp only [hk, Bool.false_eq_true, if_false, List.cons_append, List.nil_append]
      rw [pctDecode_escape, ih]

theorem pathKeep_37 : pathKeep 37 = false := by decide

/-! ### the encoder's alphabet -/

/-- every byte the encoder emits is a kept byte, '%' or an upper-case hex digit -/
theorem mem_pctEncode {keep : UInt8 → Bool} {p : Bytes} {x : UInt8} (h : x ∈ pctEncode keep p) :
    keep x = true ∨ x = 37 ∨ isUpHex x = true := by
  induction p with
  | nil => simp [pctEncode] at h
  | cons c cs ih =>
    rw [pctEncode] at h
    rcases List.mem_append.mp h with h | h
    · by_cases hk : keep c = true
      · simp only [hk, if_true, List.mem_singleton] at h
        subst h; exact Or.inl hk
      · simp only [hk, Bool.false_eq_true, if_false, List.mem_cons, List.not_mem_nil, or_false] at h
        rcases h with h | h | h
        · exact Or.inr (Or.inl h)
        · subst h; exact Or.inr (Or.inr (isUpHex_hexUp _ (u8_div_lt c)))
        · subst h; exact Or.inr (Or.inr (isUpHex_hexUp _ (u8_mod_lt c)))
    · exact ih h

/-- a byte that is neither kept nor '%' nor an upper-case hex digit does not occur -/
theorem not_mem_pctEncode {keep : UInt8 → Bool} (p : Bytes) {x : UInt8}
    (h1 : keep x = false) (h2 : x ≠ 37) (h3 : isUpHex x = false) : x ∉ pctEncode keep p := by
  intro h
  rcases mem_pctEncode h with h | h | h
  · rw [h1] at h; cases h
  · exact h2 h
  · rw [h3] at h; cases h

theorem SP_not_mem_enc (p : Bytes) : SP ∉ pctEncode pathKeep p :=
  not_mem_pctEncode p (by decide) (by decide) (by decide)
theorem CR_not_mem_enc (p : Bytes) : CR ∉ pctEncode pathKeep p :=
  not_mem_pctEncode p (by decide) (by decide) (by decide)
theorem LF_not_mem_enc (p : Bytes) : LF ∉ pctEncode pathKeep p :=
  not_mem_pctEncode p (by decide) (by decide) (by decide)
theorem QM_not_mem_enc (p : Bytes) : (63 : UInt8) ∉ pctEncode pathKeep p :=
  not_mem_pctEncode p (by decide) (by decide) (by decide)

/-- the encoded path, with its leading '/' -/
def encPath (p : Bytes) : Bytes := 47 :: pctEncode pathKeep p

theorem not_mem_encPath (p : Bytes) {x : UInt8} (h0 : x ≠ 47)
    (h1 : pathKeep x = false) (h2 : x ≠ 37) (h3 : isUpHex x = false) : x ∉ encPath p := by
  intro h
  rcases List.mem_cons.mp h with h | h
  · exact h0 h
  · exact not_mem_pctEncode p h1 h2 h3 h

theorem pctDecode_encPath (p : Bytes) : Fs.pctDecode (encPath p) = 47 :: p := by
  rw [encPath, pctDecode_cons_ne _ _ (by decide), pctDecode_pctEncode _ pathKeep_37]

/-! ### the query part -/

theorem rawQuery_of_none {r : Bytes} (h : (63 : UInt8) ∉ r) : rawQuery r = [] := by
  unfold rawQuery
  rw [HB.breakOn_eq_none_of_not_mem h]

theorem rawQuery_of_some (a q : Bytes) (h : (63 : UInt8) ∉ a) : rawQuery (a ++ [63] ++ q) = 63 :: q := by
  unfold rawQuery
  rw [HB.breakOn_found (c := 63) (d := []) q h]

/-- `rawQuery` is empty or everything from the first '?' on -/
theorem rawQuery_cases (r : Bytes) :
    ((63 : UInt8) ∉ r ∧ rawQuery r = []) ∨
    ∃ a q, r = a ++ [63] ++ q ∧ (63 : UInt8) ∉ a ∧ rawQuery r = 63 :: q := by
  unfold rawQuery
  cases h : breakOn [63] r with
  | none =>
    left
    refine ⟨?_, rfl⟩
    intro hm
    exact breakOn_none h (singleton_infix_iff.mpr hm)
  | some pr =>
    obtain ⟨a, q⟩ := pr
    right
    exact ⟨a, q, breakOn_some h, breakOn_singleton_not_mem h, rfl⟩

theorem mem_rawQuery {r : Bytes} {x : UInt8} (h : x ∈ rawQuery r) : x ∈ r := by
  rcases rawQuery_cases r with ⟨_, e⟩ | ⟨a, q, e1, _, e2⟩
  · rw [e] at h; cases h
  · rw [e2] at h; rw [e1]
    rcases List.mem_cons.mp h with h | h
    · subst h; simp
    · simp [h]

/-- the suffix relation: the query is a suffix of the raw target -/
theorem rawQuery_suffix (r : Bytes) : rawQuery r <:+ r := by
  rcases rawQuery_cases r with ⟨_, e⟩ | ⟨a, q, e1, _, e2⟩
  · rw [e]; exact List.nil_suffix
  · rw [e2]; exact ⟨a, by rw [e1]; simp⟩

/-! ### the re-encoded query: decoding commutes with `pctEncode keep` when `keep` keeps '%' and
      every hex digit -/

theorem hexv_some_keep {keep : UInt8 → Bool}
    (hk : ∀ n, n < 256 → (Fs.hexv (UInt8.ofNat n)).isSome = true → keep (UInt8.ofNat n) = true)
    {a : UInt8} {x : Nat} (h : Fs.hexv a = some x) : keep a = true := by
  have := hk a.toNat a.toNat_lt
  rw [UInt8.ofNat_toNat, h] at this
  exact this rfl

theorem hexv_37 : Fs.hexv 37 = none := by decide

theorem pctDecode_single (a : UInt8) : Fs.pctDecode [a] = [a] := by
  rw [Fs.pctDecode.eq_2 a [] (by intro _ _ _ _ h; cases h), Fs.pctDecode.eq_3]

theorem pctDecode_37_single (a : UInt8) : Fs.pctDecode [37, a] = [37, a] := by
  rw [Fs.pctDecode.eq_2 37 [a] (by intro _ _ _ _ h; cases h), pctDecode_single]

theorem pctEncode_cons_keep {keep : UInt8 → Bool} {c : UInt8} (cs : Bytes) (h : keep c = true) :
    pctEncode keep (c :: cs) = c :: pctEncode keep cs := by
  rw [pctEncode]; simp [h]

theorem pctEncode_cons_esc {keep : UInt8 → Bool} {c : UInt8} (cs : Bytes) (h : keep c = false) :
    pctEncode keep (c :: cs) =
      37 :: hexUp (c.toNat / 16) :: hexUp (c.toNat % 16) :: pctEncode keep cs := by
  rw [pctEncode]; simp [h]

/-- a '%' that does not start an escape in the raw text does not start one in the encoded text -/
theorem pctDecode_37_encode {keep : UInt8 → Bool}
    (a c : UInt8) (rest : Bytes) (hno : ¬ ((Fs.hexv a).isSome = true ∧ (Fs.hexv c).isSome = true)) :
    Fs.pctDecode (37 :: pctEncode keep (a :: c :: rest)) =
      37 :: Fs.pctDecode (pctEncode keep (a :: c :: rest)) := by
  by_cases ha : keep a = true
  · rw [pctEncode_cons_keep _ ha]
    by_cases hc : keep c = true
    · rw [pctEncode_cons_keep _ hc, Fs.pctDecode.eq_1]
      cases h1 : Fs.hexv a <;> cases h2 : Fs.hexv c <;> simp_all
    · have hc' : keep c = false := by simpa using hc
      rw [pctEncode_cons_esc _ hc', Fs.pctDecode.eq_1, hexv_37]
      cases Fs.hexv a <;> rfl
  · have ha' : keep a = false := by simpa using ha
    rw [pctEncode_cons_esc _ ha', Fs.pctDecode.eq_1, hexv_37]

/-- **decoding commutes with re-encoding**: when '%' and all hex digits are kept, the encoded
    text decodes to exactly what the raw text decodes to (existing escapes stay escapes, stray
    '%' stay stray, everything newly escaped decodes back to itself) -/
theorem pctDecode_pctEncode_commute (keep : UInt8 → Bool) (h37 : keep 37 = true)
    (hk : ∀ n, n < 256 → (Fs.hexv (UInt8.ofNat n)).isSome = true → keep (UInt8.ofNat n) = true)
    (x : Bytes) : Fs.pctDecode (pctEncode keep x) = Fs.pctDecode x := by
  fun_induction Fs.pctDecode x with
  | case1 a c rest xa ya h1 h2 ih =>
    rw [pctEncode_cons_keep _ h37, pctEncode_cons_keep _ (hexv_some_keep hk h2),
      pctEncode_cons_keep _ (hexv_some_keep hk h1), Fs.pctDecode.eq_1, h1, h2]
    simp only [ih]
  | case2 a c rest hno ih =>
    rw [pctEncode_cons_keep _ h37, pctDecode_37_encode a c rest ?_, ih]
    rintro ⟨h1, h2⟩
    obtain ⟨xa, hx⟩ := Option.isSome_iff_exists.mp h1
    obtain ⟨ya, hy⟩ := Option.isSome_iff_exists.mp h2
    exact hno xa ya hx hy
  | case3 y rest hnp ih =>
    by_cases hy : keep y = true
    · rw [pctEncode_cons_keep _ hy]
      by_cases h37' : y = 37
      · subst h37'
        -- fewer than two bytes follow
        match rest, hnp with
        | [], _ => simp only [pctEncode]; rw [pctDecode_single, Fs.pctDecode.eq_3]
        | [a], _ =>
          by_cases ha : keep a = true
          · rw [pctEncode_cons_keep _ ha]; simp only [pctEncode]
            rw [pctDecode_37_single, pctDecode_single]
          · have ha' : keep a = false := by simpa using ha
            rw [pctEncode_cons_esc _ ha', Fs.pctDecode.eq_1, hexv_37]
            simp only [pctEncode]
            rw [pctDecode_escape, pctDecode_single, Fs.pctDecode.eq_3]
        | a :: c :: r, hnp => exact (hnp a c r rfl rfl).elim
      · rw [pctDecode_cons_ne _ _ h37', ih]
    · have hy' : keep y = false := by simpa using hy
      rw [pctEncode_cons_esc _ hy', pctDecode_escape, ih]
  | case4 => simp [pctEncode, Fs.pctDecode.eq_3]

theorem queryKeep_37 : queryKeep 37 = true := by decide

theorem queryKeep_hex : ∀ n, n < 256 → (Fs.hexv (UInt8.ofNat n)).isSome = true →
    queryKeep (UInt8.ofNat n) = true := by decide +kernel

/-- the query written upstream decodes to what the client's raw query decodes to -/
theorem pctDecode_upstreamQuery (r : Bytes) :
    Fs.pctDecode (upstreamQuery r) = Fs.pctDecode (rawQuery r) :=
  pctDecode_pctEncode_commute queryKeep queryKeep_37 queryKeep_hex _

theorem SP_not_mem_query (r : Bytes) : SP ∉ upstreamQuery r :=
  not_mem_pctEncode _ (by decide) (by decide) (by decide)
theorem CR_not_mem_query (r : Bytes) : CR ∉ upstreamQuery r :=
  not_mem_pctEncode _ (by decide) (by decide) (by decide)
theorem LF_not_mem_query (r : Bytes) : LF ∉ upstreamQuery r :=
  not_mem_pctEncode _ (by decide) (by decide) (by decide)

/-- the encoded query is empty or starts with the '?' it was cut at -/
theorem upstreamQuery_cases (r : Bytes) :
    upstreamQuery r = [] ∨ ∃ q, upstreamQuery r = 63 :: q := by
  unfold upstreamQuery
  rcases rawQuery_cases r with ⟨_, e⟩ | ⟨a, q, _, _, e2⟩
  · left; rw [e]; rfl
  · right; rw [e2, pctEncode_cons_keep _ (by decide)]; exact ⟨_, rfl⟩

/-- the target written upstream -/
def target (p r : Bytes) : Bytes := encPath p ++ upstreamQuery r

/-- splitting the target at its first '?' gives back the encoded path and the encoded query -/
theorem breakOn_target (p r : Bytes) :
    (match breakOn [63] (target p r) with | some (a, q) => (a, 63 :: q) | none => (target p r, [])) =
      (encPath p, upstreamQuery r) := by
  have hq : (63 : UInt8) ∉ encPath p :=
    not_mem_encPath p (by decide) (by decide) (by decide) (by decide)
  rcases upstreamQuery_cases r with e | ⟨q, e2⟩
  · rw [target, e, List.append_nil, HB.breakOn_eq_none_of_not_mem hq]
  · rw [target, e2]
    have : encPath p ++ 63 :: q = encPath p ++ [63] ++ q := by simp
    rw [this, HB.breakOn_found (c := 63) (d := []) q hq]

/-- the same, as a case distinction on the search result -/
theorem breakOn_target_cases (p r : Bytes) :
    (breakOn [63] (target p r) = none ∧ target p r = encPath p ∧ upstreamQuery r = []) ∨
    ∃ q, breakOn [63] (target p r) = some (encPath p, q) ∧ upstreamQuery r = 63 :: q := by
  have hq : (63 : UInt8) ∉ encPath p :=
    not_mem_encPath p (by decide) (by decide) (by decide) (by decide)
  rcases upstreamQuery_cases r with e | ⟨q, e2⟩
  · left
    rw [target, e, List.append_nil]
    exact ⟨HB.breakOn_eq_none_of_not_mem hq, rfl, rfl⟩
  · right
    refine ⟨q, ?_, e2⟩
    rw [target, e2]
    have : encPath p ++ 63 :: q = encPath p ++ [63] ++ q := by simp
    rw [this, HB.breakOn_found (c := 63) (d := []) q hq]

end Qhttp.ProxyL
