import Qhttp.Lemmas.C19Log
/-
  C19, part 2: a frame rule for the API level.  Every API call (`apiPrim`) is a composition of
  `tcpWrite`, `tcpClose`, appending a quiet observation, and updates of fields C19 never looks
  at; so a state predicate closed under these four is preserved by every quiet API call.
-/
namespace Qhttp.C19L
open Qhttp Qhttp.Obs Qhttp.Sock

/-- `s'` differs from `s` only in fields C19 does not look at (`rs` may leave `.headers`) -/
structure Same (s s' : Sock) : Prop where
  u : s'.tcp.unacked = s.tcp.unacked
  o : s'.tcp.devOpen = s.tcp.devOpen
  c : s'.tcp.conn = s.tcp.conn
  f : s'.dcFlag = s.dcFlag
  l : s'.log = s.log
  r : s'.rs = .headers → s.rs = .headers

theorem Same.refl (s : Sock) : Same s s := ⟨rfl, rfl, rfl, rfl, rfl, id⟩

theorem Same.trans {a b c : Sock} (h1 : Same a b) (h2 : Same b c) : Same a c :=
  ⟨h2.u.trans h1.u, h2.o.trans h1.o, h2.c.trans h1.c, h2.f.trans h1.f, h2.l.trans h1.l,
   fun h => h1.r (h2.r h)⟩

structure ApiClosed (P : Sock → Prop) : Prop where
  same : ∀ s s', Same s s' → P s → P s'
  tw : ∀ s b, P s → P (tcpWrite s b)
  tcl : ∀ s, P s → P (tcpClose s)
  note : ∀ s o, quiet o = true → P s → P { s with log := s.log ++ [o] }

/-- an API call that records nothing C19 counts -/
def qOp : ApiOp → Bool
  | .note o => quiet o
  | _ => true

section
variable {P : Sock → Prop} (hP : ApiClosed P)
include hP

theorem setStatusCode_closed {s : Sock} (c : Int) (r : Option Bytes) (h : P s) :
    P (setStatusCode s c r) :=
  hP.same s _ ⟨rfl, rfl, rfl, rfl, rfl, id⟩ h

theorem setHeader_closed {s : Sock} (n v : Bytes) (r : Bool) (h : P s) :
    P (setHeader s n v r) := by
  unfold setHeader
  split <;> exact hP.same s _ ⟨rfl, rfl, rfl, rfl, rfl, id⟩ h

theorem writeHeaders_closed {s : Sock} (h : P s) : P (writeHeaders s) := by
  unfold writeHeaders
  exact hP.tw _ _ (hP.same s _ ⟨rfl, rfl, rfl, rfl, rfl, id⟩ h)

theorem write_closed {s : Sock} (b : Bytes) (h : P s) : P (write s b) := by
  unfold write
  split
  · exact h
  · apply hP.tw
    split
    · exact writeHeaders_closed hP h
    · exact h

theorem close_closed {s : Sock} (h : P s) : P (close s) := by
  unfold close
  exact hP.tcl _ (hP.same s _ ⟨rfl, rfl, rfl, rfl, rfl, fun h => by simp at h⟩ h)

theorem writeRedirect_closed {s : Sock} (p : Bytes) (pm : Bool) (h : P s) :
    P (writeRedirect s p pm) := by
  unfold writeRedirect
  exact close_closed hP (writeHeaders_closed hP (setHeader_closed hP _ _ _
    (setStatusCode_closed hP _ _ h)))

theorem writeError_closed (env : Env) {s : Sock} (c : Int) (r : Option Bytes) (h : P s) :
    P (writeError env s c r) := by
  unfold writeError
  exact close_closed hP (write_closed hP _ (writeHeaders_closed hP (setHeader_closed hP _ _ _
    (setHeader_closed hP _ _ _ (setStatusCode_closed hP _ _ h)))))

theorem writeJson_closed {s : Sock} (b : Bytes) (c : Int) (h : P s) :
    P (writeJson s b c) := by
  unfold writeJson
  exact close_closed hP (write_closed hP _ (setHeader_closed hP _ _ _
    (setHeader_closed hP _ _ _ (setStatusCode_closed hP _ _ h))))

end

theorem readData_same (s : Sock) (n : Nat) : Same s (readData s n).1 := by
  unfold Sock.readData
  split
  · exact Same.refl s
  · exact ⟨rfl, rfl, rfl, rfl, rfl, id⟩

theorem read_same (s : Sock) (n : Nat) : Same s (read s n).1 := by
  unfold Sock.read
  split
  · exact Same.refl s
  · dsimp only
    split
    · exact ⟨rfl, rfl, rfl, rfl, rfl, id⟩
    · have h0 : Same s { s with qio := s.qio.drop n } := ⟨rfl, rfl, rfl, rfl, rfl, id⟩
      split
      · exact h0.trans (readData_same _ _)
      · have h1 := h0.trans (readData_same { s with qio := s.qio.drop n } chunk)
        exact ⟨h1.u, h1.o, h1.c, h1.f, h1.l, h1.r⟩

theorem readAll_same (s : Sock) : Same s (readAll s).1 := by
  unfold Sock.readAll
  split
  · exact Same.refl s
  · have h0 : Same s { s with qio := [] } := ⟨rfl, rfl, rfl, rfl, rfl, id⟩
    exact h0.trans (readData_same _ _)

/-- the frame rule: a quiet API call preserves every `ApiClosed` predicate -/
theorem apiPrim_closed {P : Sock → Prop} (hP : ApiClosed P) (env : Env) {s : Sock} {op : ApiOp}
    (hq : qOp op = true) (h : P s) : P (apiPrim env s op) := by
  unfold apiPrim
  split
  · exact h
  · cases op with
    | read n => exact hP.note _ _ rfl (hP.same _ _ (read_same s n) h)
    | readAll => exact hP.note _ _ rfl (hP.same _ _ (readAll_same s) h)
    | avail => exact hP.note _ _ rfl h
    | snap => exact hP.note _ _ rfl h
    | status c r => exact setStatusCode_closed hP _ _ h
    | hdr n v r => exact setHeader_closed hP _ _ _ h
    | hdrs m => exact hP.same s _ ⟨rfl, rfl, rfl, rfl, rfl, id⟩ h
    | wh => exact writeHeaders_closed hP h
    | write bs => exact write_closed hP _ h
    | err c r => exact writeError_closed hP env _ _ h
    | redir p pm => exact writeRedirect_closed hP _ _ h
    | json bd c => exact writeJson_closed hP _ _ h
    | close => exact close_closed hP h
    | note o => exact hP.note _ _ hq h

theorem foldl_apiPrim_closed {P : Sock → Prop} (hP : ApiClosed P) (env : Env) (ops : List ApiOp)
    (hq : ops.all qOp = true) {s : Sock} (h : P s) : P (ops.foldl (apiPrim env) s) := by
  induction ops generalizing s with
  | nil => exact h
  | cons op ops ih =>
    simp only [List.all_cons, Bool.and_eq_true] at hq
    exact ih hq.2 (apiPrim_closed hP env hq.1 h)

end Qhttp.C19L
