import Qhttp.Model.BasicAuth
/-
  The standard base64 encoder (RFC 4648 alphabet, '=' padding) and the round trip through the
  model of Qt's lenient decoder `fromBase64`.
-/
namespace Qhttp
namespace BasicAuth

/-- the base64 alphabet -/
def b64char (n : Nat) : UInt8 :=
  if n < 26 then UInt8.ofNat (65 + n)
  else if n < 52 then UInt8.ofNat (97 + (n - 26))
  else if n < 62 then UInt8.ofNat (48 + (n - 52))
  else if n = 62 then 43 else 47

def PAD : UInt8 := 61

/-- standard base64 with '=' padding -/
def b64encode : Bytes → Bytes
  | [] => []
  | [x] => [b64char (x.toNat / 4), b64char (x.toNat % 4 * 16), PAD, PAD]
  | [x, y] => [b64char (x.toNat / 4), b64char (x.toNat % 4 * 16 + y.toNat / 16),
               b64char (y.toNat % 16 * 4), PAD]
  | x :: y :: z :: rest =>
      b64char (x.toNat / 4) :: b64char (x.toNat % 4 * 16 + y.toNat / 16) ::
      b64char (y.toNat % 16 * 4 + z.toNat / 64) :: b64char (z.toNat % 64) :: b64encode rest

theorem b64val_b64char : ∀ n, n < 64 → b64val (b64char n) = some n := by decide

theorem b64val_PAD : b64val PAD = none := by decide

/-- one decoder step on an alphabet character -/
theorem b64dec_char (buf nbits n : Nat) (hn : n < 64) (cs : Bytes) :
    b64dec buf nbits (b64char n :: cs) =
      if nbits + 6 ≥ 8 then
        UInt8.ofNat ((buf * 64 + n) / 2 ^ (nbits + 6 - 8)) ::
          b64dec ((buf * 64 + n) % 2 ^ (nbits + 6 - 8)) (nbits + 6 - 8) cs
      else b64dec (buf * 64 + n) (nbits + 6) cs := by
  rw [b64dec]
  simp only [b64val_b64char n hn]

/-- padding (like every byte outside the alphabet) is skipped -/
theorem b64dec_PAD (buf nbits : Nat) (cs : Bytes) : b64dec buf nbits (PAD :: cs) = b64dec buf nbits cs := by
  rw [b64dec]
  simp only [b64val_PAD]

theorem b64dec_nil (buf nbits : Nat) : b64dec buf nbits [] = [] := by rw [b64dec]

theorem ofNat_toNat (x : UInt8) : UInt8.ofNat x.toNat = x := by simp

/-- a full group of four characters decodes to its three bytes and returns to the empty state -/
theorem b64dec_group (x y z : UInt8) (cs : Bytes) :
    b64dec 0 0 (b64char (x.toNat / 4) :: b64char (x.toNat % 4 * 16 + y.toNat / 16) ::
      b64char (y.toNat % 16 * 4 + z.toNat / 64) :: b64char (z.toNat % 64) :: cs)
    = x :: y :: z :: b64dec 0 0 cs := by
  have hx := x.toNat_lt
  have hy := y.toNat_lt
  have hz := z.toNat_lt
  rw [b64dec_char _ _ _ (by omega), if_neg (by omega)]
  rw [b64dec_char _ _ _ (by omega), if_pos (by omega)]
  rw [show (0 + 6 + 6 - 8 : Nat) = 4 from rfl, show (2 : Nat) ^ 4 = 16 from rfl]
  rw [b64dec_char _ _ _ (by omega), if_pos (by omega)]
  rw [show (4 + 6 - 8 : Nat) = 2 from rfl, show (2 : Nat) ^ 2 = 4 from rfl]
  rw [b64dec_char _ _ _ (by omega), if_pos (by omega)]
  rw [show (2 + 6 - 8 : Nat) = 0 from rfl, show (2 : Nat) ^ 0 = 1 from rfl]
  have e1 : (0 * 64 + x.toNat / 4) * 64 + (x.toNat % 4 * 16 + y.toNat / 16) = x.toNat * 16 + y.toNat / 16 := by
    omega
  rw [e1]
  have e2 : (x.toNat * 16 + y.toNat / 16) / 16 = x.toNat := by omega
  have e3 : (x.toNat * 16 + y.toNat / 16) % 16 = y.toNat / 16 := by omega
  rw [e2, e3]
  have e4 : (y.toNat / 16 * 64 + (y.toNat % 16 * 4 + z.toNat / 64)) / 4 = y.toNat := by omega
  have e5 : (y.toNat / 16 * 64 + (y.toNat % 16 * 4 + z.toNat / 64)) % 4 = z.toNat / 64 := by omega
  rw [e4, e5]
  have e6 : (z.toNat / 64 * 64 + z.toNat % 64) / 1 = z.toNat := by omega
  have e7 : (z.toNat / 64 * 64 + z.toNat % 64) % 1 = 0 := by omega
  rw [e6, e7, ofNat_toNat, ofNat_toNat, ofNat_toNat]

/-- the one-byte tail: two characters and two pads -/
theorem b64dec_tail1 (x : UInt8) :
    b64dec 0 0 [b64char (x.toNat / 4), b64char (x.toNat % 4 * 16), PAD, PAD] = [x] := by
  have hx := x.toNat_lt
  rw [b64dec_char _ _ _ (by omega), if_neg (by omega)]
  rw [b64dec_char _ _ _ (by omega), if_pos (by omega)]
  rw [show (0 + 6 + 6 - 8 : Nat) = 4 from rfl, show (2 : Nat) ^ 4 = 16 from rfl]
  rw [b64dec_PAD, b64dec_PAD, b64dec_nil]
  have e2 : ((0 * 64 + x.toNat / 4) * 64 + x.toNat % 4 * 16) / 16 = x.toNat := by omega
  rw [e2, ofNat_toNat]

/-- the two-byte tail: three characters and one pad -/
theorem b64dec_tail2 (x y : UInt8) :
    b64dec 0 0 [b64char (x.toNat / 4), b64char (x.toNat % 4 * 16 + y.toNat / 16),
      b64char (y.toNat % 16 * 4), PAD] = [x, y] := by
  have hx := x.toNat_lt
  have hy := y.toNat_lt
  rw [b64dec_char _ _ _ (by omega), if_neg (by omega)]
  rw [b64dec_char _ _ _ (by omega), if_pos (by omega)]
  rw [show (0 + 6 + 6 - 8 : Nat) = 4 from rfl, show (2 : Nat) ^ 4 = 16 from rfl]
  rw [b64dec_char _ _ _ (by omega), if_pos (by omega)]
  rw [show (4 + 6 - 8 : Nat) = 2 from rfl, show (2 : Nat) ^ 2 = 4 from rfl]
  rw [b64dec_PAD, b64dec_nil]
  have e1 : (0 * 64 + x.toNat / 4) * 64 + (x.toNat % 4 * 16 + y.toNat / 16) = x.toNat * 16 + y.toNat / 16 := by
    omega
  rw [e1]
  have e2 : (x.toNat * 16 + y.toNat / 16) / 16 = x.toNat := by omega
  have e3 : (x.toNat * 16 + y.toNat / 16) % 16 = y.toNat / 16 := by omega
  rw [e2, e3]
  have e4 : (y.toNat / 16 * 64 + y.toNat % 16 * 4) / 4 = y.toNat := by omega
  rw [e4, ofNat_toNat, ofNat_toNat]

/-- decoding the standard encoding of any byte string gives the byte string back -/
theorem b64_roundtrip (x : Bytes) : fromBase64 (b64encode x) = x := by
  unfold fromBase64
  induction x using b64encode.induct with
  | case1 => rfl
  | case2 x => rw [b64encode]; exact b64dec_tail1 x
  | case3 x y => rw [b64encode]; exact b64dec_tail2 x y
  | case4 x y z rest ih => rw [b64encode, b64dec_group, ih]

/-- the encoder's output stays in the alphabet plus '=': in particular no space -/
theorem b64char_ne_SP (n : Nat) : b64char n ≠ SP := by
  unfold b64char
  by_cases h : n < 64
  · revert n; decide
  · have h1 : ¬ n < 26 := by omega
    have h2 : ¬ n < 52 := by omega
    have h3 : ¬ n < 62 := by omega
    have h4 : ¬ n = 62 := by omega
    simp only [h1, h2, h3, h4, if_false]
    decide

theorem SP_not_mem_b64encode (x : Bytes) : SP ∉ b64encode x := by
  induction x using b64encode.induct with
  | case1 => simp [b64encode]
  | case2 x =>
    rw [b64encode]
    simp only [List.mem_cons, List.not_mem_nil, or_false, not_or]
    exact ⟨(b64char_ne_SP _).symm, (b64char_ne_SP _).symm, by decide, by decide⟩
  | case3 x y =>
    rw [b64encode]
    simp only [List.mem_cons, List.not_mem_nil, or_false, not_or]
    exact ⟨(b64char_ne_SP _).symm, (b64char_ne_SP _).symm, (b64char_ne_SP _).symm, by decide⟩
  | case4 x y z rest ih =>
    rw [b64encode]
    simp only [List.mem_cons, not_or]
    exact ⟨(b64char_ne_SP _).symm, (b64char_ne_SP _).symm, (b64char_ne_SP _).symm,
      (b64char_ne_SP _).symm, ih⟩

/-- `dXNlcjpwYXNz` -/
example : b64encode (lit ['u','s','e','r',':','p','a','s','s']) =
    lit ['d','X','N','l','c','j','p','w','Y','X','N','z'] := by decide
example : b64encode (lit ['a',':','b']) = lit ['Y','T','p','i'] := by decide
example : b64encode (lit ['a',':']) = lit ['Y','T','o','='] := by decide
example : b64encode (lit ['a']) = lit ['Y','Q','=','='] := by decide

end BasicAuth
end Qhttp
