import Qhttp.Lemmas.HttpRender
import Qhttp.Lemmas.C02First
import Qhttp.Lemmas.C01Parser
/-
  `Http.parse_render` under the weakest natural side conditions: the pieces (start line, header
  names, header values) need only be free of the line break CR LF — a lone CR (or LF) is an
  ordinary byte — and the names non-empty and free of ':'.  Everything `Parser::parseHeaderList`
  produces satisfies this (`C01Parser`/`ProxyHead`), so the proxy theorems need no hypothesis on
  the client's or the upstream server's header lines.
-/
namespace Qhttp.Http
open Qhttp Qhttp.HB

/-- what `parse_render_w` needs of a header entry: the name is non-empty and free of `:`, name and
    value are free of CR LF -/
def EntryOkW (e : Bytes × Bytes) : Prop :=
  e.1 ≠ [] ∧ COLON ∉ e.1 ∧ ¬ CRLF <:+: e.1 ∧ ¬ CRLF <:+: e.2

theorem entryOkW_of_entryOk {e : Bytes × Bytes} (h : EntryOk e) : EntryOkW e :=
  ⟨h.1, h.2.1, fun c => h.2.2.1 (CR_mem_of_CRLF_infix c), fun c => h.2.2.2 (CR_mem_of_CRLF_infix c)⟩

theorem line_ne_nil (e : Bytes × Bytes) : line e ≠ [] := by
  simp [line]

theorem line_noCRLF {e : Bytes × Bytes} (h : EntryOkW e) : ¬ CRLF <:+: line e := by
  obtain ⟨_, _, h3, h4⟩ := h
  have hv : ¬ CRLF <:+: [] ++ [SP] ++ e.2 :=
    not_infix_append_sep (fun c => by have := c.length_le; simp [CRLF] at this) h4 (by decide)
  have := not_infix_append_sep (c := COLON) h3 hv (by decide)
  simpa [line, List.append_assoc] using this

theorem headerLine_line_w {e : Bytes × Bytes} (h : EntryOkW e) : headerLine (line e) = some e := by
  obtain ⟨k, v⟩ := e
  obtain ⟨h1, h2, _, _⟩ := h
  simp only [headerLine, line]
  rw [breakOn_COLONSP_found _ h2]
  have : containsByte COLON k = false := containsByte_eq_false.mpr h2
  cases k with
  | nil => exact absurd rfl h1
  | cons c k => simp [this]

theorem headerLines_map_line_w (m : List (Bytes × Bytes)) (hm : ∀ e ∈ m, EntryOkW e) :
    headerLines (m.map line) = some m := by
  induction m with
  | nil => rfl
  | cons e m ih =>
    simp only [List.map_cons, headerLines, headerLine_line_w (hm e (by simp)),
      ih (fun e h => hm e (by simp [h]))]

theorem joinWith_lines (start : Bytes) (m : List (Bytes × Bytes)) :
    joinWith CRLF (start :: m.map line) = start ++ hl2 m := by
  rw [joinWith_cons_eq_flatMap, hl2, List.flatMap_map]

/-- **the strict reader inverts the serialiser**, general form: a non-empty start line free of
    CR LF, header entries whose names are non-empty and free of `:`, names and values free of
    CR LF, any body. -/
theorem parse_render_w (start : Bytes) (m : List (Bytes × Bytes)) (body : Bytes)
    (hne : start ≠ []) (hs : ¬ CRLF <:+: start) (hm : ∀ e ∈ m, EntryOkW e) :
    parse (start ++ CRLF ++ Sock.headerLines m ++ CRLF ++ body) =
      some { start := start, headers := m, body := body } := by
  have hw : start ++ CRLF ++ Sock.headerLines m ++ CRLF ++ body =
      joinWith CRLF (start :: m.map line) ++ CRLF2 ++ body := by
    rw [joinWith_lines, List.append_assoc start, CRLF_headerLines]; simp [List.append_assoc, CRLF, CRLF2]
  have hfree : ∀ q ∈ start :: m.map line, ¬ CRLF <:+: q := by
    intro q hq
    rcases List.mem_cons.1 hq with rfl | hq
    · exact hs
    · obtain ⟨e, he, rfl⟩ := List.mem_map.1 hq
      exact line_noCRLF (hm e he)
  have hnonempty : ∀ q ∈ start :: m.map line, q ≠ [] := by
    intro q hq
    rcases List.mem_cons.1 hq with rfl | hq
    · exact hne
    · obtain ⟨e, _, rfl⟩ := List.mem_map.1 hq
      exact line_ne_nil e
  -- the blank line that ends the head is the first one
  have hfirst : ¬ CRLF2 <:+: joinWith CRLF (start :: m.map line) ++ CRLF2.dropLast := by
    have e : joinWith CRLF (start :: m.map line) ++ CRLF2.dropLast =
        joinWith CRLF ((start :: m.map line) ++ [[13]]) := by
      rw [C02.joinWith_append _ _ _ (by simp) (by simp)]
      simp [joinWith, CRLF2, CRLF, List.append_assoc]
    rw [e]
    apply C02.no_CRLF2_joinWith _ (by simp)
    · intro q hq
      rcases List.mem_append.1 hq with hq | hq
      · exact hfree q hq
      · have : q = [13] := by simpa using hq
        subst this
        intro c; have := c.length_le; simp [CRLF] at this
    · intro q hq
      rcases List.mem_append.1 hq with hq | hq
      · exact hnonempty q hq
      · have : q = [13] := by simpa using hq
        subst this; simp
  rw [hw, parse, breakOn_of_not_infix body (by decide) hfirst]
  simp only
  have hsplit : splitF CRLF ((joinWith CRLF (start :: m.map line)).length + 1) none
      (joinWith CRLF (start :: m.map line)) = start :: m.map line := by
    have h0 := split_eq_splitF CRLF_ne_nil 0 (Nat.lt_succ_self (joinWith CRLF (start :: m.map line)).length)
    rw [show limOf 0 = none from rfl] at h0
    rw [← h0]
    exact split_CRLF_joinWith _ (by simp) hfree
  rw [hsplit]
  simp only [headerLines_map_line_w m hm]

end Qhttp.Http
