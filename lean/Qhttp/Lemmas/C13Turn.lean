import Qhttp.Lemmas.C13Relay
/-
  C13: the event-level functions of the proxy model (`marker`, `sockEvent`, `turn`, `step`) cut
  into stages; what each does to a closed socket (item 7c) and `onUpstreamError` (item 7a).
-/
namespace Qhttp.C13L
open Qhttp Qhttp.Sock Qhttp.Proxy

/-! ### functions that do not touch the socket -/

theorem afterRoute_sock (n : Nat) (st : St) : (afterRoute n st).sock = st.sock := by
  unfold afterRoute; split <;> rfl

theorem relayReads_sock (st : St) : (relayReads st).sock = st.sock := by
  unfold relayReads; dsimp only; split
  · rfl
  · split <;> rfl

theorem relayReads_fields (st : St) :
    ((relayReads st).conn, (relayReads st).headersParsed, (relayReads st).upRead, (relayReads st).fromUp,
      (relayReads st).upClosing) = (st.conn, st.headersParsed, st.upRead, st.fromUp, st.upClosing) := by
  unfold relayReads; dsimp only; split
  · rfl
  · split <;> rfl

theorem afterRoute_fields (n : Nat) (st : St) :
    ((afterRoute n st).headersParsed, (afterRoute n st).upRead, (afterRoute n st).fromUp,
      (afterRoute n st).upClosing) = (st.headersParsed, st.upRead, st.fromUp, st.upClosing) := by
  unfold afterRoute; split <;> rfl

theorem afterRoute_conn_of_ne (n : Nat) (st : St) (h : st.conn ≠ .none) : (afterRoute n st).conn = st.conn := by
  unfold afterRoute
  have : (st.conn == UpConn.none) = false := by cases hc : st.conn <;> simp_all
  simp [this]

/-! ### one event-loop turn in stages -/

def evCount (l : List Obs) : Nat := Obs.countP (fun o => match o with | .ev _ => true | _ => false) l

/-- the marker, the queued initial read, then the proxy's reaction to what the socket emitted -/
def tStage1 (env : Env) (st : St) : St :=
  let s := st.sock
  let hpBefore := Obs.countP Obs.isHp s.log
  let s := { s with log := s.log ++ [Obs.ev (evCount s.log)] }
  let s := if s.initPending then Sock.onReadyRead env app { s with initPending := false } else s
  relayReads (afterRoute hpBefore { st with sock := s })

/-- the connection attempt completes -/
def tStage2 (env : Env) (c : Cfg) (st : St) : St :=
  if st.conn == .connecting then
    if c.refuse then onUpstreamError env { st with conn := .closed }
    else { st with conn := .connected, headersWritten := true,
                   toUp := st.toUp ++ upstreamHead c st.sock ++ st.buf, buf := [] }
  else st

/-- everything written upstream reaches the upstream server -/
def tStage3 (st : St) : St :=
  if st.conn == .connected && !st.toUp.isEmpty
  then { st with sock := { st.sock with log := st.sock.log ++ [Obs.misc 20 st.toUp] }, toUp := [] } else st

/-- everything the upstream server wrote reaches the proxy -/
def tStage4 (env : Env) (st : St) : St :=
  if st.conn == .connected then deliverAll env st.fromUp { st with fromUp := [] } else st

/-- then its close -/
def tStage5 (env : Env) (st : St) : St :=
  if st.conn == .connected && st.upClosing then onUpstreamError env { st with conn := .closed, upClosing := false }
  else st

/-- deferred deletion -/
def tStage6 (st : St) : St :=
  let s := st.sock
  { st with sock := if s.delPending then { s with alive := false, delPending := false, log := s.log ++ [Obs.del] } else s }

theorem turn_eq (env : Env) (c : Cfg) (st : St) :
    Proxy.turn env c st =
      if !st.sock.alive then st
      else tStage6 (tStage5 env (tStage4 env (tStage3 (tStage2 env c (tStage1 env st))))) := by
  unfold Proxy.turn
  extract_lets s hpBefore k s1 s2 st1 stc st2 src3 st3 st4 st5 s6
  have e1 : st1 = tStage1 env st := rfl
  have e2 : st2 = tStage2 env c st1 := rfl
  have e3 : st3 = tStage3 st2 := rfl
  have e4 : st4 = tStage4 env st3 := rfl
  have e5 : st5 = tStage5 env st4 := rfl
  rw [← e1, ← e2, ← e3, ← e4, ← e5]
  rfl

/-! ### the socket's own events on a closed socket -/

theorem onReadyRead_shut (env : Env) (a : App) {s : Sock} (hrs : s.rs = .finished) (hd : s.tcp.devOpen = false) :
    onReadyRead env a s = s := by
  simp [onReadyRead, hrs, hd]

/-- the socket events of a C13 history -/
def sockEvOk : Event → Bool
  | .feed _ | .ack _ | .ackAll | .turn => true
  | _ => false

theorem frozen_step (env : Env) {w : Bytes} {s : Sock} (h : Frozen w s) {e : Event} (he : sockEvOk e = true) :
    Frozen w (Sock.step env app s e) := by
  by_cases ha : s.alive = true
  · have hn : ¬ (!s.alive) = true := by simp [ha]
    cases e <;> simp only [sockEvOk, Bool.false_eq_true] at he <;>
      (unfold Sock.step; rw [if_neg hn]; dsimp only)
    · rename_i seg
      rw [onReadyRead_shut env app (by exact h.shut.rs) (by exact h.shut.dev)]
      exact h.same rfl rfl
    · obtain ⟨h1, w1⟩ := wshut_ackN env h.shut ‹Nat›
      exact ⟨h1, w1.trans h.wire⟩
    · obtain ⟨h1, w1⟩ := wshut_ackN env h.shut s.tcp.unacked
      exact ⟨h1, w1.trans h.wire⟩
    · by_cases hi : s.initPending = true
      · rw [if_pos hi]
        rw [onReadyRead_shut env app (s := { s with initPending := false }) h.shut.rs h.shut.dev]
        have h1 : Frozen w { s with initPending := false } := h.same rfl rfl
        split
        · exact h1.of_eq rfl [Obs.del] (by simp [quiet_del]) rfl
        · exact h1
      · rw [if_neg hi]
        split
        · exact h.of_eq rfl [Obs.del] (by simp [quiet_del]) rfl
        · exact h
  · have : Sock.step env app s e = s := by simp [Sock.step, ha]
    rw [this]; exact h

theorem frozen_mark {w : Bytes} {s : Sock} (h : Frozen w s) (k : Nat) :
    Frozen w (if !s.alive then s else { s with log := s.log ++ [Obs.ev k] }) := by
  split
  · exact h
  · exact h.of_eq rfl [Obs.ev k] (by simp [quiet_ev]) rfl

theorem frozen_stepK (env : Env) {w : Bytes} {s : Sock} (k : Nat) (h : Frozen w s) {e : Event}
    (he : sockEvOk e = true) : Frozen w (Sock.stepK env app (s, k) e).1 :=
  frozen_step env (frozen_mark h k) he

/-! ### item 7c: the proxy's events on a closed socket -/

theorem sockEvent_sock (env : Env) (st : St) (e : Event) :
    (sockEvent env st e).sock = (Sock.stepK env app (st.sock, evCount st.sock.log) e).1 := by
  unfold sockEvent
  dsimp only
  rw [relayReads_sock, afterRoute_sock]
  rfl

theorem frozen_sockEvent (env : Env) {w : Bytes} {st : St} (h : Frozen w st.sock) {e : Event}
    (he : sockEvOk e = true) : Frozen w (sockEvent env st e).sock := by
  rw [sockEvent_sock]; exact frozen_stepK env _ h he

theorem frozen_marker {w : Bytes} {st : St} (h : Frozen w st.sock) : Frozen w (marker st).sock := by
  unfold marker
  dsimp only
  split
  · exact h
  · exact h.of_eq rfl [Obs.ev _] (by simp [quiet_ev]) rfl

theorem frozen_tStage1 (env : Env) {w : Bytes} {st : St} (h : Frozen w st.sock) :
    Frozen w (tStage1 env st).sock := by
  unfold tStage1
  dsimp only
  rw [relayReads_sock, afterRoute_sock]
  have h0 : Frozen w { st.sock with log := st.sock.log ++ [Obs.ev (evCount st.sock.log)] } :=
    h.of_eq rfl [Obs.ev _] (by simp [quiet_ev]) rfl
  show Frozen w (if st.sock.initPending = true then _ else _)
  split
  · rw [onReadyRead_shut env app (by exact h.shut.rs) (by exact h.shut.dev)]
    exact h0.same rfl rfl
  · exact h0

theorem frozen_tStage2 (env : Env) (c : Cfg) {w : Bytes} {st : St} (h : Frozen w st.sock) :
    Frozen w (tStage2 env c st).sock := by
  unfold tStage2
  split
  · split
    · exact frozen_onUpstreamError env (st := { st with conn := .closed }) h
    · exact h
  · exact h

theorem frozen_tStage3 {w : Bytes} {st : St} (h : Frozen w st.sock) : Frozen w (tStage3 st).sock := by
  unfold tStage3
  split
  · exact h.of_eq rfl [Obs.misc 20 st.toUp] (by simp [quiet_misc]) rfl
  · exact h

theorem frozen_tStage4 (env : Env) {w : Bytes} {st : St} (h : Frozen w st.sock) :
    Frozen w (tStage4 env st).sock := by
  unfold tStage4
  split
  · exact frozen_deliverAll env st.fromUp (st := { st with fromUp := [] }) h
  · exact h

theorem frozen_tStage5 (env : Env) {w : Bytes} {st : St} (h : Frozen w st.sock) :
    Frozen w (tStage5 env st).sock := by
  unfold tStage5
  split
  · exact frozen_onUpstreamError env (st := { st with conn := .closed, upClosing := false }) h
  · exact h

theorem frozen_tStage6 {w : Bytes} {st : St} (h : Frozen w st.sock) : Frozen w (tStage6 st).sock := by
  unfold tStage6
  dsimp only
  split
  · exact h.of_eq rfl [Obs.del] (by simp [quiet_del]) rfl
  · exact h

theorem frozen_turn (env : Env) (c : Cfg) {w : Bytes} {st : St} (h : Frozen w st.sock) :
    Frozen w (Proxy.turn env c st).sock := by
  rw [turn_eq]
  split
  · exact h
  · exact frozen_tStage6 (frozen_tStage5 env (frozen_tStage4 env (frozen_tStage3
      (frozen_tStage2 env c (frozen_tStage1 env h)))))

/-- the events of a C13 history -/
def pevOk : PEv → Bool
  | .sock e => sockEvOk e
  | _ => true

/-- **7c**: once the transport is closed no event of the history changes the wire -/
theorem frozen_pstep (env : Env) (c : Cfg) {w : Bytes} {st : St} (h : Frozen w st.sock) {e : PEv}
    (he : pevOk e = true) : Frozen w (Proxy.step env c st e).sock := by
  cases e with
  | sock e => exact frozen_sockEvent env h he
  | turn => exact frozen_turn env c h
  | up b =>
    show Frozen w (if (marker st).conn == .connected then { marker st with fromUp := (marker st).fromUp ++ [b] }
      else marker st).sock
    split
    · exact frozen_marker h
    · exact frozen_marker h
  | upClose =>
    show Frozen w (if (marker st).conn == .connected then { marker st with upClosing := true }
      else marker st).sock
    split
    · exact frozen_marker h
    · exact frozen_marker h

theorem frozen_run (env : Env) (c : Cfg) {w : Bytes} (evs : List PEv) : ∀ {st : St}, Frozen w st.sock →
    (∀ e ∈ evs, pevOk e = true) → Frozen w (evs.foldl (Proxy.step env c) st).sock := by
  induction evs with
  | nil => intro st h _; exact h
  | cons e evs ih =>
    intro st h he
    exact ih (frozen_pstep env c h (he e (by simp))) (fun x hx => he x (by simp [hx]))

/-! ### item 7a: `onUpstreamError` on an open socket -/

/-- before a head was relayed: exactly the 502 response, transport closed -/
theorem onUpstreamError_502 (env : Env) {st : St} (h : WOpen st.sock) (hp : st.headersParsed = false) :
    Frozen (Obs.wire st.sock.log ++ err502 env st.sock.respHeaders) (onUpstreamError env st).sock ∧
    (onUpstreamError env st).sock.alive = true := by
  have e : onUpstreamError env st =
      { st with sock := Sock.api env app st.sock (.err 502 none), errored := true } := by
    simp [onUpstreamError, hp]
  rw [e]
  obtain ⟨h1, w1, a1⟩ := wshut_api_err env h 502
  exact ⟨⟨h1, w1⟩, a1⟩

/-- after a head was relayed: the connection is closed, nothing more is written -/
theorem onUpstreamError_close (env : Env) {st : St} (h : WOpen st.sock) (hp : st.headersParsed = true) :
    Frozen (Obs.wire st.sock.log) (onUpstreamError env st).sock ∧
    (onUpstreamError env st).sock.alive = true := by
  have e : onUpstreamError env st =
      { st with sock := Sock.api env app st.sock .close, errored := true } := by
    simp [onUpstreamError, hp]
  rw [e]
  obtain ⟨h1, w1, a1⟩ := wshut_api_close env h
  exact ⟨⟨h1, w1⟩, a1⟩

end Qhttp.C13L
