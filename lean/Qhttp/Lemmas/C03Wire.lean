import Qhttp.Lemmas.C03Hdr
/-
  Model-side facts for C03: what each response-side call, acknowledgement and event-loop turn
  does to the history of observations while the response is open (`Open`) and after the
  library closed the transport (`Shut`).
-/
namespace Qhttp.C03L
open Qhttp Qhttp.HB Qhttp.Http Qhttp.Sock

/-! ### observations -/

/-- the byte chunks that reached the transport, in order -/
def chunks (l : List Obs) : List Bytes := l.filterMap fun o => match o with | .w b => some b | _ => none

theorem wire_eq_chunks (l : List Obs) : Obs.wire l = (chunks l).flatten := by
  induction l with
  | nil => rfl
  | cons o l ih =>
    simp only [Obs.wire, chunks, List.flatMap_cons, List.filterMap_cons] at ih ⊢
    cases o <;> simp [ih]

def afterTc (l : List Obs) : List Obs := l.dropWhile fun o => !Obs.isTc o

/-- neither a write nor the close of the transport -/
def quietObs (o : Obs) : Bool := !Obs.isW o && !Obs.isTc o

theorem chunks_append (l l' : List Obs) : chunks (l ++ l') = chunks l ++ chunks l' := by
  simp [chunks]

theorem chunks_quiet {o : Obs} (h : Obs.isW o = false) : chunks [o] = [] := by
  cases o <;> simp_all [chunks, Obs.isW]

theorem chunks_w (b : Bytes) : chunks [Obs.w b] = [b] := rfl

def LogOpen (l : List Obs) : Prop := ∀ o ∈ l, Obs.isTc o = false

structure LogShut (l : List Obs) : Prop where
  oneTc : Obs.countP Obs.isTc l = 1
  noW : Obs.countP Obs.isW (afterTc l) = 0

theorem LogOpen.snoc {l : List Obs} {o : Obs} (h : LogOpen l) (ho : Obs.isTc o = false) : LogOpen (l ++ [o]) := by
  intro x hx
  rcases List.mem_append.mp hx with hx | hx
  · exact h x hx
  · simp at hx; subst hx; exact ho

theorem afterTc_eq_nil_iff {l : List Obs} : afterTc l = [] ↔ LogOpen l := by
  induction l with
  | nil => simp [afterTc, LogOpen]
  | cons a l ih =>
    simp only [afterTc, LogOpen, List.dropWhile_cons, List.mem_cons, forall_eq_or_imp] at ih ⊢
    cases h : Obs.isTc a <;> simp [ih]

theorem afterTc_snoc (l : List Obs) (o : Obs) :
    afterTc (l ++ [o]) = if afterTc l = [] then (if Obs.isTc o then [o] else []) else afterTc l ++ [o] := by
  induction l with
  | nil => simp only [afterTc, List.nil_append, List.dropWhile_cons, List.dropWhile_nil]; cases Obs.isTc o <;> simp
  | cons a l ih =>
    simp only [afterTc, List.cons_append, List.dropWhile_cons] at ih ⊢
    cases h : Obs.isTc a
    · simp only [Bool.not_false, if_true]; exact ih
    · simp

theorem afterTc_of_logOpen {l : List Obs} (h : LogOpen l) : afterTc l = [] := afterTc_eq_nil_iff.mpr h

theorem countTc_of_logOpen {l : List Obs} (h : LogOpen l) : Obs.countP Obs.isTc l = 0 := by
  simp only [Obs.countP, List.length_eq_zero_iff, List.filter_eq_nil_iff]
  intro o ho; simp [h o ho]

theorem LogOpen.close {l : List Obs} (h : LogOpen l) : LogShut (l ++ [Obs.tc]) := by
  constructor
  · have := countTc_of_logOpen h
    simp only [Obs.countP] at this ⊢
    rw [List.filter_append, List.length_append, this]; rfl
  · rw [afterTc_snoc, afterTc_of_logOpen h]; rfl

theorem afterTc_ne_nil {l : List Obs} (h : Obs.countP Obs.isTc l = 1) : afterTc l ≠ [] := by
  intro e
  have := countTc_of_logOpen (afterTc_eq_nil_iff.mp e)
  omega

theorem LogShut.snoc {l : List Obs} {o : Obs} (h : LogShut l) (ho : quietObs o = true) : LogShut (l ++ [o]) := by
  simp only [quietObs, Bool.and_eq_true, Bool.not_eq_true'] at ho
  constructor
  · have := h.oneTc
    simp only [Obs.countP] at this ⊢
    simp [List.filter_append, this, ho.2]
  · have hne := afterTc_ne_nil h.oneTc
    have := h.noW
    rw [afterTc_snoc, if_neg hne]
    simp only [Obs.countP] at this ⊢
    simp [List.filter_append, this, ho.1]

/-! ### phases of the socket -/

structure Base (s : Sock) : Prop where
  dcF : s.dcFlag = false
  rb : s.readBuffer = []
  inbox : s.tcp.inbox = []
  rs : s.rs ≠ .data

/-- the response is open: nothing was closed yet -/
structure Open (s : Sock) : Prop extends Base s where
  alive : s.alive = true
  io : s.ioOpen = true
  dev : s.tcp.devOpen = true
  conn : s.tcp.conn = .connected
  noClose : s.closeCalled = false
  noDel : s.delPending = false
  logOpen : LogOpen s.log

/-- the library closed the transport (the object may already be deleted) -/
structure Shut (s : Sock) : Prop extends Base s where
  io : s.ioOpen = false
  dev : s.tcp.devOpen = false
  logShut : LogShut s.log

/-- the response-side calls -/
def respOp : ApiOp → Bool
  | .status _ _ | .hdr _ _ _ | .hdrs _ | .wh | .write _ | .err _ _ | .redir _ _ | .json _ _ | .close => true
  | _ => false

/-! ### quiet observations appended to a history -/

theorem LogOpen.append {l l' : List Obs} (h : LogOpen l) (h' : ∀ o ∈ l', quietObs o = true) : LogOpen (l ++ l') := by
  intro x hx
  rcases List.mem_append.mp hx with hx | hx
  · exact h x hx
  · have := h' x hx; simp only [quietObs, Bool.and_eq_true, Bool.not_eq_true'] at this; exact this.2

theorem LogShut.append {l l' : List Obs} (h : LogShut l) (h' : ∀ o ∈ l', quietObs o = true) : LogShut (l ++ l') := by
  induction l' generalizing l with
  | nil => simpa using h
  | cons o l' ih =>
    have : l ++ o :: l' = (l ++ [o]) ++ l' := by simp
    rw [this]
    exact ih (h.snoc (h' o (by simp))) (fun x hx => h' x (by simp [hx]))

theorem chunks_append_quiet {l l' : List Obs} (h' : ∀ o ∈ l', quietObs o = true) : chunks (l ++ l') = chunks l := by
  rw [chunks_append]
  suffices chunks l' = [] by simp [this]
  simp only [chunks, List.filterMap_eq_nil_iff]
  intro o ho
  have := h' o ho
  cases o <;> simp_all [quietObs, Obs.isW]

/-! ### phase predicates only look at a few fields -/

theorem Open.of_eq {s s' : Sock} (h : Open s)
    (hf : (s'.dcFlag, s'.readBuffer, s'.tcp.inbox, s'.rs, s'.alive, s'.ioOpen, s'.tcp.devOpen, s'.tcp.conn,
            s'.closeCalled, s'.delPending) =
          (s.dcFlag, s.readBuffer, s.tcp.inbox, s.rs, s.alive, s.ioOpen, s.tcp.devOpen, s.tcp.conn,
            s.closeCalled, s.delPending))
    (hl : LogOpen s'.log) : Open s' := by
  simp only [Prod.mk.injEq] at hf
  obtain ⟨h1, h2, h3, h4, h5, h6, h7, h8, h9, h10⟩ := hf
  obtain ⟨⟨a1, a2, a3, a4⟩, a5, a6, a7, a8, a9, a10, _⟩ := h
  exact ⟨⟨h1 ▸ a1, h2 ▸ a2, h3 ▸ a3, h4 ▸ a4⟩, h5 ▸ a5, h6 ▸ a6, h7 ▸ a7, h8 ▸ a8, h9 ▸ a9, h10 ▸ a10, hl⟩

theorem Shut.of_eq {s s' : Sock} (h : Shut s)
    (hf : (s'.dcFlag, s'.readBuffer, s'.tcp.inbox, s'.ioOpen, s'.tcp.devOpen) =
          (s.dcFlag, s.readBuffer, s.tcp.inbox, s.ioOpen, s.tcp.devOpen))
    (hrs : s'.rs ≠ .data) (hl : LogShut s'.log) : Shut s' := by
  simp only [Prod.mk.injEq] at hf
  obtain ⟨h1, h2, h3, h4, h5⟩ := hf
  obtain ⟨⟨a1, a2, a3, _⟩, a5, a6, _⟩ := h
  exact ⟨⟨h1 ▸ a1, h2 ▸ a2, h3 ▸ a3, hrs⟩, h4 ▸ a5, h5 ▸ a6, hl⟩

/-! ### calls that make no difference to the response -/

/-- calls that touch neither the response nor the transport -/
def passiveOp : ApiOp → Bool
  | .read _ | .readAll | .avail | .snap => true
  | .note o => quietObs o
  | _ => false

/-- `s'` differs from `s` only in the read-side buffers and in quiet observations appended -/
def PStep (s s' : Sock) : Prop :=
  ∃ q d l, s' = { s with qio := q, dataRead := d, log := s.log ++ l } ∧ ∀ o ∈ l, quietObs o = true

theorem PStep.refl (s : Sock) : PStep s s := ⟨s.qio, s.dataRead, [], by simp, by simp⟩

theorem PStep.trans {a c d : Sock} (h1 : PStep a c) (h2 : PStep c d) : PStep a d := by
  obtain ⟨q1, d1, l1, e1, p1⟩ := h1
  obtain ⟨q2, d2, l2, e2, p2⟩ := h2
  refine ⟨q2, d2, l1 ++ l2, by rw [e2, e1]; simp, ?_⟩
  intro o ho; rcases List.mem_append.mp ho with ho | ho
  · exact p1 o ho
  · exact p2 o ho

theorem readData_idle (s : Sock) (n : Nat) (hrb : s.readBuffer = []) :
    (readData s n).2 = [] ∧ ∃ d, (readData s n).1 = { s with dataRead := d } := by
  unfold readData
  split
  · exact ⟨rfl, s.dataRead, rfl⟩
  · refine ⟨by simp [hrb], s.dataRead + ((s.readBuffer.take n).length : Int), ?_⟩
    simp [hrb]

theorem read_idle (s : Sock) (n : Nat) (hrb : s.readBuffer = []) :
    ∃ q d, (Sock.read s n).1 = { s with qio := q, dataRead := d } := by
  unfold Sock.read
  dsimp only
  split
  · exact ⟨s.qio, s.dataRead, rfl⟩
  · split
    · exact ⟨s.qio.drop n, s.dataRead, rfl⟩
    · split
      · obtain ⟨_, d, hd⟩ := readData_idle { s with qio := s.qio.drop n } (n - (s.qio.take n).length) hrb
        exact ⟨s.qio.drop n, d, hd⟩
      · obtain ⟨_, d, hd⟩ := readData_idle { s with qio := s.qio.drop n } chunk hrb
        generalize readData { s with qio := s.qio.drop n } chunk = p at hd ⊢
        obtain ⟨s2, got⟩ := p
        dsimp only at hd
        subst hd
        exact ⟨(s.qio.drop n ++ got).drop (n - (s.qio.take n).length), d, rfl⟩

theorem readAll_idle (s : Sock) (hrb : s.readBuffer = []) :
    ∃ q d, (Sock.readAll s).1 = { s with qio := q, dataRead := d } := by
  unfold Sock.readAll
  dsimp only
  split
  · exact ⟨s.qio, s.dataRead, rfl⟩
  · obtain ⟨_, d, hd⟩ := readData_idle { s with qio := [] } s.readBuffer.length hrb
    exact ⟨[], d, hd⟩

theorem apiPrim_pstep (env : Env) (s : Sock) {op : ApiOp} (hop : passiveOp op = true) (hrb : s.readBuffer = []) :
    PStep s (apiPrim env s op) := by
  by_cases ha : s.alive = true
  · have hn : ¬ (!s.alive) = true := by simp [ha]
    cases op <;> simp only [passiveOp, Bool.false_eq_true] at hop <;>
      (unfold apiPrim; rw [if_neg hn]; dsimp only)
    · rename_i n
      obtain ⟨q, d, e⟩ := read_idle s n hrb
      exact ⟨q, d, [Obs.rd (Sock.read s n).2], by rw [e], by simp [quietObs, Obs.isW, Obs.isTc]⟩
    · obtain ⟨q, d, e⟩ := readAll_idle s hrb
      exact ⟨q, d, [Obs.rd (Sock.readAll s).2], by rw [e], by simp [quietObs, Obs.isW, Obs.isTc]⟩
    · exact ⟨s.qio, s.dataRead, [Obs.av (bytesAvailable s)], rfl, by simp [quietObs, Obs.isW, Obs.isTc]⟩
    · exact ⟨s.qio, s.dataRead, [Obs.snap (takeSnap s)], rfl, by simp [quietObs, Obs.isW, Obs.isTc]⟩
    · rename_i o
      exact ⟨s.qio, s.dataRead, [o], rfl, by simpa using hop⟩
  · have hn : (!s.alive) = true := by simpa using ha
    unfold apiPrim; rw [if_pos hn]; exact PStep.refl s

theorem PStep.rb {s s' : Sock} (h : PStep s s') : s'.readBuffer = s.readBuffer := by
  obtain ⟨q, d, l, e, _⟩ := h; rw [e]

theorem PStep.dcF {s s' : Sock} (h : PStep s s') : s'.dcFlag = s.dcFlag := by
  obtain ⟨q, d, l, e, _⟩ := h; rw [e]

theorem foldl_apiPrim_pstep (env : Env) (ops : List ApiOp) : ∀ (s : Sock), (∀ op ∈ ops, passiveOp op = true) →
    s.readBuffer = [] → PStep s (ops.foldl (apiPrim env) s) := by
  induction ops with
  | nil => intro s _ _; exact PStep.refl s
  | cons op ops ih =>
    intro s hops hrb
    have h1 := apiPrim_pstep env s (hops op (by simp)) hrb
    exact h1.trans (ih _ (fun x hx => hops x (by simp [hx])) (by rw [h1.rb, hrb]))

theorem foldl_api_pstep (env : Env) (app : App) (ops : List ApiOp) : ∀ (s : Sock),
    (∀ op ∈ ops, passiveOp op = true) → s.readBuffer = [] → s.dcFlag = false →
    PStep s (ops.foldl (api env app) s) := by
  induction ops with
  | nil => intro s _ _ _; exact PStep.refl s
  | cons op ops ih =>
    intro s hops hrb hdc
    have h1 := apiPrim_pstep env s (hops op (by simp)) hrb
    have e : api env app s op = apiPrim env s op := by simp [api, h1.dcF, hdc]
    rw [List.foldl_cons, e]
    exact h1.trans (ih _ (fun x hx => hops x (by simp [hx])) (by rw [h1.rb, hrb]) (by rw [h1.dcF, hdc]))

/-- an application whose reactions to `bytesWritten` and `disconnected` make no response-side call
    (they may read, query and record harmless notes); reactions to the request-side signals are
    unconstrained (no byte ever arrives in a C03 history) -/
def QuietApp (app : App) : Prop :=
  ∀ s, (∀ op ∈ app.onBw s, passiveOp op = true) ∧ (∀ op ∈ app.onDc s, passiveOp op = true)

theorem quietApp_of_nil {app : App} (h : ∀ s, app.onBw s = [] ∧ app.onDc s = []) : QuietApp app := by
  intro s; rw [(h s).1, (h s).2]; simp

/-! ### primitives -/

theorem tcpWrite_nil (s : Sock) : tcpWrite s [] = s := by simp [tcpWrite]

theorem tcpWrite_shut {s : Sock} (b : Bytes) (h : s.tcp.devOpen = false) : tcpWrite s b = s := by
  simp [tcpWrite, h]

theorem tcpWrite_open {s : Sock} {b : Bytes} (h : s.tcp.devOpen = true) (hc : s.tcp.conn = .connected)
    (hb : b ≠ []) :
    tcpWrite s b = { s with tcp := { s.tcp with wire := s.tcp.wire ++ b, unacked := s.tcp.unacked + b.length },
                            log := s.log ++ [Obs.w b] } := by
  simp [tcpWrite, h, hc, hb]

theorem headBytes_ne_nil (s : Sock) : headBytes s ≠ [] := by
  simp [headBytes, lit]

theorem emitDc_quiet {app : App} (hq : QuietApp app) (env : Env) (s : Sock) (hrb : s.readBuffer = []) :
    ∃ q d l, emitDc env app s =
        { s with dcFlag := false, qio := q, dataRead := d, log := s.log ++ Obs.dc :: l,
                 delPending := s.delPending || s.closeCalled } ∧
      ∀ o ∈ l, quietObs o = true := by
  obtain ⟨q, d, l, e, hl⟩ := foldl_apiPrim_pstep env
    (app.onDc { s with dcFlag := false, log := s.log ++ [Obs.dc] })
    { s with dcFlag := false, log := s.log ++ [Obs.dc] } (hq _).2 hrb
  refine ⟨q, d, l, ?_, hl⟩
  unfold emitDc
  dsimp only
  rw [e]
  simp

theorem onBytesWritten_eq {app : App} (hq : QuietApp app) (env : Env) (s : Sock) (n : Int)
    (hrb : s.readBuffer = []) (hdc : s.dcFlag = false) :
    ∃ x y q d l, onBytesWritten env app s n =
        { s with ws := x, hdrRemaining := y, qio := q, dataRead := d, log := s.log ++ l } ∧
      (x = .none ↔ s.ws = .none) ∧ (∀ o ∈ l, quietObs o = true) := by
  -- the `bytesWritten` emission with its reaction
  have hemit : ∀ (s' : Sock) (b : Int), s'.readBuffer = [] → s'.dcFlag = false →
      ∃ q d l, emit env app s' (.bw b) (app.onBw s') =
        { s' with qio := q, dataRead := d, log := s'.log ++ l } ∧ ∀ o ∈ l, quietObs o = true := by
    intro s' b hrb' hdc'
    obtain ⟨q, d, l, e, hl⟩ := foldl_api_pstep env app (app.onBw s')
      { s' with log := s'.log ++ [Obs.bw b] } (hq _).1 hrb' hdc'
    refine ⟨q, d, Obs.bw b :: l, ?_, ?_⟩
    · unfold emit apis; rw [e]; simp
    · intro o ho
      rcases List.mem_cons.mp ho with ho | ho
      · subst ho; rfl
      · exact hl o ho
  unfold onBytesWritten
  by_cases h1 : s.ws = .headers
  · by_cases h2 : s.hdrRemaining - n > 0
    · refine ⟨.headers, s.hdrRemaining - n, s.qio, s.dataRead, [], ?_, by simp [h1], by simp⟩
      simp only [h1, h2, if_true, reduceCtorEq, if_false, List.append_nil]
    · obtain ⟨q, d, l, e, hl⟩ := hemit { s with ws := .data } (n - s.hdrRemaining) hrb hdc
      refine ⟨.data, s.hdrRemaining, q, d, l, ?_, by simp [h1], hl⟩
      simp only [h1, h2, if_true, if_false]
      exact e
  · by_cases h2 : s.ws = .data
    · obtain ⟨q, d, l, e, hl⟩ := hemit s n hrb hdc
      refine ⟨.data, s.hdrRemaining, q, d, l, ?_, by simp [h2], hl⟩
      rw [if_neg h1]; dsimp only; rw [if_pos h2, e]
      simp [h2]
    · refine ⟨s.ws, s.hdrRemaining, s.qio, s.dataRead, [], ?_, by simp, by simp⟩
      rw [if_neg h1]; dsimp only; rw [if_neg h2]; simp

theorem onReadyRead_idle (env : Env) (app : App) (s : Sock) (hrb : s.readBuffer = []) (hin : s.tcp.inbox = [])
    (hrs : s.rs ≠ .data) : onReadyRead env app s = s := by
  rcases s with ⟨⟨inbox, wire, unacked, devOpen, conn⟩, readBuffer, qio, rs, method, rawPath, path, query,
    reqHeaders, dataRead, total, ws, code, reason, respHeaders, hdrRemaining, ioOpen, initPending,
    closeCalled, dcFlag, delPending, alive, log⟩
  simp only at hrb hin hrs
  subst hrb hin
  cases rs
  · cases devOpen <;> simp [onReadyRead, readHeaders, breakOn, CRLF2]
  · exact absurd rfl hrs
  · cases devOpen <;> simp [onReadyRead]

/-! ### the open phase -/

theorem Open.setHead {s : Sock} (h : Open s) (c : Int) (r : Bytes) (m : HeaderMap) :
    Open { s with code := c, reason := r, respHeaders := m } := h.of_eq rfl h.logOpen

theorem open_setStatusCode {s : Sock} (h : Open s) (c : Int) (r : Option Bytes) :
    Open (setStatusCode s c r) := h.of_eq rfl h.logOpen

theorem open_setHeader {s : Sock} (h : Open s) (n v : Bytes) (r : Bool) : Open (setHeader s n v r) := by
  rw [setHeader_eq]; exact h.of_eq rfl h.logOpen

theorem writeHeaders_open_eq {s : Sock} (h : Open s) :
    writeHeaders s =
      { s with ws := .headers, hdrRemaining := (headBytes s).length,
               tcp := { s.tcp with wire := s.tcp.wire ++ headBytes s,
                                   unacked := s.tcp.unacked + (headBytes s).length },
               log := s.log ++ [Obs.w (headBytes s)] } := by
  show tcpWrite { s with ws := .headers, hdrRemaining := (headBytes s).length } (headBytes s) = _
  exact tcpWrite_open h.dev h.conn (headBytes_ne_nil s)

theorem open_writeHeaders {s : Sock} (h : Open s) :
    Open (writeHeaders s) ∧ (writeHeaders s).log = s.log ++ [Obs.w (headBytes s)] ∧
    (writeHeaders s).ws = .headers := by
  rw [writeHeaders_open_eq h]
  exact ⟨h.of_eq rfl (h.logOpen.snoc rfl), rfl, rfl⟩

theorem open_tcpWrite {s : Sock} (h : Open s) (b : Bytes) :
    Open (tcpWrite s b) ∧ (tcpWrite s b).ws = s.ws ∧
    chunks (tcpWrite s b).log = chunks s.log ++ (if b = [] then [] else [b]) := by
  by_cases hb : b = []
  · subst hb; rw [tcpWrite_nil]; exact ⟨h, rfl, by simp⟩
  · rw [tcpWrite_open h.dev h.conn hb]
    refine ⟨h.of_eq rfl (h.logOpen.snoc rfl), rfl, ?_⟩
    simp [chunks_append, chunks_w, hb]

theorem open_write {s : Sock} (h : Open s) (b : Bytes) :
    Open (write s b) ∧ (write s b).ws ≠ .none ∧
    chunks (write s b).log =
      chunks s.log ++ (if s.ws = .none then [headBytes s] else []) ++ (if b = [] then [] else [b]) := by
  unfold write
  simp only [h.io, Bool.not_true, Bool.false_eq_true, if_false]
  by_cases hw : s.ws = .none
  · simp only [hw, if_true]
    obtain ⟨h1, h2, h3⟩ := open_writeHeaders h
    obtain ⟨h4, h5, h6⟩ := open_tcpWrite h1 b
    refine ⟨h4, by rw [h5, h3]; simp, ?_⟩
    rw [h6, h2, chunks_append, chunks_w]
  · simp only [hw, if_false]
    obtain ⟨h4, h5, h6⟩ := open_tcpWrite h b
    exact ⟨h4, by rw [h5]; exact hw, by rw [h6]; simp⟩

/-- `Socket::close` followed by the `disconnected` emission it may cause -/
def closeDc (env : Env) (app : App) (s : Sock) : Sock :=
  let s' := Sock.close s
  if s'.dcFlag then emitDc env app s' else s'

theorem open_closeDc {app : App} (hq : QuietApp app) (env : Env) {s : Sock} (h : Open s) :
    Shut (closeDc env app s) ∧ chunks (closeDc env app s).log = chunks s.log := by
  obtain ⟨⟨a1, a2, a3, a4⟩, a5, a6, a7, a8, a9, a10, a11⟩ := h
  have hl := a11.close
  by_cases hu : s.tcp.unacked = 0
  · have e0 : closeDc env app s = emitDc env app
        { s with ioOpen := false, qio := [], rs := .finished, ws := .finished, closeCalled := true,
                 tcp := { s.tcp with devOpen := false, conn := .unconnected },
                 dcFlag := true, log := s.log ++ [Obs.tc] } := by
      simp only [closeDc, Sock.close, tcpClose, a7, a8, hu]
      simp
    obtain ⟨q, d, l, e, hq'⟩ := emitDc_quiet hq env
        { s with ioOpen := false, qio := [], rs := .finished, ws := .finished, closeCalled := true,
                 tcp := { s.tcp with devOpen := false, conn := .unconnected },
                 dcFlag := true, log := s.log ++ [Obs.tc] } a2
    have hq2 : ∀ o ∈ Obs.dc :: l, quietObs o = true := by
      intro o ho
      rcases List.mem_cons.mp ho with ho | ho
      · subst ho; rfl
      · exact hq' o ho
    rw [e0, e]
    refine ⟨⟨⟨rfl, a2, a3, by simp⟩, rfl, rfl, hl.append hq2⟩, ?_⟩
    show chunks (s.log ++ [Obs.tc] ++ Obs.dc :: l) = chunks s.log
    rw [chunks_append_quiet hq2]; simp [chunks]
  · have : closeDc env app s =
        { s with ioOpen := false, qio := [], rs := .finished, ws := .finished, closeCalled := true,
                 tcp := { s.tcp with devOpen := false, conn := .closing },
                 log := s.log ++ [Obs.tc] } := by
      simp only [closeDc, Sock.close, tcpClose, a7, a8, hu]
      simp [a1]
    rw [this]
    refine ⟨⟨⟨a1, a2, a3, by simp⟩, rfl, rfl, hl⟩, ?_⟩
    simp [chunks]

/-! ### after the transport was closed -/

theorem shut_setStatusCode {s : Sock} (h : Shut s) (c : Int) (r : Option Bytes) :
    Shut (setStatusCode s c r) ∧ (setStatusCode s c r).log = s.log :=
  ⟨h.of_eq rfl h.rs h.logShut, rfl⟩

theorem shut_setHeader {s : Sock} (h : Shut s) (n v : Bytes) (r : Bool) :
    Shut (setHeader s n v r) ∧ (setHeader s n v r).log = s.log := by
  rw [setHeader_eq]; exact ⟨h.of_eq rfl h.rs h.logShut, rfl⟩

theorem shut_writeHeaders {s : Sock} (h : Shut s) :
    Shut (writeHeaders s) ∧ (writeHeaders s).log = s.log := by
  have : writeHeaders s = { s with ws := .headers, hdrRemaining := (headBytes s).length } := by
    show tcpWrite { s with ws := .headers, hdrRemaining := (headBytes s).length } (headBytes s) = _
    exact tcpWrite_shut _ h.dev
  rw [this]; exact ⟨h.of_eq rfl h.rs h.logShut, rfl⟩

theorem shut_write {s : Sock} (h : Shut s) (b : Bytes) : write s b = s := by
  simp [write, h.io]

theorem shut_close {s : Sock} (h : Shut s) :
    Shut (Sock.close s) ∧ (Sock.close s).log = s.log := by
  have : Sock.close s = { s with ioOpen := false, qio := [], rs := .finished, ws := .finished, closeCalled := true } := by
    simp [Sock.close, tcpClose, h.dev]
  rw [this]; exact ⟨h.of_eq (by simp [h.io]) (by simp) h.logShut, rfl⟩

theorem shut_apiPrim (env : Env) {s : Sock} (h : Shut s) {op : ApiOp} (hop : respOp op = true) :
    Shut (apiPrim env s op) ∧ (apiPrim env s op).log = s.log := by
  by_cases ha : s.alive = true
  · cases op <;> simp only [respOp, Bool.false_eq_true] at hop <;>
      simp only [apiPrim, ha, Bool.not_true, Bool.false_eq_true, if_false]
    · exact shut_setStatusCode h _ _
    · exact shut_setHeader h _ _ _
    · exact ⟨h.of_eq rfl h.rs h.logShut, trivial⟩
    · exact shut_writeHeaders h
    · rw [shut_write h]; exact ⟨h, rfl⟩
    · -- writeError
      rename_i c r
      simp only [writeError]
      obtain ⟨h1, e1⟩ := shut_setStatusCode h c r
      obtain ⟨h2, e2⟩ := shut_setHeader h1 CONTENT_LENGTH
        (natDigits (env.errPage (setStatusCode s c r).code (setStatusCode s c r).reason).length) true
      obtain ⟨h3, e3⟩ := shut_setHeader h2 CONTENT_TYPE TEXT_HTML true
      obtain ⟨h4, e4⟩ := shut_writeHeaders h3
      rw [shut_write h4]
      obtain ⟨h5, e5⟩ := shut_close h4
      exact ⟨h5, by rw [e5, e4, e3, e2, e1]⟩
    · rename_i p pm
      simp only [writeRedirect]
      obtain ⟨h1, e1⟩ := shut_setStatusCode h (if pm then 301 else 302) none
      obtain ⟨h2, e2⟩ := shut_setHeader h1 (lit ['L','o','c','a','t','i','o','n']) p true
      obtain ⟨h4, e4⟩ := shut_writeHeaders h2
      obtain ⟨h5, e5⟩ := shut_close h4
      exact ⟨h5, by rw [e5, e4, e2, e1]⟩
    · rename_i bd c
      simp only [writeJson]
      obtain ⟨h1, e1⟩ := shut_setStatusCode h c none
      obtain ⟨h2, e2⟩ := shut_setHeader h1 CONTENT_LENGTH (natDigits bd.length) true
      obtain ⟨h3, e3⟩ := shut_setHeader h2 CONTENT_TYPE APP_JSON true
      rw [shut_write h3]
      obtain ⟨h5, e5⟩ := shut_close h3
      exact ⟨h5, by rw [e5, e3, e2, e1]⟩
    · exact shut_close h
  · simp only [apiPrim, ha, Bool.not_false, if_true]; exact ⟨h, trivial⟩

theorem shut_api (env : Env) (app : App) {s : Sock} (h : Shut s) {op : ApiOp} (hop : respOp op = true) :
    Shut (api env app s op) ∧ (api env app s op).log = s.log := by
  obtain ⟨h1, e1⟩ := shut_apiPrim env h hop
  simp only [api, h1.dcF, Bool.false_eq_true, if_false]
  exact ⟨h1, e1⟩

/-! ### acknowledgements and event-loop turns -/

theorem connected_beq_closing : (Conn.connected == Conn.closing) = false := by decide

theorem open_ackN {app : App} (hq : QuietApp app) (env : Env) {s : Sock} (h : Open s) (n : Nat) :
    Open (ackN env app s n) ∧ chunks (ackN env app s n).log = chunks s.log ∧
    (ackN env app s n).code = s.code ∧ (ackN env app s n).reason = s.reason ∧
    (ackN env app s n).respHeaders = s.respHeaders ∧ ((ackN env app s n).ws = .none ↔ s.ws = .none) := by
  unfold ackN
  by_cases hn : min n s.tcp.unacked = 0
  · simp only [hn, if_true]; exact ⟨h, by simp⟩
  · simp only [hn, if_false]
    obtain ⟨x, y, q, d, l, he, hx, hl⟩ := onBytesWritten_eq hq env
      { s with tcp := { s.tcp with unacked := s.tcp.unacked - min n s.tcp.unacked } } (min n s.tcp.unacked : Nat)
      h.rb h.dcF
    rw [he]
    split
    · rename_i hc
      simp [h.conn, connected_beq_closing] at hc
    · exact ⟨h.of_eq rfl (h.logOpen.append hl), chunks_append_quiet hl, rfl, rfl, rfl, hx⟩

theorem shut_ackN {app : App} (hq : QuietApp app) (env : Env) {s : Sock} (h : Shut s) (n : Nat) :
    Shut (ackN env app s n) ∧ chunks (ackN env app s n).log = chunks s.log := by
  unfold ackN
  by_cases hn : min n s.tcp.unacked = 0
  · simp only [hn, if_true]; exact ⟨h, by simp⟩
  · simp only [hn, if_false]
    obtain ⟨x, y, q, d, l, he, hx, hl⟩ := onBytesWritten_eq hq env
      { s with tcp := { s.tcp with unacked := s.tcp.unacked - min n s.tcp.unacked } } (min n s.tcp.unacked : Nat)
      h.rb h.dcF
    rw [he]
    split
    · obtain ⟨q2, d2, l2, e2, hl2⟩ := emitDc_quiet hq env
        { s with ws := x, hdrRemaining := y, qio := q, dataRead := d, log := s.log ++ l,
                 tcp := { s.tcp with unacked := s.tcp.unacked - min n s.tcp.unacked, conn := .unconnected } }
        h.rb
      have hl' : ∀ o ∈ l ++ Obs.dc :: l2, quietObs o = true := by
        intro o ho
        rcases List.mem_append.mp ho with ho | ho
        · exact hl o ho
        · rcases List.mem_cons.mp ho with ho | ho
          · subst ho; rfl
          · exact hl2 o ho
      rw [e2]
      refine ⟨h.of_eq (by simp [h.dcF]) h.rs ?_, ?_⟩
      · simpa [List.append_assoc] using h.logShut.append hl'
      · simpa [List.append_assoc] using chunks_append_quiet (l := s.log) hl'
    · exact ⟨h.of_eq rfl h.rs (h.logShut.append hl), chunks_append_quiet hl⟩

theorem open_pstep {s s' : Sock} (h : Open s) (hp : PStep s s') :
    Open s' ∧ chunks s'.log = chunks s.log ∧ s'.code = s.code ∧ s'.reason = s.reason ∧
    s'.respHeaders = s.respHeaders ∧ s'.ws = s.ws := by
  obtain ⟨q, d, l, e, hl⟩ := hp
  rw [e]
  exact ⟨h.of_eq rfl (h.logOpen.append hl), chunks_append_quiet hl, rfl, rfl, rfl, rfl⟩

theorem shut_pstep {s s' : Sock} (h : Shut s) (hp : PStep s s') :
    Shut s' ∧ chunks s'.log = chunks s.log := by
  obtain ⟨q, d, l, e, hl⟩ := hp
  rw [e]
  exact ⟨h.of_eq rfl h.rs (h.logShut.append hl), chunks_append_quiet hl⟩

theorem api_passive (env : Env) (app : App) {s : Sock} {op : ApiOp} (hop : passiveOp op = true)
    (hrb : s.readBuffer = []) (hdc : s.dcFlag = false) : PStep s (api env app s op) := by
  have h1 := apiPrim_pstep env s hop hrb
  have e : api env app s op = apiPrim env s op := by simp [api, h1.dcF, hdc]
  rw [e]; exact h1

/-- the external events of a C03 history: response-side calls (and calls that do not touch the
    response: reads, queries, harmless notes), acknowledgements, event-loop turns -/
def allowedEv : Event → Bool
  | .api op => respOp op || passiveOp op
  | .ack _ | .ackAll | .turn => true
  | _ => false

theorem stepK_alive (env : Env) (app : App) {s : Sock} (k : Nat) (e : Event) (h : s.alive = true) :
    stepK env app (s, k) e = (step env app { s with log := s.log ++ [Obs.ev k] } e, k + 1) := by
  simp [stepK, h]

theorem stepK_dead (env : Env) (app : App) {s : Sock} (k : Nat) (e : Event) (h : s.alive = false) :
    stepK env app (s, k) e = (s, k + 1) := by
  simp [stepK, step, h]

theorem Open.ev {s : Sock} (h : Open s) (k : Nat) : Open { s with log := s.log ++ [Obs.ev k] } :=
  h.of_eq rfl (h.logOpen.snoc rfl)

theorem Shut.ev {s : Sock} (h : Shut s) (k : Nat) : Shut { s with log := s.log ++ [Obs.ev k] } :=
  h.of_eq rfl h.rs (h.logShut.snoc rfl)

theorem chunks_ev (l : List Obs) (k : Nat) : chunks (l ++ [Obs.ev k]) = chunks l := by
  simp [chunks]

theorem step_api (env : Env) (app : App) {s : Sock} (op : ApiOp) (h : s.alive = true) :
    step env app s (.api op) = api env app s op := by
  simp [step, h]

/-- an event-loop turn when nothing was ever received: the queued initial read finds nothing,
    then the deferred deletion runs -/
def turnIdle (s : Sock) : Sock :=
  let s1 := if s.initPending then { s with initPending := false } else s
  if s1.delPending then { s1 with alive := false, delPending := false, log := s1.log ++ [Obs.del] } else s1

theorem step_turn_eq (env : Env) (app : App) {s : Sock} (ha : s.alive = true) (hrb : s.readBuffer = [])
    (hin : s.tcp.inbox = []) (hrs : s.rs ≠ .data) : step env app s .turn = turnIdle s := by
  have e1 := onReadyRead_idle env app { s with initPending := false } hrb hin hrs
  unfold step
  rw [if_neg (by simp [ha])]
  simp only [e1]
  rfl

theorem open_turn (env : Env) (app : App) {s : Sock} (h : Open s) :
    Open (step env app s .turn) ∧ (step env app s .turn).log = s.log ∧
    (step env app s .turn).code = s.code ∧ (step env app s .turn).reason = s.reason ∧
    (step env app s .turn).respHeaders = s.respHeaders ∧ (step env app s .turn).ws = s.ws := by
  rw [step_turn_eq env app h.alive h.rb h.inbox h.rs]
  have e : turnIdle s = s ∨ turnIdle s = { s with initPending := false } := by
    unfold turnIdle
    by_cases hi : s.initPending = true <;> simp [hi, h.noDel]
  rcases e with e | e <;> rw [e]
  · exact ⟨h, rfl, rfl, rfl, rfl, rfl⟩
  · exact ⟨h.of_eq rfl h.logOpen, rfl, rfl, rfl, rfl, rfl⟩

theorem shut_step {app : App} (hq : QuietApp app) (env : Env) {s : Sock} (h : Shut s) {e : Event}
    (he : allowedEv e = true) :
    Shut (step env app s e) ∧ chunks (step env app s e).log = chunks s.log := by
  by_cases ha : s.alive = true
  · cases e <;> simp only [allowedEv, Bool.false_eq_true] at he
    · simp only [step, ha, Bool.not_true, Bool.false_eq_true, if_false]; exact shut_ackN hq env h _
    · simp only [step, ha, Bool.not_true, Bool.false_eq_true, if_false]; exact shut_ackN hq env h _
    · rw [step_turn_eq env app ha h.rb h.inbox h.rs]
      have e : turnIdle s = s ∨ turnIdle s = { s with initPending := false } ∨
          turnIdle s = { s with alive := false, delPending := false, log := s.log ++ [Obs.del] } ∨
          turnIdle s = { s with initPending := false, alive := false, delPending := false,
                                log := s.log ++ [Obs.del] } := by
        unfold turnIdle
        by_cases hi : s.initPending = true <;> by_cases hd : s.delPending = true <;> simp [hi, hd]
      rcases e with e | e | e | e <;> rw [e]
      · exact ⟨h, rfl⟩
      · exact ⟨h.of_eq rfl h.rs h.logShut, rfl⟩
      · exact ⟨h.of_eq rfl h.rs (h.logShut.snoc rfl), by simp [chunks]⟩
      · exact ⟨h.of_eq rfl h.rs (h.logShut.snoc rfl), by simp [chunks]⟩
    · rw [step_api env app _ ha]
      rcases Bool.or_eq_true_iff.mp he with he | he
      · obtain ⟨h1, e1⟩ := shut_api env app h he
        exact ⟨h1, by rw [e1]⟩
      · exact shut_pstep h (api_passive env app he h.rb h.dcF)
  · have : step env app s e = s := by simp [step, ha]
    rw [this]; exact ⟨h, rfl⟩

theorem shut_stepK {app : App} (hq : QuietApp app) (env : Env) {s : Sock} (k : Nat) (h : Shut s) {e : Event}
    (he : allowedEv e = true) :
    Shut (stepK env app (s, k) e).1 ∧ chunks (stepK env app (s, k) e).1.log = chunks s.log ∧
    (stepK env app (s, k) e).2 = k + 1 := by
  by_cases ha : s.alive = true
  · rw [stepK_alive env app k e ha]
    obtain ⟨h1, e1⟩ := shut_step hq env (h.ev k) he
    exact ⟨h1, by rw [e1]; exact chunks_ev _ _, rfl⟩
  · have ha' : s.alive = false := by simpa using ha
    rw [stepK_dead env app k e ha']
    exact ⟨h, rfl, rfl⟩

/-! ### the calls in the open phase, at `api` level -/

theorem api_of_open (env : Env) (app : App) {s : Sock} (op : ApiOp) (h : Open (apiPrim env s op)) :
    api env app s op = apiPrim env s op := by
  simp [api, h.dcF]

theorem apiPrim_status (env : Env) {s : Sock} (h : Open s) (c : Int) (r : Option Bytes) :
    apiPrim env s (.status c r) = setStatusCode s c r := by simp [apiPrim, h.alive]

theorem apiPrim_hdr (env : Env) {s : Sock} (h : Open s) (n v : Bytes) (r : Bool) :
    apiPrim env s (.hdr n v r) = { s with respHeaders := hset n v r s.respHeaders } := by
  simp [apiPrim, h.alive, setHeader_eq]

theorem apiPrim_hdrs (env : Env) {s : Sock} (h : Open s) (m : List (Bytes × Bytes)) :
    apiPrim env s (.hdrs m) =
      { s with respHeaders := m.foldl (fun acc e => HeaderMap.insert e.1 e.2 acc) [] } := by
  simp [apiPrim, h.alive]

theorem apiPrim_wh (env : Env) {s : Sock} (h : Open s) : apiPrim env s .wh = writeHeaders s := by
  simp [apiPrim, h.alive]

theorem apiPrim_write (env : Env) {s : Sock} (h : Open s) (b : Bytes) : apiPrim env s (.write b) = write s b := by
  simp [apiPrim, h.alive]

theorem api_close (env : Env) (app : App) {s : Sock} (h : Open s) : api env app s .close = closeDc env app s := by
  simp [api, apiPrim, h.alive, closeDc]

theorem api_err (env : Env) (app : App) {s : Sock} (h : Open s) (c : Int) (r : Option Bytes) :
    api env app s (.err c r) =
      closeDc env app (write (writeHeaders (setHeader (setHeader (setStatusCode s c r) CONTENT_LENGTH
        (natDigits (env.errPage (setStatusCode s c r).code (setStatusCode s c r).reason).length) true)
        CONTENT_TYPE TEXT_HTML true)) (env.errPage (setStatusCode s c r).code (setStatusCode s c r).reason)) := by
  simp [api, apiPrim, h.alive, closeDc, writeError]

theorem api_redir (env : Env) (app : App) {s : Sock} (h : Open s) (p : Bytes) (pm : Bool) :
    api env app s (.redir p pm) =
      closeDc env app (writeHeaders (setHeader (setStatusCode s (if pm then 301 else 302) none)
        (lit ['L','o','c','a','t','i','o','n']) p true)) := by
  simp [api, apiPrim, h.alive, closeDc, writeRedirect]

theorem api_json (env : Env) (app : App) {s : Sock} (h : Open s) (b : Bytes) (c : Int) :
    api env app s (.json b c) =
      closeDc env app (write (setHeader (setHeader (setStatusCode s c none) CONTENT_LENGTH
        (natDigits b.length) true) CONTENT_TYPE APP_JSON true) b) := by
  simp [api, apiPrim, h.alive, closeDc, writeJson]

end Qhttp.C03L
