import Qhttp.Model.Http
/-
  Byte-level facts used by the C03 proofs: the order `bytesLt`, `sortBytes` as a canonical
  form of a multiset, decimal digits round trip, `breakOn` / `splitF` on rendered text.
-/
namespace Qhttp.HB
open Qhttp Qhttp.Http

/-! ### `bytesLt` is a strict total order -/

theorem u8_lt_asymm {a c : UInt8} (h : a < c) : ¬ c < a := by
  rw [UInt8.lt_iff_toNat_lt] at *; omega

theorem u8_eq_of_not_lt {a c : UInt8} (h1 : ¬ a < c) (h2 : ¬ c < a) : a = c := by
  rw [UInt8.lt_iff_toNat_lt] at *
  apply UInt8.toNat_inj.mp; omega

theorem u8_lt_trans {a c d : UInt8} (h1 : a < c) (h2 : c < d) : a < d := by
  rw [UInt8.lt_iff_toNat_lt] at *; omega

theorem bytesLt_irrefl (x : Bytes) : bytesLt x x = false := by
  induction x with
  | nil => rfl
  | cons a x ih =>
    have : ¬ a < a := by rw [UInt8.lt_iff_toNat_lt]; omega
    simp [bytesLt, this, ih]

theorem bytesLt_asymm : ∀ {x y : Bytes}, bytesLt x y = true → bytesLt y x = false
  | [], [], h => by simp [bytesLt] at h
  | [], _ :: _, _ => by simp [bytesLt]
  | _ :: _, [], h => by simp [bytesLt] at h
  | a :: x, c :: y, h => by
    simp only [bytesLt] at h ⊢
    by_cases h1 : a < c
    · have := u8_lt_asymm h1; simp [this, h1]
    · by_cases h2 : c < a
      · simp [h1, h2] at h
      · simp only [h1, h2, if_false] at h ⊢
        exact bytesLt_asymm h

theorem bytesLt_total : ∀ {x y : Bytes}, bytesLt x y = false → bytesLt y x = false → x = y
  | [], [], _, _ => rfl
  | [], _ :: _, h, _ => by simp [bytesLt] at h
  | _ :: _, [], _, h => by simp [bytesLt] at h
  | a :: x, c :: y, h, h' => by
    simp only [bytesLt] at h h'
    by_cases h1 : a < c
    · simp [h1] at h
    · by_cases h2 : c < a
      · simp [h2] at h'
      · simp only [h1, h2, if_false] at h h'
        rw [u8_eq_of_not_lt h1 h2, bytesLt_total h h']

theorem bytesLt_trans : ∀ {x y z : Bytes}, bytesLt x y = true → bytesLt y z = true → bytesLt x z = true
  | [], [], _, h, _ => by simp [bytesLt] at h
  | [], _ :: _, [], _, h => by simp [bytesLt] at h
  | [], _ :: _, _ :: _, _, _ => by simp [bytesLt]
  | _ :: _, [], _, h, _ => by simp [bytesLt] at h
  | _ :: _, _ :: _, [], _, h => by simp [bytesLt] at h
  | a :: x, c :: y, d :: z, h, h' => by
    simp only [bytesLt] at h h' ⊢
    by_cases h1 : a < c
    · by_cases h2 : c < d
      · simp [u8_lt_trans h1 h2]
      · by_cases h3 : d < c
        · simp [h2, h3] at h'
        · have := u8_eq_of_not_lt h2 h3; subst this; simp [h1]
    · by_cases h1' : c < a
      · simp [h1, h1'] at h
      · have := u8_eq_of_not_lt h1 h1'; subst this
        simp only [h1, if_false] at h
        by_cases h2 : a < d
        · simp [h2]
        · by_cases h3 : d < a
          · simp [h2, h3] at h'
          · simp only [h2, h3, if_false] at h' ⊢
            exact bytesLt_trans h h'

/-- `¬ z < x`, `z < y` give `x < y` -/
theorem bytesLt_of_not_lt_of_lt {x y z : Bytes} (h1 : bytesLt z x = false) (h2 : bytesLt z y = true) :
    bytesLt x y = true := by
  cases h : bytesLt x y with
  | true => rfl
  | false =>
    cases h' : bytesLt y x with
    | true => rw [bytesLt_trans h2 h'] at h1; cases h1
    | false => rw [bytesLt_total h h'] at h1; rw [h1] at h2; cases h2

/-! ### `sortBytes` is a canonical form of the multiset -/
theorem insertSorted_comm (x y : Bytes) (l : List Bytes) :
    insertSorted x (insertSorted y l) = insertSorted y (insertSorted x l) := by
  induction l with
  | nil =>
    simp only [insertSorted]
    cases h1 : bytesLt y x <;> cases h2 : bytesLt x y <;> simp
    · have := bytesLt_total h1 h2; simp [this]
    · rw [bytesLt_asymm h1] at h2; cases h2
  | cons z l ih =>
    simp only [insertSorted]
    cases hzy : bytesLt z y <;> cases hzx : bytesLt z x <;> simp only [insertSorted, hzy, hzx, if_true, if_false, Bool.false_eq_true]
    · cases h1 : bytesLt y x <;> cases h2 : bytesLt x y <;> simp
      · have := bytesLt_total h1 h2; simp [this]
      · rw [bytesLt_asymm h1] at h2; cases h2
    · have h := bytesLt_of_not_lt_of_lt hzy hzx
      simp [h]
    · have h := bytesLt_of_not_lt_of_lt hzx hzy
      simp [h]
    · rw [ih]

theorem sortBytes_perm {l l' : List Bytes} (h : l.Perm l') : sortBytes l = sortBytes l' := by
  induction h with
  | nil => rfl
  | cons x _ ih => simp only [sortBytes, List.foldr_cons] at ih ⊢; rw [ih]
  | swap x y l => simp only [sortBytes, List.foldr_cons]; exact insertSorted_comm _ _ _
  | trans _ _ ih1 ih2 => exact ih1.trans ih2

theorem insertSorted_ne_nil (x : Bytes) (l : List Bytes) : insertSorted x l ≠ [] := by
  cases l <;> simp [insertSorted]; split <;> simp

theorem sortBytes_eq_nil {l : List Bytes} : sortBytes l = [] ↔ l = [] := by
  cases l with
  | nil => simp [sortBytes]
  | cons x l => simp [sortBytes, insertSorted_ne_nil]

/-! ### decimal digits -/

theorem digitsVal_append (a c : Bytes) (acc : Nat) :
    digitsVal (a ++ c) acc = digitsVal c (digitsVal a acc) := by
  induction a generalizing acc with
  | nil => rfl
  | cons x a ih => simp [digitsVal, ih]

theorem digit_toNat (n : Nat) : (UInt8.ofNat (48 + n % 10)).toNat = 48 + n % 10 := by
  simp [UInt8.toNat_ofNat']; omega

theorem isDigit_digit (n : Nat) : isDigit (UInt8.ofNat (48 + n % 10)) = true := by
  have h := digit_toNat n
  simp only [isDigit, Bool.and_eq_true, decide_eq_true_eq, UInt8.le_iff_toNat_le, h]
  constructor
  · show 48 ≤ 48 + n % 10; omega
  · show 48 + n % 10 ≤ 57; omega

/-- the digits are produced most significant first, in front of the accumulator -/
theorem natDigitsAux_spec : ∀ (f n : Nat) (acc : Bytes), n < f →
    ∃ ds, natDigitsAux f n acc = ds ++ acc ∧ ds ≠ [] ∧ ds.all isDigit = true ∧ digitsVal ds 0 = n
  | 0, _, _, h => by omega
  | f + 1, n, acc, h => by
    simp only [natDigitsAux]
    have hd1 := digit_toNat n
    have hd2 := isDigit_digit n
    generalize UInt8.ofNat (48 + n % 10) = d at hd1 hd2 ⊢
    by_cases h0 : n / 10 = 0
    · refine ⟨[d], by simp [h0], by simp, by simp [hd2], ?_⟩
      simp only [digitsVal, hd1]; omega
    · have hlt : n / 10 < f := by omega
      obtain ⟨ds, h1, h2, h3, h4⟩ := natDigitsAux_spec f (n / 10) (d :: acc) hlt
      refine ⟨ds ++ [d], by simp [h0, h1], by simp, by simp [h3, hd2], ?_⟩
      rw [digitsVal_append, h4]; simp only [digitsVal, hd1]; omega

theorem natDigits_spec (n : Nat) :
    natDigits n ≠ [] ∧ (natDigits n).all isDigit = true ∧ digitsVal (natDigits n) 0 = n := by
  obtain ⟨ds, h1, h2, h3, h4⟩ := natDigitsAux_spec (n + 1) n [] (by omega)
  simp only [List.append_nil] at h1
  simp only [natDigits, h1]; exact ⟨h2, h3, h4⟩

/-- round trip `QByteArray::number` / digit evaluation -/
theorem digitsVal_natDigits (n : Nat) : digitsVal (natDigits n) 0 = n := (natDigits_spec n).2.2

theorem natDigits_ne_nil (n : Nat) : natDigits n ≠ [] := (natDigits_spec n).1
theorem natDigits_all_isDigit (n : Nat) : (natDigits n).all isDigit = true := (natDigits_spec n).2.1

theorem isDigit_ne {c d : UInt8} (h : isDigit c = true) (hd : d < 48 ∨ 57 < d) : c ≠ d := by
  intro e; subst e
  simp only [isDigit, Bool.and_eq_true, decide_eq_true_eq, UInt8.le_iff_toNat_le] at h
  rw [UInt8.lt_iff_toNat_lt, UInt8.lt_iff_toNat_lt] at hd
  have : (48 : UInt8).toNat = 48 := rfl
  have : (57 : UInt8).toNat = 57 := rfl
  omega

theorem natDigits_not_mem {d : UInt8} (n : Nat) (hd : d < 48 ∨ 57 < d) : d ∉ natDigits n := by
  intro hm
  have := List.all_eq_true.mp (natDigits_all_isDigit n) d hm
  exact isDigit_ne this hd rfl

theorem intText_of_nonneg {i : Int} (h : 0 ≤ i) : intText i = natDigits i.natAbs := by
  simp only [intText]; rw [if_neg (by omega)]

/-! ### `breakOn` -/

theorem breakOn_self_append (d r : Bytes) : breakOn d (d ++ r) = some ([], r) := by
  have h : d.isPrefixOf (d ++ r) = true := List.isPrefixOf_iff_prefix.mpr (List.prefix_append d r)
  cases d <;> cases r <;> simp_all [breakOn]

theorem breakOn_nil_right (c : UInt8) (d : Bytes) : breakOn (c :: d) [] = none := by
  simp [breakOn]

/-- a delimiter starting with `c` is not found inside a `c`-free stretch -/
theorem breakOn_append_of_not_mem {c : UInt8} {d l : Bytes} (rest : Bytes) (h : c ∉ l) :
    breakOn (c :: d) (l ++ rest) = (breakOn (c :: d) rest).map (fun p => (l ++ p.1, p.2)) := by
  induction l with
  | nil => simp only [List.nil_append]; cases breakOn (c :: d) rest <;> simp
  | cons x l ih =>
    have hx : c ≠ x := fun e => h (by simp [e])
    have hl : c ∉ l := fun e => h (by simp [e])
    have : (c :: d).isPrefixOf (x :: (l ++ rest)) = false := by simp [List.isPrefixOf, hx]
    rw [List.cons_append, breakOn, this, ih hl]
    cases breakOn (c :: d) rest <;> simp

theorem breakOn_eq_none_of_not_mem {c : UInt8} {d l : Bytes} (h : c ∉ l) : breakOn (c :: d) l = none := by
  have := breakOn_append_of_not_mem (d := d) [] h
  simpa [breakOn_nil_right] using this

theorem breakOn_found {c : UInt8} {d l : Bytes} (rest : Bytes) (h : c ∉ l) :
    breakOn (c :: d) (l ++ (c :: d) ++ rest) = some (l, rest) := by
  rw [List.append_assoc, breakOn_append_of_not_mem _ h, breakOn_self_append]; simp

theorem breakOn_eq_some {d : Bytes} : ∀ {xs a r : Bytes}, breakOn d xs = some (a, r) → xs = a ++ d ++ r
  | [], a, r, h => by
    rw [breakOn] at h
    by_cases hp : d.isPrefixOf [] = true
    · have := List.isPrefixOf_iff_prefix.mp hp
      simp at this; subst this; simp at h; simp [h]
    · simp [hp] at h
  | x :: xs, a, r, h => by
    rw [breakOn] at h
    by_cases hp : d.isPrefixOf (x :: xs) = true
    · simp only [hp, if_true, Option.some.injEq, Prod.mk.injEq] at h
      obtain ⟨t, ht⟩ := List.isPrefixOf_iff_prefix.mp hp
      rw [← h.1, ← h.2, ← ht]; simp
    · simp only [hp] at h
      cases hb : breakOn d xs with
      | none => simp [hb] at h
      | some p =>
        obtain ⟨a', r'⟩ := p
        simp only [hb, Bool.false_eq_true, if_false, Option.some.injEq, Prod.mk.injEq] at h
        rw [← h.1, ← h.2, breakOn_eq_some hb]; simp

theorem breakOn_append_some {d : Bytes} (y : Bytes) : ∀ {xs a r : Bytes}, breakOn d xs = some (a, r) →
    breakOn d (xs ++ y) = some (a, r ++ y)
  | [], a, r, h => by
    have := breakOn_eq_some h
    simp only [List.nil_eq, List.append_eq_nil_iff] at this
    obtain ⟨⟨ha, hd⟩, hr⟩ := this
    subst ha hd hr
    simpa using breakOn_self_append [] y
  | x :: xs, a, r, h => by
    rw [breakOn] at h
    by_cases hp : d.isPrefixOf (x :: xs) = true
    · simp only [hp, if_true, Option.some.injEq, Prod.mk.injEq] at h
      have hpre := List.isPrefixOf_iff_prefix.mp hp
      have hp' : d.isPrefixOf (x :: xs ++ y) = true :=
        List.isPrefixOf_iff_prefix.mpr (hpre.trans (List.prefix_append _ _))
      rw [List.cons_append] at hp' ⊢
      rw [breakOn, hp']; simp only [if_true, Option.some.injEq, Prod.mk.injEq]
      refine ⟨h.1, ?_⟩
      rw [← List.cons_append]
      rw [← h.2, List.drop_append_of_le_length hpre.length_le]
    · simp only [hp] at h
      cases hb : breakOn d xs with
      | none => simp [hb] at h
      | some p =>
        obtain ⟨a', r'⟩ := p
        simp only [hb, Bool.false_eq_true, if_false, Option.some.injEq, Prod.mk.injEq] at h
        have hxs := breakOn_eq_some hb
        have hp' : ¬ d.isPrefixOf (x :: xs ++ y) = true := by
          intro hq
          have hq' := List.isPrefixOf_iff_prefix.mp hq
          have : d <+: x :: xs :=
            List.prefix_of_prefix_length_le hq' (List.prefix_append _ _) (by rw [hxs]; simp; omega)
          exact hp (List.isPrefixOf_iff_prefix.mpr this)
        rw [List.cons_append] at hp' ⊢
        rw [breakOn]; simp only [hp', Bool.false_eq_true, if_false]
        rw [breakOn_append_some y hb]; simp [h.1, h.2]

/-- two different delimiter bytes: an occurrence cannot straddle the end of `x` -/
theorem breakOn2_none_append {p q : UInt8} (hpq : p ≠ q) (v : Bytes) : ∀ {x : Bytes},
    breakOn [p, q] x = none → breakOn [p, q] (x ++ [p, q] ++ v) = some (x, v)
  | [], _ => by simpa using breakOn_self_append [p, q] v
  | a :: x, h => by
    rw [breakOn] at h
    by_cases hp : [p, q].isPrefixOf (a :: x) = true
    · simp [hp] at h
    · simp only [hp, Bool.false_eq_true, if_false] at h
      have hx : breakOn [p, q] x = none := by
        cases hb : breakOn [p, q] x with
        | none => rfl
        | some w => simp [hb] at h
      have hp' : [p, q].isPrefixOf (a :: (x ++ [p, q] ++ v)) = false := by
        cases x with
        | nil => simp [List.isPrefixOf]; intro e; exact fun e' => hpq e'.symm
        | cons b x => simpa [List.isPrefixOf] using hp
      rw [List.cons_append, List.cons_append, breakOn, hp', breakOn2_none_append hpq v hx]; simp

/-! ### splitting without a limit -/

/-- `splitF d _ none` with enough fuel -/
def splitAll (d xs : Bytes) : List Bytes := splitF d (xs.length + 1) none xs

theorem splitF_fuel {c : UInt8} {d : Bytes} : ∀ (f f' : Nat) (xs : Bytes), xs.length < f → xs.length < f' →
    splitF (c :: d) f none xs = splitF (c :: d) f' none xs
  | 0, _, _, h, _ => by omega
  | _, 0, _, _, h => by omega
  | f + 1, f' + 1, xs, h, h' => by
    simp only [splitF]
    cases hb : breakOn (c :: d) xs with
    | none => simp
    | some p =>
      obtain ⟨a, r⟩ := p
      have := breakOn_eq_some hb
      have hl : r.length < xs.length := by rw [this]; simp; omega
      simp only [reduceCtorEq, if_false, Option.map_none]
      rw [splitF_fuel f f' r (by omega) (by omega)]

theorem splitAll_eq {c : UInt8} {d : Bytes} (xs : Bytes) :
    splitAll (c :: d) xs = match breakOn (c :: d) xs with
      | none => [xs]
      | some (a, r) => a :: splitAll (c :: d) r := by
  rw [splitAll, splitF]
  cases hb : breakOn (c :: d) xs with
  | none => simp
  | some p =>
    obtain ⟨a, r⟩ := p
    have := breakOn_eq_some hb
    simp only [reduceCtorEq, if_false, Option.map_none]
    rw [splitF_fuel xs.length (r.length + 1) r (by rw [this]; simp; omega) (by omega)]; rfl

theorem splitAll_ne_nil {c : UInt8} {d : Bytes} (xs : Bytes) : splitAll (c :: d) xs ≠ [] := by
  rw [splitAll_eq]; split <;> simp

theorem splitAll_of_not_mem {c : UInt8} {d l : Bytes} (h : c ∉ l) : splitAll (c :: d) l = [l] := by
  rw [splitAll_eq, breakOn_eq_none_of_not_mem h]

theorem splitAll_found {c : UInt8} {d l : Bytes} (rest : Bytes) (h : c ∉ l) :
    splitAll (c :: d) (l ++ (c :: d) ++ rest) = l :: splitAll (c :: d) rest := by
  rw [splitAll_eq, breakOn_found rest h]

/-- joining two texts with the two-byte delimiter and splitting again gives both splits -/
theorem splitAll2_join {p q : UInt8} (hpq : p ≠ q) (v : Bytes) : ∀ (n : Nat) (x : Bytes), x.length ≤ n →
    splitAll [p, q] (x ++ [p, q] ++ v) = splitAll [p, q] x ++ splitAll [p, q] v
  | n, x, hn => by
    rw [splitAll_eq (x ++ [p, q] ++ v), splitAll_eq x]
    cases hb : breakOn [p, q] x with
    | none => rw [breakOn2_none_append hpq v hb]; rfl
    | some w =>
      obtain ⟨a, r⟩ := w
      have hx := breakOn_eq_some hb
      rw [List.append_assoc, breakOn_append_some _ hb]
      show a :: splitAll [p, q] (r ++ ([p, q] ++ v)) = (a :: splitAll [p, q] r) ++ splitAll [p, q] v
      cases n with
      | zero => rw [hx] at hn; simp at hn
      | succ n =>
        rw [← List.append_assoc, splitAll2_join hpq v n r (by rw [hx] at hn; simp at hn; omega)]; rfl

end Qhttp.HB
