import Qhttp.Model.RouteScn
import Qhttp.Lemmas.HttpRender
import Qhttp.Lemmas.BytesLemmas
import Qhttp.Lemmas.RouteLemmas
/-
  The socket model under the API calls the instrumented handlers make (`RouteScn.actOps`):
  what each terminal call sequence appends to the history, and the run of a `RouteScn` scenario
  (`.new`, `.feed stream`, `.turn`) as a function of the operations performed on `headersParsed`.
-/
namespace Qhttp.RouteL
open Qhttp Qhttp.Sock
set_option linter.unusedSimpArgs false

/-- the response has not been started and the transport is open -/
structure Ready (s : Sock) : Prop where
  alive : s.alive = true
  ws : s.ws = .none
  io : s.ioOpen = true
  dcF : s.dcFlag = false
  dev : s.tcp.devOpen = true
  conn : s.tcp.conn = .connected

/-- the response is complete and the transport was closed by the library -/
structure Done (s : Sock) : Prop where
  alive : s.alive = true
  rs : s.rs = .finished
  dev : s.tcp.devOpen = false
  dcF : s.dcFlag = false

/-- `s'` is `s` after a complete response that appended `obs` to the history -/
structure Resp (s s' : Sock) (obs : List Obs) : Prop where
  done : Done s'
  del : s'.delPending = s.delPending
  init : s'.initPending = s.initPending
  log : s'.log = s.log ++ obs

def LOC : Bytes := lit ['L','o','c','a','t','i','o','n']

/-- status line, header block, blank line -/
def headOf (code : Int) (reason : Bytes) (hs : HeaderMap) : Bytes :=
  lit ['H','T','T','P','/','1','.','0',' '] ++ intText code ++ [SP] ++ reason ++ CRLF ++ headerLines hs ++ CRLF

theorem headOf_ne_nil (code : Int) (reason : Bytes) (hs : HeaderMap) : (headOf code reason hs).isEmpty = false := by
  simp [headOf, lit]

/-- a body chunk reaches the transport only when it is not empty -/
def wObs (b : Bytes) : List Obs := if b.isEmpty then [] else [.w b]

/-- the header map of `writeError` on top of `hs` -/
def errHeaders (hs : HeaderMap) (n : Nat) : HeaderMap :=
  HeaderMap.insert CONTENT_TYPE TEXT_HTML (HeaderMap.remove CONTENT_TYPE
    (HeaderMap.insert CONTENT_LENGTH (natDigits n) (HeaderMap.remove CONTENT_LENGTH hs)))

theorem api_note (env : Env) (app : App) {s : Sock} (h : Ready s) (o : Obs) :
    api env app s (.note o) = { s with log := s.log ++ [o] } := by
  simp [api, apiPrim, h.alive, h.dcF]

theorem Ready.note {s : Sock} (h : Ready s) (l : List Obs) : Ready { s with log := l } :=
  ⟨h.alive, h.ws, h.io, h.dcF, h.dev, h.conn⟩

theorem api_hdr (env : Env) (app : App) {s : Sock} (h : Ready s) (n v : Bytes) :
    api env app s (.hdr n v true) =
      { s with respHeaders := HeaderMap.insert n v (HeaderMap.remove n s.respHeaders) } := by
  simp [api, apiPrim, h.alive, h.dcF, setHeader]

theorem Ready.hdrs {s : Sock} (h : Ready s) (m : HeaderMap) : Ready { s with respHeaders := m } :=
  ⟨h.alive, h.ws, h.io, h.dcF, h.dev, h.conn⟩

theorem writeRedirect_resp {s : Sock} (h : Ready s) (v : Bytes) :
    Resp s (writeRedirect s v false)
      [.w (headOf 302 (statusReason 302) (HeaderMap.insert LOC v (HeaderMap.remove LOC s.respHeaders))), .tc] := by
  obtain ⟨a1, a2, a3, a4, a5, a6⟩ := h
  simp only [writeRedirect, setStatusCode, setHeader, writeHeaders, tcpWrite, Sock.close, tcpClose]
  simp only [a5, a6, headBytes, Bool.true_or, if_true, Bool.false_eq_true, if_false]
  have hne := headOf_ne_nil 302 (statusReason 302) (HeaderMap.insert LOC v (HeaderMap.remove LOC s.respHeaders))
  simp only [headOf, LOC] at hne
  simp [hne, headOf, LOC, a4]
  constructor <;> simp [a1, a4]
  constructor <;> simp [a1, a4]

theorem writeError_resp (env : Env) {s : Sock} (h : Ready s) (c : Int) :
    Resp s (writeError env s c none)
      ([.w (headOf c (statusReason c) (errHeaders s.respHeaders (env.errPage c (statusReason c)).length))] ++
        wObs (env.errPage c (statusReason c)) ++ [.tc]) := by
  obtain ⟨a1, a2, a3, a4, a5, a6⟩ := h
  simp only [writeError, setStatusCode, setHeader, writeHeaders, write, tcpWrite, Sock.close, tcpClose]
  simp only [a5, a6, a3, headBytes, Bool.true_or, if_true, Bool.false_eq_true, if_false]
  have hne := headOf_ne_nil c (statusReason c) (errHeaders s.respHeaders (env.errPage c (statusReason c)).length)
  simp only [headOf, errHeaders] at hne
  by_cases hb : (env.errPage c (statusReason c)).isEmpty = true
  · simp [hne, headOf, errHeaders, wObs, a4, hb]
    constructor <;> simp [a1, a4]
    constructor <;> simp [a1, a4]
  · simp [hne, headOf, errHeaders, wObs, a4, hb]
    constructor <;> simp [a1, a4]
    constructor <;> simp [a1, a4]

theorem write_close_resp {s : Sock} (h : Ready s) (b : Bytes) :
    Resp s (Sock.close (write s b)) ([.w (headOf s.code s.reason s.respHeaders)] ++ wObs b ++ [.tc]) := by
  obtain ⟨a1, a2, a3, a4, a5, a6⟩ := h
  simp only [writeHeaders, write, tcpWrite, Sock.close, tcpClose]
  simp only [a5, a6, a3, a2, headBytes, Bool.true_or, if_true, Bool.false_eq_true, if_false]
  have hne := headOf_ne_nil s.code s.reason s.respHeaders
  simp only [headOf] at hne
  by_cases hb : b.isEmpty = true
  · simp [hne, headOf, wObs, a4, hb]
    constructor <;> simp [a1, a4]
    constructor <;> simp [a1, a4]
  · simp [hne, headOf, wObs, a4, hb]
    constructor <;> simp [a1, a4]
    constructor <;> simp [a1, a4]

/-! ### the same through `api` (no `disconnected` can be due: written bytes are unacknowledged) -/

theorem api_redir (env : Env) (app : App) {s : Sock} (h : Ready s) (v : Bytes) :
    Resp s (api env app s (.redir v false))
      [.w (headOf 302 (statusReason 302) (HeaderMap.insert LOC v (HeaderMap.remove LOC s.respHeaders))), .tc] := by
  have := writeRedirect_resp h v
  simp only [api, apiPrim, h.alive, Bool.not_true, Bool.false_eq_true, if_false, this.done.dcF]
  exact this

theorem api_err (env : Env) (app : App) {s : Sock} (h : Ready s) (c : Int) :
    Resp s (api env app s (.err c none))
      ([.w (headOf c (statusReason c) (errHeaders s.respHeaders (env.errPage c (statusReason c)).length))] ++
        wObs (env.errPage c (statusReason c)) ++ [.tc]) := by
  have := writeError_resp env h c
  simp only [api, apiPrim, h.alive, Bool.not_true, Bool.false_eq_true, if_false, this.done.dcF]
  exact this

theorem write_ready_dcF {s : Sock} (h : Ready s) (b : Bytes) : (write s b).dcFlag = false ∧ (write s b).alive = true := by
  obtain ⟨a1, a2, a3, a4, a5, a6⟩ := h
  simp only [writeHeaders, write, tcpWrite]
  simp only [a3, a2, Bool.not_true, Bool.false_eq_true, if_false, if_true]
  split <;> split <;> simp_all

theorem apis_write_close (env : Env) (app : App) {s : Sock} (h : Ready s) (b : Bytes) :
    Resp s (apis env app s [.write b, .close]) ([.w (headOf s.code s.reason s.respHeaders)] ++ wObs b ++ [.tc]) := by
  have := write_close_resp h b
  have hw := write_ready_dcF h b
  simp only [apis, List.foldl, api, apiPrim, h.alive, Bool.not_true, Bool.false_eq_true, if_false, hw.1, hw.2,
    this.done.dcF]
  exact this

/-! ### once the response is complete, nothing more happens to the history in this scenario -/

theorem onReadyRead_done (env : Env) (app : App) {s : Sock} (h : Done s) : onReadyRead env app s = s := by
  simp [onReadyRead, h.rs, h.dev]

theorem step_turn_done (env : Env) (app : App) {s : Sock} (h : Done s) (hd : s.delPending = false) :
    (step env app s .turn).log = s.log := by
  have h' : Done { s with initPending := false } := ⟨h.alive, h.rs, h.dev, h.dcF⟩
  have ha : (!s.alive) = false := by simp [h.alive]
  simp only [step, ha, Bool.false_eq_true, if_false]
  by_cases hi : s.initPending = true
  · simp only [hi, if_true]
    rw [onReadyRead_done env app h']
    simp [hd]
  · have hi' : s.initPending = false := by simpa using hi
    simp [hi', hd]

/-! ### the request head arrives -/

/-- the state in which `headersParsed` is emitted (with the signal already in the history) -/
def hpState (s : Sock) (rh : Parser.ReqHead) (p : Bytes) (q : List (Bytes × Bytes)) (rest : Bytes) : Sock :=
  let s := { s with method := rh.method, rawPath := rh.rawPath, reqHeaders := rh.headers,
                    path := p, query := q.foldl (fun (m : List (Bytes × Bytes)) (e : Bytes × Bytes) => qmInsert e.1 e.2 m) s.query,
                    readBuffer := rest, rs := .data }
  let s := if HeaderMap.contains CONTENT_LENGTH_KEY s.reqHeaders
           then
             let t := toLongLong (HeaderMap.value CONTENT_LENGTH_KEY s.reqHeaders)
             { s with total := t,
                      readBuffer := if t ≥ 0 && (s.readBuffer.length : Int) > t
                                    then s.readBuffer.take t.toNat else s.readBuffer }
           else s
  { s with log := s.log ++ [Obs.hp] }

theorem hpState_fields (s : Sock) (rh : Parser.ReqHead) (p : Bytes) (q : List (Bytes × Bytes)) (rest : Bytes) :
    let s1 := hpState s rh p q rest
    s1.alive = s.alive ∧ s1.ws = s.ws ∧ s1.ioOpen = s.ioOpen ∧ s1.dcFlag = s.dcFlag ∧ s1.tcp = s.tcp ∧
    s1.code = s.code ∧ s1.reason = s.reason ∧ s1.respHeaders = s.respHeaders ∧ s1.delPending = s.delPending ∧
    s1.initPending = s.initPending ∧ s1.log = s.log ++ [Obs.hp] := by
  simp only [hpState]
  split <;> simp

theorem readHeaders_ok (env : Env) (app : App) (s : Sock) {head rest : Bytes} {rh : Parser.ReqHead} {p : Bytes}
    {q : List (Bytes × Bytes)} {ops : List ApiOp}
    (hb : breakOn CRLF2 s.readBuffer = some (head, rest))
    (hp : Parser.parseRequestHeaders head s.reqHeaders = some rh)
    (hu : env.url rh.rawPath = some (p, q)) (hops : ∀ s, app.onHp s = ops) :
    readHeaders env app s = (apis env app (hpState s rh p q rest) ops, true) := by
  unfold readHeaders
  simp only [hb, hp, hu, hops]
  rfl

theorem readHeaders_bad (env : Env) (app : App) (s : Sock) {head rest : Bytes}
    (hb : breakOn CRLF2 s.readBuffer = some (head, rest))
    (hbad : match Parser.parseRequestHeaders head s.reqHeaders with
            | none => True
            | some rh => env.url rh.rawPath = none) :
    readHeaders env app s =
      ((if (writeError env s 400 none).dcFlag then emitDc env app (writeError env s 400 none)
        else writeError env s 400 none), false) := by
  simp only [readHeaders, hb]
  cases hp : Parser.parseRequestHeaders head s.reqHeaders with
  | none => rfl
  | some rh => rw [hp] at hbad; simp only at hbad ⊢; rw [hbad]

/-- `onReadyRead`, first half: the transport's bytes are appended to the read buffer -/
def pull (s : Sock) : Sock :=
  { s with readBuffer := s.readBuffer ++ s.tcp.inbox, tcp := { s.tcp with inbox := [] } }

/-- `onReadyRead`, second half -/
def post (env : Env) (app : App) (r : Sock × Bool) : Sock :=
  if !r.2 then r.1 else
  match r.1.rs with
  | .data => readDataSlot env app r.1
  | .finished => { r.1 with readBuffer := [] }
  | .headers => r.1

theorem onReadyRead_headers (env : Env) (app : App) (s : Sock) (hrs : s.rs = .headers) (hdev : s.tcp.devOpen = true) :
    onReadyRead env app s = post env app (readHeaders env app (pull s)) := by
  rcases s with ⟨⟨inbox, wire, unacked, devOpen, conn⟩, rb, qio, rs, method, rawPath, path, query, reqHeaders,
    dataRead, total, ws, code, reason, respHeaders, hdrRemaining, ioOpen, initPending, closeCalled, dcFlag,
    delPending, alive, log⟩
  simp only at hrs hdev
  subst hrs hdev
  simp only [onReadyRead, post, pull, reduceCtorEq, if_false, if_true]
  rfl

theorem post_done_true (env : Env) (app : App) {s : Sock} (h : Done s) :
    Done (post env app (s, true)) ∧ (post env app (s, true)).delPending = s.delPending ∧
      (post env app (s, true)).log = s.log := by
  have e : post env app (s, true) = { s with readBuffer := [] } := by
    simp only [post, Bool.not_true, Bool.false_eq_true, if_false]
    rw [h.rs]
  rw [e]
  exact ⟨⟨h.alive, h.rs, h.dev, h.dcF⟩, rfl, rfl⟩

theorem post_false (env : Env) (app : App) (s : Sock) : post env app (s, false) = s := by
  simp [post]

theorem pull_fields (s : Sock) :
    (pull s).alive = s.alive ∧ (pull s).ws = s.ws ∧ (pull s).ioOpen = s.ioOpen ∧ (pull s).dcFlag = s.dcFlag ∧
    (pull s).tcp.devOpen = s.tcp.devOpen ∧ (pull s).tcp.conn = s.tcp.conn ∧
    (pull s).code = s.code ∧ (pull s).reason = s.reason ∧ (pull s).respHeaders = s.respHeaders ∧
    (pull s).delPending = s.delPending ∧ (pull s).initPending = s.initPending ∧ (pull s).log = s.log ∧
    (pull s).readBuffer = s.readBuffer ++ s.tcp.inbox ∧ (pull s).reqHeaders = s.reqHeaders := by
  simp [pull]

/-- the first read of a fresh connection whose head is acceptable -/
theorem onReadyRead_ok (env : Env) (app : App) (s : Sock) {head rest : Bytes} {rh : Parser.ReqHead} {p : Bytes}
    {q : List (Bytes × Bytes)} {ops : List ApiOp} {obs : List Obs}
    (hrs : s.rs = .headers) (hdev : s.tcp.devOpen = true)
    (hb : breakOn CRLF2 (s.readBuffer ++ s.tcp.inbox) = some (head, rest))
    (hp : Parser.parseRequestHeaders head s.reqHeaders = some rh)
    (hu : env.url rh.rawPath = some (p, q)) (hops : ∀ s, app.onHp s = ops)
    (hr : ∀ s1 : Sock, s1.alive = s.alive → s1.ws = s.ws → s1.ioOpen = s.ioOpen → s1.dcFlag = s.dcFlag →
        s1.tcp.devOpen = true → s1.tcp.conn = s.tcp.conn → s1.code = s.code → s1.reason = s.reason →
        s1.respHeaders = s.respHeaders → s1.delPending = s.delPending → s1.log = s.log ++ [Obs.hp] →
        Resp s1 (apis env app s1 ops) obs) :
    Done (onReadyRead env app s) ∧ (onReadyRead env app s).delPending = s.delPending ∧
      (onReadyRead env app s).log = s.log ++ [Obs.hp] ++ obs := by
  obtain ⟨g1, g2, g3, g4, g5, g6, g7, g8, g9, g10, g11, g12, g13, g14⟩ := pull_fields s
  have hf := hpState_fields (pull s) rh p q rest
  simp only at hf
  obtain ⟨f1, f2, f3, f4, f5, f6, f7, f8, f9, f10, f11⟩ := hf
  have R := hr (hpState (pull s) rh p q rest) (f1.trans g1) (f2.trans g2) (f3.trans g3) (f4.trans g4)
    (by rw [f5, g5]; exact hdev) (by rw [f5, g6]) (f6.trans g7) (f7.trans g8) (f8.trans g9) (f9.trans g10)
    (by rw [f11, g12])
  rw [onReadyRead_headers env app s hrs hdev,
    readHeaders_ok env app (pull s) (by rw [g13]; exact hb) (by rw [g14]; exact hp) hu hops]
  obtain ⟨d1, d2, d3⟩ := post_done_true env app R.done
  refine ⟨d1, ?_, ?_⟩
  · rw [d2, R.del, f9, g10]
  · rw [d3, R.log, f11, g12]

/-- the first read of a fresh connection whose head is not acceptable: the library answers 400 -/
theorem onReadyRead_bad (env : Env) (app : App) (s : Sock) {head rest : Bytes}
    (hrs : s.rs = .headers) (hr : Ready s)
    (hb : breakOn CRLF2 (s.readBuffer ++ s.tcp.inbox) = some (head, rest))
    (hbad : match Parser.parseRequestHeaders head s.reqHeaders with
            | none => True
            | some rh => env.url rh.rawPath = none) :
    Done (onReadyRead env app s) ∧ (onReadyRead env app s).delPending = s.delPending ∧
      (onReadyRead env app s).log = s.log ++
        ([.w (headOf 400 (statusReason 400) (errHeaders s.respHeaders (env.errPage 400 (statusReason 400)).length))] ++
          wObs (env.errPage 400 (statusReason 400)) ++ [.tc]) := by
  obtain ⟨g1, g2, g3, g4, g5, g6, g7, g8, g9, g10, g11, g12, g13, g14⟩ := pull_fields s
  have hr' : Ready (pull s) :=
    ⟨g1.trans hr.alive, g2.trans hr.ws, g3.trans hr.io, g4.trans hr.dcF, g5.trans hr.dev, g6.trans hr.conn⟩
  have R := writeError_resp env hr' 400
  rw [onReadyRead_headers env app s hrs hr.dev,
    readHeaders_bad env app (pull s) (by rw [g13]; exact hb) (by rw [g14]; exact hbad)]
  simp only [R.done.dcF, Bool.false_eq_true, if_false, post_false]
  exact ⟨R.done, R.del.trans g10, by rw [R.log, g12, g9]⟩

/-! ### the whole scenario: `.new`, `.feed stream`, `.turn` -/

/-- the socket when the segment arrives -/
def s0 (stream : Bytes) : Sock :=
  { initPending := true, log := [.ev 0, .ev 1], tcp := { inbox := stream } }

theorem run_eq (env : Env) (app : App) (stream : Bytes) :
    Sock.run env app [.new, .feed stream, .turn] =
      (stepK env app (onReadyRead env app (s0 stream), 2) .turn).1 := by
  have e1 : stepK env app ({}, 0) .new = ({ initPending := true, log := [.ev 0] }, 1) := by
    simp [stepK, step]
  have e2 : stepK env app ({ initPending := true, log := [.ev 0] }, 1) (.feed stream) =
      (onReadyRead env app (s0 stream), 2) := by
    simp [stepK, step, s0]
  simp only [Sock.run, List.foldl]
  rw [e1, e2]

theorem s0_ready (stream : Bytes) : Ready (s0 stream) := ⟨rfl, rfl, rfl, rfl, rfl, rfl⟩

theorem turn_after_done (env : Env) (app : App) {s : Sock} (h : Done s) (hd : s.delPending = false) :
    (stepK env app (s, 2) .turn).1.log = s.log ++ [.ev 2] := by
  have ha : (!s.alive) = false := by simp [h.alive]
  simp only [stepK, ha, Bool.false_eq_true, if_false]
  have h' : Done { s with log := s.log ++ [Obs.ev 2] } := ⟨h.alive, h.rs, h.dev, h.dcF⟩
  rw [step_turn_done env app h' hd]

/-- acceptable head: the history is the two event markers, `headersParsed`, what the slot's calls
    append, and the marker of the event-loop turn -/
theorem run_ok (env : Env) (app : App) (stream : Bytes) {head rest : Bytes} {rh : Parser.ReqHead} {p : Bytes}
    {q : List (Bytes × Bytes)} {ops : List ApiOp} {obs : List Obs}
    (hb : breakOn CRLF2 stream = some (head, rest))
    (hp : Parser.parseRequestHeaders head [] = some rh)
    (hu : env.url rh.rawPath = some (p, q)) (hops : ∀ s, app.onHp s = ops)
    (hr : ∀ s1 : Sock, Ready s1 → s1.code = 200 → s1.reason = lit ['O','K'] → s1.respHeaders = [] →
        s1.log = [.ev 0, .ev 1, .hp] → Resp s1 (apis env app s1 ops) obs) :
    (Sock.run env app [.new, .feed stream, .turn]).log = [.ev 0, .ev 1, .hp] ++ obs ++ [.ev 2] := by
  rw [run_eq]
  have := onReadyRead_ok env app (s0 stream) (obs := obs) rfl rfl (by simpa [s0] using hb) hp hu hops
    (fun s1 e1 e2 e3 e4 e5 e6 e7 e8 e9 _ e11 => hr s1 ⟨e1, e2, e3, e4, e5, e6⟩ e7 e8 e9 e11)
  obtain ⟨d1, d2, d3⟩ := this
  rw [turn_after_done env app d1 d2, d3]
  rfl

/-- unacceptable head: the library's 400 and nothing else -/
theorem run_bad (env : Env) (app : App) (stream : Bytes) {head rest : Bytes}
    (hb : breakOn CRLF2 stream = some (head, rest))
    (hbad : match Parser.parseRequestHeaders head [] with
            | none => True
            | some rh => env.url rh.rawPath = none) :
    (Sock.run env app [.new, .feed stream, .turn]).log = [.ev 0, .ev 1] ++
        ([.w (headOf 400 (statusReason 400) (errHeaders [] (env.errPage 400 (statusReason 400)).length))] ++
          wObs (env.errPage 400 (statusReason 400)) ++ [.tc]) ++ [.ev 2] := by
  rw [run_eq]
  obtain ⟨d1, d2, d3⟩ := onReadyRead_bad env app (s0 stream) rfl (s0_ready stream) (by simpa [s0] using hb) hbad
  rw [turn_after_done env app d1 d2, d3]
  rfl

/-! ### the calls of the instrumented handlers -/

def OK : Bytes := lit ['O','K']

/-- what the last action of a routing run appends to the history -/
def lastObs (env : Env) (root : Node) : Act → List Obs
  | .redirect _ loc => [.w (headOf 302 (statusReason 302) [(LOC, encodeLoc loc)]), .tc]
  | .process id path =>
    .pr id (be16 path) ::
      (if (RouteScn.ownOf root id).getD false then
        [.w (headOf 200 OK [])] ++ wObs RouteScn.OK_BODY ++ [.tc]
      else
        [.w (headOf 404 (statusReason 404) (errHeaders [] (env.errPage 404 (statusReason 404)).length))] ++
          wObs (env.errPage 404 (statusReason 404)) ++ [.tc])
  | .mw id true => [.mw id true]
  | .mw id false =>
    .mw id false ::
      ([.w (headOf 403 (statusReason 403)
          (errHeaders [(RouteScn.X_MW, natDigits id)] (env.errPage 403 (statusReason 403)).length))] ++
        wObs (env.errPage 403 (statusReason 403)) ++ [.tc])

def mwObs (e : Nat × Bool) : Obs := .mw e.1 e.2

theorem apis_append (env : Env) (app : App) (s : Sock) (a b : List ApiOp) :
    apis env app s (a ++ b) = apis env app (apis env app s a) b := by
  simp [apis, List.foldl_append]

theorem apis_accepting (env : Env) (app : App) (root : Node) (pre : List (Nat × Bool)) (hacc : allAccept pre = true) :
    ∀ {s : Sock}, Ready s →
      apis env app s ((pre.map mwAct).flatMap (RouteScn.actOps root)) = { s with log := s.log ++ pre.map mwObs } := by
  induction pre with
  | nil => intro s _; simp [apis]
  | cons e pre ih =>
    intro s h
    obtain ⟨i, ok⟩ := e
    simp only [allAccept, List.all_cons, Bool.and_eq_true] at hacc
    have hok : ok = true := hacc.1
    subst hok
    simp only [List.map_cons, List.flatMap_cons, mwAct, RouteScn.actOps]
    rw [apis_append]
    have e1 : apis env app s [ApiOp.note (Obs.mw i true)] = { s with log := s.log ++ [Obs.mw i true] } := by
      simp only [apis, List.foldl]; exact api_note env app h _
    rw [e1]
    have := ih (by simpa [allAccept] using hacc.2) (h.note (s.log ++ [Obs.mw i true]))
    simp only [mwAct] at this
    rw [this]
    simp [mwObs]

theorem apis_last (env : Env) (app : App) (root : Node) {s : Sock} (h : Ready s) (hc : s.code = 200)
    (hr : s.reason = OK) (hh : s.respHeaders = []) (t : Act) (ht : t ≠ .mw (match t with | .mw i _ => i | _ => 0) true) :
    Resp s (apis env app s (RouteScn.actOps root t)) (lastObs env root t) := by
  cases t with
  | redirect id loc =>
    have := api_redir env app h (encodeLoc loc)
    simp only [RouteScn.actOps, apis, List.foldl, lastObs]
    rw [hh] at this
    simpa [HeaderMap.insert, HeaderMap.remove, LOC] using this
  | process id path =>
    simp only [RouteScn.actOps, lastObs]
    have hn : Ready { s with log := s.log ++ [Obs.pr id (be16 path)] } := h.note _
    have e1 : ∀ rest, apis env app s (ApiOp.note (Obs.pr id (be16 path)) :: rest) =
        apis env app { s with log := s.log ++ [Obs.pr id (be16 path)] } rest := by
      intro rest; simp only [apis, List.foldl]; rw [api_note env app h]
    rw [e1]
    split
    · have := apis_write_close env app hn RouteScn.OK_BODY
      exact ⟨this.done, this.del, this.init, by rw [this.log]; simp [hc, hr, hh]⟩
    · have := api_err env app hn 404
      simp only [apis, List.foldl]
      exact ⟨this.done, this.del, this.init, by rw [this.log]; simp [hh]⟩
  | mw id ok =>
    cases ok with
    | true => exact absurd rfl ht
    | false =>
      simp only [RouteScn.actOps, lastObs]
      have hn : Ready { s with log := s.log ++ [Obs.mw id false] } := h.note _
      have e1 : ∀ rest, apis env app s (ApiOp.note (Obs.mw id false) :: rest) =
          apis env app { s with log := s.log ++ [Obs.mw id false] } rest := by
        intro rest; simp only [apis, List.foldl]; rw [api_note env app h]
      rw [e1]
      have e2 : ∀ rest, apis env app { s with log := s.log ++ [Obs.mw id false] }
            (ApiOp.hdr RouteScn.X_MW (natDigits id) true :: rest) =
          apis env app { s with log := s.log ++ [Obs.mw id false], respHeaders := [(RouteScn.X_MW, natDigits id)] } rest := by
        intro rest; simp only [apis, List.foldl]; rw [api_hdr env app hn]
        simp [hh, HeaderMap.insert, HeaderMap.remove]
      rw [e2]
      have hn2 : Ready { s with log := s.log ++ [Obs.mw id false], respHeaders := [(RouteScn.X_MW, natDigits id)] } :=
        ⟨h.alive, h.ws, h.io, h.dcF, h.dev, h.conn⟩
      have := api_err env app hn2 403
      simp only [apis, List.foldl]
      exact ⟨this.done, this.del, this.init, by rw [this.log]; simp⟩

/-- the whole slot: accepted middleware, then the last action -/
theorem apis_route (env : Env) (app : App) (root : Node) {s : Sock} (h : Ready s) (hc : s.code = 200)
    (hr : s.reason = OK) (hh : s.respHeaders = []) (pre : List (Nat × Bool)) (hacc : allAccept pre = true)
    (t : Act) (ht : t ≠ .mw (match t with | .mw i _ => i | _ => 0) true) :
    Resp s (apis env app s ((pre.map mwAct ++ [t]).flatMap (RouteScn.actOps root)))
      (pre.map mwObs ++ lastObs env root t) := by
  rw [List.flatMap_append, apis_append, apis_accepting env app root pre hacc h]
  have hn : Ready { s with log := s.log ++ pre.map mwObs } := h.note _
  have := apis_last env app root hn hc hr hh t ht
  simp only [List.flatMap_cons, List.flatMap_nil, List.append_nil]
  exact ⟨this.done, this.del, this.init, by rw [this.log]; simp⟩

/-- no root handler: the Server's 500 -/
theorem apis_500 (env : Env) (app : App) {s : Sock} (h : Ready s) (hh : s.respHeaders = []) :
    Resp s (apis env app s [.err 500 none])
      ([.w (headOf 500 (statusReason 500) (errHeaders [] (env.errPage 500 (statusReason 500)).length))] ++
        wObs (env.errPage 500 (statusReason 500)) ++ [.tc]) := by
  have := api_err env app h 500
  simp only [hh] at this
  simpa [apis] using this

end Qhttp.RouteL
