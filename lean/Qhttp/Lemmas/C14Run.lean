import Qhttp.Lemmas.C14Block
/-
  C14 helper lemmas, part 3: whole runs.  Event markers, the pre-stop invariants of a
  random-access copy (`NInv`) and of a sequential copy (`SInv`), and the post-stop invariant
  (`StInv`, valid for every configuration).
-/
namespace Qhttp.C14L
open Qhttp Copier

/-- the state with the marker of event `k` appended (what `stepK` hands to `step`) -/
def mk (s : St) (k : Nat) : St := { s with log := s.log ++ [Obs.ev k] }

def runFrom (c : Cfg) (sk : St × Nat) (evs : List Ev) : St × Nat := evs.foldl (stepK c) sk

theorem runFrom_nil (c : Cfg) (sk : St × Nat) : runFrom c sk [] = sk := rfl
theorem runFrom_cons (c : Cfg) (s : St) (k : Nat) (e : Ev) (l : List Ev) :
    runFrom c (s, k) (e :: l) = runFrom c (step c (mk s k) e, k + 1) l := rfl
theorem runFrom_append (c : Cfg) (sk : St × Nat) (l1 l2 : List Ev) :
    runFrom c sk (l1 ++ l2) = runFrom c (runFrom c sk l1) l2 := by
  simp [runFrom, List.foldl_append]
theorem run_eq (c : Cfg) (evs : List Ev) : run c evs = (runFrom c (init c, 0) evs).1 := rfl

def nTurns (evs : List Ev) : Nat := (evs.filter (· == .turn)).length
/-- the bytes an event makes available on a sequential source -/
def pieceOf : Ev → Bytes | .arrive b => b | .arriveQ b => b | _ => []
def arrived (evs : List Ev) : Bytes := evs.flatMap pieceOf

theorem nTurns_cons (e : Ev) (l : List Ev) :
    nTurns (e :: l) = (if e = .turn then 1 else 0) + nTurns l := by
  simp only [nTurns, List.filter_cons]
  by_cases h : e = .turn
  · simp [h]; omega
  · simp [h]
theorem arrived_cons (e : Ev) (l : List Ev) :
    arrived (e :: l) = pieceOf e ++ arrived l := by
  simp [arrived]
theorem arrived_append (a b : List Ev) : arrived (a ++ b) = arrived a ++ arrived b := by
  simp [arrived, List.flatMap_append]

/-! ### markers and the event counter -/

theorem runFrom_counter (c : Cfg) : ∀ (l : List Ev) (s : St) (k : Nat),
    (runFrom c (s, k) l).2 = k + l.length := by
  intro l
  induction l with
  | nil => intro s k; rfl
  | cons e l ih => intro s k; rw [runFrom_cons, ih]; simp; omega

theorem sig_not_mk {o : Obs} (h : isSig o = true) (k : Nat) : o ≠ Obs.ev k := by
  intro e; subst e; cases h

theorem step_minv (c : Cfg) (s : St) (k : Nat) (e : Ev) (h : MInv s.log k) :
    MInv (step c (mk s k) e).log (k + 1) := by
  obtain ⟨l, el, pl⟩ := step_ext c (mk s k) e
  intro j hj
  rw [el] at hj
  rcases List.mem_append.1 hj with hj | hj
  · simp only [mk] at hj
    rcases List.mem_append.1 hj with hj | hj
    · have := h j hj; omega
    · simp at hj; omega
  · exact absurd rfl (sig_not_mk (pl _ hj) j)

theorem runFrom_minv (c : Cfg) : ∀ (l : List Ev) (s : St) (k : Nat), MInv s.log k →
    MInv (runFrom c (s, k) l).1.log (k + l.length) := by
  intro l
  induction l with
  | nil => intro s k h; exact h
  | cons e l ih =>
    intro s k h
    rw [runFrom_cons]
    have := ih _ _ (step_minv c s k e h)
    simpa [Nat.add_assoc, Nat.add_comm 1] using this

theorem run_minv (c : Cfg) (evs : List Ev) : MInv (run c evs).log evs.length := by
  have := runFrom_minv c evs (init c) 0 (by intro j hj; simp [init] at hj)
  simpa [run_eq] using this

/-! ### the post-stop invariant (every configuration) -/

/-- `stop()` was called at event `k` on a log `L`: since then only markers were logged -/
def StInv (L : List Obs) (k : Nat) (s : St) : Prop :=
  s.stopped = true ∧ s.connected = false ∧
  ∃ ms, s.log = L ++ Obs.ev k :: fin :: ms ∧ ∀ o ∈ ms, isMk o = true

theorem step_stopped (c : Cfg) (s : St) (e : Ev) (hs : s.stopped = true) (hc : s.connected = false)
    (he : e ≠ .start) (he' : e ≠ .stop) :
    (step c s e).stopped = true ∧ (step c s e).connected = false ∧ (step c s e).log = s.log := by
  cases e with
  | start => exact absurd rfl he
  | stop => exact absurd rfl he'
  | turn =>
    simp only [step]
    split
    · exact ⟨hs, hc, rfl⟩
    · simp [nextBlock, hs, hc]
    · simp [onReadyRead, hs, hc]
  | arrive b =>
    simp only [step]
    split
    · exact ⟨hs, hc, rfl⟩
    · simp [hs, hc]
  | eof =>
    simp only [step]
    split
    · exact ⟨hs, hc, rfl⟩
    · simp [hs, hc]
  | arriveQ b =>
    simp only [step]
    split
    · exact ⟨hs, hc, rfl⟩
    · exact ⟨hs, hc, rfl⟩

theorem stop_stinv (c : Cfg) (s : St) (k : Nat) : StInv s.log k (step c (mk s k) .stop) :=
  ⟨rfl, rfl, [], by simp [step, stop, mk], by simp⟩

theorem runFrom_stinv (c : Cfg) (L : List Obs) (k0 : Nat) : ∀ (l : List Ev) (s : St) (k : Nat),
    (∀ e ∈ l, e ≠ .start ∧ e ≠ .stop) → StInv L k0 s → StInv L k0 (runFrom c (s, k) l).1 := by
  intro l
  induction l with
  | nil => intro s k _ h; exact h
  | cons e l ih =>
    intro s k hl h
    rw [runFrom_cons]
    apply ih _ _ (fun e he => hl e (List.mem_cons_of_mem _ he))
    obtain ⟨hs, hc, ms, em, pm⟩ := h
    obtain ⟨h1, h2⟩ := hl e (List.mem_cons_self ..)
    obtain ⟨a, b, d⟩ := step_stopped c (mk s k) e hs hc h1 h2
    refine ⟨a, b, ms ++ [Obs.ev k], ?_, ?_⟩
    · rw [d]; simp [mk, em]
    · intro o ho
      rcases List.mem_append.1 ho with ho | ho
      · exact pm o ho
      · simp at ho; subst ho; rfl

/-- the run up to and after a `stop`: the log is the log before, the marker of the stop event,
    the `fin` that `stop()` signals, then markers only -/
theorem run_stop (c : Cfg) (pre post : List Ev) (hpost : ∀ e ∈ post, e ≠ .start ∧ e ≠ .stop) :
    Obs.ev pre.length ∉ (run c pre).log ∧
    ∃ ms, (run c (pre ++ .stop :: post)).log = (run c pre).log ++ Obs.ev pre.length :: fin :: ms ∧
          ∀ o ∈ ms, isMk o = true := by
  refine ⟨fun h => Nat.lt_irrefl _ (run_minv c pre _ h), ?_⟩
  rw [run_eq, runFrom_append]
  have hk := runFrom_counter c pre (init c) 0
  generalize hsk : runFrom c (init c, 0) pre = sk at hk
  obtain ⟨s, k⟩ := sk
  simp only [Nat.zero_add] at hk; subst hk
  rw [runFrom_cons]
  have := runFrom_stinv c s.log pre.length post _ (pre.length + 1) hpost (stop_stinv c s pre.length)
  obtain ⟨_, _, ms, em, pm⟩ := this
  refine ⟨ms, ?_, pm⟩
  rw [em, run_eq, hsk]


/-! ### random-access copies before any `stop` -/

theorem Running.marker {c : Cfg} {nt : Nat} {s : St} (h : Running c nt s) (k : Nat) : Running c nt (C14L.mk s k) := by
  refine ⟨h.pending, h.stopped, h.reads, h.writes, h.pos, h.more, ?_, ?_, ?_, h.startok, h.nofault⟩
  · show written (s.log ++ [Obs.ev k]) = _
    rw [written_append, written_ev, List.append_nil]; exact h.wr
  · show Obs.countP isFin (s.log ++ [Obs.ev k]) = 0
    rw [cnt_append, h.nofin]; simp [cnt_cons]
  · show Obs.countP isErr (s.log ++ [Obs.ev k]) = 0
    rw [cnt_append, h.noerr]; simp [cnt_cons]

theorem Done.marker {c : Cfg} {s : St} (h : Done c s) (k : Nat) : Done c (C14L.mk s k) := by
  have hw : written (s.log ++ [Obs.ev k]) = written s.log := by
    rw [written_append, written_ev, List.append_nil]
  have he : Obs.countP isErr (s.log ++ [Obs.ev k]) = Obs.countP isErr s.log := by
    rw [cnt_append]; simp [cnt_cons]
  refine ⟨h.pending, h.closed.snoc_mk k, ?_, ?_⟩
  · show written (s.log ++ [Obs.ev k]) <+: _
    rw [hw]; exact h.pre
  · show (Obs.countP isErr (s.log ++ [Obs.ev k]) = 0 ∧ written (s.log ++ [Obs.ev k]) = _ ∧ _) ∨
         (Obs.countP isErr (s.log ++ [Obs.ev k]) = 1 ∧ _)
    rw [hw, he]; exact h.res

def NInv (c : Cfg) (nt : Nat) (s : St) : Prop := Running c nt s ∨ Done c s

theorem startFails_nonseq (c : Cfg) (hseq : c.seq = false) (hr : RangeNF c) :
    startFails c = (c.srcOpenFails || c.dstOpenFails || (decide (rangeFrom c > 0) && c.seekFails)) := by
  have hl := hr.from_le
  have e1 : seekNeeded c = decide (rangeFrom c > 0) := by
    simp only [seekNeeded, hseq, Bool.not_false, Bool.and_true]
  have e2 : decide ((rangeFrom c).toNat > c.src.length) = false := by
    simp; omega
  simp only [startFails, e1, e2, Bool.or_false]

theorem startFails_of_noFault (c : Cfg) (hnf : anyFault c = false) (h : c.seq = true ∨ RangeNF c) :
    startFails c = false := by
  simp only [anyFault, Bool.or_eq_false_iff] at hnf
  obtain ⟨⟨⟨⟨h1, h2⟩, h3⟩, _⟩, _⟩ := hnf
  cases hseq : c.seq
  · rcases h with h | h
    · rw [hseq] at h; cases h
    · rw [startFails_nonseq c hseq h, h1, h2, h3]; simp
  · simp [startFails, seekNeeded, hseq, h1, h2]

/-- a copier on which `start()` begins a (new) run: the timer is idle, no copier signal is in the
    log yet, no device call has been counted, the source stands at `prePos` -/
structure Fresh (c : Cfg) (s : St) : Prop where
  pos : s.pos = c.prePos
  pending : s.pending = .none
  reads : s.reads = 0
  writes : s.writes = 0
  nowr : written s.log = []
  nofin : Obs.countP isFin s.log = 0
  noerr : Obs.countP isErr s.log = 0

theorem fresh_init (c : Cfg) : Fresh c (init c) :=
  ⟨rfl, rfl, rfl, rfl, rfl, rfl, rfl⟩

theorem start_fresh_nonseq (c : Cfg) (hseq : c.seq = false) (hr : RangeNF c) (s : St) (k : Nat)
    (hf : Fresh c s) : NInv c 0 (start c (mk s k)) := by
  have hw : written (s.log ++ [Obs.ev k]) = [] := by
    rw [written_append, written_ev, List.append_nil]; exact hf.nowr
  have hfin : Obs.countP isFin (s.log ++ [Obs.ev k]) = 0 := by
    rw [cnt_append, hf.nofin]; simp [cnt_cons]
  have herr : Obs.countP isErr (s.log ++ [Obs.ev k]) = 0 := by
    rw [cnt_append, hf.noerr]; simp [cnt_cons]
  rw [start_eq]
  cases hsf : startFails c
  · refine Or.inl ?_
    simp only [Bool.false_eq_true, if_false, hseq]
    refine ⟨rfl, rfl, hf.reads, hf.writes, ?_, Or.inl rfl, ?_, hfin, herr, hsf, by intro j hj; omega⟩
    · show (if seekNeeded c = true then (rangeFrom c).toNat else s.pos) = f0 c + 0 * c.block
      rw [hf.pos]
      cases hsn : seekNeeded c
      · simp only [seekNeeded, hseq, Bool.not_false, Bool.and_true, decide_eq_false_iff_not] at hsn
        rw [f0_of_zero c hsn]; simp
      · simp only [seekNeeded, hseq, Bool.not_false, Bool.and_true, decide_eq_true_eq] at hsn
        rw [f0_of_pos c hsn]; simp
    · show written (s.log ++ [Obs.ev k]) = _
      rw [hw]; simp
  · simp only [if_true]
    refine Or.inr ⟨hf.pending, ?_, ?_, Or.inr ⟨?_, ?_⟩⟩
    · show Closed (s.log ++ [Obs.ev k] ++ [err, fin])
      have : s.log ++ [Obs.ev k] ++ [err, fin] = (s.log ++ [Obs.ev k] ++ [err]) ++ [fin] := by simp
      rw [this]; apply Closed.of_snoc_fin
      rw [cnt_append, hfin]; simp [cnt_cons]
    · show written (s.log ++ [Obs.ev k] ++ [err, fin]) <+: _
      rw [written_append, hw]; simp [written, err, fin]
    · show Obs.countP isErr (s.log ++ [Obs.ev k] ++ [err, fin]) = 1
      rw [cnt_append, herr]; simp [cnt_cons]
    · rw [startFails_nonseq c hseq hr] at hsf
      simp only [anyFault]
      cases h1 : c.srcOpenFails <;> cases h2 : c.dstOpenFails <;> cases h3 : c.seekFails <;> simp_all

theorem start_init_nonseq (c : Cfg) (hseq : c.seq = false) (hr : RangeNF c) :
    NInv c 0 (start c (mk (init c) 0)) ∧
    (startFails c = true → (start c (mk (init c) 0)).log = [Obs.ev 0, err, fin] ∧
                            (start c (mk (init c) 0)).pending = .none) := by
  refine ⟨start_fresh_nonseq c hseq hr _ 0 (fresh_init c), ?_⟩
  intro hsf
  rw [start_eq]
  simp only [hsf, if_true]
  exact ⟨rfl, rfl⟩

theorem step_turn_done (c : Cfg) (s : St) (k : Nat) (h : s.pending = .none) :
    step c (mk s k) .turn = mk s k := by
  simp only [step]
  have : (mk s k).pending = .none := h
  rw [this]

theorem step_ninv (c : Cfg) (hseq : c.seq = false) (hb : 1 ≤ c.block) (hr : RangeNF c)
    (nt : Nat) (s : St) (k : Nat) (e : Ev) (he : e ≠ .start) (he' : e ≠ .stop) (h : NInv c nt s) :
    NInv c (nt + (if e = .turn then 1 else 0)) (step c (mk s k) e) := by
  cases e with
  | start => exact absurd rfl he
  | stop => exact absurd rfl he'
  | turn =>
    simp only [if_true]
    rcases h with h | h
    · have hm := h.marker k
      have hp : (mk s k).pending = .nextBlock := hm.pending
      have : step c (mk s k) .turn = nextBlock c { mk s k with pending := .none } := by
        simp only [step]; rw [hp]
      rw [this]
      cases hf : faultAt c nt
      · rcases nextBlock_ok c hb hr nt _ hm hf with ⟨h', _⟩ | ⟨h', _⟩
        · exact Or.inl h'
        · exact Or.inr h'
      · exact Or.inr (nextBlock_fault c nt _ hm hf).1
    · rw [step_turn_done c s k h.pending]; exact Or.inr (h.marker k)
  | arrive b =>
    have : step c (mk s k) (.arrive b) = mk s k := by simp [step, hseq]
    rw [this]
    simp only [reduceCtorEq, if_false, Nat.add_zero]
    rcases h with h | h
    · exact Or.inl (h.marker k)
    · exact Or.inr (h.marker k)
  | eof =>
    have : step c (mk s k) .eof = mk s k := by simp [step, hseq]
    rw [this]
    simp only [reduceCtorEq, if_false, Nat.add_zero]
    rcases h with h | h
    · exact Or.inl (h.marker k)
    · exact Or.inr (h.marker k)
  | arriveQ b =>
    have : step c (mk s k) (.arriveQ b) = mk s k := by simp [step, hseq]
    rw [this]
    simp only [reduceCtorEq, if_false, Nat.add_zero]
    rcases h with h | h
    · exact Or.inl (h.marker k)
    · exact Or.inr (h.marker k)

theorem runFrom_ninv (c : Cfg) (hseq : c.seq = false) (hb : 1 ≤ c.block) (hr : RangeNF c) :
    ∀ (l : List Ev) (s : St) (k nt : Nat), (∀ e ∈ l, e ≠ .start ∧ e ≠ .stop) → NInv c nt s →
      NInv c (nt + nTurns l) (runFrom c (s, k) l).1 := by
  intro l
  induction l with
  | nil => intro s k nt _ h; exact h
  | cons e l ih =>
    intro s k nt hl h
    rw [runFrom_cons, nTurns_cons, ← Nat.add_assoc]
    obtain ⟨h1, h2⟩ := hl e (List.mem_cons_self ..)
    exact ih _ _ _ (fun e he => hl e (List.mem_cons_of_mem _ he)) (step_ninv c hseq hb hr nt s k e h1 h2 h)

/-- `start` on a fresh copier (whatever its log holds besides copier signals) and any events
    without `start`/`stop` -/
theorem runFrom_start_ninv (c : Cfg) (hseq : c.seq = false) (hb : 1 ≤ c.block) (hr : RangeNF c)
    (s : St) (k : Nat) (hf : Fresh c s) (r : List Ev) (hrs : ∀ e ∈ r, e ≠ .start ∧ e ≠ .stop) :
    NInv c (nTurns r) (runFrom c (s, k) (.start :: r)).1 := by
  rw [runFrom_cons]
  have := runFrom_ninv c hseq hb hr r _ (k + 1) 0 hrs (start_fresh_nonseq c hseq hr s k hf)
  rw [Nat.zero_add] at this
  exact this

/-- a random-access copy after `start` and any events without `stop` -/
theorem run_ninv (c : Cfg) (hseq : c.seq = false) (hb : 1 ≤ c.block) (hr : RangeNF c)
    (r : List Ev) (hrs : ∀ e ∈ r, e ≠ .start ∧ e ≠ .stop) :
    NInv c (nTurns r) (run c (.start :: r)) := by
  rw [run_eq]
  exact runFrom_start_ninv c hseq hb hr (init c) 0 (fresh_init c) r hrs

/-- enough turns: the block loop has terminated -/
theorem NInv.done {c : Cfg} {nt : Nat} {s : St} (h : NInv c nt s) (hb : 1 ≤ c.block)
    (hn : nt ≥ (wanted c).length / c.block + 1) : Done c s := by
  rcases h with h | h
  · exfalso
    have h1 := Nat.lt_mul_div_succ (wanted c).length (show 0 < c.block by omega)
    have h2 : ((wanted c).length / c.block + 1) * c.block ≤ nt * c.block := Nat.mul_le_mul_right _ hn
    rw [Nat.mul_comm] at h1
    generalize (wanted c).length / c.block = q at *
    rcases h.more with h0 | hlt <;> omega
  · exact h

theorem NInv.prefix {c : Cfg} {nt : Nat} {s : St} (h : NInv c nt s) : written s.log <+: wanted c := by
  rcases h with h | h
  · rw [h.wr]; exact List.take_prefix _ _
  · exact h.pre


/-! ### idle turns, and the reversed range -/

theorem nTurns_replicate (n : Nat) : nTurns (List.replicate n Ev.turn) = n := by
  induction n with
  | zero => rfl
  | succ n ih => rw [List.replicate_succ, nTurns_cons, ih]; simp; omega

theorem runFrom_idle (c : Cfg) : ∀ (n : Nat) (s : St) (k : Nat), s.pending = .none →
    (runFrom c (s, k) (List.replicate n Ev.turn)).1 =
      { s with log := s.log ++ (List.range' k n).map Obs.ev } := by
  intro n
  induction n with
  | zero => intro s k _; simp [runFrom]
  | succ n ih =>
    intro s k h
    rw [List.replicate_succ, runFrom_cons, step_turn_done c s k h, ih _ _ (show (mk s k).pending = .none from h)]
    simp [mk, List.range'_succ]

theorem range'_map_mk (k n : Nat) : ∀ o ∈ (List.range' k n).map Obs.ev, isMk o = true := by
  intro o ho
  simp only [List.mem_map] at ho
  obtain ⟨j, _, rfl⟩ := ho
  rfl

/-- `setRange(f, t)` with `0 ≤ t < p ≤ |src|` on a random-access source, where `p` is the position
    of the first byte (`f` if > 0, else where the source stands), no device fault: the first block
    is cut to `t + 1 - p ≤ 0` bytes; a negative count makes `write` fail (error, then completion),
    the count 0 (`t = p - 1`, the empty range) just completes -/
theorem run_reversed (c : Cfg) (hseq : c.seq = false) (hnf : anyFault c = false) (f t : Int)
    (hrange : c.range = some (f, t)) (ht0 : 0 ≤ t) (htf : t < firstPos c) (hfl : firstPos c ≤ c.src.length) (n : Nat) :
    (run c (.start :: List.replicate (n + 1) Ev.turn)).log =
      [Obs.ev 0, Obs.ev 1] ++ (if t + 1 < firstPos c then [err, fin] else [fin]) ++ (List.range' 2 n).map Obs.ev ∧
    (run c (.start :: List.replicate (n + 1) Ev.turn)).pending = .none := by
  have e1 : rangeFrom c = f := by simp [rangeFrom, hrange]
  have e2 : rangeTo c = t := by simp [rangeTo, hrange]
  simp only [anyFault, Bool.or_eq_false_iff] at hnf
  obtain ⟨⟨⟨⟨h1, h2⟩, h3⟩, h4⟩, h5⟩ := hnf
  have h4' : c.readFailAt = none := by cases h : c.readFailAt <;> simp_all
  have h5' : c.writeFailAt = none := by cases h : c.writeFailAt <;> simp_all
  have hpos : (if seekNeeded c = true then (rangeFrom c).toNat else c.prePos) = firstPos c := by
    simp only [seekNeeded, hseq, Bool.not_false, Bool.and_true, decide_eq_true_eq, firstPos]
  generalize firstPos c = p at htf hfl hpos ⊢
  have hsf : startFails c = false := by
    simp only [startFails, h1, h2, h3, Bool.false_or, Bool.and_eq_false_iff, decide_eq_false_iff_not]
    cases hsn : seekNeeded c
    · exact Or.inl rfl
    · right; rw [hsn] at hpos; simp only [if_true] at hpos; omega
  rw [run_eq, runFrom_cons, List.replicate_succ, runFrom_cons]
  have hst : step c (mk (init c) 0) .start = start c (mk (init c) 0) := rfl
  rw [hst, start_eq]
  simp only [hsf, Bool.false_eq_true, if_false, hseq]
  have hp0 : (mk (init c) 0).pos = c.prePos := rfl
  rw [hp0, hpos]
  have hturn : ∀ s : St, s.pending = .nextBlock → step c s .turn = nextBlock c { s with pending := .none } := by
    intro s hs; simp only [step]; rw [hs]
  rw [hturn _ rfl, nextBlock_eq _ _ rfl]
  simp only [h4', mk]
  have hdl : (nbData c p).length = min c.block (c.src.length - p) := by simp [nbData]
  have hpast : nbPast c p = true := by
    simp only [nbPast, e2, nbPos, hdl, Bool.and_eq_true, bne_iff_ne, ne_eq, decide_eq_true_eq]
    omega
  have hn : nbN c p = t + 1 - p := by
    simp only [nbN, hpast, if_true, e2, nbPos, hdl]; omega
  have hdone : nbDone c p = true := by simp [nbDone, hpast]
  have hd : wr (nbD c p) = [] := by
    have : nbD c p = [] := by
      simp only [nbD, hn]
      have : (t + 1 - (p : Int)).toNat = 0 := by omega
      rw [this]; rfl
    rw [this]; rfl
  have hwf : wfail c 0 (nbN c p) = decide (t + 1 < (p : Int)) := by
    simp only [wfail, hn, h5']
    by_cases h : t + 1 < (p : Int)
    · simp [h]; omega
    · simp [h]; omega
  have hr0 : (init c).reads = 0 := rfl
  have hw0 : (init c).writes = 0 := rfl
  have hl0 : (init c).log = [] := rfl
  simp only [hr0, hw0, hl0]
  by_cases hlt : t + 1 < (p : Int)
  · simp only [hlt, if_true, decide_true] at hwf ⊢
    simp only [show (none == some 0) = false from rfl, Bool.false_eq_true, if_false, hwf, if_true]
    rw [runFrom_idle c n _ _ rfl]
    simp
  · simp only [hlt, if_false, decide_false] at hwf ⊢
    simp only [show (none == some 0) = false from rfl, Bool.false_eq_true, if_false, hwf, hd, hdone, if_true]
    rw [runFrom_idle c n _ _ rfl]
    simp

end Qhttp.C14L
