import Qhttp.Model.RouteSoft
import Qhttp.Lemmas.RouteWire
/-
  The `soft` scenarios of the `route` language (`RouteScn.softScenario`): a refusing middleware
  writes its own complete response and does not close the connection.

  * when no middleware refuses, the soft scenario IS the ordinary scenario (`softScenario_eq`);
  * when one refuses, the history is the ordinary prefix, the refuser's observation, the response
    head and the body "denied" — and, since the connection stays open, possibly `readyRead` /
    `readChannelFinished` signals nobody is connected to (`run_soft_refusal`).
-/
namespace Qhttp.RouteSoftL
open Qhttp Qhttp.Sock Qhttp.RouteL
set_option linter.unusedSimpArgs false

/-! ### no refusal: nothing changes -/

theorem softActOps_accepting (root : Node) (pre : List (Nat × Bool)) (hacc : allAccept pre = true) :
    (pre.map mwAct).flatMap (RouteScn.softActOps root) = (pre.map mwAct).flatMap (RouteScn.actOps root) := by
  induction pre with
  | nil => rfl
  | cons e pre ih =>
    obtain ⟨i, ok⟩ := e
    simp only [allAccept, List.all_cons, Bool.and_eq_true] at hacc
    have hok : ok = true := hacc.1
    subst hok
    simp only [List.map_cons, List.flatMap_cons]
    rw [ih (by simpa [allAccept] using hacc.2)]
    rfl

theorem softActOps_terminal (root : Node) {t : Act} (ht : isTerminalAct t = true) :
    RouteScn.softActOps root t = RouteScn.actOps root t := by
  cases t with
  | mw i ok => simp [isTerminalAct] at ht
  | redirect _ _ => rfl
  | process _ _ => rfl

theorem softOps_eq_of_terminal (root : Node) (pre : List (Nat × Bool)) (hacc : allAccept pre = true)
    {t : Act} (ht : isTerminalAct t = true) :
    (pre.map mwAct ++ [t]).flatMap (RouteScn.softActOps root) =
      (pre.map mwAct ++ [t]).flatMap (RouteScn.actOps root) := by
  simp only [List.flatMap_append, List.flatMap_cons, List.flatMap_nil, List.append_nil]
  rw [softActOps_accepting root pre hacc, softActOps_terminal root ht]

/-- the soft scenario differs from the ordinary one only through the calls made for the actions -/
theorem softScenario_eq (sc : RouteScn)
    (h : ∀ r as, sc.root = some r → sc.acts = some as →
      as.flatMap (RouteScn.softActOps r) = as.flatMap (RouteScn.actOps r)) :
    sc.softScenario = sc.scenario := by
  have : sc.softApp = sc.app := by
    unfold RouteScn.softApp RouteScn.app
    cases hr : sc.root with
    | none => rfl
    | some r =>
      cases ha : sc.acts with
      | none => rfl
      | some as => simp only [h r as hr ha]
  simp only [RouteScn.softScenario, RouteScn.scenario, this]

theorem softScenario_eq_of_noRoot (sc : RouteScn) (h : sc.root = none) : sc.softScenario = sc.scenario :=
  softScenario_eq sc (by intro r as hr; rw [h] at hr; cases hr)

theorem softScenario_eq_of_terminal (sc : RouteScn) {r : Node} (hroot : sc.root = some r)
    {pre : List (Nat × Bool)} (hacc : allAccept pre = true) {t : Act} (ht : isTerminalAct t = true)
    (hr : route sc.matcher r (sc.p16.drop 1) = pre.map mwAct ++ [t]) : sc.softScenario = sc.scenario := by
  apply softScenario_eq
  intro r' as hr' has
  rw [hroot] at hr'
  cases hr'
  have : as = pre.map mwAct ++ [t] := by
    have h2 : sc.acts = some (route sc.matcher r (sc.p16.drop 1)) := by
      simp [RouteScn.acts, serverRoute, hroot]
    rw [h2] at has
    rw [← hr]
    exact (Option.some.inj has).symm
  rw [this]
  exact softOps_eq_of_terminal r pre hacc ht

/-! ### a refusal: the connection stays open -/

/-- signals of the request side that no slot of the `route` applications is connected to -/
def quiet : Obs → Bool
  | .rr => true
  | .rcf => true
  | _ => false

/-- the application does not react to `readyRead` / `readChannelFinished` -/
structure Silent (app : App) : Prop where
  rr : ∀ s, app.onRr s = []
  rcf : ∀ s, app.onRcf s = []

theorem softApp_silent (sc : RouteScn) : Silent sc.softApp := ⟨fun _ => rfl, fun _ => rfl⟩

/-- `s'` is `s` after some unconnected signals `q` -/
structure Same (s s' : Sock) (q : List Obs) : Prop where
  alive : s'.alive = s.alive
  del : s'.delPending = s.delPending
  log : s'.log = s.log ++ q
  quiet : q.all quiet = true
  rs : s.rs ≠ .headers → s'.rs ≠ .headers

theorem Same.trans {s s' s'' : Sock} {q q' : List Obs} (h : Same s s' q) (h' : Same s' s'' q') :
    Same s s'' (q ++ q') :=
  ⟨h'.alive.trans h.alive, h'.del.trans h.del, by rw [h'.log, h.log, List.append_assoc],
    by rw [List.all_append, h.quiet, h'.quiet]; rfl, fun x => h'.rs (h.rs x)⟩

def stage1 (s : Sock) : Sock :=
  if s.total ≥ 0 && s.dataRead + s.readBuffer.length > s.total
  then { s with readBuffer := s.readBuffer.take (s.total - s.dataRead).toNat } else s
def stage2 (s : Sock) : Sock :=
  if s.readBuffer.length != 0 then { s with log := s.log ++ [Obs.rr] } else s
def stage3 (s : Sock) : Sock :=
  if s.total != -1 && s.dataRead + s.readBuffer.length ≥ s.total
  then { s with rs := .finished, log := s.log ++ [Obs.rcf] } else s

theorem readDataSlot_stages (env : Env) {app : App} (h : Silent app) (s : Sock) :
    readDataSlot env app s = stage3 (stage2 (stage1 s)) := by
  simp only [readDataSlot, emit, h.rr, h.rcf, apis, List.foldl]
  rfl

theorem stage1_same (s : Sock) : Same s (stage1 s) [] := by
  unfold stage1; split <;> exact ⟨rfl, rfl, by simp, rfl, id⟩
theorem stage2_same (s : Sock) : ∃ q, Same s (stage2 s) q := by
  unfold stage2; split
  · exact ⟨[.rr], rfl, rfl, rfl, rfl, id⟩
  · exact ⟨[], rfl, rfl, by simp, rfl, id⟩
theorem stage3_same (s : Sock) : ∃ q, Same s (stage3 s) q := by
  unfold stage3; split
  · exact ⟨[.rcf], rfl, rfl, rfl, rfl, fun _ => by simp⟩
  · exact ⟨[], rfl, rfl, by simp, rfl, id⟩

theorem readDataSlot_same (env : Env) {app : App} (h : Silent app) (s : Sock) :
    ∃ q, Same s (readDataSlot env app s) q := by
  rw [readDataSlot_stages env h]
  obtain ⟨q2, h2⟩ := stage2_same (stage1 s)
  obtain ⟨q3, h3⟩ := stage3_same (stage2 (stage1 s))
  exact ⟨_, ((stage1_same s).trans h2).trans h3⟩

/-- a later `onReadyRead` (the queued initial one, at the event-loop turn) -/
theorem onReadyRead_same (env : Env) {app : App} (h : Silent app) (s : Sock) (hrs : s.rs ≠ .headers) :
    ∃ q, Same s (onReadyRead env app s) q := by
  rcases s with ⟨⟨inbox, wire, unacked, devOpen, conn⟩, rb, qio, rs, method, rawPath, path, query, reqHeaders,
    dataRead, total, ws, code, reason, respHeaders, hdrRemaining, ioOpen, initPending, closeCalled, dcFlag,
    delPending, alive, log⟩
  simp only at hrs
  cases rs with
  | headers => exact absurd rfl hrs
  | finished =>
    simp only [onReadyRead, if_true]
    split <;> exact ⟨[], rfl, rfl, by simp, rfl, id⟩
  | data =>
    simp only [onReadyRead, reduceCtorEq, if_false]
    cases devOpen with
    | true =>
      simp only [if_true, Bool.not_true, Bool.false_eq_true, if_false]
      obtain ⟨q, hq⟩ := readDataSlot_same env h
        { tcp := { inbox := [], wire := wire, unacked := unacked, devOpen := true, conn := conn },
          readBuffer := rb ++ inbox, qio := qio, rs := .data, method := method, rawPath := rawPath, path := path,
          query := query, reqHeaders := reqHeaders, dataRead := dataRead, total := total, ws := ws, code := code,
          reason := reason, respHeaders := respHeaders, hdrRemaining := hdrRemaining, ioOpen := ioOpen,
          initPending := initPending, closeCalled := closeCalled, dcFlag := dcFlag, delPending := delPending,
          alive := alive, log := log }
      exact ⟨q, hq.alive, hq.del, hq.log, hq.quiet, fun _ => hq.rs (by simp)⟩
    | false =>
      simp only [Bool.false_eq_true, if_false, Bool.not_true]
      obtain ⟨q, hq⟩ := readDataSlot_same env h
        { tcp := { inbox := inbox, wire := wire, unacked := unacked, devOpen := false, conn := conn },
          readBuffer := rb, qio := qio, rs := .data, method := method, rawPath := rawPath, path := path,
          query := query, reqHeaders := reqHeaders, dataRead := dataRead, total := total, ws := ws, code := code,
          reason := reason, respHeaders := respHeaders, hdrRemaining := hdrRemaining, ioOpen := ioOpen,
          initPending := initPending, closeCalled := closeCalled, dcFlag := dcFlag, delPending := delPending,
          alive := alive, log := log }
      exact ⟨q, hq.alive, hq.del, hq.log, hq.quiet, fun _ => hq.rs (by simp)⟩

/-! ### the refuser's own response -/

def softHdrs (id : Nat) : HeaderMap := [(CONTENT_LENGTH, natDigits 6), (RouteScn.X_MW, natDigits id)]

/-- what a softly refusing middleware appends to the history -/
def softObs (id : Nat) : List Obs :=
  [.mw id false, .w (headOf 403 (statusReason 403) (softHdrs id)), .w RouteScn.DENIED]

/-- `s'` is `s` after calls that appended `obs` and left the connection open -/
structure Open (s s' : Sock) (obs : List Obs) : Prop where
  alive : s'.alive = true
  rs : s'.rs = s.rs
  del : s'.delPending = s.delPending
  log : s'.log = s.log ++ obs

theorem status_wh_write {s : Sock} (h : Ready s) (env : Env) (app : App) (c : Int) (b : Bytes) (hb : b.isEmpty = false) :
    Open s (apis env app s [.status c none, .wh, .write b])
      [.w (headOf c (statusReason c) s.respHeaders), .w b] := by
  obtain ⟨a1, a2, a3, a4, a5, a6⟩ := h
  have hne := headOf_ne_nil c (statusReason c) s.respHeaders
  simp only [headOf] at hne
  simp only [apis, List.foldl, api, apiPrim, a1, a4, setStatusCode, writeHeaders, write, tcpWrite, headBytes,
    a2, a3, a5, a6, hne, hb, Bool.not_true, Bool.not_false, Bool.false_eq_true, if_false, if_true, Bool.and_self,
    beq_self_eq_true, reduceCtorEq]
  constructor <;> simp [a1, headOf]

theorem apis_soft_last (env : Env) (app : App) (root : Node) {s : Sock} (h : Ready s) (hh : s.respHeaders = [])
    (id : Nat) :
    Open s (apis env app s (RouteScn.softActOps root (.mw id false))) (softObs id) := by
  have e0 : RouteScn.softActOps root (.mw id false) =
      [.note (.mw id false), .hdr RouteScn.X_MW (natDigits id) true, .hdr CONTENT_LENGTH (natDigits 6) true] ++
        [.status 403 none, .wh, .write RouteScn.DENIED] := rfl
  have hn : Ready { s with log := s.log ++ [Obs.mw id false] } := h.note _
  have hn2 : Ready { s with log := s.log ++ [Obs.mw id false], respHeaders := [(RouteScn.X_MW, natDigits id)] } :=
    ⟨h.alive, h.ws, h.io, h.dcF, h.dev, h.conn⟩
  have hn3 : Ready { s with log := s.log ++ [Obs.mw id false], respHeaders := softHdrs id } :=
    ⟨h.alive, h.ws, h.io, h.dcF, h.dev, h.conn⟩
  have h1 : HeaderMap.keyEq RouteScn.X_MW CONTENT_LENGTH = false := by decide
  have h2 : HeaderMap.keyLt RouteScn.X_MW CONTENT_LENGTH = false := by decide
  have e1 : apis env app s
      [.note (.mw id false), .hdr RouteScn.X_MW (natDigits id) true, .hdr CONTENT_LENGTH (natDigits 6) true] =
      { s with log := s.log ++ [Obs.mw id false], respHeaders := softHdrs id } := by
    simp only [apis, List.foldl]
    rw [api_note env app h, api_hdr env app hn]
    have : ({ s with log := s.log ++ [Obs.mw id false],
                     respHeaders := HeaderMap.insert RouteScn.X_MW (natDigits id) (HeaderMap.remove RouteScn.X_MW s.respHeaders) } : Sock) =
        { s with log := s.log ++ [Obs.mw id false], respHeaders := [(RouteScn.X_MW, natDigits id)] } := by
      simp [hh, HeaderMap.insert, HeaderMap.remove]
    simp only at this ⊢
    rw [this, api_hdr env app hn2]
    simp [softHdrs, HeaderMap.insert, HeaderMap.remove, h1, h2]
  rw [e0, apis_append, e1]
  have := status_wh_write hn3 env app 403 RouteScn.DENIED (by decide)
  exact ⟨this.alive, this.rs, this.del, by rw [this.log]; simp [softObs]⟩

/-- the whole slot: accepted middleware, then the soft refusal -/
theorem apis_soft_route (env : Env) (app : App) (root : Node) {s : Sock} (h : Ready s) (hh : s.respHeaders = [])
    (pre : List (Nat × Bool)) (hacc : allAccept pre = true) (id : Nat) :
    Open s (apis env app s ((pre.map mwAct ++ [Act.mw id false]).flatMap (RouteScn.softActOps root)))
      (pre.map mwObs ++ softObs id) := by
  rw [List.flatMap_append, apis_append, softActOps_accepting root pre hacc, apis_accepting env app root pre hacc h]
  have hn : Ready { s with log := s.log ++ pre.map mwObs } := h.note _
  have := apis_soft_last env app root hn hh id
  simp only [List.flatMap_cons, List.flatMap_nil, List.append_nil]
  exact ⟨this.alive, this.rs, this.del, by rw [this.log]; simp⟩

/-! ### the whole scenario -/

theorem hpState_rs (s : Sock) (rh : Parser.ReqHead) (p : Bytes) (q : List (Bytes × Bytes)) (rest : Bytes) :
    (hpState s rh p q rest).rs = .data := by
  simp only [hpState]
  split <;> rfl

theorem post_data (env : Env) (app : App) {s : Sock} (h : s.rs = .data) :
    post env app (s, true) = readDataSlot env app s := by
  simp only [post, Bool.not_true, Bool.false_eq_true, if_false]
  rw [h]

/-- the first read of a fresh connection whose head is acceptable, when the slot leaves the
    connection open: the request side goes on (signals nobody listens to) -/
theorem onReadyRead_open (env : Env) {app : App} (hsil : Silent app) (s : Sock) {head rest : Bytes}
    {rh : Parser.ReqHead} {p : Bytes} {q : List (Bytes × Bytes)} {ops : List ApiOp} {obs : List Obs}
    (hrs : s.rs = .headers) (hdev : s.tcp.devOpen = true)
    (hb : breakOn CRLF2 (s.readBuffer ++ s.tcp.inbox) = some (head, rest))
    (hp : Parser.parseRequestHeaders head s.reqHeaders = some rh)
    (hu : env.url rh.rawPath = some (p, q)) (hops : ∀ s, app.onHp s = ops)
    (hr : ∀ s1 : Sock, s1.alive = s.alive → s1.ws = s.ws → s1.ioOpen = s.ioOpen → s1.dcFlag = s.dcFlag →
        s1.tcp.devOpen = true → s1.tcp.conn = s.tcp.conn → s1.code = s.code → s1.reason = s.reason →
        s1.respHeaders = s.respHeaders → s1.delPending = s.delPending → s1.log = s.log ++ [Obs.hp] →
        Open s1 (apis env app s1 ops) obs) :
    ∃ X, X.all quiet = true ∧ (onReadyRead env app s).alive = true ∧ (onReadyRead env app s).rs ≠ .headers ∧
      (onReadyRead env app s).delPending = s.delPending ∧
      (onReadyRead env app s).log = s.log ++ [Obs.hp] ++ obs ++ X := by
  obtain ⟨g1, g2, g3, g4, g5, g6, g7, g8, g9, g10, g11, g12, g13, g14⟩ := pull_fields s
  have hf := hpState_fields (pull s) rh p q rest
  simp only at hf
  obtain ⟨f1, f2, f3, f4, f5, f6, f7, f8, f9, f10, f11⟩ := hf
  have R := hr (hpState (pull s) rh p q rest) (f1.trans g1) (f2.trans g2) (f3.trans g3) (f4.trans g4)
    (by rw [f5, g5]; exact hdev) (by rw [f5, g6]) (f6.trans g7) (f7.trans g8) (f8.trans g9) (f9.trans g10)
    (by rw [f11, g12])
  have hdata : (apis env app (hpState (pull s) rh p q rest) ops).rs = .data := by
    rw [R.rs, hpState_rs]
  rw [onReadyRead_headers env app s hrs hdev,
    readHeaders_ok env app (pull s) (by rw [g13]; exact hb) (by rw [g14]; exact hp) hu hops,
    post_data env app hdata]
  obtain ⟨X, hX⟩ := readDataSlot_same env hsil (apis env app (hpState (pull s) rh p q rest) ops)
  refine ⟨X, hX.quiet, by rw [hX.alive, R.alive], hX.rs (by rw [hdata]; simp), ?_, ?_⟩
  · rw [hX.del, R.del, f9, g10]
  · rw [hX.log, R.log, f11, g12]

def finishTurn (t : Sock) : Sock :=
  if t.delPending then { t with alive := false, delPending := false, log := t.log ++ [Obs.del] } else t

theorem finishTurn_of_not_del {t : Sock} (h : t.delPending = false) : finishTurn t = t := by
  simp [finishTurn, h]

theorem stepK_turn_eq (env : Env) (app : App) (s : Sock) (ha : s.alive = true) :
    (stepK env app (s, 2) .turn).1 =
      finishTurn (if s.initPending then onReadyRead env app { s with log := s.log ++ [Obs.ev 2], initPending := false }
                  else { s with log := s.log ++ [Obs.ev 2] }) := by
  rcases s with ⟨tcp, rb, qio, rs, method, rawPath, path, query, reqHeaders,
    dataRead, total, ws, code, reason, respHeaders, hdrRemaining, ioOpen, initPending, closeCalled, dcFlag,
    delPending, alive, log⟩
  simp only at ha
  subst ha
  cases initPending <;> rfl

theorem turn_open (env : Env) {app : App} (hsil : Silent app) (s : Sock) (ha : s.alive = true)
    (hrs : s.rs ≠ .headers) (hd : s.delPending = false) :
    ∃ Y, Y.all quiet = true ∧ (stepK env app (s, 2) .turn).1.log = s.log ++ [.ev 2] ++ Y := by
  rw [stepK_turn_eq env app s ha]
  by_cases hi : s.initPending = true
  · rw [if_pos hi]
    obtain ⟨Y, hY⟩ := onReadyRead_same env hsil
      { s with log := s.log ++ [Obs.ev 2], initPending := false } hrs
    rw [finishTurn_of_not_del (hY.del.trans hd)]
    exact ⟨Y, hY.quiet, hY.log⟩
  · rw [if_neg hi, finishTurn_of_not_del (t := { s with log := s.log ++ [Obs.ev 2] }) hd]
    exact ⟨[], rfl, by simp⟩

/-- acceptable head, the slot writes a response and leaves the connection open: the history is the
    two event markers, `headersParsed`, what the slot's calls append, the marker of the event-loop
    turn — and unconnected request-side signals -/
theorem run_open (env : Env) {app : App} (hsil : Silent app) (stream : Bytes) {head rest : Bytes}
    {rh : Parser.ReqHead} {p : Bytes} {q : List (Bytes × Bytes)} {ops : List ApiOp} {obs : List Obs}
    (hb : breakOn CRLF2 stream = some (head, rest))
    (hp : Parser.parseRequestHeaders head [] = some rh)
    (hu : env.url rh.rawPath = some (p, q)) (hops : ∀ s, app.onHp s = ops)
    (hr : ∀ s1 : Sock, Ready s1 → s1.code = 200 → s1.reason = lit ['O','K'] → s1.respHeaders = [] →
        s1.log = [.ev 0, .ev 1, .hp] → Open s1 (apis env app s1 ops) obs) :
    ∃ X Y, X.all quiet = true ∧ Y.all quiet = true ∧
      (Sock.run env app [.new, .feed stream, .turn]).log =
        [.ev 0, .ev 1, .hp] ++ obs ++ X ++ [.ev 2] ++ Y := by
  rw [run_eq]
  obtain ⟨X, hX, d1, d2, d3, d4⟩ := onReadyRead_open env hsil (s0 stream) (obs := obs) rfl rfl
    (by simpa [s0] using hb) hp hu hops
    (fun s1 e1 e2 e3 e4 e5 e6 e7 e8 e9 _ e11 => hr s1 ⟨e1, e2, e3, e4, e5, e6⟩ e7 e8 e9 e11)
  obtain ⟨Y, hY, d5⟩ := turn_open env hsil _ d1 d2 d3
  refine ⟨X, Y, hX, hY, ?_⟩
  rw [d5, d4]
  rfl

/-- **the history of an accepted request refused softly** -/
theorem run_soft_refusal (env : Env) (sc : RouteScn) {r : Node} (hroot : sc.root = some r)
    {pre : List (Nat × Bool)} (hacc : allAccept pre = true) {id : Nat}
    (hroute : route sc.matcher r (sc.p16.drop 1) = pre.map mwAct ++ [.mw id false])
    {head rest : Bytes} {rh : Parser.ReqHead} {p : Bytes} {q : List (Bytes × Bytes)}
    (hb : breakOn CRLF2 sc.stream = some (head, rest))
    (hp : Parser.parseRequestHeaders head [] = some rh)
    (hu : env.url rh.rawPath = some (p, q)) :
    ∃ X Y, X.all quiet = true ∧ Y.all quiet = true ∧
      (Scenario.run env sc.softScenario).log =
        [.ev 0, .ev 1, .hp] ++ (pre.map mwObs ++ softObs id) ++ X ++ [.ev 2] ++ Y := by
  have hrun : Scenario.run env sc.softScenario = Sock.run env sc.softApp [.new, .feed sc.stream, .turn] := rfl
  have hacts : sc.acts = some (route sc.matcher r (sc.p16.drop 1)) := by
    simp [RouteScn.acts, serverRoute, hroot]
  have hops : ∀ s, sc.softApp.onHp s =
      (route sc.matcher r (sc.p16.drop 1)).flatMap (RouteScn.softActOps r) := by
    intro s; simp [RouteScn.softApp, hroot, hacts]
  rw [hrun]
  apply run_open env (softApp_silent sc) sc.stream hb hp hu hops
  intro s1 h1 _ _ hh _
  rw [hroute]
  exact apis_soft_route env sc.softApp r h1 hh pre hacc id

/-! projections of such a history -/

theorem wire_quiet {q : List Obs} (h : q.all quiet = true) : Obs.wire q = [] := by
  induction q with
  | nil => rfl
  | cons o l ih =>
    simp only [List.all_cons, Bool.and_eq_true] at h
    have := ih h.2
    cases o <;> simp_all [quiet, Obs.wire]

theorem wire_softObs (id : Nat) :
    Obs.wire (softObs id) = headOf 403 (statusReason 403) (softHdrs id) ++ RouteScn.DENIED := by
  simp [softObs, Obs.wire]

/-- a projection of the history that ignores the request-side signals ignores a quiet stretch -/
theorem filterMap_quiet {β : Type} (f : Obs → Option β) (h1 : f .rr = none) (h2 : f .rcf = none)
    {q : List Obs} (h : q.all quiet = true) : q.filterMap f = [] := by
  induction q with
  | nil => rfl
  | cons o l ih =>
    simp only [List.all_cons, Bool.and_eq_true] at h
    have := ih h.2
    cases o <;> simp_all [quiet]

theorem softHdrs_ok (id : Nat) : ∀ e ∈ softHdrs id, Http.EntryOk e := by
  intro e he
  simp [softHdrs] at he
  rcases he with rfl | rfl
  · exact entryOk_cl 6
  · exact entryOk_xmw id

end Qhttp.RouteSoftL
