import Qhttp.Lemmas.C19Inv
/-
  C19, part 4: the private slots, the external events and the run preserve the invariant.
-/
namespace Qhttp.C19L
open Qhttp Qhttp.Obs Qhttp.Sock

variable {env : Env} {app : App} {ak : Nat → Nat → Nat} {q : Bool} {d m : Nat} {s : Sock}

theorem KS_same {s s' : Sock} (hs : Same s s') (h : KS ak q d m s) : KS ak q d m s' :=
  ⟨KP_same hs h.1, hs.f.trans h.2⟩

/-- `headersParsed`: the state has left `.headers` for good, one `hp` is recorded and the slot
    may record one routing -/
theorem hp_KS (happ : AppOK app) {s s' : Sock} (h : KS ak q d 0 s) (hr : s.rs = .headers)
    (hs : Same s s') (hr' : s'.rs ≠ .headers) :
    KS ak q d 0 (emit env app s' .hp (app.onHp s')) := by
  unfold emit
  refine apis_hp (m := 1) happ _ (happ.hp _).1 (happ.hp _).2 ⟨?_, hs.f.trans h.2⟩
  have h1 := h.1
  unfold KP at h1 ⊢
  show K ak q d 1 s'.tcp.unacked s'.tcp.devOpen s'.tcp.conn s'.dcFlag (s'.log ++ [.hp]) _
  rw [hs.u, hs.o, hs.c, hs.f, hs.l]
  exact K_rh (K_hp h1 hr) (fun x => hr' x)

theorem readHeaders_KS (happ : AppOK app) (h : KS ak q d 0 s) (hr : s.rs = .headers) :
    KS ak q d 0 (readHeaders env app s).1 := by
  have hbad : KS ak q d 0 (if (writeError env s 400 none).dcFlag = true
      then emitDc env app (writeError env s 400 none) else writeError env s 400 none) :=
    fin_KS happ (writeError_closed (KP_closed ak q d 0) env _ _ h.1)
  unfold readHeaders
  split
  · exact h
  · dsimp only
    split
    · exact hbad
    · split
      · exact hbad
      · apply hp_KS happ h hr
        · split <;> exact ⟨rfl, rfl, rfl, rfl, rfl, fun _ => hr⟩
        · split <;> simp

theorem readDataSlot_KS (happ : AppOK app) (h : KS ak q d m s) :
    KS ak q d m (readDataSlot env app s) := by
  unfold readDataSlot
  extract_lets s1 s2
  have h1 : KS ak q d m s1 := by
    simp only [s1]; split
    · exact KS_same ⟨rfl, rfl, rfl, rfl, rfl, id⟩ h
    · exact h
  have h2 : KS ak q d m s2 := by
    simp only [s2]; split
    · exact emit_quiet happ rfl _ (happ.rr _) h1
    · exact h1
  split
  · exact emit_quiet happ rfl _ (happ.rcf _)
      (KS_same (s := s2) ⟨rfl, rfl, rfl, rfl, rfl, fun x => by simp at x⟩ h2)
  · exact h2

theorem onReadyRead_KS (happ : AppOK app) (h : KS ak q d 0 s) :
    KS ak q d 0 (onReadyRead env app s) := by
  unfold onReadyRead
  split
  · split
    · exact KS_same ⟨rfl, rfl, rfl, rfl, rfl, id⟩ h
    · exact h
  · extract_lets src s1
    have h1 : KS ak q d 0 s1 := by
      simp only [s1, src]; split
      · exact KS_same ⟨rfl, rfl, rfl, rfl, rfl, id⟩ h
      · exact h
    have h2 : KS ak q d 0 (if s1.rs = .headers then readHeaders env app s1 else (s1, true)).1 := by
      split
      · rename_i hr; exact readHeaders_KS happ h1 hr
      · exact h1
    generalize (if s1.rs = .headers then readHeaders env app s1 else (s1, true)) = p at h2 ⊢
    obtain ⟨s3, go⟩ := p
    dsimp only at h2 ⊢
    split
    · exact h2
    · split
      · exact readDataSlot_KS happ h2
      · exact KS_same ⟨rfl, rfl, rfl, rfl, rfl, id⟩ h2
      · exact h2

theorem onBytesWritten_KS (happ : AppOK app) (n : Int) (h : KS ak q d m s) :
    KS ak q d m (onBytesWritten env app s n) := by
  unfold onBytesWritten
  have h2 : KS ak q d m (if s.ws = .headers then
      if s.hdrRemaining - n > 0 then ({ s with hdrRemaining := s.hdrRemaining - n }, n)
      else ({ s with ws := .data }, n - s.hdrRemaining)
    else (s, n)).1 := by
    split
    · split <;> exact KS_same ⟨rfl, rfl, rfl, rfl, rfl, id⟩ h
    · exact h
  generalize (if s.ws = .headers then
      if s.hdrRemaining - n > 0 then ({ s with hdrRemaining := s.hdrRemaining - n }, n)
      else ({ s with ws := .data }, n - s.hdrRemaining)
    else (s, n)) = p at h2 ⊢
  obtain ⟨s3, b⟩ := p
  dsimp only at h2 ⊢
  split
  · exact emit_quiet happ rfl _ (happ.bw _) h2
  · exact h2

theorem onReadChannelFinished_KS (happ : AppOK app) (h : KS ak q d m s) :
    KS ak q d m (onReadChannelFinished env app s) := by
  unfold onReadChannelFinished
  split
  · exact emit_quiet happ rfl _ (happ.rcf _) h
  · exact h

theorem KS_unconn (h : KS ak q 0 m s) (hc : s.tcp.conn ≠ .unconnected) :
    KS ak true 1 m { s with tcp := { s.tcp with conn := .unconnected } } := by
  obtain ⟨h1, hf⟩ := h
  unfold KP at h1
  rw [hf] at h1
  refine ⟨?_, hf⟩
  show K ak true 1 m s.tcp.unacked s.tcp.devOpen .unconnected s.dcFlag s.log _
  rw [hf]
  exact K_unconn h1 hc

theorem KS_ev (k : Nat) (h : KS ak q d m s) (hk : ak k s.tcp.unacked ≤ s.tcp.unacked) :
    KS ak false d m { s with tcp := { s.tcp with unacked := s.tcp.unacked - ak k s.tcp.unacked },
                             log := s.log ++ [.ev k] } :=
  ⟨K_ev k h.1 hk, h.2⟩

theorem KS_qtrue (h : KS ak q d m s) (hq : s.tcp.conn = .closing → 0 < s.tcp.unacked) :
    KS ak true d m s := ⟨K_qtrue h.1 hq, h.2⟩

theorem KS_q (h : KS ak true d m s) : s.tcp.conn = .closing → 0 < s.tcp.unacked :=
  h.1.2.2.2.2.2.2.2.2.2 rfl

theorem emitDc_owed (happ : AppOK app) (h : KS ak q 1 m s) : KS ak q 0 m (emitDc env app s) :=
  emitDc_KS happ h.1 (by rw [h.2]; rfl)

theorem ackN_KS (happ : AppOK app) (n a : Nat) (ha : a = min n s.tcp.unacked)
    (hq : s.tcp.conn = .closing → 0 < s.tcp.unacked)
    (h : KS ak false 0 0 { s with tcp := { s.tcp with unacked := s.tcp.unacked - a } }) :
    KS ak true 0 0 (ackN env app s n) := by
  subst ha
  unfold ackN
  extract_lets n' src s2 s3
  split
  · rename_i h0
    have : s.tcp.unacked - min n s.tcp.unacked = s.tcp.unacked := by
      simp only [n'] at h0; omega
    rw [this] at h
    exact KS_qtrue h hq
  · have h3 : KS ak false 0 0 s3 := onBytesWritten_KS happ _ h
    split
    · rename_i hc
      simp only [Bool.and_eq_true, beq_iff_eq, decide_eq_true_eq] at hc
      exact emitDc_owed happ (KS_unconn h3 (by rw [hc.1]; simp))
    · rename_i hc
      simp only [Bool.and_eq_true, beq_iff_eq, decide_eq_true_eq, not_and] at hc
      exact KS_qtrue h3 (fun hcl => Nat.pos_of_ne_zero (hc hcl))

def evOK : Event → Bool
  | .api op => qOp op
  | _ => true

theorem ackE_le (e : Event) (u : Nat) : ackE e u ≤ u := by
  cases e <;> simp [ackE] <;> omega

theorem step_peerClose_KS (happ : AppOK app) (h : KS ak true 0 0 s) :
    KS ak true 0 0 (step env app s .peerClose) := by
  unfold step
  split
  · exact h
  · dsimp only
    split
    · exact h
    · rename_i hc
      have hc' : s.tcp.conn ≠ .unconnected := by simpa using hc
      apply emitDc_owed happ
      apply onReadChannelFinished_KS happ
      exact KS_unconn h hc'

theorem step_turn_KS (happ : AppOK app) (h : KS ak true 0 0 s) :
    KS ak true 0 0 (step env app s .turn) := by
  unfold step
  split
  · exact h
  · dsimp -zeta only
    extract_lets s2
    have h2 : KS ak true 0 0 s2 := by
      simp only [s2]; split
      · exact onReadyRead_KS happ (KS_same ⟨rfl, rfl, rfl, rfl, rfl, id⟩ h)
      · exact h
    split
    · exact ⟨K_note (x := .del) rfl h2.1, h2.2⟩
    · exact h2

theorem stepK_KS (happ : AppOK app) (k : Nat) (e : Event) (he : evOK e = true)
    (hak : ∀ u, ak k u = ackE e u) (h : KS ak true 0 0 s) :
    KS ak true 0 0 (stepK env app (s, k) e).1 := by
  unfold stepK
  dsimp only
  by_cases hal : s.alive = true
  · simp only [hal, Bool.not_true, Bool.false_eq_true, ↓reduceIte]
    have hq := KS_q h
    have hev := KS_ev k h (by rw [hak]; exact ackE_le e _)
    rw [hak] at hev
    have h1 : ackE e s.tcp.unacked = 0 → KS ak true 0 0 { s with log := s.log ++ [.ev k] } := by
      intro h0
      rw [h0] at hev
      exact KS_qtrue (KS_same ⟨rfl, rfl, rfl, rfl, rfl, id⟩ hev) hq
    cases e with
    | prebuf bs =>
      unfold step; simp only [Bool.not_true, Bool.false_eq_true, ↓reduceIte]
      exact KS_same ⟨rfl, rfl, rfl, rfl, rfl, id⟩ (h1 rfl)
    | new =>
      unfold step; simp only [Bool.not_true, Bool.false_eq_true, ↓reduceIte]
      exact KS_same ⟨rfl, rfl, rfl, rfl, rfl, id⟩ (h1 rfl)
    | feed seg =>
      unfold step; simp only [Bool.not_true, Bool.false_eq_true, ↓reduceIte]
      exact onReadyRead_KS happ (KS_same ⟨rfl, rfl, rfl, rfl, rfl, id⟩ (h1 rfl))
    | ack n =>
      unfold step; simp only [Bool.not_true, Bool.false_eq_true, ↓reduceIte]
      exact ackN_KS happ n (ackE (.ack n) s.tcp.unacked) rfl hq hev
    | ackAll =>
      unfold step; simp only [Bool.not_true, Bool.false_eq_true, ↓reduceIte]
      exact ackN_KS happ _ (ackE .ackAll s.tcp.unacked) (by simp [ackE]) hq hev
    | peerClose => exact step_peerClose_KS happ (h1 rfl)
    | turn => exact step_turn_KS happ (h1 rfl)
    | api op =>
      unfold step; simp only [Bool.not_true, Bool.false_eq_true, ↓reduceIte]
      exact api_quiet happ he (h1 rfl).1
  · have hal' : s.alive = false := by simpa using hal
    simp only [hal', Bool.not_false, ↓reduceIte]
    unfold step
    simp only [hal', Bool.not_false, ↓reduceIte]
    exact h

theorem fold_KS (happ : AppOK app) (evs : List Event) (suf : List Event) :
    ∀ (pre : List Event) (s : Sock), pre ++ suf = evs → suf.all evOK = true →
      KS (ackAt evs) true 0 0 s →
      KS (ackAt evs) true 0 0 (suf.foldl (stepK env app) (s, pre.length)).1 := by
  induction suf with
  | nil => intro pre s _ _ h; exact h
  | cons e suf ih =>
    intro pre s hpre hall h
    simp only [List.all_cons, Bool.and_eq_true] at hall
    have hak : ∀ u, ackAt evs pre.length u = ackE e u := by
      intro u; simp [ackAt, ← hpre]
    have h' := stepK_KS (env := env) happ pre.length e hall.1 hak h
    have e1 : stepK env app (s, pre.length) e
        = ((stepK env app (s, pre.length) e).1, (pre ++ [e]).length) := by
      simp [stepK]
    rw [List.foldl_cons, e1]
    exact ih (pre ++ [e]) _ (by simp [← hpre]) hall.2 h'

/-- the invariant holds at the end of every run -/
theorem run_KS (happ : AppOK app) (evs : List Event) (hevs : evs.all evOK = true) :
    KS (ackAt evs) true 0 0 (Sock.run env app evs) := by
  unfold Sock.run
  exact fold_KS happ evs evs [] {} rfl hevs ⟨K_init _ _, rfl⟩

/-- what the invariant says about a history between two events -/
theorem KS_final (h : KS ak true 0 0 s) :
    countP isHp s.log ≤ 1 ∧ countP isRt s.log ≤ 1 ∧ aftClose s.log = true ∧
    countP isTc s.log ≤ 1 ∧ countP isDc s.log ≤ 1 ∧
    (countP isTc s.log = 1 → (trk ak s.log).1 - (trk ak s.log).2 = 0 → countP isDc s.log = 1) := by
  obtain ⟨⟨h1, h2, h3, h4, h5, h6, h7, h8, h9, h10⟩, hf⟩ := h
  rw [hf] at h1
  refine ⟨h6, by omega, h3, ?_, ?_, ?_⟩
  · split at h2 <;> omega
  · by_cases hc : s.tcp.conn = .unconnected <;> simp [hc] at h1 <;> omega
  · intro htc hp
    have ho : s.tcp.devOpen = false := by
      cases ho : s.tcp.devOpen
      · rfl
      · rw [ho] at h2; simp at h2; omega
    have hu : s.tcp.unacked = 0 := by omega
    have hc : s.tcp.conn = .unconnected := by
      cases hc : s.tcp.conn
      · exact absurd hc (h4 ho)
      · have := h10 rfl hc; omega
      · rfl
    rw [hc] at h1; simp at h1; omega

end Qhttp.C19L
