import Qhttp.Model.Life
/-
  C10, part 1: the socket level.  A preorder `Ext s s'` ("`s'` is a later state of the same
  live object") that every primitive of the socket model extends: the object is neither destroyed
  nor resurrected, a scheduled deletion stays scheduled, `Socket::close` stays called, the history
  only grows, and the transport is never unconnected without its `disconnected` being owed
  (`dcFlag`) or reported (`dc` in the history).
-/
namespace Qhttp.C10L
open Qhttp Qhttp.Sock

/-- the transport's `disconnected` is owed or was reported whenever it is unconnected -/
def U (s : Sock) : Prop := s.tcp.conn = .unconnected → s.dcFlag = true ∨ Obs.dc ∈ s.log

structure Ext (s s' : Sock) : Prop where
  al : s'.alive = s.alive
  dp : s.delPending = true → s'.delPending = true
  cc : s.closeCalled = true → s'.closeCalled = true
  lg : ∃ t, s'.log = s.log ++ t
  un : U s → U s'

theorem Ext.refl (s : Sock) : Ext s s := ⟨rfl, id, id, ⟨[], by simp⟩, id⟩

theorem Ext.trans {a b c : Sock} (h1 : Ext a b) (h2 : Ext b c) : Ext a c := by
  obtain ⟨t1, e1⟩ := h1.lg
  obtain ⟨t2, e2⟩ := h2.lg
  exact ⟨h2.al.trans h1.al, fun h => h2.dp (h1.dp h), fun h => h2.cc (h1.cc h),
    ⟨t1 ++ t2, by rw [e2, e1, List.append_assoc]⟩, fun h => h2.un (h1.un h)⟩

/-- updates that leave the lifetime fields alone and append to the history -/
theorem Ext.grow {s s' : Sock} (t : List Obs) (h1 : s'.alive = s.alive)
    (h2 : s'.delPending = s.delPending) (h3 : s.closeCalled = true → s'.closeCalled = true)
    (h4 : s'.log = s.log ++ t) (h5 : s'.tcp.conn = s.tcp.conn) (h6 : s'.dcFlag = s.dcFlag) :
    Ext s s' := by
  refine ⟨h1, fun h => by rw [h2]; exact h, h3, ⟨t, h4⟩, fun hu hc => ?_⟩
  rw [h5] at hc
  rcases hu hc with h | h
  · left; rw [h6]; exact h
  · right; rw [h4]; exact List.mem_append_left _ h

theorem Ext.mem {s s' : Sock} (h : Ext s s') {o : Obs} (ho : o ∈ s.log) : o ∈ s'.log := by
  obtain ⟨t, e⟩ := h.lg
  rw [e]; exact List.mem_append_left _ ho

/-! ### primitives -/

theorem tcpWrite_ext (s : Sock) (b : Bytes) : Ext s (tcpWrite s b) := by
  unfold tcpWrite
  split
  · exact Ext.grow [Obs.w b] rfl rfl id rfl rfl rfl
  · exact Ext.refl s

theorem tcpClose_ext (s : Sock) : Ext s (tcpClose s) := by
  unfold tcpClose
  split
  · exact Ext.refl s
  · dsimp only
    split
    · split
      · refine ⟨rfl, id, id, ⟨[Obs.tc], rfl⟩, fun _ _ => Or.inl rfl⟩
      · refine ⟨rfl, id, id, ⟨[Obs.tc], rfl⟩, fun _ hc => ?_⟩
        simp at hc
    · exact Ext.grow [Obs.tc] rfl rfl id rfl rfl rfl

theorem setStatusCode_ext (s : Sock) (c : Int) (r : Option Bytes) : Ext s (setStatusCode s c r) :=
  Ext.grow [] rfl rfl id (by simp [setStatusCode]) rfl rfl

theorem setHeader_ext (s : Sock) (n v : Bytes) (r : Bool) : Ext s (setHeader s n v r) := by
  unfold setHeader
  split <;> exact Ext.grow [] rfl rfl id (by simp) rfl rfl

theorem writeHeaders_ext (s : Sock) : Ext s (writeHeaders s) := by
  unfold writeHeaders
  dsimp only
  refine Ext.trans ?_ (tcpWrite_ext _ _)
  exact Ext.grow [] rfl rfl id (by simp) rfl rfl

theorem write_ext (s : Sock) (b : Bytes) : Ext s (write s b) := by
  unfold write
  split
  · exact Ext.refl s
  · dsimp only
    split
    · exact (writeHeaders_ext s).trans (tcpWrite_ext _ _)
    · exact tcpWrite_ext _ _

theorem close_ext (s : Sock) : Ext s (close s) := by
  unfold close
  dsimp only
  refine Ext.trans ?_ (tcpClose_ext _)
  exact Ext.grow [] rfl rfl (fun _ => rfl) (by simp) rfl rfl

theorem tcpClose_cc (s : Sock) : (tcpClose s).closeCalled = s.closeCalled := by
  unfold tcpClose
  split
  · rfl
  · dsimp only
    split
    · split <;> rfl
    · rfl

theorem close_cc (s : Sock) : (close s).closeCalled = true := by
  unfold close
  rw [tcpClose_cc]

theorem writeRedirect_ext (s : Sock) (p : Bytes) (pm : Bool) : Ext s (writeRedirect s p pm) := by
  unfold writeRedirect
  exact (((setStatusCode_ext _ _ _).trans (setHeader_ext _ _ _ _)).trans (writeHeaders_ext _)).trans
    (close_ext _)

theorem writeError_ext (env : Env) (s : Sock) (c : Int) (r : Option Bytes) :
    Ext s (writeError env s c r) := by
  unfold writeError
  exact (((((setStatusCode_ext _ _ _).trans (setHeader_ext _ _ _ _)).trans
    (setHeader_ext _ _ _ _)).trans (writeHeaders_ext _)).trans (write_ext _ _)).trans (close_ext _)

theorem writeJson_ext (s : Sock) (b : Bytes) (c : Int) : Ext s (writeJson s b c) := by
  unfold writeJson
  exact ((((setStatusCode_ext _ _ _).trans (setHeader_ext _ _ _ _)).trans
    (setHeader_ext _ _ _ _)).trans (write_ext _ _)).trans (close_ext _)

theorem readData_ext (s : Sock) (n : Nat) : Ext s (readData s n).1 := by
  unfold Sock.readData
  split
  · exact Ext.refl s
  · exact Ext.grow [] rfl rfl id (by simp) rfl rfl

theorem read_ext (s : Sock) (n : Nat) : Ext s (read s n).1 := by
  unfold Sock.read
  split
  · exact Ext.refl s
  · dsimp only
    have h0 : Ext s { s with qio := s.qio.drop n } := Ext.grow [] rfl rfl id (by simp) rfl rfl
    split
    · exact h0
    · split
      · exact h0.trans (readData_ext _ _)
      · have h1 := h0.trans (readData_ext { s with qio := s.qio.drop n } chunk)
        exact h1.trans (Ext.grow [] rfl rfl id (by simp) rfl rfl)

theorem readAll_ext (s : Sock) : Ext s (readAll s).1 := by
  unfold Sock.readAll
  split
  · exact Ext.refl s
  · have h0 : Ext s { s with qio := [] } := Ext.grow [] rfl rfl id (by simp) rfl rfl
    exact h0.trans (readData_ext _ _)

theorem note_ext (s : Sock) (o : Obs) : Ext s { s with log := s.log ++ [o] } :=
  Ext.grow [o] rfl rfl id rfl rfl rfl

theorem apiPrim_ext (env : Env) (s : Sock) (op : ApiOp) : Ext s (apiPrim env s op) := by
  unfold apiPrim
  split
  · exact Ext.refl s
  · cases op with
    | read n => exact (read_ext s n).trans (note_ext _ _)
    | readAll => exact (readAll_ext s).trans (note_ext _ _)
    | avail => exact note_ext _ _
    | snap => exact note_ext _ _
    | status c r => exact setStatusCode_ext _ _ _
    | hdr n v r => exact setHeader_ext _ _ _ _
    | hdrs m => exact Ext.grow [] rfl rfl id (by simp) rfl rfl
    | wh => exact writeHeaders_ext _
    | write bs => exact write_ext _ _
    | err c r => exact writeError_ext env _ _ _
    | redir p pm => exact writeRedirect_ext _ _ _
    | json bd c => exact writeJson_ext _ _ _
    | close => exact close_ext _
    | note o => exact note_ext _ _

theorem foldl_apiPrim_ext (env : Env) (ops : List ApiOp) (s : Sock) :
    Ext s (ops.foldl (apiPrim env) s) := by
  induction ops generalizing s with
  | nil => exact Ext.refl s
  | cons op ops ih => exact (apiPrim_ext env s op).trans (ih _)

/-! ### the event level: `dcFlag` is clear between events -/

/-- `Ext`, and the pending-`disconnected` flag is not left set -/
def ExtE (s s' : Sock) : Prop := Ext s s' ∧ (s.dcFlag = false → s'.dcFlag = false)

theorem ExtE.refl (s : Sock) : ExtE s s := ⟨Ext.refl s, id⟩

theorem ExtE.trans {a b c : Sock} (h1 : ExtE a b) (h2 : ExtE b c) : ExtE a c :=
  ⟨h1.1.trans h2.1, fun h => h2.2 (h1.2 h)⟩

/-- field updates outside the lifetime fields -/
theorem ExtE.grow {s s' : Sock} (t : List Obs) (h1 : s'.alive = s.alive)
    (h2 : s'.delPending = s.delPending) (h3 : s.closeCalled = true → s'.closeCalled = true)
    (h4 : s'.log = s.log ++ t) (h5 : s'.tcp.conn = s.tcp.conn) (h6 : s'.dcFlag = s.dcFlag) :
    ExtE s s' :=
  ⟨Ext.grow t h1 h2 h3 h4 h5 h6, fun h => by rw [h6]; exact h⟩

theorem emitDc_ext (env : Env) (app : App) (s : Sock) :
    Ext s (emitDc env app s) ∧ (emitDc env app s).dcFlag = false ∧ Obs.dc ∈ (emitDc env app s).log ∧
    (s.closeCalled = true → (emitDc env app s).delPending = true) := by
  unfold emitDc
  dsimp only
  have h0 : Ext s { s with dcFlag := false, log := s.log ++ [Obs.dc] } :=
    ⟨rfl, id, id, ⟨[Obs.dc], rfl⟩, fun _ _ => Or.inr (by simp)⟩
  have h1 := foldl_apiPrim_ext env (app.onDc { s with dcFlag := false, log := s.log ++ [Obs.dc] })
    { s with dcFlag := false, log := s.log ++ [Obs.dc] }
  have hdc : Obs.dc ∈ (List.foldl (apiPrim env) { s with dcFlag := false, log := s.log ++ [Obs.dc] }
      (app.onDc { s with dcFlag := false, log := s.log ++ [Obs.dc] })).log :=
    h1.mem (by simp)
  have h01 := h0.trans h1
  refine ⟨⟨h01.al, fun h => ?_, h01.cc, h01.lg, fun _ _ => Or.inr hdc⟩, rfl, hdc, fun h => ?_⟩
  · show (_ || _) = true
    rw [h01.dp h]; rfl
  · show (_ || _) = true
    rw [h]; simp

theorem emitDc_extE (env : Env) (app : App) (s : Sock) : ExtE s (emitDc env app s) :=
  ⟨(emitDc_ext env app s).1, fun _ => (emitDc_ext env app s).2.1⟩

theorem api_ext (env : Env) (app : App) (s : Sock) (op : ApiOp) :
    Ext s (api env app s op) ∧ (api env app s op).dcFlag = false := by
  unfold api
  dsimp only
  split
  · exact ⟨(apiPrim_ext env s op).trans (emitDc_ext env app _).1, (emitDc_ext env app _).2.1⟩
  · rename_i h
    exact ⟨apiPrim_ext env s op, by simpa using h⟩

theorem api_extE (env : Env) (app : App) (s : Sock) (op : ApiOp) : ExtE s (api env app s op) :=
  ⟨(api_ext env app s op).1, fun _ => (api_ext env app s op).2⟩

theorem apis_extE (env : Env) (app : App) (ops : List ApiOp) (s : Sock) :
    ExtE s (apis env app s ops) := by
  unfold apis
  induction ops generalizing s with
  | nil => exact ExtE.refl s
  | cons op ops ih => exact (api_extE env app s op).trans (ih _)

theorem emit_extE (env : Env) (app : App) (s : Sock) (o : Obs) (ops : List ApiOp) :
    ExtE s (emit env app s o ops) := by
  unfold emit
  refine ExtE.trans ?_ (apis_extE env app ops _)
  exact ExtE.grow [o] rfl rfl id rfl rfl rfl

theorem readHeaders_extE (env : Env) (app : App) (s : Sock) :
    ExtE s (readHeaders env app s).1 := by
  have hbad : ExtE s (if (writeError env s 400 none).dcFlag
      then emitDc env app (writeError env s 400 none) else writeError env s 400 none) := by
    split
    · exact ⟨(writeError_ext env s _ _).trans (emitDc_ext env app _).1,
        fun _ => (emitDc_ext env app _).2.1⟩
    · rename_i h
      exact ⟨writeError_ext env s _ _, fun _ => by simpa using h⟩
  unfold readHeaders
  split
  · exact ExtE.refl s
  · dsimp only
    split
    · exact hbad
    · split
      · exact hbad
      · refine ExtE.trans ?_ (emit_extE env app _ _ _)
        split
        · exact ExtE.grow [] rfl rfl id (by simp) rfl rfl
        · exact ExtE.grow [] rfl rfl id (by simp) rfl rfl

theorem readDataSlot_extE (env : Env) (app : App) (s : Sock) :
    ExtE s (readDataSlot env app s) := by
  unfold readDataSlot
  dsimp only
  have h1 : ExtE s (if s.total ≥ 0 && s.dataRead + s.readBuffer.length > s.total
      then { s with readBuffer := s.readBuffer.take (s.total - s.dataRead).toNat } else s) := by
    split
    · exact ExtE.grow [] rfl rfl id (by simp) rfl rfl
    · exact ExtE.refl s
  generalize (if s.total ≥ 0 && s.dataRead + s.readBuffer.length > s.total
      then { s with readBuffer := s.readBuffer.take (s.total - s.dataRead).toNat } else s) = s1 at h1 ⊢
  have h2 : ExtE s1 (if s1.readBuffer.length != 0 then emit env app s1 .rr (app.onRr s1) else s1) := by
    split
    · exact emit_extE env app _ _ _
    · exact ExtE.refl s1
  generalize (if s1.readBuffer.length != 0 then emit env app s1 .rr (app.onRr s1) else s1) = s2 at h2 ⊢
  split
  · refine (h1.trans h2).trans (ExtE.trans ?_ (emit_extE env app _ _ _))
    exact ExtE.grow [] rfl rfl id (by simp) rfl rfl
  · exact h1.trans h2

theorem onReadyRead_extE (env : Env) (app : App) (s : Sock) :
    ExtE s (onReadyRead env app s) := by
  unfold onReadyRead
  split
  · split
    · exact ExtE.grow [] rfl rfl id (by simp) rfl rfl
    · exact ExtE.refl s
  · dsimp only
    have h1 : ExtE s (if s.tcp.devOpen
        then { s with readBuffer := s.readBuffer ++ s.tcp.inbox, tcp := { s.tcp with inbox := [] } }
        else s) := by
      split
      · exact ExtE.grow [] rfl rfl id (by simp) rfl rfl
      · exact ExtE.refl s
    generalize (if s.tcp.devOpen
        then { s with readBuffer := s.readBuffer ++ s.tcp.inbox, tcp := { s.tcp with inbox := [] } }
        else s) = s1 at h1 ⊢
    have h2 : ExtE s1 (if s1.rs = .headers then readHeaders env app s1 else (s1, true)).1 := by
      split
      · exact readHeaders_extE env app s1
      · exact ExtE.refl s1
    generalize (if s1.rs = .headers then readHeaders env app s1 else (s1, true)) = p at h2 ⊢
    obtain ⟨s2, go⟩ := p
    dsimp only at h2 ⊢
    split
    · exact h1.trans h2
    · split
      · exact (h1.trans h2).trans (readDataSlot_extE env app s2)
      · exact (h1.trans h2).trans (ExtE.grow [] rfl rfl id (by simp) rfl rfl)
      · exact h1.trans h2

theorem onBytesWritten_extE (env : Env) (app : App) (s : Sock) (n : Int) :
    ExtE s (onBytesWritten env app s n) := by
  unfold onBytesWritten
  dsimp only
  have h1 : ExtE s (if s.ws = .headers then
      if s.hdrRemaining - n > 0 then ({ s with hdrRemaining := s.hdrRemaining - n }, n)
      else ({ s with ws := .data }, n - s.hdrRemaining)
    else (s, n)).1 := by
    split
    · split <;> exact ExtE.grow [] rfl rfl id (by simp) rfl rfl
    · exact ExtE.refl s
  generalize (if s.ws = .headers then
      if s.hdrRemaining - n > 0 then ({ s with hdrRemaining := s.hdrRemaining - n }, n)
      else ({ s with ws := .data }, n - s.hdrRemaining)
    else (s, n)) = p at h1 ⊢
  obtain ⟨s1, m⟩ := p
  dsimp only at h1 ⊢
  split
  · exact h1.trans (emit_extE env app _ _ _)
  · exact h1

theorem onReadChannelFinished_extE (env : Env) (app : App) (s : Sock) :
    ExtE s (onReadChannelFinished env app s) := by
  unfold onReadChannelFinished
  split
  · exact emit_extE env app _ _ _
  · exact ExtE.refl s


/-- a detour through a state that differs outside the lifetime fields (the transport was just
    marked unconnected), ending with `dc` reported -/
theorem Ext.of_dc {s s0 r : Sock} (h : Ext s0 r) (hdc : Obs.dc ∈ r.log)
    (h1 : s0.alive = s.alive) (h2 : s0.delPending = s.delPending)
    (h3 : s0.closeCalled = s.closeCalled) (h4 : s0.log = s.log) : Ext s r := by
  refine ⟨h.al.trans h1, fun hd => h.dp (by rw [h2]; exact hd), fun hd => h.cc (by rw [h3]; exact hd),
    ?_, fun _ _ => Or.inr hdc⟩
  obtain ⟨t, e⟩ := h.lg
  exact ⟨t, by rw [e, h4]⟩

theorem ackN_extE (env : Env) (app : App) (s : Sock) (n : Nat) : ExtE s (ackN env app s n) := by
  unfold ackN
  dsimp only
  split
  · exact ExtE.refl s
  · have h1 : ExtE s (onBytesWritten env app
        { s with tcp := { s.tcp with unacked := s.tcp.unacked - min n s.tcp.unacked } }
        (min n s.tcp.unacked : Nat)) := by
      refine ExtE.trans ?_ (onBytesWritten_extE env app _ _)
      exact ExtE.grow [] rfl rfl id (by simp) rfl rfl
    generalize (onBytesWritten env app
        { s with tcp := { s.tcp with unacked := s.tcp.unacked - min n s.tcp.unacked } }
        (min n s.tcp.unacked : Nat)) = s1 at h1 ⊢
    split
    · have h2 := emitDc_ext env app { s1 with tcp := { s1.tcp with conn := .unconnected } }
      exact h1.trans ⟨Ext.of_dc h2.1 h2.2.2.1 rfl rfl rfl rfl, fun _ => h2.2.1⟩
    · exact h1

theorem peerClose_extE (env : Env) (app : App) (s : Sock) :
    ExtE s (emitDc env app
      (onReadChannelFinished env app { s with tcp := { s.tcp with conn := .unconnected } })) := by
  have h1 := onReadChannelFinished_extE env app { s with tcp := { s.tcp with conn := .unconnected } }
  have h2 := emitDc_ext env app
    (onReadChannelFinished env app { s with tcp := { s.tcp with conn := .unconnected } })
  exact ⟨Ext.of_dc (h1.1.trans h2.1) h2.2.2.1 rfl rfl rfl rfl, fun _ => h2.2.1⟩

/-- every external event except the event-loop turn extends the state -/
theorem step_extE (env : Env) (app : App) (s : Sock) (e : Event) (he : e ≠ .turn) :
    ExtE s (step env app s e) := by
  unfold step
  split
  · exact ExtE.refl s
  · cases e with
    | prebuf bs => exact ExtE.grow [] rfl rfl id (by simp) rfl rfl
    | new => exact ExtE.grow [] rfl rfl id (by simp) rfl rfl
    | feed seg =>
      refine ExtE.trans ?_ (onReadyRead_extE env app _)
      exact ExtE.grow [] rfl rfl id (by simp) rfl rfl
    | ack n => exact ackN_extE env app s n
    | ackAll => exact ackN_extE env app s _
    | peerClose =>
      dsimp only
      split
      · exact ExtE.refl s
      · exact peerClose_extE env app s
    | turn => exact absurd rfl he
    | api op => exact api_extE env app s op

/-- deferred deletion, the last thing an event-loop turn does -/
def reap (s : Sock) : Sock :=
  if s.delPending then { s with alive := false, delPending := false, log := s.log ++ [Obs.del] } else s

/-- the posted initial read of an event-loop turn -/
def initRead (env : Env) (app : App) (s : Sock) : Sock :=
  if s.initPending then onReadyRead env app { s with initPending := false } else s

theorem initRead_extE (env : Env) (app : App) (s : Sock) : ExtE s (initRead env app s) := by
  unfold initRead
  split
  · refine ExtE.trans ?_ (onReadyRead_extE env app _)
    exact ExtE.grow [] rfl rfl id (by simp) rfl rfl
  · exact ExtE.refl s

theorem step_turn (env : Env) (app : App) (s : Sock) (ha : s.alive = true) :
    step env app s .turn = reap (initRead env app s) := by
  unfold step reap initRead
  simp [ha]

/-! ### a destroyed object is inert -/

theorem step_dead (env : Env) (app : App) (s : Sock) (e : Event) (h : s.alive = false) :
    step env app s e = s := by
  unfold step; simp [h]

theorem apiPrim_dead (env : Env) (s : Sock) (op : ApiOp) (h : s.alive = false) :
    apiPrim env s op = s := by
  unfold apiPrim; simp [h]

theorem api_dead (env : Env) (app : App) (s : Sock) (op : ApiOp) (h : s.alive = false)
    (hf : s.dcFlag = false) : api env app s op = s := by
  unfold api
  rw [apiPrim_dead env s op h]
  simp [hf]

theorem stepK_dead (env : Env) (app : App) (s : Sock) (k : Nat) (e : Event) (h : s.alive = false) :
    (stepK env app (s, k) e).1 = s := by
  unfold stepK
  simp [h, step_dead]

theorem stepK_extE (env : Env) (app : App) (s : Sock) (k : Nat) (e : Event) (he : e ≠ .turn) :
    ExtE s (stepK env app (s, k) e).1 := by
  unfold stepK
  dsimp only
  split
  · exact step_extE env app s e he
  · refine ExtE.trans ?_ (step_extE env app _ e he)
    exact ExtE.grow [_] rfl rfl id rfl rfl rfl

end Qhttp.C10L
