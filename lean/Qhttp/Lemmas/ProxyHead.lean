import Qhttp.Lemmas.ProxyTarget
import Qhttp.Lemmas.HttpRender
import Qhttp.Lemmas.C01Parser
import Qhttp.Lemmas.C03Hdr
/-
  C12 — the upstream request head written by `onUpstreamConnected`: its decomposition into start
  line and forwarded header map, what the forwarded map carries under every name, and that the
  strict reader `Http.parse` reads the head back.
-/
namespace Qhttp.ProxyL
open Qhttp Proxy Qhttp.HB

def HTTP11sp : Bytes := lit [' ','H','T','T','P','/','1','.','1']

/-- the request line without its line break -/
def startLine (c : Cfg) (s : Sock) : Bytes :=
  methodToString s.method ++ [SP] ++ target c.path s.rawPath ++ HTTP11sp

/-- the single X-Forwarded-For value: the client's values in the order received, each followed by
    ", ", then the peer address -/
def xffValue (c : Cfg) (h : HeaderMap) : Bytes :=
  ((HeaderMap.values XFF h).reverse.flatMap fun v => v ++ [44, 32]) ++ c.peerIP

/-- the header map after the X-Forwarded-For step -/
def fwd1 (c : Cfg) (h : HeaderMap) : HeaderMap :=
  if (HeaderMap.values XFF h).isEmpty then HeaderMap.insert XFF c.peerIP h
  else HeaderMap.insert XFF (xffValue c h) (HeaderMap.remove XFF h)

/-- the header map written upstream -/
def fwdHeaders (c : Cfg) (h : HeaderMap) : HeaderMap :=
  if HeaderMap.contains XRI (fwd1 c h) then fwd1 c h else HeaderMap.insert XRI c.peerIP (fwd1 c h)

theorem upstreamHead_eq (c : Cfg) (s : Sock) :
    upstreamHead c s = startLine c s ++ CRLF ++ Sock.headerLines (fwdHeaders c s.reqHeaders) ++ CRLF := by
  simp only [upstreamHead, startLine, fwdHeaders, fwd1, xffValue, target, encPath, HTTP11sp,
    List.append_assoc, List.cons_append]
  rfl

/-! ### the forwarded header map, name by name -/

theorem keyEq_XRI_XFF : HeaderMap.keyEq XRI XFF = false := by decide
theorem keyEq_XFF_XRI : HeaderMap.keyEq XFF XRI = false := by decide

theorem values_fwd1_other (c : Cfg) (h : HeaderMap) (k : Bytes) (hk : HeaderMap.keyEq XFF k = false) :
    HeaderMap.values k (fwd1 c h) = HeaderMap.values k h := by
  unfold fwd1
  split
  · rw [HeaderMap.values_insert, hk]; simp
  · rw [HeaderMap.values_insert, hk, C03L.values_remove, hk]; simp

theorem values_fwd1_xff (c : Cfg) (h : HeaderMap) :
    HeaderMap.values XFF (fwd1 c h) = [xffValue c h] := by
  have hkk : HeaderMap.keyEq XFF XFF = true := by decide
  unfold fwd1
  split
  · rename_i he
    have he' : HeaderMap.values XFF h = [] := List.isEmpty_iff.mp he
    rw [HeaderMap.values_insert, hkk, he']
    simp [xffValue, he']
  · rw [HeaderMap.values_insert, hkk, C03L.values_remove, hkk]; simp

theorem values_fwdHeaders_of_ne_xri (c : Cfg) (h : HeaderMap) (k : Bytes)
    (hk : HeaderMap.keyEq XRI k = false) :
    HeaderMap.values k (fwdHeaders c h) = HeaderMap.values k (fwd1 c h) := by
  unfold fwdHeaders
  split
  · rfl
  · rw [HeaderMap.values_insert, hk]; simp

/-- **every other client header is forwarded with exactly its values**, in the same order -/
theorem headers_forwarded (c : Cfg) (h : HeaderMap) (k : Bytes)
    (h1 : HeaderMap.keyEq XFF k = false) (h2 : HeaderMap.keyEq XRI k = false) :
    HeaderMap.values k (fwdHeaders c h) = HeaderMap.values k h := by
  rw [values_fwdHeaders_of_ne_xri c h k h2, values_fwd1_other c h k h1]

/-- **X-Forwarded-For**: exactly one value; it lists the client's values in the order received and
    ends with the peer address -/
theorem xff_ends_with_peer (c : Cfg) (h : HeaderMap) :
    HeaderMap.values XFF (fwdHeaders c h) = [xffValue c h] := by
  rw [values_fwdHeaders_of_ne_xri c h XFF keyEq_XRI_XFF, values_fwd1_xff]

/-- **X-Real-IP**: the client's own values if it sent any, else the peer address -/
theorem xri (c : Cfg) (h : HeaderMap) :
    HeaderMap.values XRI (fwdHeaders c h) =
      if HeaderMap.contains XRI h then HeaderMap.values XRI h else [c.peerIP] := by
  have hkk : HeaderMap.keyEq XRI XRI = true := by decide
  have e1 : HeaderMap.values XRI (fwd1 c h) = HeaderMap.values XRI h :=
    values_fwd1_other c h XRI keyEq_XFF_XRI
  have hc : HeaderMap.contains XRI (fwd1 c h) = HeaderMap.contains XRI h := by
    have a := HeaderMap.contains_iff_values XRI (fwd1 c h)
    have b := HeaderMap.contains_iff_values XRI h
    rw [e1] at a
    cases h1 : HeaderMap.contains XRI (fwd1 c h) <;> cases h2 : HeaderMap.contains XRI h <;> simp_all
  unfold fwdHeaders
  rw [hc]
  split
  · exact e1
  · rename_i hn
    rw [HeaderMap.values_insert, hkk, e1]
    have : HeaderMap.values XRI h = [] := by
      have b := HeaderMap.contains_iff_values XRI h
      cases hv : HeaderMap.values XRI h with
      | nil => rfl
      | cons x xs => rw [hv] at b; exact absurd (b.mpr (by simp)) hn
    simp [this]

/-! ### entry cleanliness is preserved -/

open Qhttp.Http in
theorem xffValue_CR (c : Cfg) (h : HeaderMap) (hh : C03L.HdrWf h) (hp : CR ∉ c.peerIP) :
    CR ∉ xffValue c h := by
  unfold xffValue
  intro hm
  rcases List.mem_append.mp hm with hm | hm
  · obtain ⟨v, hv, hx⟩ := List.mem_flatMap.mp hm
    have hv' : v ∈ HeaderMap.values XFF h := List.mem_reverse.mp hv
    obtain ⟨k', he⟩ := C03L.mem_of_mem_values hv'
    rcases List.mem_append.mp hx with hx | hx
    · exact (hh (k', v) he).2.2.2 hx
    · simp [CR] at hx
  · exact hp hm

open Qhttp.Http in
theorem wf_fwdHeaders (c : Cfg) (h : HeaderMap) (hh : C03L.HdrWf h) (hp : CR ∉ c.peerIP) :
    C03L.HdrWf (fwdHeaders c h) := by
  have okXFF : ∀ v, CR ∉ v → EntryOk (XFF, v) := fun v hv =>
    ⟨(by decide : XFF ≠ []), (by decide : COLON ∉ XFF), (by decide : CR ∉ XFF), hv⟩
  have okXRI : ∀ v, CR ∉ v → EntryOk (XRI, v) := fun v hv =>
    ⟨(by decide : XRI ≠ []), (by decide : COLON ∉ XRI), (by decide : CR ∉ XRI), hv⟩
  have h1 : C03L.HdrWf (fwd1 c h) := by
    unfold fwd1
    split
    · exact C03L.wf_insert hh (okXFF _ hp)
    · exact C03L.wf_insert (C03L.wf_remove hh) (okXFF _ (xffValue_CR c h hh hp))
  unfold fwdHeaders
  split
  · exact h1
  · exact C03L.wf_insert h1 (okXRI _ hp)

/-! ### the request line -/

theorem methodToString_of_code {tok : Bytes} {code : Nat} (h : Parser.methodCode tok = some code) :
    methodToString code = tok := by
  have := (Parser.methodCode_eq_some_iff tok code).1 h
  simp only [Parser.methodTable, List.mem_cons, Prod.mk.injEq, List.not_mem_nil, or_false] at this
  rcases this with ⟨rfl, rfl⟩ | ⟨rfl, rfl⟩ | ⟨rfl, rfl⟩ | ⟨rfl, rfl⟩ | ⟨rfl, rfl⟩ | ⟨rfl, rfl⟩ |
    ⟨rfl, rfl⟩ | ⟨rfl, rfl⟩ <;> decide

def eightCodes : List Nat := [1, 2, 4, 8, 16, 32, 64, 128]

theorem methodToString_clean : ∀ code ∈ eightCodes,
    SP ∉ methodToString code ∧ CR ∉ methodToString code ∧
    Parser.methodCode (methodToString code) = some code := by decide

theorem code_mem_eightCodes {tok : Bytes} {code : Nat} (h : Parser.methodCode tok = some code) :
    code ∈ eightCodes := by
  have := (Parser.methodCode_eq_some_iff tok code).1 h
  simp only [Parser.methodTable, List.mem_cons, Prod.mk.injEq, List.not_mem_nil, or_false] at this
  rcases this with ⟨_, rfl⟩ | ⟨_, rfl⟩ | ⟨_, rfl⟩ | ⟨_, rfl⟩ | ⟨_, rfl⟩ | ⟨_, rfl⟩ |
    ⟨_, rfl⟩ | ⟨_, rfl⟩ <;> decide

/-- **the target is clean** for every routed path and every raw client target: no SP, CR, LF -/
theorem target_clean (p r : Bytes) :
    SP ∉ target p r ∧ CR ∉ target p r ∧ LF ∉ target p r := by
  have a1 : SP ∉ encPath p := not_mem_encPath p (by decide) (by decide) (by decide) (by decide)
  have a2 : CR ∉ encPath p := not_mem_encPath p (by decide) (by decide) (by decide) (by decide)
  have a3 : LF ∉ encPath p := not_mem_encPath p (by decide) (by decide) (by decide) (by decide)
  unfold target
  simp only [List.mem_append, not_or]
  exact ⟨⟨a1, SP_not_mem_query r⟩, ⟨a2, CR_not_mem_query r⟩, ⟨a3, LF_not_mem_query r⟩⟩

theorem HTTP11sp_eq : HTTP11sp = [SP] ++ Parser.HTTP11 := by decide

theorem startLine_CR (c : Cfg) (s : Sock) (hm : s.method ∈ eightCodes) :
    CR ∉ startLine c s := by
  obtain ⟨_, h2, _⟩ := methodToString_clean _ hm
  obtain ⟨_, t2, _⟩ := target_clean c.path s.rawPath
  unfold startLine
  simp only [List.mem_append, not_or]
  exact ⟨⟨⟨h2, by decide⟩, t2⟩, by decide⟩

/-- **the request line splits at SP into exactly method, target, version** -/
theorem startLine_split (c : Cfg) (s : Sock) (hm : s.method ∈ eightCodes) :
    splitF [SP] ((startLine c s).length + 1) none (startLine c s) =
      [methodToString s.method, target c.path s.rawPath, Parser.HTTP11] := by
  obtain ⟨h1, _, _⟩ := methodToString_clean _ hm
  obtain ⟨t1, _, _⟩ := target_clean c.path s.rawPath
  have e : startLine c s =
      methodToString s.method ++ [SP] ++ (target c.path s.rawPath ++ [SP] ++ Parser.HTTP11) := by
    rw [startLine, HTTP11sp_eq]; simp [List.append_assoc]
  show splitAll [SP] (startLine c s) = _
  rw [e, splitAll_found (c := SP) (d := []) _ h1, splitAll_found (c := SP) (d := []) _ t1,
    splitAll_of_not_mem (c := SP) (d := []) (by decide)]

/-- **the head is one well-formed HTTP/1.1 request head**: the strict reader reads back the start
    line, the forwarded header map entry by entry, and whatever follows as the body -/
theorem head_wellformed (c : Cfg) (s : Sock) (body : Bytes)
    (hm : s.method ∈ eightCodes)
    (hh : C03L.HdrWf s.reqHeaders) (hp : CR ∉ c.peerIP) :
    Http.parse (upstreamHead c s ++ body) =
      some { start := startLine c s, headers := fwdHeaders c s.reqHeaders, body := body } := by
  rw [upstreamHead_eq]
  exact Http.parse_render _ _ _ (startLine_CR c s hm) (wf_fwdHeaders c _ hh hp)

end Qhttp.ProxyL

namespace Qhttp.ProxyL
open Qhttp Proxy Qhttp.HB

/-! ### where entry cleanliness comes from: the client's header lines -/

theorem mem_of_mem_trim {x : UInt8} {l : Bytes} (h : x ∈ trim l) : x ∈ l := by
  unfold trim trimR trimL at h
  have h1 := List.mem_reverse.mp h
  have h2 := (List.dropWhile_sublist isSp).subset h1
  have h3 := List.mem_reverse.mp h2
  exact (List.dropWhile_sublist isSp).subset h3

/-- a client header line the strict reader can be shown again: no CR anywhere (the line breaks are
    already gone) and a name that is not blank -/
def LineOk (l : Bytes) : Prop :=
  CR ∉ l ∧ ∀ n x, breakOn [COLON] l = some (n, x) → trim n ≠ []

open Qhttp.Http in
theorem wf_insertLine {m : HeaderMap} {l : Bytes} (hm : C03L.HdrWf m) (hl : LineOk l) :
    C03L.HdrWf (Parser.insertLine m l) := by
  unfold Parser.insertLine
  cases hb : breakOn [COLON] l with
  | none => exact hm
  | some p =>
    obtain ⟨n, x⟩ := p
    have hnc : COLON ∉ n := breakOn_singleton_not_mem hb
    have hsplit := breakOn_some hb
    refine C03L.wf_insert hm ⟨hl.2 n x hb, fun h => hnc (mem_of_mem_trim h), ?_, ?_⟩
    · intro h; apply hl.1; rw [hsplit]; simp [mem_of_mem_trim h]
    · intro h; apply hl.1; rw [hsplit]; simp [mem_of_mem_trim h]

theorem wf_foldl_insertLine (hs : List Bytes) (hl : ∀ l ∈ hs, LineOk l) :
    ∀ {m : HeaderMap}, C03L.HdrWf m → C03L.HdrWf (hs.foldl Parser.insertLine m) := by
  induction hs with
  | nil => intro m h; exact h
  | cons l rest ih =>
    intro m h
    exact ih (fun l' h' => hl l' (by simp [h'])) (wf_insertLine h (hl l (by simp)))

/-- header maps produced by `Parser::parseHeaderList` from CR-free lines with non-blank names
    satisfy the cleanliness condition of `head_wellformed` -/
theorem wf_of_parseHeaderList {hs : List Bytes} {m : HeaderMap}
    (h : Parser.parseHeaderList hs [] = some m) (hl : ∀ l ∈ hs, LineOk l) : C03L.HdrWf m := by
  rw [Parser.parseHeaderList_eq] at h
  split at h
  · cases h; exact wf_foldl_insertLine hs hl (fun e he => by cases he)
  · cases h

end Qhttp.ProxyL
