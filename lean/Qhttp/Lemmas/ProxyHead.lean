import Qhttp.Lemmas.ProxyTarget
import Qhttp.Lemmas.HttpRender
import Qhttp.Lemmas.C01Parser
import Qhttp.Lemmas.C03Hdr
import Qhttp.Lemmas.HttpRenderW
/-
  C12 — the upstream request head written by `onUpstreamConnected`: its decomposition into start
  line and forwarded header map, what the forwarded map carries under every name, and that the
  strict reader `Http.parse` reads the head back.
-/
namespace Qhttp.ProxyL
open Qhttp Proxy Qhttp.HB

def HTTP11sp : Bytes := lit [' ','H','T','T','P','/','1','.','1']

/-- the request line without its line break -/
def startLine (c : Cfg) (s : Sock) : Bytes :=
  methodToString s.method ++ [SP] ++ target c.path s.rawPath ++ HTTP11sp

/-- the single X-Forwarded-For value: the client's values in the order received, each followed by
    ", ", then the peer address -/
def xffValue (c : Cfg) (h : HeaderMap) : Bytes :=
  ((HeaderMap.values XFF h).reverse.flatMap fun v => v ++ [44, 32]) ++ c.peerIP

/-- the header map after the X-Forwarded-For step -/
def fwd1 (c : Cfg) (h : HeaderMap) : HeaderMap :=
  if (HeaderMap.values XFF h).isEmpty then HeaderMap.insert XFF c.peerIP h
  else HeaderMap.insert XFF (xffValue c h) (HeaderMap.remove XFF h)

/-- the header map written upstream -/
def fwdHeaders (c : Cfg) (h : HeaderMap) : HeaderMap :=
  if HeaderMap.contains XRI (fwd1 c h) then fwd1 c h else HeaderMap.insert XRI c.peerIP (fwd1 c h)

theorem upstreamHead_eq (c : Cfg) (s : Sock) :
    upstreamHead c s = startLine c s ++ CRLF ++ Sock.headerLines (fwdHeaders c s.reqHeaders) ++ CRLF := by
  simp only [upstreamHead, startLine, fwdHeaders, fwd1, xffValue, target, encPath, HTTP11sp,
    List.append_assoc, List.cons_append]
  rfl

/-! ### the forwarded header map, name by name -/

theorem keyEq_XRI_XFF : HeaderMap.keyEq XRI XFF = false := by decide
theorem keyEq_XFF_XRI : HeaderMap.keyEq XFF XRI = false := by decide

theorem values_fwd1_other (c : Cfg) (h : HeaderMap) (k : Bytes) (hk : HeaderMap.keyEq XFF k = false) :
    HeaderMap.values k (fwd1 c h) = HeaderMap.values k h := by
  unfold fwd1
  split
  · rw [HeaderMap.values_insert, hk]; simp
  · rw [HeaderMap.values_insert, hk, C03L.values_remove, hk]; simp

theorem values_fwd1_xff (c : Cfg) (h : HeaderMap) :
    HeaderMap.values XFF (fwd1 c h) = [xffValue c h] := by
  have hkk : HeaderMap.keyEq XFF XFF = true := by decide
  unfold fwd1
  split
  · rename_i he
    have he' : HeaderMap.values XFF h = [] := List.isEmpty_iff.mp he
    rw [HeaderMap.values_insert, hkk, he']
    simp [xffValue, he']
  · rw [HeaderMap.values_insert, hkk, C03L.values_remove, hkk]; simp

theorem values_fwdHeaders_of_ne_xri (c : Cfg) (h : HeaderMap) (k : Bytes)
    (hk : HeaderMap.keyEq XRI k = false) :
    HeaderMap.values k (fwdHeaders c h) = HeaderMap.values k (fwd1 c h) := by
  unfold fwdHeaders
  split
  · rfl
  · rw [HeaderMap.values_insert, hk]; simp

/-- **every other client header is forwarded with exactly its values**, in the same order -/
theorem headers_forwarded (c : Cfg) (h : HeaderMap) (k : Bytes)
    (h1 : HeaderMap.keyEq XFF k = false) (h2 : HeaderMap.keyEq XRI k = false) :
    HeaderMap.values k (fwdHeaders c h) = HeaderMap.values k h := by
  rw [values_fwdHeaders_of_ne_xri c h k h2, values_fwd1_other c h k h1]

/-- **X-Forwarded-For**: exactly one value; it lists the client's values in the order received and
    ends with the peer address -/
theorem xff_ends_with_peer (c : Cfg) (h : HeaderMap) :
    HeaderMap.values XFF (fwdHeaders c h) = [xffValue c h] := by
  rw [values_fwdHeaders_of_ne_xri c h XFF keyEq_XRI_XFF, values_fwd1_xff]

/-- **X-Real-IP**: the client's own values if it sent any, else the peer address -/
theorem xri (c : Cfg) (h : HeaderMap) :
    HeaderMap.values XRI (fwdHeaders c h) =
      if HeaderMap.contains XRI h then HeaderMap.values XRI h else [c.peerIP] := by
  have hkk : HeaderMap.keyEq XRI XRI = true := by decide
  have e1 : HeaderMap.values XRI (fwd1 c h) = HeaderMap.values XRI h :=
    values_fwd1_other c h XRI keyEq_XFF_XRI
  have hc : HeaderMap.contains XRI (fwd1 c h) = HeaderMap.contains XRI h := by
    have a := HeaderMap.contains_iff_values XRI (fwd1 c h)
    have b := HeaderMap.contains_iff_values XRI h
    rw [e1] at a
    cases h1 : HeaderMap.contains XRI (fwd1 c h) <;> cases h2 : HeaderMap.contains XRI h <;> simp_all
  unfold fwdHeaders
  rw [hc]
  split
  · exact e1
  · rename_i hn
    rw [HeaderMap.values_insert, hkk, e1]
    have : HeaderMap.values XRI h = [] := by
      have b := HeaderMap.contains_iff_values XRI h
      cases hv : HeaderMap.values XRI h with
      | nil => rfl
      | cons x xs => rw [hv] at b; exact absurd (b.mpr (by simp)) hn
    simp [this]

/-! ### entry cleanliness is preserved -/

open Qhttp.Http in
theorem xffValue_CR (c : Cfg) (h : HeaderMap) (hh : C03L.HdrWf h) (hp : CR ∉ c.peerIP) :
    CR ∉ xffValue c h := by
  unfold xffValue
  intro hm
  rcases List.mem_append.mp hm with hm | hm
  · obtain ⟨v, hv, hx⟩ := List.mem_flatMap.mp hm
    have hv' : v ∈ HeaderMap.values XFF h := List.mem_reverse.mp hv
    obtain ⟨k', he⟩ := C03L.mem_of_mem_values hv'
    rcases List.mem_append.mp hx with hx | hx
    · exact (hh (k', v) he).2.2.2 hx
    · simp [CR] at hx
  · exact hp hm

open Qhttp.Http in
theorem wf_fwdHeaders (c : Cfg) (h : HeaderMap) (hh : C03L.HdrWf h) (hp : CR ∉ c.peerIP) :
    C03L.HdrWf (fwdHeaders c h) := by
  have okXFF : ∀ v, CR ∉ v → EntryOk (XFF, v) := fun v hv =>
    ⟨(by decide : XFF ≠ []), (by decide : COLON ∉ XFF), (by decide : CR ∉ XFF), hv⟩
  have okXRI : ∀ v, CR ∉ v → EntryOk (XRI, v) := fun v hv =>
    ⟨(by decide : XRI ≠ []), (by decide : COLON ∉ XRI), (by decide : CR ∉ XRI), hv⟩
  have h1 : C03L.HdrWf (fwd1 c h) := by
    unfold fwd1
    split
    · exact C03L.wf_insert hh (okXFF _ hp)
    · exact C03L.wf_insert (C03L.wf_remove hh) (okXFF _ (xffValue_CR c h hh hp))
  unfold fwdHeaders
  split
  · exact h1
  · exact C03L.wf_insert h1 (okXRI _ hp)

/-! ### the request line -/

theorem methodToString_of_code {tok : Bytes} {code : Nat} (h : Parser.methodCode tok = some code) :
    methodToString code = tok := by
  have := (Parser.methodCode_eq_some_iff tok code).1 h
  simp only [Parser.methodTable, List.mem_cons, Prod.mk.injEq, List.not_mem_nil, or_false] at this
  rcases this with ⟨rfl, rfl⟩ | ⟨rfl, rfl⟩ | ⟨rfl, rfl⟩ | ⟨rfl, rfl⟩ | ⟨rfl, rfl⟩ | ⟨rfl, rfl⟩ |
    ⟨rfl, rfl⟩ | ⟨rfl, rfl⟩ <;> decide

def eightCodes : List Nat := [1, 2, 4, 8, 16, 32, 64, 128]

theorem methodToString_clean : ∀ code ∈ eightCodes,
    SP ∉ methodToString code ∧ CR ∉ methodToString code ∧
    Parser.methodCode (methodToString code) = some code := by decide

theorem code_mem_eightCodes {tok : Bytes} {code : Nat} (h : Parser.methodCode tok = some code) :
    code ∈ eightCodes := by
  have := (Parser.methodCode_eq_some_iff tok code).1 h
  simp only [Parser.methodTable, List.mem_cons, Prod.mk.injEq, List.not_mem_nil, or_false] at this
  rcases this with ⟨_, rfl⟩ | ⟨_, rfl⟩ | ⟨_, rfl⟩ | ⟨_, rfl⟩ | ⟨_, rfl⟩ | ⟨_, rfl⟩ |
    ⟨_, rfl⟩ | ⟨_, rfl⟩ <;> decide

/-- **the target is clean** for every routed path and every raw client target: no SP, CR, LF -/
theorem target_clean (p r : Bytes) :
    SP ∉ target p r ∧ CR ∉ target p r ∧ LF ∉ target p r := by
  have a1 : SP ∉ encPath p := not_mem_encPath p (by decide) (by decide) (by decide) (by decide)
  have a2 : CR ∉ encPath p := not_mem_encPath p (by decide) (by decide) (by decide) (by decide)
  have a3 : LF ∉ encPath p := not_mem_encPath p (by decide) (by decide) (by decide) (by decide)
  unfold target
  simp only [List.mem_append, not_or]
  exact ⟨⟨a1, SP_not_mem_query r⟩, ⟨a2, CR_not_mem_query r⟩, ⟨a3, LF_not_mem_query r⟩⟩

theorem HTTP11sp_eq : HTTP11sp = [SP] ++ Parser.HTTP11 := by decide

theorem startLine_CR (c : Cfg) (s : Sock) (hm : s.method ∈ eightCodes) :
    CR ∉ startLine c s := by
  obtain ⟨_, h2, _⟩ := methodToString_clean _ hm
  obtain ⟨_, t2, _⟩ := target_clean c.path s.rawPath
  unfold startLine
  simp only [List.mem_append, not_or]
  exact ⟨⟨⟨h2, by decide⟩, t2⟩, by decide⟩

/-- **the request line splits at SP into exactly method, target, version** -/
theorem startLine_split (c : Cfg) (s : Sock) (hm : s.method ∈ eightCodes) :
    splitF [SP] ((startLine c s).length + 1) none (startLine c s) =
      [methodToString s.method, target c.path s.rawPath, Parser.HTTP11] := by
  obtain ⟨h1, _, _⟩ := methodToString_clean _ hm
  obtain ⟨t1, _, _⟩ := target_clean c.path s.rawPath
  have e : startLine c s =
      methodToString s.method ++ [SP] ++ (target c.path s.rawPath ++ [SP] ++ Parser.HTTP11) := by
    rw [startLine, HTTP11sp_eq]; simp [List.append_assoc]
  show splitAll [SP] (startLine c s) = _
  rw [e, splitAll_found (c := SP) (d := []) _ h1, splitAll_found (c := SP) (d := []) _ t1,
    splitAll_of_not_mem (c := SP) (d := []) (by decide)]

/-- **the head is one well-formed HTTP/1.1 request head**: the strict reader reads back the start
    line, the forwarded header map entry by entry, and whatever follows as the body -/
theorem head_wellformed (c : Cfg) (s : Sock) (body : Bytes)
    (hm : s.method ∈ eightCodes)
    (hh : C03L.HdrWf s.reqHeaders) (hp : CR ∉ c.peerIP) :
    Http.parse (upstreamHead c s ++ body) =
      some { start := startLine c s, headers := fwdHeaders c s.reqHeaders, body := body } := by
  rw [upstreamHead_eq]
  exact Http.parse_render _ _ _ (startLine_CR c s hm) (wf_fwdHeaders c _ hh hp)

end Qhttp.ProxyL

namespace Qhttp.ProxyL
open Qhttp Proxy Qhttp.HB

/-! ### where entry cleanliness comes from: the client's header lines -/

theorem mem_of_mem_trim {x : UInt8} {l : Bytes} (h : x ∈ trim l) : x ∈ l := by
  unfold trim trimR trimL at h
  have h1 := List.mem_reverse.mp h
  have h2 := (List.dropWhile_sublist isSp).subset h1
  have h3 := List.mem_reverse.mp h2
  exact (List.dropWhile_sublist isSp).subset h3

/-- the part of `Http.EntryOk` that `Parser::parseHeaderList` guarantees by itself (since it
    refuses blank names): the name is not empty and has no ':' -/
def NameOk (e : Bytes × Bytes) : Prop := e.1 ≠ [] ∧ COLON ∉ e.1

/-- the part of `Http.EntryOk` the parser does not guarantee (a lone CR is an ordinary byte for
    it; lines end at CR LF only): no CR in name or value -/
def CrFree (e : Bytes × Bytes) : Prop := CR ∉ e.1 ∧ CR ∉ e.2

theorem entryOk_iff (e : Bytes × Bytes) : Http.EntryOk e ↔ NameOk e ∧ CrFree e := by
  unfold Http.EntryOk NameOk CrFree
  constructor
  · rintro ⟨a, b, c, d⟩; exact ⟨⟨a, b⟩, c, d⟩
  · rintro ⟨⟨a, b⟩, c, d⟩; exact ⟨a, b, c, d⟩

theorem hdrWf_iff (m : HeaderMap) : C03L.HdrWf m ↔ (∀ e ∈ m, NameOk e) ∧ (∀ e ∈ m, CrFree e) := by
  unfold C03L.HdrWf
  constructor
  · intro h
    exact ⟨fun e he => ((entryOk_iff e).1 (h e he)).1, fun e he => ((entryOk_iff e).1 (h e he)).2⟩
  · rintro ⟨a, b⟩ e he
    exact (entryOk_iff e).2 ⟨a e he, b e he⟩

/-- the entry a line of the form `name: value` contributes has a good name -/
theorem nameOk_insertLine {m : HeaderMap} {l : Bytes} (hm : ∀ e ∈ m, NameOk e)
    (hl : Parser.hdrLineB l = true) : ∀ e ∈ Parser.insertLine m l, NameOk e := by
  unfold Parser.insertLine
  unfold Parser.hdrLineB at hl
  cases hb : breakOn [COLON] l with
  | none => exact hm
  | some p =>
    obtain ⟨n, x⟩ := p
    rw [hb] at hl
    simp only [Bool.not_eq_true'] at hl
    intro e he
    rcases C03L.mem_insert.mp he with rfl | he
    · refine ⟨fun c => ?_, fun h => breakOn_singleton_not_mem hb (mem_of_mem_trim h)⟩
      simp only at c
      rw [c] at hl
      cases hl
    · exact hm e he

/-- CR-free lines give CR-free entries -/
theorem crFree_insertLine {m : HeaderMap} {l : Bytes} (hm : ∀ e ∈ m, CrFree e) (hl : CR ∉ l) :
    ∀ e ∈ Parser.insertLine m l, CrFree e := by
  unfold Parser.insertLine
  cases hb : breakOn [COLON] l with
  | none => exact hm
  | some p =>
    obtain ⟨n, x⟩ := p
    have hsplit := breakOn_some hb
    intro e he
    rcases C03L.mem_insert.mp he with rfl | he
    · constructor
      · intro h; apply hl; rw [hsplit]; simp [mem_of_mem_trim h]
      · intro h; apply hl; rw [hsplit]; simp [mem_of_mem_trim h]
    · exact hm e he

theorem nameOk_foldl_insertLine (hs : List Bytes) (hl : ∀ l ∈ hs, Parser.hdrLineB l = true) :
    ∀ {m : HeaderMap}, (∀ e ∈ m, NameOk e) → ∀ e ∈ hs.foldl Parser.insertLine m, NameOk e := by
  induction hs with
  | nil => intro m h; exact h
  | cons l rest ih =>
    intro m h
    exact ih (fun l' h' => hl l' (by simp [h'])) (nameOk_insertLine h (hl l (by simp)))

theorem crFree_foldl_insertLine (hs : List Bytes) (hl : ∀ l ∈ hs, CR ∉ l) :
    ∀ {m : HeaderMap}, (∀ e ∈ m, CrFree e) → ∀ e ∈ hs.foldl Parser.insertLine m, CrFree e := by
  induction hs with
  | nil => intro m h; exact h
  | cons l rest ih =>
    intro m h
    exact ih (fun l' h' => hl l' (by simp [h'])) (crFree_insertLine h (hl l (by simp)))

/-- **every header map `Parser::parseHeaderList` produces has good names** — non-empty, no ':' —
    whatever the lines are (no side condition: a line with a blank name is refused by the parser) -/
theorem nameOk_of_parseHeaderList {hs : List Bytes} {m0 m : HeaderMap}
    (h : Parser.parseHeaderList hs m0 = some m) (h0 : ∀ e ∈ m0, NameOk e) : ∀ e ∈ m, NameOk e := by
  rw [Parser.parseHeaderList_eq] at h
  split at h
  · rename_i hl
    cases h; exact nameOk_foldl_insertLine hs hl h0
  · cases h

/-- header maps produced by `Parser::parseHeaderList` from CR-free lines satisfy the cleanliness
    condition of `head_wellformed`.  (The former side condition "the name part is not blank" is
    gone: the parser refuses such lines.  CR-freeness stays explicit: a lone CR inside a line is an
    ordinary byte for the parser.) -/
theorem wf_of_parseHeaderList {hs : List Bytes} {m : HeaderMap}
    (h : Parser.parseHeaderList hs [] = some m) (hl : ∀ l ∈ hs, CR ∉ l) : C03L.HdrWf m := by
  rw [hdrWf_iff]
  refine ⟨nameOk_of_parseHeaderList h (fun e he => by cases he), ?_⟩
  rw [Parser.parseHeaderList_eq] at h
  split at h
  · cases h; exact crFree_foldl_insertLine hs hl (fun e he => by cases he)
  · cases h

/-- the same from the CR-freeness of the resulting entries alone -/
theorem wf_of_parseHeaderList' {hs : List Bytes} {m : HeaderMap}
    (h : Parser.parseHeaderList hs [] = some m) (hcr : ∀ e ∈ m, CrFree e) : C03L.HdrWf m :=
  (hdrWf_iff m).2 ⟨nameOk_of_parseHeaderList h (fun e he => by cases he), hcr⟩

/-- … and from an accepted request head -/
theorem nameOk_of_parseRequestHeaders {head : Bytes} {rh : Parser.ReqHead}
    (h : Parser.parseRequestHeaders head [] = some rh) : ∀ e ∈ rh.headers, NameOk e := by
  obtain ⟨p0, p2, hp, _, _⟩ := (Parser.parseRequestHeaders_eq_some_iff head [] rh).mp h
  obtain ⟨hs, _, _, _, _, hpl, _⟩ := (Parser.parseHeaders_eq_some_iff _ _ _ _ _ _).1 hp
  exact nameOk_of_parseHeaderList hpl (fun e he => by cases he)

theorem wf_of_parseRequestHeaders {head : Bytes} {rh : Parser.ReqHead}
    (h : Parser.parseRequestHeaders head [] = some rh) (hcr : ∀ e ∈ rh.headers, CrFree e) :
    C03L.HdrWf rh.headers :=
  (hdrWf_iff _).2 ⟨nameOk_of_parseRequestHeaders h, hcr⟩

end Qhttp.ProxyL

namespace Qhttp.ProxyL
open Qhttp Proxy Qhttp.HB Qhttp.Http

/-! ### the general form: pieces free of CR LF (no CR-freeness needed) -/

/-- every entry is fit for `Http.parse_render_w`: non-empty name without ':', no CR LF in name
    or value -/
def HdrW (m : HeaderMap) : Prop := ∀ e ∈ m, EntryOkW e

theorem hdrW_of_hdrWf {m : HeaderMap} (h : C03L.HdrWf m) : HdrW m :=
  fun e he => entryOkW_of_entryOk (h e he)

theorem hdrW_insert {k v : Bytes} {m : HeaderMap} (h : HdrW m) (he : EntryOkW (k, v)) :
    HdrW (HeaderMap.insert k v m) := by
  intro e hm
  rcases C03L.mem_insert.mp hm with hm | hm
  · subst hm; exact he
  · exact h e hm

theorem hdrW_remove {k : Bytes} {m : HeaderMap} (h : HdrW m) : HdrW (HeaderMap.remove k m) :=
  fun e hm => h e (List.mem_filter.mp hm).1

theorem trim_infix (xs : Bytes) : trim xs <:+: xs := by
  unfold trim trimR trimL
  have h1 : xs.dropWhile isSp <:+ xs := List.dropWhile_suffix isSp
  have h2 : ((xs.dropWhile isSp).reverse.dropWhile isSp).reverse <+: xs.dropWhile isSp := by
    have := List.dropWhile_suffix isSp (l := (xs.dropWhile isSp).reverse)
    have := List.reverse_prefix.mpr this
    simpa using this
  exact h2.isInfix.trans h1.isInfix

theorem noCRLF_of_infix {a l : Bytes} (h : ¬ CRLF <:+: l) (ha : a <:+: l) : ¬ CRLF <:+: a :=
  fun c => h (c.trans ha)

theorem noCRLF_of_CR {l : Bytes} (h : CR ∉ l) : ¬ CRLF <:+: l :=
  fun c => h (CR_mem_of_CRLF_infix c)

theorem noCRLF_sp_cons {l : Bytes} (h : ¬ CRLF <:+: l) : ¬ CRLF <:+: SP :: l := by
  have := not_infix_append_sep (a := []) (c := SP)
    (fun c => by have := c.length_le; simp [CRLF] at this) h (by decide)
  simpa using this

theorem flatMap_commaSp_noCRLF (vs : List Bytes) (t : Bytes) (hv : ∀ v ∈ vs, ¬ CRLF <:+: v)
    (ht : ¬ CRLF <:+: t) : ¬ CRLF <:+: (vs.flatMap fun v => v ++ [44, 32]) ++ t := by
  induction vs with
  | nil => simpa using ht
  | cons v vs ih =>
    have ih := ih (fun v h => hv v (by simp [h]))
    have := not_infix_append_sep (c := 44) (hv v (by simp)) (noCRLF_sp_cons ih) (by decide)
    simpa [List.flatMap_cons, List.append_assoc, SP] using this

theorem xffValue_noCRLF (c : Cfg) (h : HeaderMap) (hh : HdrW h) (hp : CR ∉ c.peerIP) :
    ¬ CRLF <:+: xffValue c h := by
  unfold xffValue
  apply flatMap_commaSp_noCRLF _ _ _ (noCRLF_of_CR hp)
  intro v hv
  obtain ⟨k', he⟩ := C03L.mem_of_mem_values (List.mem_reverse.mp hv)
  exact (hh (k', v) he).2.2.2

theorem hdrW_fwdHeaders (c : Cfg) (h : HeaderMap) (hh : HdrW h) (hp : CR ∉ c.peerIP) :
    HdrW (fwdHeaders c h) := by
  have okXFF : ∀ v, ¬ CRLF <:+: v → EntryOkW (XFF, v) := fun v hv =>
    ⟨(by decide : XFF ≠ []), (by decide : COLON ∉ XFF), noCRLF_of_CR (by decide : CR ∉ XFF), hv⟩
  have okXRI : ∀ v, ¬ CRLF <:+: v → EntryOkW (XRI, v) := fun v hv =>
    ⟨(by decide : XRI ≠ []), (by decide : COLON ∉ XRI), noCRLF_of_CR (by decide : CR ∉ XRI), hv⟩
  have h1 : HdrW (fwd1 c h) := by
    unfold fwd1
    split
    · exact hdrW_insert hh (okXFF _ (noCRLF_of_CR hp))
    · exact hdrW_insert (hdrW_remove hh) (okXFF _ (xffValue_noCRLF c h hh hp))
  unfold fwdHeaders
  split
  · exact h1
  · exact hdrW_insert h1 (okXRI _ (noCRLF_of_CR hp))

theorem startLine_ne_nil (c : Cfg) (s : Sock) : startLine c s ≠ [] := by
  simp [startLine, HTTP11sp, lit]

/-- **the head is one well-formed HTTP/1.1 request head**, general form: the client's header
    entries need only be free of CR LF (a lone CR is an ordinary byte) -/
theorem head_wellformed_w (c : Cfg) (s : Sock) (body : Bytes)
    (hm : s.method ∈ eightCodes) (hh : HdrW s.reqHeaders) (hp : CR ∉ c.peerIP) :
    Http.parse (upstreamHead c s ++ body) =
      some { start := startLine c s, headers := fwdHeaders c s.reqHeaders, body := body } := by
  rw [upstreamHead_eq]
  exact Http.parse_render_w _ _ _ (startLine_ne_nil c s) (noCRLF_of_CR (startLine_CR c s hm))
    (hdrW_fwdHeaders c _ hh hp)

/-! ### every header map the parser produces is `HdrW` -/

theorem hdrW_insertLine {m : HeaderMap} {l : Bytes} (hm : HdrW m)
    (hl : Parser.hdrLineB l = true) (hc : ¬ CRLF <:+: l) : HdrW (Parser.insertLine m l) := by
  have hname := nameOk_insertLine (m := []) (l := l) (fun e he => by cases he) hl
  unfold Parser.insertLine at hname ⊢
  cases hb : breakOn [COLON] l with
  | none => exact hm
  | some p =>
    obtain ⟨n, x⟩ := p
    rw [hb] at hname
    have hsplit := breakOn_some hb
    have hn : n <:+: l := ⟨[], [COLON] ++ x, by rw [hsplit]; simp⟩
    have hx : x <:+: l := ⟨n ++ [COLON], [], by rw [hsplit]; simp⟩
    have h0 := hname (trim n, trim x) (by simp [HeaderMap.insert])
    exact hdrW_insert hm ⟨h0.1, h0.2, noCRLF_of_infix hc ((trim_infix n).trans hn),
      noCRLF_of_infix hc ((trim_infix x).trans hx)⟩

theorem hdrW_of_parseHeaderList {hs : List Bytes} {m0 m : HeaderMap}
    (h : Parser.parseHeaderList hs m0 = some m) (h0 : HdrW m0) (hl : ∀ l ∈ hs, ¬ CRLF <:+: l) :
    HdrW m := by
  rw [Parser.parseHeaderList_eq] at h
  split at h
  · rename_i hb
    cases h
    induction hs generalizing m0 with
    | nil => exact h0
    | cons l rest ih =>
      exact ih (hdrW_insertLine h0 (hb l (by simp)) (hl l (by simp)))
        (fun l' h' => hl l' (by simp [h'])) (fun l' h' => hb l' (by simp [h']))
  · cases h

/-- **every request head the library accepts has a header map fit for re-reading** — no side
    condition at all: names are non-empty and free of ':' because blank names are refused, names
    and values are free of CR LF because header lines are cut at CR LF -/
theorem hdrW_of_parseRequestHeaders {head : Bytes} {rh : Parser.ReqHead}
    (h : Parser.parseRequestHeaders head [] = some rh) : HdrW rh.headers := by
  obtain ⟨p0, p2, hp, _, _⟩ := (Parser.parseRequestHeaders_eq_some_iff head [] rh).mp h
  obtain ⟨hs, _, _, _, hl, hpl, _⟩ := (Parser.parseHeaders_eq_some_iff _ _ _ _ _ _).1 hp
  exact hdrW_of_parseHeaderList hpl (fun e he => by cases he) hl

end Qhttp.ProxyL
