import Qhttp.Lemmas.C14Run
/-
  C14 helper lemmas, part 5: `start()` again on a copier that has run before (after a `stop()`
  and the firing of the stale 0 ms timer).  No handler reads the log, and without injected device
  faults none reads the call counters: the second run is the run of a fresh copier whose source
  stands where the first run left it, appended to the log of the first.
-/
namespace Qhttp.C14L
open Qhttp Copier

/-- `s` with the log prefixed by `L` and `r` / `w` earlier device calls counted -/
def rebase (L : List Obs) (r w : Nat) (s : St) : St :=
  { s with log := L ++ s.log, reads := r + s.reads, writes := w + s.writes }

theorem noFault_fields {c : Cfg} (h : anyFault c = false) :
    c.srcOpenFails = false ∧ c.dstOpenFails = false ∧ c.seekFails = false ∧
    c.readFailAt = none ∧ c.writeFailAt = none := by
  simp only [anyFault, Bool.or_eq_false_iff] at h
  obtain ⟨⟨⟨⟨h1, h2⟩, h3⟩, h4⟩, h5⟩ := h
  refine ⟨h1, h2, h3, ?_, ?_⟩
  · cases hh : c.readFailAt <;> simp_all
  · cases hh : c.writeFailAt <;> simp_all

theorem destWrite_rebase (c : Cfg) (hw : c.writeFailAt = none) (L : List Obs) (r w : Nat) (s : St)
    (data : Bytes) (n : Int) :
    destWrite c (rebase L r w s) data n = (rebase L r w (destWrite c s data n).1, (destWrite c s data n).2) := by
  rw [destWrite_eq, destWrite_eq]
  simp only [wfail, hw, rebase]
  have : ∀ k : Nat, ((none : Option Nat) == some k) = false := fun _ => rfl
  simp only [this, Bool.or_false]
  by_cases hn : n < 0 <;> simp [hn, List.append_assoc, Nat.add_assoc]

theorem onReadyRead_rebase (c : Cfg) (hw : c.writeFailAt = none) (L : List Obs) (r w : Nat) (s : St) :
    onReadyRead c (rebase L r w s) = rebase L r w (onReadyRead c s) := by
  cases hs : s.stopped
  · have hs' : (rebase L r w s).stopped = false := hs
    rw [onReadyRead_eq c _ hs', onReadyRead_eq c _ hs]
    have : ∀ k : Nat, ((none : Option Nat) == some k) = false := fun _ => rfl
    simp [rebase, hw, this, List.append_assoc, Nat.add_assoc]
    exact ⟨rfl, rfl⟩
  · have hs' : (rebase L r w s).stopped = true := hs
    unfold onReadyRead
    simp only [hs, hs', if_true]

theorem nextBlock_rebase (c : Cfg) (hr : c.readFailAt = none) (hw : c.writeFailAt = none)
    (L : List Obs) (r w : Nat) (s : St) :
    nextBlock c (rebase L r w s) = rebase L r w (nextBlock c s) := by
  cases hs : s.stopped
  · have hs' : (rebase L r w s).stopped = false := hs
    rw [nextBlock_eq c _ hs', nextBlock_eq c _ hs]
    have : ∀ k : Nat, ((none : Option Nat) == some k) = false := fun _ => rfl
    simp only [rebase, hr, hw, this, wfail, Bool.or_false, Bool.false_eq_true, if_false]
    by_cases hn : nbN c s.pos < 0 <;> simp [hn, List.append_assoc, Nat.add_assoc]
    exact ⟨rfl, rfl⟩
  · have hs' : (rebase L r w s).stopped = true := hs
    unfold nextBlock
    simp only [hs, hs', if_true]

theorem step_rebase (c : Cfg) (hnf : anyFault c = false) (L : List Obs) (r w : Nat) (s : St) (e : Ev) :
    step c (rebase L r w s) e = rebase L r w (step c s e) := by
  obtain ⟨_, _, _, hr, hw⟩ := noFault_fields hnf
  cases e with
  | start =>
    show start c (rebase L r w s) = rebase L r w (start c s)
    rw [start_eq, start_eq]
    split <;> simp [rebase, List.append_assoc]
  | turn =>
    simp only [step]
    have hp : (rebase L r w s).pending = s.pending := rfl
    rw [hp]
    cases s.pending with
    | none => rfl
    | nextBlock => exact nextBlock_rebase c hr hw L r w { s with pending := .none }
    | readyRead => exact onReadyRead_rebase c hw L r w { s with pending := .none }
  | stop => simp [step, stop, rebase, List.append_assoc]
  | arrive b =>
    simp only [step]
    have h1 : (rebase L r w s).srcClosed = s.srcClosed := rfl
    rw [h1]
    split
    · rfl
    · by_cases hc : s.connected = true
      · have hc' : (rebase L r w s).connected = true := hc
        rw [if_pos hc', if_pos hc]
        exact onReadyRead_rebase c hw L r w { s with buffered := s.buffered ++ b }
      · have hc' : ¬ (rebase L r w s).connected = true := hc
        rw [if_neg hc', if_neg hc]; rfl
  | eof =>
    simp only [step]
    have h2 : (rebase L r w s).connected = s.connected := rfl
    rw [h2]
    split
    · rfl
    · split
      · unfold onReadChannelFinished
        simp only []
        have h1 : (rebase L r w s).srcClosed = s.srcClosed := rfl
        have h3 : (rebase L r w s).buffered = s.buffered := rfl
        rw [h1, h3]
        split
        · rw [onReadyRead_rebase c hw]; simp [rebase, List.append_assoc]
        · simp [rebase, List.append_assoc]
      · rfl
  | arriveQ b =>
    simp only [step]
    have h1 : (rebase L r w s).srcClosed = s.srcClosed := rfl
    rw [h1]
    split
    · rfl
    · rfl

theorem mk_rebase (L : List Obs) (r w : Nat) (s : St) (k : Nat) :
    mk (rebase L r w s) k = rebase L r w (mk s k) := by
  simp [mk, rebase, List.append_assoc]

theorem runFrom_rebase (c : Cfg) (hnf : anyFault c = false) (L : List Obs) (r w : Nat) :
    ∀ (evs : List Ev) (s : St) (k : Nat),
      runFrom c (rebase L r w s, k) evs = (rebase L r w (runFrom c (s, k) evs).1, (runFrom c (s, k) evs).2) := by
  intro evs
  induction evs with
  | nil => intro s k; rfl
  | cons e evs ih =>
    intro s k
    rw [runFrom_cons, runFrom_cons, mk_rebase, step_rebase c hnf, ih]

/-- a state is its own rebase over the state with an empty log and no device call counted -/
theorem rebase_self (s : St) : s = rebase s.log s.reads s.writes { s with log := [], reads := 0, writes := 0 } := by
  obtain ⟨pos, buf, scl, pend, conn, stp, r, w, log⟩ := s
  simp [rebase]

/-- no handler looks at `prePos` (only `run` does, for the initial state) -/
theorem step_prePos (c : Cfg) (q : Nat) (s : St) (e : Ev) : step { c with prePos := q } s e = step c s e := by
  cases e <;> rfl

theorem runFrom_prePos (c : Cfg) (q : Nat) : ∀ (evs : List Ev) (sk : St × Nat),
    runFrom { c with prePos := q } sk evs = runFrom c sk evs := by
  intro evs
  induction evs with
  | nil => intro sk; rfl
  | cons e evs ih =>
    intro sk
    obtain ⟨s, k⟩ := sk
    rw [runFrom_cons, runFrom_cons, step_prePos, ih]

/-- a run only appends to the log -/
theorem runFrom_log_ext (c : Cfg) : ∀ (evs : List Ev) (s : St) (k : Nat),
    ∃ l, (runFrom c (s, k) evs).1.log = s.log ++ l := by
  intro evs
  induction evs with
  | nil => intro s k; exact ⟨[], by simp [runFrom_nil]⟩
  | cons e evs ih =>
    intro s k
    rw [runFrom_cons]
    obtain ⟨l, hl⟩ := ih (step c (mk s k) e) (k + 1)
    obtain ⟨l0, hl0, _⟩ := step_ext c (mk s k) e
    refine ⟨[Obs.ev k] ++ l0 ++ l, ?_⟩
    rw [hl, hl0]; simp [mk]

/-- … and an event's marker comes first -/
theorem runFrom_cons_log (c : Cfg) (e : Ev) (evs : List Ev) (s : St) (k : Nat) :
    ∃ rest, (runFrom c (s, k) (e :: evs)).1.log = s.log ++ Obs.ev k :: rest := by
  rw [runFrom_cons]
  obtain ⟨l, hl⟩ := runFrom_log_ext c evs (step c (mk s k) e) (k + 1)
  obtain ⟨l0, hl0, _⟩ := step_ext c (mk s k) e
  refine ⟨l0 ++ l, ?_⟩
  rw [hl, hl0]; simp [mk]

/-- the log of a scenario, cut at the marker of one of its events: what precedes the marker is
    the log of the events before it, and the marker occurs nowhere in that part -/
theorem run_split (c : Cfg) (pre : List Ev) (e : Ev) (post : List Ev) :
    Obs.ev pre.length ∉ (run c pre).log ∧
    ∃ rest, (run c (pre ++ e :: post)).log = (run c pre).log ++ Obs.ev pre.length :: rest := by
  refine ⟨fun h => Nat.lt_irrefl _ (run_minv c pre _ h), ?_⟩
  rw [run_eq, runFrom_append, run_eq]
  have hk := runFrom_counter c pre (init c) 0
  generalize runFrom c (init c, 0) pre = sk at hk
  obtain ⟨s, k⟩ := sk
  simp only [Nat.zero_add] at hk; subst hk
  exact runFrom_cons_log c e post s pre.length

theorem takeWhile_ne_mk {L rest : List Obs} {k : Nat} (h : Obs.ev k ∉ L) :
    (L ++ Obs.ev k :: rest).takeWhile (fun o => o != Obs.ev k) = L := by
  induction L with
  | nil => simp
  | cons a l ih =>
    have ha : a ≠ Obs.ev k := fun e => h (by simp [e])
    have hl : Obs.ev k ∉ l := fun e => h (List.mem_cons_of_mem _ e)
    simp [ha, ih hl]

/-- **the second run.**  `start()` on a random-access copier that has run before (events `pre`)
    and whose timer is idle, no injected device fault, then events `r` without `start`/`stop`:
    the log is the log of `pre` followed by the log `s2.log` of a state that satisfies the run
    invariant of a *first* run of the configuration whose source stands where `pre` left it. -/
theorem run_restart (c : Cfg) (hseq : c.seq = false) (hnf : anyFault c = false) (hb : 1 ≤ c.block)
    (pre r : List Ev) (hidle : (run c pre).pending = .none)
    (hr : RangeNF { c with prePos := (run c pre).pos })
    (hrs : ∀ e ∈ r, e ≠ .start ∧ e ≠ .stop) :
    ∃ (s2 : St) (rest : List Obs),
      (run c (pre ++ .start :: r)).log = (run c pre).log ++ s2.log ∧
      (run c (pre ++ .start :: r)).pending = s2.pending ∧
      s2.log = Obs.ev pre.length :: rest ∧
      Obs.ev pre.length ∉ (run c pre).log ∧
      NInv { c with prePos := (run c pre).pos } (nTurns r) s2 := by
  have hmk : Obs.ev pre.length ∉ (run c pre).log := fun h => Nat.lt_irrefl _ (run_minv c pre _ h)
  rw [run_eq] at hidle hr hmk ⊢
  rw [run_eq, runFrom_append]
  have hk := runFrom_counter c pre (init c) 0
  generalize runFrom c (init c, 0) pre = sk at hk hidle hr hmk
  obtain ⟨s1, k⟩ := sk
  simp only [Nat.zero_add] at hk hidle hr hmk; subst hk
  -- the same copier with an empty log and no call counted: fresh for the configuration `c2`
  generalize hs0 : ({ s1 with log := [], reads := 0, writes := 0 } : St) = s0
  have hself : s1 = rebase s1.log s1.reads s1.writes s0 := by rw [← hs0]; exact rebase_self s1
  have hfresh : Fresh { c with prePos := s1.pos } s0 := by
    rw [← hs0]; exact ⟨rfl, hidle, rfl, rfl, rfl, rfl, rfl⟩
  have hinv := runFrom_start_ninv { c with prePos := s1.pos } hseq hb hr s0 pre.length hfresh r hrs
  rw [runFrom_prePos] at hinv
  obtain ⟨rest, hrest⟩ := runFrom_cons_log c .start r s0 pre.length
  have hl0 : s0.log = [] := by rw [← hs0]
  rw [hl0, List.nil_append] at hrest
  refine ⟨(runFrom c (s0, pre.length) (.start :: r)).1, rest, ?_, ?_, hrest, hmk, hinv⟩
  · conv => lhs; rw [hself]
    rw [runFrom_rebase c hnf]
    rfl
  · conv => lhs; rw [hself]
    rw [runFrom_rebase c hnf]
    rfl

/-! ### a fault-free copy is still running as long as bytes remain -/

theorem faultAt_of_noFault (c : Cfg) (hnf : anyFault c = false) (j : Nat) : faultAt c j = false := by
  obtain ⟨_, _, _, hr, hw⟩ := noFault_fields hnf
  simp [faultAt, hr, hw]

theorem run_running (c : Cfg) (hseq : c.seq = false) (hnf : anyFault c = false) (hb : 1 ≤ c.block)
    (hr : RangeNF c) : ∀ m : Nat, (m = 0 ∨ m * c.block < (wanted c).length) →
      Running c m (run c (.start :: List.replicate m .turn)) := by
  intro m
  induction m with
  | zero =>
    intro _
    have hsf := startFails_of_noFault c hnf (Or.inr hr)
    rcases start_fresh_nonseq c hseq hr (init c) 0 (fresh_init c) with h | h
    · exact h
    · -- `start` did not fail: its log holds no `fin`
      exfalso
      have hcl := h.closed.cnt_fin
      have : (start c (mk (init c) 0)).log = [Obs.ev 0] := by
        rw [start_eq, hsf]; rfl
      rw [this] at hcl
      simp [cnt_cons] at hcl
  | succ m ih =>
    intro hm
    have hlt : (m + 1) * c.block < (wanted c).length := by
      rcases hm with h | h
      · omega
      · exact h
    have hmul : (m + 1) * c.block = m * c.block + c.block := Nat.succ_mul _ _
    have hrun := ih (Or.inr (by omega))
    have e : Ev.start :: List.replicate (m + 1) Ev.turn = (Ev.start :: List.replicate m Ev.turn) ++ [Ev.turn] := by
      rw [List.replicate_succ']; rfl
    rw [e, run_eq, runFrom_append]
    rw [run_eq] at hrun
    generalize runFrom c (init c, 0) (Ev.start :: List.replicate m Ev.turn) = sk at hrun
    obtain ⟨s, k⟩ := sk
    rw [runFrom_cons, runFrom_nil]
    have hmk := hrun.marker k
    have hp : (mk s k).pending = .nextBlock := hmk.pending
    have hst : step c (mk s k) .turn = nextBlock c { mk s k with pending := .none } := by
      simp only [step]; rw [hp]
    show Running c (m + 1) (step c (mk s k) .turn)
    rw [hst]
    rcases nextBlock_ok c hb hr m _ hmk (faultAt_of_noFault c hnf m) with ⟨h', _⟩ | ⟨_, _, _, hle⟩
    · exact h'
    · omega

/-! ### a stopped copier whose stale timer has fired -/

/-- stopped, disconnected, timer idle, the source at `p` -/
def Halted (p : Nat) (s : St) : Prop :=
  s.stopped = true ∧ s.connected = false ∧ s.pending = .none ∧ s.pos = p

theorem step_halted (c : Cfg) (p : Nat) (s : St) (k : Nat) (e : Ev) (h : Halted p s) (he : e ≠ .start) :
    Halted p (step c (mk s k) e) := by
  obtain ⟨h1, h2, h3, h4⟩ := h
  have m1 : (mk s k).stopped = true := h1
  have m2 : (mk s k).connected = false := h2
  have m3 : (mk s k).pending = .none := h3
  have m4 : (mk s k).pos = p := h4
  generalize mk s k = t at m1 m2 m3 m4
  cases e with
  | start => exact absurd rfl he
  | stop => exact ⟨rfl, rfl, m3, m4⟩
  | turn => simp only [step]; rw [m3]; exact ⟨m1, m2, m3, m4⟩
  | arrive b =>
    simp only [step]
    split
    · exact ⟨m1, m2, m3, m4⟩
    · simp only [m2, Bool.false_eq_true, if_false]
      refine ⟨?_, ?_, ?_, ?_⟩ <;> first | assumption | rfl
  | eof =>
    simp only [step]
    split
    · exact ⟨m1, m2, m3, m4⟩
    · simp only [m2, Bool.false_eq_true, if_false]
      refine ⟨?_, ?_, ?_, ?_⟩ <;> first | assumption | rfl
  | arriveQ b =>
    simp only [step]
    split
    · exact ⟨m1, m2, m3, m4⟩
    · exact ⟨m1, m2, m3, m4⟩

theorem runFrom_halted (c : Cfg) (p : Nat) : ∀ (l : List Ev) (s : St) (k : Nat),
    (∀ e ∈ l, e ≠ .start) → Halted p s → Halted p (runFrom c (s, k) l).1 := by
  intro l
  induction l with
  | nil => intro s k _ h; exact h
  | cons e l ih =>
    intro s k hl h
    rw [runFrom_cons]
    exact ih _ _ (fun e he => hl e (List.mem_cons_of_mem _ he))
      (step_halted c p s k e h (hl e (List.mem_cons_self ..)))

/-- `stop()`, then the event-loop turn in which the stale 0 ms timer fires (and finds the copier
    stopped), then anything but `start`: the timer is idle and the source stands where it stood -/
theorem run_stop_turn (c : Cfg) (pre post : List Ev) (hpost : ∀ e ∈ post, e ≠ .start) :
    (run c (pre ++ .stop :: .turn :: post)).pending = .none ∧
    (run c (pre ++ .stop :: .turn :: post)).pos = (run c pre).pos := by
  rw [run_eq, runFrom_append, run_eq]
  generalize runFrom c (init c, 0) pre = sk
  obtain ⟨s, k⟩ := sk
  rw [runFrom_cons, runFrom_cons]
  have h0 : Halted s.pos (step c (mk (step c (mk s k) .stop) (k + 1)) .turn) := by
    have hs : (mk (step c (mk s k) .stop) (k + 1)).stopped = true := rfl
    have hc : (mk (step c (mk s k) .stop) (k + 1)).connected = false := rfl
    have hp : (mk (step c (mk s k) .stop) (k + 1)).pos = s.pos := rfl
    generalize mk (step c (mk s k) .stop) (k + 1) = t at hs hc hp
    simp only [step]
    cases hpd : t.pending with
    | none => exact ⟨hs, hc, hpd, hp⟩
    | nextBlock =>
      simp only [nextBlock, hs, if_true]
      refine ⟨?_, ?_, ?_, ?_⟩ <;> first | assumption | rfl
    | readyRead =>
      simp only [onReadyRead, hs, if_true]
      refine ⟨?_, ?_, ?_, ?_⟩ <;> first | assumption | rfl
  have := runFrom_halted c s.pos post _ (k + 1 + 1) hpost h0
  exact ⟨this.2.2.1, this.2.2.2⟩

end Qhttp.C14L
