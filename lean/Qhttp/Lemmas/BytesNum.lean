import Qhttp.Model.Bytes
/-
  `trim`, `natDigits`, `toLongLong`: a decimal numeral (optionally padded with white space)
  is read back as its value.  Self-contained (imports only the Bytes model).
-/
namespace Qhttp

/-! ### trim -/

theorem dropWhile_append_of_all {f : UInt8 → Bool} {p : Bytes} (xs : Bytes)
    (h : ∀ c ∈ p, f c = true) : (p ++ xs).dropWhile f = xs.dropWhile f := by
  induction p with
  | nil => rfl
  | cons x p ih =>
    rw [List.cons_append, List.dropWhile_cons, if_pos (h x (by simp))]
    exact ih (fun c hc => h c (by simp [hc]))

theorem dropWhile_of_head_neg {f : UInt8 → Bool} {x : UInt8} (xs : Bytes) (h : f x = false) :
    (x :: xs).dropWhile f = x :: xs := by
  rw [List.dropWhile_cons]; simp [h]

/-- `trimmed()` removes exactly the white-space padding around a word whose first and last
    bytes are not white space -/
theorem trim_pad {p q w : Bytes} (hp : ∀ c ∈ p, isSp c = true) (hq : ∀ c ∈ q, isSp c = true)
    (hne : w ≠ []) (hh : isSp (w.head hne) = false) (hl : isSp (w.getLast hne) = false) :
    trim (p ++ w ++ q) = w := by
  unfold trim trimL trimR
  rw [List.append_assoc, dropWhile_append_of_all _ hp]
  have e1 : (w ++ q).dropWhile isSp = w ++ q := by
    cases w with
    | nil => exact absurd rfl hne
    | cons x w' => exact dropWhile_of_head_neg _ hh
  rw [e1, List.reverse_append, dropWhile_append_of_all _ (by simpa using hq)]
  have e2 : w.reverse.dropWhile isSp = w.reverse := by
    have hr : w.reverse = w.getLast hne :: w.dropLast.reverse := by
      conv => lhs; rw [← List.dropLast_concat_getLast hne]
      simp
    rw [hr]
    exact dropWhile_of_head_neg _ hl
  rw [e2, List.reverse_reverse]

theorem trim_of_no_pad {w : Bytes} (hne : w ≠ []) (hh : isSp (w.head hne) = false)
    (hl : isSp (w.getLast hne) = false) : trim w = w := by
  have := trim_pad (p := []) (q := []) (by simp) (by simp) hne hh hl
  simpa using this

/-! ### digits -/

theorem isSp_of_isDigit {c : UInt8} (h : isDigit c = true) : isSp c = false := by
  simp only [isDigit, Bool.and_eq_true, decide_eq_true_eq] at h
  have h1 := UInt8.le_iff_toNat_le.1 h.1
  have h2 := UInt8.le_iff_toNat_le.1 h.2
  simp only [isSp, Bool.or_eq_false_iff, Bool.and_eq_false_iff, decide_eq_false_iff_not,
    beq_eq_false_iff_ne, ne_eq]
  refine ⟨Or.inr ?_, ?_⟩
  · intro c13
    have := UInt8.le_iff_toNat_le.1 c13
    simp at h1 this; omega
  · intro e; rw [e] at h1; simp at h1

theorem digit_byte : ∀ k, k < 10 →
    isDigit (UInt8.ofNat (48 + k)) = true ∧ (UInt8.ofNat (48 + k)).toNat - 48 = k := by
  decide

theorem digitsVal_append (xs ys : Bytes) (a : Nat) :
    digitsVal (xs ++ ys) a = digitsVal ys (digitsVal xs a) := by
  induction xs generalizing a with
  | nil => rfl
  | cons x xs ih => simp only [List.cons_append, digitsVal]; exact ih _

/-- `QByteArray::number(n)`: a non-empty string of digits whose value is `n` -/
theorem natDigitsAux_spec (fuel n : Nat) (acc : Bytes) (h : n < fuel) :
    ∃ ds, natDigitsAux fuel n acc = ds ++ acc ∧ ds ≠ [] ∧ (∀ c ∈ ds, isDigit c = true) ∧
      ∀ a, digitsVal ds a = a * 10 ^ ds.length + n := by
  induction fuel generalizing n acc with
  | zero => omega
  | succ fuel ih =>
    have hd := digit_byte (n % 10) (Nat.mod_lt _ (by decide))
    unfold natDigitsAux
    simp only
    by_cases h0 : n / 10 = 0
    · rw [if_pos h0]
      refine ⟨[UInt8.ofNat (48 + n % 10)], rfl, by simp, by simpa using hd.1, fun a => ?_⟩
      simp only [digitsVal, hd.2, List.length_singleton, Nat.pow_one]
      omega
    · rw [if_neg h0]
      obtain ⟨ds, e, hne, hdig, hval⟩ := ih (n / 10) (UInt8.ofNat (48 + n % 10) :: acc) (by omega)
      refine ⟨ds ++ [UInt8.ofNat (48 + n % 10)], by rw [e]; simp, by simp, ?_, fun a => ?_⟩
      · intro c hc
        rcases List.mem_append.1 hc with hc | hc
        · exact hdig c hc
        · have : c = UInt8.ofNat (48 + n % 10) := by simpa using hc
          rw [this]; exact hd.1
      · rw [digitsVal_append, hval]
        simp only [digitsVal, hd.2, List.length_append, List.length_singleton, Nat.pow_succ,
          ← Nat.mul_assoc]
        generalize a * 10 ^ ds.length = y
        omega

theorem natDigits_spec (n : Nat) :
    natDigits n ≠ [] ∧ (∀ c ∈ natDigits n, isDigit c = true) ∧ digitsVal (natDigits n) 0 = n := by
  obtain ⟨ds, e, hne, hdig, hval⟩ := natDigitsAux_spec (n + 1) n [] (Nat.lt_succ_self _)
  unfold natDigits
  rw [e, List.append_nil]
  exact ⟨hne, hdig, by simpa using hval 0⟩

/-! ### toLongLong -/

/-- an (unsigned) string of digits, after trimming, is read as its value when it fits -/
theorem toLongLong_of_trim_digits {xs ds : Bytes} (ht : trim xs = ds) (hne : ds ≠ [])
    (hd : ∀ c ∈ ds, isDigit c = true) :
    toLongLong xs =
      if digitsVal ds 0 ≤ 9223372036854775807 then (digitsVal ds 0 : Int) else 0 := by
  unfold toLongLong
  simp only [ht]
  cases ds with
  | nil => exact absurd rfl hne
  | cons x r =>
    have hx : isDigit x = true := hd x (by simp)
    have h45 : x ≠ 45 := by rintro rfl; revert hx; decide
    have h43 : x ≠ 43 := by rintro rfl; revert hx; decide
    have hall : (x :: r).all isDigit = true := List.all_eq_true.2 hd
    split
    · rename_i r' e; cases e; exact absurd rfl h45
    · rename_i r' e; cases e; exact absurd rfl h43
    · simp [hall]

/-- a decimal numeral below 2^63 is reported as its value -/
theorem toLongLong_natDigits (n : Nat) (h : n < 2 ^ 63) : toLongLong (natDigits n) = (n : Int) := by
  obtain ⟨hne, hdig, hval⟩ := natDigits_spec n
  have ht : trim (natDigits n) = natDigits n :=
    trim_of_no_pad hne (isSp_of_isDigit (hdig _ (List.head_mem hne)))
      (isSp_of_isDigit (hdig _ (List.getLast_mem hne)))
  rw [toLongLong_of_trim_digits ht hne hdig, hval, if_pos (by omega)]

/-- the same with arbitrary white space (`\t \n \v \f \r` or space) on both sides -/
theorem toLongLong_natDigits_padded (n : Nat) (h : n < 2 ^ 63) (p q : Bytes)
    (hp : ∀ c ∈ p, isSp c = true) (hq : ∀ c ∈ q, isSp c = true) :
    toLongLong (p ++ natDigits n ++ q) = (n : Int) := by
  obtain ⟨hne, hdig, hval⟩ := natDigits_spec n
  have ht : trim (p ++ natDigits n ++ q) = natDigits n :=
    trim_pad hp hq hne (isSp_of_isDigit (hdig _ (List.head_mem hne)))
      (isSp_of_isDigit (hdig _ (List.getLast_mem hne)))
  rw [toLongLong_of_trim_digits ht hne hdig, hval, if_pos (by omega)]

/-- numerals of 2^63 and above do not fit: `toLongLong` reports 0 -/
theorem toLongLong_natDigits_overflow (n : Nat) (h : 2 ^ 63 ≤ n) : toLongLong (natDigits n) = 0 := by
  obtain ⟨hne, hdig, hval⟩ := natDigits_spec n
  have ht : trim (natDigits n) = natDigits n :=
    trim_of_no_pad hne (isSp_of_isDigit (hdig _ (List.head_mem hne)))
      (isSp_of_isDigit (hdig _ (List.getLast_mem hne)))
  rw [toLongLong_of_trim_digits ht hne hdig, hval, if_neg (by omega)]

example : toLongLong (lit [' ', '\t', '4', '2', ' ']) = 42 := by decide
example : natDigits 1234 = lit ['1', '2', '3', '4'] := by decide

end Qhttp
