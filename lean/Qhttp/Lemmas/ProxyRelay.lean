import Qhttp.Lemmas.ProxySock
/-
  C12 — the relay invariant of the proxy: whatever the positions of the turns (in particular of
  the turn at which the upstream connection completes) among the client's segments, the bytes
  that reached the upstream server are the request head followed by a prefix of what the socket
  handed out, and what is buffered or in flight is the rest.
-/
namespace Qhttp.ProxyL
open Qhttp Proxy Qhttp.C02

/-! ### projections of the history -/

/-- bytes the upstream server received (same function as `C12.upstreamBytes`) -/
def upBytes (obs : List Obs) : Bytes := obs.flatMap fun o => match o with | .misc 20 b => b | _ => []

def countEv (l : List Obs) : Nat := Obs.countP (fun o => match o with | .ev _ => true | _ => false) l

theorem upBytes_append (a b : List Obs) : upBytes (a ++ b) = upBytes a ++ upBytes b := by
  simp [upBytes]

theorem upBytes_quiet : ∀ (l : List Obs), l.all quiet0 = true → upBytes l = [] := by
  intro l
  induction l with
  | nil => intro _; rfl
  | cons o l ih =>
    intro h
    simp only [List.all_cons, Bool.and_eq_true] at h
    have := ih h.2
    cases o <;> simp_all [upBytes, quiet0]

theorem countEv_append (a b : List Obs) : countEv (a ++ b) = countEv a + countEv b := by
  simp [countEv, Obs.countP]

theorem countEv_quiet : ∀ (l : List Obs), l.all quiet0 = true → countEv l = 0 := by
  intro l
  induction l with
  | nil => intro _; rfl
  | cons o l ih =>
    intro h
    simp only [List.all_cons, Bool.and_eq_true] at h
    have := ih h.2
    cases o <;> simp_all [countEv, Obs.countP, quiet0]

theorem rdsOf_append (a b : List Obs) : rdsOf (a ++ b) = rdsOf a ++ rdsOf b := by
  simp [rdsOf]

theorem reads_eq_rdsOf : ∀ (l : List Obs), Obs.reads l = (rdsOf l).flatten := by
  intro l
  induction l with
  | nil => rfl
  | cons o l ih =>
    have e1 : Obs.reads (o :: l) = Obs.reads [o] ++ Obs.reads l := by
      rw [← reads_append]; rfl
    have e2 : rdsOf (o :: l) = rdsOf [o] ++ rdsOf l := by
      rw [← rdsOf_append]; rfl
    rw [e1, e2, List.flatten_append, ih]
    cases o <;> simp [Obs.reads, rdsOf]

theorem countHp_mono (a b : List Obs) : Obs.countP Obs.isHp a ≤ Obs.countP Obs.isHp (a ++ b) := by
  rw [countP_append]; omega

/-- the facts about `s1.log = s0.log ++ ev k :: l` with `l` free of markers / upstream obs -/
structure LogStep (s0 s1 : Sock) (k : Nat) : Prop where
  ex : ∃ l, s1.log = s0.log ++ Obs.ev k :: l ∧ l.all quiet0 = true

theorem LogStep.upBytes {s0 s1 : Sock} {k : Nat} (h : LogStep s0 s1 k) : upBytes s1.log = upBytes s0.log := by
  obtain ⟨l, e, q⟩ := h.ex
  have : Obs.ev k :: l = [Obs.ev k] ++ l := rfl
  have e0 : ProxyL.upBytes [Obs.ev k] = [] := rfl
  rw [e, this, upBytes_append, upBytes_append, upBytes_quiet l q, e0]; simp

theorem LogStep.countEv {s0 s1 : Sock} {k : Nat} (h : LogStep s0 s1 k) : countEv s1.log = countEv s0.log + 1 := by
  obtain ⟨l, e, q⟩ := h.ex
  have : Obs.ev k :: l = [Obs.ev k] ++ l := rfl
  rw [e, this, countEv_append, countEv_append, countEv_quiet l q]; simp [ProxyL.countEv, Obs.countP]

theorem LogStep.news {s0 s1 : Sock} {k : Nat} (h : LogStep s0 s1 k) :
    ∃ nw, ((rdsOf s1.log).drop (rdsOf s0.log).length).flatten = nw ∧
      Obs.reads s1.log = Obs.reads s0.log ++ nw := by
  obtain ⟨l, e, _⟩ := h.ex
  have : Obs.ev k :: l = [Obs.ev k] ++ l := rfl
  refine ⟨(rdsOf l).flatten, ?_, ?_⟩
  · rw [e, this, rdsOf_append, rdsOf_append, List.drop_left']
    · simp [rdsOf]
    · rfl
  · rw [e, this, reads_append, reads_append, reads_eq_rdsOf l]; simp [Obs.reads]

theorem LogStep.countHp {s0 s1 : Sock} {k : Nat} (h : LogStep s0 s1 k) :
    Obs.countP Obs.isHp s0.log ≤ Obs.countP Obs.isHp s1.log := by
  obtain ⟨l, e, _⟩ := h.ex
  rw [e]; exact countHp_mono _ _

/-! ### the relay part of the invariant -/

/-- the socket fields `upstreamHead` reads -/
def reqSock (rh : Parser.ReqHead) : Sock :=
  { method := rh.method, rawPath := rh.rawPath, reqHeaders := rh.headers }

theorem upstreamHead_congr (c : Cfg) (s : Sock) (rh : Parser.ReqHead)
    (h : s.method = rh.method ∧ s.rawPath = rh.rawPath ∧ s.reqHeaders = rh.headers) :
    upstreamHead c s = upstreamHead c (reqSock rh) := by
  unfold upstreamHead reqSock
  simp only [h.1, h.2.1, h.2.2]

theorem upstreamHead_ne_nil (c : Cfg) (s : Sock) : upstreamHead c s ≠ [] := by
  unfold upstreamHead
  simp [CRLF]

structure Relay (c : Cfg) (rh : Parser.ReqHead) (st : St) : Prop where
  seen : st.seenRd = (rdsOf st.sock.log).length
  fromUp : st.fromUp = []
  upClosing : st.upClosing = false
  connNone : st.conn = .none ↔ st.sock.rs = .headers
  none_ : st.conn = .none → st.buf = [] ∧ st.toUp = [] ∧ st.headersWritten = false ∧ upBytes st.sock.log = []
  connecting : st.conn = .connecting →
    st.toUp = [] ∧ st.headersWritten = false ∧ upBytes st.sock.log = [] ∧ st.buf = Obs.reads st.sock.log
  connected : st.conn = .connected →
    st.buf = [] ∧ st.headersWritten = true ∧
    ∃ d, upBytes st.sock.log = upstreamHead c (reqSock rh) ++ d ∧ d ++ st.toUp = Obs.reads st.sock.log
  notClosed : st.conn ≠ .closed

/-! ### the phases of `sockEvent` and `turn` -/

/-- `afterRoute` then `relayReads` on the state with the new socket -/
def routed (hpB : Nat) (st : St) (s1 : Sock) : St := relayReads (afterRoute hpB { st with sock := s1 })

theorem sockEvent_eq (env : Env) (st : St) (e : Event) :
    sockEvent env st e =
      routed (Obs.countP Obs.isHp st.sock.log) st (Sock.stepK env Proxy.app (st.sock, countEv st.sock.log) e).1 := rfl

/-- the connection attempt completes (nothing refuses) and what was written is delivered -/
def connectFlush (c : Cfg) (st : St) : St :=
  let st :=
    if st.conn == .connecting then
      { st with conn := .connected, headersWritten := true,
                toUp := st.toUp ++ upstreamHead c st.sock ++ st.buf, buf := [] }
    else st
  if st.conn == .connected && !st.toUp.isEmpty
  then { st with sock := { st.sock with log := st.sock.log ++ [Obs.misc 20 st.toUp] }, toUp := [] } else st

theorem routed_sock (hpB : Nat) (st : St) (s1 : Sock) : (routed hpB st s1).sock = s1 := by
  unfold routed relayReads afterRoute
  simp only []
  split <;> split <;> (try split) <;> rfl

theorem routed_relay {c : Cfg} {rh : Parser.ReqHead} {st : St} {s1 : Sock} {k : Nat}
    (hP : Relay c rh st) (hl : LogStep st.sock s1 k)
    (hp0 : Obs.countP Obs.isHp st.sock.log = if st.sock.rs = .headers then 0 else 1)
    (hp1 : Obs.countP Obs.isHp s1.log = if s1.rs = .headers then 0 else 1)
    (hrd0 : st.sock.rs = .headers → Obs.reads st.sock.log = []) :
    Relay c rh (routed (Obs.countP Obs.isHp st.sock.log) st s1) := by
  obtain ⟨nw, hnw, hreads⟩ := hl.news
  have hub := hl.upBytes
  have hmono := hl.countHp
  have hrs : st.sock.rs ≠ .headers → s1.rs ≠ .headers := by
    intro h0 h1
    rw [hp0, hp1, if_neg h0, if_pos h1] at hmono
    omega
  obtain ⟨sock, conn, buf, hw, hpd, upRead, toUp, fromUp, upClosing, errored, seenRd⟩ := st
  obtain ⟨seen, hfu, huc, hcn, hnone, hcing, hced, hncl⟩ := hP
  simp only at seen hfu huc hcn hnone hcing hced hncl hp0 hrd0 hrs hnw hreads hub hmono
  subst seen
  cases conn with
  | none =>
    have h0 : sock.rs = .headers := hcn.mp rfl
    obtain ⟨b1, b2, b3, b4⟩ := hnone rfl
    subst b1 b2 b3
    rw [if_pos h0] at hp0
    by_cases h1 : s1.rs = .headers
    · rw [if_pos h1] at hp1
      have e : routed (Obs.countP Obs.isHp sock.log)
          ⟨sock, .none, [], false, hpd, upRead, [], fromUp, upClosing, errored, (rdsOf sock.log).length⟩ s1 =
          ⟨s1, .none, [], false, hpd, upRead, [], fromUp, upClosing, errored, (rdsOf s1.log).length⟩ := by
        simp [routed, relayReads, afterRoute, hp0, hp1]
      rw [e]
      exact ⟨rfl, hfu, huc, ⟨fun _ => h1, fun _ => rfl⟩, fun _ => ⟨rfl, rfl, rfl, by rw [hub]; exact b4⟩,
        (fun h => nomatch h), (fun h => nomatch h), by simp⟩
    · rw [if_neg h1] at hp1
      have e : routed (Obs.countP Obs.isHp sock.log)
          ⟨sock, .none, [], false, hpd, upRead, [], fromUp, upClosing, errored, (rdsOf sock.log).length⟩ s1 =
          ⟨s1, .connecting, nw, false, hpd, upRead, [], fromUp, upClosing, errored, (rdsOf s1.log).length⟩ := by
        simp [routed, relayReads, afterRoute, hp0, hp1, hnw]
      rw [e]
      refine ⟨rfl, hfu, huc, ⟨(fun h => nomatch h), fun h => absurd h h1⟩, (fun h => nomatch h),
        fun _ => ⟨rfl, rfl, by rw [hub]; exact b4, ?_⟩, (fun h => nomatch h), by simp⟩
      show nw = Obs.reads s1.log
      rw [hreads, hrd0 h0]; rfl
  | connecting =>
    obtain ⟨b1, b2, b3, b4⟩ := hcing rfl
    subst b1 b2
    have h0 : sock.rs ≠ .headers := fun h => by have := hcn.mpr h; cases this
    have e : routed (Obs.countP Obs.isHp sock.log)
        ⟨sock, .connecting, buf, false, hpd, upRead, [], fromUp, upClosing, errored, (rdsOf sock.log).length⟩ s1 =
        ⟨s1, .connecting, buf ++ nw, false, hpd, upRead, [], fromUp, upClosing, errored, (rdsOf s1.log).length⟩ := by
      simp [routed, relayReads, afterRoute, hnw]
    rw [e]
    refine ⟨rfl, hfu, huc, ⟨(fun h => nomatch h), fun h => absurd h (hrs h0)⟩, (fun h => nomatch h),
      fun _ => ⟨rfl, rfl, by rw [hub]; exact b3, ?_⟩, (fun h => nomatch h), by simp⟩
    show buf ++ nw = Obs.reads s1.log
    rw [hreads, b4]
  | connected =>
    obtain ⟨b1, b2, d, b3, b4⟩ := hced rfl
    subst b1 b2
    have h0 : sock.rs ≠ .headers := fun h => by have := hcn.mpr h; cases this
    have e : routed (Obs.countP Obs.isHp sock.log)
        ⟨sock, .connected, [], true, hpd, upRead, toUp, fromUp, upClosing, errored, (rdsOf sock.log).length⟩ s1 =
        ⟨s1, .connected, [], true, hpd, upRead, toUp ++ nw, fromUp, upClosing, errored, (rdsOf s1.log).length⟩ := by
      simp [routed, relayReads, afterRoute, hnw]
    rw [e]
    refine ⟨rfl, hfu, huc, ⟨(fun h => nomatch h), fun h => absurd h (hrs h0)⟩, (fun h => nomatch h),
      (fun h => nomatch h), fun _ => ⟨rfl, rfl, d, by rw [hub]; exact b3, ?_⟩, by simp⟩
    show d ++ (toUp ++ nw) = Obs.reads s1.log
    rw [hreads, ← b4, List.append_assoc]
  | closed => exact absurd rfl hncl

end Qhttp.ProxyL
