import Qhttp.Model.FsHandler
import Qhttp.Lemmas.C03Wire
import Qhttp.Lemmas.C02C01
namespace Qhttp
namespace C08L
open Qhttp Qhttp.Sock FsHandler

/-! ### single API calls on a live socket with no pending `disconnected` -/

theorem api_status (env : Env) (app : App) {s : Sock} (ha : s.alive = true) (hd : s.dcFlag = false)
    (c : Int) (r : Option Bytes) : api env app s (.status c r) = setStatusCode s c r := by
  simp [api, apiPrim, ha, setStatusCode, hd]

theorem setHeader_replace (s : Sock) (n v : Bytes) :
    setHeader s n v true =
      { s with respHeaders := HeaderMap.insert n v (HeaderMap.remove n s.respHeaders) } := by
  simp [setHeader]

theorem api_hdr (env : Env) (app : App) {s : Sock} (ha : s.alive = true) (hd : s.dcFlag = false)
    (n v : Bytes) : api env app s (.hdr n v true) = setHeader s n v true := by
  simp [api, apiPrim, ha, setHeader_replace, hd]

theorem writeHeaders_eq {s : Sock} (hdev : s.tcp.devOpen = true) (hc : s.tcp.conn = .connected) :
    writeHeaders s =
      { s with ws := .headers, hdrRemaining := (headBytes s).length,
               tcp := { s.tcp with wire := s.tcp.wire ++ headBytes s,
                                   unacked := s.tcp.unacked + (headBytes s).length },
               log := s.log ++ [Obs.w (headBytes s)] } := by
  unfold writeHeaders
  simp only []
  rw [C03L.tcpWrite_open (by exact hdev) (by exact hc) (by exact C03L.headBytes_ne_nil s)]

theorem api_wh (env : Env) (app : App) {s : Sock} (ha : s.alive = true) (hd : s.dcFlag = false)
    (hdev : s.tcp.devOpen = true) (hc : s.tcp.conn = .connected) :
    api env app s .wh = writeHeaders s := by
  have : apiPrim env s .wh = writeHeaders s := by simp [apiPrim, ha]
  unfold api
  rw [this, writeHeaders_eq hdev hc]
  simp [hd]

/-! ### the calls `processFile` makes from `headersParsed` -/

/-- the API calls of `hpOps` for a file -/
def fileOps (r : Range) (size : Nat) (mime : Bytes) : List ApiOp :=
  (if r.isValid then
     [.status 206 none, .hdr Sock.CONTENT_LENGTH (intText r.length) true,
      .hdr CONTENT_RANGE (BYTES_SP ++ r.contentRange) true]
   else [.hdr Sock.CONTENT_LENGTH (natDigits size) true]) ++
  [.hdr Sock.CONTENT_TYPE mime true, .wh]

theorem hpOps_file {fe : FsEnv} {s : Sock} {loc : List Bytes} {r : Range}
    (hp : plan fe (s.path.drop 1) s.reqHeaders = .file loc r) :
    hpOps fe s = fileOps r (fe.content loc).length (fe.mime loc) := by
  unfold hpOps fileOps
  rw [hp]

/-- the response head fields after those calls -/
def respHdrs (r : Range) (size : Nat) (mime : Bytes) : HeaderMap :=
  if r.isValid then
    [(Sock.CONTENT_LENGTH, intText r.length), (CONTENT_RANGE, BYTES_SP ++ r.contentRange),
     (Sock.CONTENT_TYPE, mime)]
  else [(Sock.CONTENT_LENGTH, natDigits size), (Sock.CONTENT_TYPE, mime)]

def respState (s : Sock) (r : Range) (size : Nat) (mime : Bytes) : Sock :=
  { s with code := if r.isValid then 206 else s.code,
           reason := if r.isValid then statusReason 206 else s.reason,
           respHeaders := respHdrs r size mime }

theorem keyLt_CL_CR : HeaderMap.keyLt Sock.CONTENT_LENGTH CONTENT_RANGE = true := by decide
theorem keyLt_CL_CT : HeaderMap.keyLt Sock.CONTENT_LENGTH Sock.CONTENT_TYPE = true := by decide
theorem keyLt_CR_CT : HeaderMap.keyLt CONTENT_RANGE Sock.CONTENT_TYPE = true := by decide
theorem keyEq_CL_CR : HeaderMap.keyEq Sock.CONTENT_LENGTH CONTENT_RANGE = false := by decide
theorem keyEq_CL_CT : HeaderMap.keyEq Sock.CONTENT_LENGTH Sock.CONTENT_TYPE = false := by decide
theorem keyEq_CR_CT : HeaderMap.keyEq CONTENT_RANGE Sock.CONTENT_TYPE = false := by decide

theorem apis_fileOps (env : Env) (app : App) {s : Sock} (ha : s.alive = true) (hd : s.dcFlag = false)
    (hdev : s.tcp.devOpen = true) (hc : s.tcp.conn = .connected) (hrh : s.respHeaders = [])
    (r : Range) (size : Nat) (mime : Bytes) :
    apis env app s (fileOps r size mime) = writeHeaders (respState s r size mime) := by
  unfold fileOps apis
  by_cases hv : r.isValid = true
  · simp only [hv, if_true, List.cons_append, List.nil_append, List.foldl_cons, List.foldl_nil]
    rw [api_status env app ha hd]
    rw [api_hdr env app (s := setStatusCode s 206 none) ha hd]
    rw [api_hdr env app (s := setHeader (setStatusCode s 206 none) _ _ true) ha hd]
    rw [api_hdr env app (s := setHeader (setHeader (setStatusCode s 206 none) _ _ true) _ _ true) ha hd]
    rw [api_wh env app (s := setHeader (setHeader (setHeader (setStatusCode s 206 none) _ _ true) _ _ true) _ _ true)
      ha hd hdev hc]
    congr 1
    simp only [setHeader_replace, setStatusCode, respState, respHdrs, hv, if_true, hrh]
    simp [HeaderMap.insert, HeaderMap.remove, keyLt_CL_CR, keyLt_CL_CT, keyLt_CR_CT, keyEq_CL_CR,
      keyEq_CL_CT, keyEq_CR_CT]
  · simp only [hv, Bool.false_eq_true, if_false, List.cons_append, List.nil_append, List.foldl_cons, List.foldl_nil]
    rw [api_hdr env app ha hd]
    rw [api_hdr env app (s := setHeader s _ _ true) ha hd]
    rw [api_wh env app (s := setHeader (setHeader s _ _ true) _ _ true) ha hd hdev hc]
    congr 1
    simp only [setHeader_replace, respState, respHdrs, hv, Bool.false_eq_true, if_false, hrh]
    simp [HeaderMap.insert, HeaderMap.remove, keyLt_CL_CT, keyEq_CL_CT]

/-! ### the request arrives -/

/-- the socket after `new`, with the request in the transport's inbox and the marker of the
    `feed` event recorded -/
def preSock (req : Bytes) : Sock :=
  { ({} : Sock) with log := [Obs.ev 0, Obs.ev 1], initPending := true, tcp := { inbox := req } }

/-- the socket in which `headersParsed` is emitted (request without Content-Length, nothing after
    the blank line) -/
def hpSock (rh : Parser.ReqHead) (p : Bytes) (q : List (Bytes × Bytes)) : Sock :=
  { ({} : Sock) with log := [Obs.ev 0, Obs.ev 1, Obs.hp], initPending := true, method := rh.method,
                     rawPath := rh.rawPath, reqHeaders := rh.headers, path := p,
                     query := q.foldl (fun m e => Sock.qmInsert e.1 e.2 m) [], rs := .data }

/-- the socket after the `feed` event -/
def fedSock (rh : Parser.ReqHead) (p : Bytes) (q : List (Bytes × Bytes)) (r : Range) (size : Nat)
    (mime : Bytes) : Sock :=
  writeHeaders (respState (hpSock rh p q) r size mime)

/-- the bytes of the response head -/
def respHead (r : Range) (size : Nat) (mime : Bytes) : Bytes :=
  headBytes (respState ({} : Sock) r size mime)

theorem fedSock_eq (rh : Parser.ReqHead) (p : Bytes) (q : List (Bytes × Bytes)) (r : Range) (size : Nat)
    (mime : Bytes) :
    fedSock rh p q r size mime =
      { hpSock rh p q with
          code := if r.isValid then 206 else 200,
          reason := if r.isValid then statusReason 206 else lit ['O','K'],
          respHeaders := respHdrs r size mime,
          ws := .headers, hdrRemaining := (respHead r size mime).length,
          tcp := { wire := respHead r size mime, unacked := (respHead r size mime).length },
          log := [Obs.ev 0, Obs.ev 1, Obs.hp, Obs.w (respHead r size mime)] } := by
  unfold fedSock
  rw [writeHeaders_eq rfl rfl]
  have : headBytes (respState (hpSock rh p q) r size mime) = respHead r size mime := rfl
  rw [this]
  simp [respState, hpSock]

theorem readDataSlot_idle (env : Env) (app : App) (s : Sock) (ht : s.total = -1)
    (hrb : s.readBuffer = []) : readDataSlot env app s = s := by
  unfold readDataSlot
  simp [ht, hrb]

theorem onReadyRead_request (env : Env) (fe : FsEnv) (req head : Bytes) (rh : Parser.ReqHead)
    (p : Bytes) (q : List (Bytes × Bytes)) (loc : List Bytes) (r : Range)
    (hreq : breakOn CRLF2 req = some (head, []))
    (hparse : Parser.parseRequestHeaders head [] = some rh)
    (hurl : env.url rh.rawPath = some (p, q))
    (hcl : HeaderMap.contains Sock.CONTENT_LENGTH rh.headers = false)
    (hplan : plan fe (p.drop 1) rh.headers = .file loc r) :
    onReadyRead env (app fe) (preSock req) =
      fedSock rh p q r (fe.content loc).length (fe.mime loc) := by
  have hrd := C02.readHeaders_ok env (app fe)
    { ({} : Sock) with log := [Obs.ev 0, Obs.ev 1], initPending := true, readBuffer := req }
    head [] rh p q hreq hparse hurl
  have hst : C02.hpStateG
      { ({} : Sock) with log := [Obs.ev 0, Obs.ev 1], initPending := true, readBuffer := req } rh p q [] =
      { hpSock rh p q with log := [Obs.ev 0, Obs.ev 1] } := by
    unfold C02.hpStateG
    simp only [Sock.CONTENT_LENGTH_KEY, hcl]
    rfl
  rw [hst] at hrd
  have hops : (app fe).onHp { hpSock rh p q with log := [Obs.ev 0, Obs.ev 1] } =
      fileOps r (fe.content loc).length (fe.mime loc) := hpOps_file (by exact hplan)
  rw [hops] at hrd
  have hemit : emit env (app fe) { hpSock rh p q with log := [Obs.ev 0, Obs.ev 1] } .hp
      (fileOps r (fe.content loc).length (fe.mime loc)) =
      fedSock rh p q r (fe.content loc).length (fe.mime loc) := by
    unfold emit
    exact apis_fileOps env (app fe) (s := hpSock rh p q) rfl rfl rfl rfl rfl r _ _
  rw [hemit] at hrd
  unfold onReadyRead preSock
  simp only [List.nil_append]
  simp only [↓reduceIte, reduceCtorEq]
  have hrd' : readHeaders env (app fe)
      { readBuffer := req, initPending := true, log := [Obs.ev 0, Obs.ev 1] } =
      (fedSock rh p q r (fe.content loc).length (fe.mime loc), true) := hrd
  rw [hrd']
  have hrs : (fedSock rh p q r (fe.content loc).length (fe.mime loc)).rs = .data := by
    rw [fedSock_eq]; rfl
  simp only [Bool.not_true, Bool.false_eq_true, if_false, hrs]
  exact readDataSlot_idle env _ _ (by rw [fedSock_eq]; rfl) (by rw [fedSock_eq]; rfl)

/-- the state of the harness after `new` -/
def s0 : FsHandler.St := { sock := { ({} : Sock) with log := [Obs.ev 0], initPending := true } }

theorem step_new (env : Env) (fe : FsEnv) : FsHandler.step env fe {} .new = s0 := rfl

/-- the copier configuration `processFile` sets up -/
def fileCfg (fe : FsEnv) (loc : List Bytes) (r : Range) : Copier.Cfg :=
  { src := fe.content loc, block := 65536,
    range := if r.isValid then some (r.absFrom, r.absTo) else none }

theorem copierCfg_file {fe : FsEnv} {s : Sock} {loc : List Bytes} {r : Range}
    (hp : plan fe (s.path.drop 1) s.reqHeaders = .file loc r) :
    copierCfg fe s = some (fileCfg fe loc r) := by
  unfold copierCfg fileCfg
  rw [hp]

def isEv : Obs → Bool | .ev _ => true | _ => false

theorem step_nonturn (env : Env) (fe : FsEnv) (st : FsHandler.St) (e : Event) (hne : e ≠ .turn) :
    FsHandler.step env fe st e =
      afterRoute fe (Obs.countP Obs.isHp st.sock.log)
        { st with sock := (Sock.stepK env (app fe) (st.sock, Obs.countP isEv st.sock.log) e).1 } := by
  cases e <;> first | rfl | exact absurd rfl hne

theorem step_feed (env : Env) (fe : FsEnv) (req head : Bytes) (rh : Parser.ReqHead)
    (p : Bytes) (q : List (Bytes × Bytes)) (loc : List Bytes) (r : Range)
    (hreq : breakOn CRLF2 req = some (head, []))
    (hparse : Parser.parseRequestHeaders head [] = some rh)
    (hurl : env.url rh.rawPath = some (p, q))
    (hcl : HeaderMap.contains Sock.CONTENT_LENGTH rh.headers = false)
    (hplan : plan fe (p.drop 1) rh.headers = .file loc r) :
    FsHandler.step env fe s0 (.feed req) =
      { sock := fedSock rh p q r (fe.content loc).length (fe.mime loc),
        cop := some (fileCfg fe loc r, Copier.start (fileCfg fe loc r) {}),
        routed := true } := by
  have h1 : Sock.stepK env (app fe) (s0.sock, 1) (.feed req) =
      (onReadyRead env (app fe) (preSock req), 2) := rfl
  have h2 := onReadyRead_request env fe req head rh p q loc r hreq hparse hurl hcl hplan
  have h3 : FsHandler.step env fe s0 (.feed req) =
      afterRoute fe 0 { s0 with sock := (Sock.stepK env (app fe) (s0.sock, 1) (.feed req)).1 } :=
    step_nonturn env fe s0 (.feed req) (by simp)
  rw [h3, h1, h2]
  unfold afterRoute
  have hc : Obs.countP Obs.isHp (fedSock rh p q r (fe.content loc).length (fe.mime loc)).log = 1 := by
    rw [fedSock_eq]; rfl
  have hcfg : copierCfg fe (fedSock rh p q r (fe.content loc).length (fe.mime loc)) =
      some (fileCfg fe loc r) := copierCfg_file (by rw [fedSock_eq]; exact hplan)
  simp only [s0, hc, hcfg]
  rfl

/-- the bytes the copier is asked for -/
def bodyOf (fe : FsEnv) (loc : List Bytes) (r : Range) : Bytes :=
  if r.isValid then ((fe.content loc).drop r.absFrom.toNat).take (r.absTo.toNat - r.absFrom.toNat + 1)
  else fe.content loc

/-- one event-loop turn of the copier for a file not larger than one block: the requested bytes
    (if any) are handed over and the copy finishes -/
theorem copier_turn (fe : FsEnv) (loc : List Bytes) (r : Range)
    (hsize : (fe.content loc).length ≤ 65536)
    (hr : r.isValid = true → 0 ≤ r.absFrom ∧ r.absFrom ≤ r.absTo ∧ r.absTo < (fe.content loc).length) :
    (Copier.start (fileCfg fe loc r) {}).log = [] ∧
    (Copier.step (fileCfg fe loc r) (Copier.start (fileCfg fe loc r) {}) .turn).log =
      (if (bodyOf fe loc r).isEmpty then [] else [Copier.wrote (bodyOf fe loc r)]) ++ [Copier.fin] ∧
    (Copier.step (fileCfg fe loc r) (Copier.start (fileCfg fe loc r) {}) .turn).pending = .none := by
  by_cases hv : r.isValid = true
  · obtain ⟨h0, h1, h2⟩ := hr hv
    have hcfg : fileCfg fe loc r =
        { src := fe.content loc, block := 65536, range := some (r.absFrom, r.absTo) } := by
      simp [fileCfg, hv]
    have hb : bodyOf fe loc r =
        ((fe.content loc).drop r.absFrom.toNat).take (r.absTo.toNat - r.absFrom.toNat + 1) := by
      simp [bodyOf, hv]
    rw [hcfg, hb]
    generalize r.absFrom = f at *
    generalize r.absTo = t at *
    generalize fe.content loc = src at *
    have hf : f = (f.toNat : Int) := by omega
    have ht : t = (t.toNat : Int) := by omega
    generalize f.toNat = a at *
    generalize t.toNat = b at *
    subst hf ht
    have hab : a ≤ b := by omega
    have hbs : b < src.length := by omega
    have htake : ((src.drop a).take 65536) = src.drop a :=
      List.take_of_length_le (by simp; omega)
    have hstart : Copier.start { src := src, block := 65536, range := some ((a : Int), (b : Int)) } {} =
        { pos := a, connected := true, pending := .nextBlock } := by
      by_cases ha : 0 < a
      · have : ¬ src.length < a := by omega
        simp [Copier.start, Copier.rangeFrom, ha, this]
      · have : a = 0 := by omega
        subst this
        simp [Copier.start, Copier.rangeFrom]
    rw [hstart]
    have hnb : Copier.nextBlock { src := src, block := 65536, range := some ((a : Int), (b : Int)) }
        { pos := a, connected := true, pending := .none } =
        { pos := src.length, connected := true, pending := .none, reads := 1, writes := 1,
          log := [Copier.wrote ((src.drop a).take (b - a + 1)), Copier.fin] } := by
      have hlen : a + (src.length - a) = src.length := by omega
      have hpast : (b : Int) < (src.length : Int) := by omega
      have hn : ((src.length - a : Nat) : Int) - ((src.length : Int) - (b : Int) - 1) = ((b - a + 1 : Nat) : Int) := by
        omega
      have hne : (src.drop a).take (b - a + 1) ≠ [] := by
        intro e
        have := congrArg List.length e
        simp at this
        omega
      have hnn : ¬ (((b - a : Nat) : Int) + 1 < 0) := by omega
      simp [Copier.nextBlock, Copier.rangeTo, Copier.destWrite, htake, hlen, hpast, hn, hne, hnn]
    refine ⟨rfl, ?_, ?_⟩
    · show (Copier.nextBlock _ { pos := a, connected := true, pending := .none }).log = _
      rw [hnb]
      have hne : ((src.drop a).take (b - a + 1)).isEmpty = false := by
        cases hl : (src.drop a).take (b - a + 1) with
        | nil =>
          have := congrArg List.length hl
          simp at this
          omega
        | cons x l => rfl
      simp [hne]
    · show (Copier.nextBlock _ { pos := a, connected := true, pending := .none }).pending = _
      rw [hnb]
  · have hv' : r.isValid = false := by simpa using hv
    have hcfg : fileCfg fe loc r = { src := fe.content loc, block := 65536, range := none } := by
      simp [fileCfg, hv']
    have hb : bodyOf fe loc r = fe.content loc := by simp [bodyOf, hv']
    rw [hcfg, hb]
    simp [Copier.start, Copier.step, Copier.nextBlock, Copier.rangeFrom, Copier.rangeTo, Copier.destWrite,
      List.take_of_length_le hsize, show ¬ (((fe.content loc).length : Int) < 0) by omega]
/-! ### the first event-loop turn: the copier's block reaches the socket, then `close` -/

theorem api_write (env : Env) (app : App) {s : Sock} (ha : s.alive = true) (hd : s.dcFlag = false)
    (hio : s.ioOpen = true) (hws : s.ws ≠ .none) (hdev : s.tcp.devOpen = true)
    (hc : s.tcp.conn = .connected) {d : Bytes} (hne : d ≠ []) :
    api env app s (.write d) =
      { s with tcp := { s.tcp with wire := s.tcp.wire ++ d, unacked := s.tcp.unacked + d.length },
               log := s.log ++ [Obs.w d] } := by
  have h1 : apiPrim env s (.write d) = Sock.write s d := by simp [apiPrim, ha]
  have h2 : Sock.write s d = tcpWrite s d := by simp [Sock.write, hio, hws]
  unfold api
  rw [h1, h2, C03L.tcpWrite_open hdev hc hne]
  simp [hd]

theorem api_close_pending (env : Env) (app : App) {s : Sock} (ha : s.alive = true) (hd : s.dcFlag = false)
    (hdev : s.tcp.devOpen = true) (hc : s.tcp.conn = .connected) (hu : s.tcp.unacked ≠ 0) :
    api env app s .close =
      { s with ioOpen := false, qio := [], rs := .finished, ws := .finished, closeCalled := true,
               tcp := { s.tcp with devOpen := false, conn := .closing },
               log := s.log ++ [Obs.tc] } := by
  have h1 : apiPrim env s .close = Sock.close s := by simp [apiPrim, ha]
  unfold api
  rw [h1]
  simp [Sock.close, tcpClose, hdev, hc, hu, hd]

theorem relay_nil (env : Env) (app : App) (s : Sock) : relay env app s [] = s := rfl
theorem relay_wrote (env : Env) (app : App) (s : Sock) (d : Bytes) (rest : List Obs) :
    relay env app s (Copier.wrote d :: rest) = relay env app (api env app s (.write d)) rest := rfl
theorem relay_fin (env : Env) (app : App) (s : Sock) (rest : List Obs) :
    relay env app s (Copier.fin :: rest) = relay env app (api env app s .close) rest := rfl

/-- the socket after the first turn -/
def turnedSock (rh : Parser.ReqHead) (p : Bytes) (q : List (Bytes × Bytes)) (r : Range) (size : Nat)
    (mime body : Bytes) : Sock :=
  { hpSock rh p q with
      code := if r.isValid then 206 else 200,
      reason := if r.isValid then statusReason 206 else lit ['O','K'],
      respHeaders := respHdrs r size mime,
      ws := .finished, rs := .finished, hdrRemaining := (respHead r size mime).length,
      initPending := false, ioOpen := false, closeCalled := true,
      tcp := { wire := respHead r size mime ++ body,
               unacked := (respHead r size mime).length + body.length,
               devOpen := false, conn := .closing },
      log := [Obs.ev 0, Obs.ev 1, Obs.hp, Obs.w (respHead r size mime), Obs.ev 2] ++
             (if body.isEmpty then [] else [Obs.w body]) ++ [Obs.tc] }

theorem respHead_ne_nil (r : Range) (size : Nat) (mime : Bytes) : respHead r size mime ≠ [] :=
  C03L.headBytes_ne_nil _

theorem relay_first (env : Env) (fe : FsEnv) (rh : Parser.ReqHead) (p : Bytes) (q : List (Bytes × Bytes))
    (r : Range) (size : Nat) (mime body : Bytes) :
    relay env (app fe)
      { fedSock rh p q r size mime with
          initPending := false,
          log := [Obs.ev 0, Obs.ev 1, Obs.hp, Obs.w (respHead r size mime), Obs.ev 2] }
      ((if body.isEmpty then [] else [Copier.wrote body]) ++ [Copier.fin]) =
    turnedSock rh p q r size mime body := by
  rw [fedSock_eq]
  have hH := respHead_ne_nil r size mime
  have hlen : (respHead r size mime).length ≠ 0 := by
    intro e; exact hH (List.length_eq_zero_iff.1 e)
  by_cases hb : body.isEmpty = true
  · have : body = [] := List.isEmpty_iff.1 hb
    subst this
    simp only [List.isEmpty_nil, if_true, List.nil_append]
    rw [relay_fin, relay_nil, api_close_pending env (app fe) rfl rfl rfl rfl (by exact hlen)]
    simp [turnedSock, hpSock]
  · have hne : body ≠ [] := by intro e; rw [e] at hb; exact hb rfl
    simp only [hb, Bool.false_eq_true, if_false, List.cons_append, List.nil_append]
    rw [relay_wrote, api_write env (app fe) rfl rfl rfl (by simp) rfl rfl hne]
    rw [relay_fin, relay_nil, api_close_pending env (app fe) rfl rfl rfl rfl
      (by show (respHead r size mime).length + body.length ≠ 0; omega)]
    simp [turnedSock, hpSock, hb]

theorem onReadyRead_data_idle (env : Env) (app : App) (s : Sock) (hrs : s.rs = .data)
    (hrb : s.readBuffer = []) (hin : s.tcp.inbox = []) (ht : s.total = -1) :
    onReadyRead env app s = s := by
  rcases s with ⟨⟨inbox, wire, unacked, devOpen, conn⟩, readBuffer, qio, rs, method, rawPath, path, query,
    reqHeaders, dataRead, total, ws, code, reason, respHeaders, hdrRemaining, ioOpen, initPending,
    closeCalled, dcFlag, delPending, alive, log⟩
  simp only at hrs hrb hin ht
  subst hrs hrb hin ht
  cases devOpen <;> simp [onReadyRead, readDataSlot]

/-- the socket at the start of an event-loop turn: the marker is recorded and the queued initial
    read (which finds nothing) is done -/
def turnSock (s : Sock) : Sock :=
  { s with initPending := false, log := s.log ++ [Obs.ev (Obs.countP isEv s.log)] }

/-- an event-loop turn of the harness once the request is routed, when the queued read is idle -/
theorem turn_eq (env : Env) (fe : FsEnv) (sock : Sock) (cfg : Copier.Cfg) (cs : Copier.St)
    (ha : sock.alive = true)
    (hidle : onReadyRead env (app fe) (turnSock sock) = turnSock sock) :
    FsHandler.turn env fe { sock := sock, cop := some (cfg, cs), routed := true } =
      { sock :=
          (let s2 := relay env (app fe) (turnSock sock) ((Copier.step cfg cs .turn).log.drop cs.log.length)
           if s2.delPending then { s2 with alive := false, delPending := false, log := s2.log ++ [Obs.del] }
           else s2),
        cop := some (cfg, Copier.step cfg cs .turn), routed := true } := by
  unfold FsHandler.turn
  simp only []
  rw [if_neg (by simp [ha])]
  simp only [Bool.not_true, Bool.false_eq_true, if_false, afterRoute, Bool.false_and]
  generalize hk : Obs.countP _ sock.log = k
  have hk' : k = Obs.countP isEv sock.log := by rw [← hk]; rfl
  subst hk'
  by_cases hi : sock.initPending = true
  · have e : ({ sock with log := sock.log ++ [Obs.ev (Obs.countP isEv sock.log)], initPending := false } : Sock) =
        turnSock sock := rfl
    rw [if_pos hi, e, hidle]
  · have e : ({ sock with log := sock.log ++ [Obs.ev (Obs.countP isEv sock.log)] } : Sock) =
        turnSock sock := by
      have : sock.initPending = false := by simpa using hi
      unfold turnSock
      rw [← this]
    rw [if_neg hi, e]

/-- the same when no copier exists (404 and directory responses) -/
theorem turn_eq_none (env : Env) (fe : FsEnv) (sock : Sock)
    (ha : sock.alive = true)
    (hidle : onReadyRead env (app fe) (turnSock sock) = turnSock sock) :
    FsHandler.turn env fe { sock := sock, cop := none, routed := true } =
      { sock :=
          (if (turnSock sock).delPending then
             { turnSock sock with alive := false, delPending := false, log := (turnSock sock).log ++ [Obs.del] }
           else turnSock sock),
        cop := none, routed := true } := by
  unfold FsHandler.turn
  simp only []
  rw [if_neg (by simp [ha])]
  simp only [Bool.not_true, Bool.false_eq_true, if_false, afterRoute, Bool.false_and]
  generalize hk : Obs.countP _ sock.log = k
  have hk' : k = Obs.countP isEv sock.log := by rw [← hk]; rfl
  subst hk'
  by_cases hi : sock.initPending = true
  · have e : ({ sock with log := sock.log ++ [Obs.ev (Obs.countP isEv sock.log)], initPending := false } : Sock) =
        turnSock sock := rfl
    rw [if_pos hi, e, hidle]
  · have e : ({ sock with log := sock.log ++ [Obs.ev (Obs.countP isEv sock.log)] } : Sock) =
        turnSock sock := by
      have : sock.initPending = false := by simpa using hi
      unfold turnSock
      rw [← this]
    rw [if_neg hi, e]

theorem turnSock_fedSock (rh : Parser.ReqHead) (p : Bytes) (q : List (Bytes × Bytes)) (r : Range)
    (size : Nat) (mime : Bytes) :
    turnSock (fedSock rh p q r size mime) =
      { fedSock rh p q r size mime with
          initPending := false,
          log := [Obs.ev 0, Obs.ev 1, Obs.hp, Obs.w (respHead r size mime), Obs.ev 2] } := by
  rw [fedSock_eq]; rfl

theorem turn_first (env : Env) (fe : FsEnv) (rh : Parser.ReqHead) (p : Bytes) (q : List (Bytes × Bytes))
    (r : Range) (size : Nat) (mime body : Bytes) (cfg : Copier.Cfg) (cs0 : Copier.St)
    (hl0 : cs0.log = [])
    (hl1 : (Copier.step cfg cs0 .turn).log =
      (if body.isEmpty then [] else [Copier.wrote body]) ++ [Copier.fin]) :
    FsHandler.turn env fe { sock := fedSock rh p q r size mime, cop := some (cfg, cs0), routed := true } =
      { sock := turnedSock rh p q r size mime body, cop := some (cfg, Copier.step cfg cs0 .turn),
        routed := true } := by
  have hidle : onReadyRead env (app fe) (turnSock (fedSock rh p q r size mime)) =
      turnSock (fedSock rh p q r size mime) := by
    apply onReadyRead_data_idle <;> (rw [turnSock_fedSock, fedSock_eq]; try rfl)
  rw [turn_eq env fe _ cfg cs0 (by rw [fedSock_eq]; try rfl) hidle]
  rw [hl0, hl1, List.length_nil, List.drop_zero, turnSock_fedSock, relay_first]
  rfl

/-! ### after the transport was closed: nothing more reaches the wire -/

structure TInv (W : List Bytes) (st : FsHandler.St) : Prop where
  shut : C03L.Shut st.sock
  routed : st.routed = true
  cop : ∀ cfg cs, st.cop = some (cfg, cs) → cs.pending = .none
  chunks : C03L.chunks st.sock.log = W

theorem quietApp_fs (fe : FsEnv) : C03L.QuietApp (app fe) :=
  C03L.quietApp_of_nil fun _ => ⟨rfl, rfl⟩

theorem turn_dead (env : Env) (fe : FsEnv) (st : FsHandler.St) (ha : st.sock.alive = false) :
    FsHandler.turn env fe st = st := by
  unfold FsHandler.turn
  simp only []
  rw [if_pos (by simp [ha])]

theorem copier_idle (cfg : Copier.Cfg) (cs : Copier.St) (h : cs.pending = .none) :
    Copier.step cfg cs .turn = cs := by
  simp [Copier.step, h]

/-- deferred deletion -/
def delStep (s : Sock) : Sock := { s with alive := false, delPending := false, log := s.log ++ [Obs.del] }

theorem tinv_step (env : Env) (fe : FsEnv) {W : List Bytes} {st : FsHandler.St} (h : TInv W st)
    {e : Event} (he : C03L.allowedEv e = true) : TInv W (FsHandler.step env fe st e) := by
  obtain ⟨sock, cop, routed⟩ := st
  obtain ⟨hs, hr, hcop, hw⟩ := h
  simp only at hs hr hcop hw
  subst hr
  by_cases hturn : e = .turn
  · subst hturn
    have e0 : FsHandler.step env fe { sock := sock, cop := cop, routed := true } .turn =
        FsHandler.turn env fe { sock := sock, cop := cop, routed := true } := rfl
    rw [e0]
    by_cases ha : sock.alive = true
    · have hidle : onReadyRead env (app fe) (turnSock sock) = turnSock sock :=
        C03L.onReadyRead_idle env (app fe) _ hs.rb hs.inbox hs.rs
      have hs1 : C03L.Shut (turnSock sock) :=
        hs.of_eq rfl hs.rs (hs.logShut.snoc rfl)
      have hw1 : C03L.chunks (turnSock sock).log = W := by
        show C03L.chunks (sock.log ++ [Obs.ev _]) = W
        rw [C03L.chunks_ev]; exact hw
      have hdel : C03L.Shut (delStep (turnSock sock)) ∧
          C03L.chunks ((turnSock sock).log ++ [Obs.del]) = W := by
        refine ⟨hs1.of_eq rfl hs1.rs (hs1.logShut.snoc rfl), ?_⟩
        rw [C03L.chunks_append, hw1]; simp [C03L.chunks]
      cases cop with
      | none =>
        rw [turn_eq_none env fe sock ha hidle]
        by_cases hd : (turnSock sock).delPending = true
        · rw [if_pos hd]
          exact ⟨hdel.1, rfl, fun _ _ h => (by cases h), hdel.2⟩
        · rw [if_neg hd]
          exact ⟨hs1, rfl, fun _ _ h => (by cases h), hw1⟩
      | some cc =>
        obtain ⟨cfg, cs⟩ := cc
        have hp := hcop cfg cs rfl
        rw [turn_eq env fe sock cfg cs ha hidle, copier_idle cfg cs hp]
        simp only [List.drop_length, relay_nil]
        by_cases hd : (turnSock sock).delPending = true
        · rw [if_pos hd]
          exact ⟨hdel.1, rfl, hcop, hdel.2⟩
        · rw [if_neg hd]
          exact ⟨hs1, rfl, hcop, hw1⟩
    · have ha' : sock.alive = false := by simpa using ha
      rw [turn_dead env fe _ ha']
      exact ⟨hs, rfl, hcop, hw⟩
  · rw [step_nonturn env fe _ e hturn]
    obtain ⟨h1, h2, _⟩ := C03L.shut_stepK (quietApp_fs fe) env (Obs.countP isEv sock.log) hs he
    unfold afterRoute
    simp only [Bool.not_true, Bool.false_and, Bool.false_eq_true, if_false]
    exact ⟨h1, rfl, hcop, by rw [h2]; exact hw⟩

theorem tinv_foldl (env : Env) (fe : FsEnv) {W : List Bytes} (tail : List Event)
    (ht : tail.all C03L.allowedEv = true) :
    ∀ {st : FsHandler.St}, TInv W st → TInv W (tail.foldl (FsHandler.step env fe) st) := by
  induction tail with
  | nil => intro st h; exact h
  | cons e tail ih =>
    intro st h
    rw [List.all_cons, Bool.and_eq_true] at ht
    exact ih ht.2 (tinv_step env fe h ht.1)

theorem shut_turnedSock (rh : Parser.ReqHead) (p : Bytes) (q : List (Bytes × Bytes)) (r : Range)
    (size : Nat) (mime body : Bytes) : C03L.Shut (turnedSock rh p q r size mime body) := by
  refine ⟨⟨rfl, rfl, rfl, by simp [turnedSock]⟩, rfl, rfl, ?_⟩
  show C03L.LogShut (([Obs.ev 0, Obs.ev 1, Obs.hp, Obs.w (respHead r size mime), Obs.ev 2] ++
      (if body.isEmpty then [] else [Obs.w body])) ++ [Obs.tc])
  apply C03L.LogOpen.close
  intro o ho
  by_cases hb : body.isEmpty = true
  · simp only [hb, if_true, List.append_nil] at ho
    simp only [List.mem_cons, List.not_mem_nil, or_false] at ho
    rcases ho with rfl | rfl | rfl | rfl | rfl <;> rfl
  · simp only [hb, Bool.false_eq_true, if_false] at ho
    simp only [List.cons_append, List.nil_append, List.mem_cons, List.not_mem_nil, or_false] at ho
    rcases ho with rfl | rfl | rfl | rfl | rfl | rfl <;> rfl

theorem chunks_turnedSock (rh : Parser.ReqHead) (p : Bytes) (q : List (Bytes × Bytes)) (r : Range)
    (size : Nat) (mime body : Bytes) :
    (C03L.chunks (turnedSock rh p q r size mime body).log).flatten = respHead r size mime ++ body := by
  show (C03L.chunks (([Obs.ev 0, Obs.ev 1, Obs.hp, Obs.w (respHead r size mime), Obs.ev 2] ++
      (if body.isEmpty then [] else [Obs.w body])) ++ [Obs.tc])).flatten = _
  by_cases hb : body.isEmpty = true
  · have : body = [] := List.isEmpty_iff.1 hb
    subst this
    simp [C03L.chunks]
  · simp [hb, C03L.chunks]

/-- **the composed run**: a complete request for a file not larger than one copy block, one
    event-loop turn, then any acknowledgements / further turns: the bytes on the wire are the
    response head followed by exactly the requested bytes of the file -/
theorem run_wire (env : Env) (fe : FsEnv) (req head : Bytes) (rh : Parser.ReqHead)
    (p : Bytes) (q : List (Bytes × Bytes)) (loc : List Bytes) (r : Range) (tail : List Event)
    (hreq : breakOn CRLF2 req = some (head, []))
    (hparse : Parser.parseRequestHeaders head [] = some rh)
    (hurl : env.url rh.rawPath = some (p, q))
    (hcl : HeaderMap.contains Sock.CONTENT_LENGTH rh.headers = false)
    (hplan : plan fe (p.drop 1) rh.headers = .file loc r)
    (hsize : (fe.content loc).length ≤ 65536)
    (hr : r.isValid = true → 0 ≤ r.absFrom ∧ r.absFrom ≤ r.absTo ∧ r.absTo < (fe.content loc).length)
    (ht : tail.all C03L.allowedEv = true) :
    Obs.wire (FsHandler.run env fe (.new :: .feed req :: .turn :: tail)).sock.log =
      respHead r (fe.content loc).length (fe.mime loc) ++ bodyOf fe loc r := by
  obtain ⟨hl0, hl1, hpend⟩ := copier_turn fe loc r hsize hr
  have h1 := step_feed env fe req head rh p q loc r hreq hparse hurl hcl hplan
  have h2 := turn_first env fe rh p q r (fe.content loc).length (fe.mime loc) (bodyOf fe loc r)
    (fileCfg fe loc r) (Copier.start (fileCfg fe loc r) {}) hl0 hl1
  have hrun : FsHandler.run env fe (.new :: .feed req :: .turn :: tail) =
      tail.foldl (FsHandler.step env fe)
        { sock := turnedSock rh p q r (fe.content loc).length (fe.mime loc) (bodyOf fe loc r),
          cop := some (fileCfg fe loc r,
            Copier.step (fileCfg fe loc r) (Copier.start (fileCfg fe loc r) {}) .turn),
          routed := true } := by
    unfold FsHandler.run
    rw [List.foldl_cons, step_new, List.foldl_cons, h1, List.foldl_cons]
    have e0 : ∀ st, FsHandler.step env fe st .turn = FsHandler.turn env fe st := fun _ => rfl
    rw [e0, h2]
  rw [hrun]
  have hinv : TInv (C03L.chunks (turnedSock rh p q r (fe.content loc).length (fe.mime loc) (bodyOf fe loc r)).log)
      { sock := turnedSock rh p q r (fe.content loc).length (fe.mime loc) (bodyOf fe loc r),
        cop := some (fileCfg fe loc r,
          Copier.step (fileCfg fe loc r) (Copier.start (fileCfg fe loc r) {}) .turn),
        routed := true } :=
    ⟨shut_turnedSock _ _ _ _ _ _ _, rfl, fun _ _ h => (by cases h; exact hpend), rfl⟩
  have hfin := tinv_foldl env fe tail ht hinv
  rw [C03L.wire_eq_chunks, hfin.chunks, chunks_turnedSock]

end C08L
end Qhttp
