import Qhttp.Lemmas.C19Step
/-
  C19, part 5: nothing is routed after the close.

  `rac l` ("routed after close", same body as `C19.routedAfterClose`): some `hp` or `rt` follows the
  first `tc` of the history.  The invariant `A`:
      rac s.log = false  ∧  (s.rs = .headers → no `tc` in s.log)
  `tc` is recorded only by `tcpClose`, reached only through `Sock.close`, which leaves `.headers`
  first; `hp` is recorded only by `readHeaders`, which runs only in `.headers`; `rs` never returns
  to `.headers`.  The one `rt` note of the `headersParsed` slot has to be its FIRST call: then it is
  recorded right after `hp`, when the history still has no `tc`.  (A slot `[.close, .note (.rt …)]`
  records `rt` after `tc`: see `C19.cxApp` in Props/C19.lean.)

  The API frame rule of C19Api (`ApiClosed`) has `tcpClose` as a generator, which in isolation
  does not preserve `A`; so the rule is restated here with `Sock.close` as the generator.
-/
namespace Qhttp.C19L
open Qhttp Qhttp.Obs Qhttp.Sock

/-- an observation of a request being handed to the application -/
def rtd (o : Obs) : Bool := isHp o || isRt o

/-- some `hp`/`rt` from the first `tc` on -/
def rac (l : List Obs) : Bool := (l.dropWhile (fun o => !isTc o)).any rtd

theorem rac_nil : rac [] = false := rfl

theorem any_dropWhile_false {p f : Obs → Bool} (t : List Obs) (h : t.any f = false) :
    (t.dropWhile p).any f = false := by
  induction t with
  | nil => rfl
  | cons x t ih =>
    simp only [List.any_cons, Bool.or_eq_false_iff] at h
    rw [List.dropWhile_cons]
    split
    · exact ih h.2
    · simp only [List.any_cons, Bool.or_eq_false_iff]; exact h

/-- a history without `tc` has nothing after the close, whatever follows later is judged alone -/
theorem rac_append_noTc (l t : List Obs) (h : l.any isTc = false) : rac (l ++ t) = rac t := by
  induction l with
  | nil => rfl
  | cons x l ih =>
    simp only [List.any_cons, Bool.or_eq_false_iff] at h
    have := ih h.2
    simp only [rac, List.cons_append, List.dropWhile_cons, h.1, Bool.not_false, ↓reduceIte] at this ⊢
    exact this

theorem rac_of_noTc (l : List Obs) (h : l.any isTc = false) : rac l = false := by
  have := rac_append_noTc l [] h
  rw [List.append_nil] at this
  exact this

/-- appending observations that are neither `hp` nor `rt` keeps `rac` false -/
theorem rac_append (l t : List Obs) (h : rac l = false) (ht : t.any rtd = false) :
    rac (l ++ t) = false := by
  induction l with
  | nil => exact any_dropWhile_false t ht
  | cons x l ih =>
    by_cases hx : isTc x = true
    · simp only [rac, List.cons_append, List.dropWhile_cons, hx, Bool.not_true,
        Bool.false_eq_true, ↓reduceIte] at h ⊢
      rw [← List.cons_append, List.any_append, h, ht]; rfl
    · have hx' : isTc x = false := by simpa using hx
      simp only [rac, List.cons_append, List.dropWhile_cons, hx', Bool.not_false, ↓reduceIte] at h ⊢
      exact ih h

theorem rac_snoc (l : List Obs) (o : Obs) (h : rac l = false) (ho : rtd o = false) :
    rac (l ++ [o]) = false :=
  rac_append l [o] h (by simp [ho])

theorem quiet_rtd {o : Obs} (h : quiet o = true) : rtd o = false ∧ isTc o = false := by
  obtain ⟨q1, q2, _, q4, _, _⟩ := quiet_facts h
  exact ⟨by simp [rtd, q1, q2], q4⟩

/-- the invariant -/
def A (s : Sock) : Prop := rac s.log = false ∧ (s.rs = .headers → s.log.any isTc = false)

theorem A_init : A ({} : Sock) := ⟨rfl, fun _ => rfl⟩

theorem A_same {s s' : Sock} (hs : Same s s') (h : A s) : A s' := by
  unfold A; rw [hs.l]; exact ⟨h.1, fun x => h.2 (hs.r x)⟩

/-- appending an observation that is neither `hp`, `rt` nor `tc` -/
theorem A_snoc {s : Sock} (o : Obs) (ho : rtd o = false) (ht : isTc o = false) (h : A s) :
    A { s with log := s.log ++ [o] } := by
  refine ⟨rac_snoc _ _ h.1 ho, fun hr => ?_⟩
  show (s.log ++ [o]).any isTc = false
  simp [h.2 hr, ht]

theorem A_tcpWrite {s : Sock} (b : Bytes) (h : A s) : A (tcpWrite s b) := by
  unfold tcpWrite
  split
  · have := A_snoc (.w b) rfl rfl h
    exact ⟨this.1, this.2⟩
  · exact h

theorem tcpClose_log (s : Sock) :
    ((tcpClose s).log = s.log ∨ (tcpClose s).log = s.log ++ [.tc]) ∧ (tcpClose s).rs = s.rs := by
  unfold tcpClose; split
  · exact ⟨Or.inl rfl, rfl⟩
  · dsimp only; split
    · split <;> exact ⟨Or.inr rfl, rfl⟩
    · exact ⟨Or.inr rfl, rfl⟩

/-- `Socket::close` leaves `.headers` before the transport is shut -/
theorem A_close {s : Sock} (h : A s) : A (close s) := by
  unfold close
  extract_lets s1
  have h1 : rac s1.log = false := h.1
  have hr : s1.rs = .finished := rfl
  obtain ⟨hl, hrs⟩ := tcpClose_log s1
  refine ⟨?_, fun x => ?_⟩
  · rcases hl with e | e <;> rw [e]
    · exact h1
    · exact rac_snoc _ _ h1 rfl
  · rw [hrs, hr] at x; cases x

/-- frame rule with `Sock.close` as the generator for shutting the transport -/
structure ApiClosedC (P : Sock → Prop) : Prop where
  same : ∀ s s', Same s s' → P s → P s'
  tw : ∀ s b, P s → P (tcpWrite s b)
  cl : ∀ s, P s → P (close s)
  note : ∀ s o, quiet o = true → P s → P { s with log := s.log ++ [o] }

section
variable {P : Sock → Prop} (hP : ApiClosedC P)
include hP

theorem setStatusCode_closedC {s : Sock} (c : Int) (r : Option Bytes) (h : P s) :
    P (setStatusCode s c r) :=
  hP.same s _ ⟨rfl, rfl, rfl, rfl, rfl, id⟩ h

theorem setHeader_closedC {s : Sock} (n v : Bytes) (r : Bool) (h : P s) :
    P (setHeader s n v r) := by
  unfold setHeader
  split <;> exact hP.same s _ ⟨rfl, rfl, rfl, rfl, rfl, id⟩ h

theorem writeHeaders_closedC {s : Sock} (h : P s) : P (writeHeaders s) := by
  unfold writeHeaders
  exact hP.tw _ _ (hP.same s _ ⟨rfl, rfl, rfl, rfl, rfl, id⟩ h)

theorem write_closedC {s : Sock} (b : Bytes) (h : P s) : P (write s b) := by
  unfold write
  split
  · exact h
  · apply hP.tw
    split
    · exact writeHeaders_closedC hP h
    · exact h

theorem writeRedirect_closedC {s : Sock} (p : Bytes) (pm : Bool) (h : P s) :
    P (writeRedirect s p pm) := by
  unfold writeRedirect
  exact hP.cl _ (writeHeaders_closedC hP (setHeader_closedC hP _ _ _
    (setStatusCode_closedC hP _ _ h)))

theorem writeError_closedC (env : Env) {s : Sock} (c : Int) (r : Option Bytes) (h : P s) :
    P (writeError env s c r) := by
  unfold writeError
  exact hP.cl _ (write_closedC hP _ (writeHeaders_closedC hP (setHeader_closedC hP _ _ _
    (setHeader_closedC hP _ _ _ (setStatusCode_closedC hP _ _ h)))))

theorem writeJson_closedC {s : Sock} (b : Bytes) (c : Int) (h : P s) :
    P (writeJson s b c) := by
  unfold writeJson
  exact hP.cl _ (write_closedC hP _ (setHeader_closedC hP _ _ _
    (setHeader_closedC hP _ _ _ (setStatusCode_closedC hP _ _ h))))

end

/-- a quiet API call preserves every `ApiClosedC` predicate -/
theorem apiPrim_closedC {P : Sock → Prop} (hP : ApiClosedC P) (env : Env) {s : Sock} {op : ApiOp}
    (hq : qOp op = true) (h : P s) : P (apiPrim env s op) := by
  unfold apiPrim
  split
  · exact h
  · cases op with
    | read n => exact hP.note _ _ rfl (hP.same _ _ (read_same s n) h)
    | readAll => exact hP.note _ _ rfl (hP.same _ _ (readAll_same s) h)
    | avail => exact hP.note _ _ rfl h
    | snap => exact hP.note _ _ rfl h
    | status c r => exact setStatusCode_closedC hP _ _ h
    | hdr n v r => exact setHeader_closedC hP _ _ _ h
    | hdrs m => exact hP.same s _ ⟨rfl, rfl, rfl, rfl, rfl, id⟩ h
    | wh => exact writeHeaders_closedC hP h
    | write bs => exact write_closedC hP _ h
    | err c r => exact writeError_closedC hP env _ _ h
    | redir p pm => exact writeRedirect_closedC hP _ _ h
    | json bd c => exact writeJson_closedC hP _ _ h
    | close => exact hP.cl _ h
    | note o => exact hP.note _ _ hq h

theorem foldl_apiPrim_closedC {P : Sock → Prop} (hP : ApiClosedC P) (env : Env) (ops : List ApiOp)
    (hq : ops.all qOp = true) {s : Sock} (h : P s) : P (ops.foldl (apiPrim env) s) := by
  induction ops generalizing s with
  | nil => exact h
  | cons op ops ih =>
    simp only [List.all_cons, Bool.and_eq_true] at hq
    exact ih hq.2 (apiPrim_closedC hP env hq.1 h)

theorem A_closedC : ApiClosedC A where
  same := fun _ _ hs h => A_same hs h
  tw := fun _ b h => A_tcpWrite b h
  cl := fun _ h => A_close h
  note := fun _ o ho h => A_snoc o (quiet_rtd ho).1 (quiet_rtd ho).2 h

/-! ### signals -/

variable {env : Env} {app : App} {s : Sock}

/-- only the quiet reactions of the application matter outside the `headersParsed` slot -/
structure AppQ (app : App) : Prop where
  rr  : ∀ s, (app.onRr s).all qOp = true
  rcf : ∀ s, (app.onRcf s).all qOp = true
  bw  : ∀ s, (app.onBw s).all qOp = true
  dc  : ∀ s, (app.onDc s).all qOp = true

theorem AppOK.toQ (h : AppOK app) : AppQ app := ⟨h.rr, h.rcf, h.bw, h.dc⟩

theorem emitDc_A (happ : AppQ app) (h : A s) : A (emitDc env app s) := by
  unfold emitDc
  dsimp only
  have h1 : A { s with dcFlag := false, log := s.log ++ [.dc] } := by
    have := A_snoc .dc rfl rfl h
    exact ⟨this.1, this.2⟩
  have h3 := foldl_apiPrim_closedC A_closedC env
    (app.onDc { s with dcFlag := false, log := s.log ++ [.dc] }) (happ.dc _) h1
  generalize List.foldl (apiPrim env) _ _ = s2 at h3 ⊢
  exact ⟨h3.1, h3.2⟩

theorem fin_A (happ : AppQ app) (h : A s) :
    A (if s.dcFlag = true then emitDc env app s else s) := by
  split
  · exact emitDc_A happ h
  · exact h

theorem api_A (happ : AppQ app) {op : ApiOp} (hq : qOp op = true) (h : A s) :
    A (api env app s op) := by
  unfold api
  exact fin_A happ (apiPrim_closedC A_closedC env hq h)

theorem apis_A (happ : AppQ app) (ops : List ApiOp) (hq : ops.all qOp = true) (h : A s) :
    A (apis env app s ops) := by
  unfold apis
  induction ops generalizing s with
  | nil => exact h
  | cons op ops ih =>
    simp only [List.all_cons, Bool.and_eq_true] at hq
    exact ih hq.2 (api_A happ hq.1 h)

theorem emit_A (happ : AppQ app) {o : Obs} (ho : quiet o = true) (ops : List ApiOp)
    (hq : ops.all qOp = true) (h : A s) : A (emit env app s o ops) := by
  unfold emit
  refine apis_A happ ops hq ?_
  have := A_snoc o (quiet_rtd ho).1 (quiet_rtd ho).2 h
  exact ⟨this.1, this.2⟩

/-- the `headersParsed` slot: a routing note may only be the first call -/
def hpFirst (ops : List ApiOp) : Bool :=
  match ops with
  | [] => true
  | op :: rest => hOp op && rest.all qOp

/-- `headersParsed` in a state that has left `.headers`, whose history has no `tc` yet -/
theorem hp_A (happ : AppQ app) (ops : List ApiOp) (hops : hpFirst ops = true)
    (hr : s.rs ≠ .headers) (hn : s.log.any isTc = false) : A (emit env app s .hp ops) := by
  unfold emit
  have hn1 : (s.log ++ [Obs.hp]).any isTc = false := by simp [hn, isTc]
  have h1 : A { s with log := s.log ++ [.hp] } :=
    ⟨rac_of_noTc _ hn1, fun x => absurd x hr⟩
  cases ops with
  | nil => exact h1
  | cons op rest =>
    simp only [hpFirst, Bool.and_eq_true] at hops
    obtain ⟨h0, hrest⟩ := hops
    unfold apis
    rw [List.foldl_cons]
    refine apis_A happ rest hrest ?_
    by_cases hrt : rtNote op = true
    · have : ∃ a b, op = .note (.rt a b) := by
        cases op <;> simp [rtNote] at hrt
        rename_i o; cases o <;> simp at hrt
        exact ⟨_, _, rfl⟩
      obtain ⟨a, b, rfl⟩ := this
      unfold api
      apply fin_A happ
      unfold apiPrim
      split
      · exact h1
      · refine ⟨rac_of_noTc _ ?_, fun x => absurd x hr⟩
        show (s.log ++ [Obs.hp] ++ [Obs.rt a b]).any isTc = false
        simp [hn, isTc]
    · have hqo : qOp op = true := by
        simp only [hOp, Bool.or_eq_true] at h0
        rcases h0 with h' | h'
        · exact absurd h' hrt
        · exact h'
      exact api_A happ hqo h1

/-! ### private slots -/

theorem readHeaders_A (happ : AppQ app) (hhp : ∀ s, hpFirst (app.onHp s) = true) (h : A s)
    (hr : s.rs = .headers) : A (readHeaders env app s).1 := by
  have hbad : A (if (writeError env s 400 none).dcFlag = true
      then emitDc env app (writeError env s 400 none) else writeError env s 400 none) :=
    fin_A happ (writeError_closedC A_closedC env _ _ h)
  unfold readHeaders
  split
  · exact h
  · dsimp only
    split
    · exact hbad
    · split
      · exact hbad
      · apply hp_A happ _ (hhp _)
        · split <;> simp
        · split <;> exact h.2 hr

theorem readDataSlot_A (happ : AppQ app) (h : A s) : A (readDataSlot env app s) := by
  unfold readDataSlot
  extract_lets s1 s2
  have h1 : A s1 := by
    simp only [s1]; split
    · exact A_same ⟨rfl, rfl, rfl, rfl, rfl, id⟩ h
    · exact h
  have h2 : A s2 := by
    simp only [s2]; split
    · exact emit_A happ rfl _ (happ.rr _) h1
    · exact h1
  split
  · exact emit_A happ rfl _ (happ.rcf _)
      (A_same (s := s2) ⟨rfl, rfl, rfl, rfl, rfl, fun x => by simp at x⟩ h2)
  · exact h2

theorem onReadyRead_A (happ : AppQ app) (hhp : ∀ s, hpFirst (app.onHp s) = true) (h : A s) :
    A (onReadyRead env app s) := by
  unfold onReadyRead
  split
  · split
    · exact A_same ⟨rfl, rfl, rfl, rfl, rfl, id⟩ h
    · exact h
  · extract_lets src s1
    have h1 : A s1 := by
      simp only [s1, src]; split
      · exact A_same ⟨rfl, rfl, rfl, rfl, rfl, id⟩ h
      · exact h
    have h2 : A (if s1.rs = .headers then readHeaders env app s1 else (s1, true)).1 := by
      split
      · rename_i hr; exact readHeaders_A happ hhp h1 hr
      · exact h1
    generalize (if s1.rs = .headers then readHeaders env app s1 else (s1, true)) = p at h2 ⊢
    obtain ⟨s3, go⟩ := p
    dsimp only at h2 ⊢
    split
    · exact h2
    · split
      · exact readDataSlot_A happ h2
      · exact A_same ⟨rfl, rfl, rfl, rfl, rfl, id⟩ h2
      · exact h2

theorem onBytesWritten_A (happ : AppQ app) (n : Int) (h : A s) :
    A (onBytesWritten env app s n) := by
  unfold onBytesWritten
  have h2 : A (if s.ws = .headers then
      if s.hdrRemaining - n > 0 then ({ s with hdrRemaining := s.hdrRemaining - n }, n)
      else ({ s with ws := .data }, n - s.hdrRemaining)
    else (s, n)).1 := by
    split
    · split <;> exact A_same ⟨rfl, rfl, rfl, rfl, rfl, id⟩ h
    · exact h
  generalize (if s.ws = .headers then
      if s.hdrRemaining - n > 0 then ({ s with hdrRemaining := s.hdrRemaining - n }, n)
      else ({ s with ws := .data }, n - s.hdrRemaining)
    else (s, n)) = p at h2 ⊢
  obtain ⟨s3, b⟩ := p
  dsimp only at h2 ⊢
  split
  · exact emit_A happ rfl _ (happ.bw _) h2
  · exact h2

theorem onReadChannelFinished_A (happ : AppQ app) (h : A s) :
    A (onReadChannelFinished env app s) := by
  unfold onReadChannelFinished
  split
  · exact emit_A happ rfl _ (happ.rcf _) h
  · exact h

/-- `A` does not look at the transport's fields -/
theorem A_tcp {s : Sock} (t : Tcp) (h : A s) : A { s with tcp := t } := ⟨h.1, h.2⟩

theorem ackN_A (happ : AppQ app) (n : Nat) (h : A s) : A (ackN env app s n) := by
  unfold ackN
  extract_lets n' src s2 s3
  split
  · exact h
  · have h3 : A s3 := onBytesWritten_A happ _ (A_tcp _ h)
    split
    · exact emitDc_A happ (A_tcp _ h3)
    · exact h3

/-! ### events and the run -/

theorem step_A (happ : AppQ app) (hhp : ∀ s, hpFirst (app.onHp s) = true) (e : Event)
    (he : evOK e = true) (h : A s) : A (step env app s e) := by
  unfold step
  split
  · exact h
  · cases e with
    | prebuf bs => exact A_tcp _ h
    | new => exact ⟨h.1, h.2⟩
    | feed seg => exact onReadyRead_A happ hhp (A_tcp _ h)
    | ack n => exact ackN_A happ n h
    | ackAll => exact ackN_A happ _ h
    | peerClose =>
      dsimp only
      split
      · exact h
      · exact emitDc_A happ (onReadChannelFinished_A happ (A_tcp _ h))
    | turn =>
      dsimp -zeta only
      extract_lets s2
      have h2 : A s2 := by
        simp only [s2]; split
        · exact onReadyRead_A happ hhp ⟨h.1, h.2⟩
        · exact h
      split
      · have := A_snoc .del rfl rfl h2
        exact ⟨this.1, this.2⟩
      · exact h2
    | api op => exact api_A happ he h

theorem stepK_A (happ : AppQ app) (hhp : ∀ s, hpFirst (app.onHp s) = true) (k : Nat) (e : Event)
    (he : evOK e = true) (h : A s) : A (stepK env app (s, k) e).1 := by
  unfold stepK
  dsimp only
  apply step_A happ hhp e he
  split
  · exact h
  · have := A_snoc (.ev k) rfl rfl h
    exact ⟨this.1, this.2⟩

theorem fold_A (happ : AppQ app) (hhp : ∀ s, hpFirst (app.onHp s) = true) (evs : List Event)
    (hevs : evs.all evOK = true) (s : Sock) (k : Nat) (h : A s) :
    A (evs.foldl (stepK env app) (s, k)).1 := by
  induction evs generalizing s k with
  | nil => exact h
  | cons e evs ih =>
    simp only [List.all_cons, Bool.and_eq_true] at hevs
    rw [List.foldl_cons]
    have h' := stepK_A (env := env) happ hhp k e hevs.1 h
    have e1 : stepK env app (s, k) e = ((stepK env app (s, k) e).1, k + 1) := by
      simp [stepK]
    rw [e1]
    exact ih hevs.2 _ _ h'

/-- at the end of every run: nothing handed to the application after the close, and a socket
    still reading the request head has not shut its transport -/
theorem run_A (happ : AppQ app) (hhp : ∀ s, hpFirst (app.onHp s) = true) (evs : List Event)
    (hevs : evs.all evOK = true) : A (Sock.run env app evs) := by
  unfold Sock.run
  exact fold_A happ hhp evs hevs {} 0 A_init

end Qhttp.C19L
