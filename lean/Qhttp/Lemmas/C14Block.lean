import Qhttp.Lemmas.C14Base
/-
  C14 helper lemmas, part 2: the block loop of a random-access copy.
  `Running c nt s`: after `nt` blocks the copy is armed for the next one and has written
  exactly the first `nt * block` bytes of `wanted c`; `nextBlock` either finishes or moves
  to `Running c (nt+1)` (the measure `|wanted| - |written|` drops by `block`).
-/
namespace Qhttp.C14L
open Qhttp Copier

/-- the position of the first byte copied (`rangeFrom` if > 0, else where the source stands) -/
def f0 (c : Cfg) : Nat := firstPos c

/-- what `rangeOK` means for the quantities the code computes with -/
structure RangeNF (c : Cfg) : Prop where
  from_nonneg : 0 ≤ rangeFrom c
  from_le : (rangeFrom c).toNat ≤ c.src.length
  f0_le : f0 c ≤ c.src.length
  to_cases : (rangeTo c = -1 ∧ wanted c = c.src.drop (f0 c)) ∨
             (∃ tn : Nat, rangeTo c = (tn : Int) ∧ f0 c ≤ tn ∧
                wanted c = (c.src.drop (f0 c)).take (tn + 1 - f0 c))

theorem f0_of_pos (c : Cfg) (h : rangeFrom c > 0) : f0 c = (rangeFrom c).toNat := by
  simp [f0, firstPos, h]
theorem f0_of_zero (c : Cfg) (h : ¬ rangeFrom c > 0) : f0 c = c.prePos := by
  simp only [f0, firstPos, h, if_false]

theorem rangeNF_of_ok (c : Cfg) (h : rangeOK c = true) : RangeNF c := by
  unfold rangeOK at h
  cases hr : c.range with
  | none =>
    simp only [hr, decide_eq_true_eq] at h
    have e1 : rangeFrom c = 0 := by simp [rangeFrom, hr]
    have e0 : f0 c = c.prePos := f0_of_zero c (by rw [e1]; omega)
    refine ⟨by rw [e1]; omega, by rw [e1]; simp, by rw [e0]; exact h, Or.inl ⟨?_, ?_⟩⟩
    · simp [rangeTo, hr]
    · rw [e0]; simp [wanted, hr]
  | some ft =>
    obtain ⟨f, t⟩ := ft
    simp only [hr, Bool.and_eq_true, Bool.or_eq_true, decide_eq_true_eq, beq_iff_eq] at h
    obtain ⟨⟨hf, ht⟩, hl⟩ := h
    have e1 : rangeFrom c = f := by simp [rangeFrom, hr]
    have e2 : rangeTo c = t := by simp [rangeTo, hr]
    have e0 : f0 c = (if f > 0 then f.toNat else c.prePos) := by simp only [f0, firstPos, e1]
    have e0' : firstPos c = f0 c := rfl
    rw [e0'] at ht hl
    have hfl : f.toNat ≤ c.src.length := by
      by_cases hp : f > 0
      · rw [e0, if_pos hp] at hl; exact hl
      · have : f.toNat = 0 := by omega
        rw [this]; exact Nat.zero_le _
    refine ⟨by rw [e1]; omega, by rw [e1]; exact hfl, hl, ?_⟩
    by_cases hm : t = -1
    · left
      refine ⟨by rw [e2, hm], ?_⟩
      simp only [wanted, hr, ← e0]
      rw [if_neg (by omega), if_pos (by omega)]
    · right
      have ht' : t ≥ (f0 c : Int) := by omega
      refine ⟨t.toNat, by rw [e2]; omega, by omega, ?_⟩
      simp only [wanted, hr, ← e0]
      rw [if_neg (by omega), if_neg (by omega), if_neg (by omega)]

theorem wanted_len_le (c : Cfg) (h : RangeNF c) : (wanted c).length ≤ c.src.length - f0 c := by
  rcases h.to_cases with ⟨_, e⟩ | ⟨tn, _, _, e⟩ <;> rw [e] <;> simp <;> omega

def faultAt (c : Cfg) (nt : Nat) : Bool := c.readFailAt == some nt || c.writeFailAt == some nt

/-- block `j` is actually attempted by a copy left to run -/
def reach (c : Cfg) (j : Nat) : Prop := j = 0 ∨ j * c.block < (wanted c).length

structure Running (c : Cfg) (nt : Nat) (s : St) : Prop where
  pending : s.pending = .nextBlock
  stopped : s.stopped = false
  reads : s.reads = nt
  writes : s.writes = nt
  pos : s.pos = f0 c + nt * c.block
  more : nt = 0 ∨ nt * c.block < (wanted c).length
  wr : written s.log = (wanted c).take (nt * c.block)
  nofin : Obs.countP isFin s.log = 0
  noerr : Obs.countP isErr s.log = 0
  startok : startFails c = false
  nofault : ∀ j, j < nt → faultAt c j = false

/-- the copy is over: the timer is idle, one `fin` with only markers after it, and either the
    wanted bytes were written without error, or one error was signalled (a device fault) and a
    prefix was written -/
structure Done (c : Cfg) (s : St) : Prop where
  pending : s.pending = .none
  closed : Closed s.log
  pre : written s.log <+: wanted c
  res : (Obs.countP isErr s.log = 0 ∧ written s.log = wanted c ∧ startFails c = false ∧
           ∀ j, faultAt c j = true → ¬ reach c j) ∨
        (Obs.countP isErr s.log = 1 ∧ anyFault c = true)

/-- the termination measure of the block loop: bytes of `wanted` still to copy -/
def remaining (c : Cfg) (s : St) : Nat := (wanted c).length - (written s.log).length

theorem anyFault_of_faultAt {c : Cfg} {nt : Nat} (h : faultAt c nt = true) : anyFault c = true := by
  unfold faultAt at h; unfold anyFault
  cases hr : c.readFailAt <;> cases hw : c.writeFailAt <;> simp_all

/-- the arithmetic of one block, for a copy positioned at `f0 + m` with `m` bytes of `wanted`
    behind it -/
theorem block_facts (c : Cfg) (hb : 1 ≤ c.block) (h : RangeNF c) (pos : Nat) (m : Nat)
    (hpos : pos = f0 c + m) (hm : m = 0 ∨ m < (wanted c).length) :
    0 ≤ nbN c pos ∧
    nbD c pos = ((wanted c).drop m).take c.block ∧
    (nbDone c pos = true → (wanted c).length ≤ m + c.block) ∧
    (nbDone c pos = false → nbPos c pos = pos + c.block ∧ m + c.block < (wanted c).length) := by
  have hl := wanted_len_le c h
  have hf := h.f0_le
  rcases h.to_cases with ⟨et, ew⟩ | ⟨tn, et, hft, ew⟩
  · have hwl : (wanted c).length = c.src.length - f0 c := by rw [ew]; simp
    have hpast : nbPast c pos = false := by simp [nbPast, et]
    have hn : nbN c pos = ((nbData c pos).length : Int) := by simp [nbN, hpast]
    have hdl : (nbData c pos).length = min c.block (c.src.length - pos) := by simp [nbData]
    refine ⟨by rw [hn]; omega, ?_, ?_, ?_⟩
    · simp only [nbD, hn, Int.toNat_natCast, List.take_length]
      rw [ew, List.drop_drop, ← hpos]; rfl
    · simp only [nbDone, hpast, Bool.or_false, decide_eq_true_eq, nbPos, hdl]
      omega
    · simp only [nbDone, hpast, Bool.or_false, decide_eq_false_iff_not, nbPos, hdl]
      omega
  · have hwl : (wanted c).length = min (tn + 1 - f0 c) (c.src.length - f0 c) := by rw [ew]; simp
    have hdl : (nbData c pos).length = min c.block (c.src.length - pos) := by simp [nbData]
    have hpast : nbPast c pos = decide (nbPos c pos > tn) := by
      simp only [nbPast, et]
      have : ((tn : Int) != -1) = true := by simp
      rw [this, Bool.true_and]
      simp
    have hpp : nbPos c pos = pos + min c.block (c.src.length - pos) := by simp [nbPos, hdl]
    by_cases hp : nbPos c pos > tn
    · have hpast' : nbPast c pos = true := by rw [hpast]; simp [hp]
      have hn : nbN c pos = ((tn + 1 - pos : Nat) : Int) := by
        simp only [nbN, hpast', if_true, et]; rw [hpp] at hp ⊢; rw [hdl]; omega
      refine ⟨by rw [hn]; omega, ?_, ?_, ?_⟩
      · simp only [nbD, hn, Int.toNat_natCast, nbData, List.take_take]
        rw [ew, List.drop_take, List.take_take, List.drop_drop, ← hpos]
        apply List.take_eq_take_iff.2
        simp only [List.length_drop]
        omega
      · intro _; omega
      · simp [nbDone, hpast']
    · have hpast' : nbPast c pos = false := by rw [hpast]; simp [hp]
      have hn : nbN c pos = ((nbData c pos).length : Int) := by simp [nbN, hpast']
      refine ⟨by rw [hn]; omega, ?_, ?_, ?_⟩
      · simp only [nbD, hn, Int.toNat_natCast, List.take_length]
        simp only [nbData]
        rw [ew, List.drop_take, List.take_take, List.drop_drop, ← hpos]
        apply List.take_eq_take_iff.2
        simp only [List.length_drop]
        omega
      · simp only [nbDone, hpast', Bool.or_false, decide_eq_true_eq]
        omega
      · simp only [nbDone, hpast', Bool.or_false, decide_eq_false_iff_not]
        omega


theorem Running.pos_facts {c : Cfg} {nt : Nat} {s : St} (h : Running c nt s) :
    s.pos = f0 c + nt * c.block ∧ (nt * c.block = 0 ∨ nt * c.block < (wanted c).length) := by
  refine ⟨h.pos, ?_⟩
  rcases h.more with h0 | h1
  · left; simp [h0]
  · right; exact h1

/-- a device fault at this block: error, then completion; nothing more is written -/
theorem nextBlock_fault (c : Cfg) (nt : Nat) (s : St)
    (h : Running c nt s) (hf : faultAt c nt = true) :
    Done c (nextBlock c { s with pending := .none }) ∧
    Obs.countP isErr (nextBlock c { s with pending := .none }).log = 1 ∧
    written (nextBlock c { s with pending := .none }).log = written s.log := by
  have hs0 : ({ s with pending := Pending.none } : St).stopped = false := h.stopped
  have hcl : Closed (s.log ++ [err, fin]) := by
    have : s.log ++ [err, fin] = (s.log ++ [err]) ++ [fin] := by simp
    rw [this]; apply Closed.of_snoc_fin
    rw [cnt_append, h.nofin]; simp [cnt_cons]
  have he : Obs.countP isErr (s.log ++ [err, fin]) = 1 := by
    rw [cnt_append, h.noerr]; simp [cnt_cons]
  have hw : written (s.log ++ [err, fin]) = written s.log := by
    rw [written_append]
    have : written [err, fin] = [] := by simp [written, err, fin]
    rw [this, List.append_nil]
  have hpre : written s.log <+: wanted c := by rw [h.wr]; exact List.take_prefix _ _
  have key : (nextBlock c { s with pending := .none }).pending = .none ∧
      (nextBlock c { s with pending := .none }).log = s.log ++ [err, fin] := by
    rw [nextBlock_eq c _ hs0]
    simp only [h.reads, h.writes]
    cases h1 : (c.readFailAt == some nt)
    · have h2 : wfail c nt (nbN c s.pos) = true := by
        simp only [faultAt, h1, Bool.false_or] at hf
        simp [wfail, hf]
      simp [h2]
    · simp
  obtain ⟨kp, kl⟩ := key
  refine ⟨⟨kp, by rw [kl]; exact hcl, by rw [kl, hw]; exact hpre, Or.inr ⟨by rw [kl]; exact he, anyFault_of_faultAt hf⟩⟩,
    by rw [kl]; exact he, by rw [kl]; exact hw⟩

/-- no fault at this block: the block is written, and the copy either finishes (everything
    wanted has been written, no error) or is re-armed with the measure decreased by `block` -/
theorem nextBlock_ok (c : Cfg) (hb : 1 ≤ c.block) (hr : RangeNF c) (nt : Nat) (s : St)
    (h : Running c nt s) (hf : faultAt c nt = false) :
    (Running c (nt + 1) (nextBlock c { s with pending := .none }) ∧
       remaining c (nextBlock c { s with pending := .none }) + c.block = remaining c s) ∨
    (Done c (nextBlock c { s with pending := .none }) ∧
       Obs.countP isErr (nextBlock c { s with pending := .none }).log = 0 ∧
       written (nextBlock c { s with pending := .none }).log = wanted c ∧
       (wanted c).length ≤ (nt + 1) * c.block) := by
  have hs0 : ({ s with pending := Pending.none } : St).stopped = false := h.stopped
  obtain ⟨hpos, hm⟩ := h.pos_facts
  obtain ⟨bn, bd, bdone, bmore⟩ := block_facts c hb hr s.pos (nt * c.block) hpos hm
  simp only [faultAt, Bool.or_eq_false_iff] at hf
  have h2 : wfail c nt (nbN c s.pos) = false := by
    simp only [wfail, hf.2, Bool.or_false, decide_eq_false_iff_not]; omega
  have hmul : (nt + 1) * c.block = nt * c.block + c.block := Nat.succ_mul _ _
  have hwr : written s.log ++ nbD c s.pos = (wanted c).take ((nt + 1) * c.block) := by
    rw [h.wr, bd, hmul, List.take_add]
  rw [nextBlock_eq c _ hs0]
  simp only [h.reads, h.writes, hf.1, h2, Bool.false_eq_true, if_false]
  cases hd : nbDone c s.pos
  · left
    obtain ⟨hp', hlt⟩ := bmore hd
    simp only [Bool.false_eq_true, if_false, List.append_nil]
    have hw' : written (s.log ++ wr (nbD c s.pos)) = (wanted c).take ((nt + 1) * c.block) := by
      rw [written_append, written_wr, hwr]
    refine ⟨⟨rfl, h.stopped, rfl, rfl, ?_, Or.inr (by rw [hmul]; exact hlt), hw', ?_, ?_, h.startok, ?_⟩, ?_⟩
    · show nbPos c s.pos = _
      rw [hp', hmul]; show s.pos + c.block = _; rw [hpos]; omega
    · rw [cnt_append, h.nofin, wr_fin]
    · rw [cnt_append, h.noerr, wr_err]
    · intro j hj
      by_cases hjn : j = nt
      · subst hjn; simp [faultAt, hf.1, hf.2]
      · exact h.nofault j (by omega)
    · simp only [remaining]
      rw [hw', h.wr, List.length_take, List.length_take, hmul]
      omega
  · right
    have hle := bdone hd
    simp only [if_true]
    have hw' : written (s.log ++ (wr (nbD c s.pos) ++ [fin])) = wanted c := by
      rw [written_append, written_append, written_wr, written_fin, List.append_nil, hwr]
      apply List.take_of_length_le; rw [hmul]; exact hle
    have he' : Obs.countP isErr (s.log ++ (wr (nbD c s.pos) ++ [fin])) = 0 := by
      rw [cnt_append, cnt_append, h.noerr, wr_err]; simp [cnt_cons]
    have hnf : ∀ j, faultAt c j = true → ¬ reach c j := by
      intro j hj hreach
      have hjn : nt + 1 ≤ j := by
        by_cases hlt : j < nt
        · rw [h.nofault j hlt] at hj; cases hj
        · by_cases hjn : j = nt
          · subst hjn; simp [faultAt, hf.1, hf.2] at hj
          · omega
      have := Nat.mul_le_mul_right c.block hjn
      rcases hreach with h0 | h1 <;> omega
    refine ⟨⟨rfl, ?_, by rw [hw']; exact List.prefix_refl _, Or.inl ⟨he', hw', h.startok, hnf⟩⟩, he', hw', by rw [hmul]; exact hle⟩
    rw [← List.append_assoc]
    apply Closed.of_snoc_fin
    rw [cnt_append, h.nofin, wr_fin]

/-- the loop variant: a `nextBlock` on a running copy finishes it or strictly decreases the
    number of bytes still to copy -/
theorem nextBlock_progress (c : Cfg) (hb : 1 ≤ c.block) (hr : RangeNF c) (nt : Nat) (s : St)
    (h : Running c nt s) :
    Done c (nextBlock c { s with pending := .none }) ∨
    (Running c (nt + 1) (nextBlock c { s with pending := .none }) ∧
       remaining c (nextBlock c { s with pending := .none }) < remaining c s) := by
  cases hf : faultAt c nt
  · rcases nextBlock_ok c hb hr nt s h hf with ⟨hr', hm⟩ | ⟨hd, _⟩
    · right; exact ⟨hr', by omega⟩
    · left; exact hd
  · left; exact (nextBlock_fault c nt s h hf).1

end Qhttp.C14L
